import InfernoVerif.Props.C09
import InfernoVerif.Model.Split
import InfernoVerif.Drv.Proto
#print axioms InfernoVerif.Split.stdp_split_nonneg
#print axioms InfernoVerif.Split.stdp_split_nets
#print axioms InfernoVerif.Split.triplet_stdp_split_nonneg
#print axioms InfernoVerif.Split.triplet_stdp_split_nets
#print axioms InfernoVerif.Split.mstdp_split_nonneg
#print axioms InfernoVerif.Split.mstdp_split_nets
#print axioms InfernoVerif.Split.delay_adjusted_stdp_split_nonneg
#print axioms InfernoVerif.Split.delay_adjusted_stdp_split_nets
#print axioms InfernoVerif.Split.delay_adjusted_stdpd_split_nonneg
#print axioms InfernoVerif.Split.delay_adjusted_stdpd_split_nets
#print axioms InfernoVerif.Split.delay_adjusted_mstdp_split_nonneg
#print axioms InfernoVerif.Split.delay_adjusted_mstdp_split_nets
#print axioms InfernoVerif.Split.delay_adjusted_mstdpd_split_nonneg
#print axioms InfernoVerif.Split.delay_adjusted_mstdpd_split_nets
#print axioms InfernoVerif.Split.hebbian_direction
#print axioms InfernoVerif.Split.reward_sign_flips
#print axioms InfernoVerif.Split.reward_sign_flips_tensor
#print axioms InfernoVerif.Split.mstdp_tensor_split_nets
#print axioms InfernoVerif.Split.mstdpd_tensor_split_nets
#print axioms InfernoVerif.Split.mstdp_tensor_split_nonneg
#print axioms InfernoVerif.Split.kernel_split_nets
#print axioms InfernoVerif.Split.kernel_split_nets_sum
#print axioms InfernoVerif.Split.pos_through_upper_neg_through_lower
#print axioms InfernoVerif.Split.homeostasis_split_partial
#print axioms InfernoVerif.Split.homeostasis_net_is_abs
#print axioms InfernoVerif.Split.homeostasis_neg_part_negative
