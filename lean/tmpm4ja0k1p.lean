import InfernoVerif.Props.C02
import InfernoVerif.Lemmas.SelectQ
import InfernoVerif.Model.Select
import InfernoVerif.Model.SelectQ
import InfernoVerif.Gen.InterpolationF
import InfernoVerif.Gen.ExtrapolationF
import InfernoVerif.Gen.Dispatch
#print axioms InfernoVerif.Select.select_on_grid_nearest
#print axioms InfernoVerif.Select.select_on_grid
#print axioms InfernoVerif.Select.select_off_grid
#print axioms InfernoVerif.Select.on_or_off_grid
#print axioms InfernoVerif.Select.select_scalar_eq_tensor
#print axioms InfernoVerif.Select.select_eq_spec
#print axioms InfernoVerif.Select.select_rejects_out_of_range
#print axioms InfernoVerif.Select.select_valueError_iff
#print axioms InfernoVerif.Select.insert_on_grid_exact
#print axioms InfernoVerif.Select.insert_off_grid
#print axioms InfernoVerif.Select.insert_scalar_eq_tensor
#print axioms InfernoVerif.Select.insert_touches_only_brackets
#print axioms InfernoVerif.Select.insert_rejects_out_of_range
#print axioms InfernoVerif.Select.insert_valueError_iff
#print axioms InfernoVerif.Select.insert_eq_spec
#print axioms InfernoVerif.Select.insert_then_select_on_grid
#print axioms InfernoVerif.Select.insert_then_select
#print axioms InfernoVerif.Select.roundTrip_of_pair
#print axioms InfernoVerif.Select.insert_then_select_previous
#print axioms InfernoVerif.Select.insert_then_select_next
#print axioms InfernoVerif.Select.insert_then_select_nearest
#print axioms InfernoVerif.Select.insert_then_select_linear_forward
#print axioms InfernoVerif.Select.insert_then_select_linear_backward
#print axioms InfernoVerif.Select.insert_then_select_expdecay
#print axioms InfernoVerif.Select.insert_then_select_expratedecay
#print axioms InfernoVerif.Select.insert_then_select_neighbors
#print axioms InfernoVerif.Select.insert_then_select_neighbors_linear
#print axioms InfernoVerif.Select.interp_previous_bracket
#print axioms InfernoVerif.Select.interp_next_bracket
#print axioms InfernoVerif.Select.interp_nearest_bracket
#print axioms InfernoVerif.Select.z2_wf
#print axioms InfernoVerif.Select.half_off_grid
#print axioms InfernoVerif.Select.half_in_range
#print axioms InfernoVerif.Select.round_trip_fails_for_mismatched_pair
#print axioms InfernoVerif.Select.linear_forward_pair_fails_at_zero
#print axioms InfernoVerif.Select.linear_backward_pair_fails_at_dt
#print axioms InfernoVerif.Select.rhe_quarter
#print axioms InfernoVerif.Select.select_on_grid_needs_small_tol
#print axioms InfernoVerif.Select.negative_tolerance_splits_scalar_and_tensor
