import InfernoVerif.Gen.ProgPrelude
import InfernoVerif.Model.Record
/-!
Vocabulary of the statement-level translator `harness/progtx_record.py` (hand written, core Lean only).

`progtx_record.py` regenerates, on every run, the whole bodies of the temporal SETTERS of `RecordTensor`
(`dt.setter`, `duration.setter`, `inclusive.setter`) and of `RecordTensor.reconstrain` from
`inferno/core/infrastructure.py` as programs over the private state `RecT` below (`Gen/RecordProg.lean`).

* Python semantics of exceptions are kept: an assignment made before a raise persists.  The programs
  therefore live in `Except (Err × RecT τ) _` — the error carries the state at the point of the raise.
  Failing primitives are plain `Except Err _`; the generated text wraps each of them in `raising self`.
* Times are of an abstract type `τ` with the operations of `Record.TimeOps` (`argtest.gt(·, 0)`,
  `argtest.gte(·, 0)`, `math.ceil(· / ·)`), so the programs can be run at exact rationals (`Record.ratOps`).
* `self.align(…)` is NOT re-translated: it is the already regenerated `RingProg.RecordTensor_align`
  (`Gen/RingProg.lean`), run on the ring view of the state (`viaRT`: data, pointer, `__recordsz`).
* `ShapedTensor.reconstrain(self, dim, size)` is ONE primitive (`ShapedTensor_reconstrain`), by instruction not
  translated: the constraint bookkeeping is `Shaped.reconDecide` (`Model/Shaped.lean`), a decided resize of the
  history dimension is `Record.resizeTail` with zero rows (`__make_compatible`: keep the tail / prepend zeros).
  Values are `Int` as in `Model/Record.lean` (`Row = List Int`).
-/
set_option linter.unusedVariables false
namespace InfernoVerif.Gen.RecordPrelude
open InfernoVerif.Ring InfernoVerif.Shaped InfernoVerif.Gen.Prog
open InfernoVerif.Record (TimeOps)

/-- the private state of a `RecordTensor` that the translated setters read and write (attributes of the owner
module reached through `self.__owner()` / `self.__attributes`) -/
structure RecT (τ : Type) where
  dt          : τ                     -- `self.__dt`
  duration    : τ                     -- `self.__duration`
  inclusive   : Bool                  -- `self.__inclusive`
  constraints : Cons                  -- `self.__constraints` (raw keys: `0 ↦ recordsz`)
  strict      : Bool                  -- `ShapedTensor.__strict`
  param       : Bool                  -- storage is an `nn.Parameter` (not read by the translated methods)
  data        : Store (Stack Int)     -- `self.__data`
  pointer     : Int                   -- `self.__pointer`
deriving Repr

variable {τ α : Type}

/-- a failing primitive raises in state `self`: the exception carries the state reached so far -/
def raising (self : RecT τ) : Except Err α → Except (Err × RecT τ) α
  | .ok a => .ok a
  | .error e => .error (e, self)

/-- `argtest.gt(name, value, 0, float)`: the value, or ValueError unless it is positive -/
def argtest_gt (T : TimeOps τ) (value : τ) : Except Err τ :=
  if T.pos value then .ok value else .error .ValueError

/-- `argtest.gte(name, value, 0, float)`: the value, or ValueError unless it is non-negative -/
def argtest_gte (T : TimeOps τ) (value : τ) : Except Err τ :=
  if T.nonneg value then .ok value else .error .ValueError

/-- `self.__recordsz`, i.e. `self.__constraints[0]` (KeyError without that key) -/
def recordsz (self : RecT τ) : Except Err Int :=
  match self.constraints.lookup 0 with
  | some n => .ok (n : Int)
  | none => .error .KeyError

/-- a Python `bool` used as an `int` (`x + self.__inclusive`, `dim + (dim >= 0)`) -/
def boolInt (b : Bool) : Int := if b then 1 else 0

/-- run a regenerated method of the ring part (`Gen/RingProg.lean`, private state `RT`) on this record: the ring
view is (data, pointer, `__recordsz`); data and pointer are written back.  `Except Err` of `RingProg` does not
carry a state, so a raise is taken to leave the state as it was (true of `align`: both of its raises precede its
two assignments). -/
def viaRT (self : RecT τ) (m : RT Int → Except Err (RT Int × α)) : Except (Err × RecT τ) (RecT τ × α) :=
  match recordsz self with
  | .error e => .error (e, self)
  | .ok n =>
    match m ⟨self.data, self.pointer, n⟩ with
    | .error e => .error (e, self)
    | .ok (g, a) => .ok ({ self with data := g.data, pointer := g.pointer }, a)

/-- the shape `ShapedTensor.reconstrain` sees: `none` when the storage is ignored -/
def storeShape? : Store (Stack Int) → Option (List Nat)
  | .init _ _ s => some (s.rows.length :: s.oshape)
  | _ => none

/-- `ShapedTensor.reconstrain(self, dim, size)` (raw `dim`: `0` is the history dimension); returns the newly
constrained value.  One constructor of `Shaped.Decision` per exit of the Python method:
refuse before anything changed; replace the constraints; `del constraints[dim]` and then raise; replace the
constraints and resize tensor dimension `t` (`__make_compatible`: shrink keeps the tail, grow prepends zeros). -/
def ShapedTensor_reconstrain (self : RecT τ) (dim : Int) (size : Option Int) :
    Except (Err × RecT τ) (RecT τ × Store (Stack Int)) :=
  match reconDecide self.constraints self.strict (storeShape? self.data) dim size with
  | .err e => .error (e, self)
  | .set c => .ok ({ self with constraints := c }, self.data)
  | .setErr c e => .error (e, { self with constraints := c })
  | .resize c t n =>
    match self.data with
    | .init _ _ s =>
      let s' : Stack Int :=
        if t = 0 then { s with rows := Record.resizeTail s.rows n (Record.zeroRow s.oshape) }
        else { s with oshape := s.oshape.set (t - 1) n, rows := s.rows.map (resizeDim s.oshape (t - 1) n) }
      .ok ({ self with constraints := c, data := Store.ofStack s' }, Store.ofStack s')
    | _ => .error (.Other, self)      -- unreachable: an ignored value is never resized

end InfernoVerif.Gen.RecordPrelude
