import InfernoVerif.Model.Hooks
/-!
Vocabulary of the statement-level translator `harness/progtx_hooks.py` (hand written, core Lean only).

`progtx_hooks.py` regenerates, on every run, the whole bodies of `_detach_handles`, `Hook.trainexec` /
`evalexec` (getters and setters), `Hook.registered`, `Hook.__wrapped_prehook`, `Hook.__wrapped_posthook`,
`Hook.register`, `Hook.deregister`, `StateHook.register`, `StateHook.forward`
(`inferno/core/infrastructure.py`) as `Except (Err × state)` programs (`Gen/HookProg.lean`).  An exception
carries the state at the raise (Python keeps the assignments made before a `raise`).

What the programs act on:
* `TorchModule` — the ONE `torch.nn.Module` of `Model/Hooks.lean`: its `training` flag, torch's handle
  counter (`RemovableHandle.next_id`) and the two ordered hook dictionaries `_forward_pre_hooks` /
  `_forward_hooks`.  Unlike the model's association lists `(handle id, hook index)`, an entry here keeps the
  registered callable itself (`Callback`): which hook object its weak reference points to AND which wrapped
  method it calls.
* `HW` — the world seen from inside a method of a hook object: the module, the heap of hook objects
  (the model's `Hooks.Hook` records), the identity `me` of `self` in that heap and the private fields `obj`
  of `self` (loaded on entry; `Props/C16GlueProg.lean :: toM` writes them back).
  Every `module` parameter and `StateHook.module` (the property returning `_hooked_module`) denote `HW.module`.

Private fields of `self` ↦ fields of the model's `Hooks.Hook` record:
`__prehook_handle` ↦ `preH` (the id; that it is a handle of `_forward_pre_hooks` is a typing rule of the
translator: `register_forward_pre_hook` returns a `pre` handle and only such a handle may be stored there),
`__posthook_handle` ↦ `postH`, `__finalizer` ↦ `fin` (the handles the attached finaliser captured),
`__call_train` ↦ `trainexec`, `__call_eval` ↦ `evalexec`, truthiness of `_prehook_call` / `_posthook_call` ↦
`cfg.hasPre` / `cfg.hasPost`, `**__prehook_kwargs` / `**__posthook_kwargs` ↦ their `prepend` entry
`cfg.prependPre` / `cfg.prependPost` (`with_kwargs`, `always_call` do not affect anything modelled).

Every torch / CPython primitive the bodies use is a function of this file named after it, behaving as
`Model/Hooks.lean` documents it.
-/
set_option linter.unusedVariables false
namespace InfernoVerif.Gen.HookPrelude
open InfernoVerif.Hooks

/-- `torch.utils.hooks.RemovableHandle`: its id and (a weak reference to) the dictionary it was issued for -/
structure Handle where
  id   : Nat
  dict : Pos
deriving DecidableEq, Repr

/-- the callable `Hook.register` puts into a hook dictionary:
`lambda module, *args, **kwargs: weakself().__wrapped_<pos>hook(module, *args, **kwargs)` with
`weakself = weakref.ref(<hook object number target>)` -/
structure Callback where
  target : Nat
  pos    : Pos
deriving DecidableEq, Repr

/-- the hooked `torch.nn.Module` -/
structure TorchModule where
  training : Bool
  nextId   : Nat                          -- `RemovableHandle.next_id`
  pre      : List (Nat × Callback)        -- `_forward_pre_hooks` (an `OrderedDict`: handle id ↦ callable)
  post     : List (Nat × Callback)        -- `_forward_hooks`
deriving DecidableEq, Repr

/-- the world of a method running on the hook object number `me` -/
structure HW where
  module : TorchModule
  heap   : List Hook
  me     : Nat
  obj    : Hook
deriving DecidableEq, Repr

/-- reading `self.__prehook_handle` (`p = .pre`) / `self.__posthook_handle` (`p = .post`) -/
def handleOf (p : Pos) (h : Option Nat) : Option Handle := h.map fun id => ⟨id, p⟩

/-- `weakref.ref(self)`: refers to the object without keeping it alive — its identity -/
def weakref_ref (self : HW) : Nat := self.me

/-- `argtest.instance("module", module, nn.Module)`: a `TorchModule` is one (`TypeError` otherwise cannot
arise for a value of this type); returns the value -/
def argtest_instance_Module {σ : Type} (m : TorchModule) : Except (Err × σ) TorchModule := .ok m

/-- `module.register_forward_pre_hook(fn, prepend=prepend)`: a fresh `RemovableHandle` on
`_forward_pre_hooks`, `fn` stored under its id at the end of the `OrderedDict`, moved to the front with
`prepend=True`; returns the module after the call and the handle -/
def register_forward_pre_hook (m : TorchModule) (fn : Callback) (prepend : Bool) : TorchModule × Handle :=
  ({ m with pre := if prepend then (m.nextId, fn) :: m.pre else m.pre ++ [(m.nextId, fn)],
            nextId := m.nextId + 1 }, ⟨m.nextId, .pre⟩)

/-- `module.register_forward_hook(fn, prepend=prepend)`: the same on `_forward_hooks` -/
def register_forward_hook (m : TorchModule) (fn : Callback) (prepend : Bool) : TorchModule × Handle :=
  ({ m with post := if prepend then (m.nextId, fn) :: m.post else m.post ++ [(m.nextId, fn)],
            nextId := m.nextId + 1 }, ⟨m.nextId, .post⟩)

/-- `handle.remove()`: `del hooks_dict[handle.id]` if present (never raises) -/
def RemovableHandle_remove (m : TorchModule) (h : Handle) : TorchModule :=
  match h.dict with
  | .pre => { m with pre := m.pre.filter fun e => e.1 != h.id }
  | .post => { m with post := m.post.filter fun e => e.1 != h.id }

/-- `weakref.finalize(self, _detach_handles, pre, post)`: the finaliser object, represented (as in the model)
by the handles it captured — `pre` a handle of `_forward_pre_hooks` or `None`, `post` one of
`_forward_hooks` or `None`.  When the object is collected an attached finaliser calls
`_detach_handles(pre, post)` (`Props/C16GlueProg.lean :: gen_finalizer`). -/
def weakref_finalize (pre post : Option Handle) : Option Nat × Option Nat :=
  (pre.map (·.id), post.map (·.id))

/-- `self.__finalizer.detach()`: the finaliser will not run any more.  A detached finaliser is represented like
`None`; the translator only accepts `if self.__finalizer: self.__finalizer.detach()` immediately followed by an
assignment to `self.__finalizer`, so the difference (a dead `finalize` object is still truthy) is never read. -/
def finalizer_detach (self : HW) : HW := { self with obj := { self.obj with fin := none } }

/-- a call of a module-level function (state: the module) from a method (state: `HW`) -/
def viaModule {α : Type} (self : HW) (x : Except (Err × TorchModule) (TorchModule × α)) :
    Except (Err × HW) (HW × α) :=
  match x with
  | .ok (m, a) => .ok ({ self with module := m }, a)
  | .error (e, m) => .error (e, { self with module := m })

end InfernoVerif.Gen.HookPrelude
