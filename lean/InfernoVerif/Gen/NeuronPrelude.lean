/-!
Vocabulary of the statement-level translator `harness/progtx_neuron.py` (hand written, core Lean only).

`progtx_neuron.py` regenerates, on every run, the whole bodies of `forward`, `clear`, `_integrate_v` of the eight
neuron classes (`inferno/neural/neurons/{linear,nonlinear}.py`) and of the state mixins
(`inferno/neural/neurons/mixins.py`: `VoltageMixin.voltage`, `RefractoryMixin.refrac`, `SpikeRefractoryMixin.spike`,
`AdaptiveThresholdMixin.threshold_adaptation`, `AdaptiveCurrentMixin.current_adaptation`, getters and setters) as
programs over the object `Neuron` below (`Gen/NeuronProg.lean`).  The element-wise kernels they call are the
GENERATED `Gen/NeuronDynamicsF.lean` / `Gen/NeuronAdaptationF.lean`.

**Element view (the same as `Model/NeuronF.lean` and the driver of C03).**  Every kernel is element-wise over
`(batch, *shape)`, so a program follows ONE neuron of ONE sample, with batch size 1: a tensor of shape
`(batch, *shape)` — `inputs`, `self.voltage`, `self.refrac`, `spikes` — is its entry there (`Float` / `Bool`);
a buffer of shape `(k,)` (`tc_adaptation`, `adapt_increment`, …) is a `List Float`.  Only the adaptation state
mixes samples (the setters reduce over the batch dimension), so adaptation tensors keep their torch shape and one
vector per index of the leading dimension: `ATensor`.

* The stored `threshold_adaptation_` / `current_adaptation_` has shape `(*shape, k)`: ONE vector at the neuron
  followed (`first`, `more = []`).
* The value an adaptation kernel returns has shape `(batch, *shape, k)` — the stored tensor broadcast against
  `spikes.unsqueeze(-1)`: `ATensor.ofKernel stored r`, with batch size 1 (`1 :: stored.shape`, one row `r`).
* `self.__batchreduce(value, 0)` is the user's reduction (default `torch.mean`) applied to the rows: a field of
  `Neuron` (`List (List Float) → List Float`), one per mixin because the attribute is name-mangled.

`self.voltage_.value` / `self.refrac_.value`: the mixin constructors create these `ShapedTensor`s with `live=False`
(checked by the translator), for which the `value` setter is a plain store; the field holds the tensor's entry.
`getattr(self, name)` is `getattrFloat` over the float attributes the constructors set, `AttributeError` otherwise.
Every function is total; nothing defaults.
-/
set_option linter.unusedVariables false
namespace InfernoVerif.Gen.NeuronPrelude

/-- exception classes of the translated bodies -/
inductive Err | RuntimeError | ValueError | TypeError | AttributeError | IndexError | KeyError
deriving DecidableEq, Repr

/-- an adaptation tensor seen at ONE neuron: its torch shape and one vector (last dimension) per index of the
leading dimension — exactly one (`more = []`) for the stored `(*shape, k)` tensor, one per sample for a
`(batch, *shape, k)` tensor -/
structure ATensor where
  shape : List Nat
  first : List Float
  more  : List (List Float) := []

/-- the vector the element-wise kernels read at the element followed (sample 0) -/
def ATensor.elem (t : ATensor) : List Float := t.first

/-- the slices along the leading dimension -/
def ATensor.rows (t : ATensor) : List (List Float) := t.first :: t.more

/-- `torch.zeros_like(t)` -/
def ATensor.zeros_like (t : ATensor) : ATensor :=
  ⟨t.shape, t.first.map (fun _ => (0 : Float)), t.more.map (fun r => r.map (fun _ => (0 : Float)))⟩

/-- the tensor an adaptation kernel returns: the stored adaptations `a` (shape `(*shape, k)`) broadcast against
`spikes.unsqueeze(-1)` (shape `(1, *shape, 1)`, batch size 1); `r` is the kernel's value at the element followed -/
def ATensor.ofKernel (a : ATensor) (r : List Float) : ATensor := ⟨1 :: a.shape, r, []⟩

/-- `value.shape[1:]` -/
def shapeTail (s : List Nat) : List Nat := s.drop 1

/-- `f(value, 0)` for the batch reduction `f` (`torch.mean`, `torch.sum`, `torch.amax`, … or the user's): the
leading dimension is reduced away -/
def batchreduce0 (f : List (List Float) → List Float) (value : ATensor) : ATensor :=
  ⟨shapeTail value.shape, f value.rows, []⟩

/-- `torch.full_like(x, v)` at the element followed -/
def full_like (x v : Float) : Float := v
/-- `torch.zeros_like(x)` at the element followed -/
def zeros_like (x : Float) : Float := (0 : Float)

/-- truth value of a `bool | None` argument -/
def optTruth : Option Bool → Bool
  | some b => b
  | none => false

/-- a neuron object of any of the eight classes (one element, batch size 1).  Fields are named as the Python
attributes; a class sets (in its constructor) and reads only some of them — the translator checks every
attribute a body reads against the constructor chain of the receiver class. -/
structure Neuron where
  -- Python floats set by the constructors
  step_time : Float
  rest_v : Float
  reset_v : Float
  thresh_v : Float
  thresh_eq_v : Float
  refrac_t : Float
  time_constant : Float
  tc_membrane : Float
  resistance : Float
  crit_v : Float
  affinity : Float
  rheobase_v : Float
  sharpness : Float
  reset_v_add : Float
  reset_v_mul : Float
  -- buffers of shape `(k,)`
  tc_adaptation : List Float
  rc_adaptation : List Float
  adapt_increment : List Float
  adapt_vc_coupling : List Float
  -- state
  voltage_ : Float                       -- `self.voltage_.value` (ShapedTensor, `live=False`)
  refrac_ : Float                        -- `self.refrac_.value`
  threshold_adaptation_ : ATensor        -- buffer `threshold_adaptation_`
  current_adaptation_ : ATensor          -- buffer `current_adaptation_`
  training : Bool                        -- `nn.Module.training`
  -- private (name-mangled) attributes of the mixins
  SpikeRefractoryMixin__absrefrac_attr : String
  AdaptiveThresholdMixin__batchreduce : List (List Float) → List Float
  AdaptiveCurrentMixin__batchreduce : List (List Float) → List Float

/-- `getattr(self, name)` for the Python-float attributes; any other name: `AttributeError` -/
def getattrFloat (self : Neuron) (name : String) : Except Err Float :=
  if name = "step_time" then .ok self.step_time
  else if name = "rest_v" then .ok self.rest_v
  else if name = "reset_v" then .ok self.reset_v
  else if name = "thresh_v" then .ok self.thresh_v
  else if name = "thresh_eq_v" then .ok self.thresh_eq_v
  else if name = "refrac_t" then .ok self.refrac_t
  else if name = "time_constant" then .ok self.time_constant
  else if name = "tc_membrane" then .ok self.tc_membrane
  else if name = "resistance" then .ok self.resistance
  else if name = "crit_v" then .ok self.crit_v
  else if name = "affinity" then .ok self.affinity
  else if name = "rheobase_v" then .ok self.rheobase_v
  else if name = "sharpness" then .ok self.sharpness
  else if name = "reset_v_add" then .ok self.reset_v_add
  else if name = "reset_v_mul" then .ok self.reset_v_mul
  else .error Err.AttributeError

end InfernoVerif.Gen.NeuronPrelude
