import InfernoVerif.Model.Isi
import InfernoVerif.Model.VP
/-!
Vocabulary of the statement-level translator `harness/progtx_math.py` (hand written, core Lean only).

`progtx_math.py` regenerates, on every run, the WHOLE BODIES of the module-level functions `isi` and
`victor_purpura_pair_dist` of `inferno/core/math.py` as `Except Err` programs (`Gen/MathProg.lean`).  Every torch /
Python primitive the bodies use is a function of this file, named after the primitive, TOTAL, failing with the
exception class the real primitive raises (never defaulting).  Where `Model/Isi.lean` / `Model/VP.lean` already define a
helper for a primitive (`nzFrom`, `tensorSplit`, `maxLen`, `diffOpt`, `transposeN`, `absQ`), the vocabulary function
is defined THROUGH that helper, so that the glue theorems (`Props/C20GlueProg.lean`) are about the statement structure
of the function bodies and not about two copies of a primitive.

## Values

* Python `float` scalars that are finite by contract (`step_time`) are exact rationals (`Rat`), as in the models;
  Python `int`s are `Int` (`Nat` where the source can only produce a size / an index).
* `isi`: a float tensor holds finite values or NaN: `Option Rat` (`none` = NaN), the representation of `Model/Isi.lean`.
* `victor_purpura_pair_dist`: a float is a `Val` — a rational, `+∞`, `−∞` or NaN — with IEEE arithmetic on the
  non-finite values (`∞ · 0 = NaN`, `∞ − ∞ = NaN`, NaN propagates through `+ − · abs amin`).  Rounding and dtype
  promotion are NOT modelled (exact rationals, as in `Model/VP.lean`).  The one dtype-dependent value the function's
  result can depend on is the replacement of `±∞` by `nan_to_num` (its `posinf` / `neginf` are left at `None`: the
  greatest finite value of the dtype, `3.4028e38` for float32): it is the parameter `fmax` of `nan_to_num2`, handed
  to the generated program as a parameter.
* `dtype=` / `device=` keywords and the dictionary `tckwargs = {"dtype": cost.dtype, "device": cost.device}` are
  dropped by the translator.

## Tensors

* `Mat α`: a 2-D tensor WITH its declared shape (a tensor with a zero dimension still has its other dimension);
  `Mat.WF` says the rows agree with the shape.  `isi` is translated for a 2-D raster (`N₀ × T` or `T × N₀`): the
  batch dimensions `N₀ × ⋯` are one dimension (the source flattens them itself through `nonzero` / `view`), so
  `*spikes.shape[:-1]` is the single number `spikes.nrows`.
* 1-D tensors and Python lists are `List`s; the tuple of 1-D tensors `tensor_split` returns is a `List (List _)`.
* `Grid3`: the 3-D tensor `k × (n+1) × (m+1)` of the dynamic programme, stored with the LEADING (cost) axis
  INNERMOST: `grid[r][c]` is the `k`-vector `grid[:, r, c]` (the only way the loops access it).
-/
namespace InfernoVerif.Gen.MathPrelude
open InfernoVerif

/-- exception classes raised by the primitives -/
inductive Err | RuntimeError | IndexError | ValueError | TypeError
deriving DecidableEq, Repr

variable {α : Type}

/-! ## Python scalars, lists, indexing -/

/-- `float(x)` on a finite Python float -/
def pyFloatQ (x : Rat) : Rat := x

/-- `abs(a)` on a Python int -/
def pyAbsI (a : Int) : Int := (a.natAbs : Int)

/-- `range(a, b)` -/
def pyRange (a b : Int) : List Int := (List.range (b - a).toNat).map fun (i : Nat) => a + (i : Int)

/-- `l[k:]` on a Python list, `k ≥ 0` a literal -/
def pySliceFrom (l : List α) (k : Nat) : List α := l.drop k

/-- Python index `i` into a sequence of length `len`: `0 ≤ i < len` or `-len ≤ i < 0`. -/
def pyIdx (len : Nat) (i : Int) : Option Nat :=
  if 0 ≤ i ∧ i < (len : Int) then some i.toNat
  else if -(len : Int) ≤ i ∧ i < 0 then some (i + (len : Int)).toNat
  else none

/-- `x[i]` (a list, or a 1-D tensor giving a 0-d tensor): `IndexError` out of range -/
def getE (l : List α) (i : Int) : Except Err α :=
  match pyIdx l.length i with
  | some k => match l[k]? with
    | some v => pure v
    | none => throw .IndexError
  | none => throw .IndexError

/-- `x[i] = v` on one axis: `IndexError` out of range -/
def setE (l : List α) (i : Int) (v : α) : Except Err (List α) :=
  match pyIdx l.length i with
  | some k => pure (l.set k v)
  | none => throw .IndexError

/-! ## 2-D tensors with their shape -/

structure Mat (α : Type) where
  nrows : Nat
  ncols : Nat
  rows : List (List α)
deriving Repr, DecidableEq

/-- the rows agree with the declared shape -/
def Mat.WF (m : Mat α) : Prop := m.rows.length = m.nrows ∧ ∀ r ∈ m.rows, r.length = m.ncols

/-- transposition of a 2-D tensor (through the model's `transposeN`) -/
def Mat.transpose (m : Mat α) : Mat α := ⟨m.ncols, m.nrows, Isi.transposeN m.ncols m.rows⟩

/-- `ein.rearrange(x, "t ... -> ... t")` on a 2-D tensor -/
def rearrange_time_last (m : Mat α) : Mat α := m.transpose

/-- `ein.rearrange(x, "... t -> t ...")` on a 2-D tensor -/
def rearrange_time_first (m : Mat α) : Mat α := m.transpose

/-- `F.pad(x, (left, right), mode="constant", value=v)`: pads the last dimension -/
def F_pad (m : Mat α) (left right : Nat) (v : α) : Mat α :=
  ⟨m.nrows, left + m.ncols + right, m.rows.map fun r => List.replicate left v ++ r ++ List.replicate right v⟩

/-- `x[:, k:]`, `k ≥ 0` a literal -/
def Mat.sliceColsFrom (m : Mat α) (k : Nat) : Mat α := ⟨m.nrows, m.ncols - k, m.rows.map (·.drop k)⟩

/-- row-major reshape of a flat list to `n` rows of `w` entries -/
def reshapeRows (n w : Nat) (flat : List α) : List (List α) :=
  (List.range n).map fun i => (flat.drop (i * w)).take w

/-- `x.view(n, -1)`: `RuntimeError` when `n = 0` (no or an ambiguous inferred size) or `n ∤ numel` -/
def Mat.view_m1 (m : Mat α) (n : Nat) : Except Err (Mat α) :=
  let numel := m.nrows * m.ncols
  if n = 0 ∨ numel % n ≠ 0 then throw .RuntimeError
  else pure ⟨n, numel / n, reshapeRows n (numel / n) m.rows.flatten⟩

/-! ## `isi`: index tensors -/

/-- `torch.nonzero` of the rows from row index `i` on: the `(row, column)` pairs in row-major order -/
def nonzeroRowsFrom (i : Nat) : List (List Bool) → List (Nat × Nat)
  | [] => []
  | r :: rs => (Isi.nzFrom 0 r).map (fun j => (i, j)) ++ nonzeroRowsFrom (i + 1) rs

/-- `torch.nonzero(x)` of a 2-D boolean tensor (a `z × 2` index tensor) -/
def torch_nonzero2 (m : Mat Bool) : List (Nat × Nat) := nonzeroRowsFrom 0 m.rows

/-- `idx[..., -1]` of a `z × 2` index tensor -/
def lastCoord2 (idx : List (Nat × Nat)) : List Nat := idx.map (·.2)

/-- `torch.logical_not(v)` of an integer tensor: `v == 0` -/
def torch_logical_not_n (v : List Nat) : List Bool := v.map fun a => a == 0

/-- `torch.nonzero(b)` of a 1-D boolean tensor (a `z × 1` index tensor) -/
def torch_nonzero1 (b : List Bool) : List (List Nat) := (Isi.nzFrom 0 b).map fun i => [i]

/-- `x.view(-1)` of a (contiguous) 2-D tensor -/
def view_flat (x : List (List α)) : List α := x.flatten

/-- `x.tolist()` of a 1-D integer tensor -/
def tolist (x : List Nat) : List Nat := x

/-- `v - k` of an integer tensor and a Python int -/
def subNS (v : List Nat) (k : Int) : List Int := v.map fun (a : Nat) => (a : Int) - k

/-- `v * q` of an integer tensor and a Python float -/
def mulIQ (v : List Int) (q : Rat) : List Rat := v.map fun (a : Int) => (a : Rat) * q

/-- `torch.tensor_split(x, indices, dim=-1)` of a 1-D tensor -/
def torch_tensor_split (x : List α) (indices : List Nat) : List (List α) := Isi.tensorSplit x indices

/-- `nn.utils.rnn.pad_sequence(seqs, batch_first=True, padding_value=pv)` of 1-D float tensors (`pv = none`: NaN);
`RuntimeError` on an empty list of sequences -/
def pad_sequence (seqs : List (List Rat)) (pv : Option Rat) : Except Err (Mat (Option Rat)) :=
  match seqs with
  | [] => throw .RuntimeError
  | _ => pure ⟨seqs.length, Isi.maxLen seqs,
      seqs.map fun s => s.map some ++ List.replicate (Isi.maxLen seqs - s.length) pv⟩

/-- `torch.diff(x, dim=-1)` of a 2-D float tensor -/
def torch_diff_last (m : Mat (Option Rat)) : Mat (Option Rat) := ⟨m.nrows, m.ncols - 1, m.rows.map Isi.diffOpt⟩

/-! ## `victor_purpura_pair_dist`: floats with `±∞` and NaN -/

inductive Val | fin (q : Rat) | pinf | ninf | nan
deriving DecidableEq, Repr

namespace Val

def neg : Val → Val
  | fin q => fin (-q) | pinf => ninf | ninf => pinf | nan => nan

def add : Val → Val → Val
  | fin a, fin b => fin (a + b)
  | nan, _ => nan | _, nan => nan
  | pinf, ninf => nan | ninf, pinf => nan
  | pinf, _ => pinf | _, pinf => pinf
  | ninf, _ => ninf | _, ninf => ninf

def sub (a b : Val) : Val := a.add b.neg

/-- `(±∞) · b` (`pos`: the infinite factor is `+∞`) -/
def scaleInf (pos : Bool) : Val → Val
  | fin b => if b = 0 then nan else if 0 < b then (if pos then pinf else ninf) else (if pos then ninf else pinf)
  | pinf => if pos then pinf else ninf
  | ninf => if pos then ninf else pinf
  | nan => nan

def mul : Val → Val → Val
  | fin a, fin b => fin (a * b)
  | nan, _ => nan | _, nan => nan
  | pinf, b => b.scaleInf true
  | ninf, b => b.scaleInf false
  | a, pinf => a.scaleInf true
  | a, ninf => a.scaleInf false

/-- `torch.abs` (on the rationals: the model's `absQ`) -/
def abs : Val → Val
  | fin q => fin (VP.absQ q) | pinf => pinf | ninf => pinf | nan => nan

/-- `a ≤ b` on non-NaN values -/
def le : Val → Val → Bool
  | fin a, fin b => decide (a ≤ b)
  | ninf, _ => true | _, pinf => true
  | _, _ => false

/-- the minimum `amin` takes: NaN propagates -/
def min : Val → Val → Val
  | nan, _ => nan | _, nan => nan
  | a, b => if a.le b then a else b

/-- Python `a == b` on floats: NaN equals nothing -/
def eqPy : Val → Val → Bool
  | nan, _ => false | _, nan => false
  | a, b => decide (a = b)

/-- `nan_to_num(nan=nanv)` on one element, `posinf` / `neginf` left at `None`: `±∞ ↦ ±fmax` -/
def nan_to_num (fmax : Rat) (nanv : Val) : Val → Val
  | fin q => fin q | pinf => fin fmax | ninf => fin (-fmax) | nan => nanv

end Val

/-- the `cost` argument: a Python float or a 1-D tensor -/
inductive CostArg | float (c : Val) | tensor (cs : List Val)
deriving Repr

/-- `float(a)` on a Python int -/
def pyFloatI (a : Int) : Val := .fin (a : Rat)

/-- `float(c)` on a Python float -/
def pyFloatV (c : Val) : Val := c

/-- `x.numel()` of a 1-D tensor -/
def numel (x : List α) : Int := (x.length : Int)

/-- `torch.tensor([x])` -/
def torch_tensor1 (x : Val) : List Val := [x]

/-- `torch.zeros(a, b)`: `RuntimeError` on a negative size -/
def torch_zeros2 (a b : Int) : Except Err (Mat Val) :=
  if a < 0 ∨ b < 0 then throw .RuntimeError
  else pure ⟨a.toNat, b.toNat, List.replicate a.toNat (List.replicate b.toNat (.fin 0))⟩

/-- `torch.arange(a, b)`: `RuntimeError` when `b < a` -/
def torch_arange (a b : Int) : Except Err (List Val) :=
  if b < a then throw .RuntimeError else pure ((pyRange a b).map fun (i : Int) => Val.fin (i : Rat))

/-- `x.t()` of a 1-D tensor -/
def t1d (x : List Val) : List Val := x

/-- a right-hand side of `len` entries, or of one entry broadcast to `len` (index assignment): `RuntimeError` otherwise -/
def expandTo (len : Nat) (x : List α) : Except Err (List α) :=
  if x.length = len then pure x
  else match x with
    | [v] => pure (List.replicate len v)
    | _ => throw .RuntimeError

/-- `g[:, j] = x`: `IndexError` for a column out of range, `RuntimeError` for a right-hand side of another length -/
def Mat.setColE (g : Mat α) (j : Int) (x : List α) : Except Err (Mat α) :=
  match pyIdx g.ncols j with
  | none => throw .IndexError
  | some k => do
    let x ← expandTo g.nrows x
    pure { g with rows := List.zipWith (fun row v => row.set k v) g.rows x }

/-- `g[i, :] = x`: `IndexError` for a row out of range, `RuntimeError` for a right-hand side of another length -/
def Mat.setRowE (g : Mat α) (i : Int) (x : List α) : Except Err (Mat α) :=
  match pyIdx g.nrows i with
  | none => throw .IndexError
  | some k => do
    let x ← expandTo g.ncols x
    pure { g with rows := g.rows.set k x }

/-- the 3-D grid, cost axis innermost: `grid[r][c]` is `grid[:, r, c]` -/
abbrev Grid3 := List (List (List Val))

/-- `g.unsqueeze(0)` of a 2-D tensor -/
def unsqueeze0 (g : Mat Val) : Grid3 := g.rows.map (·.map fun v => [v])

/-- `g.repeat(k, 1, 1)` of a 3-D tensor: `RuntimeError` on a negative count -/
def repeat_k11 (g : Grid3) (k : Int) : Except Err Grid3 :=
  if k < 0 then throw .RuntimeError
  else pure (g.map (·.map fun cell => (List.replicate k.toNat cell).flatten))

/-- `g[:, r, c]` -/
def sel_rc (g : Grid3) (r c : Int) : Except Err (List Val) := do
  let row ← getE g r
  getE row c

/-- `g[:, r, c] = v` (`v` of the length of the leading axis, or of length one) -/
def set_rc (g : Grid3) (r c : Int) (v : List Val) : Except Err Grid3 := do
  let row ← getE g r
  let old ← getE row c
  let v ← expandTo old.length v
  let row ← setE row c v
  setE g r row

/-- `a - b` of two 0-d tensors -/
def subV (a b : Val) : Val := a.sub b

/-- `torch.abs(a)` of a 0-d tensor -/
def absV (a : Val) : Val := a.abs

/-- `v + k` of a 1-D tensor and a Python int -/
def addSI (v : List Val) (k : Int) : List Val := v.map fun a => a.add (.fin (k : Rat))

/-- `v * s` of a 1-D tensor and a 0-d tensor -/
def mulVS (v : List Val) (s : Val) : List Val := v.map fun a => a.mul s

/-- `a + b` of two 1-D tensors: equal lengths, or one of length one (broadcast); `RuntimeError` otherwise -/
def addVV (a b : List Val) : Except Err (List Val) :=
  if a.length = b.length then pure (List.zipWith Val.add a b)
  else match a, b with
    | [x], _ => pure (b.map fun y => x.add y)
    | _, [y] => pure (a.map fun x => x.add y)
    | _, _ => throw .RuntimeError

/-- `torch.stack(xs, 0)` of 1-D tensors: `RuntimeError` on an empty list or on unequal lengths -/
def torch_stack0 (xs : List (List Val)) : Except Err (List (List Val)) :=
  match xs with
  | [] => throw .RuntimeError
  | x :: rest => if rest.all (fun y => y.length == x.length) then pure (x :: rest) else throw .RuntimeError

/-- `x.nan_to_num(nan=nanv)` of a 2-D tensor -/
def nan_to_num2 (fmax : Rat) (nanv : Val) (x : List (List Val)) : List (List Val) :=
  x.map (·.map (Val.nan_to_num fmax nanv))

/-- `x.amin(0)` of a 2-D tensor: `IndexError` when the reduced dimension is empty -/
def amin0 (x : List (List Val)) : Except Err (List Val) :=
  match x with
  | [] => throw .IndexError
  | r :: rs => pure (rs.foldl (fun acc s => List.zipWith Val.min acc s) r)

end InfernoVerif.Gen.MathPrelude
