/-! Helpers used by the GENERATED `Float` definitions (core Lean only). -/
namespace InfernoVerif.Gen

/-- `x.clamp(min=b)` / `clamp_min` -/
def fmax (a b : Float) : Float := if a < b then b else a
/-- `x.clamp(max=b)` / `clamp_max` -/
def fmin (a b : Float) : Float := if b < a then b else a
/-- `x ** n` for a literal natural `n` (torch multiplies for small integer powers) -/
def fpowi (x : Float) : Nat → Float
  | 0 => 1.0
  | 1 => x
  | n + 1 => fpowi x n * x
/-- `math.ceil(x)` / `math.floor(x)` / `int(x)` of a finite double as a machine integer -/
def fceil (x : Float) : Int := x.ceil.toInt64.toInt
def ffloor (x : Float) : Int := x.floor.toInt64.toInt
def ftrunc (x : Float) : Int := if x < 0 then x.ceil.toInt64.toInt else x.floor.toInt64.toInt
/-- Python `round(x)` / `torch.round` of a finite double: round half to even -/
def froundHE (x : Float) : Int :=
  let f := x.floor
  let d := x - f
  let fi := f.toInt64.toInt
  if d < 0.5 then fi else if 0.5 < d then fi + 1 else if fi % 2 == 0 then fi else fi + 1
/-- `torch.sum(v, dim=-1)` left to right -/
def fsum (v : List Float) : Float := v.foldl (· + ·) 0.0

end InfernoVerif.Gen

/-! Wire format of the translator-validation driver: doubles as 16 hex digits of their bit
pattern, booleans `T`/`F`, vectors comma separated, `N` for `None`; function arguments from a
small menu: `aff:<a>:<b>` = `fun x => a * x + b`, `gt:<c>` = `fun x => x > c`,
`ge:<c>` = `fun x => x ≥ c`. -/
namespace InfernoVerif.Gen.Wire

def hexVal (c : Char) : Option Nat :=
  if '0' ≤ c ∧ c ≤ '9' then some (c.toNat - '0'.toNat)
  else if 'a' ≤ c ∧ c ≤ 'f' then some (c.toNat - 'a'.toNat + 10)
  else none

def pReal (s : String) : Option Float :=
  if s.length ≠ 16 then none else
  (s.toList.foldlM (fun (acc : Nat) c => do some (acc * 16 + (← hexVal c))) 0).map
    fun (n : Nat) => Float.ofBits n.toUInt64

def pBool (s : String) : Option Bool := if s = "T" then some true else if s = "F" then some false else none
def pVec (s : String) : Option (List Float) := if s = "-" then some [] else (s.splitOn ",").mapM pReal
def pOptReal (s : String) : Option (Option Float) := if s = "N" then some none else (pReal s).map some
def pOptBool (s : String) : Option (Option Bool) := if s = "N" then some none else (pBool s).map some
def pOptVec (s : String) : Option (Option (List Float)) := if s = "N" then some none else (pVec s).map some
def pFn (s : String) : Option (Float → Float) :=
  match s.splitOn ":" with
  | ["aff", a, b] => do let a ← pReal a; let b ← pReal b; some (fun x => a * x + b)
  | _ => none
def pFn2 (s : String) : Option (Float → Float → Float) :=
  match s.splitOn ":" with
  | ["aff2", a, b, c] => do let a ← pReal a; let b ← pReal b; let c ← pReal c; some (fun x y => a * x + b * y + c)
  | _ => none
def pOptFn (s : String) : Option (Option (Float → Float)) := if s = "N" then some none else (pFn s).map some
def pFnb (s : String) : Option (Float → Bool) :=
  match s.splitOn ":" with
  | ["gt", c] => do let c ← pReal c; some (fun x => decide (x > c))
  | ["ge", c] => do let c ← pReal c; some (fun x => decide (x ≥ c))
  | _ => none

def hexDigit (n : Nat) : Char := if n < 10 then Char.ofNat (n + '0'.toNat) else Char.ofNat (n - 10 + 'a'.toNat)
def sReal (x : Float) : String :=
  let n := x.toBits.toNat
  String.ofList ((List.range 16).map fun i => hexDigit ((n / 16 ^ (15 - i)) % 16))
def pInt (s : String) : Option Int := s.toInt?
def sInt (i : Int) : String := toString i
def sBool (b : Bool) : String := if b then "T" else "F"
def sVec (v : List Float) : String := if v.isEmpty then "-" else ",".intercalate (v.map sReal)

end InfernoVerif.Gen.Wire
