import InfernoVerif.Model.Split
/-!
Vocabulary of the statement-level translator `harness/progtx_delaystdp.py` (hand written, core Lean only).

`progtx_delaystdp.py` regenerates, on every run, the WHOLE `forward` bodies of `DelayAdjustedSTDP`,
`DelayAdjustedSTDPD` (`learn/trainers/delay_adj_two_factor_stdp.py`), `DelayAdjustedMSTDP`, `DelayAdjustedMSTDPD`
(`delay_adj_three_factor_stdp.py`), `KernelSTDP`, `DelayAdjustedKernelSTDP`, `DelayAdjustedKernelSTDPD`
(`kernel_stdp.py`) and `LinearHomeostasis` (`homeostasis.py`) as `Except Err` programs over the world `Trainer`
below (`Gen/DelaySTDPProg.lean`).  Every Python / torch primitive the bodies use is a function of this file named
after the primitive; each is TOTAL and fails with the exception class the real primitive raises instead of
defaulting.

**One parameter position.**  As in `Model/DelaySTDP.lean`, `Model/Split.lean` and `Gen/Routes.lean` everything is seen
at ONE position `w` of the trained parameter tensor (all operations of the bodies are element-wise in the parameter
axes).  What remains of the tensors at that position:

* `Rec ε` — a tensor in *receptive format* (`B × <parameter shape> × R`, what `connection.postsyn_receptive` /
  `presyn_receptive` return) is the `B × R` array of its values at `w`: batch-major, receptive axis inside.  The view
  is taken AFTER broadcasting to the common shape, so the singleton axes by which e.g. `LinearDense` lines up pre
  (`B × 1 × M × 1`) against post (`B × N × 1 × 1`) are the business of the connection (C05), not of this file; two
  operands whose `B × R` shapes differ are torch's non-broadcastable case (`RuntimeError`).
  For the spike-time monitors `ε = Option α`: `none` is the `NaN` an `EventReducer(initial="nan")` holds until the first
  event, and arithmetic propagates it.  `LinearHomeostasis` reads a rate monitor: `ε = α` (no `NaN`).
* `ParamU α` — a parameter-shaped tensor after `.unsqueeze(-1)` (`<parameter shape> × 1`): its value at `w`, broadcast
  over the batch and the receptive axis.
* `List α` (`B`) — a tensor `B × <parameter shape>` (after `nansum(-1)` / `mean(dim=-1)`); `α` — a parameter-shaped tensor
  (after `state.batchreduce(x, 0)`): what is handed to the updater.
* `ν` — an opaque tensor in the layout of the neuron / synapse (what a monitor returns, the connection's `selector`);
  the bodies only pass such values on (`LinearHomeostasis` also computes `(target - x) / target` on them: `NTOps`).

**Objects.**  `for cell, state, monitors in self` yields the registered units in the order of `self.cells_`
(`IndependentCellTrainer.__iter__`); `zip(self.cells_, self)` pairs each with its name.  A unit owns its `Cell`
(two units sharing one `Cell` object are not modelled); `cell.updater.<p> = (pos, neg)` (the dynamic property
`Updater._setacc_`, C10) is recorded by appending `(p, (pos, neg))` to the updater's assignment log.  The loop body
is a function from the unit to the updated cell (and the rebound loop-carried locals); exceptions do not keep the
state (nothing is claimed about the objects after a raise).

**User callables** are total functions: `state.batchreduce` (`List α → α`, the reduction of the batch axis at `w`),
`state.kernel_post / kernel_pre` (receptive-format tensor and keyword dictionary to receptive-format tensor),
`connection.like_bias`, the connection's receptive reshapes, `Monitor.view`.
-/
set_option linter.unusedVariables false
namespace InfernoVerif.Gen.DelaySTDPPrelude
open InfernoVerif.Split (Parts)

/-- exception classes the translated bodies can raise -/
inductive Err | RuntimeError | ValueError | TypeError | AttributeError | IndexError | KeyError
deriving DecidableEq, Repr

/-- `math.exp` / `torch.exp` and `abs` / `Tensor.abs` of the scalar type (instantiated at `ℝ` by the glue) -/
class TorchFn (α : Type) where
  exp : α → α
  abs : α → α

/-- receptive-format tensor at one parameter position: `B × R`, batch-major -/
abbrev Rec (ε : Type) := List (List ε)

/-- parameter-shaped tensor with a trailing singleton axis (`x.unsqueeze(-1)`) at one parameter position -/
structure ParamU (α : Type) where
  val : α

section
variable {α ε ν κ σ γ : Type}

/-! ### dictionaries (`dict`, `nn.ModuleDict`, `**kwargs`) -/

/-- `d[key]`: `KeyError` when absent -/
def getitem (d : List (String × γ)) (key : String) : Except Err γ :=
  match d.lookup key with
  | some v => .ok v
  | none => .error .KeyError

/-- `d[key] = v` on an insertion-ordered `dict`: an existing key keeps its place -/
def dictInsert (d : List (String × γ)) (key : String) (v : γ) : List (String × γ) :=
  if d.any (fun e => e.1 == key) then d.map (fun e => if e.1 == key then (key, v) else e) else d ++ [(key, v)]

/-- `{k: v for k, v in pairs}` -/
def dictOfPairs (pairs : List (String × γ)) : List (String × γ) :=
  pairs.foldl (fun d e => dictInsert d e.1 e.2) []

/-- `a | b` (PEP 584): the entries of `b` win -/
def dictUnion (a b : List (String × γ)) : List (String × γ) :=
  b.foldl (fun d e => dictInsert d e.1 e.2) a

/-- `name in cells` for a sequence of strings -/
def strIn (name : String) (cells : List String) : Bool := cells.contains name

/-! ### the world -/

/-- a `Monitor` as the bodies use it: `peek()` (the reducer's current value) and `view(selector, tolerance)` -/
structure Monitor (α ν : Type) where
  peek : ν
  view : Option ν → α → ν

/-- `cell.connection`: the receptive reshapes (at the parameter position), the learned delay AT the position
(`none`: the connection has no delays, the property returns `None`), `delayedby`, `selector`, `like_bias` -/
structure Conn (α ε ν : Type) where
  postsyn_receptive : ν → Rec ε
  presyn_receptive : ν → Rec ε
  delay : Option α
  delayedby : Option α
  selector : Option ν
  like_bias : α → α

/-- the assignments `updater.<p> = (pos, neg)` made so far, oldest first -/
abbrev UpdaterLog (α : Type) := List (String × Parts α)

/-- a `Cell`: `training`, its connection, `cell.updater` (`None` when the connection has no updater) -/
structure Cell (α ε ν : Type) where
  training : Bool
  connection : Conn α ε ν
  updater : Option (UpdaterLog α)

/-- one registered unit of an `IndependentCellTrainer`: name (key of `cells_`), cell, auxiliary state, monitors -/
structure TUnit (σ α ε ν : Type) where
  name : String
  cell : Cell α ε ν
  state : σ
  monitors : List (String × Monitor α ν)

/-- the trainer: `self.training` and the registered units in the order of `self.cells_` -/
structure Trainer (σ α ε ν : Type) where
  training : Bool
  units : List (TUnit σ α ε ν)

/-- auxiliary state of `DelayAdjustedSTDP(D)` / `DelayAdjustedMSTDP(D)` (`_build_cell_state`) -/
structure DAState (α : Type) where
  lr_pos : α
  lr_neg : α
  tc_pos : α
  tc_neg : α
  batchreduce : List α → α

/-- a spike-time half kernel `kernel(t_delta, **kwargs)` -/
abbrev HalfKernel (α κ : Type) := Rec (Option α) → List (String × κ) → Rec (Option α)

/-- `state.kernel_*_tensor_kwargs`: a `Module` holding the tensor-valued keyword arguments as buffers -/
structure BufferModule (κ : Type) where
  named_buffers : List (String × κ)

/-- auxiliary state of the three kernel trainers (`delayed`, `tolerance` exist for `KernelSTDP` only; the generated
text of the other two does not mention them) -/
structure KState (α κ : Type) where
  kernel_post : HalfKernel α κ
  kernel_pre : HalfKernel α κ
  kernel_post_kwargs : List (String × κ)
  kernel_pre_kwargs : List (String × κ)
  kernel_post_tensor_kwargs : BufferModule κ
  kernel_pre_tensor_kwargs : BufferModule κ
  delayed : Bool
  tolerance : α
  batchreduce : List α → α

/-- a target rate: a Python `float` or a tensor in the neuron's layout -/
inductive Target (α ν : Type) where
  | float (x : α)
  | tensor (x : ν)

/-- auxiliary state of `LinearHomeostasis` -/
structure HState (α ν : Type) where
  plasticity : α
  target : Option (Target α ν)
  param : String
  batchreduce : List α → α

/-- arithmetic of `LinearHomeostasis` on tensors in the neuron's layout: `target - x`, `x / target` -/
structure NTOps (α ν : Type) where
  rsub : Target α ν → ν → ν
  div : ν → Target α ν → ν

/-- a reward signal: a Python `float` or a tensor of one value per batch sample -/
inductive Signal (α : Type) where
  | float (x : α)
  | tensor (x : List α)

/-! ### loops over the units -/

/-- `for cell, state, monitors in self: body` — the body maps a unit to its updated cell and the rebound
loop-carried locals `c`; `continue` is `pure (cell, c)` -/
def forUnitsAux (self : Trainer σ α ε ν)
    (body : Trainer σ α ε ν → γ → String → Cell α ε ν → σ → List (String × Monitor α ν) → Except Err (Cell α ε ν × γ)) :
    List (TUnit σ α ε ν) → γ → Except Err (List (TUnit σ α ε ν) × γ)
  | [], c => .ok ([], c)
  | u :: us, c =>
    match body self c u.name u.cell u.state u.monitors with
    | .error e => .error e
    | .ok (cell, c) =>
      match forUnitsAux self body us c with
      | .error e => .error e
      | .ok (us, c) => .ok ({ u with cell := cell } :: us, c)

/-- `for name, (cell, state, monitors) in zip(self.cells_, self): body` with loop-carried locals `c` -/
def forNamedUnits (self : Trainer σ α ε ν) (c : γ)
    (body : Trainer σ α ε ν → γ → String → Cell α ε ν → σ → List (String × Monitor α ν) → Except Err (Cell α ε ν × γ)) :
    Except Err (Trainer σ α ε ν × γ) :=
  match forUnitsAux self body self.units c with
  | .error e => .error e
  | .ok (us, c) => .ok ({ self with units := us }, c)

/-- `for cell, state, monitors in self: body` with loop-carried locals `c` -/
def forUnits (self : Trainer σ α ε ν) (c : γ)
    (body : Trainer σ α ε ν → γ → Cell α ε ν → σ → List (String × Monitor α ν) → Except Err (Cell α ε ν × γ)) :
    Except Err (Trainer σ α ε ν × γ) :=
  forNamedUnits self c (fun self c _ cell state monitors => body self c cell state monitors)

/-! ### attribute access that can fail -/

/-- `cell.updater.<p> = (pos, neg)`: `AttributeError` on `None` -/
def updater_setattr (cell : Cell α ε ν) (p : String) (v : Parts α) : Except Err (Cell α ε ν) :=
  match cell.updater with
  | none => .error .AttributeError
  | some log => .ok { cell with updater := some (log ++ [(p, v)]) }

/-- `x.unsqueeze(-1)` on `torch.Tensor | None` (a parameter-shaped tensor): `AttributeError` on `None` -/
def unsqueezeLast (x : Option α) : Except Err (ParamU α) :=
  match x with
  | none => .error .AttributeError
  | some v => .ok ⟨v⟩

/-- `target - x` for `target : float | torch.Tensor | None`: `TypeError` on `None` -/
def ntRsub (N : NTOps α ν) (target : Option (Target α ν)) (x : ν) : Except Err ν :=
  match target with
  | none => .error .TypeError
  | some t => .ok (N.rsub t x)

/-- `x / target` -/
def ntDiv (N : NTOps α ν) (x : ν) (target : Option (Target α ν)) : Except Err ν :=
  match target with
  | none => .error .TypeError
  | some t => .ok (N.div x t)

/-- truth value of a `float | None` (`cell.connection.delayedby`) -/
def truthyOptFloat [Zero α] [DecidableEq α] : Option α → Bool
  | none => false
  | some x => !decide (x = 0)

/-! ### element-wise operations on receptive-format tensors -/

/-- `NaN`-propagating binary operation -/
def obin (f : α → α → α) : Option α → Option α → Option α
  | some a, some b => some (f a b)
  | _, _ => none

/-- element-wise binary operation of two receptive-format tensors: `RuntimeError` unless the `B × R` shapes agree -/
def recZip (f : ε → ε → ε) (a b : Rec ε) : Except Err (Rec ε) :=
  if a.map List.length = b.map List.length then .ok (List.zipWith (List.zipWith f) a b) else .error .RuntimeError

/-- `a - b` -/
def recSub [Sub α] (a b : Rec (Option α)) : Except Err (Rec (Option α)) := recZip (obin (· - ·)) a b
/-- `a * b` -/
def recMul [Mul α] (a b : Rec (Option α)) : Except Err (Rec (Option α)) := recZip (obin (· * ·)) a b
/-- `a - p` for `p` a parameter-shaped tensor with a trailing singleton axis -/
def recSubParamU [Sub α] (a : Rec (Option α)) (p : ParamU α) : Rec (Option α) := a.map (·.map (·.map (· - p.val)))
/-- `a.abs()` -/
def recAbs [TorchFn α] (a : Rec (Option α)) : Rec (Option α) := a.map (·.map (·.map TorchFn.abs))
/-- `torch.exp(a)` -/
def torchExp [TorchFn α] (a : Rec (Option α)) : Rec (Option α) := a.map (·.map (·.map TorchFn.exp))
/-- `a / s` for a Python float `s` -/
def recDivScalar [Div α] (a : Rec (Option α)) (s : α) : Rec (Option α) := a.map (·.map (·.map (· / s)))
/-- `s * a` for a Python float `s` -/
def scalarMulRec [Mul α] (s : α) (a : Rec (Option α)) : Rec (Option α) := a.map (·.map (·.map (s * ·)))
/-- `a >= 0` (a comparison with `NaN` is `False`) -/
def recGe0 [Zero α] [LE α] [DecidableLE α] (a : Rec (Option α)) : Rec Bool :=
  a.map (·.map fun x => match x with | some x => decide (x ≥ 0) | none => false)
/-- `a < 0` -/
def recLt0 [Zero α] [LT α] [DecidableLT α] (a : Rec (Option α)) : Rec Bool :=
  a.map (·.map fun x => match x with | some x => decide (x < 0) | none => false)
/-- `b.to(dtype=<float dtype>)`: `True ↦ 1`, `False ↦ 0` -/
def recBoolTo [Zero α] [One α] (b : Rec Bool) : Rec (Option α) := b.map (·.map fun x => some (if x then 1 else 0))
/-- `a.clamp_min(0.0)` (`NaN` stays `NaN`) -/
def recClampMin0 [Max α] [Zero α] (a : Rec (Option α)) : Rec (Option α) := a.map (·.map (·.map Split.clamp_min0))
/-- `a.clamp_max(0.0)` -/
def recClampMax0 [Min α] [Zero α] (a : Rec (Option α)) : Rec (Option α) := a.map (·.map (·.map Split.clamp_max0))
/-- `a.nansum(-1)` / `torch.nansum(a, -1)`: the receptive axis is summed, `NaN` entries skipped -/
def recNansumLast [Add α] [Zero α] (a : Rec (Option α)) : List α := a.map Split.nansum

/-- `a.mean(dim=-1)` of a `NaN`-free receptive-format tensor -/
def recMeanLast [Add α] [Zero α] [Div α] [NatCast α] (a : Rec α) : List α :=
  a.map fun row => Split.lsum row / (row.length : α)

/-! ### tensors `B × <parameter shape>` at one parameter position -/

/-- `state.batchreduce(x, 0)` -/
def callReduce0 (f : List α → α) (x : List α) : α := f x
/-- `x * s` for a Python float `s` -/
def bMulScalar [Mul α] (x : List α) (s : α) : List α := x.map (· * s)
/-- `x.abs()` -/
def bAbs [TorchFn α] (x : List α) : List α := x.map TorchFn.abs
/-- `x.clamp_min(0.0)` / `x.clamp_max(0.0)` -/
def bClampMin0 [Max α] [Zero α] (x : List α) : List α := x.map Split.clamp_min0
def bClampMax0 [Min α] [Zero α] (x : List α) : List α := x.map Split.clamp_max0

/-- a per-sample tensor (`B`) reshaped by `.view(-1, *repeat(1, x.ndim - 1))` to broadcast against `x` along the batch -/
structure BCol (α : Type) where
  vals : List α

/-- `s.view(-1, *repeat(1, x.ndim - 1))` -/
def viewAsColumnOf (s : List α) (x : List α) : BCol α := ⟨s⟩

/-- `x * col`: `RuntimeError` unless the batch sizes agree -/
def bMulCol [Mul α] (x : List α) (col : BCol α) : Except Err (List α) :=
  if x.length = col.vals.length then .ok (List.zipWith (· * ·) x col.vals) else .error .RuntimeError

/-- `torch.argwhere(s >= 0).view(-1)` -/
def argwhereGe0 [Zero α] [LE α] [DecidableLE α] (s : List α) : List Nat :=
  (List.range s.length).filter fun i => match s[i]? with | some x => decide (x ≥ 0) | none => false
/-- `torch.argwhere(s < 0).view(-1)` -/
def argwhereLt0 [Zero α] [LT α] [DecidableLT α] (s : List α) : List Nat :=
  (List.range s.length).filter fun i => match s[i]? with | some x => decide (x < 0) | none => false

/-- `x[idx]` for an index tensor along the batch: `IndexError` outside the batch -/
def bIndex (x : List α) (idx : List Nat) : Except Err (List α) :=
  idx.mapM fun i => match x[i]? with | some v => .ok v | none => .error .IndexError

/-- `torch.cat((a, b), 0)` -/
def torchCat0 (a b : List α) : List α := a ++ b
/-- `x.numel()` seen from one parameter position: zero iff the batch is empty -/
def bNumel (x : List α) : Nat := x.length

end
end InfernoVerif.Gen.DelaySTDPPrelude
