/-!
Vocabulary of the statement-level translator `harness/progtx_stdp.py` (hand written, core Lean only).

`progtx_stdp.py` regenerates, on every run, the WHOLE `forward` bodies of the STDP-family trainers
(`inferno/learn/trainers/two_factor_stdp.py :: STDP, TripletSTDP`, `three_factor_stdp.py :: MSTDP, MSTDPET`)
and the monitor wiring of their `register_cell` / `_build_cell_state` as programs over the world below (`Gen/STDPProg.lean`).  Every
Python / torch / einops primitive the bodies use is a function of this file named after the primitive; each is
TOTAL and fails with the exception class the real primitive raises instead of defaulting.

**One weight position.**  Like `Model/STDP.lean` and `Model/Split.lean` the world describes ONE position of the
weight tensor (everything `forward` does after the receptive reshapes is element-wise over the weight axes):

* a tensor in receptive format `b ... r` is a `Recv α = List (List α)` — batch sample (outer), receptive axis
  (inner) — at that position, after the broadcast of the `...` axes;
* a tensor shaped like the batched weights `b ...` is the `List α` of its batch samples (`Batched α`);
* a tensor shaped like the weight is one scalar `α`.

Raw observations (what a monitor returns: `b × neuron/synapse shape`) are an opaque type `ο`; the connection's
`presyn_receptive` / `postsyn_receptive` take them to `Recv α` (reshape, then restriction to the position); the
element-wise arithmetic `TripletSTDP.forward` does on raw observations, the view of an eligibility observation
(already shaped like the batched weights) at the position, and Python's `bool(float)` are the fields of `TorchOps`.

**Monitors' values are inputs.**  `peek()`, `view(time, tolerance)`, `reducer.data_.read(offset)` and
`reducer.data_.select(time, reducer.interpolate, tolerance=…, offset=…)` are fields of `Monitor` holding the value
(or `None`, or the exception) the call returns at the moment `forward` runs; what the reducers compute is the
subject of C07 / C02 / C13, not of this tie.

**What a trainer hands to the updater.**  `cell.updater.<p> = (pos, neg)` appends `(p, (pos, neg))` to the
updater's log `UpdLog` (what the `Updater` / `Accumulator` then do with it: `Gen/UpdaterProg.lean`, C10).
`None.weight = …` raises `AttributeError`.

**Iteration.**  `for cell, state, monitors in self` (and `zip(self.cells_, self)`) is `for_units`: the units in
`cells_` order (`IndependentCellTrainer.__iter__`, not translated here), the body may replace the unit's `cell`.
An exception anywhere aborts the call (`Except Err`; the partially updated trainer is not observable through it).

Broadcasting.  `bzip` implements torch's rule for one axis (sizes match or one of them is 1, else `RuntimeError`);
`einsum "b ... r, b ... r -> b ..."` and the batch-wise products use it on the batch axis and the receptive axis.
-/
set_option linter.unusedVariables false
namespace InfernoVerif.Gen.STDPPrelude

/-- exception classes -/
inductive Err where
  | RuntimeError | ValueError | TypeError | AttributeError | IndexError | KeyError
  deriving DecidableEq, Repr

/-- `b ... r` at one weight position: batch (outer) × receptive axis (inner) -/
abbrev Recv (α : Type) := List (List α)
/-- `b ...` at one weight position -/
abbrev Batched (α : Type) := List α
/-- `(pos, neg)` as assigned to `cell.updater.<param>`; `none` is Python `None` -/
abbrev Parts (α : Type) := Option α × Option α
/-- log of the assignments `updater.<param> = (pos, neg)`, oldest first -/
abbrev UpdLog (α : Type) := List (String × Parts α)

/-- tensor-level primitives on raw observations and Python's truth value of a float -/
structure TorchOps (ο α : Type) where
  /-- `c + x` (Python float plus tensor) -/
  add_scalar : α → ο → ο
  /-- `x * y`, element-wise, both operands shaped like the monitored attribute -/
  mul : ο → ο → ο
  /-- a tensor already shaped like the batched weights (`b ...`), seen at the weight position -/
  batched : ο → Batched α
  /-- `bool(x)` of a Python float (`x != 0`) -/
  float_bool : α → Bool

/-- a `Monitor` as `forward` sees it -/
structure Monitor (ο σ α : Type) where
  /-- `monitor.peek()`; `None` before the first observation -/
  peek : Option ο
  /-- `monitor.view(time, tolerance)` -/
  view : σ → α → Option ο
  /-- `monitor.reducer.data_.read(offset)` -/
  data_read : Int → Except Err ο
  /-- `monitor.reducer.data_.select(time, monitor.reducer.interpolate, tolerance=…, offset=…)` -/
  data_select : σ → α → Int → Except Err ο

/-- the `dict` of a unit's monitors (insertion ordered) -/
abbrev Monitors (ο σ α : Type) := List (String × Monitor ο σ α)

/-- `cell.connection` -/
structure Conn (ο σ α : Type) where
  presyn_receptive : ο → Recv α
  postsyn_receptive : ο → Recv α
  /-- `connection.selector` (learned delays shaped for `view` / `select`) -/
  selector : σ
  /-- `connection.delayedby` (`float | None`) -/
  delayedby : Option α

/-- a `Cell` -/
structure CellS (ο σ α : Type) where
  training : Bool
  connection : Conn ο σ α
  /-- `cell.updater` (`None`: no updater) -/
  updater : Option (UpdLog α)

/-- auxiliary state of a cell of `STDP` / `MSTDP` / `MSTDPET` (`_build_cell_state`) -/
structure StateS (α : Type) where
  lr_post : α
  lr_pre : α
  delayed : Bool
  tolerance : α
  /-- `state.batchreduce(x, 0)` at one weight position -/
  batchreduce : Batched α → α

/-- auxiliary state of a cell of `TripletSTDP` -/
structure TStateS (α : Type) where
  lr_post_pair : α
  lr_pre_pair : α
  delayed : Bool
  tolerance : α
  batchreduce : Batched α → α

/-- a trainable unit `(cell, state, monitors)` -/
structure TUnit (ο σ α ς : Type) where
  cell : CellS ο σ α
  state : ς
  monitors : Monitors ο σ α

/-- an `IndependentCellTrainer` -/
structure Trainer (ο σ α ς : Type) where
  training : Bool
  /-- `self.cells_` with, per name, what `__iter__` yields for it -/
  cells_ : List (String × TUnit ο σ α ς)

/-- `signal: float | torch.Tensor` (a tensor signal has one entry per batch sample) -/
inductive Sig (α : Type) where
  | scalar (x : α)
  | tensor (xs : List α)

section
variable {ο σ α β γ δ ς : Type}

/-! ### Python containers -/

/-- `d[key]` on a `dict` (`KeyError`) -/
def getItem (d : List (String × β)) (key : String) : Except Err β :=
  match d.lookup key with
  | some v => pure v
  | none => throw Err.KeyError

/-- `for cell, state, monitors in self` / `for name, (cell, state, monitors) in zip(self.cells_, self)` -/
def for_units (self : Trainer ο σ α ς)
    (body : String → CellS ο σ α → ς → Monitors ο σ α → Except Err (CellS ο σ α)) :
    Except Err (Trainer ο σ α ς) := do
  let cells ← self.cells_.mapM (fun nu => do
    let c ← body nu.1 nu.2.cell nu.2.state nu.2.monitors
    pure (nu.1, { nu.2 with cell := c }))
  pure { self with cells_ := cells }

/-- `cell.updater.<attr> = (pos, neg)`; `None.<attr> = …` raises `AttributeError` -/
def updater_set (u : Option (UpdLog α)) (attr : String) (v : Parts α) : Except Err (Option (UpdLog α)) :=
  match u with
  | some log => pure (some (log ++ [(attr, v)]))
  | none => throw Err.AttributeError

/-- truth value of `connection.delayedby` (`float | None`) -/
def truthy_optfloat (O : TorchOps ο α) (x : Option α) : Bool :=
  match x with
  | some x => O.float_bool x
  | none => false

/-! ### raw observations -/

/-- `connection.presyn_receptive(x)` / `postsyn_receptive(x)` with `x` possibly `None`:
`ein.rearrange(None, …)` raises `RuntimeError` ("Tensor type unknown to einops") -/
def receptive (f : ο → Recv α) (x : Option ο) : Except Err (Recv α) :=
  match x with
  | some x => pure (f x)
  | none => throw Err.RuntimeError

/-- `x * y` with `y` possibly `None` (`TypeError`) -/
def obs_mul_opt (O : TorchOps ο α) (x : ο) (y : Option ο) : Except Err ο :=
  match y with
  | some y => pure (O.mul x y)
  | none => throw Err.TypeError

/-- an eligibility observation used as a `b ...` tensor in arithmetic / `batchreduce` (`None`: `TypeError`, as
`None * tensor`, `torch.sum(None, 0)`, `torch.mean(None, 0)` raise) -/
def opt_batched (O : TorchOps ο α) (x : Option ο) : Except Err (Batched α) :=
  match x with
  | some x => pure (O.batched x)
  | none => throw Err.TypeError

/-! ### broadcasting arithmetic at one weight position -/

/-- torch's broadcasting rule along one axis: sizes match, or one of them is 1; else `RuntimeError` -/
def bzip (f : β → γ → δ) : List β → List γ → Except Err (List δ)
  | xs, [b] => pure (xs.map (f · b))
  | [a], ys => pure (ys.map (f a ·))
  | xs, ys => if xs.length = ys.length then pure (List.zipWith f xs ys) else throw Err.RuntimeError

/-- left-to-right sum from `0` (`torch.sum`, the contraction of `einsum`) -/
def lsum [Add α] [Zero α] (xs : List α) : α := xs.foldl (· + ·) 0

/-- `ein.einsum(x, y, "b ... r, b ... r -> b ...")` at one weight position -/
def einsum_brr_brr_b [Add α] [Mul α] [Zero α] (x y : Recv α) : Except Err (Batched α) := do
  let rows ← bzip (fun rx ry => (bzip (· * ·) rx ry).map lsum) x y
  rows.mapM id

/-- `x * y` of two `b ...`-shaped tensors (`y` usually `b 1 … 1`) -/
def bmul [Mul α] (x y : Batched α) : Except Err (Batched α) := bzip (· * ·) x y

/-- Python `abs(x)` / `torch.abs` -/
def absv [Neg α] [Max α] (x : α) : α := max x (-x)

/-- `signal * scale` for a tensor signal -/
def tensor_mul_scalar [Mul α] (x : List α) (c : α) : List α := x.map (· * c)
/-- `x.abs()` -/
def tensor_abs [Neg α] [Max α] (x : List α) : List α := x.map absv
/-- `x >= 0` -/
def tensor_ge0 [Zero α] [LE α] [DecidableLE α] (x : List α) : List Bool := x.map fun s => decide (0 ≤ s)
/-- `x < 0` -/
def tensor_lt0 [Zero α] [LT α] [DecidableLT α] (x : List α) : List Bool := x.map fun s => decide (s < 0)

/-- `x.view(-1, *repeat(1, like.ndim - 1))` for a 1-D `x`, `like` shaped like the batched weights: at one weight
position, the batch vector itself -/
def view_b1 (x : List α) : Batched α := x
/-- the same with `like` an eligibility observation that may be `None` (`None.ndim`: `AttributeError`) -/
def view_b1_like (like : Option ο) (x : List α) : Except Err (Batched α) :=
  match like with
  | some _ => pure x
  | none => throw Err.AttributeError

/-- indices of the `true` entries, counted from `i` -/
def argwhereFrom (i : Nat) : List Bool → List Nat
  | [] => []
  | b :: bs => if b then i :: argwhereFrom (i + 1) bs else argwhereFrom (i + 1) bs

/-- `torch.argwhere(mask).view(-1)` for a 1-D mask -/
def argwhere (mask : List Bool) : List Nat := argwhereFrom 0 mask

/-- `x[idx]` along the batch axis with a 1-D index tensor (`IndexError` out of range) -/
def index_select0 (x : Batched α) (idx : List Nat) : Except Err (Batched α) :=
  idx.mapM fun i => match x[i]? with
    | some v => pure v
    | none => throw Err.IndexError

/-- `torch.cat((x, y), 0)` -/
def cat0 (x y : Batched α) : Batched α := x ++ y

/-- `x.numel()` as a condition: the batch axis is the only one that can be empty here -/
def numel_bool (x : Batched α) : Bool := !x.isEmpty

end

/-! ### monitor wiring (`register_cell`, `_build_cell_state`): what `add_monitor` receives, as data -/

/-- the reducer handed to `<Monitor>.partialconstructor(reducer=…)`; a duration is the Python value passed
(`none`: `None`, which the reducer's constructor rejects) -/
inductive ReducerSpec (α : Type) where
  /-- `state.tracecls(step_time, time_constant, amplitude=…, target=…, duration=…, inclusive=…[, inplace=…])`;
  `cls` is the class `_build_cell_state` stored in `state.tracecls` -/
  | trace (cls : String) (step_time time_constant amplitude : α) (target : Bool) (duration : Option α)
      (inclusive : Bool) (inplace : Option Bool)
  /-- `PassthroughReducer(step_time, duration=…, inclusive=…[, inplace=…])` -/
  | passthrough (step_time : α) (duration : Option α) (inclusive : Bool) (inplace : Option Bool)
  /-- `EligibilityTraceReducer(step_time, time_constant, obs_reshape=weakref.WeakMethod(cell.connection.<m>),
  cond_reshape=weakref.WeakMethod(cell.connection.<m'>), duration=…, inclusive=…)` -/
  | eligibility (step_time time_constant : α) (obs_reshape cond_reshape : String) (duration : Option α)
      (inclusive : Bool)

/-- the value of a tag passed to `add_monitor(…, **tags)` -/
inductive TagV (α : Type) where
  | num (x : α)
  | flag (b : Bool)
  | str (s : String)

/-- one `self.add_monitor(name, <monitor>, <attr>, <Monitor>.partialconstructor(reducer=…, …), <unique>, **tags)` call -/
structure MonitorSpec (α : Type) where
  name : String
  /-- dot-separated attribute monitored, relative to the cell -/
  attr : String
  /-- `MultiStateMonitor` (else `StateMonitor`) -/
  multi : Bool
  /-- `subattrs=` of a `MultiStateMonitor` -/
  subattrs : List String
  reducer : ReducerSpec α
  as_prehook : Bool
  train_update : Bool
  eval_update : Bool
  prepend : Bool
  /-- the `unique` argument (never aliased from the pool) -/
  unique : Bool
  tags : List (String × TagV α)

/-- what `STDP` / `MSTDP` / `MSTDPET.register_cell` read: `cell.connection.dt`, `cell.connection.delayedby` and the
state built by `_build_cell_state` (`tracecls`: the `__name__` of `state.tracecls`) -/
structure RegEnv (α : Type) where
  dt : α
  delayedby : Option α
  lr_post : α
  lr_pre : α
  tc_post : α
  tc_pre : α
  tc_eligibility : α
  delayed : Bool
  tracemode : String
  tracecls : String

/-- the same for `TripletSTDP.register_cell` -/
structure TRegEnv (α : Type) where
  dt : α
  delayedby : Option α
  lr_post_pair : α
  lr_post_triplet : α
  lr_pre_pair : α
  lr_pre_triplet : α
  tc_post_fast : α
  tc_post_slow : α
  tc_pre_fast : α
  tc_pre_slow : α
  delayed : Bool
  tracemode : String
  tracecls : String
  inplace : Bool

/-- `x + y` with `x : float | None` (`None + float`: `TypeError`) -/
def opt_add {α : Type} [Add α] (x : Option α) (y : α) : Except Err α :=
  match x with
  | some x => pure (x + y)
  | none => throw Err.TypeError

end InfernoVerif.Gen.STDPPrelude
