import InfernoVerif.Gen.ProgPrelude
import InfernoVerif.Model.Select
/-!
Vocabulary of the statement-level translator `harness/progtx_select.py` (hand written, core Lean only).

`progtx_select.py` regenerates, on every run, the whole bodies of `RecordTensor.select` and
`RecordTensor.insert` (`inferno/core/infrastructure.py`) as `Except Err` programs over the private state
`SelT` below (`Gen/SelectProg.lean`): the `_ignore` / shape / dimension / range tests with the exception
class each raises, the scalar-time and tensor-time branches, the on-grid test, the bracket indices, the
gathers, the kernel call with its argument order, the "exact overwrite" `where`s, and the writes
(`self.write`, index assignment, `self.writerange`, `scatter_` / `scatter`).

* Times (`time`, `tolerance`, `dt`, everything computed from them) are of an abstract type `α` with the
  operations `Select.Ops` of `Model/Select.lean`, so the programs can be instantiated where the model is
  (`ratOps`, `floatOps`, `realOps`).  Stored values have the same type (the check stores float64).
  `float(time)` is the identity; `.ceil()` / `.floor()` of a tensor, which the source later passes through
  `.long()` inside `_unwind_tensor_ptr`, are `K.ceil` / `K.floor` into `Int` (the convention documented at
  `Select.Ops`), and comparing two such tensors compares the integers.
* Tensors: storage, gathered blocks and observations are `Prog.Stack` / `Ring.Obs` of `Gen/ProgPrelude.lean`
  (slices along the leading time axis, each flattened).  A tensor of times is `TTen`: its `rows` are the
  TIME-MAJOR view — for a tensor whose last axis lists `D` selections row `j` is `time[..., j]` flattened, for
  an observation-shaped tensor (no such axis) it is the single flattened row — so `unsqueeze(-1)`,
  `unsqueeze(0)`, `squeeze(-1)` and the two `ein.rearrange` patterns only change the marker, never `rows`.
* Element-wise primitives (`emap`, `ezip`, `ewhere`) act position by position on equally shaped operands; in
  the translated bodies all operands of one such primitive derive from the same tensor, so torch's
  broadcasting never applies.
* The interpolation / extrapolation kernels are SCALAR functions (`Select.Interp`, `Select.Extrap`, the
  argument order of the Python call) applied element-wise by `interpObs` / `interpStack` / `extrapObs` /
  `extrapStack` (every kernel of `inferno.functional` is element-wise); `**kwargs` are not modelled.  The dtype
  tag of a kernel result is taken from its first tensor argument (dtype conversion is not part of the model).
* `self.write(…)` / `self.writerange(…)` are NOT re-translated: they are the already regenerated
  `RingProg.RecordTensor_write` / `RecordTensor_writerange` (`Gen/RingProg.lean`), run on the ring view of the
  state (`viaRT`).
-/
set_option linter.unusedVariables false
namespace InfernoVerif.Gen.SelectPrelude
open InfernoVerif.Ring InfernoVerif.Gen.Prog InfernoVerif.Select

/-- the private state of a `RecordTensor` that `select` / `insert` read and write -/
structure SelT (α : Type) where
  data     : Store (Stack α)     -- `self.__data`
  pointer  : Int                 -- `self.__pointer`
  recordsz : Int                 -- `self.__recordsz`
  dt       : α                   -- `self.__dt`

/-- a float tensor of times; `rows` is its time-major view (see the header) -/
structure TTen (α : Type) where
  shape : List Nat
  rows  : List (List α)
deriving Repr, DecidableEq

/-- the `time` argument: a Python float or a tensor (`isinstance(time, torch.Tensor)`) -/
inductive TimeArg (α : Type) where
  | scalar (t : α)
  | ten (t : TTen α)

/-- what `select` returns: one observation (scalar time) or a time-last tensor of selections (tensor time) -/
inductive SelOut (α : Type) where
  | obs (x : Obs α)
  | ten (x : TimeLast α)

variable {α β γ : Type}

/-- run a regenerated method of the ring part (`Gen/RingProg.lean`, private state `RT`) on this record; data and
pointer are written back; a raise leaves the state as it was -/
def viaRT (self : SelT α) (m : RT α → Except Err (RT α × β)) : Except Err (SelT α × β) :=
  match m ⟨self.data, self.pointer, self.recordsz⟩ with
  | .error e => .error e
  | .ok (g, a) => .ok ({ self with data := g.data, pointer := g.pointer }, a)

/-! ### element-wise primitives on time-major matrices -/

/-- a unary element-wise operation -/
def emap (f : α → β) (m : List (List α)) : List (List β) := m.map (·.map f)

/-- a binary element-wise operation on equally shaped operands -/
def ezip (f : α → β → γ) (a : List (List α)) (b : List (List β)) : List (List γ) :=
  List.zipWith (List.zipWith f) a b

/-- `torch.where(c, a, b)` on equally shaped operands -/
def ewhere (c : List (List Bool)) (a b : List (List α)) : List (List α) :=
  ezip (fun c xy => if c then xy.1 else xy.2) c (ezip Prod.mk a b)

/-! ### tensors of times -/

/-- `time.ndim` -/
def TTen.ndim (t : TTen α) : Int := (t.shape.length : Int)

/-- `data.ndim` of initialised storage: the record axis plus the observation's axes -/
def _root_.InfernoVerif.Gen.Prog.Stack.ndim (s : Stack α) : Int := (s.oshape.length : Int) + 1

/-- `time.unsqueeze(-1)` on an observation-shaped tensor: one selection per element -/
def TTen.unsqueezeLast (t : TTen α) : TTen α := { t with shape := t.shape ++ [1] }

def TTen.emap (f : α → α) (t : TTen α) : TTen α := { t with rows := SelectPrelude.emap f t.rows }

/-- a comparison with a scalar, element-wise -/
def TTen.bmap (f : α → Bool) (t : TTen α) : List (List Bool) := SelectPrelude.emap f t.rows

def TTen.ezip (f : α → α → α) (a b : TTen α) : TTen α := { a with rows := SelectPrelude.ezip f a.rows b.rows }

def TTen.ewhere (c : List (List Bool)) (a b : TTen α) : TTen α :=
  { a with rows := SelectPrelude.ewhere c a.rows b.rows }

/-- `ein.rearrange(t, "... t -> t ...")` -/
def TTen.timeMajor (t : TTen α) : List (List α) := t.rows

/-- `t.unsqueeze(0)` on an observation-shaped tensor: a `1 × S` time-major matrix -/
def TTen.unsqueeze0 (t : TTen α) : List (List α) := t.rows

/-- `t.amin()` (RuntimeError on a tensor without elements, as torch) -/
def TTen.amin (K : Ops α) (t : TTen α) : Except Err α :=
  match t.rows.flatten with
  | [] => .error .RuntimeError
  | x :: xs => .ok (xs.foldl (fun a b => if K.lt b a then b else a) x)

/-- `t.amax()` -/
def TTen.amax (K : Ops α) (t : TTen α) : Except Err α :=
  match t.rows.flatten with
  | [] => .error .RuntimeError
  | x :: xs => .ok (xs.foldl (fun a b => if K.lt a b then b else a) x)

/-! ### stored values -/

/-- `torch.tensor_split(t, (i,), 0)`: `(t[:i], t[i:])` -/
def tensorSplitAt (s : Stack α) (i : Int) : Stack α × Stack α :=
  (s.slice none (some i), s.slice (some i) none)

/-- `torch.tensor_split(t, 2, 0)`: two sections, the first takes the odd slice -/
def tensorSplit2 (s : Stack α) : Stack α × Stack α :=
  tensorSplitAt s (((s.rows.length : Int) + 1) / 2)

/-- `torch.where(c, a, b)` on gathered blocks -/
def _root_.InfernoVerif.Gen.Prog.Stack.ewhere (c : List (List Bool)) (a b : Stack α) : Stack α :=
  { a with rows := SelectPrelude.ewhere c a.rows b.rows }

/-- `inferno.fullc(data, v, shape=data.shape[1:])`: an observation-shaped floating tensor filled with `v` -/
def fullc (data : Stack α) (v : α) : Obs α := ⟨false, data.oshape, List.replicate (prod data.oshape) v⟩

/-- `torch.stack((a, b), -1)` of two observations: a time-last tensor with two slices -/
def stackLast (a b : Obs α) : TimeLast α := ⟨⟨promote a.dt b.dt, a.shape, [a.vals, b.vals]⟩⟩

/-- `x.to(dtype=d)` on a time-last tensor -/
def _root_.InfernoVerif.Gen.Prog.TimeLast.to (E : Elem α) (t : TimeLast α) (d : DType) : TimeLast α :=
  ⟨t.stack.to E d⟩

/-- `res.squeeze(-1)` on a time-last tensor with one selection -/
def _root_.InfernoVerif.Gen.Prog.TimeLast.squeezeLast (t : TimeLast α) : TimeLast α := t

/-! ### kernels, applied element-wise -/

/-- `interp(prev_data, next_data, sample_at, dt)` on observations -/
def interpObs (f : Interp α) (p n sa : Obs α) (dt : α) : Obs α :=
  { p with vals := List.zipWith (fun a bc => f a bc.1 bc.2 dt) p.vals (List.zip n.vals sa.vals) }

/-- `interp(prev_data, next_data, sample_at, dt)` on gathered blocks (`sample_at` time-major) -/
def interpStack (f : Interp α) (p n : Stack α) (sa : List (List α)) (dt : α) : Stack α :=
  { p with rows := ezip (fun a bc => f a bc.1 bc.2 dt) p.rows (ezip Prod.mk n.rows sa) }

/-- `extrap(obs, sample_at, prev_data, next_data, dt)` on observations: `(prev_exobs, next_exobs)` -/
def extrapObs (f : Extrap α) (x sa p n : Obs α) (dt : α) : Obs α × Obs α :=
  let r := List.zipWith (fun a bcd => f a bcd.1 bcd.2.1 bcd.2.2 dt) x.vals (List.zip sa.vals (List.zip p.vals n.vals))
  ({ x with vals := r.map (·.1) }, { x with vals := r.map (·.2) })

/-- `extrap(obs, sample_at, prev_data, next_data, dt)` on blocks -/
def extrapStack (f : Extrap α) (x : Stack α) (sa : List (List α)) (p n : Stack α) (dt : α) : Stack α × Stack α :=
  let r := ezip (fun a bcd => f a bcd.1 bcd.2.1 bcd.2.2 dt) x.rows (ezip Prod.mk sa (ezip Prod.mk p.rows n.rows))
  ({ x with rows := emap (·.1) r }, { x with rows := emap (·.2) r })

end InfernoVerif.Gen.SelectPrelude
