import InfernoVerif.Model.Hooks
/-!
Vocabulary of the statement-level translator `harness/progtx_nhooks.py` (hand written, core Lean only).

`progtx_nhooks.py` regenerates, on every run, the whole bodies of `normalize` (`inferno/core/math.py`) and of
`Clamping.__init__`, `Clamping.hook`, `Normalization.__init__`, `Normalization.hook`
(`inferno/neural/hooks.py`) as `Except Err` programs (`Gen/NHookProg.lean`).

What the programs act on:
* `Ten α` — a tensor: its dtype class (`DT α`: floating / complex with `torch.finfo(dtype).tiny`, or integral) and
  its values as ONE flat list.  For `torch.clamp` the list is the whole tensor (element-wise); for
  `F.normalize` it is ONE fibre along the normalised dimension(s): splitting a tensor into fibres along `dim`
  and writing them back is the harness's job (the `groups` of `drivers/C16.lean`), so `dim` is carried through
  the programs unread (`Dim`).
* `NW O α` — the world seen from inside a method of a `StateHook` subclass: THE hooked module (`TMod α`: dotted
  attribute path ↦ tensor), what `StateHook.__init__` was handed (`base`, `none` before it ran) and the
  subclass's own attributes `obj : O`.  Every `module` parameter and `self.module` (the property returning
  `_hooked_module`) denote `NW.module`.
* numbers are generic (`PyNum α`): the `NormOps α` of `Model/Hooks.lean` (so the same text runs on `Float` and
  on `ℝ`) plus Python's `>` and `!=`.  The order of the norm is the model's `Order α` (a Python `float('inf')`
  is `Order.inf`, any other number `p` is `Order.fin p`; `-inf` is not representable — the model has no
  minimum "norm").

Every torch / Python primitive the bodies use is a function of this file named after it, failing with the
exception class the real primitive raises.
-/
set_option linter.unusedVariables false
namespace InfernoVerif.Gen.NHookPrelude
open InfernoVerif.Hooks

/-- the number type of the programs: arithmetic of `Model/Hooks.lean` plus Python's comparisons -/
structure PyNum (α : Type) where
  ops : NormOps α
  gt  : α → α → Bool      -- `a > b`
  ne  : α → α → Bool      -- `a != b`

/-- dtype class of a tensor; `tiny` = `torch.finfo(dtype).tiny` (smallest positive normal number) -/
inductive DT (α : Type) where
  | floating (tiny : α)
  | complex (tiny : α)
  | integral

/-- `dtype.is_floating_point` -/
def DT.is_floating_point {α : Type} : DT α → Bool
  | .floating _ => true
  | _ => false

/-- `dtype.is_complex` -/
def DT.is_complex {α : Type} : DT α → Bool
  | .complex _ => true
  | _ => false

/-- a tensor: dtype class and values (flat) -/
structure Ten (α : Type) where
  dtype : DT α
  vals  : List α

/-- `data.is_floating_point()` -/
def Ten.is_floating_point {α : Type} (t : Ten α) : Bool := t.dtype.is_floating_point

/-- `data.is_complex()` -/
def Ten.is_complex {α : Type} (t : Ten α) : Bool := t.dtype.is_complex

/-- `dim: int | tuple[int, ...] | None` — carried, never read (see the file comment) -/
abbrev Dim := Option (List Int)

/-- the hooked module: dotted attribute path ↦ tensor -/
abbrev TMod (α : Type) := List (String × Ten α)

/-- the arguments `StateHook.__init__` received (after `module`) -/
structure StateHookArgs where
  train_update : Bool
  eval_update  : Bool
  as_prehook   : Bool
  prepend      : Bool
  always_call  : Bool
deriving DecidableEq, Repr

/-- the world of a method of a `StateHook` subclass with own attributes `O` -/
structure NW (O : Type) (α : Type) where
  module : TMod α
  base   : Option StateHookArgs
  obj    : O

/-- own attributes of `Clamping` (`attribute` is a Lean keyword: field `attribute_`) -/
structure Clamping (α : Type) where
  attribute_ : String
  clampmin  : Option α
  clampmax  : Option α

/-- own attributes of `Normalization` -/
structure Normalization (α : Type) where
  attribute_ : String
  order     : Order α
  scale     : α
  dim       : Dim
  eps       : α

/-! ### `inferno._internal.argtest` -/

/-- `str.isidentifier()` restricted to ASCII: a letter or `_`, then letters, digits, `_` (Python also accepts
non-ASCII letters; the harness only uses ASCII paths) -/
def isidentifier (s : String) : Bool :=
  match s.toList with
  | [] => false
  | c :: cs => (c.isAlpha || c == '_') && cs.all fun d => d.isAlphanum || d == '_'

/-- `argtest.nestedidentifier(name, value)` on a `str`: `ValueError` unless every dot-separated part is an
identifier (`TypeError`, for a non-string, cannot arise for a value of this type); returns the value -/
def argtest_nestedidentifier (value : String) : Except Err String :=
  if (value.splitOn ".").any (fun s => !isidentifier s) then throw Err.ValueError else pure value

/-- `argtest.onedefined((n0, a), (n1, b))`: `RuntimeError` when both are `None`, else the tuple of the values -/
def argtest_onedefined2 {α : Type} (a b : Option α) : Except Err (Option α × Option α) :=
  if a.isSome || b.isSome then pure (a, b) else throw Err.RuntimeError

/-- `argtest.gt(name, value, limit, None, limit_name=…)`: the value if `value > limit`, else `ValueError` -/
def argtest_gt {α : Type} (N : PyNum α) (value limit : α) : Except Err α :=
  if N.gt value limit then pure value else throw Err.ValueError

/-- `argtest.neq(name, value, limit, None)`: the value if `value != limit`, else `ValueError` -/
def argtest_neq {α : Type} (N : PyNum α) (value limit : α) : Except Err α :=
  if N.ne value limit then pure value else throw Err.ValueError

/-- `argtest.neq` on the order of a norm: `float('inf') != limit` for every finite `limit` -/
def argtest_neq_order {α : Type} (N : PyNum α) (value : Order α) (limit : α) : Except Err (Order α) :=
  match value with
  | .inf => pure .inf
  | .fin p => if N.ne p limit then pure (.fin p) else throw Err.ValueError

/-- `argtest.dimensions(name, dim, None, None, permit_none=True)`: `None`, or `argtest.integer` on the value /
on every element — which cannot fail on Python `int`s, all a `Dim` holds; returns the value -/
def argtest_dimensions (dim : Dim) : Except Err Dim := pure dim

/-! ### Python builtins -/

/-- `float(x)` on a Python `float` -/
def py_float {α : Type} (x : α) : α := x

/-- the builtin `max(a, b)`: `b` if `b > a`, else `a` -/
def py_max {α : Type} (N : PyNum α) (a b : α) : α := if N.gt b a then b else a

/-! ### `inferno._internal.rgetattr` / `rsetattr` -/

/-- `rgetattr(module, path)` without default: `AttributeError` when the path does not exist -/
def rgetattr {α : Type} (m : TMod α) (path : String) : Except Err (Ten α) :=
  match m.lookup path with
  | some t => pure t
  | none => throw Err.AttributeError

/-- `setattr` at a dotted path: the binding is replaced where it exists, appended otherwise -/
def TMod.set {α : Type} : TMod α → String → Ten α → TMod α
  | [], path, v => [(path, v)]
  | (k, t) :: m, path, v => if k == path then (k, v) :: m else (k, t) :: TMod.set m path v

/-- `rsetattr(module, path, val)`: `setattr(rgetattr(module, <parent path>), <last name>, val)`.  The parent
objects are assumed to exist (both hooks read the same path first, which fails otherwise) and the attribute is
assumed to accept a plain tensor (a registered `nn.Parameter` refuses one with `TypeError`: the harness hooks
buffers / plain attributes). -/
def rsetattr {α : Type} (m : TMod α) (path : String) (val : Ten α) : Except Err (TMod α) := pure (m.set path val)

/-! ### torch -/

/-- `torch.clamp(input, min=lo, max=hi)`, element-wise `min(max(x, lo), hi)` with an absent bound skipped;
`RuntimeError` when both bounds are `None` -/
def torch_clamp {α : Type} [Max α] [Min α] (input : Ten α) (lo hi : Option α) : Except Err (Ten α) :=
  match lo, hi with
  | none, none => throw Err.RuntimeError
  | some l, none => pure { input with vals := input.vals.map fun x => max x l }
  | none, some h => pure { input with vals := input.vals.map fun x => min x h }
  | some l, some h => pure { input with vals := input.vals.map fun x => min (max x l) h }

/-- `torch.finfo(dtype).tiny`: `TypeError` for a dtype that is neither floating nor complex -/
def torch_finfo_tiny {α : Type} : DT α → Except Err α
  | .floating t => pure t
  | .complex t => pure t
  | .integral => throw Err.TypeError

/-- `input.norm(p, dim)` = `torch.linalg.vector_norm` on one fibre: `(Σ |xᵢ|^p)^(1/p)`, `max |xᵢ|` for `inf` -/
def torch_norm {α : Type} (O : NormOps α) (p : Order α) (xs : List α) : α :=
  match p with
  | .fin p => O.pow ((xs.map fun x => O.pow (O.abs x) p).foldl O.add O.zero) (O.inv p)
  | .inf => (xs.map O.abs).foldl O.max O.zero

/-- `F.normalize(input, p=p, dim=dim, eps=eps)` on one fibre:
`denom = input.norm(p, dim, keepdim=True).clamp_min(eps).expand_as(input); return input / denom`;
`RuntimeError` from `vector_norm` for an integral tensor -/
def F_normalize {α : Type} (O : NormOps α) (input : Ten α) (p : Order α) (dim : Dim) (eps : α) :
    Except Err (Ten α) :=
  match input.dtype with
  | .integral => throw Err.RuntimeError
  | _ =>
    let denom := O.max (torch_norm O p input.vals) eps
    pure { input with vals := input.vals.map fun x => O.div x denom }

/-- `scale * tensor` (a Python number times a tensor) -/
def Ten.smul {α : Type} (O : NormOps α) (scale : α) (t : Ten α) : Ten α :=
  { t with vals := t.vals.map fun x => O.mul scale x }

/-- `StateHook.__init__(self, module, train_update=…, eval_update=…, as_prehook=…, prepend=…, always_call=…)`:
`_hooked_module = argtest.instance("module", module, nn.Module)` (THE module of the world; a `TMod` is one) and the
`ContextualHook` construction from the five flags (`Model/Hooks.lean :: step (.mk …)`, see
`Props/C16GlueNHook.lean :: mkOp`) -/
def StateHook___init__ {O α : Type} (self : NW O α) (module : TMod α)
    (train_update eval_update as_prehook prepend always_call : Bool) : NW O α :=
  { self with base := some ⟨train_update, eval_update, as_prehook, prepend, always_call⟩ }

end InfernoVerif.Gen.NHookPrelude
