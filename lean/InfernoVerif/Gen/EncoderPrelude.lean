import InfernoVerif.Model.Encoder
/-!
Vocabulary of the statement-level translator `harness/progtx_encoder.py` (hand written, core Lean only).

`progtx_encoder.py` regenerates, on every run, the WHOLE BODIES of the seven encoder pipelines of
`inferno/neural/functional/encoding.py` (`homogeneous_poisson_exp_interval` / `_online`, `poisson_interval` /
`_online`, `homogenous_poisson_bernoulli_approx` / `_online`, `inhomogeneous_poisson_bernoulli_approx`) as
`Except Err` programs (`Gen/EncoderProg.lean`).  Every torch / Python primitive the bodies use is a function of
this file, named after the primitive, TOTAL, failing with the exception class the real primitive raises.

## Values

* Python `float` scalars (`step_time`, `refrac`, `1000.0`) are exact rationals (`Rat`), as in `Model/Encoder.lean`;
  Python `int`s are `Nat` (`steps`: a non-negative int, on which `int(steps)` is the identity) or `Int`.
* Float tensor elements are `Rat` (a tensor all of whose elements are finite: the rates `inputs`, the samples,
  the Bernoulli probabilities) or `Enc.Ext` (a rational, `+∞`, `−∞` or NaN: whatever went through `1 / inputs`),
  with the arithmetic of `Model/Encoder.lean` (`Ext.recip`, `Ext.mulFin`, `Ext.addFin`, `Ext.add`, `Ext.ltFin`).
  A float tensor that holds counts (the result of `torch.poisson`) is a `Nat` tensor (offline) or an `Int` tensor
  (online, where it is counted down below zero).  `int64` is `Int` (unbounded, like `Rat` for `float64`).
* Samplers are PARAMETERS.  Each sampling call of the source (`….exponential_(1.0, generator=…)`,
  `torch.poisson(…, generator=…)`, `torch.bernoulli(…, generator=…)`) is a primitive `exponential_` / `poisson_` /
  `bernoulli_` that takes the sampled tensor as an argument, checks that it has the shape the call requests
  (`Err.SampleShape` otherwise: an ill-formed supply, not a behaviour of the code) and hands it on.
  `torch.bernoulli(p)` is `u < p` for a uniform sample `u ∈ [0, 1)` (the trusted base of `Model/Encoder.lean`); its
  result — a float tensor of zeros and ones — is represented by its truth values, `.bool()` is the identity on them.

## Tensors (three layouts, kinds `T`, `S`, `R` of the translator)

* `T` — a tensor shaped like `inputs`: the flattened (row-major) list of its elements, `List α`.  `x.shape`
  (only ever used as `*x.shape` in a size) is `x.length`.
* `S` — a tensor `(n, *inputs.shape)` that goes through `cumsum(dim=0)` / `scatter_(0, …)`: the list of its COLUMNS,
  one per element of `inputs`, each the list of that element's `n` values along the leading (time) axis — the
  element-major layout of `Model/Encoder.lean` (`expOfflineT`, `poissonOfflineT`).  `x[:, mask]` selects columns,
  `x[a:b]` slices every column, `Enc.timeFirst` reads the result time-first.
* `R` — a tensor `(n, *inputs.shape)` that is only acted on element-wise (the Bernoulli encoders): the list of its
  ROWS (time-major, the layout of `Model/Encoder.lean :: bernoulliT`).
  `S` and `R` are never mixed by the translator (a kind error is a `TranslateError`).

Binary tensor operations are specified for operands of EQUAL flattened size — the case in the translated bodies,
where one operand is drawn / selected / created with the shape of the other.  torch's broadcasting of size-1 axes is
not modelled: for unequal sizes the primitives raise `RuntimeError` (`IndexError` for a boolean mask of the wrong
shape), which is what torch does unless broadcasting applies.
-/
set_option linter.unusedVariables false
namespace InfernoVerif.Gen.EncoderPrelude
open InfernoVerif.Enc

/-- exception classes raised by the primitives; `SampleShape` = a supplied sample tensor does not have the shape
the sampling call requests (not an exception of the real code) -/
inductive Err | RuntimeError | IndexError | ZeroDivisionError | SampleShape
deriving DecidableEq, Repr

variable {α : Type}

/-! ## Python scalars -/

/-- `a if x is None else f(x)` -/
def ifNone {β : Type} (x : Option α) (a : β) (f : α → β) : β :=
  match x with
  | none => a
  | some v => f v

/-- `a / b` on Python floats -/
def pyDiv (a b : Rat) : Except Err Rat := if b = 0 then .error .ZeroDivisionError else .ok (a / b)

/-- `a // b` with a float operand: the floor of the quotient, as a float -/
def pyFloorDiv (a b : Rat) : Except Err Rat :=
  if b = 0 then .error .ZeroDivisionError else .ok (((a / b).floor : Int) : Rat)

/-- `max(a, b)`: the first argument unless the second is strictly larger -/
def pyMax (a b : Rat) : Rat := if a < b then b else a

/-- `int(x)` of a float: truncation toward zero -/
def pyInt (q : Rat) : Int := truncQ q

/-! ## element-wise primitives on one element -/

/-- `clamp_max(m)` = `min(x, m)`; NaN propagates -/
def clampMaxE (m : Rat) : Ext → Ext
  | .fin q => .fin (if q ≤ m then q else m)
  | .pinf => .fin m
  | .ninf => .ninf
  | .nan => .nan

/-- what `.long()` gives for NaN / ±∞ on x86-64 (`cvttsd2si`'s "integer indefinite"): `INT64_MIN` -/
def indefinite : Int := -9223372036854775808

/-- `.long()`: truncation toward zero of a finite value -/
def longE : Ext → Int
  | .fin q => truncQ q
  | _ => indefinite

/-! ## layout `T` (flattened tensors) -/

/-- `1 / x` -/
def recipT (x : List Rat) : List Ext := x.map Ext.recip
/-- `x * c`, `c` a Python float -/
def mulS1 (x : List Ext) (c : Rat) : List Ext := x.map (·.mulFin c)
/-- `x - c` -/
def subS1 (x : List Ext) (c : Rat) : List Ext := x.map (·.addFin (-c))
/-- `x + c` -/
def addS1 (x : List Ext) (c : Rat) : List Ext := x.map (·.addFin c)
/-- `x < c` -/
def ltS1 (x : List Ext) (c : Rat) : List Bool := x.map (·.ltFin c)
/-- `x > c` on a finite tensor -/
def gtS1Q (x : List Rat) (c : Rat) : List Bool := x.map fun q => decide (c < q)
/-- `x / c` on a finite tensor, `c` a non-zero literal -/
def divS1Q (x : List Rat) (c : Rat) : List Rat := x.map (· / c)
/-- `x * c` on a finite tensor -/
def mulS1Q (x : List Rat) (c : Rat) : List Rat := x.map (· * c)
/-- `x.clamp_max_(m)` on a finite tensor -/
def clampMax1Q (x : List Rat) (m : Rat) : List Rat := x.map fun p => if p ≤ m then p else m
/-- `x - c` on a count tensor -/
def subS1I (x : List Int) (c : Int) : List Int := x.map (· - c)
/-- `x < c` on a count tensor -/
def ltS1I (x : List Int) (c : Int) : List Bool := x.map fun i => decide (i < c)
/-- `~m` -/
def notT (m : List Bool) : List Bool := m.map (!·)

/-- element-wise binary operation on tensors of equal size -/
def zipE {β γ : Type} (f : α → β → γ) : List α → List β → Except Err (List γ)
  | [], [] => .ok []
  | a :: as, b :: bs => (zipE f as bs).map (f a b :: ·)
  | [], _ :: _ => .error .RuntimeError
  | _ :: _, [] => .error .RuntimeError

/-- `torch.logical_and(a, b)` -/
def andT (a b : List Bool) : Except Err (List Bool) := zipE (fun x y => x && y) a b
/-- `s * x`, `s` a finite (sample) tensor, `x` a float tensor -/
def mulT (s : List Rat) (x : List Ext) : Except Err (List Ext) := zipE (fun s e => e.mulFin s) s x

/-- `x[m]` for a boolean mask `m` shaped like `x` (`IndexError` otherwise): the selected elements, row-major -/
def maskSelect : List α → List Bool → Except Err (List α)
  | [], [] => .ok []
  | x :: xs, b :: bs => (maskSelect xs bs).map fun r => if b then x :: r else r
  | [], _ :: _ => .error .IndexError
  | _ :: _, [] => .error .IndexError

/-- `x[m] = v` for a tensor `v` with one element per selected position (row-major; `RuntimeError` for any other
number of elements) -/
def maskAssign : List α → List Bool → List α → Except Err (List α)
  | [], [], [] => .ok []
  | [], [], _ :: _ => .error .RuntimeError
  | [], _ :: _, _ => .error .IndexError
  | _ :: _, [], _ => .error .IndexError
  | x :: xs, false :: bs, vs => (maskAssign xs bs vs).map (x :: ·)
  | _ :: _, true :: _, [] => .error .RuntimeError
  | _ :: xs, true :: bs, v :: vs => (maskAssign xs bs vs).map (v :: ·)

/-- `x[m] = c` for a scalar `c` -/
def maskFill : List α → List Bool → α → Except Err (List α)
  | [], [], _ => .ok []
  | x :: xs, b :: bs, c => (maskFill xs bs c).map ((if b then c else x) :: ·)
  | [], _ :: _, _ => .error .IndexError
  | _ :: _, [], _ => .error .IndexError

/-- all-or-nothing traversal, first failure wins -/
def collect : List (Except Err α) → Except Err (List α)
  | [] => .ok []
  | .error e :: _ => .error e
  | .ok a :: rest => (collect rest).map (a :: ·)

/-! ## layouts `S` / `R`: element-wise -/

/-- `x + c` -/
def addS2 (x : List (List Ext)) (c : Rat) : List (List Ext) := x.map (addS1 · c)
/-- `x.clamp_max_(m)` -/
def clampMax2 (x : List (List Ext)) (m : Rat) : List (List Ext) := x.map (·.map (clampMaxE m))
/-- `x.long()` -/
def long2 (x : List (List Ext)) : List (List Int) := x.map (·.map longE)
/-- `x.clamp_max_(m)` on a count tensor -/
def clampMax2N (x : List (List Nat)) (m : Nat) : List (List Nat) := x.map (·.map fun t => min t m)
/-- `x.long()` on a count tensor -/
def long2N (x : List (List Nat)) : List (List Int) := x.map (·.map Int.ofNat)
/-- `x == c` on a count tensor -/
def eqS2N (x : List (List Nat)) (c : Nat) : List (List Bool) := x.map (·.map fun k => k == c)
/-- `x += b` for a count tensor `x` and a boolean tensor `b` of the same shape (`True` counts 1) -/
def iaddB (x : List (List Nat)) (b : List (List Bool)) : Except Err (List (List Nat)) :=
  match zipE (fun col bc => zipE (fun (k : Nat) (t : Bool) => k + (if t then 1 else 0)) col bc) x b with
  | .error e => .error e
  | .ok cols => collect cols
/-- `x / c`, `c` a non-zero literal -/
def divS2Q (x : List (List Rat)) (c : Rat) : List (List Rat) := x.map (divS1Q · c)
/-- `x * c` -/
def mulS2Q (x : List (List Rat)) (c : Rat) : List (List Rat) := x.map (mulS1Q · c)
/-- `x.clamp_max_(m)` -/
def clampMax2Q (x : List (List Rat)) (m : Rat) : List (List Rat) := x.map (clampMax1Q · m)
/-- `torch.zeros_like(x, dtype=torch.bool)` -/
def zerosLikeBool {β : Type} (x : List (List β)) : List (List Bool) := x.map (·.map fun _ => false)

/-! ## layout `S` (columns): the time-axis plumbing -/

/-- `s * x` for a sample tensor `s` of shape `(n, *x.shape)`: every column is scaled by its element of `x` -/
def mulB (s : List (List Rat)) (x : List Ext) : Except Err (List (List Ext)) :=
  zipE (fun col e => col.map fun smp => e.mulFin smp) s x

/-- `x.cumsum(dim=0)` -/
def cumsum0 (x : List (List Ext)) : List (List Ext) := x.map cumsum
/-- `x.cumsum(dim=0)` on a count tensor -/
def cumsum0N (x : List (List Nat)) : List (List Nat) := x.map (cumsumNat 0)

/-- `x.expand(n, *x.shape)` -/
def expand0 (x : List α) (n : Nat) : List (List α) := x.map (List.replicate n)

/-- `t.new_zeros(n, *x.shape, dtype=torch.bool)` with `numel = x.length` -/
def zerosBool (n numel : Nat) : List (List Bool) := List.replicate numel (List.replicate n false)

/-- one column of `z.scatter_(0, idx, 1)`: every index must lie in `[0, len z)` (`RuntimeError`: index out of
bounds); row `t` becomes `True` iff some index equals `t`, other rows keep their value -/
def scatterCol (z : List Bool) (idx : List Int) : Except Err (List Bool) :=
  if idx.all (fun i => decide (0 ≤ i) && decide (i < (z.length : Int))) then
    .ok (z.mapIdx fun t b => decide ((t : Int) ∈ idx) || b)
  else .error .RuntimeError

/-- `z.scatter_(0, idx, 1)` for a boolean `z` of shape `(n, *shape)` and an `int64` `idx` of shape `(k, *shape)` -/
def scatter0 (z : List (List Bool)) (idx : List (List Int)) : Except Err (List (List Bool)) :=
  if z.length = idx.length then collect (List.zipWith scatterCol z idx) else .error .RuntimeError

/-- Python's normalisation of a slice bound for a sequence of length `len` -/
def pyBound (len : Nat) (i : Int) : Nat := if i < 0 then (i + len).toNat else min i.toNat len

/-- `l[lo:hi]` -/
def pySlice (l : List α) (lo hi : Option Int) : List α :=
  let a := match lo with | none => 0 | some i => pyBound l.length i
  let b := match hi with | none => l.length | some i => pyBound l.length i
  (l.take b).drop a

/-- `x[lo:hi]` along the leading axis -/
def sliceRows (x : List (List α)) (lo hi : Option Int) : List (List α) := x.map (pySlice · lo hi)

/-! ## layout `R` (rows) -/

/-- `ein.repeat(x, "... -> t ...", t=n)` -/
def repeatR (x : List α) (n : Nat) : List (List α) := List.replicate n x

/-! ## samplers (the sampled tensor is the first argument) -/

/-- `t.new_empty(n, *x.shape).exponential_(1.0, generator=g)` with `numel = x.length`, layout `S`
(`RuntimeError` for a negative size) -/
def exponentialS_ (sample : List (List Rat)) (n : Int) (numel : Nat) : Except Err (List (List Rat)) :=
  if n < 0 then .error .RuntimeError
  else if sample.length = numel ∧ sample.all (fun col => decide ((col.length : Int) = n)) = true then .ok sample
  else .error .SampleShape

/-- `torch.empty_like(x).exponential_(1.0, generator=g)` with `numel = x.length`, layout `T` -/
def exponential_ (sample : List Rat) (numel : Nat) : Except Err (List Rat) :=
  if sample.length = numel then .ok sample else .error .SampleShape

/-- `torch.poisson(rate, generator=g)`, layout `S`: counts, shaped like `rate` -/
def poissonS_ (sample : List (List Nat)) (rate : List (List Ext)) : Except Err (List (List Nat)) :=
  if sample.map List.length = rate.map List.length then .ok sample else .error .SampleShape

/-- `torch.poisson(rate, generator=g)`, layout `T` -/
def poisson_ (sample : List Nat) (rate : List Ext) : Except Err (List Int) :=
  if sample.length = rate.length then .ok (sample.map Int.ofNat) else .error .SampleShape

/-- `torch.bernoulli(p, generator=g)`, layout `T`: `u < p` -/
def bernoulli_ (u : List Rat) (p : List Rat) : Except Err (List Bool) :=
  if u.length = p.length then .ok (List.zipWith (fun u p => decide (u < p)) u p) else .error .SampleShape

/-- `torch.bernoulli(p, generator=g)`, layout `R` -/
def bernoulli2_ (U : List (List Rat)) (p : List (List Rat)) : Except Err (List (List Bool)) :=
  if U.map List.length = p.map List.length then
    .ok (List.zipWith (fun urow prow => List.zipWith (fun u p => decide (u < p)) urow prow) U p)
  else .error .SampleShape

/-- `.bool()` of a float tensor of zeros and ones represented by its truth values -/
def boolOf1 (x : List Bool) : List Bool := x
/-- `.bool()`, layouts `S` / `R` -/
def boolOf2 (x : List (List Bool)) : List (List Bool) := x

/-! ## Python generators -/

/-- a generator function `pre; for _ in range(n): body; yield v` run to exhaustion: `step` is one execution of the
loop body on the generator's local state, fed with the tensors its sampling call draws in that iteration; the
result is the list of yielded values.  `SampleShape` when the supply has not exactly one entry per iteration. -/
def iterate {σ ι ο : Type} (step : σ → ι → Except Err (σ × ο)) : Nat → σ → List ι → Except Err (List ο)
  | 0, _, [] => .ok []
  | 0, _, _ :: _ => .error .SampleShape
  | _ + 1, _, [] => .error .SampleShape
  | n + 1, st, i :: is =>
    match step st i with
    | .error e => .error e
    | .ok (st', o) => (iterate step n st' is).map (o :: ·)

end InfernoVerif.Gen.EncoderPrelude
