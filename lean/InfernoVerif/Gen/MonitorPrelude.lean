import InfernoVerif.Model.Lifecycle
/-!
Vocabulary of the statement-level translator `harness/progtx_monitor.py` (hand written, core Lean only).

`progtx_monitor.py` regenerates, on every run, the whole bodies of the monitor classes of
`inferno/observe/monitors.py` — `Monitor.register`, `Monitor.latest` / `clear` / `view` / `dump` / `peek` /
`reducer`, the hook bodies `InputMonitor._monitor_call`, `OutputMonitor._monitor_call`,
`StateMonitor._monitor_call`, `DifferenceMonitor._monitor_pre_call` / `_monitor_post_call` /
`DifferenceMonitor.clear`, `MultiStateMonitor._monitor_call`, and the five `partialconstructor`s — as
`Except (Err × world)` programs / closures (`Gen/MonitorProg.lean`).  An exception carries the world at the raise.

What the programs act on — ONE world type `MW V` (`V` = the type of Python values that flow through a hook call;
never inspected):
* the registration side, exactly the components of the model state `Lifecycle.State` (`st`): the layers' ordered
  `_forward_hooks` list `post` with torch's handle counter `nextId`, and the heap of monitor objects `mons`; `me` is
  the identity of `self` in that heap.  `self._observed` (`None` or `weakref.ref(module)`) is `observed`
  (`none` / `some layer`), and `layerAlive` says whether a weak reference to a layer still resolves — the model
  has no dead layers (`Model/Lifecycle.lean`: a layer owns its cells for the whole program), the world has, so that
  the dead-reference branch of `Monitor.register` is a real branch;
* the observation side: the user callables `filter_` / `map_` and the environment (`fns`), the name-mangled private
  attributes `__observed_attr` (`attr`), `__observed_attrs` (`attrs`), `DifferenceMonitor.__data` (`data`), and the
  LOG of everything that was called on `self.reducer_` (`log`, oldest first) — what a monitor hands to its reducer
  is what the C15 observation `count` counts and what the reducer machine of C07 / C08 (`Model/Reducer.lean ::
  step (.forward …)`) consumes.

Code outside `monitors.py` that stays vocabulary (documented at each function): `Hook.register` /
`Hook.registered` / `Hook.deregister` (reached through `ContextualHook`, which overrides none of them — checked by
the translator on `inferno/core/infrastructure.py`; they are regenerated in `Gen/HookProg.lean` for property C16,
`Props/C15GlueMonitor.lean :: hook_register_agrees` / `hook_deregister_agrees` prove the vocabulary here equal to
those programs), `weakref.ref`, `rgetattr`, the reducer, the user callables.
-/
set_option linter.unusedVariables false
namespace InfernoVerif.Gen.MonitorPrelude
open InfernoVerif.Lifecycle

/-- a call made on `self.reducer_` (or the read of its `latest` property) -/
inductive RCall (V : Type) where
  | call (args : List V)          -- `self.reducer_(*args)`
  | clear (kwargs : V)            -- `self.reducer_.clear(**kwargs)`
  | view (args kwargs : V)        -- `self.reducer_.view(*args, **kwargs)`
  | dump (args kwargs : V)
  | peek (args kwargs : V)
  | latest                        -- `self.reducer_.latest`

/-- user code and environment of a monitor (never changes during a method) -/
structure Fns (V : Type) where
  /-- truth value of `self.filter_(x)` (user code or the default lambda), or the exception it raises -/
  filter_  : V → Except Err Bool
  /-- the same with two positional arguments (`DifferenceMonitor`: `(final, initial)`) -/
  filter2_ : V → V → Except Err Bool
  /-- `*self.map_(x)`: the positional arguments the star-unpacking of the result yields, or the exception raised
  (by the callable, or `TypeError` when the result is not iterable) -/
  map_     : V → Except Err (List V)
  map2_    : V → V → Except Err (List V)
  /-- `rgetattr(module, attr)` on the module as it is when the hook runs (`module` = a snapshot of the hooked
  module: the pre-forward and the post-forward call see different snapshots); `AttributeError` when missing -/
  rgetattr : Nat → Nat → Except Err V
  /-- `tuple(<generator>)` as a Python value -/
  tuple    : List V → V
  /-- `None` -/
  none     : V
  /-- what the reducer returns from `view` / `dump` / `peek` / `latest` / `clear` -/
  result   : RCall V → V

/-- the world of a method running on monitor number `me` -/
structure MW (V : Type) where
  st         : State
  me         : Nat
  layerAlive : Nat → Bool
  observed   : Option Nat          -- `self._observed`
  fns        : Fns V
  attr       : Nat                 -- `self.__observed_attr`
  attrs      : List Nat            -- `self.__observed_attrs`
  data       : V                   -- `DifferenceMonitor.__data`
  log        : List (RCall V)      -- calls on `self.reducer_`, oldest first

variable {V : Type}

/-! ### Registration (code of `inferno/core/infrastructure.py`, regenerated in `Gen/HookProg.lean`) -/

/-- `self.registered` (`Hook.registered`): a handle is held.  The model's monitors are post-hook monitors
(`as_prehook=False`, all shipped trainers): `handle` is `__posthook_handle`, `__prehook_handle` stays `None`. -/
def Hook_registered (self : MW V) : Bool := (self.st.mons self.me).handle.isSome

/-- `ContextualHook.register(self, module)` = `Hook.register(self, module)`: `RuntimeError` when already
registered; otherwise `module.register_forward_hook(<weak lambda>, prepend=<prepend>)` — a fresh handle
(torch's counter is global) at the end of the ordered hook list, at its front with `prepend` — and the handle is
stored.  The model keeps ALL layers' hook lists in one list, an entry belonging to the layer its monitor is
registered with (`Monitor.layer`), so registering with `module` also records `layer := module` (an unregistered
monitor has no entry in the list). -/
def ContextualHook_register (self : MW V) (module : Nat) : Except (Err × MW V) (MW V) :=
  match (self.st.mons self.me).handle with
  | some _ => .error (.RuntimeError, self)
  | none =>
    .ok { self with st := (setMon
      { self.st with post := insertPost self.st.post (self.st.mons self.me).prepend (self.st.nextId, self.me),
                            nextId := self.st.nextId + 1 }
        self.me { self.st.mons self.me with handle := some self.st.nextId, layer := module }) }

/-- `self.deregister()` (`Hook.deregister`, inherited): `handle.remove()`, the handle is forgotten; never raises -/
def Hook_deregister (self : MW V) : MW V :=
  { self with st := (setMon
      { self.st with post := removeHandle self.st.post (self.st.mons self.me).handle }
        self.me { self.st.mons self.me with handle := none }) }

/-- `weakref.ref(module)`: refers to the module without keeping it alive — its identity -/
def weakref_ref (module : Nat) : Nat := module

/-- `r and r()` for `r = None | weakref.ref(m)`: `None` when there is no reference (a `weakref.ref` object is
truthy: it defines neither `__bool__` nor `__len__`) or the referent is dead, else the referent -/
def weakref_resolve (self : MW V) (r : Option Nat) : Option Nat :=
  r.bind fun l => if self.layerAlive l then some l else none

/-! ### Observation -/

/-- `rgetattr(module, attr)` -/
def rgetattr (self : MW V) (module attr : Nat) : Except (Err × MW V) V :=
  match self.fns.rgetattr module attr with
  | .ok v => .ok v
  | .error e => .error (e, self)

/-- `self.filter_(x)` in a condition -/
def call_filter (self : MW V) (x : V) : Except (Err × MW V) Bool :=
  match self.fns.filter_ x with
  | .ok b => .ok b
  | .error e => .error (e, self)

/-- `self.filter_(x, y)` in a condition -/
def call_filter2 (self : MW V) (x y : V) : Except (Err × MW V) Bool :=
  match self.fns.filter2_ x y with
  | .ok b => .ok b
  | .error e => .error (e, self)

/-- `*self.map_(x)` -/
def call_map (self : MW V) (x : V) : Except (Err × MW V) (List V) :=
  match self.fns.map_ x with
  | .ok l => .ok l
  | .error e => .error (e, self)

/-- `*self.map_(x, y)` -/
def call_map2 (self : MW V) (x y : V) : Except (Err × MW V) (List V) :=
  match self.fns.map2_ x y with
  | .ok l => .ok l
  | .error e => .error (e, self)

/-- the reducer object of a monitor: the one stored in `self.reducer_` (the property `Monitor.reducer` returns it) -/
inductive ReducerRef | reducer_
deriving DecidableEq, Repr

/-- a call on the reducer `r`: logged, its result is the reducer's business (C07 / C08) -/
def reducer_do (self : MW V) (r : ReducerRef) (c : RCall V) : MW V × V :=
  ({ self with log := self.log ++ [c] }, self.fns.result c)

/-- a generator whose element expression may raise: elements in order, the first exception wins -/
def mapE {ε α β : Type} (f : α → Except ε β) : List α → Except ε (List β)
  | [] => .ok []
  | a :: l =>
    match f a with
    | .error e => .error e
    | .ok b =>
      match mapE f l with
      | .error e => .error e
      | .ok bs => .ok (b :: bs)

/-- number of observations handed to the reducer (`self.reducer_(…)` calls) in a log -/
def observations (log : List (RCall V)) : Nat :=
  (log.filter fun c => match c with | .call _ => true | _ => false).length

/-! ### Partial constructors -/

/-- the monitor classes of `monitors.py` -/
inductive MonCls | Monitor | InputMonitor | OutputMonitor | StateMonitor | DifferenceMonitor | MultiStateMonitor
deriving DecidableEq, Repr

/-- where `constructor(attr, module)` registers the new monitor: on `module` itself, or on
`rgetattr(module, attr)` -/
inductive Target where
  | module (m : Nat)
  | sub (m : Nat) (attr : Nat)
deriving DecidableEq, Repr

/-- the keyword arguments of the `cls(…)` call inside a `constructor(attr, module)` closure.  `R` = reducers,
`F` = user callables (`none` = the keyword is absent from the call / `None` was frozen).  A keyword the call does
not pass is `none` (the class default applies). -/
structure CtorCall (R F : Type) where
  cls          : MonCls
  reducer      : R
  attr         : Option Nat
  subattrs     : Option (List Nat)
  module       : Target
  as_prehook   : Option Bool
  train_update : Option Bool
  eval_update  : Option Bool
  prepend      : Option Bool
  filter_      : Option F
  map_         : Option F
  op_          : Option F

end InfernoVerif.Gen.MonitorPrelude
