import InfernoVerif.Model.Reducer
/-!
Vocabulary of the statement-level translator `harness/progtx_reducer.py` (hand written, core Lean only).

`progtx_reducer.py` regenerates, on every run, the whole bodies of the state-machine methods of
`RecordReducer` (`__init__`, `add_record`, the `dt` / `duration` / `inplace` getters and setters) and of
`FoldReducer` (`__init__`, `clear`, `view`, `dump`, `peek`, `push`, `forward`) from
`inferno/observe/reducers/base.py` as programs over the private state `FR` below (`Gen/ReducerProg.lean`).

* As in `Model/Reducer.lean` the state is that of ONE element of the observation tensor (every fold and every
  interpolation kernel acts element-wise): a tensor value is an `α`, the storage of the record `data_` is a
  `Ring α` (`none` = ignored storage, `torch.empty(0)`), an observation shape is the token `Shape.elem`.
* Python semantics of exceptions are kept: an assignment made before a raise persists.  The programs live in
  `Except (Err × FR α) _` — the error carries the state at the point of the raise.  Failing primitives are plain
  `Except Err _`; the generated text wraps each of them in `raising self`.
* What the subclass supplies is a parameter (`PyEnv.K : Reducer.Kind`): `self.fold(*inputs, state)` is
  `FoldReducer_fold` (attribute side effect `K.pre`, then `K.fold` on the current `self.dt`), `self.interpolate` is
  `K.interp`.
* The methods of the `RecordTensor` `data_` are NOT re-translated here (that is `Gen/RingProg.lean` /
  `Gen/RecordProg.lean`, properties C01 / C13): each is ONE primitive over the record object `RecObj`, written with
  the model's own ring functions (`Ring.push`, `Ring.read`, `Ring.align`, `Ring.resetFill`, `Ring.reconstrain0`,
  `Reducer.fresh`, `Reducer.storageOr`, `Select.selectScalar` / `selectTensor`), and fails with the exception class
  the real method raises (`select` / `align` on ignored storage: `RuntimeError`; a time out of range / a
  non-positive `dt`: `ValueError`; a slot outside the storage: `IndexError`).  A raise inside such a primitive is
  taken to leave the record as it was.
* Python floats are an abstract `α`; the three tests the bodies make on them are fields of `PyEnv`
  (`argtest.gt(·, 0)`, `argtest.gte(·, 0)`, `!=`).
-/
set_option linter.unusedVariables false
namespace InfernoVerif.Gen.ReducerPrelude
open InfernoVerif.Ring InfernoVerif.Select InfernoVerif.Reducer

/-- what a translated body needs from outside the two classes: the subclass (`K`: `fold`, `interpolate`, the
record-size formula, the padding zero, `select`'s time arithmetic) and Python's tests on floats -/
structure PyEnv (α ω : Type) where
  K      : Kind α ω
  pos    : α → Bool          -- `argtest.gt(name, value, 0, float)` passes
  nonneg : α → Bool          -- `argtest.gte(name, value, 0, float)` passes
  ne     : α → α → Bool      -- Python `a != b` on floats

/-- the `time` argument of `view`: a Python float, or a tensor (here: its entry for this element) -/
inductive Time (α : Type) where
  | float (t : α)
  | tensor (t : α)
deriving Repr, DecidableEq

/-- the shape of an observation (the machine is per element, so there is exactly one) -/
inductive Shape where
  | elem
deriving Repr, DecidableEq

/-- the `RecordTensor` `data_` as the reducer uses it: its own copies of the temporal configuration,
`recordsz`, and the storage of this element (`none` = ignored storage) -/
structure RecObj (α : Type) where
  dt        : α
  duration  : α
  inclusive : Bool
  recordsz  : Nat
  store     : Option (Ring α)

/-- the private state of a `FoldReducer` that the translated methods read and write -/
structure FR (α : Type) where
  step_time : α                 -- `RecordReducer.__step_time`
  duration  : α                 -- `RecordReducer.__duration`
  inclusive : Bool              -- `RecordReducer.__inclusive`
  inplace   : Bool              -- `RecordReducer.__inplace`
  records   : List String       -- `RecordReducer.__records` (a set of attribute names, in insertion order)
  data_     : RecObj α          -- the attribute `data_` (a `RecordTensor`)
  initial   : Bool              -- the extra `_initial`
  fill      : α                 -- `FoldReducer.__fill`
  p         : Params α          -- attributes of the subclass (`decay`, `_count`)

variable {α ω β : Type}

/-- a failing primitive raises in state `self`: the exception carries the state reached so far -/
def raising (self : FR α) : Except Err β → Except (Err × FR α) β
  | .ok a => .ok a
  | .error e => .error (e, self)

/-! ### Python / argtest primitives -/

/-- `argtest.gt(name, value, 0, float)`: the value, or ValueError unless it is positive -/
def argtest_gt (P : PyEnv α ω) (value : α) : Except Err α :=
  if P.pos value then .ok value else .error .ValueError

/-- `argtest.gte(name, value, 0, float)`: the value, or ValueError unless it is non-negative -/
def argtest_gte (P : PyEnv α ω) (value : α) : Except Err α :=
  if P.nonneg value then .ok value else .error .ValueError

/-- `s.add(a)` on the set of record names -/
def set_add (s : List String) (a : String) : List String := if a ∈ s then s else s ++ [a]

/-- `x.shape` of a tensor value -/
def shapeOf (x : α) : Shape := .elem

/-- `torch.empty(0)` as a storage value: ignored storage -/
def torch_empty0 : Option (Ring α) := none

/-- `t.flip(0)` on the storage of one element (its values along the record dimension) -/
def flip0 (l : List α) : List α := l.reverse

/-- `self.fold(*inputs, state)`: the subclass callback — its attribute side effect (`CAReducer`: `_count += 1`), then
its value on the updated attributes and the current `self.dt` -/
def FoldReducer_fold (P : PyEnv α ω) (self : FR α) (inputs : ω) (state : Option α) : FR α × α :=
  let p' := P.K.pre self.p
  ({ self with p := p' }, P.K.fold p' self.step_time inputs state)

/-! ### attribute access by name (`hasattr` / `getattr` on the reducer) -/

/-- the attributes of a `FoldReducer` instance that hold a `RecordTensor` -/
def isinstance_RecordTensor (self : FR α) (a : String) : Bool := a == "data_"

/-- `hasattr(self, a)` for the names the state models (the record, the extra, the public properties) -/
def hasattr (self : FR α) (a : String) : Bool :=
  isinstance_RecordTensor self a || ["_initial", "dt", "duration", "inplace", "data", "latest"].contains a

/-- `getattr(self, a)` where a `RecordTensor` is expected -/
def getattr_record (self : FR α) (a : String) : Except Err (RecObj α) :=
  if a == "data_" then .ok self.data_ else .error .AttributeError

/-- write back of a record object mutated through `getattr(self, a).<property> = …` -/
def setattr_record (self : FR α) (a : String) (d : RecObj α) : FR α :=
  if a == "data_" then { self with data_ := d } else self

/-! ### the `RecordTensor` primitives -/

/-- what a temporal setter of `RecordTensor` does once the new value is stored: the size formula, and
`if size != recordsz: align(0); reconstrain(0, size)` on initialised storage (the model's `resizeData`) -/
def RecObj.resized (K : Kind α ω) (d : RecObj α) (dt dur : α) (incl : Bool) : RecObj α :=
  let n' := K.recsz dt dur incl
  { dt := dt, duration := dur, inclusive := incl, recordsz := n',
    store := d.store.map fun r => if n' = d.recordsz then r else r.reconstrain0 n' K.zero }

/-- `RecordTensor.create(owner, name, step_time, duration, value, …, inclusive=inclusive)`: the new record object
(the attribute it is stored under is resolved by the translator) -/
def RecordTensor_create (P : PyEnv α ω) (step_time duration : α) (value : Option (Ring α)) (inclusive : Bool) :
    Except Err (RecObj α) :=
  if !P.pos step_time then .error .ValueError
  else if !P.nonneg duration then .error .ValueError
  else
    let n := P.K.recsz step_time duration inclusive
    match value with
    | none => .ok ⟨step_time, duration, inclusive, n, none⟩
    | some r => if r.n = n ∧ r.data.length = n then .ok ⟨step_time, duration, inclusive, n, some r⟩
                else .error .RuntimeError

/-- `rt.dt = value` -/
def RecordTensor_set_dt (P : PyEnv α ω) (d : RecObj α) (value : α) : Except Err (RecObj α) :=
  if P.pos value then .ok (d.resized P.K value d.duration d.inclusive) else .error .ValueError

/-- `rt.duration = value` -/
def RecordTensor_set_duration (P : PyEnv α ω) (d : RecObj α) (value : α) : Except Err (RecObj α) :=
  if P.nonneg value then .ok (d.resized P.K d.dt value d.inclusive) else .error .ValueError

/-- `rt.inclusive = value` (stores the flag, then re-assigns the stored duration through its setter) -/
def RecordTensor_set_inclusive (P : PyEnv α ω) (d : RecObj α) (value : Bool) : Except Err (RecObj α) :=
  if P.nonneg d.duration then .ok (d.resized P.K d.dt d.duration value) else .error .ValueError

/-- `rt.ignored` -/
def RecordTensor_ignored (d : RecObj α) : Bool := d.store.isNone

/-- `rt.value` along the record dimension (`torch.empty(0)` has no entries) -/
def RecordTensor_value (d : RecObj α) : List α :=
  match d.store with
  | some r => r.data
  | none => []

/-- `rt.align(index)`: `argtest.index` (ValueError), then RuntimeError on ignored storage, else roll -/
def RecordTensor_align (d : RecObj α) (index : Nat) : Except Err (RecObj α) :=
  if index < d.recordsz then
    match d.store with
    | some r => .ok { d with store := some (r.align index) }
    | none => .error .RuntimeError
  else .error .ValueError

/-- `rt.reset(fill)`: `fill_` + pointer 0 (nothing on ignored storage); `fill=None` is `align(0)` -/
def RecordTensor_reset (d : RecObj α) (fill : Option α) : Except Err (RecObj α) :=
  match fill with
  | some f => .ok { d with store := d.store.map (·.resetFill f) }
  | none => RecordTensor_align d 0

/-- `rt.initialize(shape, fill=fill)`: `torch.full((recordsz, *shape), fill)`, pointer 0 -/
def RecordTensor_initialize (d : RecObj α) (shape : Shape) (fill : α) : RecObj α :=
  { d with store := some (fresh d.recordsz fill) }

/-- `rt.deinitialize(use_uninitialized)`: ignored storage (either kind) -/
def RecordTensor_deinitialize (d : RecObj α) (use_uninitialized : Bool) : RecObj α :=
  { d with store := none }

/-- `rt.peek()`: `None` on ignored storage, else `read(1)` -/
def RecordTensor_peek (d : RecObj α) : Except Err (Option α) :=
  match d.store with
  | none => .ok none
  | some r =>
    match r.read 1 with
    | some v => .ok (some v)
    | none => .error .IndexError

/-- `rt.push(obs, inplace=inplace)`: ignored storage is zero-initialised first; `write(obs, 0)`, `incr(1)` -/
def RecordTensor_push (P : PyEnv α ω) (d : RecObj α) (obs : α) (inplace : Bool) : RecObj α :=
  { d with store := some ((storageOr d.store (fresh d.recordsz P.K.zero)).push obs inplace) }

/-- `rt.select(time, interp, tolerance=tolerance, offset=offset)` (C02's model, `Model/Select.lean`) -/
def RecordTensor_select (P : PyEnv α ω) (d : RecObj α) (time : Time α) (interp : Interp α) (tolerance : α)
    (offset : Int) : Except Err α :=
  match d.store with
  | none => .error .RuntimeError
  | some r =>
    match (match time with
           | .float t => selectScalar P.K.ops interp r d.dt tolerance t offset
           | .tensor t => selectTensor P.K.ops interp r d.dt tolerance t offset) with
    | .ok v => .ok v
    | .valueError => .error .ValueError
    | .noSlot => .error .IndexError

end InfernoVerif.Gen.ReducerPrelude
