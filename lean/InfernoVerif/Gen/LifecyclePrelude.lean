import InfernoVerif.Model.Lifecycle
/-!
Vocabulary of the statement-level translator `harness/progtx_lifecycle.py` (hand written, core Lean only).

`progtx_lifecycle.py` regenerates, on every run, the whole bodies of the monitor-pool / trainer bookkeeping code
(`inferno/observe/pooling.py`: `Observable.monitors`, `Observable.add_monitor`, `MonitorPool.monitors`,
`named_monitors`, `pool`, `add_observed`, `get_observed`, `del_observed`, `add_monitor`, `get_monitor`,
`del_monitor`; `inferno/learn/base.py`: `CellTrainer.monitors`, `named_monitors`, `cells`, `named_cells`,
`add_cell`, `del_cell`, `add_monitor`, `get_monitor`, `del_monitor`, `train`, `clear`, `update`) as
`Except (Err × world)` programs (`Gen/LifecycleProg.lean`).  An exception carries the world at the raise
(Python keeps the assignments made before a `raise`).

What the programs act on — the components of the model state `Lifecycle.State` themselves, plus the private
containers of the ONE trainer whose method runs:
* `LW` — the world seen from inside a method of trainer number `me` or of its `monitor_pool_`:
  `st` (everything that is not a container of this trainer: the layers' ordered `_forward_hooks` list `post`
  with torch's handle counter `nextId`, the heap of monitor objects `mons` / `nMons`, the weak name → monitor
  dictionaries `Observable.__monitors` of all cells `cellMons`, the topology, the other trainers), and the
  containers themselves: `CellTrainer.training`, `cells_` (a `WeakValueDictionary`), `aux_states_`
  (a `ModuleDict`), and of the pool `training` (`poolTraining`), `monitors_` (a `ModuleDict` of `ModuleDict`s),
  `observed_` (a `WeakValueDictionary`).  `self.monitor_pool_` is the pool part of the same world, so a call
  `self.monitor_pool_.m(…)` is the regenerated `MonitorPool_m` on the same world.
  `env` holds what the model does not have: which cell has which updater, which attributes an updater has.
* `OW` — the world seen from inside a method of the `Observable` (cell) number `me`: `st` only.

Representation: names (`str`) are `Nat`; cells, monitors, updaters, auxiliary state modules are their indices;
a dictionary (`dict`, `nn.ModuleDict`, `WeakValueDictionary`, `MapAccessor`) is an association list in
insertion order — the same representation as `Trainer.cells` / `Trainer.groups` of the model, read with the
model's `lookup`.  A weak dictionary never loses an entry here: cells are owned by their layer for the whole
program (`Model/Lifecycle.lean`), and the removal of a collected monitor from `cellMons` is the model's `gc`,
which runs between method calls.  Generators are evaluated when they are created (the bodies never mutate the
dictionary a pending generator reads).

Every Python / torch / inferno primitive the bodies use is a function of this file named after it; a primitive
that can raise returns `Except` with the exception class the real one raises.  `Err.Other` marks the two places
where a value has no counterpart in the model (a dead basis; a `_tags` whose `_attr` is not the monitor's path).
-/
set_option linter.unusedVariables false
namespace InfernoVerif.Gen.LifecyclePrelude
open InfernoVerif.Lifecycle

/-- a `MonitorConstructor` (the closure returned by `<Monitor class>.partialconstructor(…)`): what the model
records about the monitor it builds — the trainer that made the closure (GHOST `Monitor.owner`), its
`prepend` keyword, and for a `MultiStateMonitor` the monitor names it reads through `cell.monitors` -/
structure Ctor where
  owner   : Nat
  prepend : Bool
  reads   : List Nat

/-- what the model does not have: `cell.updater` (`None` or an updater) and `hasattr(updater, p)` -/
structure Env where
  updaterOf  : Nat → Option Nat
  updaterHas : Nat → Nat → Bool

/-- the world of a method of trainer `me` / of its monitor pool -/
structure LW where
  st           : State
  env          : Env
  me           : Nat
  training     : Bool                        -- `CellTrainer.training`
  cells_       : List (Nat × Nat)            -- `CellTrainer.cells_`      : name ↦ cell
  aux_states_  : List (Nat × Nat)            -- `CellTrainer.aux_states_` : name ↦ state module
  poolTraining : Bool                        -- `MonitorPool.training`
  monitors_    : List (Nat × List (Nat × Nat))   -- `MonitorPool.monitors_` : observable name ↦ (monitor name ↦ monitor)
  observed_    : List (Nat × Nat)            -- `MonitorPool.observed_`   : name ↦ observable (cell)

/-- the world of a method of the observable (cell) `me` -/
structure OW where
  st : State
  me : Nat

/-! ### Dictionaries -/

/-- `k in d` -/
def dict_contains {V : Type} (d : List (Nat × V)) (k : Nat) : Bool := d.any (fun e => e.1 == k)

/-- `d[k]`: `KeyError` when absent -/
def dict_getitem {σ V : Type} (w : σ) (d : List (Nat × V)) (k : Nat) : Except (Err × σ) V :=
  match lookup d k with
  | some v => .ok v
  | none => .error (.KeyError, w)

/-- `getitem(d, k, None)` / `d.get(k)` -/
def dict_get {V : Type} (d : List (Nat × V)) (k : Nat) : Option V := lookup d k

/-- `getitem(d, k)` of `inferno._internal`: `d[k]` if `k in d`, `KeyError` otherwise -/
def getitem {σ V : Type} (w : σ) (d : List (Nat × V)) (k : Nat) : Except (Err × σ) V := dict_getitem w d k

/-- `getattr(d, k, None)` on a `nn.ModuleDict`: its entries are its submodules (`_modules`) -/
def ModuleDict_getattr {V : Type} (d : List (Nat × V)) (k : Nat) : Option V := lookup d k

/-- `rgetitem(d, (a, b), None)` of `inferno._internal` -/
def rgetitem2 {V : Type} (d : List (Nat × List (Nat × V))) (a b : Nat) : Option V := (lookup d a).bind (lookup · b)

/-- `d[k] = v`: an existing key keeps its position, a new key goes to the end -/
def dict_setitem {V : Type} (d : List (Nat × V)) (k : Nat) (v : V) : List (Nat × V) :=
  if d.any (fun e => e.1 == k) then d.map (fun e => if e.1 == k then (k, v) else e) else d ++ [(k, v)]

/-- `del d[k]`: `KeyError` when absent -/
def dict_delitem {σ V : Type} (w : σ) (d : List (Nat × V)) (k : Nat) : Except (Err × σ) (List (Nat × V)) :=
  if dict_contains d k then .ok (d.filter (fun e => e.1 != k)) else .error (.KeyError, w)

/-- `d[a][b] = v`: `d[a]` (`KeyError` when absent) is the inner dictionary OBJECT, mutated in place — the entry
of `d` under `a` refers to it -/
def dict_setitem2 {σ V : Type} (w : σ) (d : List (Nat × List (Nat × V))) (a b : Nat) (v : V) :
    Except (Err × σ) (List (Nat × List (Nat × V))) :=
  if dict_contains d a then .ok (d.map (fun g => if g.1 == a then (g.1, dict_setitem g.2 b v) else g))
  else .error (.KeyError, w)

/-- `del d[a][b]`: `KeyError` when `a` is absent or `b` is absent from `d[a]`; in place, as `dict_setitem2` -/
def dict_delitem2 {σ V : Type} (w : σ) (d : List (Nat × List (Nat × V))) (a b : Nat) :
    Except (Err × σ) (List (Nat × List (Nat × V))) :=
  match lookup d a with
  | none => .error (.KeyError, w)
  | some g =>
    if dict_contains g b then .ok (d.map (fun g => if g.1 == a then (g.1, g.2.filter (fun e => e.1 != b)) else g))
    else .error (.KeyError, w)

/-- `d.values()` -/
def dict_values {V : Type} (d : List (Nat × V)) : List V := d.map (·.2)

/-- `d.items()` -/
def dict_items {V : Type} (d : List (Nat × V)) : List (Nat × V) := d

/-- `{k: v for k, v in d.items()}`: a shallow copy -/
def dict_copy {V : Type} (d : List (Nat × V)) : List (Nat × V) := d

/-- `MapAccessor(d)`: a read-only view with the same items -/
def MapAccessor {V : Type} (d : List (Nat × V)) : List (Nat × V) := d

/-! ### Iterables -/

/-- `unique(it)` of `inferno._internal` (by `id`): first occurrences, in order -/
def unique_ids (l : List Nat) : List Nat := l.eraseDups

/-- `unique(it)` over optional objects -/
def unique_opt_ids (l : List (Option Nat)) : List (Option Nat) := l.eraseDups

/-- `itertools.chain.from_iterable(it)` -/
def chain_from_iterable {α : Type} (l : List (List α)) : List α := l.flatten

/-- `any(it)` -/
def py_any (l : List Bool) : Bool := l.any id

/-- `x in s` for a set of object ids -/
def set_contains (s : List Nat) (x : Nat) : Bool := s.contains x

/-- a generator whose element expression may raise: elements in order, the first exception wins -/
def mapE {ε α β : Type} (f : α → Except ε β) : List α → Except ε (List β)
  | [] => .ok []
  | a :: l =>
    match f a with
    | .error e => .error e
    | .ok b =>
      match mapE f l with
      | .error e => .error e
      | .ok bs => .ok (b :: bs)

/-- truth value of a `Sequence[str] | None` argument -/
def optseq_truthy (p : Option (List Nat)) : Bool :=
  match p with
  | some l => !l.isEmpty
  | none => false

/-- iterating a `Sequence[str] | None` argument: `TypeError` on `None` -/
def optseq_iter {σ : Type} (w : σ) (p : Option (List Nat)) : Except (Err × σ) (List Nat) :=
  match p with
  | some l => .ok l
  | none => .error (.TypeError, w)

/-! ### Monitors (a `Monitor` is a `Hook`: `Model/Hooks.lean`, property C16) -/

/-- `monitor.deregister()` -/
def Monitor_deregister (self : LW) (m : Nat) : LW := { self with st := deregisterMon self.st m }

/-- `monitor.register()` without argument: registers on the weakly referenced layer unless registered (layers are
never collected, so the `RuntimeError` of a dead reference does not arise) -/
def Monitor_register (self : LW) (m : Nat) : LW := { self with st := registerMon self.st m }

/-- `monitor.clear(**kwargs)`: the reducer starts again (and with it the specification's count, GHOST `expected`) -/
def Monitor_clear (self : LW) (m : Nat) : LW :=
  { self with st := setMon self.st m { self.st.mons m with count := 0, expected := 0 } }

/-- `Module.train(self, mode)`: `training` of the trainer and of every submodule (the pool among them) -/
def Module_train (self : LW) (mode : Bool) : LW := { self with training := mode, poolTraining := mode }

/-! ### Observables -/

/-- `o.__basis()`: the layer the observable `o` belongs to (a weak reference; layers are never collected, so it
is never `None`) -/
def Observable___basis (self : OW) (o : Nat) : Option Nat := some (cellLayer self.st o)

/-- `self.__monitors` as a dictionary name ↦ monitor -/
def Observable___monitors (self : OW) : List (Nat × Nat) :=
  (self.st.cellMons.filter (fun e => e.1 == self.me)).map (·.2)

/-- `self.__monitors[name] = monitor` -/
def Observable___monitors_setitem (self : OW) (name m : Nat) : OW :=
  { self with st := writeCellMon self.st self.me name m }

/-- `self.realign_attribute(attr)`: `Cell.local_remap` + `Layer._realign_attribute` (the model's `realign`) -/
def Observable_realign_attribute (self : OW) (attr : AttrSel) : Except (Err × OW) Path :=
  match realign self.st self.me attr with
  | .ok p => .ok p
  | .error e => .error (e, self)

/-- `constructor(attr, basis)`: a new monitor object on the heap, with no `_tags` attribute, registered on the
layer `basis` at once.  GHOST fields: `owner` from the closure, `cell` = the observable it is built for.
A dead basis (`None`) has no counterpart in the model. -/
def MonitorConstructor_call (self : OW) (c : Ctor) (attr : Path) (basis : Option Nat) : Except (Err × OW) (OW × Nat) :=
  match basis with
  | none => .error (.Other, self)
  | some layer =>
    let mid := self.st.nMons
    let s1 := setMon { self.st with nMons := self.st.nMons + 1 } mid
      ⟨c.owner, true, none, c.prepend, attr, none, c.reads, self.me, 0, 0, layer⟩
    .ok ({ self with st := registerMon s1 mid }, mid)

/-- `tags | {"_attr": attr}` -/
def tags_with_attr (tags : Nat) (attr : Path) : Nat × Path := (tags, attr)

/-- `hasattr(m, "_tags") and m._tags == tags` -/
def Monitor_tags_eq (self : OW) (m : Nat) (tags : Nat × Path) : Bool :=
  decide ((self.st.mons m).tags = some tags.1 ∧ (self.st.mons m).path = tags.2)

/-- `m._tags = tags`.  The model keeps the `_attr` entry of `_tags` as the monitor's `path`; another `_attr` than
the path the monitor was constructed with has no counterpart in the model. -/
def Monitor_set_tags (self : OW) (m : Nat) (tags : Nat × Path) : Except (Err × OW) OW :=
  if (self.st.mons m).path = tags.2 then
    .ok { self with st := setMon self.st m { self.st.mons m with tags := some tags.1 } }
  else .error (.Other, self)

/-- the observable `o` as the `self` of one of its methods -/
def obsWorld (self : LW) (o : Nat) : OW := ⟨self.st, o⟩

/-- a method of an observable called from a method of the pool -/
def viaObs {α : Type} (self : LW) (x : Except (Err × OW) (OW × α)) : Except (Err × LW) (LW × α) :=
  match x with
  | .ok (o, a) => .ok ({ self with st := o.st }, a)
  | .error (e, o) => .error (e, { self with st := o.st })

/-! ### Cells and updaters -/

/-- `cell.updater` -/
def Cell_updater (self : LW) (cell : Nat) : Option Nat := self.env.updaterOf cell

/-- `hasattr(u, p)` for `u = cell.updater` -/
def Updater_hasattr (self : LW) (u : Option Nat) (p : Nat) : Bool :=
  match u with
  | some u => self.env.updaterHas u p
  | none => false

/-- `u(**kwargs)`: the updater that was called; `TypeError` on `None` -/
def Updater_call (self : LW) (u : Option Nat) : Except (Err × LW) Nat :=
  match u with
  | some u => .ok u
  | none => .error (.TypeError, self)

end InfernoVerif.Gen.LifecyclePrelude
