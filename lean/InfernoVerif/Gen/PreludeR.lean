import Mathlib.Algebra.Order.Floor.Ring
import Mathlib.Data.Real.Archimedean
/-! Helpers used by the GENERATED `ℝ` definitions (hand-written, static). -/
namespace InfernoVerif.Gen

/-- Python `round(x)` / `torch.round`: round half to even. -/
noncomputable def roundHalfEven (x : ℝ) : ℤ :=
  if x - (⌊x⌋ : ℝ) < 1 / 2 then ⌊x⌋ else if 1 / 2 < x - (⌊x⌋ : ℝ) then ⌊x⌋ + 1
  else if ⌊x⌋ % 2 = 0 then ⌊x⌋ else ⌊x⌋ + 1

end InfernoVerif.Gen
