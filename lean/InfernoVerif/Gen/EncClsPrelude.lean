import InfernoVerif.Gen.EncoderProg
/-!
Vocabulary of the statement-level translator `harness/progtx_enccls.py` (hand written, core Lean only).

`progtx_enccls.py` regenerates, on every run, the WHOLE BODIES of the methods of the encoder CLASSES of
`inferno/neural/encoders/{mixins,poisson,special}.py` (`StepTimeMixin`, `StepMixin`, `RefractoryStepMixin`,
`GeneratorMixin`, `HomogeneousPoissonEncoder`, `HomogeneousPoissonApproxEncoder`, `PoissonIntervalEncoder`:
constructors, property getters and setters, `forward`) as programs over the object `Obj` (`Gen/EncClsProg.lean`).

## The object

* `Obj.cls` is the RUNTIME class of the object: `self.<public name>` is dynamic dispatch, translated to the
  dispatcher `get_<name>` that the translator generates from the MRO (C3 linearisation of the class statements
  of the three source files; `Module` is assumed not to define `dt`, `steps`, `refrac`, `frequency`,
  `compensated`, `generator`, `duration`).  `Class.attr.fget(self)` / `.fset(self, v)` / `Class.__init__(self, …)`
  are static calls.
* The other fields are the PRIVATE attributes (`self.__x` inside `class C` is `_C__x`; the three encoder classes
  each have their own `_<C>__frequency_scale`, one field here since an object has one runtime class); `none` =
  the attribute has not been assigned yet (a read raises `AttributeError`, primitive `getattr`).  A freshly
  allocated object is `blank cls`.
* Exceptions keep Python's semantics: a program is `Except (Err × Obj) _` — an exception carries the object at
  the raise (a setter that raises may already have assigned something).  Getters and `forward` return a value
  (the translator refuses an assignment in them), constructors and setters return the new object.

## Values

Python `float`s are exact rationals, `int`s are `Int`, as in `Model/Encoder.lean` (`EncState`).  `argtest.gt /
gte / lt (name, value, limit, cast)` with `cast` = `float` on a float / `int` on an int is the comparison alone
(the cast is the identity on these; the `TypeError` of a non-numeric argument is outside the typed domain).
A `torch.Generator` is its identity (`GenId`); it is only stored and handed on (the functional encoders take the
draws as parameters: `Gen/EncoderPrelude.lean`).
-/
set_option linter.unusedVariables false
namespace InfernoVerif.Gen.EncClsPrelude
open InfernoVerif.Enc InfernoVerif.Gen

/-- runtime classes -/
inductive Cls
  | StepTimeMixin | StepMixin | RefractoryStepMixin | GeneratorMixin
  | HomogeneousPoissonEncoder | HomogeneousPoissonApproxEncoder | PoissonIntervalEncoder
deriving DecidableEq, Repr

/-- exception classes; `functional e` = the functional encoder called by `forward` failed with `e`;
`Precondition` = a value handed to a functional encoder lies outside the domain on which that function was
translated (`steps` negative) — not an exception of the real code, and excluded by the class invariant -/
inductive Err
  | ValueError | TypeError | AttributeError | Precondition
  | functional (e : EncoderPrelude.Err)
deriving DecidableEq, Repr

/-- identity of a `torch.Generator` -/
abbrev GenId := Nat

/-- the object: runtime class and private attributes (`none` = not assigned yet) -/
structure Obj where
  cls : Cls
  /-- `_StepTimeMixin__step_time`, ms -/
  step_time : Option Rat
  /-- `_StepMixin__num_steps` -/
  num_steps : Option Int
  /-- `_RefractoryStepMixin__derive_refrac` -/
  derive_refrac : Option Bool
  /-- `_RefractoryStepMixin__refrac_time`, ms -/
  refrac_time : Option Rat
  /-- `_GeneratorMixin__rng` (a generator or `None`) -/
  rng : Option (Option GenId)
  /-- `_<encoder class>__frequency_scale`, Hz -/
  frequency_scale : Option Rat
  /-- `_HomogeneousPoissonEncoder__compensate_freq` -/
  compensate_freq : Option Bool
deriving DecidableEq, Repr

/-- a freshly allocated object of class `c` (before `__init__`) -/
def blank (c : Cls) : Obj := ⟨c, none, none, none, none, none, none, none⟩

/-- programs: an exception carries the object at the raise -/
abbrev M (α : Type) := Except (Err × Obj) α

variable {α : Type}

/-- reading a private attribute: `AttributeError` when it has not been assigned -/
def getattr (self : Obj) : Option α → M α
  | some v => .ok v
  | none => .error (.AttributeError, self)

/-- `self.<name>` when no class of the MRO defines `<name>` -/
def noAttr (self : Obj) : M α := .error (.AttributeError, self)

/-- `argtest.gt(name, value, limit, float)` -/
def argtest_gt (self : Obj) (value limit : Rat) : M Rat :=
  if value > limit then .ok value else .error (.ValueError, self)
/-- `argtest.gt(name, value, limit, int)` -/
def argtest_gtI (self : Obj) (value limit : Int) : M Int :=
  if value > limit then .ok value else .error (.ValueError, self)
/-- `argtest.gte(name, value, limit, float)` -/
def argtest_gte (self : Obj) (value limit : Rat) : M Rat :=
  if value ≥ limit then .ok value else .error (.ValueError, self)
/-- `argtest.lt(name, value, limit, float)` -/
def argtest_lt (self : Obj) (value limit : Rat) : M Rat :=
  if value < limit then .ok value else .error (.ValueError, self)

/-- `bool(x)` of a bool -/
def pyBool (b : Bool) : Bool := b

/-- `Module.__init__(self)`: touches none of the attributes above -/
def Module_init (self : Obj) : Obj := self

/-- `c * x` for a Python float `c` and a finite tensor `x` shaped like the inputs (layout `T`) -/
def rmulS1Q (c : Rat) (x : List Rat) : List Rat := x.map (c * ·)

/-- a Python `int` handed to a functional encoder's `steps` (translated on non-negative ints) -/
def asNat (self : Obj) (v : Int) : M Nat :=
  if 0 ≤ v then .ok v.toNat else .error (.Precondition, self)

/-- the call of a functional encoder (`Gen/EncoderProg.lean`) from a method: its exception, if any, propagates -/
def liftF (self : Obj) : Except EncoderPrelude.Err α → M α
  | .ok a => .ok a
  | .error e => .error (.functional e, self)

end InfernoVerif.Gen.EncClsPrelude
