import InfernoVerif.Model.Conn
import InfernoVerif.Model.RingOps
/-!
Vocabulary of the statement-level translator `harness/progtx_conn.py` (hand written, core Lean only).

`progtx_conn.py` regenerates, on every run, the whole bodies of the connection classes' `forward`, `selector`,
`like_synaptic`, `like_input`, receptive reshapes and masked setters (`inferno/neural/connections/linear.py`,
`conv.py`), of the parameter mixins' getters / setters / constructors (`connections/mixins.py`) and of
`Connection.biased` / `delayedby` / `batchsz` / `synapse` / `syncurrent` / `synspike` (`inferno/neural/base.py`) as
`Except Err` programs (`Gen/ConnProg.lean`), one copy per RECEIVER class (Python's dynamic dispatch on `self` is
resolved along the base classes when the copy is generated).

What the programs act on
* one state record per receiver class (`DenseS`, `DirectS`, `LateralS`, `ConvS`): the instance attributes the
  translated bodies read and write.  Optional attributes (`bias_`, `delay_` exist only when the constructor was
  given a bias / delay) are `Option`s: `hasattr(self, "bias_")` is `self.bias_.isSome`.
* the connection's `Synapse` is USER code (an abstract class): the programs reach it only through the interface
  `SynI` (`synapse(*inputs)`, `.delay`, `.batchsz`, `.shape[-1]`, `.current`, `.spike`, `.current_at`, `.spike_at`),
  a record of functions over an arbitrary synapse state `σ` given to every program; `synapse(*inputs)` returns the
  stepped synapse, which is stored back into `synapse_` (the synapse object is mutated in place in Python).
* tensors are rectangular nested lists, row major: `Vec`, `Mat`, `T3`, `T4` (representation invariant: never
  ragged; the shape of an EMPTY tensor cannot be represented — every size is `≥ 1` by the constructors'
  `argtest.gt(…, 0)`).  The inputs / outputs of the linear connections, whose rank is arbitrary, are `Tensor`s:
  shape and row-major data.  dtypes are not represented: `.to(dtype=…)` is the identity on the element
  representation and `torch.is_floating_point(data)` is a Boolean handed to the program.
* element arithmetic is the type class arithmetic of `Model/Conn.lean` (`+ * 0`, and `1 -` for the lateral mask);
  Python truthiness of a float (`if self.delayedby:`) is the function `nz` handed to every program.

Every torch / einops primitive the bodies use is a function of this file named after it; each is TOTAL, defined to
coincide with the index-level definitions of `Model/Conn.lean` wherever those exist (`denseFwd`, `dot`, `col`,
`transpose`, `hadamard`, `unfold`, `flattenKernel`, `matmul`, `unflat`, `addBias`, `fold`), and fails with the exception
class the real primitive raises on a shape mismatch (`RuntimeError`; `einops.EinopsError` is a `RuntimeError`;
`tensor + None` is a `TypeError`) instead of defaulting.
-/
set_option linter.unusedVariables false
namespace InfernoVerif.Gen.ConnPrelude
open InfernoVerif.Conn

abbrev Err := InfernoVerif.Ring.Err

abbrev Vec (α : Type) := List α
abbrev Mat (α : Type) := List (List α)
abbrev T3 (α : Type) := List (List (List α))
abbrev T4 (α : Type) := List (List (List (List α)))
/-- a tensor of arbitrary rank: shape and row-major data -/
abbrev Tensor (α : Type) := List Nat × List α

/-- What a connection uses of its synapse (`inferno.neural.Synapse`, user code).  `inp` = a tensor handed to
`synapse(*inputs)`; `cur β` = a tensor shaped like the batched synapse (`B × …`); `sel β` = a tensor shaped like a
selector (`B × … × R`). -/
structure SynI (σ α inp : Type) (cur sel : Type → Type) where
  /-- `synapse(*inputs, **kwargs)`: the stepped synapse and the returned currents -/
  forward    : σ → List inp → Except Err (σ × cur α)
  /-- `synapse.delay` -/
  delay      : σ → α
  /-- `synapse.batchsz` -/
  batchsz    : σ → Nat
  /-- `synapse.shape[-1]` -/
  lastdim    : σ → Nat
  /-- `synapse.current` -/
  current    : σ → Except Err (cur α)
  /-- `synapse.spike` -/
  spike      : σ → Except Err (cur Bool)
  /-- `synapse.current_at(selector)` -/
  current_at : σ → sel α → Except Err (sel α)
  /-- `synapse.spike_at(selector)` -/
  spike_at   : σ → sel α → Except Err (sel Bool)

/-- what `Connection.syncurrent` / `synspike` return: shaped like the selector on the delayed branch, like the
synapse on the other -/
inductive SView (ξ ζ : Type) where
  | delayed (v : ζ)
  | present (v : ξ)
deriving Repr

/-! ## states -/

structure DenseS (σ α : Type) where
  synapse_  : σ
  weight_   : Mat α                 -- `weight_.data`, `N × M`
  bias_     : Option (Vec α)        -- `none`: no attribute `bias_`
  delay_    : Option (Mat α)        -- `none`: no attribute `delay_`
  in_shape  : List Nat
  out_shape : List Nat

structure DirectS (σ α : Type) where
  synapse_ : σ
  weight_  : Vec α
  bias_    : Option (Vec α)
  delay_   : Option (Vec α)
  shape    : List Nat

structure LateralS (σ α : Type) where
  synapse_ : σ
  weight_  : Mat α
  bias_    : Option (Vec α)
  delay_   : Option (Mat α)
  shape    : List Nat
  mask     : Mat α                  -- the buffer `mask`

structure ConvS (σ α : Type) where
  synapse_  : σ
  weight_   : T4 α                  -- `F × C × KH × KW`
  bias_     : Option (Vec α)
  delay_    : Option (T4 α)
  height    : Nat
  width     : Nat
  channels  : Nat
  filters   : Nat
  kernel    : Nat × Nat
  stride    : Nat × Nat
  padding   : Nat × Nat
  dilation  : Nat × Nat
  outheight : Nat
  outwidth  : Nat

variable {α β ξ ζ : Type}

/-! ## Python-level helpers -/

/-- truthiness of `float | None` -/
def truthy (nz : α → Bool) : Option α → Bool
  | none => false
  | some d => nz d

/-- an operand of `+` that may be `None`: `tensor + None` is a `TypeError` -/
def notNone : Option β → Except Err β
  | some v => .ok v
  | none => .error .TypeError

/-- a tensor argument of an einops function that may be `None`: "Tensor type unknown to einops" (`RuntimeError`) -/
def tensorArg : Option β → Except Err β
  | some v => .ok v
  | none => .error .RuntimeError

/-- the delayed view, or the rank error of the einops pattern applied to the present view -/
def SView.asSel : SView ξ ζ → Except Err ζ
  | .delayed v => .ok v
  | .present _ => .error .RuntimeError

/-- number of columns of a (rectangular) matrix -/
def cols (m : List (List β)) : Nat := match m with | [] => 0 | r :: _ => r.length

/-! ## linear connections -/

/-- `F.linear(x, W, b)`, `x : B × M`, `W : N × M`, `b : N`; `mat1 and mat2 shapes cannot be multiplied` /
bias not expandable: `RuntimeError` -/
def F_linear [Add α] [Mul α] [Zero α] (x W : Mat α) (b : Option (Vec α)) : Except Err (Mat α) :=
  if W.all (fun w => x.all (fun r => r.length == w.length)) &&
      (match b with | none => true | some b => b.length == W.length) then .ok (denseFwd W b x)
  else .error .RuntimeError

/-- `ein.einsum(r, W, "b i o, o i -> b o")`, `r : B × M × N`, `W : N × M`:
`out[b][o] = Σ_i r[b][i][o] · W[o][i]` -/
def einsum_bio_oi_bo [Add α] [Mul α] [Zero α] (r : T3 α) (W : Mat α) : Except Err (Mat α) :=
  if r.all (fun s => W.all (fun w => s.length == w.length) && s.all (fun row => row.length == W.length)) then
    .ok (r.map fun s => W.mapIdx fun o w => dot (col s o) w)
  else .error .RuntimeError

/-- `m + v` / `m * v` with `m : B × N`, `v : N` (broadcast over the batch) -/
def add_mat_vec [Add α] (m : Mat α) (v : Vec α) : Except Err (Mat α) :=
  if m.all (fun r => r.length == v.length) then .ok (m.map fun r => List.zipWith (· + ·) r v)
  else .error .RuntimeError

def mul_mat_vec [Mul α] (m : Mat α) (v : Vec α) : Except Err (Mat α) :=
  if m.all (fun r => r.length == v.length) then .ok (m.map fun r => List.zipWith (· * ·) r v)
  else .error .RuntimeError

/-- broadcast of one tensor dimension -/
def bdim (x y : Nat) : Option Nat :=
  if x = y then some x else if x = 1 then some y else if y = 1 then some x else none

/-- `expand` of a dimension of size 1 -/
def stretch (n : Nat) (l : List β) : List β :=
  match l with
  | [x] => List.replicate n x
  | _ => l

/-- `a * b` for two matrices with torch broadcasting (`value * self.mask`) -/
def mul_mat [Mul α] (a b : Mat α) : Except Err (Mat α) :=
  match bdim a.length b.length, bdim (cols a) (cols b) with
  | some r, some c => .ok (hadamard ((stretch r a).map (stretch c)) ((stretch r b).map (stretch c)))
  | _, _ => .error .RuntimeError

/-- `m.view(-1, *shape)` of a contiguous `B × N` tensor -/
def view_batched (m : Mat α) (shape : List Nat) : Except Err (Tensor α) :=
  let d := m.flatten
  if prod shape ≠ 0 ∧ d.length % prod shape = 0 then .ok ((d.length / prod shape) :: shape, d)
  else .error .RuntimeError

/-- `ein.rearrange(t, "b ... -> b (...)")` (fails on a 0-dimensional tensor) -/
def rearrange_b_flat (t : Tensor α) : Except Err (Tensor α) :=
  match t.1 with
  | [] => .error .RuntimeError
  | b :: rest => .ok ([b, prod rest], t.2)

/-- `ein.rearrange(D, "o i -> 1 i o")` -/
def rearrange_oi_1io [Zero α] (D : Mat α) : T3 α := [transpose D.length (cols D) D]

/-- `ein.rearrange(d, "n -> 1 n 1")` -/
def rearrange_n_1n1 (d : Vec α) : T3 α := [d.map fun v => [v]]

/-- `ein.rearrange(t, "b n 1 -> b n")` -/
def rearrange_bn1_bn (t : T3 α) : Except Err (Mat α) :=
  if t.all (fun s => s.all (fun row => row.length == 1)) then .ok (t.map List.flatten)
  else .error .RuntimeError

/-- `t.expand(b, -1, -1)`: only a leading dimension of size 1 (or `b`) can be expanded to `b` -/
def expand3 (t : List β) (b : Nat) : Except Err (List β) :=
  match t with
  | [x] => .ok (List.replicate b x)
  | _ => if t.length == b then .ok t else .error .RuntimeError

def zeros_like_vec [Zero α] (v : Vec α) : Vec α := v.map fun _ => 0
def zeros_like_mat [Zero α] (m : Mat α) : Mat α := m.map zeros_like_vec
def zeros_like_t4 [Zero α] (k : T4 α) : T4 α := k.map (·.map zeros_like_mat)
def ones_like_t3 [One α] (x : T3 α) : T3 α := x.map (·.map (·.map fun _ => 1))

/-- `torch.eye(n)` -/
def torch_eye [Zero α] [One α] (n : Nat) : Mat α :=
  (List.range n).map fun i => (List.range n).map fun j => if i = j then 1 else 0

/-- `torch.zeros(n, m)` -/
def torch_zeros2 [Zero α] (n m : Nat) : Mat α := List.replicate n (List.replicate m 0)

/-- `c - m` for a Python scalar `c` -/
def rsub_scalar_mat [Sub α] (c : α) (m : Mat α) : Mat α := m.map (·.map (c - ·))

/-! ## Conv2D -/

/-- shape `(B, C, H, W)` of a 4-D tensor (sizes of the leading entries) -/
def shape4 (x : T4 β) : Nat × Nat × Nat × Nat :=
  (x.length, cols x, cols (x.headD []), cols ((x.headD []).headD []))

/-- the geometry `F.unfold` / `F.fold` see: input extent and the window parameters (no filter count) -/
def geomOf (C H W : Nat) (kernel dilation padding stride : Nat × Nat) : Geom :=
  ⟨H, W, C, 0, kernel.1, kernel.2, stride.1, stride.2, padding.1, padding.2, dilation.1, dilation.2⟩

/-- `F.unfold(x, kernel, dilation=…, padding=…, stride=…)`, `x : B × C × H × W` → `B × (C·KH·KW) × L`;
"calculated shape of the array of sliding blocks is non-positive": `RuntimeError` -/
def F_unfold [Zero α] (x : T4 α) (kernel dilation padding stride : Nat × Nat) : Except Err (T3 α) :=
  let s := shape4 x
  let g := geomOf s.2.1 s.2.2.1 s.2.2.2 kernel dilation padding stride
  if 0 < stride.1 ∧ 0 < stride.2 ∧ 0 < outSizeCode g.H g.ph g.dh g.KH g.sh ∧ 0 < outSizeCode g.W g.pw g.dw g.KW g.sw then
    .ok (x.map (unfold g))
  else .error .RuntimeError

/-- `F.fold(data, (H, W), kernel, dilation=…, padding=…, stride=…)`, `data : B × (C·KH·KW) × L` → `B × C × H × W`;
the row count must be a multiple of `KH·KW` and `L` the number of windows: `RuntimeError` otherwise -/
def F_fold [Add α] [Zero α] (data : T3 α) (size kernel dilation padding stride : Nat × Nat) : Except Err (T4 α) :=
  let n := cols data
  let g := geomOf (n / (kernel.1 * kernel.2)) size.1 size.2 kernel dilation padding stride
  if kernel.1 * kernel.2 ≠ 0 ∧ n % (kernel.1 * kernel.2) = 0 ∧ 0 < stride.1 ∧ 0 < stride.2 ∧
      data.all (fun d => d.all (fun row => row.length == g.L)) then
    .ok (data.map (fold g))
  else .error .RuntimeError

/-- `ein.rearrange(K, "f c h w -> f (c h w)")` -/
def rearrange_fchw_f_chw (K : T4 α) : Mat α := flattenKernel K

/-- `torch.matmul(A, X)`, `A : F × N`, `X : B × N × L` (broadcast over the batch) -/
def torch_matmul_m_t3 [Add α] [Mul α] [Zero α] (A : Mat α) (X : T3 α) : Except Err (T3 α) :=
  if X.all (fun x => A.all (fun a => a.length == x.length)) then .ok (X.map fun x => matmul (cols x) A x)
  else .error .RuntimeError

/-- `ein.rearrange(y, "b f (oh ow) -> b f oh ow", oh=…, ow=…)` -/
def rearrange_bf_ohow (y : T3 α) (oh ow : Nat) : Except Err (T4 α) :=
  if y.all (fun s => s.all (fun row => row.length == oh * ow)) then .ok (y.map (·.map (unflat oh ow)))
  else .error .RuntimeError

/-- `res + ein.rearrange(bias, "f -> 1 f 1 1")`, `res : B × F × OH × OW` -/
def add_t4_f [Add α] (res : T4 α) (b : Vec α) : Except Err (T4 α) :=
  if res.all (fun y => y.length == b.length) then .ok (res.map fun y => addBias y (some b))
  else .error .RuntimeError

/-- `ein.rearrange(D, "f c h w -> 1 (c h w) 1 f")`: entry `[0][n][0][f]` is `D[f][n]` (flattened kernel index `n`) -/
def rearrange_fchw_1_chw_1_f [Zero α] (D : T4 α) : T4 α :=
  let Dk := flattenKernel D
  [(List.range (cols Dk)).map fun n => [(List.range Dk.length).map fun f => mget Dk f n]]

/-- `t.expand(b, -1, l, -1)` of a `1 × N × 1 × F` tensor -/
def expand4 (t : T4 α) (b l : Nat) : Except Err (T4 α) :=
  if t.all (fun s => s.all (fun m => m.length == 1 || m.length == l)) then
    expand3 (t.map (·.map (stretch l))) b
  else .error .RuntimeError

/-- `ein.rearrange(r, "b n l f -> b f n l")` -/
def rearrange_bnlf_bfnl [Zero α] (r : T4 α) : T4 α :=
  r.map fun s =>
    let F := cols (s.headD [])
    (List.range F).map fun f => s.map fun m => m.map fun row => vget row f

/-- `ein.einsum(A, r, "f n, b f n l -> b f l")`: `out[b][f][l] = Σ_n A[f][n] · r[b][f][n][l]` -/
def einsum_fn_bfnl_bfl [Add α] [Mul α] [Zero α] (A : Mat α) (r : T4 α) : Except Err (T3 α) :=
  if r.all (fun s => s.length == A.length &&
      (List.zipWith (fun a m => m.length == a.length) A s).all id) then
    .ok (r.map fun s => List.zipWith (fun a m => (List.range (cols m)).map fun l => dot a (col m l)) A s)
  else .error .RuntimeError

/-- element-wise `a / b` of two `B × C × H × W` tensors of the same shape -/
def div_t4 [Div α] (a b : T4 α) : Except Err (T4 α) :=
  .ok (List.zipWith (List.zipWith (List.zipWith (List.zipWith (· / ·)))) a b)

/-- `ein.rearrange(data, "b f oh ow -> b f 1 1 1 (oh ow)")` on shape and row-major data -/
def rearrange_postsyn_conv (t : Tensor α) : Except Err (Tensor α) :=
  match t.1 with
  | [b, f, oh, ow] => .ok ([b, f, 1, 1, 1, oh * ow], t.2)
  | _ => .error .RuntimeError

/-- `ein.rearrange(data, "b (c kh kw) l ... -> b (...) c kh kw l", c=…, kh=…, kw=…)` on shape and row-major data:
`out[b, r, n, l] = in[b, n, l, r]` -/
def rearrange_presyn_conv [Zero α] (t : Tensor α) (c kh kw : Nat) : Except Err (Tensor α) :=
  match t.1 with
  | b :: n :: l :: rest =>
    if n = c * kh * kw then
      let R := prod rest
      .ok ([b, R, c, kh, kw, l], (List.range (b * R * n * l)).map fun k =>
        vget t.2 ((((k / (l * n * R)) * n + (k / l) % n) * l + k % l) * R + (k / (l * n)) % R))
    else .error .RuntimeError
  | _ => .error .RuntimeError

end InfernoVerif.Gen.ConnPrelude
