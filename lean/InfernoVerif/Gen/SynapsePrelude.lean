import InfernoVerif.Model.Synapse
import InfernoVerif.Model.RingOps
/-!
Vocabulary of the statement-level translator `harness/progtx_synapse.py` (hand written, core Lean only).

`progtx_synapse.py` regenerates, on every run, the whole bodies of
* `inferno/neural/synapses/mixins.py`: the module-level `_synparam_at`; `CurrentMixin.current` (getter, setter),
  `CurrentMixin.current_at`; `SpikeMixin.spike` (getter, setter), `SpikeMixin.spike_at`;
  `SpikeDerivedCurrentMixin._derived_current`, `.current` (getter), `.current_at`;
* `inferno/neural/synapses/current.py`: the closure `spike_to_current` of `DeltaCurrent.__init__`,
  `DeltaCurrent.clear` / `forward`, `DeltaPlusCurrent.clear` / `forward`;
* `inferno/neural/synapses/expcurrent.py`: `SingleExponentialCurrent.clear` / `forward`,
  `DoubleExponentialCurrent.clear` / `current` / `pos_current` / `neg_current` (getters, setters) / `current_at` /
  `forward`
as `Except Err` programs (`Gen/SynapseProg.lean`) over the state `SynT` below.

* As in `Model/Synapse.lean` everything is seen from ONE element of the batched synapse tensor (every operation
  of these bodies is element-wise): a tensor is a `Ten α` — the element's value plus the two pieces of
  tensor-level information the bodies test or convert by, its number of dimensions and its dtype class
  (`torch.bool` / floating); both are carried along but never influence a value except where torch itself
  converts (`.bool()`, `.to(dtype=…)`, the store of a `push`).  A `bool` tensor is represented, as in the model,
  by `0` / `1` of the scalar type.
* Python floats (`dt`, `spike_charge`, time constants, tolerances) are values of the abstract scalar type `α` with
  the arithmetic `SOps α` of the model (`S.K.add`, …, `S.exp`), so the same programs are statements about `Float`
  and about `ℝ`.  A float literal must be integral (`0.0` is `S.K.ofInt 0`).
* A `RecordTensor` attribute is a `Rec α`: the ring of this element with the record's own `dt`, `duration`, dtype
  class and observation `ndim`.  Its methods are NOT re-translated here (that is `Gen/RingProg.lean` /
  `Gen/SelectProg.lean`, properties C01 / C02): each is ONE primitive written with the model's own ring / select
  functions (`Ring.push`, `Ring.read`, `Ring.resetFill`, `Ring.align`, `Select.selectTensor`), failing with the
  exception class the real method raises (`ValueError`: selector dimensions / range test; `IndexError`: a slot
  outside the storage; `TypeError`: an interpolation function called with keyword arguments it does not take).
  Storage is always initialised (the constructors create every record from a tensor).
* A `VirtualTensor` attribute is a `VTen` (its reference dtype); `.value` calls the materializer with that dtype
  and converts the result to it.
* Interpolation functions are values of `KwInterp α`: the function as Python calls it, `interp(prev, next, sample_at,
  step_time, **interp_kwargs)`, i.e. keyword arguments first, then the four-argument kernel of the model.
-/
set_option linter.unusedVariables false
namespace InfernoVerif.Gen.SynapsePrelude
open InfernoVerif.Ring InfernoVerif.Select InfernoVerif.Synapse

/-- dtype class of a tensor as far as these bodies distinguish it -/
inductive DT where
  | bool
  | float
deriving DecidableEq, Repr

/-- torch's type promotion on the two classes -/
def DT.promote : DT → DT → DT
  | .bool, .bool => .bool
  | _, _ => .float

/-- `x.shape`, of which only the length is ever used (`expand(*selector.shape)`) -/
structure TShape where
  ndim : Int
deriving DecidableEq, Repr

/-- one element of a tensor, with the tensor's `ndim` and dtype class -/
structure Ten (α : Type) where
  ndim  : Int
  dtype : DT
  val   : α
deriving Repr

/-- one element of a boolean mask (`… <= tolerance`) -/
structure Mask where
  ndim : Int
  val  : Bool
deriving Repr

/-- a Python scalar handed to torch: `False`, `0.0`, an overbound value -/
inductive PyVal (α : Type) where
  | b (v : Bool)
  | f (v : α)
deriving Repr

/-- `interp_kwargs`: a dictionary of float-valued keyword arguments, in insertion order -/
abbrev Kwargs (α : Type) := List (String × α)

/-- an interpolation function as Python calls it: `interp(prev, next, sample_at, step_time, **kwargs)` -/
abbrev KwInterp (α : Type) := Kwargs α → Except Err (Interp α)

/-- a `RecordTensor` seen from one element -/
structure Rec (α : Type) where
  ring     : Ring α
  dt       : α          -- `RecordTensor.dt`
  duration : α          -- `RecordTensor.duration`
  dtype    : DT         -- dtype class of the storage
  ndim     : Int        -- number of dimensions of ONE observation (the batched shape)

/-- `rt.value` (the whole storage), of which only `.dtype` / `.device` are ever read -/
structure StoreView where
  dtype : DT
deriving Repr

/-- a `VirtualTensor`: the dtype of its reference tensor -/
structure VTen where
  dtype : DT
deriving Repr

/-- the attributes of a synapse object that the translated bodies read and write (the union over the four
classes; an attribute a class does not have is never touched by its methods).  Private attributes are listed
under their mangled names. -/
structure SynT (α : Type) where
  -- `InfernoSynapse` / `DelayedMixin`: plain reads of what the constructor stored
  dt      : α
  delay   : α
  inplace : Bool
  -- attributes of the four classes
  spike_charge  : α
  time_constant : α           -- `SingleExponentialCurrent`
  tc_decay      : α           -- `DoubleExponentialCurrent`
  tc_rise       : α
  -- records and virtual tensors
  spike_       : Rec α        -- `SpikeMixin`
  current_     : Rec α        -- `CurrentMixin` (a `RecordTensor`)
  vcurrent_    : VTen         -- `SpikeDerivedCurrentMixin` (`current_` is a `VirtualTensor` there)
  pos_current_ : Rec α        -- `DoubleExponentialCurrent`
  neg_current_ : Rec α
  -- `_SpikeMixin__…`
  SpikeMixin__interp        : KwInterp α
  SpikeMixin__interp_kwargs : Kwargs α
  SpikeMixin__overbound     : Option Bool
  SpikeMixin__tolerance     : α
  -- `_CurrentMixin__…`
  CurrentMixin__interp        : KwInterp α
  CurrentMixin__interp_kwargs : Kwargs α
  CurrentMixin__overbound     : Option α
  CurrentMixin__tolerance     : α
  -- `_SpikeDerivedCurrentMixin__…` (its `__to_current` is a parameter of the generated definitions)
  SpikeDerivedCurrentMixin__interp            : KwInterp α
  SpikeDerivedCurrentMixin__interp_kwargs     : Kwargs α
  SpikeDerivedCurrentMixin__current_overbound : Option α
  SpikeDerivedCurrentMixin__tolerance         : α
  -- `_DoubleExponentialCurrent__…`
  DoubleExponentialCurrent__current_overbound : Option α
  DoubleExponentialCurrent__tolerance         : α

/-- a callable stored by `SpikeDerivedCurrentMixin.__init__` as `__to_current`:
`to_currents(synapse, dtype, device, spikes)` (`device` dropped: CPU only) -/
abbrev ToCurrent (α : Type) := SynT α → DT → Ten α → Except Err (SynT α × Ten α)

variable {α : Type}

/-! ### Python scalars -/

/-- the value a Python scalar takes inside a tensor (`True` ↦ 1, `False` ↦ 0) -/
def PyVal.enc (K : Ops α) : PyVal α → α
  | .b v => ofBool K v
  | .f v => v

def PyVal.dtype : PyVal α → DT
  | .b _ => .bool
  | .f _ => .float

/-- the value a Python scalar takes when written into storage of dtype class `d` (`fill_`) -/
def PyVal.store (K : Ops α) (d : DT) : PyVal α → α
  | .b v => ofBool K v
  | .f v => match d with
    | .bool => toSpike K v
    | .float => v

/-! ### tensors -/

/-- a Python int meeting a tensor (`bounded_selector = 0`, the start value of `sum`): a 0-dim operand that does
not raise the dtype class of the other one -/
def Ten.ofInt (K : Ops α) (i : Int) : Ten α := ⟨0, .bool, K.ofInt i⟩

def Ten.shape (x : Ten α) : TShape := ⟨x.ndim⟩

/-- `x.bool()`: the identity on a `bool` tensor, nonzero ↦ `True` otherwise -/
def Ten.bool (x : Ten α) (K : Ops α) : Ten α :=
  match x.dtype with
  | .bool => x
  | .float => ⟨x.ndim, .bool, toSpike K x.val⟩

/-- `x.to(dtype=d)` (`bool` → floating keeps `0` / `1`) -/
def Ten.to (x : Ten α) (K : Ops α) (d : DT) : Ten α :=
  match d with
  | .bool => x.bool K
  | .float => ⟨x.ndim, .float, x.val⟩

/-- `x * a` for a Python float `a` -/
def Ten.mulF (x : Ten α) (K : Ops α) (a : α) : Ten α := ⟨x.ndim, .float, K.mul x.val a⟩

/-- `a * x` for a Python float `a` -/
def Ten.fmul (K : Ops α) (a : α) (x : Ten α) : Ten α := ⟨x.ndim, .float, K.mul a x.val⟩

def Ten.add (x : Ten α) (K : Ops α) (y : Ten α) : Ten α := ⟨max x.ndim y.ndim, x.dtype.promote y.dtype, K.add x.val y.val⟩

def Ten.sub (x : Ten α) (K : Ops α) (y : Ten α) : Ten α := ⟨max x.ndim y.ndim, x.dtype.promote y.dtype, K.sub x.val y.val⟩

/-- `x.abs()` -/
def Ten.abs (x : Ten α) (K : Ops α) : Ten α := { x with val := K.abs x.val }

/-- `x <= a` for a Python float `a` -/
def Ten.le (x : Ten α) (K : Ops α) (a : α) : Mask := ⟨x.ndim, K.le x.val a⟩

/-- `x.clamp(min=lo, max=hi)` -/
def Ten.clamp (x : Ten α) (K : Ops α) (lo hi : α) : Ten α := { x with val := Synapse.clamp K x.val lo hi }

/-- `x.unsqueeze(d)` -/
def Ten.unsqueeze (x : Ten α) (d : Int) : Ten α := { x with ndim := x.ndim + 1 }

/-- `x.expand(*shape)`: the same element under every index of the new dimensions -/
def Ten.expand (x : Ten α) (shape : TShape) : Ten α := { x with ndim := shape.ndim }

/-- `torch.where(mask, x, o)` for a Python scalar `o` -/
def torch_where (K : Ops α) (m : Mask) (x : Ten α) (o : PyVal α) : Ten α :=
  ⟨max m.ndim x.ndim, x.dtype.promote o.dtype, if m.val then x.val else o.enc K⟩

/-- Python's `sum(iterable)`: `0 + x₀ + x₁ + …`, left to right -/
def pySum (K : Ops α) (l : List (Ten α)) : Ten α := l.foldl (fun acc x => acc.add K x) (Ten.ofInt K 0)

/-- `xs[i]` on a tuple (`IndexError` outside it) -/
def pyGetItem {β : Type} (xs : List β) (i : Int) : Except Err β :=
  let k : Int := if i < 0 then (xs.length : Int) + i else i
  if k < 0 then .error .IndexError
  else match xs[k.toNat]? with
    | some x => .ok x
    | none => .error .IndexError

/-! ### interpolation functions under Python's calling convention -/

/-- `interp_previous` / `interp_nearest`: no keyword arguments -/
def kwPlain (k : Interp α) : KwInterp α
  | [] => .ok k
  | _ => .error .TypeError

/-- the interpolation function a class selects by `interp_mode` / `spike_interp_mode` -/
def kwMode (S : SOps α) (m : Mode) : KwInterp α := kwPlain (modeInterp S m)

/-- `interp_expdecay`: exactly the keyword argument `time_constant` -/
def kwExpdecay (S : SOps α) : KwInterp α
  | [(k, tc)] => if k = "time_constant" then .ok (expInterp S tc) else .error .TypeError
  | _ => .error .TypeError

/-! ### the `RecordTensor` primitives -/

/-- `rt.recordsz` -/
def RecordTensor_recordsz (r : Rec α) : Int := (r.ring.n : Int)

/-- `rt.duration` -/
def RecordTensor_duration (r : Rec α) : α := r.duration

/-- `rt.value` -/
def RecordTensor_value (r : Rec α) : StoreView := ⟨r.dtype⟩

/-- `rt.peek()`: `read(1)` -/
def RecordTensor_peek (r : Rec α) : Except Err (Ten α) :=
  match r.ring.read 1 with
  | some v => .ok ⟨r.ndim, r.dtype, v⟩
  | none => .error .IndexError

/-- `rt.push(obs, inplace)`: `write(obs.to(dtype=data.dtype), 0, inplace)`, `incr(1)` -/
def RecordTensor_push (K : Ops α) (r : Rec α) (obs : Ten α) (inplace : Bool) : Except Err (Rec α) :=
  .ok { r with ring := r.ring.push (match r.dtype, obs.dtype with
                                     | .bool, .float => toSpike K obs.val
                                     | _, _ => obs.val) inplace }

/-- `rt.reset(fill)`: `data.fill_(fill)`, pointer 0; `fill=None` is `align(0)` -/
def RecordTensor_reset (K : Ops α) (r : Rec α) (fill : Option (PyVal α)) : Except Err (Rec α) :=
  match fill with
  | some f => .ok { r with ring := r.ring.resetFill (f.store K r.dtype) }
  | none => .ok { r with ring := r.ring.align 0 }

/-- `rt.select(time, interp, tolerance=…, offset=…, interp_kwargs=…)` with a tensor `time`: the dimension test
(`time.ndim` is an observation's or one more: ValueError), the range test (ValueError), then the model's
`selectTensor` with the kernel `interp(·, ·, ·, ·, **interp_kwargs)`; the result has `time`'s dimensions -/
def RecordTensor_select (K : Ops α) (r : Rec α) (time : Ten α) (interp : KwInterp α) (tolerance : α) (offset : Int)
    (interp_kwargs : Kwargs α) : Except Err (Ten α) :=
  if time.ndim = r.ndim ∨ time.ndim = r.ndim + 1 then
    if inRange K r.ring.n r.dt tolerance time.val then
      match interp interp_kwargs with
      | .error e => .error e
      | .ok k =>
        match selectTensor K k r.ring r.dt tolerance time.val offset with
        | .ok v => .ok ⟨time.ndim, r.dtype, v⟩
        | .valueError => .error .ValueError
        | .noSlot => .error .IndexError
    else .error .ValueError
  else .error .ValueError

/-! ### `VirtualTensor` -/

/-- `vt.value`: `materializer(ref.dtype, ref.device).to(dtype=ref.dtype, device=ref.device)` -/
def VirtualTensor_value (K : Ops α) (v : VTen) (materializer : DT → Except Err (Ten α)) : Except Err (Ten α) :=
  match materializer v.dtype with
  | .ok t => .ok (t.to K v.dtype)
  | .error e => .error e

end InfernoVerif.Gen.SynapsePrelude
