import InfernoVerif.Model.Layer
/-!
Vocabulary of the statement-level translator `harness/progtx_layer.py` (hand written, core Lean only).

`progtx_layer.py` regenerates, on every run, whole bodies of `inferno/neural/network.py` as `Except Err` programs
(`Gen/LayerProg.lean`): `Layer.clear`, `Layer.get_neuron`, `Layer.forward`; `Serial.wiring`, `Serial.forward`; the
`match combine` statement of `Biclique.__init__` with its nested closure `combinefn`, `Biclique.wiring`;
`RecurrentSerial.wiring`, `RecurrentSerial.forward`, `RecurrentSerial.clear`.

What the programs act on (components are ABSTRACT exactly as in `Model/Layer.lean`: an `Obj` is any state type with a
total step function, a read-out, a `clear`; tensors are an abstract type `τ`):
* class `Layer` — the model's `LayerSt τ`: `connections_` ↦ `conns`, `neurons_` ↦ `neurs` (`nn.ModuleDict`s as
  insertion-ordered association lists; `cells_` is not touched by the translated methods);
* class `Serial` — `SerialS`: the layer part and `__connection_name` ↦ `cn`, `__neuron_name` ↦ `nn`, `_transform` ↦ `trans`;
* class `Biclique` — `BicliqueS`: the layer part, `post_input`, `pre_output` (dictionaries of callables) and `_combine`
  (the Python value stored there: a callable — or, if the constructor stored one, a string, which fails when called);
* class `RecurrentSerial` — `RecS`: the layer part, the buffer `feedback_spikes` (`none` = `None`), the five private
  names (`__feedfwd_connection_name` ↦ `ffc`, `__lateral_…` ↦ `latc`, `__feedback_…` ↦ `fbc`, `__feedfwd_neuron_name` ↦
  `ffn`, `__feedback_neuron_name` ↦ `fbn`) and the five transforms (`_feedfwd_out_transform` ↦ `ffOut`, `_lateral_out_…` ↦
  `latOut`, `_feedback_out_…` ↦ `fbOut`, `_lateral_in_transform` ↦ `latIn`, `_feedback_in_transform` ↦ `fbIn`).

Every Python / torch / einops primitive the bodies use is a function of this file named after it; each is TOTAL and
fails with the exception class the real primitive raises — never defaulting.  What is NOT a program but an abstract
total function, as in the model: a component's `__call__` / `clear` / `spike` (`Obj.fwd` / `Obj.clr` / `Obj.out`), the user
transforms (`τ → τ`, `τ → List τ`), tensor `+`, `torch.zeros_like` and the einops reduction of a list of tensors
(`TOps`); a user `combine` callable may raise (`Dict τ → Except Err τ`).

Keyword arguments.  `connection_kwargs`, `neuron_kwargs` and the user's own pass-through `**kwargs` only travel to
component calls / user callables and are dropped.  The keywords `Layer.forward` itself hands on to `self.wiring(res,
**kwargs)` are kept as `Kwargs` (named booleans — `forward_pass` of `RecurrentSerial`) and bound to the parameters of the
class's `wiring` by the generated `<Class>_wiring_kw` with Python's rule (`TypeError` for a missing or an unexpected
keyword; with a `**kwargs` parameter the rest would only reach user callables and is dropped).

Universes.  A `LayerSt` lives in `Type 1` (a component carries its state type), tensors and dictionaries of tensors in
`Type`.  `Except Err` binds within one universe, so inside a method that threads the layer a raising primitive with a
small result is run as `withSelf self prim` (the unchanged state paired with the value).
-/
set_option linter.unusedVariables false
namespace InfernoVerif.Gen.LayerPrelude
open InfernoVerif.Layer

universe u v w

inductive Err | RuntimeError | ValueError | TypeError | AttributeError | IndexError | KeyError | Other
deriving DecidableEq, Repr

/-- the tensor-level operations a layer itself performs -/
structure TOps (τ : Type) where
  /-- `a + b` -/
  add : τ → τ → τ
  /-- `torch.zeros_like(a)` -/
  zeros_like : τ → τ
  /-- `einops.reduce([t₀, t₁, …], "s ... -> ...", mode)`: stack the list on a new leading axis and reduce it away;
  `none` = it raised (empty list, shapes differ) -/
  reduce : Mode → List τ → Option τ

/-! ### instance states -/

structure SerialS (τ : Type) : Type 1 where
  layer : LayerSt τ
  cn : String
  nn : String
  trans : τ → τ

/-- the Python value of the `combine` argument / of `self._combine`: a string or a callable (which may raise) -/
inductive Combine (τ : Type) where
  | str (s : String)
  | fn (f : Dict τ → Except Err τ)

structure BicliqueS (τ : Type) : Type 1 where
  layer : LayerSt τ
  post_input : Dict (τ → τ)
  pre_output : Dict (τ → τ)
  _combine : Combine τ

structure RecS (τ : Type) : Type 1 where
  layer : LayerSt τ
  feedback_spikes : Option τ
  ffc : String
  latc : String
  fbc : String
  ffn : String
  fbn : String
  ffOut : τ → τ
  latOut : τ → τ
  fbOut : τ → τ
  latIn : τ → List τ
  fbIn : τ → List τ

/-! ### return values (Python unions) -/

/-- `Layer.forward`: `outputs` or `(outputs, res)` -/
inductive FwdRet (τ : Type) where
  | plain (outputs : Dict τ)
  | captured (outputs res : Dict τ)

/-- `Serial.forward`: a tensor or a pair of tensors -/
inductive SerialRet (τ : Type) where
  | single (o : τ)
  | pair (o y : τ)

/-- `RecurrentSerial.forward`: `(a, b)` or `((a, b), res)` -/
inductive RecRet (τ : Type) where
  | pair (a b : τ)
  | captured (a b : τ) (res : Dict τ)

section
variable {τ : Type} {σ : Type u} {α : Type v} {β : Type w}

/-! ### exceptions -/

/-- a raising primitive run inside a method that threads `self`: the unchanged state and the value -/
def withSelf (self : σ) (x : Except Err α) : Except Err (σ × α) :=
  match x with
  | .ok a => .ok (self, a)
  | .error e => .error e

/-- `try: <body> except <cls>: <handler>` (one handler, no `else` / `finally`; other classes propagate) -/
def exceptClass (body : Except Err α) (cls : Err) (handler : Except Err α) : Except Err α :=
  match body with
  | .ok a => .ok a
  | .error e => if e = cls then handler else .error e

/-! ### dictionaries (insertion ordered, distinct keys) -/

/-- `d[k]`: `KeyError` (also `nn.ModuleDict.__getitem__`) -/
def dictGetItem (d : Dict α) (k : String) : Except Err α :=
  match d.get? k with
  | some v => .ok v
  | none => .error .KeyError

/-- `d[k] = v`: replace in place, or append a new key -/
def dictSetItem (d : Dict α) (k : String) (v : α) : Dict α :=
  if (d.get? k).isSome then d.set k v else d ++ [(k, v)]

/-- a dictionary display `{k₀: v₀, k₁: v₁, …}` (a repeated key keeps its first position, last value) -/
def dictDisplay (l : List (String × α)) : Dict α :=
  l.foldl (fun d kv => dictSetItem d kv.1 kv.2) []

/-- `a | b` on dictionaries -/
def dictUnion (a b : Dict α) : Dict α :=
  b.foldl (fun d kv => dictSetItem d kv.1 kv.2) a

/-- `list(d.values())` -/
def dictValues (d : Dict α) : List α := d.map (·.2)

/-- `{k: <body> for k, v in d.items()}` in a method without state; the body may raise.  The keys of `d.items()` are
distinct and the comprehension's key is the loop key (checked by the translator), so nothing is overwritten. -/
def dictCompE (d : Dict α) (body : String → α → Except Err β) : Except Err (Dict β) :=
  match d with
  | [] => .ok []
  | (k, v) :: rest =>
    match body k v with
    | .error e => .error e
    | .ok b =>
      match dictCompE rest body with
      | .error e => .error e
      | .ok out => .ok ((k, b) :: out)

/-- the same where the body calls (and so advances) components held by `self`: entries in order, state threaded;
an exception ends the comprehension -/
def dictCompM (d : Dict α) (self : σ) (body : σ → String → α → Except Err (σ × β)) : Except Err (σ × Dict β) :=
  match d with
  | [] => .ok (self, [])
  | (k, v) :: rest =>
    match body self k v with
    | .error e => .error e
    | .ok (s1, b) =>
      match dictCompM rest s1 body with
      | .error e => .error e
      | .ok (s2, out) => .ok (s2, (k, b) :: out)

/-- `for x in d.values(): <calls on x>`: the value objects are mutated in place, in order (the calls are total) -/
def forValues (d : Dict α) (body : α → α) : Dict α := d.map fun kv => (kv.1, body kv.2)

/-! ### components (`torch.nn.Module`s held in an `nn.ModuleDict`) -/

/-- `module(*args)` / `module(arg)`: the module after the call and what it returned -/
def callModule {ι ο : Type} (m : Obj ι ο) (x : ι) : Obj ι ο × ο := m.fwd x

/-- the object stored under `k` was mutated by a call: write its new state back (the key exists: it was just read) -/
def moduleWriteBack {ι ο : Type} (d : Dict (Obj ι ο)) (k : String) (m : Obj ι ο) : Dict (Obj ι ο) := d.set k m

/-- `module.clear(**kwargs)` -/
def moduleClear {ι ο : Type} (m : Obj ι ο) : Obj ι ο := m.clr

/-- `neuron.spike` -/
def moduleSpike {ι ο : Type} (m : Obj ι ο) : ο := m.out

/-! ### keyword arguments handed on to `wiring` -/

inductive Kw | forward_pass
deriving DecidableEq, Repr

abbrev Kwargs := List (Kw × Bool)

/-- binding the keyword `name` of `**kwargs` to a named parameter: its value and the remaining keywords; `TypeError`
("missing 1 required positional argument") when absent -/
def kwBind (kw : Kwargs) (name : Kw) : Except Err (Bool × Kwargs) :=
  match kw.lookup name with
  | some b => .ok (b, kw.filter fun e => e.1 ≠ name)
  | none => .error .TypeError

/-- end of the binding for a signature without `**kwargs`: `TypeError` ("unexpected keyword argument") if any is left -/
def kwDone (kw : Kwargs) : Except Err Unit :=
  if kw.isEmpty then .ok () else .error .TypeError

/-! ### `Layer.forward`'s result seen by its callers -/

/-- `res[i]` with an integer literal: element of the tuple `(outputs, res)`; on a bare dictionary of names `KeyError` -/
def fwdGetItemInt (r : FwdRet τ) (i : Int) : Except Err (Dict τ) :=
  match r with
  | .plain _ => .error .KeyError
  | .captured o res =>
    if i = 0 ∨ i = -2 then .ok o else if i = 1 ∨ i = -1 then .ok res else .error .IndexError

/-- `res[name]` with a string: look-up in the bare dictionary; on the tuple `TypeError` -/
def fwdGetItemStr (r : FwdRet τ) (k : String) : Except Err τ :=
  match r with
  | .plain d => dictGetItem d k
  | .captured _ _ => .error .TypeError

/-! ### `RecurrentSerial` -/

/-- an optional tensor attribute read where a tensor is needed (`None` handed to a user transform is not modelled:
reported as `TypeError`) -/
def tensorOf (x : Option τ) : Except Err τ :=
  match x with
  | some t => .ok t
  | none => .error .TypeError

/-- the expression `tuple(x) if x else ()` for `x : Sequence[Tensor] | None` -/
def optSeqTuple (x : Option (List τ)) : List τ :=
  match x with
  | some l => l
  | none => []

/-! ### `Biclique.__init__`: the `combine` argument -/

/-- `isinstance(c, str)` -/
def isStr (c : Combine τ) : Bool :=
  match c with
  | .str _ => true
  | .fn _ => false

/-- `c.lower()`: `AttributeError` on a callable -/
def str_lower (c : Combine τ) : Except Err String :=
  match c with
  | .str s => .ok s.toLower
  | .fn _ => .error .AttributeError

/-- `case "a" | "b" | …` on a subject: equal to one of the literals (a callable equals no string) -/
def matchLiterals (c : Combine τ) (lits : List String) : Bool :=
  match c with
  | .str s => lits.contains s
  | .fn _ => false

/-- `self._combine(tensors, **kwargs)`: `TypeError` when a string was stored -/
def callCombine (c : Combine τ) (tensors : Dict τ) : Except Err τ :=
  match c with
  | .fn f => f tensors
  | .str _ => .error .TypeError

/-- einops' name of a reduction -/
def parseMode (s : String) : Option Mode :=
  if s = "sum" then some .sum else if s = "mean" then some .mean else if s = "prod" then some .prod
  else if s = "min" then some .min else if s = "max" then some .max else none

/-- `ein.reduce(tensors, pattern, reduction)` on a LIST of tensors with the pattern `"s ... -> ..."`;
`EinopsError` / torch's `RuntimeError` from stacking are `RuntimeError`s -/
def ein_reduce (E : TOps τ) (tensors : List τ) (pattern : String) (reduction : String) : Except Err τ :=
  if pattern = "s ... -> ..." then
    match parseMode reduction with
    | some m =>
      match E.reduce m tensors with
      | some z => .ok z
      | none => .error .RuntimeError
    | none => .error .RuntimeError
  else .error .RuntimeError

end

end InfernoVerif.Gen.LayerPrelude
