import InfernoVerif.Model.Persist
import InfernoVerif.Model.Record
import InfernoVerif.Gen.UpdaterPrelude
/-!
Vocabulary of the statement-level translator `harness/progtx_persist.py` (hand written, core Lean only).

`progtx_persist.py` regenerates, on every run, the persistence plumbing of /repo as programs
(`Gen/PersistProg.lean`):
* `inferno/core/infrastructure.py`, class `Module`: `__getattr__`, `__setattr__`, `__delattr__`, `__init__`,
  `register_extra`, `get_extra`, `get_extra_state`, `set_extra_state` — over the world `Mod` (ONE module);
* class `ShapedTensor`: the `owner` / `name` / `attributes` getters, `__init__`; class `RecordTensor`: `__init__`,
  the private `__data` getter, the private `__pointer` getter and setter, `create` — over the world `RObj`
  (the tensor-attribute object under construction together with its owner module);
* `inferno/learn/classifiers/simple.py`, class `MaxRateClassifier`: the `assignments` / `occurrences` /
  `proportions` / `rates` / `nclass` getters, the `rates` setter, the nested load post-hook `sdhook` and
  `__init__` — over `Mod`;
* `inferno/neural/modeling.py`, class `Accumulator`: the nested load post-hook `sdhook` — over `UpdProg.AccS`
  (the state of `Gen/UpdaterPrelude.lean`).

What a world is.  `Mod` is one `torch.nn.Module` instance as Python sees it: the attribute table of its class
(`cls`: which names are properties / methods / plain class attributes — what `getattr(type(self), name, None)`
and `object.__getattribute__` look at), its `__dict__` (`dict`; the entry `_extras` is kept apart in `extras`,
the entries `nn.Module.__init__` creates are summarised by `inited` and the five fields below it), and torch's
own dictionaries `_parameters`, `_buffers`, `_non_persistent_buffers_set`, `_modules`,
`_load_state_dict_post_hooks`.  Python dictionaries are insertion-ordered association lists with UNIQUE keys
(`dset` keeps the position of an existing key, `ddel` removes it, `dupdate` is `dict.update`).

Exceptions keep Python's semantics (assignments made before a raise persist): a method body is a
`Prog σ ρ = Except (Err × σ) (σ × ρ)`; plain primitives are `Except Err _` and are bound through `raising self`.
Every torch / CPython primitive the bodies use is a function of this file named after it, TOTAL, failing with the
exception class the real primitive raises.  Primitives that call back into `Module.__getattr__` /
`Module.__setattr__` (Python's `hasattr` / `getattr` / `setattr`, torch's `register_buffer` /
`register_parameter` / `nn.Module.__setattr__`) take the REGENERATED method as an argument (`ga`, `sa`), so the
tie covers those call-backs too.

What is abstract (fields of `PyEnv` / `TorchFns`): Python floats (`τ`, with `Record.TimeOps`), tensor elements
(`β`, with `Ring.Elem`), `str.isidentifier`, user code behind properties of the owner's class (`fget` / `fset`),
`nn.Module.get_submodule` (ONE module is modelled; a submodule is whatever `get_submodule` returns),
`F.normalize(·, p=1, dim=-1)`, `torch.argmax(·, dim=-1)`, `torch.bincount(·, None, n)`.

Tensors: `Store (List β)` — `Store.init dt shape vals` is a NON-ignored tensor of that dtype class and full shape
with row-major values; `.empty dt` is any ignored tensor with storage (`torch.empty(0)`); `.uninit dt` an
`UninitializedBuffer` / `UninitializedParameter`; `.none` is `None`.  `TVal.param` says whether the object is an
`nn.Parameter`.
-/
set_option linter.unusedVariables false
namespace InfernoVerif.Gen.PersistPrelude
open InfernoVerif.Ring InfernoVerif.Shaped
open InfernoVerif.Record (TimeOps)

/-- a method body: final state and return value, or the exception class and the state at the raise -/
abbrev Prog (σ ρ : Type) := Except (Err × σ) (σ × ρ)

/-- a plain primitive raises in state `self` -/
def raising {σ ρ : Type} (self : σ) : Except Err ρ → Except (Err × σ) ρ
  | .ok a => .ok a
  | .error e => .error (e, self)

/-! ### Python dictionaries -/
section dict
variable {κ ν : Type} [BEq κ]

/-- `k in d` -/
def dhas (d : List (κ × ν)) (k : κ) : Bool := (d.lookup k).isSome

/-- `d[k] = v` -/
def dset (d : List (κ × ν)) (k : κ) (v : ν) : List (κ × ν) :=
  if dhas d k then d.map (fun p => if p.1 == k then (p.1, v) else p) else d ++ [(k, v)]

/-- `del d[k]` (of a present key) / `s.discard(k)` -/
def ddel (d : List (κ × ν)) (k : κ) : List (κ × ν) := d.filter fun p => !(p.1 == k)

/-- `d.update(e)` / `d | e` -/
def dupdate (d e : List (κ × ν)) : List (κ × ν) := e.foldl (fun acc p => dset acc p.1 p.2) d

/-- `d[k]` (KeyError) -/
def dict_getitem (d : List (κ × ν)) (k : κ) : Except Err ν :=
  match d.lookup k with
  | some v => .ok v
  | none => .error .KeyError

end dict

/-- `s.add(k)` on a set of names -/
def sadd (s : List String) (k : String) : List String := if s.contains k then s else s ++ [k]

/-- `s.discard(k)` -/
def sdiscard (s : List String) (k : String) : List String := s.filter (· != k)

/-! ### Values -/

/-- a tensor-like Python object: `torch.Tensor | nn.Parameter | None` -/
structure TVal (β : Type) where
  param : Bool                 -- `isinstance(·, nn.Parameter)` (incl. `UninitializedParameter`)
  store : Store (List β)
deriving Repr

/-- the Python values the translated bodies pass around as attribute values / extras -/
inductive PyVal (β τ : Type) where
  | none
  | int (i : Int)
  | bool (b : Bool)
  | float (x : τ)
  | cdict (c : Cons)               -- a `dict[int, int]` of constraints
  | tensor (t : TVal β)            -- a `torch.Tensor` (never `None`: see `TVal.toPy`)
  | module                         -- an `nn.Module` instance
  | odict                          -- a NEW, EMPTY `OrderedDict()`
  | obj (cls : String)             -- any other object (its class name; contents not modelled)

/-- the `_extras` dictionary -/
abbrev XDict (β τ : Type) := List (String × PyVal β τ)

variable {β τ : Type}

/-- a tensor-like object as a Python value -/
def TVal.toPy (t : TVal β) : PyVal β τ :=
  match t.store with
  | .none => .none
  | _ => .tensor t

/-- `None` as a tensor-like object -/
def TVal.none : TVal β := ⟨false, .none⟩

/-- `value is None` -/
def TVal.isNone (t : TVal β) : Bool := match t.store with | .none => true | _ => false

/-- `isinstance(value, torch.Tensor | nn.Module)` -/
def isinstance_Tensor_or_Module : PyVal β τ → Bool
  | .tensor _ => true
  | .module => true
  | _ => false

/-- `isinstance(value, nn.Parameter)` on a Python value -/
def PyVal.isParameter : PyVal β τ → Bool
  | .tensor t => t.param
  | _ => false

/-- `isinstance(value, nn.Parameter)` on a tensor-like object -/
def isinstance_Parameter (t : TVal β) : Bool := t.param

/-- `isinstance(name, str)`: a `String` is one -/
def isinstance_str (name : String) : Bool := true

/-- `"." in name` -/
def str_contains_dot (name : String) : Bool := name.toList.contains '.'

/-- `target.rpartition(".")`: (head, separator, tail); `("", "", target)` without a dot -/
def str_rpartition_dot (s : String) : String × String × String :=
  match s.toList.reverse.span (· != '.') with
  | (_, []) => ("", "", s)
  | (tailRev, _ :: headRev) => (String.ofList headRev.reverse, ".", String.ofList tailRev.reverse)

/-- reading an instance attribute that may not have been assigned yet (AttributeError) -/
def attr_get {α : Type} : Option α → Except Err α
  | some a => .ok a
  | none => .error .AttributeError

/-! ### The module world -/

/-- what `getattr(type(self), name, None)` finds for a name defined by the class (along its MRO) -/
inductive ClsAttr where
  | property (fset : Bool)     -- a `property` (a data descriptor); `fset`: it has a setter
  | method                     -- a function / classmethod / staticmethod (non-data descriptor: `__get__` only)
  | plain                      -- any other class attribute (no `__get__` / `__set__` / `__delete__`)
deriving DecidableEq, Repr

/-- ONE `torch.nn.Module` instance -/
structure Mod (β τ : Type) where
  inferno    : Bool                              -- `isinstance(self, inferno.Module)`
  cls        : List (String × ClsAttr)           -- attributes of `type(self)`
  inited     : Bool                              -- `nn.Module.__init__` has run (`_parameters`, … are in `__dict__`)
  dict       : List (String × PyVal β τ)         -- `__dict__` without `_extras` and without torch's own entries
  extras     : Option (XDict β τ)                -- `__dict__["_extras"]`
  params     : List (String × TVal β)            -- `_parameters`
  buffers    : List (String × TVal β)            -- `_buffers`
  nonpersist : List String                       -- `_non_persistent_buffers_set`
  modules    : List (String × Bool)              -- `_modules` (`false`: the entry is `None`)
  posthooks  : List String                       -- `_load_state_dict_post_hooks` (hooks by qualified name)

/-- what the translated bodies need from outside -/
structure PyEnv (β τ : Type) where
  T : TimeOps τ
  E : Elem β
  isidentifier : String → Bool                                        -- `str.isidentifier`
  fget : String → Mod β τ → Except Err (PyVal β τ)                    -- getter of a property of the class
  fset : String → Mod β τ → PyVal β τ → Prog (Mod β τ) Unit           -- setter of a property of the class
  get_submodule : Mod β τ → String → Except Err (Mod β τ)             -- `nn.Module.get_submodule`

/-- the entries `nn.Module.__init__` puts into `__dict__` besides `training` (torch 2.14) -/
def torchInternals : List String :=
  ["_parameters", "_buffers", "_non_persistent_buffers_set", "_backward_pre_hooks", "_backward_hooks",
   "_is_full_backward_hook", "_forward_hooks", "_forward_hooks_with_kwargs", "_forward_hooks_always_called",
   "_forward_pre_hooks", "_forward_pre_hooks_with_kwargs", "_state_dict_hooks", "_state_dict_pre_hooks",
   "_load_state_dict_pre_hooks", "_load_state_dict_post_hooks", "_modules"]

/-- `nn.Module.__init__(self)`: fresh torch dictionaries, `training = True` -/
def nn_Module___init__ (self : Mod β τ) : Mod β τ :=
  { self with inited := true, dict := dset self.dict "training" (.bool true), params := [], buffers := [],
              nonpersist := [], modules := [], posthooks := [] }

/-- `"_extras" in self.__dict__` -/
def dict_contains_extras (self : Mod β τ) : Bool := self.extras.isSome

/-- `self.__dict__["_extras"]` (KeyError) -/
def dict_getitem_extras (self : Mod β τ) : Except Err (XDict β τ) :=
  match self.extras with
  | some e => .ok e
  | none => .error .KeyError

/-- `self.__dict__.get("_extras")` -/
def dict_get_extras (self : Mod β τ) : Option (XDict β τ) := self.extras

/-- the instance dictionary as `object.__getattribute__` sees it -/
def instanceDict (self : Mod β τ) (name : String) : Option (PyVal β τ) :=
  if name == "_extras" then self.extras.map fun _ => .obj "OrderedDict"
  else if self.inited && torchInternals.contains name then some (.obj "dict")
  else self.dict.lookup name

/-- `object.__getattribute__(self, name)`: a data descriptor of the class first, then the instance dictionary,
then the other class attributes; AttributeError when nothing is found -/
def object___getattribute__ (P : PyEnv β τ) (self : Mod β τ) (name : String) : Except Err (PyVal β τ) :=
  match self.cls.lookup name with
  | some (.property _) => P.fget name self
  | c =>
    match instanceDict self name with
    | some v => .ok v
    | none =>
      match c with
      | some .method => .ok (.obj "method")
      | some .plain => .ok (.obj "classattr")
      | _ => .error .AttributeError

/-- `nn.Module.__getattr__(self, name)`: `_parameters`, `_buffers`, `_modules`, else AttributeError -/
def nn_Module___getattr__ (self : Mod β τ) (name : String) : Except Err (PyVal β τ) :=
  if !self.inited then .error .AttributeError
  else match self.params.lookup name with
    | some t => .ok t.toPy
    | none => match self.buffers.lookup name with
      | some t => .ok t.toPy
      | none => match self.modules.lookup name with
        | some b => .ok (if b then .module else .none)
        | none => .error .AttributeError

/-- the regenerated `Module.__getattr__`, as the primitives below receive it -/
abbrev GetAttr (β τ : Type) := Mod β τ → String → Prog (Mod β τ) (PyVal β τ)
/-- the regenerated `Module.__setattr__` -/
abbrev SetAttr (β τ : Type) := Mod β τ → String → PyVal β τ → Prog (Mod β τ) Unit

/-- `getattr(obj, name)`: `object.__getattribute__`, and on AttributeError the class's `__getattr__`
(`ga` for an inferno `Module`, torch's otherwise) -/
def py_getattr (ga : GetAttr β τ) (P : PyEnv β τ) (obj : Mod β τ) (name : String) : Except Err (PyVal β τ) :=
  match object___getattribute__ P obj name with
  | .error .AttributeError =>
    if obj.inferno then
      match ga obj name with
      | .ok (_, v) => .ok v
      | .error (e, _) => .error e
    else nn_Module___getattr__ obj name
  | r => r

/-- `hasattr(obj, name)`: `getattr` succeeds; only AttributeError is swallowed -/
def py_hasattr (ga : GetAttr β τ) (P : PyEnv β τ) (obj : Mod β τ) (name : String) : Except Err Bool :=
  match py_getattr ga P obj name with
  | .ok _ => .ok true
  | .error .AttributeError => .ok false
  | .error e => .error e

/-- `self._extras` / `module._extras` (attribute access: AttributeError when absent) -/
def attr_extras (self : Mod β τ) : Except Err (XDict β τ) :=
  match self.extras with
  | some e => .ok e
  | none => .error .AttributeError

/-- `isinstance(obj, inferno.Module)` -/
def isinstance_Module (obj : Mod β τ) : Bool := obj.inferno

/-- `isinstance(obj, nn.Module)`: every `Mod` is one -/
def isinstance_nn_Module (obj : Mod β τ) : Bool := true

/-! ### descriptors -/

/-- `getattr(type(self), name, None)` -/
def type_getattr (self : Mod β τ) (name : String) : Option ClsAttr := self.cls.lookup name

/-- `isinstance(descriptor, property)` -/
def isinstance_property : Option ClsAttr → Bool
  | some (.property _) => true
  | _ => false

/-- `hasattr(descriptor, "__get__")` -/
def hasattr___get__ : Option ClsAttr → Bool
  | some (.property _) => true
  | some .method => true
  | _ => false

/-- `hasattr(descriptor, "__set__")` -/
def hasattr___set__ : Option ClsAttr → Bool
  | some (.property _) => true
  | _ => false

/-- `hasattr(descriptor, "__delete__")` -/
def hasattr___delete__ : Option ClsAttr → Bool
  | some (.property _) => true
  | _ => false

/-- `descriptor.__set__(self, value)`: the property's setter (user code, `P.fset`); AttributeError for a property
without setter and for an object without `__set__` (a function, `None`) -/
def descriptor___set__ (P : PyEnv β τ) (self : Mod β τ) (descriptor : Option ClsAttr) (name : String)
    (value : PyVal β τ) : Prog (Mod β τ) Unit :=
  match descriptor with
  | some (.property true) => P.fset name self value
  | _ => .error (.AttributeError, self)

/-! ### torch's registration primitives -/

/-- `remove_from(self.__dict__, …)` of `nn.Module.__setattr__`, on the instance dictionary -/
def dictRemove (self : Mod β τ) (name : String) : Mod β τ :=
  if name == "_extras" then { self with extras := none } else { self with dict := ddel self.dict name }

/-- `nn.Module.register_parameter(name, param)` -/
def nn_Module_register_parameter (ga : GetAttr β τ) (P : PyEnv β τ) (self : Mod β τ) (name : String) (param : TVal β) :
    Except Err (Mod β τ) :=
  if !self.inited then .error .AttributeError
  else if str_contains_dot name then .error .KeyError
  else if name == "" then .error .KeyError
  else match py_hasattr ga P self name with
    | .error e => .error e
    | .ok h =>
      if h && !dhas self.params name then .error .KeyError
      else if param.isNone then .ok { self with params := dset self.params name param }
      else if !param.param then .error .TypeError
      else .ok { self with params := dset self.params name param }

/-- `nn.Module.register_buffer(name, tensor, persistent=persistent)` (`tensor`: a tensor or `None` by typing) -/
def nn_Module_register_buffer (ga : GetAttr β τ) (P : PyEnv β τ) (self : Mod β τ) (name : String) (tensor : TVal β)
    (persistent : Bool) : Except Err (Mod β τ) :=
  if !self.inited then .error .AttributeError
  else if str_contains_dot name then .error .KeyError
  else if name == "" then .error .KeyError
  else match py_hasattr ga P self name with
    | .error e => .error e
    | .ok h =>
      if h && !dhas self.buffers name then .error .KeyError
      else .ok { self with buffers := dset self.buffers name tensor,
                           nonpersist := if persistent then sdiscard self.nonpersist name
                                         else sadd self.nonpersist name }

/-- `object.__setattr__(self, name, value)`: a data descriptor of the class first, else the instance dictionary.
`_extras` can only be given a new empty `OrderedDict()` (anything else is outside the model: `Err.Other`). -/
def object___setattr__ (P : PyEnv β τ) (self : Mod β τ) (name : String) (value : PyVal β τ) : Prog (Mod β τ) Unit :=
  match self.cls.lookup name with
  | some (.property b) => descriptor___set__ P self (some (.property b)) name value
  | _ =>
    if name == "_extras" then
      match value with
      | .odict => .ok ({ self with extras := some [] }, ())
      | _ => .error (.Other, self)
    else .ok ({ self with dict := dset self.dict name value }, ())

/-- `nn.Module.__setattr__(self, name, value)` (torch 2.14): parameters, modules and buffers go to torch's
dictionaries (removing the name elsewhere first), everything else to `object.__setattr__` -/
def nn_Module___setattr__ (ga : GetAttr β τ) (P : PyEnv β τ) (self : Mod β τ) (name : String) (value : PyVal β τ) :
    Prog (Mod β τ) Unit :=
  match value with
  | .tensor ⟨true, st⟩ =>
    if !self.inited then .error (.AttributeError, self)
    else
      let s1 := dictRemove self name
      let s1 := { s1 with buffers := ddel s1.buffers name, modules := ddel s1.modules name,
                          nonpersist := sdiscard s1.nonpersist name }
      match nn_Module_register_parameter ga P s1 name ⟨true, st⟩ with
      | .ok s2 => .ok (s2, ())
      | .error e => .error (e, s1)
  | _ =>
    if self.inited && dhas self.params name then
      match value with
      | .none =>
        match nn_Module_register_parameter ga P self name TVal.none with
        | .ok s2 => .ok (s2, ())
        | .error e => .error (e, self)
      | _ => .error (.TypeError, self)
    else
      match value with
      | .module =>
        if !self.inited then .error (.AttributeError, self)
        else
          let s1 := dictRemove self name
          .ok ({ s1 with params := ddel s1.params name, buffers := ddel s1.buffers name,
                         nonpersist := sdiscard s1.nonpersist name, modules := dset s1.modules name true }, ())
      | _ =>
        if self.inited && dhas self.modules name then
          match value with
          | .none => .ok ({ self with modules := dset self.modules name false }, ())
          | _ => .error (.TypeError, self)
        else if self.inited && dhas self.buffers name then
          match value with
          | .none =>
            match nn_Module_register_buffer ga P self name TVal.none (!self.nonpersist.contains name) with
            | .ok s2 => .ok (s2, ())
            | .error e => .error (e, self)
          | .tensor t =>
            match nn_Module_register_buffer ga P self name t (!self.nonpersist.contains name) with
            | .ok s2 => .ok (s2, ())
            | .error e => .error (e, self)
          | _ => .error (.TypeError, self)
        else object___setattr__ P self name value

/-- `nn.Module.__delattr__(self, name)` -/
def nn_Module___delattr__ (self : Mod β τ) (name : String) : Except Err (Mod β τ) :=
  if !self.inited then .error .AttributeError
  else if dhas self.params name then .ok { self with params := ddel self.params name }
  else if dhas self.buffers name then
    .ok { self with buffers := ddel self.buffers name, nonpersist := sdiscard self.nonpersist name }
  else if dhas self.modules name then .ok { self with modules := ddel self.modules name }
  else if name == "_extras" then
    (match self.extras with
     | some _ => .ok { self with extras := none }
     | none => .error .AttributeError)
  else if dhas self.dict name then .ok { self with dict := ddel self.dict name }
  else .error .AttributeError

/-- `setattr(obj, name, value)`: the class's `__setattr__` (`sa` for an inferno `Module`, torch's otherwise) -/
def py_setattr (sa : SetAttr β τ) (ga : GetAttr β τ) (P : PyEnv β τ) (obj : Mod β τ) (name : String)
    (value : PyVal β τ) : Prog (Mod β τ) Unit :=
  if obj.inferno then sa obj name value else nn_Module___setattr__ ga P obj name value

/-- `self.register_load_state_dict_post_hook(hook)` (the hook by its qualified name) -/
def register_load_state_dict_post_hook (self : Mod β τ) (hook : String) : Mod β τ :=
  { self with posthooks := self.posthooks ++ [hook] }

/-! ### `state_dict` / `load_state_dict` of ONE module (children excluded, as in `Persist.Dict`) -/

/-- a value of a state dictionary -/
inductive SDVal (β τ : Type) where
  | tensor (t : Store (List β))
  | extra (x : XDict β τ)

/-- `t is not None` entries of a torch dictionary, as state-dict entries -/
def sdTensors (l : List (String × TVal β)) : List (String × SDVal β τ) :=
  l.filterMap fun kv => if kv.2.isNone then none else some (kv.1, .tensor kv.2.store)

/-- `self.state_dict()` (`_save_to_state_dict`): parameters, then persistent buffers (entries that are `None` are
skipped), then — for a class overriding `get_extra_state`, i.e. an inferno `Module` — `_extra_state` with what the
REGENERATED `get_extra_state` (`ges`) returns -/
def nn_Module_state_dict (ges : Mod β τ → Prog (Mod β τ) (XDict β τ)) (self : Mod β τ) :
    Except Err (List (String × SDVal β τ)) :=
  let ts : List (String × SDVal β τ) :=
    sdTensors self.params ++ sdTensors (self.buffers.filter fun kv => !self.nonpersist.contains kv.1)
  if self.inferno then
    match ges self with
    | .ok (_, x) => .ok (ts ++ [("_extra_state", .extra x)])
    | .error (e, _) => .error e
  else .ok ts

/-- full shape of a tensor as `load_state_dict` compares it (`none`: a lazy / uninitialised tensor is not compared) -/
def sdShape : Store (List β) → Option (List Nat)
  | .init _ sh _ => some sh
  | .empty _ => some [0]
  | _ => none

/-- `param.copy_(input_param)` on the entry `name` of a torch dictionary -/
def copyInto (l : List (String × TVal β)) (name : String) (input : Store (List β)) : List (String × TVal β) :=
  l.map fun kv => if kv.1 == name then (kv.1, { kv.2 with store :=
    match kv.2.store, input with
    | .init d sh _, .init _ _ v => .init d sh v
    | s, _ => s }) else kv

/-- the tensor entries `load_state_dict` looks at: parameters and persistent buffers that are not `None` -/
def localState (self : Mod β τ) : List (String × TVal β) :=
  (self.params ++ self.buffers.filter fun kv => !self.nonpersist.contains kv.1).filter fun kv => !kv.2.isNone

/-- `self.load_state_dict(sd, strict=True)` on ONE module (`_load_from_state_dict`, then the post hooks, then the
error report).  Returns the module after the call and the error list (`Persist.LoadErr`, in the model's order:
unexpected, missing, size mismatch); torch raises ONE `RuntimeError` iff the list is non-empty — AFTER having
copied the matching entries, called the REGENERATED `set_extra_state` (`ses`) and run the post hooks (`hook`: the
regenerated hook bodies by name).  An exception raised by `set_extra_state` or a hook propagates as it is. -/
def nn_Module_load_state_dict (ses : Mod β τ → XDict β τ → Prog (Mod β τ) Unit)
    (hook : String → Mod β τ → Prog (Mod β τ) Unit) (self : Mod β τ) (sd : List (String × SDVal β τ)) :
    Except (Err × Mod β τ) (Mod β τ × List Persist.LoadErr) :=
  let loc := localState self
  -- copy the entries whose key and shape match; collect the others
  let step := fun (acc : Mod β τ × List Persist.LoadErr × List Persist.LoadErr) (kv : String × TVal β) =>
    match sd.lookup kv.1 with
    | some (.tensor input) =>
      if (sdShape kv.2.store).isSome && sdShape input != sdShape kv.2.store then
        (acc.1, acc.2.1, acc.2.2 ++ [Persist.LoadErr.shape kv.1])
      else
        ({ acc.1 with params := copyInto acc.1.params kv.1 input, buffers := copyInto acc.1.buffers kv.1 input },
          acc.2.1, acc.2.2)
    | some (.extra _) => (acc.1, acc.2.1, acc.2.2 ++ [Persist.LoadErr.shape kv.1])
    | none => (acc.1, acc.2.1 ++ [Persist.LoadErr.missing kv.1], acc.2.2)
  let r := loc.foldl step (self, [], [])
  let afterExtra : Except (Err × Mod β τ) (Mod β τ × List Persist.LoadErr) :=
    if self.inferno then
      match sd.lookup "_extra_state" with
      | some (.extra x) =>
        (match ses r.1 x with
         | .ok (m, _) => .ok (m, r.2.1)
         | .error e => .error e)
      | some (.tensor _) => .error (.AttributeError, r.1)      -- `dict.update(tensor)` is not meaningful
      | none => .ok (r.1, r.2.1 ++ [Persist.LoadErr.missing "_extra_state"])
    else .ok (r.1, r.2.1)
  match afterExtra with
  | .error e => .error e
  | .ok (m, missing) =>
    let unexpected := (sd.filter fun kv => kv.1 != "_extra_state" && !dhas loc kv.1 ||
        kv.1 == "_extra_state" && !self.inferno).map fun kv => Persist.LoadErr.unexpected kv.1
    match self.posthooks.foldlM (fun m h => (hook h m).map (·.1)) m with
    | .error e => .error e
    | .ok m' => .ok (m', unexpected ++ missing ++ r.2.2)

/-! ### the tensor-attribute objects (`ShapedTensor` / `RecordTensor`) -/

/-- `ShapedTensor.LinkedAttributes` -/
structure STAttrs where
  data : String
  constraints : String
deriving DecidableEq, Repr

/-- `RecordTensor.LinkedAttributes` -/
structure RTAttrs where
  data : String
  constraints : String
  dt : String
  duration : String
  inclusive : String
  pointer : String
deriving DecidableEq, Repr

/-- a `RecordTensor` object (its `ShapedTensor` part included) together with the module its weak references
designate.  Private attributes are `Option`s (`none`: not assigned yet — reading raises AttributeError);
`stOwner` / `rtOwner`: `_ShapedTensor__owner` / `_RecordTensor__owner` hold `weakref.ref(owner)`. -/
structure RObj (β τ : Type) where
  owner   : Mod β τ
  stOwner : Bool
  rtOwner : Bool
  name    : Option String          -- `_ShapedTensor__name`
  strict  : Option Bool            -- `_ShapedTensor__strict`
  live    : Option Bool            -- `_ShapedTensor__live`
  stAttrs : Option STAttrs         -- `_ShapedTensor__attributes`
  rtAttrs : Option RTAttrs         -- `_RecordTensor__attributes`

/-- `cls.__new__(cls)` for an object that will belong to `owner`: no attribute assigned yet -/
def object___new__ (owner : Mod β τ) : RObj β τ := ⟨owner, false, false, none, none, none, none, none⟩

/-- `self.__owner()`: the referent of the weak reference (the owner is alive while its methods run);
AttributeError when the private attribute has not been assigned -/
def weakref_call (set : Bool) (self : RObj β τ) : Except Err (Mod β τ) :=
  if set then .ok self.owner else .error .AttributeError

/-- an operation on the owner module, run from a method of the tensor-attribute object (objects are references:
what the operation did to the module persists, also when it raises) -/
def onOwner {ρ : Type} (self : RObj β τ) (f : Mod β τ → Prog (Mod β τ) ρ) : Prog (RObj β τ) ρ :=
  match f self.owner with
  | .ok (o, r) => .ok ({ self with owner := o }, r)
  | .error (e, o) => .error (e, { self with owner := o })

/-- a plain primitive on the owner -/
def ownerPrim (o : Mod β τ) (r : Except Err (Mod β τ)) : Prog (Mod β τ) Unit :=
  match r with
  | .ok o' => .ok (o', ())
  | .error e => .error (e, o)

/-- `argtest.identifier("name", name)`: the name, or ValueError (a `String` is a `str`) -/
def argtest_identifier (P : PyEnv β τ) (value : String) : Except Err String :=
  if P.isidentifier value then .ok value else .error .ValueError

/-- `argtest.gt(name, value, 0, float)` -/
def argtest_gt (P : PyEnv β τ) (value : τ) : Except Err τ :=
  if P.T.pos value then .ok value else .error .ValueError

/-- `argtest.gte(name, value, 0, float)` -/
def argtest_gte (P : PyEnv β τ) (value : τ) : Except Err τ :=
  if P.T.nonneg value then .ok value else .error .ValueError

/-- `argtest.gt(name, value, 0, int)` on a Python int -/
def argtest_gt_int (value : Int) : Except Err Int :=
  if 0 < value then .ok value else .error .ValueError

/-- a Python `bool` used as an `int` (`x + bool(inclusive)`) -/
def boolInt (b : Bool) : Int := if b then 1 else 0

/-- `dict(constraints) if constraints else {}` / `constraints if constraints else {}` -/
def dict_or_empty (c : Option Cons) : Cons :=
  match c with
  | some c => c
  | none => []

/-- `ShapedTensor._ignore(value)` -/
def ShapedTensor__ignore (value : TVal β) : Bool :=
  match value.store with
  | .init _ _ _ => false
  | _ => true

/-- `ShapedTensor._ignore_or_compatible(value, constraints, strict)` (`_constraints_compatible` is
`Shaped.compatible`, tied to the code by C13) -/
def ShapedTensor__ignore_or_compatible (value : TVal β) (constraints : Cons) (strict : Bool) : Bool :=
  match value.store with
  | .init _ sh _ => compatible sh constraints strict
  | _ => true

/-- `value.data` of a tensor-like object: the same tensor, not a Parameter -/
def TVal.data (t : TVal β) : TVal β := { t with param := false }

/-- `value.data = x` on a Parameter: the object stays a Parameter -/
def TVal.setData (t x : TVal β) : TVal β := { t with store := x.store }

/-- `x.unsqueeze(0).repeat(*chain((size,), repeat(1, times=x.ndim)))` on a non-ignored tensor: `size` copies along a
new leading dimension (other values: unchanged; the bodies call it on non-ignored tensors only) -/
def unsqueeze0_repeat (x : TVal β) (size : Int) : TVal β :=
  match x.store with
  | .init d sh v => { x with store := .init d (size.toNat :: sh) (List.replicate size.toNat v).flatten }
  | _ => x

/-! ### classifier vocabulary -/

/-- the tensor functions of `MaxRateClassifier.rates.setter` (abstract, total on tensors) -/
structure TorchFns (β : Type) where
  normalize : TVal β → TVal β             -- `F.normalize(x, p=1, dim=-1)`
  argmax    : TVal β → TVal β             -- `torch.argmax(x, dim=-1)`
  view_flat : TVal β → TVal β             -- `x.view(-1)`
  bincount  : TVal β → Int → TVal β       -- `torch.bincount(x, None, n)`

/-- the `shape` argument of `MaxRateClassifier.__init__`: `Sequence[int] | int` -/
inductive ShapeArg where
  | int (i : Int)
  | seq (l : List Int)
deriving DecidableEq, Repr

/-- the `try: shape = (argtest.gt("shape", shape, 0, int),) except TypeError: …` statement of
`MaxRateClassifier.__init__` (matched verbatim by the translator): a positive int becomes a 1-tuple, a sequence of
positive ints a tuple, anything non-positive is a ValueError -/
def classifier_validate_shape : ShapeArg → Except Err (List Int)
  | .int i => if 0 < i then .ok [i] else .error .ValueError
  | .seq l => if l.all (0 < ·) then .ok l else .error .ValueError

/-- a tensor of the given dtype class, shape and row-major values as a storage object (`.empty` when ignored:
at most one dimension and no element) -/
def mkStore (d : DType) (shape : List Nat) (vals : List β) : Store (List β) :=
  if shape.length ≤ 1 && prod shape == 0 then .empty d else .init d shape vals

/-- `torch.zeros(*dims)` (float) -/
def torch_zeros (P : PyEnv β τ) (dims : List Int) : TVal β :=
  ⟨false, mkStore false (dims.map Int.toNat) (List.replicate (prod (dims.map Int.toNat)) P.E.zero)⟩

/-- `x.float()` / `x.long()`: conversion to the dtype class `d` -/
def TVal.to (P : PyEnv β τ) (x : TVal β) (d : DType) : TVal β :=
  match x.store with
  | .init d0 sh v => { x with store := .init d sh (v.map (P.E.conv d0 d)) }
  | .empty _ => { x with store := .empty d }
  | .uninit _ => { x with store := .uninit d }
  | .none => x

/-- `nn.Parameter(x, requires_grad)` -/
def nn_Parameter (x : TVal β) (requires_grad : Bool) : TVal β := { x with param := true }

/-- a Python value used as the RECEIVER of a tensor attribute / method (`x.data`, `x.view`, `x.shape`,
`F.normalize(x, …)` which calls `x.norm`): AttributeError unless it is a tensor -/
def as_tensor_recv : PyVal β τ → Except Err (TVal β)
  | .tensor t => .ok t
  | _ => .error .AttributeError

/-- a Python value passed as the tensor ARGUMENT of a torch function (`torch.argmax`, `torch.bincount`):
TypeError unless it is a tensor -/
def as_tensor_arg : PyVal β τ → Except Err (TVal β)
  | .tensor t => .ok t
  | _ => .error .TypeError

/-- `x.shape[0]` (IndexError for a 0-dimensional tensor; an ignored tensor with storage has shape `(0,)`) -/
def tensor_shape0 (x : TVal β) : Except Err Int :=
  match x.store with
  | .init _ (n :: _) _ => .ok n
  | .init _ [] _ => .error .IndexError
  | .empty _ => .ok 0
  | _ => .error .RuntimeError

/-- `self.<name>.data = value` where `self.<name>` evaluated to the tensor object `cur`: the object registered
under `name` (parameter, buffer or plain attribute — the same resolution order as attribute access) gets the new
storage and stays what it was (a Parameter stays a Parameter) -/
def setattr_data (self : Mod β τ) (name : String) (value : TVal β) : Except Err (Mod β τ) :=
  match self.dict.lookup name with
  | some (.tensor t) => .ok { self with dict := dset self.dict name (.tensor (t.setData value)) }
  | some _ => .error .AttributeError
  | none =>
    match self.params.lookup name with
    | some t =>
      if t.isNone then .error .AttributeError
      else .ok { self with params := dset self.params name (t.setData value) }
    | none =>
      match self.buffers.lookup name with
      | some t =>
        if t.isNone then .error .AttributeError
        else .ok { self with buffers := dset self.buffers name (t.setData value) }
      | none => .error .AttributeError

end InfernoVerif.Gen.PersistPrelude
