import InfernoVerif.Model.RingOps
/-!
Vocabulary of the *statement-level* translator `harness/progtx.py` (hand written, core Lean only).

`progtx.py` regenerates whole method bodies of `RecordTensor` (`read`, `write`, `readrange`,
`writerange`, `align`, `reset`, `incr`, `decr`, `push`, `pop`, `peek`) from
`inferno/core/infrastructure.py` on every run, as `Except Err` programs over the private state
`RT` below.  Every torch primitive the bodies use is a function of this file, named after the
primitive; each is TOTAL and fails with the exception class torch raises (`IndexError` for an index
outside the leading axis) instead of defaulting.  A tensor is represented by its slices along the
leading (time) axis, each slice flattened (`Stack`); a single observation is `Ring.Obs`.
-/
set_option linter.unusedVariables false
namespace InfernoVerif.Gen.Prog
open InfernoVerif.Ring

/-- a tensor seen along its leading axis: `rows[i]` is the flattened slice `t[i, ...]` -/
structure Stack (β : Type) where
  dt     : DType
  oshape : List Nat
  rows   : List (List β)
deriving Repr, DecidableEq

/-- the same tensor seen with the time axis LAST (`ein.rearrange(x, "t ... -> ... t")`): only a marker,
the representation stays time-major -/
structure TimeLast (β : Type) where
  stack : Stack β
deriving Repr, DecidableEq

/-- `offset` argument of `readrange` / `writerange`: a Python int or a tensor shaped like an observation -/
inductive Off where
  | int (i : Int)
  | ten (shape : List Nat) (vals : List Int)
deriving Repr, DecidableEq

/-- the private state of a `RecordTensor` that the translated methods read and write -/
structure RT (β : Type) where
  data     : Store (Stack β)     -- `self.__data` (`Store.init d sh s` is built with `s.dt = d`, `s.oshape = sh`)
  pointer  : Int                 -- `self.__pointer`
  recordsz : Int                 -- `self.__recordsz`
deriving Repr

variable {β : Type}

/-- `self._ignore(t)`: `None`, uninitialised, or `empty(0)` -/
def ignored : Store (Stack β) → Bool
  | .init _ _ _ => false
  | _ => true

def isNone : Store (Stack β) → Bool
  | .none => true
  | _ => false

/-- `isinstance(t, nn.UninitializedBuffer | nn.UninitializedParameter)` -/
def isUninit : Store (Stack β) → Bool
  | .uninit _ => true
  | _ => false

/-- `isinstance(t, torch.Tensor)` (an uninitialised buffer is one too) -/
def isTensor : Store (Stack β) → Bool
  | .none => false
  | _ => true

/-- dtype a storage object carries, if any -/
def storeDType : Store (Stack β) → Option DType
  | .none => none
  | .empty d => some d
  | .uninit d => some d
  | .init d _ _ => some d

/-- a `(n, *shape)` tensor of dtype `d` filled with `v` -/
def fullStack (d : DType) (n : Int) (shape : List Nat) (v : β) : Stack β :=
  ⟨d, shape, List.replicate n.toNat (List.replicate (prod shape) v)⟩

/-- `t.materialize((n, *shape), dtype=dtype)` on an uninitialised buffer (contents arbitrary: `E.zero`) -/
def materialize (E : Elem β) (t : Store (Stack β)) (n : Int) (shape : List Nat) (dtype : Option DType) :
    Store (Stack β) :=
  let d := (dtype.orElse fun _ => storeDType t).getD true
  .init d shape (fullStack d n shape E.zero)

/-- `t.fill_(v)` on a materialised storage object -/
def storeFill (E : Elem β) (t : Store (Stack β)) (v : β) : Store (Stack β) :=
  match t with
  | .init d sh s => .init d sh { s with rows := List.replicate s.rows.length (List.replicate (prod sh) v) }
  | other => other

/-- `inferno.full(t, v, shape=(n, *shape), dtype=dtype)`: like `t` (its dtype unless one is given) -/
def fullLike (t : Store (Stack β)) (v : β) (n : Int) (shape : List Nat) (dtype : Option DType) : Stack β :=
  fullStack ((dtype.orElse fun _ => storeDType t).getD true) n shape v

/-- `torch.full((n, *shape), v, dtype=dtype)`: dtype inferred from the Python value (an int: int64) -/
def torchFull (v : β) (n : Int) (shape : List Nat) (dtype : Option DType) : Stack β :=
  fullStack (dtype.getD true) n shape v

/-- what assigning a tensor to `self.__data` stores -/
def Store.ofStack (s : Stack β) : Store (Stack β) := .init s.dt s.oshape s

/-- dtype of `torch.cat` / arithmetic over the two modelled classes: integer only if both are -/
def promote (a b : DType) : DType := a && b

/-- Python slice bound on a sequence of length `len` -/
def pyBound (len : Nat) (i : Int) : Nat := if i < 0 then ((len : Int) + i).toNat else min i.toNat len

/-- Python index on a sequence of length `len` (`none` = IndexError) -/
def pyIndex (len : Nat) (i : Int) : Option Nat :=
  if 0 ≤ i ∧ i < len then some i.toNat
  else if i < 0 ∧ -(len : Int) ≤ i then some ((len : Int) + i).toNat
  else none

/-- `t[slice(a, b), ...]` -/
def Stack.slice (s : Stack β) (a b : Option Int) : Stack β :=
  let lo := match a with | none => 0 | some a => pyBound s.rows.length a
  let hi := match b with | none => s.rows.length | some b => pyBound s.rows.length b
  { s with rows := (s.rows.take hi).drop lo }

/-- `t[i, ...]` -/
def Stack.rowE (s : Stack β) (i : Int) : Except Err (Obs β) :=
  match pyIndex s.rows.length i with
  | some k => match s.rows[k]? with
    | some r => .ok ⟨s.dt, s.oshape, r⟩
    | none => .error .IndexError
  | none => .error .IndexError

/-- `x.unsqueeze(0)` -/
def _root_.InfernoVerif.Ring.Obs.unsqueeze0 (x : Obs β) : Stack β := ⟨x.dt, x.shape, [x.vals]⟩

/-- `x.to(dtype=d)` -/
def _root_.InfernoVerif.Ring.Obs.to (E : Elem β) (x : Obs β) (d : DType) : Obs β := ⟨d, x.shape, x.vals.map (E.conv x.dt d)⟩

def Stack.to (E : Elem β) (s : Stack β) (d : DType) : Stack β :=
  ⟨d, s.oshape, s.rows.map (·.map (E.conv s.dt d))⟩

/-- rows of `s` as dtype `d` (no conversion when it already has that dtype) -/
def Stack.rowsAs (E : Elem β) (s : Stack β) (d : DType) : List (List β) :=
  if s.dt = d then s.rows else (s.to E d).rows

/-- `torch.cat(parts, 0)`: result dtype by promotion, parts of another dtype converted to it -/
def cat (E : Elem β) : List (Stack β) → Stack β
  | [] => ⟨true, [], []⟩
  | p :: ps =>
    let d := (p :: ps).foldl (fun a q => promote a q.dt) true
    ⟨d, p.oshape, ((p :: ps).map fun q => q.rowsAs E d).flatten⟩

/-- `t[i, ...] = x` (in place; a value of another dtype is converted to `t`'s dtype) -/
def Stack.setRowE (E : Elem β) (s : Stack β) (i : Int) (x : Obs β) : Except Err (Stack β) :=
  match pyIndex s.rows.length i with
  | some k => .ok { s with rows := s.rows.set k (if x.dt = s.dt then x.vals else x.vals.map (E.conv x.dt s.dt)) }
  | none => .error .IndexError

/-- `t[idx, ...] = x` for a 1-D index tensor (in place, distinct indices) -/
def Stack.indexPutE (E : Elem β) (s : Stack β) (idx : List Int) (x : Stack β) : Except Err (Stack β) :=
  (idx.zip x.rows).foldlM (fun (acc : Stack β) ir => acc.setRowE E ir.1 ⟨x.dt, x.oshape, ir.2⟩) s

/-- `t.roll(k, 0)` -/
def Stack.roll (s : Stack β) (k : Int) : Stack β := { s with rows := Ring.roll s.rows k }

/-- `t.fill_(v)` (a Python float, converted to `t`'s dtype) -/
def Stack.fill (E : Elem β) (s : Stack β) (v : β) : Stack β :=
  { s with rows := List.replicate s.rows.length (List.replicate (prod s.oshape) (E.conv false s.dt v)) }

/-- `torch.arange(a, b)` -/
def arange (a b : Int) : List Int := (List.range (b - a).toNat).map fun (k : Nat) => a + (k : Int)

/-- `off.unsqueeze(-1) - ar` followed by `"... t -> t ..."`: row `j` holds `off[pos] - ar[j]` -/
def subLast (off : List Int) (ar : List Int) : List (List Int) := ar.map fun a => off.map (· - a)

/-- all entries present, or nothing -/
def allSome {α : Type} : List (Option α) → Option (List α)
  | [] => some []
  | none :: _ => none
  | some a :: l => (allSome l).map (a :: ·)

/-- element `idx[j][pos]` of the leading axis, at trailing position `pos` (`none`: out of range) -/
def Stack.gatherOpt (s : Stack β) (idx : List (List Int)) : List (List (Option β)) :=
  idx.map fun irow => irow.zipIdx.map fun ip =>
    (pyIndex s.rows.length ip.1).bind fun k => (s.rows[k]?).bind (·[ip.2]?)

/-- `torch.gather(t, 0, idx)` with `idx` time-major (IndexError when any index is out of range) -/
def Stack.gather0E (s : Stack β) (idx : List (List Int)) : Except Err (Stack β) :=
  match allSome ((s.gatherOpt idx).map allSome) with
  | some rows => .ok { s with rows := rows }
  | none => .error .IndexError

/-- one `scatter` write: `t[i][pos] = v` (`none`: out of range) -/
def scatter1 (d : List (List β)) (i : Int) (pos : Nat) (v : β) : Option (List (List β)) :=
  (pyIndex d.length i).map fun k => d.modify k (·.set pos v)

/-- `torch.scatter(t, 0, idx, src)` / `t.scatter_(0, idx, src)` with `idx`, `src` time-major -/
def Stack.scatter0E (s : Stack β) (idx : List (List Int)) (src : Stack β) : Except Err (Stack β) :=
  match (idx.zip src.rows).foldlM (fun (d : List (List β)) ir =>
      (ir.1.zip ir.2).zipIdx.foldlM (fun (d : List (List β)) ivp => scatter1 d ivp.1.1 ivp.2 ivp.1.2) d) s.rows with
  | some rows => .ok { s with rows := rows }
  | none => .error .IndexError

/-- `argtest.index(name, value, length)` (`inferno/_internal/argtest.py`): in `[-length, length)` or ValueError -/
def argIndex (value length : Int) : Except Err Int :=
  if -length ≤ value ∧ value < length then .ok value else .error .ValueError

/-- `offset + k` for either kind of offset -/
def Off.add (o : Off) (k : Int) : Off :=
  match o with
  | .int i => .int (i + k)
  | .ten sh vs => .ten sh (vs.map (· + k))

end InfernoVerif.Gen.Prog
