import InfernoVerif.Gen.RecordProg
/-!
Vocabulary of the statement-level translator `harness/progtx_config.py` (hand written, core Lean only).

`progtx_config.py` regenerates, on every run, the whole bodies of the configuration plumbing of
* `inferno/neural/mixins.py`: `BatchMixin.__init__` / `add_batched` / `batchsz` (getter, setter),
  `DelayedMixin.__init__` / `add_delayed` / `dt` / `delay` (getters, setters);
* `inferno/observe/reducers/base.py`: `RecordReducer.__init__` / `add_record` / `dt` / `duration` / `inplace`;
* `inferno/neural/base.py`: `InfernoNeuron.batchsz`, `InfernoSynapse.dt` / `delay` / `inplace`,
  `Connection.synapse` / `batchsz` / `dt` (getters, setters) and `Connection.delayedby`
as programs (`Gen/ConfigProg.lean`) over the two worlds below.  An exception carries the state at the raise
(Python keeps the assignments made before a `raise`): the programs live in `Except (Err × state) _`.

What the programs act on:
* `Obj τ` — ONE module object (a synapse, a neuron, a reducer): the private fields of the translated classes under
  their mangled names (`self.__batch_size` inside `BatchMixin` is `_BatchMixin__batch_size`, here
  `BatchMixin__batch_size`; the two `__constrained` sets of `BatchMixin` and `DelayedMixin` are different
  attributes), and the attribute heap `attrs` that `hasattr` / `getattr(self, name)` read: every attribute is a
  `RecordTensor` (its private state `RecT`, `Gen/RecordPrelude.lean`), a plain `ShapedTensor` (`Shaped.ShState`,
  `Model/Shaped.lean`) or some other object.  A class that does not inherit a mixin never reads that mixin's fields.
* `ConnW τ` — a `Connection`: its registered submodules (`torch.nn.Module.__setattr__` puts a `Module` value into
  `_modules`, `__getattr__` reads it from there) and whether the abstract property `delay` is not `None`.

Python `set`s of attribute names (`__constrained`, `__records`) are lists without duplicates in ITERATION ORDER
(`set_add`); CPython's iteration order of a set is arbitrary, so the order of this list is an assumption of the
world, not of the programs (the setters treat every element alike).

Methods of attribute objects are NOT re-translated: `getattr(self, a).dt = v` etc. dispatch on the class of the
object (`Attr_set_dt`, …) to the already regenerated programs of `Gen/RecordProg.lean`; on a plain `ShapedTensor`
`reconstrain` is `Shaped.shStep`.  `attrCall` / `moduleCall` run a method on a sub-object and write the sub-object
back, also when it raises.  Times are of an abstract type `τ` (`Record.TimeOps`), `Ctx` bundles everything a
program is parameterised by, including the subclass's `clear()`.
-/
set_option linter.unusedVariables false
namespace InfernoVerif.Gen.ConfigPrelude
open InfernoVerif.Ring InfernoVerif.Shaped InfernoVerif.Gen.Prog InfernoVerif.Gen.RecordPrelude
open InfernoVerif.Record (TimeOps)

/-- an attribute of a module object, by the class `isinstance` sees -/
inductive Attr (τ : Type) where
  | record (r : RecT τ)        -- a `RecordTensor` (a subclass of `ShapedTensor`)
  | shaped (s : ShState)      -- a `ShapedTensor` that is not a `RecordTensor`
  | other                     -- anything else (a tensor, a number, a module): no `reconstrain`, no `__name__`
deriving Repr

/-- a module object: private fields of the translated classes (mangled names) and the attribute heap -/
structure Obj (τ : Type) where
  BatchMixin__batch_size      : Int            -- `_BatchMixin__batch_size`
  BatchMixin__constrained     : List String    -- `_BatchMixin__constrained` (a `set`)
  DelayedMixin__step_time     : τ              -- `_DelayedMixin__step_time`
  DelayedMixin__delay         : τ              -- `_DelayedMixin__delay`
  DelayedMixin__constrained   : List String    -- `_DelayedMixin__constrained` (a `set`)
  InfernoSynapse__inplace     : Bool           -- `_InfernoSynapse__inplace`
  RecordReducer__step_time    : τ              -- `_RecordReducer__step_time`
  RecordReducer__duration     : τ              -- `_RecordReducer__duration`
  RecordReducer__inclusive    : Bool           -- `_RecordReducer__inclusive`
  RecordReducer__inplace      : Bool           -- `_RecordReducer__inplace`
  RecordReducer__records      : List String    -- `_RecordReducer__records` (a `set`)
  attrs                       : List (String × Attr τ)
deriving Repr

/-- a `Connection`: `_modules` and "`self.delay` (abstract property) is not `None`" -/
structure ConnW (τ : Type) where
  modules       : List (String × Obj τ)
  delay_present : Bool
deriving Repr

/-- what a generated program is parameterised by: the time operations, the element operations of the records,
arithmetic on times (the unchanged source uses none; a source that computes with times keeps the operation
visible), and the `clear()` of the concrete subclass (`InfernoSynapse.clear` / `InfernoNeuron.clear` are abstract) -/
structure Ctx (τ : Type) where
  T     : TimeOps τ
  E     : Elem Int
  add   : τ → τ → τ
  sub   : τ → τ → τ
  mul   : τ → τ → τ
  clear : Obj τ → Except (Err × Obj τ) (Obj τ × Unit)

variable {τ α σ : Type}

/-- a failing primitive raises in state `self`: the exception carries the state reached so far -/
def raising (self : σ) : Except Err α → Except (Err × σ) α
  | .ok a => .ok a
  | .error e => .error (e, self)

/-- `argtest.gt(name, value, 0, float)` -/
def argtest_gt_time (T : TimeOps τ) (value : τ) : Except Err τ := RecordPrelude.argtest_gt T value

/-- `argtest.gte(name, value, 0, float)` -/
def argtest_gte_time (T : TimeOps τ) (value : τ) : Except Err τ := RecordPrelude.argtest_gte T value

/-- `argtest.gt(name, value, 0, int)` on a Python int: the value, or ValueError unless it is positive -/
def argtest_gt_int (value : Int) : Except Err Int :=
  if 0 < value then .ok value else .error .ValueError

/-- `argtest.gte(name, value, 0, int)` on a Python int -/
def argtest_gte_int (value : Int) : Except Err Int :=
  if 0 ≤ value then .ok value else .error .ValueError

/-- `set()` -/
def set_new : List String := []

/-- `s.add(a)` -/
def set_add (s : List String) (a : String) : List String := if a ∈ s then s else s ++ [a]

/-- `hasattr(self, a)` -/
def hasattr (self : Obj τ) (a : String) : Bool := (self.attrs.lookup a).isSome

/-- `getattr(self, a)` -/
def getattr (self : Obj τ) (a : String) : Except Err (Attr τ) :=
  match self.attrs.lookup a with
  | some x => .ok x
  | none => .error .AttributeError

/-- `isinstance(x, ShapedTensor)` -/
def isShapedTensor : Attr τ → Bool
  | .record _ => true
  | .shaped _ => true
  | .other => false

/-- `isinstance(x, RecordTensor)` -/
def isRecordTensor : Attr τ → Bool
  | .record _ => true
  | _ => false

/-- `x.__name__` on an INSTANCE (the error messages of `add_batched` / `add_delayed` / `add_record` evaluate
`type(getattr(self, a).__name__)`): none of the modelled objects has that attribute -/
def dunder_name (x : Attr τ) : Except Err String := .error .AttributeError

/-- replace the object stored under `a` -/
def putAttr (attrs : List (String × Attr τ)) (a : String) (x : Attr τ) : List (String × Attr τ) :=
  attrs.map fun p => if p.1 = a then (p.1, x) else p

/-- `getattr(self, a).<method>(…)` / `getattr(self, a).<property> = …`: the method runs on the attribute object,
which is written back also when the method raises (objects are references) -/
def attrCall (self : Obj τ) (a : String) (m : Attr τ → Except (Err × Attr τ) (Attr τ × α)) :
    Except (Err × Obj τ) (Obj τ × α) :=
  match self.attrs.lookup a with
  | none => .error (.AttributeError, self)
  | some x =>
    match m x with
    | .ok (x', r) => .ok ({ self with attrs := putAttr self.attrs a x' }, r)
    | .error (e, x') => .error (e, { self with attrs := putAttr self.attrs a x' })

/-- a program of a `RecordTensor` run on an attribute known to be one -/
def onRec (r : RecT τ) (p : Except (Err × RecT τ) (RecT τ × α)) : Except (Err × Attr τ) (Attr τ × Unit) :=
  match p with
  | .ok (r', _) => .ok (.record r', ())
  | .error (e, r') => .error (e, .record r')

/-- `ShapedTensor.reconstrain(dim, size)` on a plain `ShapedTensor` (`Model/Shaped.lean :: shStep`) -/
def ShapedTensor_reconstrain_plain (s : ShState) (dim : Int) (size : Option Int) :
    Except (Err × Attr τ) (Attr τ × Unit) :=
  match shStep s (.recon dim size) with
  | (s', .unit) => .ok (.shaped s', ())
  | (s', .err e) => .error (e, .shaped s')
  | (s', .unsupported) => .error (.Other, .shaped s')

/-- `x.reconstrain(dim, size)` by the class of `x`: the regenerated `RecordTensor.reconstrain`
(`Gen/RecordProg.lean`), `ShapedTensor.reconstrain`, or no such method -/
def Attr_reconstrain (C : Ctx τ) (x : Attr τ) (dim : Int) (size : Option Int) :
    Except (Err × Attr τ) (Attr τ × Unit) :=
  match x with
  | .record r => onRec r (RecordProg.RecordTensor_reconstrain C.T C.E r dim size)
  | .shaped s => ShapedTensor_reconstrain_plain s dim size
  | .other => .error (.AttributeError, .other)

/-- `x.dt = value` by the class of `x`: the regenerated `dt` setter of a `RecordTensor`.  On a plain
`ShapedTensor` (no `__slots__`) the assignment creates an ordinary instance attribute: nothing modelled changes.
`other` objects are outside the modelled world (`Err.Other`). -/
def Attr_set_dt (C : Ctx τ) (x : Attr τ) (value : τ) : Except (Err × Attr τ) (Attr τ × Unit) :=
  match x with
  | .record r => onRec r (RecordProg.RecordTensor_set_dt C.T C.E r value)
  | .shaped s => .ok (.shaped s, ())
  | .other => .error (.Other, .other)

/-- `x.duration = value` by the class of `x` (see `Attr_set_dt`) -/
def Attr_set_duration (C : Ctx τ) (x : Attr τ) (value : τ) : Except (Err × Attr τ) (Attr τ × Unit) :=
  match x with
  | .record r => onRec r (RecordProg.RecordTensor_set_duration C.T C.E r value)
  | .shaped s => .ok (.shaped s, ())
  | .other => .error (.Other, .other)

/-- `x.inclusive = value` by the class of `x` (see `Attr_set_dt`) -/
def Attr_set_inclusive (C : Ctx τ) (x : Attr τ) (value : Bool) : Except (Err × Attr τ) (Attr τ × Unit) :=
  match x with
  | .record r => onRec r (RecordProg.RecordTensor_set_inclusive C.T C.E r value)
  | .shaped s => .ok (.shaped s, ())
  | .other => .error (.Other, .other)

/-- `self.<name>` for a registered submodule (`torch.nn.Module.__getattr__`): a reference to it (its key in
`_modules`), `AttributeError` when there is none -/
def Module_getattr (self : ConnW τ) (name : String) : Except Err String :=
  if (self.modules.lookup name).isSome then .ok name else .error .AttributeError

/-- `self.<name> = value` for a `Module` value (`torch.nn.Module.__setattr__`): `_modules[name] = value`
(an existing key keeps its position) -/
def Module_setattr (self : ConnW τ) (name : String) (value : Obj τ) : ConnW τ :=
  { self with modules :=
      if (self.modules.lookup name).isSome then self.modules.map fun p => if p.1 = name then (p.1, value) else p
      else self.modules ++ [(name, value)] }

/-- a method / property of the submodule referred to by `ref`, run on it and written back (also on a raise) -/
def moduleCall (self : ConnW τ) (ref : String) (m : Obj τ → Except (Err × Obj τ) (Obj τ × α)) :
    Except (Err × ConnW τ) (ConnW τ × α) :=
  match self.modules.lookup ref with
  | none => .error (.AttributeError, self)
  | some o =>
    match m o with
    | .ok (o', r) => .ok ({ self with modules := self.modules.map fun p => if p.1 = ref then (p.1, o') else p }, r)
    | .error (e, o') =>
      .error (e, { self with modules := self.modules.map fun p => if p.1 = ref then (p.1, o') else p })

end InfernoVerif.Gen.ConfigPrelude
