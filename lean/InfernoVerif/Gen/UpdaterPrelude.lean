import InfernoVerif.Model.Updater
/-!
Vocabulary of the statement-level translator `harness/progtx_updater.py` (hand written, core Lean only).

`progtx_updater.py` regenerates whole method bodies of `Accumulator`, `Updater` and `Updatable`
(`inferno/neural/modeling.py`) on every run as programs over the private states `AccS` / `UpdS` / `ModS`
below (`Gen/UpdaterProg.lean`).  Every Python / torch primitive the bodies use is a function of this
file named after the primitive; each is TOTAL and fails with the exception class the real primitive
raises instead of defaulting.

Numbers / tensors.  As in `Model/Updater.lean` everything acts element-wise, so a tensor is the scalar
`α` of one tensor position, `nn.ParameterList` is the `List α` of its entries, and
`reduce(torch.stack(parts, 0), 0)` is a function `List α → α` of the parts (`Reduce α`).

Exceptions keep the state.  A Python method that raises leaves every mutation made before the `raise`
in place (e.g. `Accumulator.update` fills the `functools.cache` cells and then the bounding function
raises `TypeError`; `Updater.forward` has assigned the first parameters when a later one fails).  A
method body is therefore a `Prog σ ρ = Except (Err × σ) (σ × ρ)`: the error side carries the state *at
the raise point*.  Plain primitives return `Except Err _`; `raiseWith self` attaches the current state.

Callables.  `reduce`, the half bounding functions and the closures built by `upperbound` /
`lowerbound` are total functions (as in the model); a full bounding function may raise (`Full α`
returns `Except Err α`; the stock ones raise `TypeError` on `max - min` with a `None` limit).
`IndexError` is not a class of `Updater.Err`; it is reported as `Err.Other` ("any other class").
-/
set_option linter.unusedVariables false
namespace InfernoVerif.Gen.UpdProg
open InfernoVerif.Updater

/-- a method body: final state and return value, or the exception class and the state at the raise point -/
abbrev Prog (σ ρ : Type) := Except (Err × σ) (σ × ρ)

/-- `fn(torch.stack(parts, 0), 0)` at one tensor position -/
abbrev Reduce (α : Type) := List α → α
/-- a callable `(x, p)` / `(x, n)` -/
abbrev Half (α : Type) := α → α → α
/-- a callable `(x, p, n)`; may raise -/
abbrev Full (α : Type) := α → α → α → Except Err α
/-- `HalfBounding`: `bound(param, update, limit, **kwargs)` (`κ`: the keyword arguments) -/
abbrev HalfBounding (α κ : Type) := α → α → Option α → κ → α
/-- `FullBounding`: `bound(param, pos, neg, max, min, **kwargs)` -/
abbrev FullBounding (α κ : Type) := α → α → α → Option α → Option α → κ → Except Err α

/-- the Python value held by `Accumulator.bind`: a callable `(x, p, n)` or a `list` of callables -/
inductive BindV (α : Type) where
  | fn (f : Full α)
  | list (l : List (Half α))

/-- the instance state of an `Accumulator` that the translated methods read and write -/
structure AccS (α : Type) where
  /-- `self._pos` (`nn.ParameterList`) -/
  _pos : List α
  /-- `self._neg` -/
  _neg : List α
  /-- `self.reduce` -/
  reduce : Reduce α
  /-- `self.bind` -/
  bind : BindV α
  /-- memo cell of `self._pos_cache = functools.cache(calc_pos)` (`none`: empty; `some v`: cached return value) -/
  _pos_cache : Option (Option α)
  /-- memo cell of `self._neg_cache` -/
  _neg_cache : Option (Option α)

/-- the instance state of an `Updater`: the `nn.ModuleDict` of accumulators (insertion ordered) and the
weak reference to the parent module, seen as the referent's attribute table (`none`: dead reference) -/
structure UpdS (α : Type) where
  updates_ : List (String × AccS α)
  _parent_module : Option (List (String × α))

/-- an `Updatable` module: its tensor attributes and `self.updater_`.  The updater stored here is the one
constructed *for this module* (`m.updater = Updater(m, …)`, as in `Model/Updater.lean`), so its weak
reference designates this very object: only its accumulators are kept. -/
structure ModS (α : Type) where
  attrs : List (String × α)
  updater_ : Option (List (String × AccS α))

section
variable {α κ σ τ ρ υ : Type}

/-! ### exceptions with state -/

/-- attach the current state to the exception of a plain primitive -/
def raiseWith (self : σ) : Except Err υ → Except (Err × σ) υ
  | .ok v => .ok v
  | .error e => .error (e, self)

/-- forget the state of an exception (inside a constructor: no object exists after a raise) -/
def dropState : Except (Err × σ) υ → Except Err υ
  | .ok v => .ok v
  | .error e => .error e.1

/-- a method call on a sub-object `sub` of `self` (Python objects are references: the callee mutates the
sub-object in place — also when it raises); `embed` puts the sub-object's new state back into `self` -/
def subCall (self : σ) (embed : σ → τ → σ) (r : Prog τ ρ) : Prog σ ρ :=
  match r with
  | .ok (t, v) => .ok (embed self t, v)
  | .error (e, t) => .error (e, embed self t)

/-! ### `functools.cache` of a zero-argument closure over `self` -/

/-- `functools.cache(f)`: a fresh, empty memo cell -/
def functoolsCache : Option ρ := none

/-- `cached_f.cache_clear()` -/
def cacheClear : Option ρ := none

/-- calling the cached closure: the cell's value if filled, else run `f`, store what it returns
(an exception is not cached) -/
def cached (cell : σ → Option ρ) (setCell : σ → Option ρ → σ) (f : σ → Prog σ ρ) (self : σ) : Prog σ ρ :=
  match cell self with
  | some v => .ok (self, v)
  | none =>
    match f self with
    | .ok (s, v) => .ok (setCell s (some v), v)
    | .error e => .error e

/-! ### `nn.ParameterList`, `torch.stack`, reductions -/

/-- `nn.ParameterList()` -/
def nnParameterList : List α := []

/-- `plist.append(value)` -/
def plistAppend (l : List α) (v : α) : List α := l ++ [v]

/-- `torch.stack(parts, 0)` (seen at one tensor position) -/
structure Stacked (α : Type) where
  parts : List α

/-- `torch.stack([*parts], 0)`: `RuntimeError` on an empty list -/
def torchStack0 (l : List α) : Except Err (Stacked α) :=
  if l.isEmpty then .error .RuntimeError else .ok ⟨l⟩

/-- `reduce(x, 0)` -/
def callReduce0 (r : Reduce α) (x : Stacked α) : Except Err α := .ok (r x.parts)

/-- `torch.sum` (as a reduction `(x, dim)`) -/
def torchSum [Add α] [Zero α] : Reduce α := rsum

/-- `torch.zeros_like(t)` -/
def zerosLike [Zero α] (t : α) : α := 0

/-! ### the value of `self.bind` -/

/-- `isinstance(b, list)` -/
def isList : BindV α → Bool
  | .list _ => true
  | .fn _ => false

/-- `b[i]`: `TypeError` on a function ("not subscriptable"), `IndexError` (`Err.Other`) out of range -/
def getItem (b : BindV α) (i : Int) : Except Err (Half α) :=
  match b with
  | .fn _ => .error .TypeError
  | .list l =>
    if 0 ≤ i ∧ i < l.length then
      match l[i.toNat]? with
      | some f => .ok f
      | none => .error .Other
    else if i < 0 ∧ -(l.length : Int) ≤ i then
      match l[((l.length : Int) + i).toNat]? with
      | some f => .ok f
      | none => .error .Other
    else .error .Other

/-- `b[i] = f` (the list object is mutated): `TypeError` on a function, `IndexError` (`Err.Other`) out of range -/
def setItem (b : BindV α) (i : Int) (f : Half α) : Except Err (BindV α) :=
  match b with
  | .fn _ => .error .TypeError
  | .list l =>
    if 0 ≤ i ∧ i < l.length then .ok (.list (l.set i.toNat f))
    else if i < 0 ∧ -(l.length : Int) ≤ i then .ok (.list (l.set ((l.length : Int) + i).toNat f))
    else .error .Other

/-- `b(x, p, n)`: `TypeError` on a list ("not callable") -/
def callFull (b : BindV α) (x p n : α) : Except Err α :=
  match b with
  | .fn f => f x p n
  | .list _ => .error .TypeError

/-! ### dictionaries (`nn.ModuleDict`, attribute tables): insertion-ordered association lists with unique keys -/

/-- `d[k]`: `KeyError` -/
def dictGetItem (d : List (String × υ)) (k : String) : Except Err υ :=
  match alookup d k with
  | some v => .ok v
  | none => .error .KeyError

/-- `d[k] = v`: replace in place, or append a new key -/
def dictSetItem (d : List (String × υ)) (k : String) (v : υ) : List (String × υ) :=
  if (alookup d k).isSome then aset d k v else d ++ [(k, v)]

/-- `d.keys()` -/
def dictKeys (d : List (String × υ)) : List String := d.map (·.1)

/-- `{k: f(k) for k in keys}` -/
def dictComp (keys : List String) (f : String → String × υ) : List (String × υ) :=
  keys.foldl (fun d k => dictSetItem d (f k).1 (f k).2) []

/-- `nn.ModuleDict(d)` -/
def nnModuleDict (d : List (String × υ)) : List (String × υ) := d

/-- `for v in d.values(): <body mutating v>` where `d` is the dictionary `get self`: the value objects
are visited in order and mutated in place; an exception stops the loop, earlier mutations stay -/
def forValuesAux (body : τ → Except (Err × τ) τ) :
    List (String × τ) → Except (Err × List (String × τ)) (List (String × τ))
  | [] => .ok []
  | (k, v) :: t =>
    match body v with
    | .error (e, v') => .error (e, (k, v') :: t)
    | .ok v' =>
      match forValuesAux body t with
      | .ok t' => .ok ((k, v') :: t')
      | .error (e, t') => .error (e, (k, v') :: t')

def forValues (self : σ) (get : σ → List (String × τ)) (set : σ → List (String × τ) → σ)
    (body : τ → Except (Err × τ) τ) : Except (Err × σ) σ :=
  match forValuesAux body (get self) with
  | .ok d => .ok (set self d)
  | .error (e, d) => .error (e, set self d)

/-- `for x in xs: <body>` threading the state; an exception stops the loop -/
def forEach (xs : List υ) (self : σ) (body : σ → υ → Except (Err × σ) σ) : Except (Err × σ) σ :=
  match xs with
  | [] => .ok self
  | x :: t =>
    match body self x with
    | .ok s => forEach t s body
    | .error e => .error e

/-! ### the parent module behind the weak reference -/

/-- `weakref.ref(module)` -/
def weakrefRef (module : List (String × α)) : Option (List (String × α)) := some module

/-- `getattr(module, p)` through a strong reference obtained from the weak one: `AttributeError`.
(`none` cannot occur while the strong reference is held; reported as `Err.Other`.) -/
def refGetattr (r : Option (List (String × α))) (p : String) : Except Err α :=
  match r with
  | some m =>
    match alookup m p with
    | some x => .ok x
    | none => .error .AttributeError
  | none => .error .Other

/-- `setattr(module, p, v)` through the strong reference -/
def refSetattr (r : Option (List (String × α))) (p : String) (v : α) : Option (List (String × α)) :=
  r.map fun m => dictSetItem m p v

/-- `getattr(updater, p)`: the class created by `Updater.__init__` (`self.__class__ = type(…)`) has one
property per key of `updates_`, whose getter `_getacc_` returns `self.updates_[attr]`; any other name is an
`AttributeError`.  (This dynamic-class machinery is modelled here, not regenerated.) -/
def dynGetattr (d : List (String × υ)) (p : String) : Except Err υ :=
  match alookup d p with
  | some v => .ok v
  | none => .error .AttributeError

/-- a method of the module's updater reached through the reference `ref` just read from `self.updater`
(`none`: `onNone`, i.e. `TypeError` for a call of `None`, `AttributeError` for an attribute of `None`).  The
updater's weak reference designates this module, so the program `f` runs on the view
`⟨accumulators, some self.attrs⟩` and both components are written back — also when it raises. -/
def updaterCall (self : ModS α) (ref : Option (List (String × AccS α))) (onNone : Err)
    (f : UpdS α → Except (Err × UpdS α) (UpdS α × ρ)) : Except (Err × ModS α) (ModS α × ρ) :=
  let wb (s : UpdS α) : ModS α :=
    { attrs := (match s._parent_module with | some a => a | none => self.attrs), updater_ := some s.updates_ }
  match ref with
  | none => .error (onNone, self)
  | some u =>
    match f ⟨u, some self.attrs⟩ with
    | .ok (s, v) => .ok (wb s, v)
    | .error (e, s) => .error (e, wb s)

/-- `argtest.members(name, obj, *attr)`: `RuntimeError` unless `obj` has every attribute -/
def argtestMembers (obj : List (String × α)) (attr : List String) : Except Err Unit :=
  if attr.all (fun a => (alookup obj a).isSome) then .ok () else .error .RuntimeError

end

end InfernoVerif.Gen.UpdProg
