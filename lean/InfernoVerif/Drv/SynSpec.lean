import InfernoVerif.Model.Synapse
/-
Specification side shared by the C04 and C06 drivers (core Lean only, `Float`): the synapse's
documented behaviour computed INDEPENDENTLY of the code-shaped model — closed-form
impulse-response sums over the whole input history (no ring, no recurrence) and reads
"k steps ago" as plain list lookups with zero before the start / last `clear`.
-/
namespace InfernoVerif.SynSpec
open InfernoVerif.Select InfernoVerif.Synapse

abbrev F := Float

/-- Specification state: everything since construction / the last `clear`, newest first. -/
structure Spec where
  xs : List F := []          -- raw `inputs[0]`, newest first
  cur : List F := []         -- closed-form current after each step (delta, delta-plus, single exp.: the current;
                             -- double exp.: the decay component)
  neg : List F := []         -- double exp.: the rise component
  spk : List Bool := []

def parseKind? : String → Option Kind
  | "delta" => some .delta | "deltaplus" => some .deltaPlus
  | "singleexp" => some .singleExp | "doubleexp" => some .doubleExp | _ => none

def parseMode? : String → Option Mode
  | "P" => some .previous | "N" => some .nearest | _ => none

/-! ## specification side -/

/-- `Σ_{k ≤ n} x_k · amp · exp(-((n-k)·dt)/tc)`; `xs` newest first, so age = list index. -/
def impulseSum (dt tc amp : F) (xs : List F) : F :=
  xs.zipIdx.foldl (fun acc xa => acc + xa.1 * amp * Float.exp (-(Float.ofNat xa.2 * dt) / tc)) 0.0

def specStep (c : Cfg F) (s : Spec) (x : F) (inj : List F) : Spec × F × Bool :=
  let xs := x :: s.xs
  let sp := x != 0.0
  match c.kind with
  | .delta =>
    let i := if sp then c.Q / c.dt else 0.0
    ({ s with xs := xs, cur := i :: s.cur, spk := sp :: s.spk }, i, sp)
  | .deltaPlus =>
    let i := (if sp then c.Q / c.dt else 0.0) + inj.foldl (· + ·) 0.0
    ({ s with xs := xs, cur := i :: s.cur, spk := sp :: s.spk }, i, sp)
  | .singleExp =>
    let i := impulseSum c.dt c.tau (c.Q / c.tau) xs
    ({ s with xs := xs, cur := i :: s.cur, spk := sp :: s.spk }, i, sp)
  | .doubleExp =>
    let amp := c.Q / (c.tau - c.tauR)
    let p := impulseSum c.dt c.tau amp xs
    let q := impulseSum c.dt c.tauR amp xs
    ({ xs := xs, cur := p :: s.cur, neg := q :: s.neg, spk := sp :: s.spk }, p - q, sp)

/-- value `k` steps ago, `z` before the start -/
def ago {β : Type} (h : List β) (z : β) (k : Int) : β := if k < 0 then z else h.getD k.toNat z

/-- The property's reading of a time-indexed query on a history `h` (newest first): within
tolerance of `k·dt` ⇒ the value `k` steps ago; otherwise the synapse's interpolation rule applied
to the two bracketing steps (older, newer, time elapsed since the older one). -/
def valueAt {β : Type} (c : Cfg F) (h : List β) (z : β) (rule : β → β → F → β) (t : F) : β :=
  let k := floatRound (t / c.dt)
  if Float.abs (Float.ofInt k * c.dt - t) ≤ c.tol then ago h z k
  else
    let kc := (Float.ceil (t / c.dt)).toInt64.toInt
    let kf := (Float.floor (t / c.dt)).toInt64.toInt
    rule (ago h z kc) (ago h z kf) (Float.ofInt kc * c.dt - t)

/-- beyond the supported range: the configured out-of-bounds value, or the value at the limit -/
def beyond {β : Type} (c : Cfg F) (over : Option β) (sel : F) (inside : F → β) : β :=
  let b := if sel < 0.0 then 0.0 else if sel > c.delay then c.delay else sel
  match over with
  | some o => if Float.abs (sel - b) > c.tol then o else inside b
  | none => inside b

def ruleMode {β : Type} (c : Cfg F) : β → β → F → β := fun older newer elapsed =>
  match c.mode with
  | .previous => older
  | .nearest => if elapsed / c.dt > 0.5 then newer else older

def specAt (c : Cfg F) (s : Spec) (sel : F) : F × Bool :=
  let spk := beyond c c.spkOver sel (valueAt c s.spk false (ruleMode c))
  let cur := match c.kind with
    | .delta | .deltaPlus => beyond c c.curOver sel (valueAt c s.cur 0.0 (ruleMode c))
    | .singleExp =>
      beyond c c.curOver sel (valueAt c s.cur 0.0 fun older _ e => older * Float.exp (-e / c.tau))
    | .doubleExp =>
      beyond c c.curOver sel fun t =>
        valueAt c s.cur 0.0 (fun older _ e => older * Float.exp (-e / c.tau)) t
        - valueAt c s.neg 0.0 (fun older _ e => older * Float.exp (-e / c.tauR)) t
  (cur, spk)

end InfernoVerif.SynSpec
