/-
Shared helpers for the line-protocol drivers (core Lean only).
Run a driver with `lake env lean --run drivers/Cxx.lean < ops.txt`.
-/
namespace Proto

def parseInt? (s : String) : Option Int := s.toInt?
def parseNat? (s : String) : Option Nat := s.toNat?
def parseBool? (s : String) : Option Bool :=
  if s = "T" then some true else if s = "F" then some false else none

def splitNonEmpty (s : String) (sep : String) : List String :=
  (s.splitOn sep).filter (· ≠ "")

/-- `2x3` → `[2,3]`; `s` → `[]`. -/
def parseShape? (s : String) : Option (List Nat) :=
  if s = "s" then some [] else (s.splitOn "x").mapM parseNat?

def parseInts? (s : String) : Option (List Int) :=
  if s = "" || s = "-" then some [] else (s.splitOn ",").mapM parseInt?

def showInts (l : List Int) : String := ",".intercalate (l.map toString)
def showShape (l : List Nat) : String := if l.isEmpty then "s" else "x".intercalate (l.map toString)

partial def loop {σ : Type} (h : IO.FS.Stream) (s : σ) (step : σ → String → σ × String) : IO Unit := do
  let line ← h.getLine
  if line.isEmpty then return ()
  let l := (line.dropRightWhile (fun c => c = '\n' || c = '\r'))
  if l.isEmpty then loop h s step else
  let (s', out) := step s l
  IO.println out
  loop h s' step

end Proto
