import InfernoVerif.Gen.NeuronDynamicsF
import InfernoVerif.Gen.NeuronAdaptationF
/-
Class wiring of the eight shipped neuron models (one element, batch size 1), hand written from
`inferno/neural/neurons/{linear,nonlinear}.py`, on top of the GENERATED Float kernels.
Tie: correspondence check `harness/corr/c03.py` (every step: spikes, voltage, refrac, adaptations).
-/
namespace InfernoVerif.NeuronF
open InfernoVerif.Gen.NeuronDynamicsF InfernoVerif.Gen.NeuronAdaptationF

inductive Kind | LIF | ALIF | GLIF1 | GLIF2 | QIF | Izhikevich | EIF | AdEx
deriving DecidableEq, Repr

structure Cfg where
  kind : Kind
  dt : Float
  rest : Float
  reset : Float          -- reset_v (constant-reset classes)
  thresh : Float         -- thresh_v / thresh_eq_v
  refracT : Float
  tau : Float            -- time_constant / tc_membrane
  R : Float
  a : Float := 0         -- crit_v (QIF, Izhikevich) / rheobase_v (EIF, AdEx)
  b : Float := 0         -- affinity / sharpness
  slope : Float := 0     -- GLIF2 reset_v_mul
  icpt : Float := 0      -- GLIF2 reset_v_add
  tcA : List Float := [] -- tc_adaptation (GLIF2: 1 / rc_adaptation, computed by the harness as the code does)
  vcA : List Float := [] -- adapt_vc_coupling
  incA : List Float := [] -- adapt_increment

structure St where
  v : Float
  r : Float
  adapt : List Float

def Cfg.init (c : Cfg) : St := ⟨c.rest, 0, c.tcA.map fun _ => 0⟩

/-- `_integrate_v` of each class (reads the neuron's CURRENT voltage). -/
def integrate (c : Cfg) (v : Float) (masked : Float) : Float :=
  match c.kind with
  | .LIF | .ALIF | .GLIF1 | .GLIF2 => voltage_integration_linear masked v c.dt c.tau c.rest c.R
  | .QIF | .Izhikevich => voltage_integration_quadratic masked v c.dt c.rest c.a c.b c.tau c.R
  | .EIF | .AdEx => voltage_integration_exponential masked v c.dt c.rest c.a c.b c.tau c.R

/-- `forward(inputs, adapt, refrac_lock)` -/
def step (c : Cfg) (lock adapt : Bool) (s : St) (I : Float) : St × Bool :=
  let vs := if lock then some s.v else none
  let thr := match c.kind with
    | .ALIF | .GLIF2 => apply_adaptive_thresholds c.thresh s.adapt
    | _ => c.thresh
  let inp := match c.kind with
    | .Izhikevich | .AdEx => apply_adaptive_currents I s.adapt
    | _ => I
  let (spk, v', r') := match c.kind with
    | .GLIF2 => voltage_thresholding_linear inp s.r (integrate c s.v) vs c.dt c.rest c.slope c.icpt thr c.refracT
    | _ => voltage_thresholding_constant inp s.r (integrate c s.v) vs c.dt c.reset thr c.refracT
  let rr := if lock then some r' else none
  let adapt' :=
    if adapt then
      match c.kind with
      | .ALIF | .GLIF2 => adaptive_thresholds_linear_spike s.adapt spk c.dt c.tcA c.incA rr
      | .Izhikevich | .AdEx => adaptive_currents_linear s.adapt v' spk c.dt c.rest c.tcA c.vcA c.incA rr
      | _ => s.adapt
    else s.adapt
  (⟨v', r', adapt'⟩, spk)

/-- `clear(keep_adaptations)` -/
def clear (c : Cfg) (keep : Bool) (s : St) : St :=
  ⟨c.rest, 0, if keep then s.adapt else s.adapt.map fun _ => 0⟩

end InfernoVerif.NeuronF
