/-
Model of `inferno/functional/bounding.py` (all 15 bounding functions) and of
`Accumulator`, `Updater`, `Updatable` in `inferno/neural/modeling.py`.  Core Lean only.

Numbers.  Every definition is written ONCE, polymorphic in the scalar type `α` over the
standard notation classes (`+ - * / ^ < max`), in the operation order of the Python source,
one Lean definition per Python function, same name, same argument order (keyword-only
arguments follow in their declaration order).  It is then *instantiated* three times:
at `ℝ` (theorems, `Props/C10.lean`; `^` is `Real.rpow`), at core `Rat` (exact execution in
the driver; the power families are not available there because `Rat` has no `^` with a
rational exponent) and at `Float` (IEEE double; `^` is C `pow`).  So the theorems are about
the very definitions the driver executes — there are no textual copies to keep in sync.

Tensors.  All of this code acts element-wise (`torch.stack(parts, 0)` + reduce over axis 0
combines the parts position by position; bounding, `+`, `-` are element-wise), so the model is
the scalar machine of one tensor position; the driver runs one copy per position.

Two machines over one `Op` alphabet:
* `step`  — code shaped: lists of parts, two cache cells, `reduce`, `bind` (a full bounding
  function or a list of two half functions), one function per Python method / branch;
* `sstep` — the specification of C10: no caches; `pos`/`neg` read as `reduce` of the current
  parts; apply sets `new = old + ub(reduce pos parts) − lb(reduce neg parts)` (an absent side
  contributes nothing; no parts at all: untouched).
`Props/C10.lean` proves `mabs (step m op).1 = (sstep (mabs m) op).1` with equal outputs for
every operation sequence.
-/
namespace InfernoVerif.Updater

/-- Exception classes the modelled code can raise. -/
inductive Err | TypeError | KeyError | AttributeError | RuntimeError | Other
deriving DecidableEq, Repr

/-! ## `inferno/functional/bounding.py` -/
section Bounding
variable {α : Type}

/-- `torch.heaviside(input, values)`: 0 below zero, 1 above, `values` at zero. -/
def heaviside [Zero α] [One α] [LT α] [DecidableLT α] (input values : α) : α :=
  if input < 0 then 0 else if 0 < input then 1 else values

/-- `bound_upper_power(param, update, limit, *, power)` -/
def bound_upper_power [Sub α] [Mul α] [HPow α α α] (param update limit power : α) : α :=
  ((limit - param) ^ power) * update

/-- `bound_lower_power(param, update, limit, *, power)` -/
def bound_lower_power [Sub α] [Mul α] [HPow α α α] (param update limit power : α) : α :=
  ((param - limit) ^ power) * update

/-- `bound_power(param, pos, neg, max, min, *, upper_power, lower_power)` -/
def bound_power [Sub α] [Mul α] [HPow α α α] (param pos neg : α) (max min : Option α)
    (upper_power lower_power : α) : Except Err α :=
  let pos := match max with
    | some mx => bound_upper_power param pos mx upper_power
    | none => pos
  let neg := match min with
    | some mn => bound_lower_power param neg mn lower_power
    | none => neg
  .ok (pos - neg)

/-- `bound_upper_scaled_power(param, update, limit, *, power, range)` -/
def bound_upper_scaled_power [Sub α] [Mul α] [Div α] [HPow α α α]
    (param update limit power range : α) : α :=
  (((limit - param) / range) ^ power) * update

/-- `bound_lower_scaled_power(param, update, limit, *, power, range)` -/
def bound_lower_scaled_power [Sub α] [Mul α] [Div α] [HPow α α α]
    (param update limit power range : α) : α :=
  (((param - limit) / range) ^ power) * update

/-- Python `max - min` on `float | None`: `TypeError` when either is `None`. -/
def optSub [Sub α] : Option α → Option α → Except Err α
  | some a, some b => .ok (a - b)
  | _, _ => .error .TypeError

/-- `bound_scaled_power(param, pos, neg, max, min, *, upper_power, lower_power)`;
`range=max - min` is evaluated inside each `if … is not None` branch. -/
def bound_scaled_power [Sub α] [Mul α] [Div α] [HPow α α α] (param pos neg : α)
    (max min : Option α) (upper_power lower_power : α) : Except Err α :=
  match (match max with
    | some mx => (optSub max min).map (bound_upper_scaled_power param pos mx upper_power)
    | none => .ok pos) with
  | .error e => .error e
  | .ok pos =>
    match (match min with
      | some mn => (optSub max min).map (bound_lower_scaled_power param neg mn lower_power)
      | none => .ok neg) with
    | .error e => .error e
    | .ok neg => .ok (pos - neg)

/-- `bound_upper_multiplicative(param, update, limit)` -/
def bound_upper_multiplicative [Sub α] [Mul α] (param update limit : α) : α :=
  (limit - param) * update

/-- `bound_lower_multiplicative(param, update, limit)` -/
def bound_lower_multiplicative [Sub α] [Mul α] (param update limit : α) : α :=
  (param - limit) * update

/-- `bound_multiplicative(param, pos, neg, max, min)` -/
def bound_multiplicative [Sub α] [Mul α] (param pos neg : α) (max min : Option α) :
    Except Err α :=
  let pos := match max with
    | some mx => bound_upper_multiplicative param pos mx
    | none => pos
  let neg := match min with
    | some mn => bound_lower_multiplicative param neg mn
    | none => neg
  .ok (pos - neg)

/-- `bound_upper_scaled_multiplicative(param, update, limit, range)` -/
def bound_upper_scaled_multiplicative [Sub α] [Mul α] [Div α] (param update limit range : α) : α :=
  (limit - param) / range * update

/-- `bound_lower_scaled_multiplicative(param, update, limit, range)` -/
def bound_lower_scaled_multiplicative [Sub α] [Mul α] [Div α] (param update limit range : α) : α :=
  (param - limit) / range * update

/-- `bound_scaled_multiplicative(param, pos, neg, max, min)` -/
def bound_scaled_multiplicative [Sub α] [Mul α] [Div α] (param pos neg : α)
    (max min : Option α) : Except Err α :=
  match (match max with
    | some mx => (optSub max min).map (bound_upper_scaled_multiplicative param pos mx)
    | none => .ok pos) with
  | .error e => .error e
  | .ok pos =>
    match (match min with
      | some mn => (optSub max min).map (bound_lower_scaled_multiplicative param neg mn)
      | none => .ok neg) with
    | .error e => .error e
    | .ok neg => .ok (pos - neg)

/-- `bound_upper_sharp(param, update, limit)`: `heaviside(diff, zeros(()))`, so Θ(0) = 0. -/
def bound_upper_sharp [Sub α] [Mul α] [Zero α] [One α] [LT α] [DecidableLT α]
    (param update limit : α) : α :=
  let diff := limit - param
  heaviside diff 0 * update

/-- `bound_lower_sharp(param, update, limit)` -/
def bound_lower_sharp [Sub α] [Mul α] [Zero α] [One α] [LT α] [DecidableLT α]
    (param update limit : α) : α :=
  let diff := param - limit
  heaviside diff 0 * update

/-- `bound_sharp(param, pos, neg, max, min)` -/
def bound_sharp [Sub α] [Mul α] [Zero α] [One α] [LT α] [DecidableLT α] (param pos neg : α)
    (max min : Option α) : Except Err α :=
  let pos := match max with
    | some mx => bound_upper_sharp param pos mx
    | none => pos
  let neg := match min with
    | some mn => bound_lower_sharp param neg mn
    | none => neg
  .ok (pos - neg)

end Bounding

/-! ## Reductions: `fn(torch.stack(parts, 0), 0)` on one tensor position -/
section Reductions
variable {α : Type}

/-- `torch.sum(x, 0)` (the default reduction). -/
def rsum [Add α] [Zero α] (l : List α) : α := l.foldl (· + ·) 0
/-- `torch.mean(x, 0)` -/
def rmean [Add α] [Zero α] [Div α] [NatCast α] (l : List α) : α := rsum l / (l.length : α)
/-- `torch.amax(x, 0)`; never called on an empty list (`if len(self._pos)`). -/
def rmax [Max α] [Zero α] : List α → α
  | [] => 0
  | x :: xs => xs.foldl max x
/-- `torch.amin(x, 0)` -/
def rmin [Min α] [Zero α] : List α → α
  | [] => 0
  | x :: xs => xs.foldl min x
/-- `lambda x, d: x.select(d, 0)` — an order-dependent custom reduction (first contribution). -/
def rfirst [Zero α] : List α → α
  | [] => 0
  | x :: _ => x
/-- `lambda x, d: x.select(d, -1)` — last contribution. -/
def rlast [Zero α] : List α → α
  | [] => 0
  | [x] => x
  | _ :: y :: ys => rlast (y :: ys)
/-- `lambda x, d: x.sum(d) * 0.5` (sent as `c = 1/2`). -/
def rscaledsum [Add α] [Zero α] [Mul α] (c : α) (l : List α) : α := rsum l * c

end Reductions

/-! ## `Accumulator` -/

/-- A full bounding function as `Accumulator.fullbound` stores it
(`lambda x, p, n, ub=max, lb=min, k=kwargs: bound(x, p, n, ub, lb, **k)`), bundled with the
decomposition the specification reads it as: `halves? = some (ub, lb)` when
`fn x p n = ub x p − lb x n` (soundness is a hypothesis of the theorems, discharged for the five
families in `Props/C10.lean`); `none` when the configuration makes `fn` raise (`max - min` with a
`None` limit).  `Accumulator.update` only ever uses `fn`. -/
structure FullBound (α : Type) where
  fn : α → α → α → Except Err α
  halves? : Option ((α → α → α) × (α → α → α))

/-- `self.bind`: a callable `(x, p, n)` or a list of two callables `[(x, p), (x, n)]`. -/
inductive Bind (α : Type) where
  | full (b : FullBound α)
  | halves (upper lower : α → α → α)

structure Accumulator (α : Type) where
  /-- `_pos`, `_neg`: pending parts in order of contribution -/
  pos : List α
  neg : List α
  /-- `functools.cache` cells of `calc_pos` / `calc_neg`: `none` = empty cache, `some v` = the
  cached return value (`v = none` is a cached Python `None`). -/
  posCache : Option (Option α)
  negCache : Option (Option α)
  reduce : List α → α
  bind : Bind α

section Acc
variable {α : Type}

/-- `calc_pos` / `calc_neg`: `reduce(stack(parts), 0)` if there are parts, else `None`. -/
def calcParts (reduce : List α → α) (parts : List α) : Option α :=
  if parts.isEmpty then none else some (reduce parts)

/-- `lambda x, p, n: p - n` -/
def FullBound.unbounded [Sub α] : FullBound α :=
  ⟨fun _ p n => .ok (p - n), some (fun _ p => p, fun _ n => n)⟩

/-- `Accumulator.__init__` -/
def Accumulator.new [Add α] [Sub α] [Zero α] : Accumulator α :=
  { pos := [], neg := [], posCache := none, negCache := none, reduce := rsum,
    bind := .full FullBound.unbounded }

/-- `pos` getter: `self._pos_cache()` -/
def Accumulator.getPos (a : Accumulator α) : Accumulator α × Option α :=
  match a.posCache with
  | some v => (a, v)
  | none => let v := calcParts a.reduce a.pos; ({ a with posCache := some v }, v)

/-- `pos` setter: append and `cache_clear()` unless the value is `None`. -/
def Accumulator.setPos (a : Accumulator α) : Option α → Accumulator α
  | none => a
  | some v => { a with pos := a.pos ++ [v], posCache := none }

/-- `pos` deleter -/
def Accumulator.delPos (a : Accumulator α) : Accumulator α :=
  { a with pos := [], posCache := none }

def Accumulator.getNeg (a : Accumulator α) : Accumulator α × Option α :=
  match a.negCache with
  | some v => (a, v)
  | none => let v := calcParts a.reduce a.neg; ({ a with negCache := some v }, v)

def Accumulator.setNeg (a : Accumulator α) : Option α → Accumulator α
  | none => a
  | some v => { a with neg := a.neg ++ [v], negCache := none }

def Accumulator.delNeg (a : Accumulator α) : Accumulator α :=
  { a with neg := [], negCache := none }

/-- `reduction(fn)`: `fn` or `torch.sum`; both caches are cleared. -/
def Accumulator.reduction [Add α] [Zero α] (a : Accumulator α) (fn : Option (List α → α)) :
    Accumulator α :=
  { a with reduce := (match fn with | some f => f | none => rsum),
           posCache := none, negCache := none }

/-- the `[lambda x, p: p, lambda x, n: n]` a non-list `bind` is replaced by -/
def Bind.asHalves (b : Bind α) : (α → α → α) × (α → α → α) :=
  match b with
  | .halves u l => (u, l)
  | .full _ => (fun _ p => p, fun _ n => n)

/-- `upperbound(bound, max, **kwargs)`; `bound` arrives as the closure
`lambda x, p: bound(x, p, max, **kwargs)`. -/
def Accumulator.upperbound (a : Accumulator α) (bound : Option (α → α → α)) : Accumulator α :=
  let h := a.bind.asHalves
  { a with bind := .halves (match bound with | some f => f | none => fun _ p => p) h.2 }

/-- `lowerbound(bound, min, **kwargs)` -/
def Accumulator.lowerbound (a : Accumulator α) (bound : Option (α → α → α)) : Accumulator α :=
  let h := a.bind.asHalves
  { a with bind := .halves h.1 (match bound with | some f => f | none => fun _ n => n) }

/-- `fullbound(bound, max, min, **kwargs)` -/
def Accumulator.fullbound [Sub α] (a : Accumulator α) (bound : Option (FullBound α)) :
    Accumulator α :=
  { a with bind := .full (match bound with | some b => b | none => FullBound.unbounded) }

/-- `clear()`: `del self.pos; del self.neg` -/
def Accumulator.clear (a : Accumulator α) : Accumulator α := a.delPos.delNeg

/-- `update(param)`: the four `pos/neg is None` cases × `isinstance(self.bind, list)`. -/
def Accumulator.update [Sub α] [Neg α] [Zero α] (a : Accumulator α) (param : α) :
    Accumulator α × Except Err (Option α) :=
  let a1 := a.getPos.1
  let pos := a.getPos.2
  let a2 := a1.getNeg.1
  let neg := a1.getNeg.2
  (a2,
    match pos, neg with
    | some p, some n =>
      match a2.bind with
      | .halves u l => .ok (some (u param p - l param n))
      | .full b => (b.fn param p n).map some
    | some p, none =>
      match a2.bind with
      | .halves u _ => .ok (some (u param p))
      | .full b => (b.fn param p 0).map some          -- `torch.zeros_like(pos)`
    | none, some n =>
      match a2.bind with
      | .halves _ l => .ok (some (-(l param n)))
      | .full b => (b.fn param 0 n).map some
    | none, none => .ok none)

/-- `forward(param)`: `param + update` or `param`. -/
def Accumulator.forward [Add α] [Sub α] [Neg α] [Zero α] (a : Accumulator α) (param : α) :
    Accumulator α × Except Err α :=
  let r := a.update param
  (r.1, match r.2 with
    | .error e => .error e
    | .ok (some u) => .ok (param + u)
    | .ok none => .ok param)

end Acc

/-! ## The five full bounding families as `Accumulator.fullbound(bound, max, min, **kwargs)` stores them -/
section FullBounds
variable {α : Type}

/-- no bounding on this side -/
def idHalf : α → α → α := fun _ u => u

def FullBound.multiplicative [Sub α] [Mul α] (max min : Option α) : FullBound α :=
  ⟨fun x p n => bound_multiplicative x p n max min,
   some ((match max with | some mx => fun x p => bound_upper_multiplicative x p mx | none => idHalf),
         (match min with | some mn => fun x n => bound_lower_multiplicative x n mn | none => idHalf))⟩

def FullBound.sharp [Sub α] [Mul α] [Zero α] [One α] [LT α] [DecidableLT α] (max min : Option α) :
    FullBound α :=
  ⟨fun x p n => bound_sharp x p n max min,
   some ((match max with | some mx => fun x p => bound_upper_sharp x p mx | none => idHalf),
         (match min with | some mn => fun x n => bound_lower_sharp x n mn | none => idHalf))⟩

def FullBound.power [Sub α] [Mul α] [HPow α α α] (max min : Option α) (upper_power lower_power : α) :
    FullBound α :=
  ⟨fun x p n => bound_power x p n max min upper_power lower_power,
   some ((match max with | some mx => fun x p => bound_upper_power x p mx upper_power | none => idHalf),
         (match min with | some mn => fun x n => bound_lower_power x n mn lower_power | none => idHalf))⟩

/-- with exactly one limit `None` the code raises `TypeError` (`max - min`) when the update is
computed: no decomposition. -/
def FullBound.scaled_multiplicative [Sub α] [Mul α] [Div α] (max min : Option α) : FullBound α :=
  ⟨fun x p n => bound_scaled_multiplicative x p n max min,
   match max, min with
   | some mx, some mn =>
     some (fun x p => bound_upper_scaled_multiplicative x p mx (mx - mn),
           fun x n => bound_lower_scaled_multiplicative x n mn (mx - mn))
   | none, none => some (idHalf, idHalf)
   | _, _ => none⟩

def FullBound.scaled_power [Sub α] [Mul α] [Div α] [HPow α α α] (max min : Option α)
    (upper_power lower_power : α) : FullBound α :=
  ⟨fun x p n => bound_scaled_power x p n max min upper_power lower_power,
   match max, min with
   | some mx, some mn =>
     some (fun x p => bound_upper_scaled_power x p mx upper_power (mx - mn),
           fun x n => bound_lower_scaled_power x n mn lower_power (mx - mn))
   | none, none => some (idHalf, idHalf)
   | _, _ => none⟩

end FullBounds

/-! ## Association lists (`nn.ModuleDict` / module attributes keep insertion order) -/
section AList
variable {β : Type}

def alookup (l : List (String × β)) (k : String) : Option β :=
  match l with
  | [] => none
  | (k', v) :: t => if k' = k then some v else alookup t k

/-- replace the value under the first occurrence of `k` (keys are unique in a dict) -/
def amodify (l : List (String × β)) (k : String) (f : β → β) : List (String × β) :=
  match l with
  | [] => []
  | (k', v) :: t => if k' = k then (k', f v) :: t else (k', v) :: amodify t k f

def aset (l : List (String × β)) (k : String) (v : β) : List (String × β) := amodify l k fun _ => v

end AList

/-! ## `Updater` -/

structure Updater (α : Type) where
  /-- `updates_` -/
  accs : List (String × Accumulator α)

section Upd
variable {α : Type} [Add α] [Sub α] [Neg α] [Zero α]

/-- `Updater(module, *params, reduction=reduction)` after the `argtest.members` check:
`{p: Accumulator() for p in params}` (a dict: duplicates collapse), then
`if reduction: for acc in self.updates_.values(): acc.reduction(reduction)`. -/
def Updater.new (params : List String) (reduction : Option (List α → α)) : Updater α :=
  let accs : List (String × Accumulator α) := params.eraseDups.map fun p => (p, Accumulator.new)
  match reduction with
  | some r => ⟨accs.map fun pa => (pa.1, pa.2.reduction (some r))⟩
  | none => ⟨accs⟩

/-- `Updater.clear()` -/
def Updater.clear (u : Updater α) : Updater α :=
  ⟨u.accs.map fun pa => (pa.1, pa.2.clear)⟩

/-- the loop of `Updater.forward`: `setattr(module, p, self.updates_[p](getattr(module, p)))`
for each `p`, stopping at the first exception (what was assigned before stays assigned). -/
def Updater.forwardLoop (u : Updater α) (module : List (String × α)) :
    List String → Updater α × List (String × α) × Option Err
  | [] => (u, module, none)
  | p :: ps =>
    match alookup u.accs p with
    | none => (u, module, some .KeyError)
    | some acc =>
      match alookup module p with
      | none => (u, module, some .AttributeError)
      | some x =>
        let r := acc.forward x
        match r.2 with
        | .error e => (⟨aset u.accs p r.1⟩, module, some e)
        | .ok x' => Updater.forwardLoop ⟨aset u.accs p r.1⟩ (aset module p x') ps

/-- `Updater.forward(*params)`: all parameters when none are named. -/
def Updater.forward (u : Updater α) (module : List (String × α)) (params : List String) :
    Updater α × List (String × α) × Option Err :=
  u.forwardLoop module (if params.isEmpty then u.accs.map (·.1) else params)

end Upd

/-! ## `Updatable` (a module with parameters and an optional updater) -/

structure Module (α : Type) where
  params : List (String × α)
  updater : Option (Updater α)

/-- value assigned through the `Updater` property setter `_setacc_` -/
inductive SetVal (α : Type) where
  | one (v : Option α)                 -- a tensor or `None`: positive part only
  | pair (vp vn : Option α)            -- a 2-tuple

inductive Op (α : Type) where
  | newUpdater (ps : List String) (reduction : Option (List α → α))  -- `m.updater = Updater(m, *ps, reduction=r)`
  | delUpdater                                                       -- `del m.updater`
  | setParam (p : String) (v : α)                                    -- `m.p = v`
  | setPos (p : String) (v : Option α)                               -- `m.updater.p.pos = v`
  | setNeg (p : String) (v : Option α)
  | setAcc (p : String) (v : SetVal α)                               -- `m.updater.p = v`
  | getPos (p : String) | getNeg (p : String)                        -- `m.updater.p.pos`
  | delPos (p : String) | delNeg (p : String)
  | delAcc (p : String)                                              -- `del m.updater.p`
  | accClear (p : String)                                            -- `m.updater.p.clear()`
  | reduction (p : String) (fn : Option (List α → α))
  | upperbound (p : String) (b : Option (α → α → α))
  | lowerbound (p : String) (b : Option (α → α → α))
  | fullbound (p : String) (b : Option (FullBound α))
  | accUpdate (p : String)                                           -- `m.updater.p.update(m.p)`
  | update (clear : Bool)                                            -- `m.update(clear=…)`
  | updatesome (ps : List String) (clear : Bool)
  | clear                                                            -- `m.clear()`

inductive Out (α : Type) where
  | unit
  | val (v : Option α)
  | err (e : Err)
  | unsupported        -- outside the modelled domain (accumulator op on an undeclared name / no updater)
deriving Repr

section Machine
variable {α : Type} [Add α] [Sub α] [Neg α] [Zero α]

/-- an accumulator method without a return value, on a declared parameter -/
def Module.onAcc (m : Module α) (p : String) (f : Accumulator α → Accumulator α) :
    Module α × Out α :=
  match m.updater with
  | none => (m, .unsupported)
  | some u =>
    match alookup u.accs p with
    | none => (m, .unsupported)
    | some _ => ({ m with updater := some ⟨amodify u.accs p f⟩ }, .unit)

/-- an accumulator getter (may fill a cache) -/
def Module.readAcc (m : Module α) (p : String) (f : Accumulator α → Accumulator α × Option α) :
    Module α × Out α :=
  match m.updater with
  | none => (m, .unsupported)
  | some u =>
    match alookup u.accs p with
    | none => (m, .unsupported)
    | some a => ({ m with updater := some ⟨aset u.accs p (f a).1⟩ }, .val (f a).2)

/-- `_setacc_` -/
def Accumulator.setAcc (a : Accumulator α) : SetVal α → Accumulator α
  | .one v => a.setPos v
  | .pair vp vn => (a.setPos vp).setNeg vn

/-- `Updatable.update(clear)` -/
def Module.update (m : Module α) (clear : Bool) : Module α × Out α :=
  match m.updater with
  | none => (m, .unit)                                  -- `if self.updatable`
  | some u =>
    let r := u.forward m.params []
    match r.2.2 with
    | some e => (⟨r.2.1, some r.1⟩, .err e)
    | none => (⟨r.2.1, some (if clear then r.1.clear else r.1)⟩, .unit)

/-- `Updatable.updatesome(*params, clear)`: `self.updater(p)` then
`getattr(self.updater, p).clear()` per name. -/
def Module.updatesome (m : Module α) (clear : Bool) : List String → Module α × Out α
  | [] => (m, .unit)
  | p :: ps =>
    match m.updater with
    | none => (m, .err .TypeError)                      -- `None(p)`
    | some u =>
      let r := u.forward m.params [p]
      match r.2.2 with
      | some e => (⟨r.2.1, some r.1⟩, .err e)
      | none =>
        Module.updatesome
          ⟨r.2.1, some (if clear then ⟨amodify r.1.accs p Accumulator.clear⟩ else r.1)⟩ clear ps

def step (m : Module α) : Op α → Module α × Out α
  | .newUpdater ps r =>
    if ps.all (fun p => (alookup m.params p).isSome) then
      ({ m with updater := some (Updater.new ps r) }, .unit)
    else (m, .err .RuntimeError)                        -- `argtest.members`
  | .delUpdater => ({ m with updater := none }, .unit)
  | .setParam p v =>
    match alookup m.params p with
    | none => (m, .unsupported)
    | some _ => ({ m with params := aset m.params p v }, .unit)
  | .setPos p v => m.onAcc p (·.setPos v)
  | .setNeg p v => m.onAcc p (·.setNeg v)
  | .setAcc p v => m.onAcc p (·.setAcc v)
  | .getPos p => m.readAcc p Accumulator.getPos
  | .getNeg p => m.readAcc p Accumulator.getNeg
  | .delPos p => m.onAcc p Accumulator.delPos
  | .delNeg p => m.onAcc p Accumulator.delNeg
  | .delAcc p => m.onAcc p Accumulator.clear
  | .accClear p => m.onAcc p Accumulator.clear
  | .reduction p fn => m.onAcc p (·.reduction fn)
  | .upperbound p b => m.onAcc p (·.upperbound b)
  | .lowerbound p b => m.onAcc p (·.lowerbound b)
  | .fullbound p b => m.onAcc p (·.fullbound b)
  | .accUpdate p =>
    match m.updater with
    | none => (m, .unsupported)
    | some u =>
      match alookup u.accs p, alookup m.params p with
      | some a, some x =>
        let r := a.update x
        ({ m with updater := some ⟨aset u.accs p r.1⟩ },
          match r.2 with | .ok v => .val v | .error e => .err e)
      | _, _ => (m, .unsupported)
  | .update c => m.update c
  | .updatesome ps c => m.updatesome c ps
  | .clear =>
    match m.updater with
    | none => (m, .unit)
    | some u => ({ m with updater := some u.clear }, .unit)

def run (m : Module α) : List (Op α) → Module α × List (Out α)
  | [] => (m, [])
  | op :: ops =>
    let r := step m op
    let r' := run r.1 ops
    (r'.1, r.2 :: r'.2)

end Machine

/-! ## The specification machine -/

/-- Specification accumulator: the pending parts, the reduction, and the pair of half bounding
functions (`none`: the configured full function cannot be evaluated — it raises). -/
structure SAcc (α : Type) where
  pos : List α
  neg : List α
  reduce : List α → α
  /-- a full bounding function is configured (`upperbound` / `lowerbound` then start from no bounds) -/
  isFull : Bool
  halves? : Option ((α → α → α) × (α → α → α))

structure SModule (α : Type) where
  params : List (String × α)
  updater : Option (List (String × SAcc α))

section Spec
variable {α : Type} [Add α] [Sub α] [Neg α] [Zero α]

def SAcc.new : SAcc α := ⟨[], [], rsum, true, some (fun _ p => p, fun _ n => n)⟩

def SAcc.setPos (a : SAcc α) : Option α → SAcc α
  | none => a
  | some v => { a with pos := a.pos ++ [v] }
def SAcc.setNeg (a : SAcc α) : Option α → SAcc α
  | none => a
  | some v => { a with neg := a.neg ++ [v] }
def SAcc.setAcc (a : SAcc α) : SetVal α → SAcc α
  | .one v => a.setPos v
  | .pair vp vn => (a.setPos vp).setNeg vn
def SAcc.clear (a : SAcc α) : SAcc α := { a with pos := [], neg := [] }
/-- the half functions `upperbound` / `lowerbound` start from: none at all when a full bounding
function was configured ("will remove any full bound present"). -/
def SAcc.asHalves (a : SAcc α) : (α → α → α) × (α → α → α) :=
  if a.isFull then (fun _ p => p, fun _ n => n)
  else match a.halves? with
    | some h => h
    | none => (fun _ p => p, fun _ n => n)

/-- THE FORMULA: the update is `ub(reduce pos parts) − lb(reduce neg parts)`, an absent side
contributing nothing; `None` when nothing was accumulated. -/
def SAcc.update (a : SAcc α) (x : α) : Except Err (Option α) :=
  match calcParts a.reduce a.pos, calcParts a.reduce a.neg with
  | none, none => .ok none
  | P, N =>
    match a.halves? with
    | none => .error .TypeError
    | some (ub, lb) =>
      .ok (some ((match P with | some p => ub x p | none => 0)
                 - (match N with | some n => lb x n | none => 0)))

/-- `new = old + update`, untouched when nothing was accumulated. -/
def SAcc.apply (a : SAcc α) (x : α) : Except Err α :=
  match a.update x with
  | .error e => .error e
  | .ok (some u) => .ok (x + u)
  | .ok none => .ok x

def sforwardLoop (accs : List (String × SAcc α)) (module : List (String × α)) :
    List String → List (String × α) × Option Err
  | [] => (module, none)
  | p :: ps =>
    match alookup accs p with
    | none => (module, some .KeyError)
    | some acc =>
      match alookup module p with
      | none => (module, some .AttributeError)
      | some x =>
        match acc.apply x with
        | .error e => (module, some e)
        | .ok x' => sforwardLoop accs (aset module p x') ps

def SModule.onAcc (m : SModule α) (p : String) (f : SAcc α → SAcc α) : SModule α × Out α :=
  match m.updater with
  | none => (m, .unsupported)
  | some u =>
    match alookup u p with
    | none => (m, .unsupported)
    | some _ => ({ m with updater := some (amodify u p f) }, .unit)

def SModule.updatesome (m : SModule α) (clear : Bool) : List String → SModule α × Out α
  | [] => (m, .unit)
  | p :: ps =>
    match m.updater with
    | none => (m, .err .TypeError)
    | some u =>
      let r := sforwardLoop u m.params [p]
      match r.2 with
      | some e => (⟨r.1, some u⟩, .err e)
      | none => SModule.updatesome ⟨r.1, some (if clear then amodify u p SAcc.clear else u)⟩ clear ps

def sstep (m : SModule α) : Op α → SModule α × Out α
  | .newUpdater ps r =>
    if ps.all (fun p => (alookup m.params p).isSome) then
      ({ m with updater := some (ps.eraseDups.map fun p =>
          (p, match r with | some r => { (SAcc.new : SAcc α) with reduce := r } | none => SAcc.new)) }, .unit)
    else (m, .err .RuntimeError)
  | .delUpdater => ({ m with updater := none }, .unit)
  | .setParam p v =>
    match alookup m.params p with
    | none => (m, .unsupported)
    | some _ => ({ m with params := aset m.params p v }, .unit)
  | .setPos p v => m.onAcc p (·.setPos v)
  | .setNeg p v => m.onAcc p (·.setNeg v)
  | .setAcc p v => m.onAcc p (·.setAcc v)
  | .getPos p =>
    match m.updater with
    | none => (m, .unsupported)
    | some u => match alookup u p with
      | none => (m, .unsupported)
      | some a => (m, .val (calcParts a.reduce a.pos))
  | .getNeg p =>
    match m.updater with
    | none => (m, .unsupported)
    | some u => match alookup u p with
      | none => (m, .unsupported)
      | some a => (m, .val (calcParts a.reduce a.neg))
  | .delPos p => m.onAcc p fun a => { a with pos := [] }
  | .delNeg p => m.onAcc p fun a => { a with neg := [] }
  | .delAcc p => m.onAcc p SAcc.clear
  | .accClear p => m.onAcc p SAcc.clear
  | .reduction p fn => m.onAcc p fun a => { a with reduce := (match fn with | some f => f | none => rsum) }
  | .upperbound p b => m.onAcc p fun a =>
      { a with isFull := false,
               halves? := some ((match b with | some f => f | none => fun _ p => p), a.asHalves.2) }
  | .lowerbound p b => m.onAcc p fun a =>
      { a with isFull := false,
               halves? := some (a.asHalves.1, (match b with | some f => f | none => fun _ n => n)) }
  | .fullbound p b => m.onAcc p fun a =>
      { a with isFull := true,
               halves? := (match b with | some b => b.halves? | none => some (fun _ p => p, fun _ n => n)) }
  | .accUpdate p =>
    match m.updater with
    | none => (m, .unsupported)
    | some u =>
      match alookup u p, alookup m.params p with
      | some a, some x => (m, match a.update x with | .ok v => .val v | .error e => .err e)
      | _, _ => (m, .unsupported)
  | .update c =>
    match m.updater with
    | none => (m, .unit)
    | some u =>
      let r := sforwardLoop u m.params (u.map (·.1))
      match r.2 with
      | some e => (⟨r.1, some u⟩, .err e)
      | none => (⟨r.1, some (if c then u.map fun pa => (pa.1, pa.2.clear) else u)⟩, .unit)
  | .updatesome ps c => m.updatesome c ps
  | .clear =>
    match m.updater with
    | none => (m, .unit)
    | some u => ({ m with updater := some (u.map fun pa => (pa.1, pa.2.clear)) }, .unit)

def srun (m : SModule α) : List (Op α) → SModule α × List (Out α)
  | [] => (m, [])
  | op :: ops =>
    let r := sstep m op
    let r' := srun r.1 ops
    (r'.1, r.2 :: r'.2)

/-- abstraction: forget the caches; read `bind` as a pair of half functions -/
def Accumulator.abs (a : Accumulator α) : SAcc α :=
  ⟨a.pos, a.neg, a.reduce,
    (match a.bind with | .full _ => true | .halves _ _ => false),
    (match a.bind with
     | .full b => b.halves?
     | .halves u l => some (u, l))⟩

def mabs (m : Module α) : SModule α :=
  ⟨m.params, m.updater.map fun u => u.accs.map fun pa => (pa.1, pa.2.abs)⟩

end Spec

end InfernoVerif.Updater
