import InfernoVerif.Model.Select
import InfernoVerif.Gen.InterpolationF
/-
Model of inferno's four shipped synapses (`neural/synapses/{mixins,current,expcurrent}.py`,
`neural/mixins.py :: DelayedMixin`, `neural/base.py :: InfernoSynapse`) for ONE element of the
batched synapse tensor — hand written, code shaped (one function per Python function / branch,
operations in the source's order), core Lean only so the driver can execute it over `Float`.

Every synapse operation is element-wise, so the scalar model describes each element; each recorded
quantity (`spike_`, `current_`, `pos_current_`, `neg_current_`) is one `Ring` column sized by
`recordsz(dt, delay, inclusive=True)`; time-indexed reads are `Model/Select.lean`'s `selectTensor`
(the tensor-time path of `RecordTensor.select`, which is what a selector tensor takes).

The definitions are generic over `SOps α` (the arithmetic of `Select.Ops`, `exp`, and the three
interpolation kernels the classes use) so that the SAME definitions are executed over `Float`
(`floatSOps`, with the GENERATED `Gen/InterpolationF` kernels) and reasoned about over `ℝ`
(`realSOps` in `Lemmas/Synapse.lean`, with the GENERATED `Gen/InterpolationR` kernels).

Spikes are stored as `0` / `1` of the scalar type (`bool` storage in torch; `interp_previous` /
`interp_nearest` return one of their two data arguments, so the encoding is closed).

Tie to the code: `harness/corr/c04.py` (real classes vs `drivers/C04.lean` after every step).
-/
namespace InfernoVerif.Synapse
open InfernoVerif.Ring InfernoVerif.Select

structure SOps (α : Type) where
  K : Ops α
  /-- `math.exp` -/
  exp : α → α
  /-- `interp_previous(prev_data, next_data, sample_at, step_time)` -/
  previous : Interp α
  /-- `interp_nearest(prev_data, next_data, sample_at, step_time)` -/
  nearest : Interp α
  /-- `interp_expdecay(prev_data, next_data, sample_at, step_time, time_constant)` -/
  expdecay : α → α → α → α → α → α

inductive Kind | delta | deltaPlus | singleExp | doubleExp
deriving DecidableEq, Repr

/-- `interp_mode` (delta classes: currents and spikes) / `spike_interp_mode` (exponential classes) -/
inductive Mode | previous | nearest
deriving DecidableEq, Repr

structure Cfg (α : Type) where
  kind : Kind
  dt : α
  delay : α
  /-- `spike_charge` -/
  Q : α
  /-- `time_constant` (single exponential) / `tc_decay` (double exponential) -/
  tau : α
  /-- `tc_rise` (double exponential) -/
  tauR : α
  mode : Mode
  /-- `interp_tol` -/
  tol : α
  curOver : Option α
  spkOver : Option Bool
  inplace : Bool

structure St (α : Type) where
  /-- `spike_` (all four classes), entries `0` / `1` -/
  spike : Ring α
  /-- `current_` (delta-plus, single exponential) / `pos_current_` (double exponential);
  not present in `DeltaCurrent` (its `current_` is a `VirtualTensor` derived from `spike_`) -/
  cur : Ring α
  /-- `neg_current_` (double exponential) -/
  neg : Ring α

variable {α : Type}

/-- `max(math.ceil(duration / step_time) + bool(inclusive), 1)` — the record size expression of
`RecordTensor.__init__` / the `dt`, `duration` setters (core/infrastructure.py). -/
def recordsz (K : Ops α) (dt duration : α) (inclusive : Bool) : Nat :=
  Nat.max ((K.ceil (K.div duration dt)).toNat + (if inclusive then 1 else 0)) 1

/-- Storage of a record created from `torch.zeros(batchedshape)`: `recordsz` zero slots, pointer 0. -/
def zeroRing (K : Ops α) (n : Nat) : Ring α := ⟨n, 0, List.replicate n (K.ofInt 0)⟩

/-- Constructor: every record is created with `(dt, delay, inclusive=True)` (mixins.py
`RecordTensor.create(..., self.dt, self.delay, ..., inclusive=True)`, `add_delayed`). -/
def Cfg.n (S : SOps α) (c : Cfg α) : Nat := recordsz S.K c.dt c.delay true

def init (S : SOps α) (c : Cfg α) : St α :=
  let r := zeroRing S.K (c.n S)
  ⟨r, r, r⟩

/-- `x.bool()` stored as `0` / `1`: nonzero ↦ `1`. -/
def toSpike (K : Ops α) (x : α) : α :=
  if K.lt x (K.ofInt 0) || K.lt (K.ofInt 0) x then K.ofInt 1 else K.ofInt 0

/-- `.to(dtype=bool)` of a stored / selected spike value. -/
def isSpike (K : Ops α) (v : α) : Bool := K.lt v (K.ofInt 0) || K.lt (K.ofInt 0) v

def ofBool (K : Ops α) (b : Bool) : α := if b then K.ofInt 1 else K.ofInt 0

/-- `DeltaCurrent.spike_to_current`: `spikes.to(dtype) * (synapse.spike_charge / synapse.dt)`. -/
def spikeToCurrent (S : SOps α) (c : Cfg α) (s : α) : α := S.K.mul s (S.K.div c.Q c.dt)

/-! ## per-step recurrences (`forward` of each class) -/

/-- `DeltaCurrent.forward`: `self.spike = inputs[0].bool(); return self.current`
(`current` = `_derived_current` = `spike_to_current(self.spike)`, `self.spike = spike_.peek()`). -/
def stepDelta (S : SOps α) (c : Cfg α) (s : St α) (x : α) : Option (St α × α) :=
  let spike := s.spike.push (toSpike S.K x) c.inplace
  match spike.read 1 with
  | some v => some ({ s with spike := spike }, spikeToCurrent S c v)
  | none => none

/-- `DeltaPlusCurrent.forward`: `self.spike = inputs[0].bool();
self.current = sum((inputs[0] * (self.spike_charge / self.dt), *inputs[1:])); return self.current`
(Python `sum` starts from `0` and adds left to right). -/
def stepDeltaPlus (S : SOps α) (c : Cfg α) (s : St α) (x : α) (inj : List α) : Option (St α × α) :=
  let spike := s.spike.push (toSpike S.K x) c.inplace
  let total := (S.K.mul x (S.K.div c.Q c.dt) :: inj).foldl S.K.add (S.K.ofInt 0)
  let cur := s.cur.push total c.inplace
  match cur.read 1 with
  | some v => some ({ s with spike := spike, cur := cur }, v)
  | none => none

/-- One exponential trace update:
`trace * math.exp(-self.dt / tc) + (amplitude) * inputs[0]`. -/
def expUpdate (S : SOps α) (dt tc amp : α) (trace x : α) : α :=
  S.K.add (S.K.mul trace (S.exp (S.K.div (S.K.neg dt) tc))) (S.K.mul amp x)

/-- `SingleExponentialCurrent.forward`: `self.spike = inputs[0].bool();
self.current = self.current * math.exp(-self.dt / self.time_constant)
             + (self.spike_charge / self.time_constant) * inputs[0]; return self.current`. -/
def stepSingleExp (S : SOps α) (c : Cfg α) (s : St α) (x : α) : Option (St α × α) :=
  let spike := s.spike.push (toSpike S.K x) c.inplace
  match s.cur.read 1 with
  | none => none
  | some i =>
    let cur := s.cur.push (expUpdate S c.dt c.tau (S.K.div c.Q c.tau) i x) c.inplace
    match cur.read 1 with
    | some v => some ({ s with spike := spike, cur := cur }, v)
    | none => none

/-- `DoubleExponentialCurrent.forward`: both traces use amplitude
`self.spike_charge / (self.tc_decay - self.tc_rise)`; returns
`self.pos_current_.peek() - self.neg_current_.peek()`. -/
def stepDoubleExp (S : SOps α) (c : Cfg α) (s : St α) (x : α) : Option (St α × α) :=
  let spike := s.spike.push (toSpike S.K x) c.inplace
  let amp := S.K.div c.Q (S.K.sub c.tau c.tauR)
  match s.cur.read 1, s.neg.read 1 with
  | some p, some q =>
    let pos := s.cur.push (expUpdate S c.dt c.tau amp p x) c.inplace
    let neg := s.neg.push (expUpdate S c.dt c.tauR amp q x) c.inplace
    match pos.read 1, neg.read 1 with
    | some p', some q' => some (⟨spike, pos, neg⟩, S.K.sub p' q')
    | _, _ => none
  | _, _ => none

/-- `forward(*inputs)`: `x = inputs[0]`, `inj = inputs[1:]` (used by delta-plus only). -/
def step (S : SOps α) (c : Cfg α) (s : St α) (x : α) (inj : List α) : Option (St α × α) :=
  match c.kind with
  | .delta => stepDelta S c s x
  | .deltaPlus => stepDeltaPlus S c s x inj
  | .singleExp => stepSingleExp S c s x
  | .doubleExp => stepDoubleExp S c s x

/-- `synapse.spike` after a step: `spike_.peek()`. -/
def spikeNow (S : SOps α) (s : St α) : Option Bool := (s.spike.read 1).map (isSpike S.K)

/-- `clear()`: `reset(False)` / `reset(0.0)` of every record (`fill_`, pointer := 0). -/
def clear (S : SOps α) (s : St α) : St α :=
  ⟨s.spike.resetFill (S.K.ofInt 0), s.cur.resetFill (S.K.ofInt 0), s.neg.resetFill (S.K.ofInt 0)⟩

/-! ## `_synparam_at` (mixins.py) -/

/-- `selector.clamp(min=lo, max=hi)`. -/
def clamp (K : Ops α) (x lo hi : α) : α :=
  let y := if K.lt x lo then lo else x
  if K.lt hi y then hi else y

/-- `torch.where((selector - bounded_selector).abs() <= tolerance, res, overbound)` when
`overbound is not None`, `res` otherwise. -/
def applyOverbound (K : Ops α) (tol : α) (over : Option α) (sel bounded res : α) : α :=
  match over with
  | none => res
  | some o => if K.le (K.abs (K.sub sel bounded)) tol then res else o

/-- The value read by `_synparam_at` before overbounding: `value.peek()` in the
`recordsz == 1` branch (`undelayed`), else
`value.select(selector.clamp(min=0, max=value.duration), interpolation, tolerance=tolerance)`
(a tensor selector takes `select`'s tensor-time path, default `offset=1`). -/
def rawAt (K : Ops α) (interp : Interp α) (r : Ring α) (undelayed : Bool) (dt duration tol sel : α) :
    Outcome α :=
  if undelayed then readO r 1
  else selectTensor K interp r dt tol (clamp K sel (K.ofInt 0) duration) 1

/-- `bounded_selector`: `0` in the `recordsz == 1` branch, the clamped selector otherwise. -/
def boundedSel (K : Ops α) (undelayed : Bool) (duration sel : α) : α :=
  if undelayed then K.ofInt 0 else clamp K sel (K.ofInt 0) duration

/-- `_synparam_at(value, selector, interpolation, interp_kwargs, tolerance, overbound, transform)`
for one element: branch on `value.recordsz == 1`, read (`rawAt`), `transform`, then the overbound
replacement against `bounded_selector`. -/
def synparamAt (K : Ops α) (interp : Interp α) (r : Ring α) (dt duration tol : α) (over : Option α)
    (transform : α → α) (sel : α) : Outcome α :=
  let undelayed := r.n == 1
  (rawAt K interp r undelayed dt duration tol sel).map fun v =>
    applyOverbound K tol over sel (boundedSel K undelayed duration sel) (transform v)

/-- The interpolation selected by `interp_mode` / `spike_interp_mode`. -/
def modeInterp (S : SOps α) : Mode → Interp α
  | .previous => S.previous
  | .nearest => S.nearest

/-- `interp_expdecay` with `interp_kwargs={"time_constant": tc}`. -/
def expInterp (S : SOps α) (tc : α) : Interp α := fun p q sa st => S.expdecay p q sa st tc

/-! ## `spike_at` / `current_at` wiring of the four classes -/

/-- `SpikeMixin.spike_at` (all four classes reach this one):
`_synparam_at(self.spike_, selector, interp, {}, tolerance, overbound, None).to(bool)`. -/
def spikeAt (S : SOps α) (c : Cfg α) (s : St α) (sel : α) : Outcome Bool :=
  (synparamAt S.K (modeInterp S c.mode) s.spike c.dt c.delay c.tol
      (c.spkOver.map (ofBool S.K)) id sel).map (isSpike S.K)

/-- `DoubleExponentialCurrent.current_at` — its own copy of `_synparam_at` on two records: the
branch test is `self.spike_.recordsz == 1`; both traces are read at the same bounded selector with
`interp_expdecay` (`tc_decay` resp. `tc_rise`), subtracted, then overbounded. -/
def currentAtDouble (S : SOps α) (c : Cfg α) (s : St α) (sel : α) : Outcome α :=
  let undelayed := s.spike.n == 1
  match rawAt S.K (expInterp S c.tau) s.cur undelayed c.dt c.delay c.tol sel,
        rawAt S.K (expInterp S c.tauR) s.neg undelayed c.dt c.delay c.tol sel with
  | .ok p, .ok q =>
    .ok (applyOverbound S.K c.tol c.curOver sel (boundedSel S.K undelayed c.delay sel) (S.K.sub p q))
  | .valueError, _ => .valueError
  | _, .valueError => .valueError
  | _, _ => .noSlot

/-- `current_at(selector)`:
* `DeltaCurrent` — `SpikeDerivedCurrentMixin.current_at`: `_synparam_at(self.spike_, …, interp,
  tolerance, current_overbound, transform = spike_to_current)`;
* `DeltaPlusCurrent` — `CurrentMixin.current_at` on `current_` with the class's `interp_mode`;
* `SingleExponentialCurrent` — `CurrentMixin.current_at` on `current_` with `interp_expdecay`,
  `time_constant`;
* `DoubleExponentialCurrent` — `currentAtDouble`. -/
def currentAt (S : SOps α) (c : Cfg α) (s : St α) (sel : α) : Outcome α :=
  match c.kind with
  | .delta => synparamAt S.K (modeInterp S c.mode) s.spike c.dt c.delay c.tol c.curOver
      (spikeToCurrent S c) sel
  | .deltaPlus => synparamAt S.K (modeInterp S c.mode) s.cur c.dt c.delay c.tol c.curOver id sel
  | .singleExp => synparamAt S.K (expInterp S c.tau) s.cur c.dt c.delay c.tol c.curOver id sel
  | .doubleExp => currentAtDouble S c s sel

/-! ## trajectories -/

/-- State before step `n` (after steps `0 … n-1`) from construction, for the input spike sequence
`x` and the injected-current lists `inj`. -/
def stateAt (S : SOps α) (c : Cfg α) (x : Nat → α) (inj : Nat → List α) : Nat → Option (St α)
  | 0 => some (init S c)
  | n + 1 => (stateAt S c x inj n).bind fun s => (step S c s (x n) (inj n)).map (·.1)

/-- The current `forward` returns at step `n`. -/
def outAt (S : SOps α) (c : Cfg α) (x : Nat → α) (inj : Nat → List α) (n : Nat) : Option α :=
  (stateAt S c x inj n).bind fun s => (step S c s (x n) (inj n)).map (·.2)

/-! ## the `Float` instance executed by the driver -/

def floatSOps : SOps Float where
  K := floatOps
  exp := Float.exp
  previous := InfernoVerif.Gen.InterpolationF.interp_previous
  nearest := InfernoVerif.Gen.InterpolationF.interp_nearest
  expdecay := InfernoVerif.Gen.InterpolationF.interp_expdecay

end InfernoVerif.Synapse
