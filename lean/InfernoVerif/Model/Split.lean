/-
Model of the LTP / LTD split of every exported trainer (`inferno/learn/__init__.py`): the routing
tables of the `match (… >= 0, … >= 0)` statements in each `forward`, the kernel trainers'
`clamp_min / clamp_max` split and `LinearHomeostasis`' split, transcribed by hand, one Lean
definition per site, same case order, same operand order.  Core Lean only; every definition is
polymorphic in the scalar type (instantiated at `ℝ` in `Props/C09.lean`, at `Float` in the driver).

What a trainer hands to the updater is `cell.updater.<param> = (pos, neg)`; `none` is Python `None`
(no part appended, `Accumulator.pos.setter`).  All of this is element-wise over the parameter
tensor, so the model is one tensor position; batch samples and the receptive axis are `List`s.
-/
namespace InfernoVerif.Split

/-- `(pos, neg)` as assigned to `cell.updater.<param>` -/
abbrev Parts (α : Type) := Option α × Option α

section Tables
variable {α : Type} [Add α]

/-- `STDP.forward` (`two_factor_stdp.py`): `match (state.lr_post >= 0, state.lr_pre >= 0)`;
`dpost`, `dpre` are magnitudes (the traces have amplitude `|lr|`). -/
def route_stdp (lr_post_nonneg lr_pre_nonneg : Bool) (dpost dpre : α) : Parts α :=
  match lr_post_nonneg, lr_pre_nonneg with
  | false, false => (none, some (dpost + dpre))      -- depressive
  | false, true => (some dpre, some dpost)           -- anti-hebbian
  | true, false => (some dpost, some dpre)           -- hebbian
  | true, true => (some (dpost + dpre), none)        -- potentiative

/-- `TripletSTDP.forward`: `match (state.lr_post_pair >= 0, state.lr_pre_pair >= 0)` -/
def route_triplet_stdp (lr_post_pair_nonneg lr_pre_pair_nonneg : Bool) (dpost dpre : α) : Parts α :=
  match lr_post_pair_nonneg, lr_pre_pair_nonneg with
  | false, false => (none, some (dpost + dpre))
  | false, true => (some dpre, some dpost)
  | true, false => (some dpost, some dpre)
  | true, true => (some (dpost + dpre), none)

/-- `MSTDP.forward` / `MSTDPET.forward`, scalar `signal`:
`match (state.lr_post * signal >= 0, state.lr_pre * signal >= 0)`; magnitudes carry `|signal·scale|`. -/
def route_mstdp (lr_post_signal_nonneg lr_pre_signal_nonneg : Bool) (dpost dpre : α) : Parts α :=
  match lr_post_signal_nonneg, lr_pre_signal_nonneg with
  | false, false => (none, some (dpost + dpre))
  | false, true => (some dpre, some dpost)
  | true, false => (some dpost, some dpre)
  | true, true => (some (dpost + dpre), none)

/-- `DelayAdjustedSTDP.forward`: `match (state.lr_pos >= 0, state.lr_neg >= 0)`, parts `dpos`
(`t_delta >= 0`, amplitude `|lr_pos|`) and `dneg` (`t_delta < 0`, amplitude `|lr_neg|`). -/
def route_delay_adjusted_stdp (lr_pos_nonneg lr_neg_nonneg : Bool) (dpos dneg : α) : Parts α :=
  match lr_pos_nonneg, lr_neg_nonneg with
  | false, false => (none, some (dpos + dneg))
  | false, true => (some dneg, some dpos)
  | true, false => (some dpos, some dneg)
  | true, true => (some (dpos + dneg), none)

/-- `DelayAdjustedSTDPD.forward` (delays): `match (state.lr_neg < 0, state.lr_pos < 0)`;
`dneg` belongs to `lr_neg` (`t_delta >= 0`), `dpos` to `lr_pos` (`t_delta < 0`). -/
def route_delay_adjusted_stdpd (lr_neg_lt lr_pos_lt : Bool) (dpos dneg : α) : Parts α :=
  match lr_neg_lt, lr_pos_lt with
  | true, true => (none, some (dpos + dneg))         -- "potentiative" (of the synapse: delay shrinks)
  | true, false => (some dpos, some dneg)            -- hebbian
  | false, true => (some dneg, some dpos)            -- anti-hebbian
  | false, false => (some (dpos + dneg), none)       -- "depressive"

/-- `DelayAdjustedMSTDP.forward`, scalar `signal`:
`match (state.lr_pos * signal >= 0, state.lr_neg * signal >= 0)`; `dpost` belongs to `lr_pos`. -/
def route_delay_adjusted_mstdp (lr_pos_signal_nonneg lr_neg_signal_nonneg : Bool) (dpost dpre : α) :
    Parts α :=
  match lr_pos_signal_nonneg, lr_neg_signal_nonneg with
  | false, false => (none, some (dpost + dpre))
  | false, true => (some dpre, some dpost)
  | true, false => (some dpost, some dpre)
  | true, true => (some (dpost + dpre), none)

/-- `DelayAdjustedMSTDPD.forward`, scalar `signal`:
`match (state.lr_neg * signal < 0, state.lr_pos * signal < 0)`; `dpost` belongs to `lr_neg`,
`dpre` to `lr_pos`. -/
def route_delay_adjusted_mstdpd (lr_neg_signal_lt lr_pos_signal_lt : Bool) (dpost dpre : α) : Parts α :=
  match lr_neg_signal_lt, lr_pos_signal_lt with
  | true, true => (none, some (dpre + dpost))
  | true, false => (some dpre, some dpost)
  | false, true => (some dpost, some dpre)
  | false, false => (some (dpre + dpost), none)

end Tables

/-! ### The scalar-reward branch with its actual arguments; a trainer's loop over its cells -/
section Forward
variable {α : Type}

/-- Python `abs(x)` -/
def absv [Neg α] [Max α] (x : α) : α := max x (-x)

/-- `MSTDP.forward` / `MSTDPET.forward`, scalar `signal`, from the reduced traces `zpost`, `zpre`:
`dpost = zpost * abs(signal * scale)`, `dpre = zpre * abs(signal * scale)`,
`match (state.lr_post * signal >= 0, state.lr_pre * signal >= 0)` — `scale` enters through its
absolute value only, the rates are the CELL's (`state.…`). -/
def mstdp_forward_scalar [Add α] [Mul α] [Neg α] [Max α] [Zero α] [LE α] [DecidableLE α]
    (lr_post lr_pre signal scale zpost zpre : α) : Parts α :=
  let dpost := zpost * absv (signal * scale)
  let dpre := zpre * absv (signal * scale)
  route_mstdp (decide (0 ≤ lr_post * signal)) (decide (0 ≤ lr_pre * signal)) dpost dpre

/-- `for cell, state, monitors in self:` — every cell is routed with the sign flags of ITS OWN
state (`state.lr_* >= 0`) and its own magnitudes. -/
def forward_cells (route : Bool → Bool → α → α → Parts α) (cells : List (Bool × Bool × α × α)) :
    List (Parts α) :=
  cells.map fun c => route c.1 c.2.1 c.2.2.1 c.2.2.2

end Forward

/-! ### Tensor-valued `signal`: samples are routed one by one, then concatenated and reduced -/
section TensorSignal
variable {α : Type}

/-- `state.batchreduce(d, 0) if d.numel() else None` -/
def reduceOrNone (reduce : List α → α) (d : List α) : Option α :=
  if d.isEmpty then none else some (reduce d)

/-- `MSTDP.forward` / `MSTDPET.forward` / `DelayAdjustedMSTDP.forward`, tensor `signal`:
`dpost_reg` / `dpost_inv` are the rows of the samples with `signal >= 0` / `signal < 0`;
`match (lr_a >= 0, lr_b >= 0)` picks the `torch.cat` operands. -/
def join_mstdp (lr_a_nonneg lr_b_nonneg : Bool) (dpost_reg dpost_inv dpre_reg dpre_inv : List α) :
    List α × List α :=
  match lr_a_nonneg, lr_b_nonneg with
  | false, false => (dpost_inv ++ dpre_inv, dpost_reg ++ dpre_reg)
  | false, true => (dpost_inv ++ dpre_reg, dpost_reg ++ dpre_inv)
  | true, false => (dpost_reg ++ dpre_inv, dpost_inv ++ dpre_reg)
  | true, true => (dpost_reg ++ dpre_reg, dpost_inv ++ dpre_inv)

def route_mstdp_tensor (reduce : List α → α) (lr_a_nonneg lr_b_nonneg : Bool)
    (dpost_reg dpost_inv dpre_reg dpre_inv : List α) : Parts α :=
  let j := join_mstdp lr_a_nonneg lr_b_nonneg dpost_reg dpost_inv dpre_reg dpre_inv
  (reduceOrNone reduce j.1, reduceOrNone reduce j.2)

/-- `DelayAdjustedMSTDPD.forward`, tensor `signal`: `match (state.lr_neg < 0, state.lr_pos < 0)`,
returned as `(dpos, dneg)`. -/
def join_mstdpd (lr_neg_lt lr_pos_lt : Bool) (dpost_reg dpost_inv dpre_reg dpre_inv : List α) :
    List α × List α :=
  match lr_neg_lt, lr_pos_lt with
  | true, true => (dpost_inv ++ dpre_inv, dpost_reg ++ dpre_reg)
  | true, false => (dpost_inv ++ dpre_reg, dpost_reg ++ dpre_inv)
  | false, true => (dpost_reg ++ dpre_inv, dpost_inv ++ dpre_reg)
  | false, false => (dpost_reg ++ dpre_reg, dpost_inv ++ dpre_inv)

def route_mstdpd_tensor (reduce : List α → α) (lr_neg_lt lr_pos_lt : Bool)
    (dpost_reg dpost_inv dpre_reg dpre_inv : List α) : Parts α :=
  let j := join_mstdpd lr_neg_lt lr_pos_lt dpost_reg dpost_inv dpre_reg dpre_inv
  (reduceOrNone reduce j.1, reduceOrNone reduce j.2)

end TensorSignal

/-! ### Clamp splits of a signed quantity -/
section Clamp
variable {α : Type} [Add α] [Neg α] [Zero α] [Max α] [Min α]

/-- `x.clamp_min(0.0)` / `x.clamp_max(0.0)` -/
def clamp_min0 (x : α) : α := max x 0
def clamp_max0 (x : α) : α := min x 0

/-- `torch.sum` over a list -/
def lsum (l : List α) : α := l.foldl (· + ·) 0

/-- `x.nansum(dim=-1)` over the receptive axis: `none` is NaN ("no spike yet"), skipped -/
def nansum (row : List (Option α)) : α := lsum (row.filterMap id)

/-- `KernelSTDP.forward`, `DelayAdjustedKernelSTDP.forward`, `DelayAdjustedKernelSTDPD.forward`:
`dpost`, `dpre` are the SIGNED kernel outputs, batch-major, receptive axis inside;
`(reduce(dpost.clamp_min(0).nansum(-1)) + reduce(dpre.clamp_min(0).nansum(-1)),
  -(reduce(dpost.clamp_max(0).nansum(-1)) + reduce(dpre.clamp_max(0).nansum(-1))))`. -/
def kernel_split (reduce : List α → α) (dpost dpre : List (List (Option α))) : Parts α :=
  (some (reduce (dpost.map fun row => nansum (row.map (·.map clamp_min0)))
         + reduce (dpre.map fun row => nansum (row.map (·.map clamp_min0)))),
   some (-(reduce (dpost.map fun row => nansum (row.map (·.map clamp_max0)))
           + reduce (dpre.map fun row => nansum (row.map (·.map clamp_max0))))))

/-- the same on one signed pair (one sample, one receptive position) -/
def kernel_split1 (dpost dpre : α) : α × α :=
  (clamp_min0 dpost + clamp_min0 dpre, -(clamp_max0 dpost + clamp_max0 dpre))

/-- `LinearHomeostasis.forward`: `k` (per batch sample) already multiplied by `plasticity`
(`-plasticity` for delays): `(reduce(k.clamp_min(0.0)), reduce(k.clamp_max(0.0)))` — the second
component is NOT negated. -/
def homeostasis_split (reduce : List α → α) (k : List α) : Parts α :=
  (some (reduce (k.map clamp_min0)), some (reduce (k.map clamp_max0)))

/-- one sample -/
def homeostasis_pos (k : α) : α := clamp_min0 k
def homeostasis_neg (k : α) : α := clamp_max0 k

/-- what the property requires of a split of a signed quantity: `(max k 0, max (−k) 0)` -/
def signed_split_spec (reduce : List α → α) (k : List α) : Parts α :=
  (some (reduce (k.map clamp_min0)), some (reduce (k.map fun x => clamp_min0 (-x))))

end Clamp

end InfernoVerif.Split
