/-
Model of inferno's layers (`neural/network.py`: `Layer`, `Serial`, `Biclique`,
`RecurrentSerial`) — hand written, code shaped, core Lean only so the driver can execute it.
Tie to the code: correspondence check `harness/corr/c17.py`.

Components (connections, neurons) are ABSTRACT: an `Obj` is any state type with a step function,
a read-out (`neuron.spike`), a `clear` and — as specification — `fresh`, the state of a freshly
built twin that carries the same learned parameters and adaptations.  Everything in
`Props/C17.lean` is proved for every such component.  Tensors are an abstract type `τ`; the only
tensor operations a layer itself performs are `+` (recurrent wiring), `zeros_like`, the
user-supplied transforms and the combine function.

`Layer.forward` is written as in the source: a dictionary of inputs keyed by connection name is
mapped through `connections_`, then through `wiring`, then through `neurons_` (dictionaries are
association lists in insertion order; a missing key is `none` = `KeyError`).
Next to every code-shaped function sits the positional *specification* (`…Spec`).
-/
namespace InfernoVerif.Layer

/-- a stateful component -/
structure Obj (ι ο : Type) : Type 1 where
  σ     : Type
  st    : σ
  step  : σ → ι → σ × ο
  peek  : σ → ο                 -- e.g. the `spike` property of a neuron group
  clear : σ → σ
  fresh : σ → σ                 -- SPEC: freshly built twin with the same parameters / adaptations

variable {ι ο τ : Type}

/-- `module(x)`: the component after the call, and its output -/
def Obj.fwd (o : Obj ι ο) (x : ι) : Obj ι ο × ο :=
  ({ o with st := (o.step o.st x).1 }, (o.step o.st x).2)
def Obj.clr (o : Obj ι ο) : Obj ι ο := { o with st := o.clear o.st }
def Obj.frs (o : Obj ι ο) : Obj ι ο := { o with st := o.fresh o.st }
def Obj.out (o : Obj ι ο) : ο := o.peek o.st

/-- everything observable of a component along an input sequence: the read-out now, then after
each call the output and the rest -/
def Obj.obs (o : Obj ι ο) : List ι → List ο
  | [] => [o.out]
  | x :: xs => o.out :: (o.fwd x).2 :: (o.fwd x).1.obs xs

/-- observational equivalence of two components -/
def Obj.Equiv (a b : Obj ι ο) : Prop := ∀ xs, a.obs xs = b.obs xs

/-- component contract used by `recurrent_eq`: the read-out after a call is that call's output
(for a neuron: `spike` is the spikes just emitted — property C03). -/
def Obj.PeekOK (o : Obj ι ο) : Prop := ∀ s x, o.peek (o.step s x).1 = (o.step s x).2

/-- component contract used by the replay theorems: `clear` behaves like a fresh twin. -/
def Obj.ClearOK (o : Obj ι ο) : Prop := ∀ s, Obj.Equiv { o with st := o.clear s } { o with st := o.fresh s }

abbrev Conn (τ : Type) := Obj (List τ) τ       -- `connection(*inputs)`
abbrev Neur (τ : Type) := Obj τ τ              -- `neuron(inputs)`

/-! ## dictionaries -/

abbrev Dict (α : Type _) := List (String × α)

def Dict.get? {α : Type _} (d : Dict α) (k : String) : Option α :=
  match d with
  | [] => none
  | (k', v) :: rest => if k' = k then some v else Dict.get? rest k

def Dict.set {α : Type _} (d : Dict α) (k : String) (v : α) : Dict α :=
  match d with
  | [] => []
  | (k', v') :: rest => if k' = k then (k', v) :: rest else (k', v') :: Dict.set rest k v

/-- `{k: modules[k](v) for k, v in inputs.items()}`: calls in the order of `inputs`, each call
advancing the named module; `none` on a missing name (`KeyError`). -/
def callAll (mods : Dict (Obj ι ο)) : Dict ι → Option (Dict (Obj ι ο) × Dict ο)
  | [] => some (mods, [])
  | (k, x) :: rest =>
    match mods.get? k with
    | none => none
    | some m =>
      match callAll (mods.set k (m.fwd x).1) rest with
      | none => none
      | some (mods', outs) => some (mods', (k, (m.fwd x).2) :: outs)

/-! ## Layer -/

structure LayerSt (τ : Type) : Type 1 where
  conns : Dict (Conn τ)
  neurs : Dict (Neur τ)

/-- `Layer.forward(inputs, capture_intermediate=True)` (network.py:589-650): connections, then
`wiring`, then neurons.  Returns the new state, the neuron outputs and the connection outputs
(`capture_intermediate=False` returns the same outputs without the intermediate dictionary). -/
def Layer.forward (wiring : Dict τ → Option (Dict τ)) (L : LayerSt τ) (inputs : Dict (List τ)) :
    Option (LayerSt τ × Dict τ × Dict τ) :=
  match callAll L.conns inputs with
  | none => none
  | some (cs, res) =>
    match wiring res with
    | none => none
    | some wired =>
      match callAll L.neurs wired with
      | none => none
      | some (ns, outs) => some ({ conns := cs, neurs := ns }, outs, res)

/-- `Layer.clear(submodules=True)` (network.py:208-221): every connection, then every neuron. -/
def Layer.clear (L : LayerSt τ) : LayerSt τ :=
  { conns := L.conns.map fun kv => (kv.1, kv.2.clr), neurs := L.neurs.map fun kv => (kv.1, kv.2.clr) }

/-- SPEC: the freshly built layer carrying the same parameters. -/
def Layer.fresh (L : LayerSt τ) : LayerSt τ :=
  { conns := L.conns.map fun kv => (kv.1, kv.2.frs), neurs := L.neurs.map fun kv => (kv.1, kv.2.frs) }

/-! ## Serial -/

structure SerialCfg (τ : Type) where
  cn : String                 -- connection name
  nn : String                 -- neuron name
  trans : τ → τ               -- `transform` (identity by default)

/-- `Serial.wiring` -/
def Serial.wiring (S : SerialCfg τ) (res : Dict τ) : Option (Dict τ) :=
  match res.get? S.cn with
  | none => none
  | some y => some [(S.nn, S.trans y)]

/-- `Serial.forward(*inputs, capture_intermediate=True)`: (state, neuron output, connection output) -/
def Serial.forward (S : SerialCfg τ) (L : LayerSt τ) (xs : List τ) : Option (LayerSt τ × τ × τ) :=
  match Layer.forward (Serial.wiring S) L [(S.cn, xs)] with
  | none => none
  | some (L', outs, res) =>
    match outs.get? S.nn, res.get? S.cn with
    | some o, some y => some (L', o, y)
    | _, _ => none

/-- SPEC: `neuron(transform(connection(*inputs)))` -/
def serialSpec (trans : τ → τ) (c : Conn τ) (n : Neur τ) (xs : List τ) : (Conn τ × Neur τ) × τ × τ :=
  let y := (c.fwd xs).2
  let o := (n.fwd (trans y)).2
  (((c.fwd xs).1, (n.fwd (trans y)).1), o, y)

/-! ## Biclique -/

structure BicliqueCfg (τ : Type) where
  post : Dict (τ → τ)                 -- `post_input[k]`, one per connection
  pre  : Dict (τ → τ)                 -- `pre_output[k]`, one per neuron group, in registration order
  comb : Dict τ → Option τ            -- `_combine` (receives the dictionary of transformed outputs)

/-- `{k: post_input[k](v) for k, v in inputs.items()}` -/
def applyPost (post : Dict (τ → τ)) : Dict τ → Option (Dict τ)
  | [] => some []
  | (k, v) :: rest =>
    match post.get? k, applyPost post rest with
    | some f, some r => some ((k, f v) :: r)
    | _, _ => none

/-- `Biclique.wiring` (network.py:804-827): the post-input transforms are applied once
(`transformed = {j: post_input[j](v_j)}`), then for every neuron group `k`
`pre_output[k](combine(transformed))`.  The code calls `combine` once per group so that each group's
transform gets its own tensor OBJECT; tensors are immutable values here, so that is the same value
for every group — sharing of tensor objects (in-place user transforms) is checked on the real
layers by the harness only. -/
def Biclique.wiring (B : BicliqueCfg τ) (res : Dict τ) : Option (Dict τ) :=
  match applyPost B.post res with
  | none => none
  | some tr =>
    match B.comb tr with
    | none => none
    | some z => some (B.pre.map fun kv => (kv.1, kv.2 z))

def Biclique.forward (B : BicliqueCfg τ) (L : LayerSt τ) (inputs : Dict (List τ)) :
    Option (LayerSt τ × Dict τ × Dict τ) := Layer.forward (Biclique.wiring B) L inputs

/-- positional call of a list of components on a list of inputs -/
def fwdAll : List (Obj ι ο) → List ι → List (Obj ι ο) × List ο
  | m :: ms, x :: xs => ((m.fwd x).1 :: (fwdAll ms xs).1, (m.fwd x).2 :: (fwdAll ms xs).2)
  | ms, _ => (ms, [])

/-- SPEC: connection `j` maps its own input; every neuron group `i` receives
`pre_i (combine [post_j (y_j)]_j)` — the same combination for all groups. -/
def bicliqueSpec (names : List String) (posts : List (τ → τ)) (comb : Dict τ → Option τ)
    (pres : List (τ → τ)) (cs : List (Conn τ)) (ns : List (Neur τ)) (xs : List (List τ)) :
    Option ((List (Conn τ) × List (Neur τ)) × List τ × List τ) :=
  let ys := (fwdAll cs xs).2
  match comb (names.zip (List.zipWith (fun f y => f y) posts ys)) with
  | none => none
  | some z =>
    let ins := pres.map fun f => f z
    some (((fwdAll cs xs).1, (fwdAll ns ins).1), (fwdAll ns ins).2, ys)

/-! ## RecurrentSerial -/

structure RecCfg (τ : Type) where
  ffc : String
  latc : String
  fbc : String
  ffn : String
  fbn : String
  ffOut : τ → τ
  latOut : τ → τ
  fbOut : τ → τ
  latIn : τ → List τ            -- `lateral_in_transform` (default: wrap in a tuple)
  fbIn : τ → List τ             -- `feedback_in_transform`
  add : τ → τ → τ
  zerosLike : τ → τ

structure RecSt (τ : Type) : Type 1 where
  L : LayerSt τ
  feedback : Option τ           -- `feedback_spikes` buffer, `None` until the first step / after clear

/-- `RecurrentSerial.wiring(inputs, forward_pass)` -/
def Rec.wiring (R : RecCfg τ) (forwardPass : Bool) (res : Dict τ) : Option (Dict τ) :=
  if forwardPass then
    match res.get? R.ffc, res.get? R.fbc with
    | some a, some b => some [(R.ffn, R.add (R.ffOut a) (R.fbOut b))]
    | _, _ => none
  else
    match res.get? R.latc with
    | some l => some [(R.fbn, R.latOut l)]
    | none => none

/-- `if self.feedback_spikes is None: self.feedback_spikes = zeros_like(feedback_neuron.spike)` -/
def Rec.feedbackIn (R : RecCfg τ) (fb : Option τ) (nfb : Neur τ) : τ :=
  match fb with
  | none => R.zerosLike nfb.out
  | some f => f

/-- `RecurrentSerial.forward(*inputs)` (network.py:1395-1536): returns the new state and
`(feed-forward neuron output, feedback neuron output)`. -/
def Rec.forward (R : RecCfg τ) (S : RecSt τ) (xs : List τ) : Option (RecSt τ × τ × τ) :=
  match S.L.neurs.get? R.fbn with
  | none => none
  | some nfb0 =>
    let fb := Rec.feedbackIn R S.feedback nfb0
    -- forward pass
    match Layer.forward (Rec.wiring R true) S.L [(R.ffc, xs), (R.fbc, R.fbIn fb)] with
    | none => none
    | some (L1, fouts, _) =>
      match L1.neurs.get? R.ffn with
      | none => none
      | some nff1 =>
        -- feedback pass, driven by `feedfwd_neuron.spike`
        match Layer.forward (Rec.wiring R false) L1 [(R.latc, R.latIn nff1.out)] with
        | none => none
        | some (L2, bouts, _) =>
          match L2.neurs.get? R.fbn, fouts.get? R.ffn, bouts.get? R.fbn with
          | some nfb2, some o1, some o2 =>
            -- `self.feedback_spikes = feedback_neuron.spike`
            some ({ L := L2, feedback := some nfb2.out }, o1, o2)
          | _, _, _ => none

/-- `RecurrentSerial.clear()`: drop the stored feedback spikes, clear all components. -/
def Rec.clear (S : RecSt τ) : RecSt τ := { L := Layer.clear S.L, feedback := none }
def Rec.fresh (S : RecSt τ) : RecSt τ := { L := Layer.fresh S.L, feedback := none }

/-- SPEC state: the five components and the feedback group's spikes of the previous step. -/
structure RecSpecSt (τ : Type) : Type 1 where
  cff : Conn τ
  clat : Conn τ
  cfb : Conn τ
  nff : Neur τ
  nfb : Neur τ
  prev : Option τ

/-- SPEC step: feed-forward neurons are driven by `ffOut(ff(x_t)) + fbOut(fb(fbIn(s_{t-1})))`
where `s_{t-1}` is the feedback group's output of the previous step (zeros on the first);
feedback neurons by `latOut(lat(latIn(o_t)))` where `o_t` is the feed-forward output of this step. -/
def recSpecStep (R : RecCfg τ) (s : RecSpecSt τ) (xs : List τ) : RecSpecSt τ × τ × τ :=
  let sprev := Rec.feedbackIn R s.prev s.nfb
  let a := (s.cff.fwd xs).2
  let b := (s.cfb.fwd (R.fbIn sprev)).2
  let o1 := (s.nff.fwd (R.add (R.ffOut a) (R.fbOut b))).2
  let l := (s.clat.fwd (R.latIn o1)).2
  let o2 := ((s.nfb.fwd (R.latOut l))).2
  ({ cff := (s.cff.fwd xs).1, clat := (s.clat.fwd (R.latIn o1)).1, cfb := (s.cfb.fwd (R.fbIn sprev)).1,
     nff := (s.nff.fwd (R.add (R.ffOut a) (R.fbOut b))).1, nfb := (s.nfb.fwd (R.latOut l)).1,
     prev := some o2 }, o1, o2)

def recSpecRun (R : RecCfg τ) (s : RecSpecSt τ) : List (List τ) → List (τ × τ)
  | [] => []
  | xs :: rest => ((recSpecStep R s xs).2) :: recSpecRun R (recSpecStep R s xs).1 rest

/-- the code-shaped layer in the state that corresponds to a specification state -/
def RecSpecSt.toSt (R : RecCfg τ) (s : RecSpecSt τ) : RecSt τ :=
  { L := { conns := [(R.ffc, s.cff), (R.latc, s.clat), (R.fbc, s.cfb)], neurs := [(R.ffn, s.nff), (R.fbn, s.nfb)] },
    feedback := s.prev }

/-- run of the code-shaped machine: outputs per step, `none` at and after a `KeyError` -/
def Rec.run (R : RecCfg τ) (S : RecSt τ) : List (List τ) → List (Option (τ × τ))
  | [] => []
  | xs :: rest =>
    match Rec.forward R S xs with
    | none => none :: []
    | some (S', o) => some o :: Rec.run R S' rest

def Serial.run (C : SerialCfg τ) (L : LayerSt τ) : List (List τ) → List (Option τ)
  | [] => []
  | xs :: rest =>
    match Serial.forward C L xs with
    | none => none :: []
    | some (L', o, _) => some o :: Serial.run C L' rest

def Biclique.run (B : BicliqueCfg τ) (L : LayerSt τ) : List (Dict (List τ)) → List (Option (Dict τ))
  | [] => []
  | xs :: rest =>
    match Biclique.forward B L xs with
    | none => none :: []
    | some (L', o, _) => some o :: Biclique.run B L' rest

/-! ## relations used by the clear / replay theorems -/

/-- same keys, observationally equivalent modules -/
inductive DictEquiv : Dict (Obj ι ο) → Dict (Obj ι ο) → Prop
  | nil : DictEquiv [] []
  | cons {k : String} {a b : Obj ι ο} {as bs : Dict (Obj ι ο)} :
      Obj.Equiv a b → DictEquiv as bs → DictEquiv ((k, a) :: as) ((k, b) :: bs)


/-- two results of a fallible call agree: both fail, or both succeed with related states and equal outputs -/
inductive ResRel {σ : Type _} {β : Type _} (R : σ → σ → Prop) : Option (σ × β) → Option (σ × β) → Prop
  | bothNone : ResRel R none none
  | bothSome {s s' : σ} {o : β} : R s s' → ResRel R (some (s, o)) (some (s', o))


/-- layers with the same keys whose components are pairwise observationally equivalent -/
structure LayerEquiv (L L' : LayerSt τ) : Prop where
  conns : DictEquiv L.conns L'.conns
  neurs : DictEquiv L.neurs L'.neurs


structure RecEquiv (S S' : RecSt τ) : Prop where
  layer : LayerEquiv S.L S'.L
  feedback : S.feedback = S'.feedback


def keys {α : Type _} (d : Dict α) : List String := d.map (·.1)


/-- SPEC run of a serial layer: `neuron(transform(connection(x_t)))` step after step -/
def serialSpecRun (trans : τ → τ) (c : Conn τ) (n : Neur τ) : List (List τ) → List τ
  | [] => []
  | xs :: rest =>
    (serialSpec trans c n xs).2.1 ::
      serialSpecRun trans (serialSpec trans c n xs).1.1 (serialSpec trans c n xs).1.2 rest

/-! ## built-in combine modes on integer tensors (`ein.reduce(list(values), "s ... -> ...", mode)`) -/

inductive Mode | sum | mean | prod | min | max
deriving Repr, DecidableEq

/-- reduce the stacked values at one position; `mean` is exact division (`none` if not integral —
the harness only sends integral means) -/
def reduceAt (m : Mode) (vs : List Int) : Option Int :=
  match vs with
  | [] => none
  | v :: rest =>
    match m with
    | .sum => some (rest.foldl (· + ·) v)
    | .prod => some (rest.foldl (· * ·) v)
    | .min => some (rest.foldl (fun a b => if b < a then b else a) v)
    | .max => some (rest.foldl (fun a b => if b > a then b else a) v)
    | .mean =>
      let s := rest.foldl (· + ·) v
      let n : Int := (rest.length + 1 : Nat)
      if s % n = 0 then some (s / n) else none

/-- position-wise reduction of equally long flat tensors -/
def reduceStack (m : Mode) (ts : List (List Int)) : Option (List Int) :=
  match ts with
  | [] => none
  | t :: _ => (List.range t.length).mapM fun i => reduceAt m (ts.map fun u => u.getD i 0)

end InfernoVerif.Layer
