/-!
# `inferno.core.math.isi` — spike raster → inter-spike intervals (core Lean only)

Code-shaped model (`isiLast`, one definition per statement of the Python function) and the
specification (`specIsiLast`: spike times of every train, successive differences, `none`-padding
to the widest train).  `NaN` padding is `Option.none`; times are exact rationals
(`index * step_time`).  A raster is a list of rows (trains), each a `List Bool` over time —
the layout after the function's own `"t ... -> ... t"` rearrangement; `isi` adds the
`time_first` transposition in and out.  Batch dimensions are flattened to rows (the Python
code flattens them itself through `nonzero` / `view`).
-/
namespace InfernoVerif.Isi

/-! ## torch primitives, as used by the function -/

/-- `F.pad(spikes, (1, 0), value=True)` on one row. -/
def padRow (row : List Bool) : List Bool := true :: row

/-- Last coordinate of `torch.nonzero` restricted to one row, indices starting at `off`. -/
def nzFrom (off : Nat) : List Bool → List Nat
  | [] => []
  | b :: bs => if b then off :: nzFrom (off + 1) bs else nzFrom (off + 1) bs

/-- `torch.nonzero(padded)[..., -1]`: rows are visited in order, so the column indices of the rows
come out concatenated. -/
def nonzeroLast (padded : List (List Bool)) : List Nat := padded.flatMap (nzFrom 0)

/-- Positions (from `off`) holding the value 0: `torch.nonzero(torch.logical_not(nz)).view(-1)`. -/
def zeroPos (off : Nat) : List Nat → List Nat
  | [] => []
  | v :: vs => if v = 0 then off :: zeroPos (off + 1) vs else zeroPos (off + 1) vs

/-- `torch.tensor_split(x, indices)` from position `start`: pieces `x[start:s₀], x[s₀:s₁], …, x[s_k:]`. -/
def tensorSplitFrom {α : Type} (x : List α) (start : Nat) : List Nat → List (List α)
  | [] => [x.drop start]
  | s :: ss => (x.drop start).take (s - start) :: tensorSplitFrom x s ss

def tensorSplit {α : Type} (x : List α) (splits : List Nat) : List (List α) := tensorSplitFrom x 0 splits

def maxLen {α : Type} : List (List α) → Nat
  | [] => 0
  | r :: rs => max r.length (maxLen rs)

/-- `nn.utils.rnn.pad_sequence(seqs, batch_first=True, padding_value=nan)`. -/
def padSequence {α : Type} (seqs : List (List α)) : List (List (Option α)) :=
  seqs.map fun s => s.map some ++ List.replicate (maxLen seqs - s.length) none

/-- `torch.diff(x, dim=-1)` on one row; `nan − a = a − nan = nan`. -/
def diffOpt : List (Option Rat) → List (Option Rat)
  | a :: b :: t => (match a, b with | some a, some b => some (b - a) | _, _ => none) :: diffOpt (b :: t)
  | _ => []

/-- Transpose of a matrix with `ncols` columns (rows shorter than `ncols` cannot occur for the
rectangular tensors the function receives). -/
def transposeN {α : Type} (ncols : Nat) (m : List (List α)) : List (List α) :=
  (List.range ncols).map fun j => m.filterMap (·[j]?)

/-! ## the function, statement by statement (time-last layout) -/

def isiLast (spikes : List (List Bool)) (step_time : Rat) : List (List (Option Rat)) :=
  -- padded = F.pad(spikes, (1, 0), mode="constant", value=True)
  let padded := spikes.map padRow
  -- nz = torch.nonzero(padded)[..., -1]
  let nz := nonzeroLast padded
  -- splits = torch.nonzero(torch.logical_not(nz)).view(-1).tolist()[1:]
  let splits := (zeroPos 0 nz).drop 1
  -- intervals = torch.tensor_split((nz - 1) * step_time, splits, dim=-1)
  let intervals := tensorSplit (nz.map fun (v : Nat) => (((v : Int) - 1 : Int) : Rat) * step_time) splits
  -- intervals = pad_sequence(intervals, batch_first=True, padding_value=nan)[:, 1:]
  let intervals := (padSequence intervals).map (·.drop 1)
  -- intervals = torch.diff(intervals, dim=-1)
  intervals.map diffOpt

/-- `isi(spikes, step_time, time_first)`; `n` is the number of trains (`N₀ × ⋯` flattened),
needed to transpose an empty result. Time-first input is `T` lists of `n` entries. -/
def isi (n : Nat) (spikes : List (List Bool)) (step_time : Rat) (time_first : Bool) :
    List (List (Option Rat)) :=
  if time_first then
    let out := isiLast (transposeN n spikes) step_time
    transposeN (maxLen out) out
  else isiLast spikes step_time

/-! ## specification -/

/-- Spike times of one train: `index * step_time` for every `true`. -/
def spikeTimesFrom (off : Nat) (dt : Rat) : List Bool → List Rat
  | [] => []
  | b :: bs => if b then ((off : Int) : Rat) * dt :: spikeTimesFrom (off + 1) dt bs
               else spikeTimesFrom (off + 1) dt bs

def spikeTimes (row : List Bool) (dt : Rat) : List Rat := spikeTimesFrom 0 dt row

/-- Successive differences. -/
def diffs : List Rat → List Rat
  | a :: b :: t => (b - a) :: diffs (b :: t)
  | _ => []

/-- Re-integration: `integrate t₀ [d₁, d₂, …] = [t₀, t₀+d₁, t₀+d₁+d₂, …]` (`scanl (+)`). -/
def integrate (t0 : Rat) : List Rat → List Rat
  | [] => [t0]
  | d :: ds => t0 :: integrate (t0 + d) ds

/-- Widest train's interval count: `C − 1` with `C` the largest spike count. -/
def specWidth (spikes : List (List Bool)) (dt : Rat) : Nat :=
  maxLen (spikes.map fun r => spikeTimes r dt) - 1

def specIsiLast (spikes : List (List Bool)) (dt : Rat) : List (List (Option Rat)) :=
  spikes.map fun row =>
    let d := diffs (spikeTimes row dt)
    d.map some ++ List.replicate (specWidth spikes dt - d.length) none

def specIsi (n : Nat) (spikes : List (List Bool)) (dt : Rat) (time_first : Bool) :
    List (List (Option Rat)) :=
  if time_first then transposeN (specWidth (transposeN n spikes) dt) (specIsiLast (transposeN n spikes) dt)
  else specIsiLast spikes dt

end InfernoVerif.Isi
