import Mathlib.Analysis.SpecialFunctions.Exp
/-!
# Interpolation / extrapolation kernels — `ℝ` copy (the theorems of `Props/C20.lean` are about these)

The block between `-- BEGIN DEFS` and `-- END DEFS` is textually identical to the one in
`Model/Interp.lean` (the executable `Float` copy); only the prelude (`T`, `exp`) differs.
`harness/corr/c20.py` checks the identity of the two blocks on every run.
-/
namespace InfernoVerif.Interp.R
noncomputable section
open Classical

set_option linter.unusedVariables false  -- Python signatures keep arguments a kernel ignores

/-- scalar type of this copy -/
abbrev T := ℝ
/-- `torch.exp` -/
abbrev exp (x : T) : T := Real.exp x

-- BEGIN DEFS
/-! ## functional/interpolation.py -/

def interp_previous (prev_data next_data sample_at step_time : T) : T :=
  prev_data

def interp_next (prev_data next_data sample_at step_time : T) : T :=
  next_data

def interp_nearest (prev_data next_data sample_at step_time : T) : T :=
  if sample_at / step_time > 0.5 then next_data else prev_data

def interp_linear (prev_data next_data sample_at step_time : T) : T :=
  let slope := (next_data - prev_data) / step_time
  prev_data + slope * sample_at

def interp_expdecay (prev_data next_data sample_at step_time time_constant : T) : T :=
  prev_data * exp (-sample_at / time_constant)

def interp_expratedecay (prev_data next_data sample_at step_time rate_constant : T) : T :=
  prev_data * exp (-sample_at * rate_constant)

/-! ## functional/extrapolation.py  (returns `(X(t=0), X(t=Δt))`) -/

def extrap_previous (sample sample_at prev_data next_data step_time : T) : T × T :=
  (sample, next_data)

def extrap_next (sample sample_at prev_data next_data step_time : T) : T × T :=
  (prev_data, sample)

def extrap_neighbors (sample sample_at prev_data next_data step_time : T) : T × T :=
  (sample, sample)

def extrap_nearest (sample sample_at prev_data next_data step_time : T) : T × T :=
  let cond := sample_at > (step_time / 2)
  (if cond then prev_data else sample, if cond then sample else next_data)

def extrap_linear_forward (sample sample_at prev_data next_data step_time : T)
    (adjust : Option (T → T)) : T × T :=
  let prev_data := match adjust with | some f => f prev_data | none => prev_data
  let slope := (sample - prev_data) / sample_at
  (prev_data, prev_data + slope * step_time)

def extrap_linear_backward (sample sample_at prev_data next_data step_time : T)
    (adjust : Option (T → T)) : T × T :=
  let next_data := match adjust with | some f => f next_data | none => next_data
  let slope := (next_data - sample) / (step_time - sample_at)
  (next_data - slope * step_time, next_data)

def extrap_expdecay (sample sample_at prev_data next_data step_time time_constant : T) : T × T :=
  (sample * exp (sample_at / time_constant),
   sample * exp ((sample_at - step_time) / time_constant))

def extrap_expratedecay (sample sample_at prev_data next_data step_time rate_constant : T) : T × T :=
  (sample * exp (sample_at * rate_constant),
   sample * exp ((sample_at - step_time) * rate_constant))
-- END DEFS

end
end InfernoVerif.Interp.R
