import InfernoVerif.Model.Record
/-
Model of the configuration plumbing (C14) — hand written, code shaped, core Lean only.

State of a component = the configuration it REPORTS through its getters + the temporal
configuration and `recordsz` of every internal `RecordTensor` + the batch dimension of every
batch-constrained tensor.  Record *contents* are not part of this machine: what a setter does to
contents is C13 (`Model/Record.lean`); here a record is summarised by `RecCfg`, whose setters are
the C13 size recomputation (`Props/C14.lean: summary_tracks_record` ties the summary to the C13
machine; the driver additionally runs the C13 machine next to it on every request).

* `BatchM`   — `neural/mixins.py: BatchMixin`
* `DelayM`   — `neural/mixins.py: DelayedMixin`
* `Synapse`  — `neural/base.py: InfernoSynapse` (+ the `add_delayed` / `add_batched` calls of the
               synapse mixins: `k` records, all with `inclusive = True`)
* `Neuron`   — `neural/base.py: InfernoNeuron` + the `dt` property of the concrete neurons
* `Reducer`  — `observe/reducers/base.py: RecordReducer / FoldReducer` (one record `data_`)
* `Conn`     — `neural/base.py: Connection` (`dt`, `batchsz` forwarded to the synapse, `synapse`
               replacement, `delayedby`)
-/
namespace InfernoVerif.Config
open InfernoVerif.Ring (Err)
open InfernoVerif.Record (TimeOps recSize)

variable {τ : Type}

/-- One internal `RecordTensor`: its own dt / duration / inclusive and its `recordsz`. -/
structure RecCfg (τ : Type) where
  dt   : τ
  dur  : τ
  incl : Bool
  n    : Nat
deriving DecidableEq, Repr

/-- `RecordTensor.__init__`: `size = max(ceil(duration / step_time) + inclusive, 1)`. -/
def RecCfg.make (T : TimeOps τ) (dt dur : τ) (incl : Bool) : RecCfg τ :=
  ⟨dt, dur, incl, recSize T dt dur incl⟩

/-- `RecordTensor.dt = v` (recompute the size; C13: the storage follows). -/
def RecCfg.setDt (T : TimeOps τ) (r : RecCfg τ) (v : τ) : RecCfg τ :=
  { r with dt := v, n := recSize T v r.dur r.incl }

def RecCfg.setDur (T : TimeOps τ) (r : RecCfg τ) (v : τ) : RecCfg τ :=
  { r with dur := v, n := recSize T r.dt v r.incl }

def RecCfg.setIncl (T : TimeOps τ) (r : RecCfg τ) (b : Bool) : RecCfg τ :=
  { r with incl := b, n := recSize T r.dt r.dur b }

inductive DType | f32 | f64
deriving DecidableEq, Repr

inductive Out where
  | unit
  | err (e : Err)
  | unsupported
deriving DecidableEq, Repr

/-! ### BatchMixin -/

structure BatchM where
  batch : Nat             -- `__batch_size`
  bdims : List Nat        -- dim-0 constraint of every tensor registered with `add_batched`
deriving DecidableEq, Repr

/-- `add_batched(a)`: `a.reconstrain(0, batch_size)`. -/
def BatchM.add (b : BatchM) : BatchM := { b with bdims := b.bdims ++ [b.batch] }

/-- `batchsz.setter`: `argtest.gt(value, 0, int)`; reconstrain every registered tensor if changed. -/
def BatchM.set (b : BatchM) (v : Int) : Except Err BatchM :=
  if v ≤ 0 then .error .ValueError
  else if v.toNat ≠ b.batch then .ok ⟨v.toNat, b.bdims.map (fun _ => v.toNat)⟩
  else .ok b

/-! ### DelayedMixin -/

structure DelayM (τ : Type) where
  dt    : τ               -- `__step_time`
  delay : τ               -- `__delay`
  recs  : List (RecCfg τ) -- records registered with `add_delayed`
deriving DecidableEq, Repr

/-- `add_delayed(a)`: `a.dt = step_time; a.duration = delay; a.inclusive = True`. -/
def DelayM.add (T : TimeOps τ) (d : DelayM τ) (r : RecCfg τ) : DelayM τ :=
  { d with recs := d.recs ++ [((r.setDt T d.dt).setDur T d.delay).setIncl T true] }

/-- `dt.setter`: `argtest.gt`; `if value != step_time: rec.dt = value for every rec`. -/
def DelayM.setDt [DecidableEq τ] (T : TimeOps τ) (d : DelayM τ) (v : τ) : Except Err (DelayM τ) :=
  if T.pos v = false then .error .ValueError
  else if v ≠ d.dt then .ok { d with dt := v, recs := d.recs.map (·.setDt T v) }
  else .ok d

/-- `delay.setter`: `argtest.gte`; `if value != delay: rec.duration = value for every rec`. -/
def DelayM.setDelay [DecidableEq τ] (T : TimeOps τ) (d : DelayM τ) (v : τ) : Except Err (DelayM τ) :=
  if T.nonneg v = false then .error .ValueError
  else if v ≠ d.delay then .ok { d with delay := v, recs := d.recs.map (·.setDur T v) }
  else .ok d

/-! ### Components -/

structure Synapse (τ : Type) where
  delayed : DelayM τ
  batched : BatchM
  inplace : Bool
  dtype   : DType
deriving DecidableEq, Repr

structure SynCfg (τ : Type) where
  k       : Nat           -- number of RecordTensors the class keeps (Delta 1, DeltaPlus/SingleExp 2, DoubleExp 3)
  dt      : τ
  delay   : τ
  batch   : Nat
  inplace : Bool
  dtype   : DType
deriving DecidableEq, Repr

/-- one `RecordTensor.create(self, name, self.dt, self.delay, …, inclusive=True)` followed by
`add_delayed(name)` and `add_batched(name)`. -/
def Synapse.addRecord (T : TimeOps τ) (s : Synapse τ) : Synapse τ :=
  { s with delayed := s.delayed.add T (RecCfg.make T s.delayed.dt s.delayed.delay true),
           batched := s.batched.add }

/-- `InfernoSynapse.__init__` + the mixin constructors of a class with `k` records
(construction in float32, then `.to(dtype)`). -/
def Synapse.construct (T : TimeOps τ) (c : SynCfg τ) : Synapse τ :=
  Nat.repeat (Synapse.addRecord T) c.k
    { delayed := ⟨c.dt, c.delay, []⟩, batched := ⟨c.batch, []⟩, inplace := c.inplace, dtype := c.dtype }

structure Neuron (τ : Type) where
  dt      : τ
  batched : BatchM
  dtype   : DType
deriving DecidableEq, Repr

structure NeuCfg (τ : Type) where
  m     : Nat             -- number of batch-constrained ShapedTensors (voltage_, refrac_, …)
  dt    : τ
  batch : Nat
  dtype : DType
deriving DecidableEq, Repr

def Neuron.construct (c : NeuCfg τ) : Neuron τ :=
  { dt := c.dt, batched := Nat.repeat BatchM.add c.m ⟨c.batch, []⟩, dtype := c.dtype }

structure Reducer (τ : Type) where
  dt       : τ            -- `__step_time`
  duration : τ            -- `__duration`
  incl     : Bool
  inplace  : Bool
  dtype    : DType
  data     : RecCfg τ     -- `data_`
deriving DecidableEq, Repr

structure RedCfg (τ : Type) where
  dt       : τ
  duration : τ
  incl     : Bool
  inplace  : Bool
  dtype    : DType
deriving DecidableEq, Repr

/-- `FoldReducer.__init__`: `RecordTensor.create(…, self.dt, self.duration, torch.empty(0),
inclusive=inclusive)`, then `add_record`: `rec.dt = dt; rec.duration = duration; rec.inclusive = inclusive`. -/
def Reducer.construct (T : TimeOps τ) (c : RedCfg τ) : Reducer τ :=
  { dt := c.dt, duration := c.duration, incl := c.incl, inplace := c.inplace, dtype := c.dtype,
    data := (((RecCfg.make T c.dt c.duration c.incl).setDt T c.dt).setDur T c.duration).setIncl T c.incl }

structure Conn (τ : Type) where
  syn      : Synapse τ    -- `synapse_`
  hasDelay : Bool         -- the connection was built with learnable delays (`delay_` exists)
deriving DecidableEq, Repr

/-! ### Setter operations -/

inductive COp (τ : Type) where
  | setDt (v : τ)
  | setDelay (v : τ)             -- synapse.delay / connection.synapse.delay
  | setBatch (v : Int)
  | setDuration (v : τ)          -- reducer.duration
  | setInplace (b : Bool)
  | setDtype (d : DType)         -- `module.to(dtype)`
  | setSynapse (c : SynCfg τ)    -- `connection.synapse = <synapse with configuration c>`
deriving Repr

section Steps
variable [DecidableEq τ]

/-- `InfernoSynapse`: `dt`/`delay` setters call the mixin setter then `clear()` (contents only). -/
def Synapse.step (T : TimeOps τ) (s : Synapse τ) : COp τ → Synapse τ × Out
  | .setDt v => match s.delayed.setDt T v with
    | .ok d => ({ s with delayed := d }, .unit)
    | .error e => (s, .err e)
  | .setDelay v => match s.delayed.setDelay T v with
    | .ok d => ({ s with delayed := d }, .unit)
    | .error e => (s, .err e)
  | .setBatch v => match s.batched.set v with
    | .ok b => ({ s with batched := b }, .unit)
    | .error e => (s, .err e)
  | .setInplace b => ({ s with inplace := b }, .unit)
  | .setDtype d => ({ s with dtype := d }, .unit)
  | _ => (s, .unsupported)

/-- concrete neurons: `dt.setter: self.step_time = argtest.gt(value, 0)`; `InfernoNeuron.batchsz`
setter: mixin setter then `clear()`. -/
def Neuron.step (T : TimeOps τ) (s : Neuron τ) : COp τ → Neuron τ × Out
  | .setDt v => if T.pos v = false then (s, .err .ValueError) else ({ s with dt := v }, .unit)
  | .setBatch v => match s.batched.set v with
    | .ok b => ({ s with batched := b }, .unit)
    | .error e => (s, .err e)
  | .setDtype d => ({ s with dtype := d }, .unit)
  | _ => (s, .unsupported)

/-- `RecordReducer`: `dt` (`argtest.gt`), `duration` (`argtest.gt`), `inplace`. -/
def Reducer.step (T : TimeOps τ) (s : Reducer τ) : COp τ → Reducer τ × Out
  | .setDt v =>
    if T.pos v = false then (s, .err .ValueError)
    else if v ≠ s.dt then ({ s with dt := v, data := s.data.setDt T v }, .unit)
    else (s, .unit)
  | .setDuration v =>
    if T.pos v = false then (s, .err .ValueError)
    else if v ≠ s.duration then ({ s with duration := v, data := s.data.setDur T v }, .unit)
    else (s, .unit)
  | .setInplace b => ({ s with inplace := b }, .unit)
  | .setDtype d => ({ s with dtype := d }, .unit)
  | _ => (s, .unsupported)

/-- `Connection`: `dt`, `batchsz` forward to `self.synapse`; `synapse.setter` stores into
`synapse_`; the maximum delay is the synapse's. -/
def Conn.step (T : TimeOps τ) (c : Conn τ) : COp τ → Conn τ × Out
  | .setSynapse cfg => ({ c with syn := Synapse.construct T cfg }, .unit)
  | .setDuration _ => (c, .unsupported)
  | op => let (s', o) := c.syn.step T op; ({ c with syn := s' }, o)

end Steps

/-! ### Reported configuration -/

structure Report (τ : Type) where
  dt       : τ
  span     : Option τ      -- synapse: delay; reducer: duration; connection: `delayedby`
  batch    : Option Nat
  incl     : Option Bool
  inplace  : Option Bool
  dtype    : DType
deriving DecidableEq, Repr

def Synapse.report (s : Synapse τ) : Report τ :=
  ⟨s.delayed.dt, some s.delayed.delay, some s.batched.batch, none, some s.inplace, s.dtype⟩
def Neuron.report (s : Neuron τ) : Report τ := ⟨s.dt, none, some s.batched.batch, none, none, s.dtype⟩
def Reducer.report (s : Reducer τ) : Report τ :=
  ⟨s.dt, some s.duration, none, some s.incl, some s.inplace, s.dtype⟩
def Conn.report (c : Conn τ) : Report τ :=
  ⟨c.syn.delayed.dt, if c.hasDelay then some c.syn.delayed.delay else none, some c.syn.batched.batch,
   none, some c.syn.inplace, c.syn.dtype⟩

/-! ### Pure assignment on configurations ("last write wins") -/

section Cfg
variable [DecidableEq τ]

def SynCfg.assign (c : SynCfg τ) : COp τ → SynCfg τ
  | .setDt v => { c with dt := v }
  | .setDelay v => { c with delay := v }
  | .setBatch v => { c with batch := v.toNat }
  | .setInplace b => { c with inplace := b }
  | .setDtype d => { c with dtype := d }
  | _ => c

def NeuCfg.assign (c : NeuCfg τ) : COp τ → NeuCfg τ
  | .setDt v => { c with dt := v }
  | .setBatch v => { c with batch := v.toNat }
  | .setDtype d => { c with dtype := d }
  | _ => c

def RedCfg.assign (c : RedCfg τ) : COp τ → RedCfg τ
  | .setDt v => { c with dt := v }
  | .setDuration v => { c with duration := v }
  | .setInplace b => { c with inplace := b }
  | .setDtype d => { c with dtype := d }
  | _ => c

/-- the argument passes the setter's own validation -/
def SynCfg.validOp (T : TimeOps τ) : COp τ → Bool
  | .setDt v => T.pos v
  | .setDelay v => T.nonneg v
  | .setBatch v => decide (0 < v)
  | .setInplace _ => true
  | .setDtype _ => true
  | _ => false

def NeuCfg.validOp (T : TimeOps τ) : COp τ → Bool
  | .setDt v => T.pos v
  | .setBatch v => decide (0 < v)
  | .setDtype _ => true
  | _ => false

def RedCfg.validOp (T : TimeOps τ) : COp τ → Bool
  | .setDt v => T.pos v
  | .setDuration v => T.pos v
  | .setInplace _ => true
  | .setDtype _ => true
  | _ => false

/-- a connection's configuration is its synapse's (replaceable) configuration -/
def connAssign (c : SynCfg τ) : COp τ → SynCfg τ
  | .setSynapse c' => c'
  | op => c.assign op

def connValidOp (T : TimeOps τ) : COp τ → Bool
  | .setSynapse _ => true
  | op => SynCfg.validOp T op

def Synapse.run (T : TimeOps τ) (s : Synapse τ) (ops : List (COp τ)) : Synapse τ :=
  ops.foldl (fun s op => (s.step T op).1) s
def Neuron.run (T : TimeOps τ) (s : Neuron τ) (ops : List (COp τ)) : Neuron τ :=
  ops.foldl (fun s op => (s.step T op).1) s
def Reducer.run (T : TimeOps τ) (s : Reducer τ) (ops : List (COp τ)) : Reducer τ :=
  ops.foldl (fun s op => (s.step T op).1) s
def Conn.run (T : TimeOps τ) (c : Conn τ) (ops : List (COp τ)) : Conn τ :=
  ops.foldl (fun c op => (c.step T op).1) c

end Cfg

/-! ### Which reported attribute an assignment is about -/

inductive Attr | dt | span | batch | incl | inplace | dtype | all
deriving DecidableEq, Repr

/-- `all`: replacing the synapse of a connection legitimately replaces every forwarded attribute -/
def COp.attr : COp τ → Attr
  | .setDt _ => .dt
  | .setDelay _ => .span
  | .setDuration _ => .span
  | .setBatch _ => .batch
  | .setInplace _ => .inplace
  | .setDtype _ => .dtype
  | .setSynapse _ => .all

/-- every reported attribute other than `a` has the same value in `r` and `r'` -/
def Report.sameExcept (a : Attr) (r r' : Report τ) : Prop :=
  a = .all ∨
  ((a ≠ .dt → r'.dt = r.dt) ∧ (a ≠ .span → r'.span = r.span) ∧ (a ≠ .batch → r'.batch = r.batch) ∧
   (a ≠ .incl → r'.incl = r.incl) ∧ (a ≠ .inplace → r'.inplace = r.inplace) ∧
   (a ≠ .dtype → r'.dtype = r.dtype))

/-! ### The same plumbing over full C13 record states (driver stream `M`)

`MComp` keeps, instead of the `RecCfg` summaries, one complete C13 machine state per internal
`RecordTensor` (constraints, storage, pointer) and one `ShState` per batch-constrained
`ShapedTensor`, and drives them with the C13 operations the mixins invoke (`rec.dt = v` =
`Record.step (.setDt v)`, `rec.reconstrain(0, b)` = `Record.step (.recon 0 b)`, …).  The driver
prints its sizes next to the summary machine's on every request. -/

inductive CKind where
  | syn | neu | red
  | con (hasDelay : Bool)
deriving DecidableEq, Repr

structure MComp where
  kind    : CKind
  dt      : Rat
  span    : Rat
  batch   : Nat
  incl    : Bool
  inplace : Bool
  dtype   : DType
  recs    : List (Record.MState Rat)
  shaped  : List Shaped.ShState

open InfernoVerif.Record (ratOps) in
/-- records of a synapse: `RecordTensor.create(dt, delay, zeros(batch, P), inclusive=True)`,
`add_delayed`, `add_batched` (= `reconstrain(0, batch)`: raw dim 1). -/
def mSynRecs (k : Nat) (dt delay : Rat) (batch P : Nat) : Except Err (List (Record.MState Rat)) :=
  (List.replicate k ()).mapM fun _ => do
    let r ← Record.construct ratOps dt delay true true false [] (.zeros [batch, P])
    let (r1, o) := Record.step ratOps r (.recon 0 (some (batch : Int)))
    match o with
    | .unit => pure r1
    | .err e => throw e
    | .unsupported => throw .Other

open InfernoVerif.Record (ratOps) in
def MComp.newSyn (kind : CKind) (c : SynCfg Rat) (P : Nat) : Except Err MComp := do
  if ratOps.pos c.dt = false || ratOps.nonneg c.delay = false || c.batch = 0 then throw .ValueError
  let recs ← mSynRecs c.k c.dt c.delay c.batch P
  pure ⟨kind, c.dt, c.delay, c.batch, true, c.inplace, c.dtype, recs, []⟩

open InfernoVerif.Record (ratOps) in
def MComp.newRed (c : RedCfg Rat) : Except Err MComp := do
  if ratOps.pos c.dt = false || ratOps.nonneg c.duration = false then throw .ValueError
  let r ← Record.construct ratOps c.dt c.duration c.incl true false [] .empty
  pure ⟨.red, c.dt, c.duration, 0, c.incl, c.inplace, c.dtype, [r], []⟩

def MComp.newNeu (c : NeuCfg Rat) (P : Nat) : Except Err MComp := do
  if Record.ratOps.pos c.dt = false || c.batch = 0 then throw .ValueError
  let sh ← (List.replicate c.m ()).mapM fun _ => do
    let s ← Shaped.shConstruct [] true false (.tensor [c.batch, P] (List.replicate (c.batch * P) 0))
    let (s1, o) := Shaped.shStep s (.recon 0 (some (c.batch : Int)))
    match o with
    | .unit => pure s1
    | .err e => throw e
    | .unsupported => throw .Other
  pure ⟨.neu, c.dt, 0, c.batch, false, false, c.dtype, [], sh⟩

/-- run one C13 operation on every record; any exception aborts the setter -/
def stepRecs (recs : List (Record.MState Rat)) (op : Record.Op Rat) : Except Err (List (Record.MState Rat)) :=
  recs.mapM fun r =>
    match Record.step Record.ratOps r op with
    | (r', .unit) => pure r'
    | (_, .err e) => throw e
    | (_, .unsupported) => throw .Other

def stepShaped (sh : List Shaped.ShState) (op : Shaped.ShOp) : Except Err (List Shaped.ShState) :=
  sh.mapM fun s =>
    match Shaped.shStep s op with
    | (s', .unit) => pure s'
    | (_, .err e) => throw e
    | (_, .unsupported) => throw .Other

def MComp.isSynLike (m : MComp) : Bool :=
  match m.kind with | .syn => true | .con _ => true | _ => false

def MComp.step (m : MComp) : COp Rat → (P : Nat) → MComp × Out
  | .setDt v, _ =>
    if Record.ratOps.pos v = false then (m, .err .ValueError)
    else if m.kind = .neu then ({ m with dt := v }, .unit)
    else if v ≠ m.dt then
      match stepRecs m.recs (.setDt v) with
      | .ok recs => ({ m with dt := v, recs := recs }, .unit)
      | .error e => (m, .err e)
    else (m, .unit)
  | .setDelay v, _ =>
    if ! m.isSynLike then (m, .unsupported)
    else if Record.ratOps.nonneg v = false then (m, .err .ValueError)
    else if v ≠ m.span then
      match stepRecs m.recs (.setDur v) with
      | .ok recs => ({ m with span := v, recs := recs }, .unit)
      | .error e => (m, .err e)
    else (m, .unit)
  | .setDuration v, _ =>
    if m.kind ≠ .red then (m, .unsupported)
    else if Record.ratOps.pos v = false then (m, .err .ValueError)
    else if v ≠ m.span then
      match stepRecs m.recs (.setDur v) with
      | .ok recs => ({ m with span := v, recs := recs }, .unit)
      | .error e => (m, .err e)
    else (m, .unit)
  | .setBatch v, _ =>
    if m.kind = .red then (m, .unsupported)
    else if v ≤ 0 then (m, .err .ValueError)
    else if v.toNat ≠ m.batch then
      match stepRecs m.recs (.recon 0 (some v)), stepShaped m.shaped (.recon 0 (some v)) with
      | .ok recs, .ok sh => ({ m with batch := v.toNat, recs := recs, shaped := sh }, .unit)
      | .error e, _ => (m, .err e)
      | _, .error e => (m, .err e)
    else (m, .unit)
  | .setInplace b, _ => if m.kind = .neu then (m, .unsupported) else ({ m with inplace := b }, .unit)
  | .setDtype d, _ => ({ m with dtype := d }, .unit)
  | .setSynapse c, P =>
    match m.kind with
    | .con hd =>
      match MComp.newSyn (.con hd) c P with
      | .ok m' => (m', .unit)
      | .error e => (m, .err e)
    | _ => (m, .unsupported)

end InfernoVerif.Config
