/-!
# `inferno.core.math.victor_purpura_pair_dist` — Needleman–Wunsch spike-train distance (core Lean only)

* `Cost`: the cost per unit time `q ∈ [0, ∞]` (`Rat` plus an explicit `top`).
* Code-shaped model: `victor_purpura_pair_dist` with the function's three branches (Python-float
  cost `0`, Python-float cost `inf`, dynamic programme) and the grid filled row by row exactly as
  the two nested loops do (`grid[r, 0] = r`, `grid[0, c] = c`,
  `grid[r, c] = amin(grid[r-1, c] + 1, grid[r, c-1] + 1, grid[r-1, c-1] + cost·|t0[r-1] − t1[c-1]|)`
  with `nan_to_num(nan=inf)`: `inf · 0 = nan ↦ inf`, so for `cost = inf` the shift candidate is `+∞`).
* Specification: `vpRec`, the same recurrence as a recursion on two lists.
Spike times are exact rationals; grid values are always finite rationals (`+∞` only occurs as a
candidate inside `amin`, modelled by `Option.none`).
-/
namespace InfernoVerif.VP

/-- Cost per unit time, `q ∈ [0, ∞]`. -/
inductive Cost where
  | fin (q : Rat)
  | top
deriving Repr, DecidableEq

/-- The domain of the function: `0 ≤ q ≤ ∞`. -/
def Cost.Nonneg : Cost → Prop
  | .fin q => 0 ≤ q
  | .top => True

def absQ (x : Rat) : Rat := if 0 ≤ x then x else -x

def minQ (a b : Rat) : Rat := if a ≤ b then a else b

/-- `cost * torch.abs(a - b)` after `nan_to_num(nan=inf)`; `none` is `+∞`. -/
def shiftCost : Cost → Rat → Rat → Option Rat
  | .fin q, a, b => some (q * absQ (a - b))
  | .top, _, _ => none

/-- `torch.stack((c_add_a, c_add_b, c_shift), 0).nan_to_num(nan=inf).amin(0)`; `base` is
`grid[r-1, c-1]`, the shift candidate is `base + shift`. -/
def min3 (addA addB base : Rat) (shift : Option Rat) : Rat :=
  match shift with
  | some s => minQ (minQ addA addB) (base + s)
  | none => minQ addA addB

/-! ## code-shaped: the grid, row by row -/

/-- Inner loop `for c in range(1, m + 1)` of row `r` (spike `x = t0[r-1]`): `left = grid[r, c-1]`,
`diag = grid[r-1, c-1]`, `prev = grid[r-1, c:]`, `ys = t1[c-1:]`. Returns `grid[r, c:]`. -/
def rowStep (q : Cost) (x : Rat) (left diag : Rat) : List Rat → List Rat → List Rat
  | p :: ps, y :: ys =>
    let v := min3 (p + 1) (left + 1) diag (shiftCost q x y)
    v :: rowStep q x v p ps ys
  | _, _ => []

/-- Row `r` of the grid from row `r - 1`; `grid[r, 0] = r` (the `arange` initialisation). -/
def nextRow (q : Cost) (ys : List Rat) (prev : List Rat) (r : Nat) (x : Rat) : List Rat :=
  match prev with
  | [] => []
  | p0 :: ps => (r : Rat) :: rowStep q x (r : Rat) p0 ps ys

/-- `grid[0, :] = arange(0, m + 1)`. -/
def firstRow (ys : List Rat) : List Rat := (List.range (ys.length + 1)).map fun (c : Nat) => (c : Rat)

/-- Outer loop: rows `r₀ + 1, r₀ + 2, …` for the spikes `xs`, starting from `row = grid[r₀, :]`. -/
def rowsFrom (q : Cost) (ys : List Rat) (row : List Rat) (r0 : Nat) : List Rat → List Rat
  | [] => row
  | x :: xs => rowsFrom q ys (nextRow q ys row (r0 + 1) x) (r0 + 1) xs

/-- `grid[-1, -1]` after the dynamic programme. -/
def vpGrid (q : Cost) (t0 t1 : List Rat) : Rat :=
  ((rowsFrom q t1 (firstRow t1) 0 t0).getLast?).getD 0

/-- The Python function. `costIsTensor = false`: `cost` is a Python float, so `0` and `inf` take
the two early returns; `costIsTensor = true`: every cost goes through the grid. -/
def victor_purpura_pair_dist (t0 t1 : List Rat) (cost : Cost) (costIsTensor : Bool) : Rat :=
  if !costIsTensor && cost == .fin 0 then
    absQ ((t0.length : Rat) - (t1.length : Rat))
  else if !costIsTensor && cost == .top then
    (t0.length : Rat) + (t1.length : Rat)
  else vpGrid cost t0 t1

/-! ## specification: the recurrence on two lists -/

/-- `vpRec q a b`: cheapest way to turn `a` into `b` deleting / inserting a spike at cost 1 and
moving one by `Δ` at cost `q·Δ`, heads first. -/
def vpRec (q : Cost) : List Rat → List Rat → Rat
  | [], ys => (ys.length : Rat)
  | x :: xs, [] => ((x :: xs).length : Rat)
  | x :: xs, y :: ys =>
    min3 (vpRec q xs (y :: ys) + 1) (vpRec q (x :: xs) ys + 1) (vpRec q xs ys) (shiftCost q x y)
termination_by xs ys => xs.length + ys.length

end InfernoVerif.VP
