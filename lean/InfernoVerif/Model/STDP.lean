import InfernoVerif.Gen.TraceR
import InfernoVerif.Model.Ring
/-!
# STDP-family trainers, per weight — `ℝ` copy (the theorems of `Props/C08.lean` are about these)

Hand-written wiring of `inferno/learn/trainers/{two,three}_factor_stdp.py` (`STDP`, `MSTDP`,
`MSTDPET`, `TripletSTDP`: `register_cell` amplitudes / durations and `forward`) on top of the
GENERATED trace recurrences (`Gen/TraceR.lean`), followed by the SPECIFICATION (explicit sums over
spike pairs).  One weight is described by its delay `k` (in steps) and, per batch sample, the list
of (pre train, post train) pairs of its receptive field (one pair for dense / direct / lateral
connections, one per output position for a convolution).

The block between `-- BEGIN DEFS` and `-- END DEFS` is TEXTUALLY IDENTICAL to the one in
`Model/STDPF.lean` (the executable `Float` copy run by `drivers/C08.lean`); only the prelude
differs.  `harness/corr/c08.py` checks the identity of the two blocks on every run and ties the
`Float` copy to the real trainers by the correspondence check.
-/
namespace InfernoVerif.STDP.R
noncomputable section
open Classical
open InfernoVerif.Gen.TraceR (trace_cumulative trace_nearest trace_cumulative_value)

/-- scalar type of this copy -/
abbrev T := ℝ
/-- `math.exp` -/
abbrev exp (x : T) : T := Real.exp x
/-- `abs` -/
abbrev absT (x : T) : T := |x|
/-- an integer count as a scalar -/
abbrev ofNat (n : Nat) : T := (n : ℝ)

-- BEGIN DEFS
/-! ## reducers (`observe/reducers/trace.py`, `general.py`, `base.py`) -/

/-- a boolean observation as a number (`obs.to(dtype=self.data.dtype)`, target `True` ↦ `1`) -/
def ind (b : Bool) : T := if b then 1 else 0

/-- `math.exp(-self.dt / self.time_constant)` (trace reducer constructors) -/
def decayOf (dt tc : T) : T := exp ((-dt) / tc)

/-- `CumulativeTraceReducer.fold` on a boolean observation (`target=True`, `tolerance=None`):
the GENERATED `trace_cumulative` -/
def cumFold (decay amp : T) (o : Bool) (state : Option T) : T :=
  trace_cumulative (ind o) state decay amp 1 none

/-- `NearestTraceReducer.fold`: the GENERATED `trace_nearest` -/
def nearFold (decay amp : T) (o : Bool) (state : Option T) : T :=
  trace_nearest (ind o) state decay amp 1 none

/-- `EligibilityTraceReducer.fold` after the einsum: the GENERATED `trace_cumulative_value` -/
def eligFold (decay scale : T) (o : T) (state : Option T) : T :=
  trace_cumulative_value o state decay scale

/-- `FoldReducer.forward` over a run: the first call folds with `None`, later ones with `peek()` -/
def foldRun {α : Type} (fold : α → Option T → T) (o : Nat → α) : Nat → T
  | 0 => fold (o 0) none
  | t + 1 => fold (o (t + 1)) (some (foldRun fold o t))

/-- trace monitor of a spike train, `state.tracecls` chosen by `trace_mode` -/
def spikeTrace (nearest : Bool) (decay amp : T) (s : Nat → Bool) (t : Nat) : T :=
  foldRun (if nearest then nearFold decay amp else cumFold decay amp) s t

/-- the reducer's record (`n` slots, fill `0`) after the pushes of steps `0 … t`, read `off` slots
behind the write position (`RecordTensor.read(off)`; `select` at the on-grid time `(off-1)·dt`) -/
def recordRead (n : Nat) (x : Nat → T) (t off : Nat) : Option T :=
  Ring.specRead (Ring.pushAll (List.replicate n (0 : T)) ((List.range (t + 1)).map x)) (off : Int)

/-- `monitor.view(selector)` with the selector `k` steps: the value `k` steps before the latest -/
def viewBack (n : Nat) (x : Nat → T) (t k : Nat) : T := (recordRead n x t (k + 1)).getD 0

/-- `connection.synspike` = `synapse.spike_at(selector)`: the input train `k` steps ago (C06) -/
def shift (k : Nat) (s : Nat → Bool) (t : Nat) : Bool := if t < k then false else s (t - k)

/-! ## shared plumbing of `forward` -/

/-- `torch.sum` / the `r` contraction of `einsum`, left to right -/
def lsum (xs : List T) : T := xs.foldl (· + ·) 0

/-- one (batch sample, receptive-field element): the spike trains of the two neurons it joins -/
structure Syn where
  pre : Nat → Bool
  post : Nat → Bool

inductive Red | sum | mean
deriving DecidableEq, Repr

/-- `state.batchreduce(x, 0)` for `torch.sum` / `torch.mean` -/
def reduce (r : Red) (xs : List T) : T :=
  match r with
  | .sum => lsum xs
  | .mean => lsum xs / ofNat xs.length

/-- the `match (… >= 0, … >= 0)` table of every `forward`: `(pos, neg)` handed to the updater -/
def route (a b : Bool) (dpost dpre : T) : Option T × Option T :=
  match a, b with
  | false, false => (none, some (dpost + dpre))
  | false, true => (some dpre, some dpost)
  | true, false => (some dpost, some dpre)
  | true, true => (some (dpost + dpre), none)

/-- `Accumulator`: a `None` part is not appended, so it adds nothing -/
def part (o : Option T) : T := match o with | some x => x | none => 0

/-- net change of the weight by one accumulated update with no bounding (`p - n`) -/
def net (u : Option T × Option T) : T := part u.1 - part u.2

/-! ## pair-based STDP (`two_factor_stdp.py :: STDP`), also the base of MSTDP / MSTDPET -/

structure Cfg where
  lrPost : T
  lrPre : T
  tcPost : T
  tcPre : T
  dt : T
  nearest : Bool
  /-- `state.delayed and cell.connection.delayedby` -/
  delayed : Bool
  /-- `delayedby / dt`: the presynaptic monitors keep `D + 1` slots in the delayed mode -/
  D : Nat

/-- `x_pre` of `forward`, for one synapse with delay `k` steps -/
def xPre (c : Cfg) (pre : Nat → Bool) (k t : Nat) : T :=
  if c.delayed then
    viewBack (c.D + 1) (spikeTrace c.nearest (decayOf c.dt c.tcPre) (absT c.lrPost) pre) t k
  else spikeTrace c.nearest (decayOf c.dt c.tcPre) (absT c.lrPost) (shift k pre) t

/-- `i_pre` of `forward` -/
def iPre (c : Cfg) (pre : Nat → Bool) (k t : Nat) : T :=
  if c.delayed then viewBack (c.D + 1) (fun u => ind (pre u)) t k else ind (shift k pre t)

/-- `x_post` of `forward` -/
def xPost (c : Cfg) (post : Nat → Bool) (t : Nat) : T :=
  spikeTrace c.nearest (decayOf c.dt c.tcPost) (absT c.lrPre) post t

/-- `einsum(i_post, x_pre, "b ... r, b ... r -> b ...")` for one sample -/
def dpostB (c : Cfg) (k : Nat) (f : List Syn) (t : Nat) : T :=
  lsum (f.map fun s => ind (s.post t) * xPre c s.pre k t)

/-- `einsum(i_pre, x_post, "b ... r, b ... r -> b ...")` for one sample -/
def dpreB (c : Cfg) (k : Nat) (f : List Syn) (t : Nat) : T :=
  lsum (f.map fun s => iPre c s.pre k t * xPost c s.post t)

/-- `STDP.forward` at step `t` for one weight: batch `bt` (outer) of receptive fields (inner) -/
def stdpStep (c : Cfg) (r : Red) (k : Nat) (bt : List (List Syn)) (t : Nat) : Option T × Option T :=
  route (decide (c.lrPost ≥ 0)) (decide (c.lrPre ≥ 0))
    (reduce r (bt.map fun f => dpostB c k f t)) (reduce r (bt.map fun f => dpreB c k f t))

/-! ## MSTDP (`three_factor_stdp.py :: MSTDP`) -/

/-- scalar `signal` branch -/
def mstdpScalar (c : Cfg) (r : Red) (k : Nat) (bt : List (List Syn)) (signal scale : T) (t : Nat) :
    Option T × Option T :=
  route (decide (c.lrPost * signal ≥ 0)) (decide (c.lrPre * signal ≥ 0))
    (reduce r (bt.map fun f => dpostB c k f t) * absT (signal * scale))
    (reduce r (bt.map fun f => dpreB c k f t) * absT (signal * scale))

/-- `x[signal_pos]` / `x[signal_neg]`: the samples whose signal satisfies `p`, in batch order -/
def pick (p : T → Bool) (sig xs : List T) : List T :=
  (xs.zip sig).filterMap fun xs => if p xs.2 then some xs.1 else none

/-- `state.batchreduce(d, 0) if d.numel() else None` -/
def redOpt (r : Red) (xs : List T) : Option T := if xs.isEmpty then none else some (reduce r xs)

/-- the `torch.cat` table of the tensor-signal branch -/
def routeT (a b : Bool) (postReg postInv preReg preInv : List T) : List T × List T :=
  match a, b with
  | false, false => (postInv ++ preInv, postReg ++ preReg)
  | false, true => (postInv ++ preReg, postReg ++ preInv)
  | true, false => (postReg ++ preInv, postInv ++ preReg)
  | true, true => (postReg ++ preReg, postInv ++ preInv)

/-- tensor-signal tail shared by MSTDP and MSTDPET: per-sample terms `dpost`, `dpre` -/
def signalSplit (lrPost lrPre : T) (r : Red) (sig : List T) (scale : T) (dpost dpre : List T) :
    Option T × Option T :=
  let ss := sig.map fun s => absT (s * scale)
  let dpost := (dpost.zip ss).map fun x => x.1 * x.2
  let dpre := (dpre.zip ss).map fun x => x.1 * x.2
  let reg := fun (s : T) => decide (s ≥ 0)
  let inv := fun (s : T) => decide (s < 0)
  let d := routeT (decide (lrPost ≥ 0)) (decide (lrPre ≥ 0))
    (pick reg sig dpost) (pick inv sig dpost) (pick reg sig dpre) (pick inv sig dpre)
  (redOpt r d.1, redOpt r d.2)

/-- tensor `signal` branch (one signal per batch sample) -/
def mstdpTensor (c : Cfg) (r : Red) (k : Nat) (bt : List (List Syn)) (sig : List T) (scale : T) (t : Nat) :
    Option T × Option T :=
  signalSplit c.lrPost c.lrPre r sig scale (bt.map fun f => dpostB c k f t) (bt.map fun f => dpreB c k f t)

/-! ## MSTDPET (`three_factor_stdp.py :: MSTDPET`): always reads `connection.synspike` -/

/-- `elig_post` of one sample: `EligibilityTraceReducer` over `trace_pre.latest`, `spike_post.latest` -/
def zPost (c : Cfg) (tcz : T) (k : Nat) (f : List Syn) (t : Nat) : T :=
  foldRun (eligFold (decayOf c.dt tcz) (1 / tcz)) (fun u => dpostB c k f u) t

/-- `elig_pre` of one sample -/
def zPre (c : Cfg) (tcz : T) (k : Nat) (f : List Syn) (t : Nat) : T :=
  foldRun (eligFold (decayOf c.dt tcz) (1 / tcz)) (fun u => dpreB c k f u) t

def mstdpetScalar (c : Cfg) (tcz : T) (r : Red) (k : Nat) (bt : List (List Syn)) (signal scale : T) (t : Nat) :
    Option T × Option T :=
  route (decide (c.lrPost * signal ≥ 0)) (decide (c.lrPre * signal ≥ 0))
    (reduce r (bt.map fun f => zPost c tcz k f t) * absT (signal * scale))
    (reduce r (bt.map fun f => zPre c tcz k f t) * absT (signal * scale))

def mstdpetTensor (c : Cfg) (tcz : T) (r : Red) (k : Nat) (bt : List (List Syn)) (sig : List T) (scale : T)
    (t : Nat) : Option T × Option T :=
  signalSplit c.lrPost c.lrPre r sig scale (bt.map fun f => zPost c tcz k f t) (bt.map fun f => zPre c tcz k f t)

/-! ## triplet STDP (`two_factor_stdp.py :: TripletSTDP`) -/

structure TCfg where
  aPost : T          -- lr_post_pair
  bPost : T          -- lr_post_triplet (the constructor stores its absolute value)
  aPre : T
  bPre : T
  tcPostFast : T
  tcPostSlow : T
  tcPreFast : T
  tcPreSlow : T
  dt : T
  nearest : Bool
  delayed : Bool
  D : Nat

/-- amplitude of a slow trace: `abs(state.lr_x_triplet / state.lr_x_pair)` with `lr_x_triplet = abs(…)` -/
def slowAmp (b a : T) : T := absT (absT b / a)

/-- `x_a` -/
def xA (c : TCfg) (pre : Nat → Bool) (k t : Nat) : T :=
  if c.delayed then
    viewBack (c.D + 1) (spikeTrace c.nearest (decayOf c.dt c.tcPreFast) (absT c.aPost) pre) t k
  else spikeTrace c.nearest (decayOf c.dt c.tcPreFast) (absT c.aPost) (shift k pre) t

/-- `y_a` -/
def yA (c : TCfg) (post : Nat → Bool) (t : Nat) : T :=
  spikeTrace c.nearest (decayOf c.dt c.tcPostFast) (absT c.aPre) post t

/-- `y_b = trace_post_slow.data_.read(2)` (3 slots): the slow trace one step earlier -/
def yB (c : TCfg) (post : Nat → Bool) (t : Nat) : T :=
  viewBack 3 (spikeTrace c.nearest (decayOf c.dt c.tcPostSlow) (slowAmp c.bPost c.aPost) post) t 1

/-- `x_b`: `select(selector, …, offset=2)` (`D + 2` slots) in the delayed mode, `read(2)` otherwise -/
def xB (c : TCfg) (pre : Nat → Bool) (k t : Nat) : T :=
  if c.delayed then
    viewBack (c.D + 2) (spikeTrace c.nearest (decayOf c.dt c.tcPreSlow) (slowAmp c.bPre c.aPre) pre) t (k + 1)
  else viewBack 3 (spikeTrace c.nearest (decayOf c.dt c.tcPreSlow) (slowAmp c.bPre c.aPre) (shift k pre)) t 1

/-- spike presence `x` before the triplet factor -/
def iPreT (c : TCfg) (pre : Nat → Bool) (k t : Nat) : T :=
  if c.delayed then viewBack (c.D + 1) (fun u => ind (pre u)) t k else ind (shift k pre t)

def tripletDpostB (c : TCfg) (k : Nat) (f : List Syn) (t : Nat) : T :=
  lsum (f.map fun s => ((1 + yB c s.post t) * ind (s.post t)) * xA c s.pre k t)

def tripletDpreB (c : TCfg) (k : Nat) (f : List Syn) (t : Nat) : T :=
  lsum (f.map fun s => ((1 + xB c s.pre k t) * iPreT c s.pre k t) * yA c s.post t)

def tripletStep (c : TCfg) (r : Red) (k : Nat) (bt : List (List Syn)) (t : Nat) : Option T × Option T :=
  route (decide (c.aPost ≥ 0)) (decide (c.aPre ≥ 0))
    (reduce r (bt.map fun f => tripletDpostB c k f t)) (reduce r (bt.map fun f => tripletDpreB c k f t))

/-! ## SPECIFICATION: explicit sums over spike pairs (the `S` stream of the driver) -/

/-- exponential window `exp(-(m·dt)/τ)` for spikes `m` steps apart -/
def win (dt tau : T) (m : Nat) : T := exp (-(ofNat m * dt) / tau)

/-- all partner spikes `u` with `u + k ≤ t` (the partner's times shifted by the delay `k`) -/
def pairAll (dt tau : T) (partner : Nat → Bool) (k t : Nat) : T :=
  lsum ((List.range (t + 1)).map fun u => if partner u && decide (u + k ≤ t) then win dt tau (t - (u + k)) else 0)

/-- step of the most recent spike of `s` at or before `t` -/
def lastSpike (s : Nat → Bool) : Nat → Option Nat
  | 0 => if s 0 then some 0 else none
  | t + 1 => if s (t + 1) then some (t + 1) else lastSpike s t

/-- the most recent partner spike only (its time shifted by `k`) -/
def pairLast (dt tau : T) (partner : Nat → Bool) (k t : Nat) : T :=
  if t < k then 0 else
  match lastSpike partner (t - k) with
  | some u => win dt tau (t - k - u)
  | none => 0

/-- pair kernel: all partners (cumulative) or the most recent one (nearest) -/
def pairK (nearest : Bool) (dt tau : T) (partner : Nat → Bool) (k t : Nat) : T :=
  if nearest then pairLast dt tau partner k t else pairAll dt tau partner k t

/-- documented contribution of the post spike at `t` (if any): `|η_post| Σ_pre exp(-(t_post - t_pre - d)/τ_pre)` -/
def specPost (c : Cfg) (k : Nat) (s : Syn) (t : Nat) : T :=
  if s.post t then absT c.lrPost * pairK c.nearest c.dt c.tcPre s.pre k t else 0

/-- documented contribution of the (delayed) pre spike arriving at `t`: `|η_pre| Σ_post exp(-(t_pre + d - t_post)/τ_post)` -/
def specPre (c : Cfg) (k : Nat) (s : Syn) (t : Nat) : T :=
  if shift k s.pre t then absT c.lrPre * pairK c.nearest c.dt c.tcPost s.post 0 t else 0

def specStdp (c : Cfg) (r : Red) (k : Nat) (bt : List (List Syn)) (t : Nat) : Option T × Option T :=
  route (decide (c.lrPost ≥ 0)) (decide (c.lrPre ≥ 0))
    (reduce r (bt.map fun f => lsum (f.map fun s => specPost c k s t)))
    (reduce r (bt.map fun f => lsum (f.map fun s => specPre c k s t)))

def specMstdpScalar (c : Cfg) (r : Red) (k : Nat) (bt : List (List Syn)) (signal scale : T) (t : Nat) :
    Option T × Option T :=
  route (decide (c.lrPost * signal ≥ 0)) (decide (c.lrPre * signal ≥ 0))
    (reduce r (bt.map fun f => lsum (f.map fun s => specPost c k s t)) * absT (signal * scale))
    (reduce r (bt.map fun f => lsum (f.map fun s => specPre c k s t)) * absT (signal * scale))

def specMstdpTensor (c : Cfg) (r : Red) (k : Nat) (bt : List (List Syn)) (sig : List T) (scale : T) (t : Nat) :
    Option T × Option T :=
  signalSplit c.lrPost c.lrPre r sig scale (bt.map fun f => lsum (f.map fun s => specPost c k s t))
    (bt.map fun f => lsum (f.map fun s => specPre c k s t))

/-- documented eligibility: `z(t) = Σ_{u ≤ t} exp(-((t-u)·dt)/τ_z) · contribution(u) / τ_z` -/
def specZ (dt tcz : T) (contrib : Nat → T) (t : Nat) : T :=
  lsum ((List.range (t + 1)).map fun u => win dt tcz (t - u) * (contrib u / tcz))

def specMstdpetScalar (c : Cfg) (tcz : T) (r : Red) (k : Nat) (bt : List (List Syn)) (signal scale : T)
    (t : Nat) : Option T × Option T :=
  route (decide (c.lrPost * signal ≥ 0)) (decide (c.lrPre * signal ≥ 0))
    (reduce r (bt.map fun f => specZ c.dt tcz (fun u => lsum (f.map fun s => specPost c k s u)) t) * absT (signal * scale))
    (reduce r (bt.map fun f => specZ c.dt tcz (fun u => lsum (f.map fun s => specPre c k s u)) t) * absT (signal * scale))

def specMstdpetTensor (c : Cfg) (tcz : T) (r : Red) (k : Nat) (bt : List (List Syn)) (sig : List T) (scale : T)
    (t : Nat) : Option T × Option T :=
  signalSplit c.lrPost c.lrPre r sig scale
    (bt.map fun f => specZ c.dt tcz (fun u => lsum (f.map fun s => specPost c k s u)) t)
    (bt.map fun f => specZ c.dt tcz (fun u => lsum (f.map fun s => specPre c k s u)) t)

/-- documented triplet factor `1 + (slow trace of the triggering population one step earlier)` -/
def tripletFactor (nearest : Bool) (dt tau amp : T) (own : Nat → Bool) (t : Nat) : T :=
  if t = 0 then 1 else 1 + amp * pairK nearest dt tau own 0 (t - 1)

def specTripletPost (c : TCfg) (k : Nat) (s : Syn) (t : Nat) : T :=
  if s.post t then
    absT c.aPost * pairK c.nearest c.dt c.tcPreFast s.pre k t
      * tripletFactor c.nearest c.dt c.tcPostSlow (slowAmp c.bPost c.aPost) s.post t
  else 0

def specTripletPre (c : TCfg) (k : Nat) (s : Syn) (t : Nat) : T :=
  if shift k s.pre t then
    absT c.aPre * pairK c.nearest c.dt c.tcPostFast s.post 0 t
      * tripletFactor c.nearest c.dt c.tcPreSlow (slowAmp c.bPre c.aPre) (shift k s.pre) t
  else 0

def specTriplet (c : TCfg) (r : Red) (k : Nat) (bt : List (List Syn)) (t : Nat) : Option T × Option T :=
  route (decide (c.aPost ≥ 0)) (decide (c.aPre ≥ 0))
    (reduce r (bt.map fun f => lsum (f.map fun s => specTripletPost c k s t)))
    (reduce r (bt.map fun f => lsum (f.map fun s => specTripletPre c k s t)))
-- END DEFS

end
end InfernoVerif.STDP.R
