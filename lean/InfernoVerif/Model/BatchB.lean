import InfernoVerif.Model.Batch
import InfernoVerif.Model.Synapse
/-
CONCRETE batched models for C11 ("batch samples never interact") — hand written, code shaped, core
Lean only (no Mathlib), executable.  Unlike `Model/Batch.lean` (a batched component = a list of
per-sample states), the state here is what the code holds: ONE tensor for the whole batch.

* §1 `SynB` — a delta-type synapse (`DeltaCurrent`) with history: ONE `Ring` whose rows are the
  batch-major flattening of the `B × N` spike tensor (`B·N` entries, entry `b·N + i` = sample `b`,
  synapse input `i`); `forward` pushes the whole batched row; `currentAt` is `_synparam_at`
  (synapses/mixins.py) on the whole `B × N × D` selector: clamp, the all-or-nothing range test of
  `RecordTensor.select` (`amin`/`amax` over the WHOLE tensor), `gather` along the time axis with
  per-position offsets, interpolation, the `ceil == floor` bypass, overbound `where`.
* §2 `DenseB` — `LinearDense.forward` with the batch index explicit: undelayed
  `F.linear` (`out[b][o] = Σ_i x[b][i]·W[o][i] + bias[o]`), delayed
  `einsum "b i o, o i -> b o"` (`out[b][o] = Σ_i x[b][i][o]·W[o][i] + bias[o]`) on
  `synapse.current_at(self.selector)`, `selector` = the delays rearranged `"o i -> 1 i o"` and
  EXPANDED over the batch.
* §3 `NeuB` — a neuron group: per-sample dynamic state (voltage, refractory time) stepped with
  shared parameters and ONE shared adaptation state, replaced (when adapting) by a batch reduction
  (`torch.mean` by default, any function of the list of per-sample proposals here) —
  neurons/mixins.py `AdaptiveThresholdMixin.threshold_adaptation.setter`.
* §4 the trainer-like accumulation of tensor-valued updates with `batch_reduction = torch.sum`.

Layout conventions: a `B × N` tensor is the flat list of its `B·N` entries, batch major; a
`B × N × D` tensor is the list of its `B·N` rows of `D` entries (`D` = the trailing "receptive"
dimension: the outputs `o` of a dense connection).  `seg (b·N) N` is sample `b`'s part of either.

Tie to the code: `harness/corr/c11.py` (batch-B component vs B batch-1 copies on the real classes).
-/
namespace InfernoVerif.BatchB
open InfernoVerif.Ring InfernoVerif.Select InfernoVerif.Synapse
open InfernoVerif.Batch (expandB)

variable {α β : Type}

/-- entries `a, a+1, …, a+n-1` of a list: sample `b`'s part of a batch-major flattened tensor is
`seg (b·N) N` -/
def seg (a n : Nat) (l : List β) : List β := (l.drop a).take n

/-- the record restricted to the positions `a … a+n-1` of every stored row (pointer and size
unchanged): what a batch-1 copy of the component holds for the sample occupying those positions -/
def ringSeg (a n : Nat) (r : Ring (List β)) : Ring (List β) := ⟨r.n, r.ptr, r.data.map (seg a n)⟩

/-! ## §1 batched delta synapse with history -/

/-- `DeltaCurrent` for a whole batch: `spike_` is ONE record of `B × N` observations. -/
structure SynB (α : Type) where
  /-- `batchsz` -/
  B : Nat
  /-- number of synapse inputs per sample (`prod(shape)`) -/
  N : Nat
  /-- `spike_`: rows are batch-major flattened `B × N` tensors, entries `0`/`1` -/
  spike : Ring (List α)
deriving DecidableEq, Repr

/-- Constructor: `RecordTensor.create(torch.zeros(batchsz, *shape), dt, delay, inclusive=True)`. -/
def SynB.init (S : SOps α) (c : Cfg α) (B N : Nat) : SynB α :=
  ⟨B, N, ⟨c.n S, 0, List.replicate (c.n S) (List.replicate (B * N) (S.K.ofInt 0))⟩⟩

/-- `DeltaCurrent.forward(inputs)`: `self.spike = inputs.bool()` (one `push` of the WHOLE batched
row; `RecordTensor.write` raises on a shape other than `B × N`); returns
`spike_to_current(self.spike_.peek())`. -/
def SynB.forward (S : SOps α) (c : Cfg α) (s : SynB α) (X : List α) : Option (SynB α × List α) :=
  if X.length ≠ s.B * s.N then none
  else
    let spike := s.spike.push (X.map (toSpike S.K)) c.inplace
    match spike.read 1 with
    | some row => some ({ s with spike := spike }, row.map (spikeToCurrent S c))
    | none => none

/-- `torch.gather(data, 0, idx)[·, p]`: the stored row at time offset `off`, position `p` of the
flattened batched observation. -/
def gatherAt (r : Ring (List α)) (p : Nat) (off : Int) : Option α :=
  (r.data[unwind r.ptr off r.n]?).bind (·[p]?)

/-- One element of the tensor path of `RecordTensor.select` AFTER the (whole-tensor) range test:
snapped shift, `prev_idx = ceil`, `next_idx = floor`, the two gathered values (`g`), interpolation,
bypass where `ceil = floor`.  `Select.selectTensor` is this with `g = r.read` behind the range
test (`selectTensor_eq_selectElem`). -/
def selectElem (K : Ops α) (interp : Interp α) (g : Int → Option α) (dt tol t : α) (offset : Int) :
    Outcome α :=
  let shift := shiftOf K dt tol t
  let off := K.add (K.ofInt offset) shift
  let pi := K.ceil off
  let ni := K.floor off
  withPair (g pi) (g ni) fun p q =>
    let res := interp p q (sampleAt K dt shift) dt
    .ok (if pi = ni then p else res)

/-- some entry of the time tensor fails `select`'s range test (`time.amin() < -tolerance or
time.amax() > dt * (recordsz - 1) + tolerance`, over the WHOLE `B × N × D` tensor) -/
def anyOutOfRange (K : Ops α) (n : Nat) (dt tol : α) (times : List (List α)) : Bool :=
  times.any fun ts => ts.any fun t => !inRange K n dt tol t

/-- `RecordTensor.select(time: Tensor of shape B × N × D, interp, tolerance, offset)` on the record
of the whole batch: `ValueError` if ANY entry is out of range, else per entry `(p, d)` the
interpolated read of position `p` of the stored rows (`.noSlot` = an index outside the storage,
unreachable on well-shaped data). -/
def selectTensorB (K : Ops α) (interp : Interp α) (r : Ring (List α)) (dt tol : α)
    (times : List (List α)) (offset : Int) : Outcome (List (List (Outcome α))) :=
  if anyOutOfRange K r.n dt tol times then .valueError
  else .ok (times.zipIdx.map fun tp => tp.1.map fun t =>
    selectElem K interp (gatherAt r tp.2) dt tol t offset)

/-- an indexed entry, `.noSlot` when the index is outside the tensor -/
def ofOption : Option α → Outcome α
  | some v => .ok v
  | none => .noSlot

/-- `torch.where((selector - bounded_selector).abs() <= tolerance, res, overbound)` on a
`B·N × D` tensor (element-wise; `bsel` computes the bounded selector of an entry). -/
def overboundB (K : Ops α) (tol : α) (over : Option α) (transform : α → α) (bsel : α → α)
    (sel : List (List α)) (res : List (List (Outcome α))) : List (List (Outcome α)) :=
  List.zipWith (fun ts vs =>
    List.zipWith (fun t v => v.map fun x => applyOverbound K tol over t (bsel t) (transform x)) ts vs)
    sel res

/-- `_synparam_at(value, selector, interpolation, {}, tolerance, overbound, transform)` for the
whole batch (`selector : B·N × D`):
* `value.recordsz == 1`: `transform(value.peek()).unsqueeze(-1).expand(*selector.shape)`,
  `bounded_selector = 0`;
* else `bounded_selector = selector.clamp(min=0, max=value.duration)`,
  `transform(value.select(bounded_selector, …))` (default `offset = 1`);
then the overbound `where`. -/
def synparamAtB (K : Ops α) (interp : Interp α) (r : Ring (List α)) (dt duration tol : α)
    (over : Option α) (transform : α → α) (sel : List (List α)) :
    Outcome (List (List (Outcome α))) :=
  if r.n == 1 then
    match r.read 1 with
    | none => .noSlot
    | some row =>
      let res := sel.zipIdx.map fun tp => tp.1.map fun _ => ofOption row[tp.2]?
      .ok (overboundB K tol over transform (fun _ => K.ofInt 0) sel res)
  else
    let bsel := fun t => clamp K t (K.ofInt 0) duration
    (selectTensorB K interp r dt tol (sel.map (·.map bsel)) 1).map
      (overboundB K tol over transform bsel sel)

/-- `SpikeDerivedCurrentMixin.current_at(selector)` of the batched `DeltaCurrent`. -/
def SynB.currentAt (S : SOps α) (c : Cfg α) (s : SynB α) (sel : List (List α)) :
    Outcome (List (List (Outcome α))) :=
  synparamAtB S.K (modeInterp S c.mode) s.spike c.dt c.delay c.tol c.curOver (spikeToCurrent S c) sel

/-- what one simulation step of a delayed connection does to its synapse: `forward` on the batched
input, then `current_at(selector)` with the per-synapse delays `sel : N × D` EXPANDED over the
batch (`….expand(self.batchsz, -1, -1)`).  Outputs: the row `forward` returns and the delayed
currents. -/
def SynB.step (S : SOps α) (c : Cfg α) (sel : List (List α)) (s : SynB α) (X : List α) :
    Option (SynB α × (List α × Outcome (List (List (Outcome α))))) :=
  match s.forward S c X with
  | none => none
  | some (s', cur) => some (s', (cur, s'.currentAt S c (expandB s'.B sel)))

/-- sample `b`'s part of the batched synapse: what a batch-1 copy holds -/
def SynB.proj (b : Nat) (s : SynB α) : SynB α := ⟨1, s.N, ringSeg (b * s.N) s.N s.spike⟩

/-- sample `b`'s part of what a step returns (positions `a … a+n-1` of the returned row and of the
delayed currents; errors are kept) -/
def projOut (a n : Nat) (o : List α × Outcome (List (List (Outcome α)))) :
    List α × Outcome (List (List (Outcome α))) :=
  (seg a n o.1, o.2.map (seg a n))

/-- a run of a partial step function over an input sequence (`none` = some step raised) -/
def runO {σ ι ω : Type} (step : σ → ι → Option (σ × ω)) (s : σ) : List ι → Option (σ × List ω)
  | [] => some (s, [])
  | x :: rest =>
    match step s x with
    | none => none
    | some (s', o) =>
      match runO step s' rest with
      | none => none
      | some (s'', os) => some (s'', o :: os)

/-! ## §2 batched dense connection -/

/-- `Σ_i x_i · w_i` -/
def dotK (K : Ops α) : List α → List α → α
  | x :: xs, w :: ws => K.add (K.mul x w) (dotK K xs ws)
  | _, _ => K.ofInt 0

/-- `… + bias` on one output row -/
def addBiasK (K : Ops α) (bias : Option (List α)) (y : List α) : List α :=
  match bias with
  | none => y
  | some bv => List.zipWith K.add y bv

/-- every row of `m` has `c` entries -/
def rowsHave (m : List (List α)) (c : Nat) : Bool := m.all fun row => row.length == c

/-- `bias` is absent or has one entry per output -/
def biasOk (bias : Option (List α)) (O : Nat) : Bool :=
  match bias with
  | none => true
  | some bv => bv.length == O

/-- `F.linear(x, W, bias)` with `x : B × I` flat, `W : O × I`:
`out[b][o] = Σ_i x[b][i]·W[o][i] + bias[o]`, flat `B × O`.  `none` = torch's shape error. -/
def linearB (K : Ops α) (B I : Nat) (W : List (List α)) (bias : Option (List α)) (x : List α) :
    Option (List α) :=
  if x.length == B * I && rowsHave W I && biasOk bias W.length then
    some ((List.range B).flatMap fun b =>
      addBiasK K bias (W.map fun w => dotK K (seg (b * I) I x) w))
  else none

/-- column `o` of a list of rows -/
def colOf (o : Nat) (m : List (List α)) : List α := m.filterMap (·[o]?)

/-- `einsum(x, W, "b i o, o i -> b o") + bias` with `x : B·I × O` (rows of `O` entries):
`out[b][o] = Σ_i x[b][i][o]·W[o][i] + bias[o]`, flat `B × O`. -/
def einsumB (K : Ops α) (B I : Nat) (W : List (List α)) (bias : Option (List α))
    (x : List (List α)) : Option (List α) :=
  if x.length == B * I && rowsHave x W.length && rowsHave W I && biasOk bias W.length then
    some ((List.range B).flatMap fun b =>
      addBiasK K bias (W.zipIdx.map fun wo => dotK K (colOf wo.2 (seg (b * I) I x)) wo.1))
  else none

/-- `rearrange(delays, "o i -> 1 i o")` (before the expansion over the batch): row `i` holds the
delays of input `i` towards every output. -/
def selectorIO (I : Nat) (delay : List (List α)) : List (List α) :=
  (List.range I).map fun i => colOf i delay

/-- all entries of a gathered tensor were in storage -/
def okRow : List (Outcome α) → Option (List α)
  | [] => some []
  | .ok v :: rest => (okRow rest).map (v :: ·)
  | _ :: _ => none

def okRows : List (List (Outcome α)) → Option (List (List α))
  | [] => some []
  | r :: rest =>
    match okRow r, okRows rest with
    | some v, some vs => some (v :: vs)
    | _, _ => none

/-- the tensor a `current_at` call returns (`none` = it raised) -/
def collectO : Outcome (List (List (Outcome α))) → Option (List (List α))
  | .ok rows => okRows rows
  | _ => none

/-- `LinearDense` with a `DeltaCurrent` synapse. -/
structure DenseB (α : Type) where
  /-- `batchsz` -/
  B : Nat
  /-- `insize` -/
  I : Nat
  /-- `weight : O × I` -/
  W : List (List α)
  bias : Option (List α)
  /-- `delay : O × I` when `delayedby` is not `None` -/
  delay : Option (List (List α))
  syn : SynB α
deriving DecidableEq, Repr

/-- `LinearDense.selector`: `rearrange(delays, "o i -> 1 i o").expand(self.batchsz, -1, -1)`. -/
def DenseB.selector (c : DenseB α) (d : List (List α)) : List (List α) :=
  expandB c.B (selectorIO c.I d)

/-- `LinearDense.forward`: `res = self.synapse(inputs)`; delayed:
`einsum(self.syncurrent, self.weight, "b i o, o i -> b o") + self.bias` with
`syncurrent = synapse.current_at(self.selector)`; undelayed: `F.linear(res, weight, bias)`. -/
def DenseB.forward (S : SOps α) (cfg : Cfg α) (c : DenseB α) (X : List α) :
    Option (DenseB α × List α) :=
  match c.syn.forward S cfg X with
  | none => none
  | some (syn', res) =>
    match c.delay with
    | some d =>
      match collectO (syn'.currentAt S cfg (c.selector d)) with
      | none => none
      | some x => (einsumB S.K c.B c.I c.W c.bias x).map fun y => ({ c with syn := syn' }, y)
    | none => (linearB S.K c.B c.I c.W c.bias res).map fun y => ({ c with syn := syn' }, y)

/-- the state invariant of a `DenseB` (what the constructor establishes): the synapse was built for
the connection's batch size and input size -/
def DenseB.Inv (c : DenseB α) : Prop := c.syn.B = c.B ∧ c.syn.N = c.I

/-- the identically parameterised batch-1 copy holding sample `b` -/
def DenseB.proj (b : Nat) (c : DenseB α) : DenseB α := { c with B := 1, syn := c.syn.proj b }

/-! ## §3 batched neuron group with a shared, batch-reduced adaptation -/

/-- per-sample dynamic states (voltage, refractory time, … of one sample) and ONE adaptation state
shared by the batch -/
structure NeuB (V A : Type) where
  vs : List V
  adapt : A
deriving DecidableEq, Repr

variable {θ V A I O S : Type}

/-- One `forward` of an adaptive neuron group (`ALIF.forward` …): every sample is stepped by `dyn`
with the shared parameters and the CURRENT shared adaptation; when adapting, every sample proposes
a new adaptation (`adaptive_thresholds_linear_spike(adaptations, spikes_b, …, refracs_b)`) and the
setter stores the batch reduction `red` of the proposals (`torch.mean(value, 0)` by default). -/
def NeuB.step (dyn : θ → A → V → I → V × O) (prop : θ → A → V → O → A) (red : List A → A) (p : θ)
    (s : NeuB V A) (ax : Bool × List I) : NeuB V A × List O :=
  let rs := (s.vs.zip ax.2).map fun vx => dyn p s.adapt vx.1 vx.2
  (⟨rs.map (·.1), if ax.1 then red (rs.map fun r => prop p s.adapt r.1 r.2) else s.adapt⟩,
   rs.map (·.2))

/-- a run: per step the `adapt` flag and the per-sample inputs -/
def NeuB.run (dyn : θ → A → V → I → V × O) (prop : θ → A → V → O → A) (red : List A → A) (p : θ)
    (s : NeuB V A) : List (Bool × List I) → NeuB V A × List (List O)
  | [] => (s, [])
  | ax :: rest =>
    let r := NeuB.step dyn prop red p s ax
    let r' := NeuB.run dyn prop red p r.1 rest
    (r'.1, r.2 :: r'.2)

/-- the adaptation in effect at each step of the run -/
def NeuB.adaptSeq (dyn : θ → A → V → I → V × O) (prop : θ → A → V → O → A) (red : List A → A) (p : θ)
    (s : NeuB V A) : List (Bool × List I) → List A
  | [] => []
  | ax :: rest => s.adapt :: NeuB.adaptSeq dyn prop red p (NeuB.step dyn prop red p s ax).1 rest

/-- ONE sample stepped with an adaptation sequence supplied from outside -/
def drivenRun (dyn : θ → A → V → I → V × O) (p : θ) (v : V) : List (A × I) → V × List O
  | [] => (v, [])
  | ax :: rest =>
    let r := dyn p ax.1 v ax.2
    let r' := drivenRun dyn p r.1 rest
    (r'.1, r.2 :: r'.2)

/-- sample `b` of the group as a batch of one (the empty batch when there is no sample `b`), with
the shared adaptation -/
def NeuB.proj (b : Nat) (s : NeuB V A) : NeuB V A := ⟨(s.vs[b]?).toList, s.adapt⟩

/-- the inputs of sample `b` with the flags kept (a step lacking an input for `b` gives the empty
batch) -/
def sampleSteps (b : Nat) (steps : List (Bool × List I)) : List (Bool × List I) :=
  steps.map fun ax => (ax.1, (ax.2[b]?).toList)

/-! ### the same group on FLAT tensors: `B × N` dynamic state, `N` shared adaptations broadcast -/

/-- a neuron group as the code holds it: ONE flat `B × N` tensor of per-neuron dynamic states
(voltage, refractory time) and ONE `N` tensor of adaptations shared by the batch -/
structure NeuFlat (V K : Type) where
  /-- `batchsz` -/
  B : Nat
  /-- neurons per sample -/
  N : Nat
  /-- batch-major flattened `B × N` dynamic state -/
  v : List V
  /-- shared adaptation, one entry per neuron (not batched) -/
  adapt : List K
deriving DecidableEq, Repr

variable {K : Type}

/-- the batch reduction of a flat `B × N` tensor along the batch dimension (`red(value, 0)`): entry
`i` is `red` of the `B` entries `b·N + i` -/
def reduceDim0 (red : List K → K) (B N : Nat) (t : List K) : List K :=
  (List.range N).map fun i => red ((List.range B).filterMap fun b => t[b * N + i]?)

/-- One `forward` on the flat tensors: the `N` adaptations are BROADCAST against the `B × N` state
(`expandB`), the dynamics and the adaptation proposal are element-wise, and (when adapting) the
`B × N` proposals are reduced along the batch dimension. -/
def NeuFlat.step (dyn : θ → K → V → I → V × O) (prop : θ → K → V → O → K) (red : List K → K) (p : θ)
    (s : NeuFlat V K) (ax : Bool × List I) : NeuFlat V K × List O :=
  let bc := expandB s.B s.adapt
  let rs := List.zipWith (fun av x => dyn p av.1 av.2 x) (List.zipWith Prod.mk bc s.v) ax.2
  let props := List.zipWith (fun a r => prop p a r.1 r.2) bc rs
  ({ s with v := rs.map (·.1), adapt := if ax.1 then reduceDim0 red s.B s.N props else s.adapt },
   rs.map (·.2))

def NeuFlat.run (dyn : θ → K → V → I → V × O) (prop : θ → K → V → O → K) (red : List K → K) (p : θ)
    (s : NeuFlat V K) : List (Bool × List I) → NeuFlat V K × List (List O)
  | [] => (s, [])
  | ax :: rest =>
    let r := NeuFlat.step dyn prop red p s ax
    let r' := NeuFlat.run dyn prop red p r.1 rest
    (r'.1, r.2 :: r'.2)

/-- the adaptation tensor in effect at each step -/
def NeuFlat.adaptSeq (dyn : θ → K → V → I → V × O) (prop : θ → K → V → O → K) (red : List K → K)
    (p : θ) (s : NeuFlat V K) : List (Bool × List I) → List (List K)
  | [] => []
  | ax :: rest =>
    s.adapt :: NeuFlat.adaptSeq dyn prop red p (NeuFlat.step dyn prop red p s ax).1 rest

/-- the batch-1 copy holding sample `b` (same shared adaptation) -/
def NeuFlat.proj (b : Nat) (s : NeuFlat V K) : NeuFlat V K :=
  ⟨1, s.N, seg (b * s.N) s.N s.v, s.adapt⟩

/-- sample `b`'s rows of every step's input, flags kept -/
def flatSteps (b N : Nat) (steps : List (Bool × List I)) : List (Bool × List I) :=
  steps.map fun ax => (ax.1, seg (b * N) N ax.2)

/-! ## §4 Σ-reduction of tensor-valued updates -/

/-- element-wise sum of two flattened tensors -/
def vadd (a b : List Int) : List Int := List.zipWith (· + ·) a b

/-- `torch.sum(stack(rows), 0)` for rows of `P` entries -/
def sumDim0 (P : Nat) (rows : List (List Int)) : List Int := rows.foldl vadd (List.replicate P 0)

/-- batched trainer step, `batch_reduction = torch.sum`: the accumulator (one entry per parameter
element) receives the batch sum of the per-sample update tensors -/
def trainStepB (u : S → I → List Int) (P : Nat) (acc : List Int) (Ss : List S) (Xs : List I) :
    List Int :=
  vadd acc (sumDim0 P ((Ss.zip Xs).map fun sx => u sx.1 sx.2))

/-- a training run: per step the batch update is accumulated, then every sample's state advances
(`Batch.stepB`: shared parameters frozen while updates accumulate) -/
def trainRunB (step : θ → S → I → S × O) (u : S → I → List Int) (P : Nat) (p : θ) (acc : List Int)
    (Ss : List S) : List (List I) → List Int × List S
  | [] => (acc, Ss)
  | Xs :: rest =>
    trainRunB step u P p (trainStepB u P acc Ss Xs) (InfernoVerif.Batch.stepB step p Ss Xs).1 rest

/-- the accumulated update of sample `b` run ALONE (a batch of one holding the state `s`, fed the
`b`-th input of every step) from a zero accumulator — the same `trainRunB` code with `B = 1` -/
def aloneAcc (step : θ → S → I → S × O) (u : S → I → List Int) (P : Nat) (p : θ) (s : S) (b : Nat)
    (XXs : List (List I)) : List Int :=
  (trainRunB step u P p (List.replicate P 0) [s] (XXs.map fun Xs => (Xs[b]?).toList)).1

end InfernoVerif.BatchB
