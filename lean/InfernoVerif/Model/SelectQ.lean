/-
Exact (`Rat`) copies of the RATIONAL interpolation / extrapolation kernels of
`inferno/functional/{inter,extra}polation.py` (everything except the two `exp` pairs), executed by
`drivers/C02.lean` in exact mode.  Same names, argument order and operation order as the generated
definitions; `Lemmas/SelectQ.lean` proves each one is the GENERATED `ℝ` definition
(`Gen/InterpolationR.lean`, `Gen/ExtrapolationR.lean`) on casts — so a change of the Python formula
breaks that proof — and `harness/corr/c02.py` runs them against the Python originals.
Core Lean only.
-/
namespace InfernoVerif.Select.Q
set_option linter.unusedVariables false

def interp_previous (prev_data next_data sample_at step_time : Rat) : Rat := prev_data

def interp_next (prev_data next_data sample_at step_time : Rat) : Rat := next_data

def interp_nearest (prev_data next_data sample_at step_time : Rat) : Rat :=
  if sample_at / step_time > 1 / 2 then next_data else prev_data

def interp_linear (prev_data next_data sample_at step_time : Rat) : Rat :=
  let slope := (next_data - prev_data) / step_time
  prev_data + slope * sample_at

def extrap_previous (sample sample_at prev_data next_data step_time : Rat) : Rat × Rat :=
  (sample, next_data)

def extrap_next (sample sample_at prev_data next_data step_time : Rat) : Rat × Rat :=
  (prev_data, sample)

def extrap_neighbors (sample sample_at prev_data next_data step_time : Rat) : Rat × Rat :=
  (sample, sample)

def extrap_nearest (sample sample_at prev_data next_data step_time : Rat) : Rat × Rat :=
  ((if sample_at > step_time / 2 then prev_data else sample),
   (if sample_at > step_time / 2 then sample else next_data))

def extrap_linear_forward (sample sample_at prev_data next_data step_time : Rat)
    (adjust : Option (Rat → Rat)) : Rat × Rat :=
  let prev_data := (match adjust with | some adjust => adjust prev_data | none => prev_data)
  let slope := (sample - prev_data) / sample_at
  (prev_data, prev_data + slope * step_time)

def extrap_linear_backward (sample sample_at prev_data next_data step_time : Rat)
    (adjust : Option (Rat → Rat)) : Rat × Rat :=
  let next_data := (match adjust with | some adjust => adjust next_data | none => next_data)
  let slope := (next_data - sample) / (step_time - sample_at)
  (next_data - slope * step_time, next_data)

end InfernoVerif.Select.Q
