/-!
# Interpolation / extrapolation kernels of `inferno/functional/{inter,extra}polation.py` — `Float` copy

Hand transcription, one definition per Python function, same name, same argument order
(keyword-only arguments last), same operation order.  Tensors are transcribed as scalars (every
kernel is element-wise).  `torch.where(c, a, b)` ↦ `if c then a else b`; an `adjust` callable that
may be `None` ↦ `Option (T → T)`.

The block between `-- BEGIN DEFS` and `-- END DEFS` is TEXTUALLY IDENTICAL to the one in
`Model/InterpR.lean` (the `ℝ` copy the theorems are about); `harness/corr/c20.py` checks that on
every run, and ties this `Float` copy to the Python functions by differential execution.
This file is core Lean only (executed by `drivers/C20.lean`).  A generated file can replace it:
keep the namespace, the prelude names (`T`, `exp`) and one definition per Python function.
-/
namespace InfernoVerif.Interp.F

set_option linter.unusedVariables false  -- Python signatures keep arguments a kernel ignores

/-- scalar type of this copy -/
abbrev T := Float
/-- `torch.exp` -/
abbrev exp (x : T) : T := Float.exp x

-- BEGIN DEFS
/-! ## functional/interpolation.py -/

def interp_previous (prev_data next_data sample_at step_time : T) : T :=
  prev_data

def interp_next (prev_data next_data sample_at step_time : T) : T :=
  next_data

def interp_nearest (prev_data next_data sample_at step_time : T) : T :=
  if sample_at / step_time > 0.5 then next_data else prev_data

def interp_linear (prev_data next_data sample_at step_time : T) : T :=
  let slope := (next_data - prev_data) / step_time
  prev_data + slope * sample_at

def interp_expdecay (prev_data next_data sample_at step_time time_constant : T) : T :=
  prev_data * exp (-sample_at / time_constant)

def interp_expratedecay (prev_data next_data sample_at step_time rate_constant : T) : T :=
  prev_data * exp (-sample_at * rate_constant)

/-! ## functional/extrapolation.py  (returns `(X(t=0), X(t=Δt))`) -/

def extrap_previous (sample sample_at prev_data next_data step_time : T) : T × T :=
  (sample, next_data)

def extrap_next (sample sample_at prev_data next_data step_time : T) : T × T :=
  (prev_data, sample)

def extrap_neighbors (sample sample_at prev_data next_data step_time : T) : T × T :=
  (sample, sample)

def extrap_nearest (sample sample_at prev_data next_data step_time : T) : T × T :=
  let cond := sample_at > (step_time / 2)
  (if cond then prev_data else sample, if cond then sample else next_data)

def extrap_linear_forward (sample sample_at prev_data next_data step_time : T)
    (adjust : Option (T → T)) : T × T :=
  let prev_data := match adjust with | some f => f prev_data | none => prev_data
  let slope := (sample - prev_data) / sample_at
  (prev_data, prev_data + slope * step_time)

def extrap_linear_backward (sample sample_at prev_data next_data step_time : T)
    (adjust : Option (T → T)) : T × T :=
  let next_data := match adjust with | some f => f next_data | none => next_data
  let slope := (next_data - sample) / (step_time - sample_at)
  (next_data - slope * step_time, next_data)

def extrap_expdecay (sample sample_at prev_data next_data step_time time_constant : T) : T × T :=
  (sample * exp (sample_at / time_constant),
   sample * exp ((sample_at - step_time) / time_constant))

def extrap_expratedecay (sample sample_at prev_data next_data step_time rate_constant : T) : T × T :=
  (sample * exp (sample_at * rate_constant),
   sample * exp ((sample_at - step_time) * rate_constant))
-- END DEFS

end InfernoVerif.Interp.F
