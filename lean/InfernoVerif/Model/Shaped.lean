import InfernoVerif.Model.RingOps
/-
Model of `inferno.core.infrastructure.ShapedTensor`'s constraint bookkeeping — hand written,
code shaped, core Lean only.  Tie to the code: `harness/corr/c13.py` (helper functions are
compared one by one with `_constraint_dimensionality`, `_constraints_compatible`,
`_constraints_consistent`; `reconstrain` / `valid` / `value` on operation sequences).

* constraints are a Python `dict[int, int]`: here an insertion-ordered association list
  `Cons = List (Int × Nat)` (`put` keeps the position of an existing key, appends a new one;
  `del` removes the key);
* a tensor is its shape plus its row-major values;
* `reconDecide` is `ShapedTensor.reconstrain` up to the point where data would be touched: it
  returns the *decision* (refuse / update constraints / update constraints and resize one tensor
  dimension), one constructor per exit of the Python method.  `Model/Record.lean` applies the
  same decisions to record storage.
-/
namespace InfernoVerif.Shaped
open InfernoVerif.Ring (Err prod slice)

abbrev Cons := List (Int × Nat)

/-- `constraints[d] = s` (dict assignment: existing key keeps its position). -/
def Cons.put (c : Cons) (d : Int) (s : Nat) : Cons :=
  if (c.lookup d).isSome then c.map (fun p => if p.1 = d then (d, s) else p) else c ++ [(d, s)]

/-- `del constraints[d]`. -/
def Cons.del (c : Cons) (d : Int) : Cons := c.filter (fun p => p.1 ≠ d)

/-- `max(max(constraints) + 1, 0)`: dimensions demanded by the non-negative keys. -/
def upper (c : Cons) : Nat := c.foldr (fun p m => max (p.1 + 1).toNat m) 0

/-- `-min(min(constraints), 0) = abs(min(...))` for a negative minimum: dimensions demanded by
the negative keys. -/
def lower (c : Cons) : Nat := c.foldr (fun p m => max (-p.1).toNat m) 0

/-- `_constraint_dimensionality(constraints, strict)`:
strict `max(max+1, 0) - min(min, 0)`; non-strict `max(max+1, abs(min))` (for a non-negative
minimum `abs(min) ≤ max < max+1`, so this is `max(upper, lower)`); `0` for no constraints. -/
def dimensionality (c : Cons) (strict : Bool) : Nat :=
  if strict then upper c + lower c else max (upper c) (lower c)

/-- Python sequence indexing `seq[d]` for a sequence of length `nd` (`none` = `IndexError`). -/
def pyIdx (nd : Nat) (d : Int) : Option Nat :=
  if 0 ≤ d then (if d.toNat < nd then some d.toNat else none)
  else (if d.natAbs ≤ nd then some (nd - d.natAbs) else none)

/-- one `shape[d] == s` test of `_constraints_compatible`. -/
def met (shape : List Nat) (p : Int × Nat) : Bool :=
  match pyIdx shape.length p.1 with
  | some i => shape[i]? == some p.2
  | none => false

/-- `_constraints_compatible(tensor, constraints, strict)`. -/
def compatible (shape : List Nat) (c : Cons) (strict : Bool) : Bool :=
  if shape.length < dimensionality c strict then false else c.all (met shape)

/-- the loop of `_constraints_consistent`; `none` = `IndexError` from `hypoth[dim]`. -/
def consistentGo (hyp : List (Option Nat)) : Cons → Option Bool
  | [] => some true
  | (d, s) :: rest =>
    match pyIdx hyp.length d with
    | none => none
    | some i =>
      match hyp[i]? with
      | some (some s') => if s' = s then consistentGo hyp rest else some false
      | _ => consistentGo (hyp.set i (some s)) rest

/-- `_constraints_consistent(constraints, ndims)`. -/
def consistent (c : Cons) (ndims : Nat) : Option Bool :=
  consistentGo (List.replicate ndims none) c

/-! ### `ShapedTensor.reconstrain` as a decision -/

inductive Decision where
  /-- an exception before anything was changed -/
  | err (e : Err)
  /-- constraints replaced, data untouched -/
  | set (c : Cons)
  /-- `del constraints[dim]` happened, then "constrained tensor has been invalidated" -/
  | setErr (c : Cons) (e : Err)
  /-- constraints replaced and tensor dimension `tdim` resized to `size` (`__make_compatible`) -/
  | resize (c : Cons) (tdim size : Nat)
deriving Repr, DecidableEq

/-- `shape?` is `none` when the value is ignored (`None`, uninitialised, `shape == (0,)`). -/
def reconDecide (c : Cons) (strict : Bool) (shape? : Option (List Nat)) (dim : Int)
    (size : Option Int) : Decision :=
  match size with
  | some z =>
    if z < 0 then .err .ValueError                       -- argtest.gte("size", size, 0, int)
    else
      match c.lookup dim with
      | none =>                                           -- create constraint
        match shape? with
        | none => .set (c.put dim z.toNat)
        | some sh =>
          if compatible sh c strict then
            if compatible sh (c.put dim z.toNat) strict then .set (c.put dim z.toNat)
            else .err .ValueError
          else .err .RuntimeError
      | some _ =>                                         -- alter constraint
        match shape? with
        | none => .set (c.put dim z.toNat)
        | some sh =>
          if dimensionality c strict ≤ sh.length then
            match consistent (c.put dim z.toNat) sh.length with
            | some true =>
              if compatible sh (c.put dim z.toNat) strict then .set (c.put dim z.toNat)
              else match pyIdx sh.length dim with
                | some t => .resize (c.put dim z.toNat) t z.toNat
                | none => .err .IndexError
            | some false => .err .RuntimeError
            | none => .err .IndexError
          else .err .RuntimeError
  | none =>
    match c.lookup dim with
    | none => .err .ValueError                            -- cannot remove an unconstrained dim
    | some _ =>                                           -- remove constraint
      match shape? with
      | none => .set (c.del dim)
      | some sh => if compatible sh (c.del dim) strict then .set (c.del dim)
                   else .setErr (c.del dim) .RuntimeError

/-! ### Tensors and `__make_compatible` -/

/-- `__make_compatible(tensor, d, size)` on row-major values: keep the tail / prepend zeros along
tensor dimension `d` of a tensor of shape `shape`. -/
def resizeDim : List Nat → Nat → Nat → List Int → List Int
  | [], _, _, v => v
  | s :: rest, 0, size, v =>
    if s > size then v.drop ((s - size) * prod rest)
    else List.replicate ((size - s) * prod rest) 0 ++ v
  | s :: rest, d + 1, size, v =>
    (List.range s).flatMap fun i => resizeDim rest d size (slice v (i * prod rest) ((i + 1) * prod rest))

inductive Val where
  | none                                  -- `None`
  | uninit                                -- `nn.UninitializedBuffer()` / `nn.UninitializedParameter()`
  | tensor (shape : List Nat) (vals : List Int)
deriving Repr, DecidableEq

/-- `ShapedTensor._ignore`. -/
def Val.ignored : Val → Bool
  | .none => true
  | .uninit => true
  | .tensor sh _ => sh == [0]

def Val.shape? : Val → Option (List Nat)
  | .tensor sh _ => if sh == [0] then Option.none else some sh
  | _ => Option.none

structure ShState where
  cons   : Cons
  strict : Bool
  param  : Bool          -- the value is an `nn.Parameter`
  val    : Val
  /-- `live`: every assignment through the `value` setter is constraint-checked -/
  live   : Bool := false
deriving Repr, DecidableEq

/-- `ShapedTensor.valid` (owner alive): `_ignore_or_compatible`. -/
def ShState.valid (s : ShState) : Bool :=
  match s.val.shape? with
  | Option.none => true
  | some sh => compatible sh s.cons s.strict

/-- The specification's reading of "valid": ignored, or every constraint names an existing
tensor dimension of the constrained size (strict: and there are enough dimensions for the
non-negative and the negative keys to address disjoint ranges). -/
def ShState.validSpec (s : ShState) : Bool :=
  match s.val.shape? with
  | Option.none => true
  | some sh => (!s.strict || decide (upper s.cons + lower s.cons ≤ sh.length)) && s.cons.all (met sh)

inductive ShOp where
  | recon (dim : Int) (size : Option Int)
  | assign (v : Val)
  | setStrict (b : Bool)
  | setLive (b : Bool)
deriving Repr

inductive ShOut where
  | unit
  | err (e : Err)
  | unsupported
deriving Repr, DecidableEq

def shApply (s : ShState) : Decision → ShState × ShOut
  | .err e => (s, .err e)
  | .set c => ({ s with cons := c }, .unit)
  | .setErr c e => ({ s with cons := c }, .err e)
  | .resize c t size =>
    match s.val with
    | .tensor sh v => ({ s with cons := c, val := .tensor (sh.set t size) (resizeDim sh t size v) }, .unit)
    | _ => (s, .unsupported)

def shStep (s : ShState) : ShOp → ShState × ShOut
  | .recon dim size => shApply s (reconDecide s.cons s.strict s.val.shape? dim size)
  | .assign v =>
    if s.param && v == .none then (s, .err .RuntimeError)   -- cannot assign None to a parameter
    else if s.live && !({ s with val := v } : ShState).valid then
      (s, .err .ValueError)                                  -- live: an incompatible value is refused, nothing changes
    else ({ s with val := v }, .unit)
  | .setStrict b => ({ s with strict := b }, .unit)
  | .setLive b => ({ s with live := b }, .unit)

/-- `ShapedTensor.__init__`: refuses an initial value that is neither ignored nor compatible. -/
def shConstruct (cons : Cons) (strict param : Bool) (v : Val) (live : Bool := false) : Except Err ShState :=
  let s : ShState := ⟨cons, strict, param, v, live⟩
  if s.valid then .ok s else .error .RuntimeError

end InfernoVerif.Shaped
