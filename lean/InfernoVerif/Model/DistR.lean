import Mathlib.Analysis.SpecialFunctions.Gamma.Basic
import Mathlib.Analysis.SpecialFunctions.Log.Basic
import Mathlib.Analysis.Real.Sqrt
/-!
# Distribution formulas of `inferno/stats/distributions.py` — `ℝ` copy (the theorems are about these)

The block between `-- BEGIN DEFS` and `-- END DEFS` is textually identical to the one in
`Model/Dist.lean` (the executable `Float` copy); only the prelude differs.  `realSpecial`
(after the block) instantiates the opaque torch primitives with their mathematical definitions.
-/
namespace InfernoVerif.Dist.R
set_option linter.unusedVariables false
noncomputable section
open Classical

/-- scalar type of this copy -/
abbrev T := ℝ
abbrev exp (x : T) : T := Real.exp x
abbrev log (x : T) : T := Real.log x
abbrev sqrt (x : T) : T := Real.sqrt x
abbrev floor (x : T) : T := (⌊x⌋ : ℤ)
/-- `x ** 2` -/
abbrev pow2 (x : T) : T := x ^ 2
/-- `x == 0` -/
abbrev eqz (x : T) : Bool := decide (x = 0)
/-- `math.tau` -/
abbrev tau : T := 2 * Real.pi

-- BEGIN DEFS
/-- torch primitives treated as opaque symbols -/
structure Special where
  erf : T → T
  lgamma : T → T
  gammaincc : T → T → T
  expm1 : T → T

/-- `torch.special.xlogy` -/
def xlogy (x y : T) : T :=
  if eqz x then 0 else x * log y

/-! ## class Poisson -/

def Poisson.logpmf (S : Special) (support rate : T) : T :=
  xlogy support rate - rate - S.lgamma (support + 1)

def Poisson.pmf (S : Special) (support rate : T) : T :=
  exp (Poisson.logpmf S support rate)

def Poisson.cdf (S : Special) (support rate : T) : T :=
  S.gammaincc (floor (support + 1)) rate

def Poisson.logcdf (S : Special) (support rate : T) : T :=
  log (Poisson.cdf S support rate)

def Poisson.mean (rate : T) : T :=
  rate

def Poisson.variance (rate : T) : T :=
  rate

/-! ## class Normal -/

def Normal.params_mv (mean variance : T) : T × T :=
  (mean, sqrt variance)

def Normal.pdf (support loc scale : T) : T :=
  (1 / (scale * sqrt tau)) * exp (-0.5 * pow2 ((support - loc) / scale))

def Normal.logpdf (support loc scale : T) : T :=
  log (Normal.pdf support loc scale)

def Normal.cdf (S : Special) (support loc scale : T) : T :=
  0.5 * (1 + S.erf ((support - loc) / (scale * sqrt 2)))

def Normal.logcdf (S : Special) (support loc scale : T) : T :=
  log (Normal.cdf S support loc scale)

def Normal.mean (loc : T) : T :=
  loc

def Normal.variance (scale : T) : T :=
  pow2 scale

/-! ## class LogNormal -/

def LogNormal.params_mv (mean variance : T) : T × T :=
  let meansq := pow2 mean
  let loc := log (meansq / sqrt (meansq + variance))
  let scale := sqrt (log (1 + variance / meansq))
  (loc, scale)

def LogNormal.logpdf (support loc scale : T) : T :=
  let logsupport := log support;
  -log scale - logsupport - 0.5 * (log tau + pow2 ((loc - logsupport) / scale))

def LogNormal.pdf (support loc scale : T) : T :=
  exp (LogNormal.logpdf support loc scale)

def LogNormal.cdf (S : Special) (support loc scale : T) : T :=
  Normal.cdf S (log support) loc scale

def LogNormal.logcdf (S : Special) (support loc scale : T) : T :=
  log (LogNormal.cdf S support loc scale)

def LogNormal.mean (loc scale : T) : T :=
  exp (loc + pow2 scale / 2)

def LogNormal.variance (S : Special) (loc scale : T) : T :=
  let scalesq := pow2 scale
  S.expm1 scalesq * exp (2 * loc + scalesq)
-- END DEFS

/-- The mathematical definitions of the opaque primitives:
`lgamma x = log |Γ x|`, `expm1 x = eˣ − 1`, `erf z = 2/√π ∫₀ᶻ e^{−t²} dt`,
`gammaincc a x = (∫_x^∞ t^{a−1} e^{−t} dt) / Γ a` (regularised upper incomplete gamma). -/
def realSpecial : Special where
  erf z := 2 / Real.sqrt Real.pi * ∫ t in (0 : ℝ)..z, Real.exp (-t ^ 2)
  lgamma x := Real.log |Real.Gamma x|
  gammaincc a x := (∫ t in Set.Ioi x, t ^ (a - 1) * Real.exp (-t)) / Real.Gamma a
  expm1 x := Real.exp x - 1

end
end InfernoVerif.Dist.R
