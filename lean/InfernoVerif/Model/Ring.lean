/-
Model of `inferno.core.infrastructure.RecordTensor` (ring-buffer part) — hand written,
code shaped: one Lean function per Python code path.  Core Lean only (no imports), so the
driver can execute it.  Tie to the code: correspondence check `harness/corr/c01.py`.

Storage is `data : List α` with one entry per time slice (`α` is a whole observation for the
scalar-offset paths; the tensor-offset paths act on rows `α = List β` position by position).
-/
namespace InfernoVerif.Ring

/-- `_unwind_ptr(pointer, offset, size) = (pointer - int(offset)) % size` (Python floor-mod). -/
def unwind (ptr : Nat) (off : Int) (n : Nat) : Nat :=
  (((ptr : Int) - off) % (n : Int)).toNat

/-- Python slice `l[a:b]` for `0 ≤ a, b`. -/
def slice (l : List α) (a b : Nat) : List α := (l.take b).drop a

/-- `torch.roll(l, s, 0)`: `out[(i + s) % n] = l[i]`. -/
def roll (l : List α) (s : Int) : List α :=
  let k := ((-s) % (l.length : Int)).toNat
  l.drop k ++ l.take k

structure Ring (α : Type) where
  n    : Nat
  ptr  : Nat
  data : List α
deriving Repr, DecidableEq

variable {α : Type}

/-- Well-formedness: what the constructor / constraint machinery guarantees. -/
def Ring.WF (r : Ring α) : Prop := 0 < r.n ∧ r.ptr < r.n ∧ r.data.length = r.n

/-- `read(offset)`: `data[_unwind_ptr(ptr, offset, recordsz), ...]`. -/
def Ring.read (r : Ring α) (o : Int) : Option α := r.data[unwind r.ptr o r.n]?

/-- `write(obs, offset, inplace=True)`: `data[index, ...] = obs`. -/
def Ring.writeInplace (r : Ring α) (x : α) (o : Int) : Ring α :=
  { r with data := r.data.set (unwind r.ptr o r.n) x }

/-- `write(obs, offset, inplace=False)`: `cat(data[:index], obs[None], data[index+1:])`. -/
def Ring.writeSplice (r : Ring α) (x : α) (o : Int) : Ring α :=
  let i := unwind r.ptr o r.n
  { r with data := r.data.take i ++ [x] ++ r.data.drop (i + 1) }

def Ring.write (r : Ring α) (x : α) (o : Int) (inplace : Bool) : Ring α :=
  if inplace then r.writeInplace x o else r.writeSplice x o

/-- `incr(pos)`: `pointer = _unwind_ptr(pointer, -pos, recordsz)`. -/
def Ring.incr (r : Ring α) (q : Int) : Ring α := { r with ptr := unwind r.ptr (-q) r.n }

/-- `decr(pos)`: `pointer = _unwind_ptr(pointer, pos, recordsz)`. -/
def Ring.decr (r : Ring α) (q : Int) : Ring α := { r with ptr := unwind r.ptr q r.n }

/-- `push` on initialised storage: `write(obs, 0, inplace); incr(1)`. -/
def Ring.push (r : Ring α) (x : α) (inplace : Bool) : Ring α := (r.write x 0 inplace).incr 1

/-- `pop` on initialised storage: `decr(1); read(0)`. -/
def Ring.pop (r : Ring α) : Ring α × Option α := let r' := r.decr 1; (r', r'.read 0)

/-- Scalar-offset `readrange` after the `forward` shift (`o'` is the shifted offset):
`start = unwind(ptr, o')`, `end = unwind(ptr, o' - length)`; wrap-around concat iff `start ≥ end`. -/
def Ring.readrangeScalar (r : Ring α) (len : Nat) (o' : Int) : List α :=
  let s := unwind r.ptr o' r.n
  let e := unwind r.ptr (o' - len) r.n
  if s ≥ e then r.data.drop s ++ r.data.take e else slice r.data s e

/-- The `forward` flag: `offset = offset + (length - 1)` unless forward. -/
def shiftOffset (o : Int) (len : Nat) (forward : Bool) : Int :=
  if forward then o else o + ((len : Int) - 1)

/-- Tensor-offset `readrange` for ONE position whose shifted offset is `o'`
(`gather(data, 0, unwind(ptr, o' - arange(length)))`), as a list of optional reads. -/
def Ring.readrangeGather (r : Ring α) (len : Nat) (o' : Int) : List (Option α) :=
  (List.range len).map fun (j : Nat) => r.data[unwind r.ptr (o' - (j : Int)) r.n]?

/-- Scalar-offset in-place `writerange`: `data[unwind_tensor(p', -arange(L))] = obs`. -/
def Ring.writerangeInplace (r : Ring α) (xs : List α) (o' : Int) : Ring α :=
  let p' := unwind r.ptr o' r.n
  { r with data := xs.zipIdx.foldl (fun d xj => d.set (unwind p' (-(xj.2 : Int)) r.n) xj.1) r.data }

/-- Scalar-offset out-of-place `writerange`, non-contiguous branch (`p' + L > recordsz`). -/
def Ring.writerangeWrapped (r : Ring α) (xs : List α) (o' : Int) : Ring α :=
  let p' := unwind r.ptr o' r.n
  let L := xs.length
  { r with data := xs.drop (r.n - p') ++ slice r.data (L - (r.n - p')) p' ++ xs.take (r.n - p') }

/-- Scalar-offset out-of-place `writerange`, contiguous branch. -/
def Ring.writerangeContig (r : Ring α) (xs : List α) (o' : Int) : Ring α :=
  let p' := unwind r.ptr o' r.n
  { r with data := r.data.take p' ++ xs ++ r.data.drop (p' + xs.length) }

def Ring.writerangeScalar (r : Ring α) (xs : List α) (o' : Int) (inplace : Bool) : Ring α :=
  if inplace then r.writerangeInplace xs o'
  else if unwind r.ptr o' r.n + xs.length > r.n then r.writerangeWrapped xs o'
  else r.writerangeContig xs o'

/-- Tensor-offset `writerange` for ONE position with shifted offset `o'`
(`scatter(data, 0, unwind(ptr, o' - arange(L)), obs)`; in-place and out-of-place coincide). -/
def Ring.writerangeScatter (r : Ring α) (xs : List α) (o' : Int) : Ring α :=
  { r with data := xs.zipIdx.foldl (fun d xj => d.set (unwind r.ptr (o' - (xj.2 : Int)) r.n) xj.1) r.data }

/-- `align(index)`: `data.roll(index - pointer, 0)`, `pointer = index`. -/
def Ring.align (r : Ring α) (index : Nat) : Ring α :=
  { r with data := roll r.data ((index : Int) - (r.ptr : Int)), ptr := index }

/-- `reset(fill)` with a fill value: `data.fill_(fill)`, `pointer = 0`. -/
def Ring.resetFill (r : Ring α) (fill : α) : Ring α :=
  { r with data := List.replicate r.data.length fill, ptr := 0 }

/-! ## Specification: the plain list-of-observations model

`h : List α` of length `n`; `h[k]` is the observation `k` steps before the write position
(index taken modulo `n`). -/

def specIdx (n : Nat) (k : Int) : Nat := (k % (n : Int)).toNat

def specRead (h : List α) (o : Int) : Option α := h[specIdx h.length o]?
def specWrite (h : List α) (x : α) (o : Int) : List α := h.set (specIdx h.length o) x
def specIncr (h : List α) (q : Int) : List α := roll h q
def specDecr (h : List α) (q : Int) : List α := roll h (-q)
def specPush (h : List α) (x : α) : List α := specIncr (specWrite h x 0) 1
def specPop (h : List α) : List α × Option α := let h' := specDecr h 1; (h', specRead h' 0)
/-- oldest → newest: observations at offsets `o', o'-1, …, o'-len+1`. -/
def specReadrange (h : List α) (len : Nat) (o' : Int) : List (Option α) :=
  (List.range len).map fun (j : Nat) => h[specIdx h.length (o' - (j : Int))]?
def specWriterange (h : List α) (xs : List α) (o' : Int) : List α :=
  xs.zipIdx.foldl (fun d xj => d.set (specIdx h.length (o' - (xj.2 : Int))) xj.1) h
def specReset (h : List α) (fill : α) : List α := List.replicate h.length fill

/-- History after pushing `xs` (oldest first) onto `h`. -/
def pushAll (h : List α) (xs : List α) : List α := xs.foldl specPush h

/-- Abstraction: `abs r = [view 0, view 1, …, view (n-1)]` with `view k = data[(ptr - k) mod n]`. -/
def Ring.abs (r : Ring α) : List α :=
  (r.data.drop (r.ptr + 1) ++ r.data.take (r.ptr + 1)).reverse

end InfernoVerif.Ring
