import InfernoVerif.Model.Shaped
/-
Model of `RecordTensor` resizing (C13) — hand written, code shaped, core Lean only.

* `resizeTail`      : `ShapedTensor.__make_compatible` / `resize(preserve_tail=True)` on dim 0
                      (slice off the head / prepend zeros);
* `Ring.reconstrain0`: what a temporal setter does to initialised storage: `align(0)`, then the
                      tail-preserving resize, pointer left at 0;
* `recSize`          : `max(math.ceil(duration / dt) + inclusive, 1)`, generic in how the
                      quotient's ceiling is computed (`TimeOps`): `ratOps` is exact rational
                      arithmetic; the driver also instantiates it with IEEE doubles (the code's
                      own arithmetic) for the non-representable stream;
* `step`             : the code-shaped machine over {dt, duration, inclusive setters,
                      `RecordTensor.reconstrain`, push, `value = <ignored>`, initialize};
* `sstep`            : the specification machine: storage is the list of observations newest
                      first (`hist[j]` = the observation `j+1` steps before present); resizing
                      is "truncate, or pad with zeros at the old end"; nothing is ever rotated.
`Props/C13.lean` proves `sabs (step s op) = sstep (sabs s) op` for every well-formed state.
-/
namespace InfernoVerif.Record
open InfernoVerif.Ring InfernoVerif.Shaped

variable {α : Type}

/-- `__make_compatible(tensor, 0, size)`: shrink keeps the tail, grow prepends `z`. -/
def resizeTail (l : List α) (size : Nat) (z : α) : List α :=
  if l.length > size then l.drop (l.length - size)
  else if l.length < size then List.replicate (size - l.length) z ++ l
  else l

/-- `align(0)` followed by the dim-0 resize; the pointer stays where `align` put it. -/
def _root_.InfernoVerif.Ring.Ring.reconstrain0 (r : Ring α) (size : Nat) (z : α) : Ring α :=
  let a := r.align 0
  { n := size, ptr := a.ptr, data := resizeTail a.data size z }

/-- Observations newest first: `newest[j]` is what `read(j+1)` returns. -/
def _root_.InfernoVerif.Ring.Ring.newest (r : Ring α) : List α := r.abs.drop 1 ++ r.abs.take 1

/-- Specification of a resize on the newest-first list: truncate, or pad the old end. -/
def specResize (h : List α) (size : Nat) (z : α) : List α :=
  (h ++ List.replicate (size - h.length) z).take size

/-! ### The record-size formula -/

structure TimeOps (τ : Type) where
  pos     : τ → Bool            -- `argtest.gt(value, 0)`
  nonneg  : τ → Bool            -- `argtest.gte(value, 0)`
  ceilDiv : τ → τ → Int         -- `math.ceil(duration / dt)`

/-- `max(math.ceil(duration / dt) + inclusive, 1)`. -/
def recSize {τ : Type} (T : TimeOps τ) (dt dur : τ) (incl : Bool) : Nat :=
  (max (T.ceilDiv dur dt + (if incl then 1 else 0)) 1).toNat

/-- exact rational arithmetic -/
def ratOps : TimeOps Rat :=
  { pos := fun v => decide (0 < v), nonneg := fun v => decide (0 ≤ v),
    ceilDiv := fun dur dt => (dur / dt).ceil }

/-! ### Machine states -/

abbrev Row := List Int

inductive Store (σ : Type) where
  | none                              -- `None`
  | empty                             -- `torch.empty(0)`
  | uninit                            -- `nn.UninitializedBuffer()`
  | init (sh : List Nat) (d : σ)      -- observation shape, payload
deriving Repr, DecidableEq

/-- `σ = Nat × List Row` (pointer, rows in storage order) for the code-shaped machine,
`σ = List Row` (observations newest first) for the specification. -/
structure RState (τ σ : Type) where
  dt     : τ
  dur    : τ
  incl   : Bool
  cons   : Cons           -- raw constraints, key 0 ↦ recordsz
  strict : Bool
  param  : Bool           -- storage is an `nn.Parameter`
  store  : Store σ
deriving Repr

abbrev MState (τ : Type) := RState τ (Nat × List Row)
abbrev SState (τ : Type) := RState τ (List Row)

inductive AssignKind where
  | none | empty | uninit
deriving Repr, DecidableEq

inductive Op (τ : Type) where
  | setDt (v : τ)
  | setDur (v : τ)
  | setIncl (b : Bool)
  /-- `RecordTensor.reconstrain(dim, size)` (observation-relative `dim`) -/
  | recon (dim : Int) (size : Option Int)
  | push (sh : List Nat) (x : Row) (inplace : Bool)
  /-- `rt.value = None | torch.empty(0) | nn.UninitializedBuffer()` -/
  | assign (k : AssignKind)
  | initz (sh : List Nat)
deriving Repr

inductive Out where
  | unit
  | err (e : Err)
  | unsupported
deriving Repr, DecidableEq

def zeroRow (sh : List Nat) : Row := List.replicate (prod sh) 0

/-- the shape `reconstrain` sees: `none` when the storage is ignored. -/
def mShape? : Store (Nat × List Row) → Option (List Nat)
  | .init sh (_, rows) => some (rows.length :: sh)
  | _ => Option.none

def sShape? : Store (List Row) → Option (List Nat)
  | .init sh h => some (h.length :: sh)
  | _ => Option.none

/-! ### The code-shaped machine -/

section Machine
variable {τ : Type}

/-- apply a `ShapedTensor.reconstrain` decision to record storage. -/
def applyM (s : MState τ) : Decision → MState τ × Out
  | .err e => (s, .err e)
  | .set c => ({ s with cons := c }, .unit)
  | .setErr c e => ({ s with cons := c }, .err e)
  | .resize c t size =>
    match s.store with
    | .init sh (p, rows) =>
      if t = 0 then
        ({ s with cons := c, store := .init sh (p, resizeTail rows size (zeroRow sh)) }, .unit)
      else
        ({ s with cons := c,
                  store := .init (sh.set (t - 1) size) (p, rows.map (resizeDim sh (t - 1) size)) }, .unit)
    | _ => (s, .unsupported)

/-- `ShapedTensor.reconstrain(self, rawdim, size)`. -/
def shapedReconM (s : MState τ) (rawdim : Int) (size : Option Int) : MState τ × Out :=
  applyM s (reconDecide s.cons s.strict (mShape? s.store) rawdim size)

/-- `if not self._ignore(self.__data): self.align(0)`. -/
def align0 (s : MState τ) : MState τ :=
  match s.store with
  | .init sh (p, rows) => { s with store := .init sh (0, roll rows ((0 : Int) - (p : Int))) }
  | _ => s

/-- common tail of the temporal setters: `if size != recordsz: align(0); reconstrain(0, size)`. -/
def resizeToM (s : MState τ) (size : Nat) : MState τ × Out :=
  match s.cons.lookup 0 with
  | Option.none => (s, .err .KeyError)
  | some n => if size = n then (s, .unit) else shapedReconM (align0 s) 0 (some (size : Int))

def freshRows (n : Nat) (sh : List Nat) : List Row := List.replicate n (zeroRow sh)

def step (T : TimeOps τ) (s : MState τ) : Op τ → MState τ × Out
  | .setDt v =>
    if T.pos v then resizeToM { s with dt := v } (recSize T v s.dur s.incl)
    else (s, .err .ValueError)
  | .setDur v =>
    if T.nonneg v then resizeToM { s with dur := v } (recSize T s.dt v s.incl)
    else (s, .err .ValueError)
  | .setIncl b =>                                   -- stores the flag, then `self.duration = duration`
    if T.nonneg s.dur then resizeToM { s with incl := b } (recSize T s.dt s.dur b)
    else ({ s with incl := b }, .err .ValueError)
  | .recon dim size => shapedReconM (align0 s) (if 0 ≤ dim then dim + 1 else dim) size
  | .push xsh x inplace =>
    match s.cons.lookup 0 with
    | Option.none => (s, .err .KeyError)
    | some n =>
      match s.store with
      | .init sh (p, rows) =>
        if xsh ≠ sh then (s, .err .ValueError)
        else
          let r := (⟨n, p, rows⟩ : Ring Row).push x inplace
          ({ s with store := .init sh (r.ptr, r.data) }, .unit)
      | _ =>                                        -- `initialize(obs.shape)` first
        let r := (⟨n, 0, freshRows n xsh⟩ : Ring Row).push x inplace
        ({ s with store := .init xsh (r.ptr, r.data) }, .unit)
  | .assign k =>
    match k with
    | .none => if s.param then (s, .err .RuntimeError) else ({ s with store := .none }, .unit)
    | .empty => ({ s with store := .empty }, .unit)
    | .uninit => if s.param then (s, .unsupported) else ({ s with store := .uninit }, .unit)
  | .initz sh =>
    match s.cons.lookup 0 with
    | Option.none => (s, .err .KeyError)
    | some n => ({ s with store := .init sh (0, freshRows n sh) }, .unit)

/-! ### The specification machine -/

def applyS (s : SState τ) : Decision → SState τ × Out
  | .err e => (s, .err e)
  | .set c => ({ s with cons := c }, .unit)
  | .setErr c e => ({ s with cons := c }, .err e)
  | .resize c t size =>
    match s.store with
    | .init sh h =>
      if t = 0 then ({ s with cons := c, store := .init sh (specResize h size (zeroRow sh)) }, .unit)
      else ({ s with cons := c,
                     store := .init (sh.set (t - 1) size) (h.map (resizeDim sh (t - 1) size)) }, .unit)
    | _ => (s, .unsupported)

def shapedReconS (s : SState τ) (rawdim : Int) (size : Option Int) : SState τ × Out :=
  applyS s (reconDecide s.cons s.strict (sShape? s.store) rawdim size)

def resizeToS (s : SState τ) (size : Nat) : SState τ × Out :=
  match s.cons.lookup 0 with
  | Option.none => (s, .err .KeyError)
  | some n => if size = n then (s, .unit) else shapedReconS s 0 (some (size : Int))

def sstep (T : TimeOps τ) (s : SState τ) : Op τ → SState τ × Out
  | .setDt v =>
    if T.pos v then resizeToS { s with dt := v } (recSize T v s.dur s.incl)
    else (s, .err .ValueError)
  | .setDur v =>
    if T.nonneg v then resizeToS { s with dur := v } (recSize T s.dt v s.incl)
    else (s, .err .ValueError)
  | .setIncl b =>
    if T.nonneg s.dur then resizeToS { s with incl := b } (recSize T s.dt s.dur b)
    else ({ s with incl := b }, .err .ValueError)
  | .recon dim size => shapedReconS s (if 0 ≤ dim then dim + 1 else dim) size
  | .push xsh x _ =>
    match s.cons.lookup 0 with
    | Option.none => (s, .err .KeyError)
    | some n =>
      match s.store with
      | .init sh h =>
        if xsh ≠ sh then (s, .err .ValueError)
        else ({ s with store := .init sh ((x :: h).take h.length) }, .unit)
      | _ => ({ s with store := .init xsh ((x :: freshRows n xsh).take n) }, .unit)
  | .assign k =>
    match k with
    | .none => if s.param then (s, .err .RuntimeError) else ({ s with store := .none }, .unit)
    | .empty => ({ s with store := .empty }, .unit)
    | .uninit => if s.param then (s, .unsupported) else ({ s with store := .uninit }, .unit)
  | .initz sh =>
    match s.cons.lookup 0 with
    | Option.none => (s, .err .KeyError)
    | some n => ({ s with store := .init sh (freshRows n sh) }, .unit)

/-- Abstraction: forget the pointer, list the observations newest first. -/
def sabs (s : MState τ) : SState τ :=
  { dt := s.dt, dur := s.dur, incl := s.incl, cons := s.cons, strict := s.strict, param := s.param,
    store := match s.store with
      | .none => .none | .empty => .empty | .uninit => .uninit
      | .init sh (p, rows) => .init sh (Ring.newest ⟨rows.length, p, rows⟩) }

/-- Well-formedness of a machine state: a record dimension constraint `0 ↦ n`, `n ≥ 1`, and
initialised storage has `n` rows with the pointer inside. -/
def MWF (s : MState τ) : Prop :=
  ∃ n, s.cons.lookup 0 = some n ∧ 0 < n ∧
    match s.store with
    | .init _ (p, rows) => rows.length = n ∧ p < n
    | _ => True

def run (T : TimeOps τ) (s : MState τ) : List (Op τ) → MState τ × List Out
  | [] => (s, [])
  | op :: ops => let (s', o) := step T s op; let (s'', os) := run T s' ops; (s'', o :: os)

def srun (T : TimeOps τ) (s : SState τ) : List (Op τ) → SState τ × List Out
  | [] => (s, [])
  | op :: ops => let (s', o) := sstep T s op; let (s'', os) := srun T s' ops; (s'', o :: os)

/-- `RecordTensor.valid`. -/
def validM (s : MState τ) : Bool :=
  match mShape? s.store with
  | Option.none => true
  | some sh => compatible sh s.cons s.strict

def validS (s : SState τ) : Bool :=
  match sShape? s.store with
  | Option.none => true
  | some sh => compatible sh s.cons s.strict

/-! ### Construction (`RecordTensor.__init__`) -/

inductive InitVal where
  | none | empty | uninit
  | zeros (sh : List Nat)             -- a zero tensor of observation shape `sh`
deriving Repr, DecidableEq

/-- shift of user constraints: `d + 1 if d >= 0 else d`. -/
def shiftCons (user : Cons) : Cons := user.map fun p => (if 0 ≤ p.1 then p.1 + 1 else p.1, p.2)

def initStore (size : Nat) : InitVal → Store (Nat × List Row)
  | .none => .none
  | .empty => .empty
  | .uninit => .uninit
  | .zeros sh => .init sh (0, freshRows size sh)     -- `value.unsqueeze(0).repeat(size, 1, …)`

def construct (T : TimeOps τ) (dt dur : τ) (incl strict param : Bool) (user : Cons) (v : InitVal) :
    Except Err (MState τ) :=
  if T.pos dt = false then .error .ValueError
  else if T.nonneg dur = false then .error .ValueError
  else if validM (⟨dt, dur, incl, (shiftCons user).put 0 (recSize T dt dur incl), strict, param,
                   initStore (recSize T dt dur incl) v⟩ : MState τ) = false then .error .RuntimeError
  else .ok ⟨dt, dur, incl, (shiftCons user).put 0 (recSize T dt dur incl), strict, param,
            initStore (recSize T dt dur incl) v⟩

/-! ### Vocabulary of the size-formula invariant -/

/-- the record dimension has the size the formula demands for the stored dt / duration / inclusive -/
def SizeOK (T : TimeOps τ) (s : MState τ) : Prop :=
  s.cons.lookup 0 = some (recSize T s.dt s.dur s.incl)

def Op.isSetter : Op τ → Bool
  | .setDt _ => true
  | .setDur _ => true
  | .setIncl _ => true
  | _ => false

/-- every temporal setter of the run returned without raising -/
def settersSucceed (T : TimeOps τ) : MState τ → List (Op τ) → Prop
  | _, [] => True
  | s, op :: ops => (op.isSetter = true → (step T s op).2 = .unit) ∧ settersSucceed T (step T s op).1 ops

end Machine

end InfernoVerif.Record
