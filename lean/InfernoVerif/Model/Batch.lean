import InfernoVerif.Model.RingOps
/-
Batch structure of neurons, synapses, connections, layers and trainers (C11) — hand written, core
Lean only, deliberately THIN: the models of C03/C04/C05 are per sample by construction, so the
Lean content is (1) a batched component is a list of per-sample states stepped by a per-sample
function with shared parameters (`stepB`), (2) the one place where the code mixes positions of a
whole `(B, …)` tensor in a single primitive call — `gather` / `scatter` on the delay records with a
`(B, N, …)` index tensor built from the EXPANDED selector — acts column by column
(`Ring.readrangeT` / `Ring.writerangeT` of `Model/RingOps.lean`, one column per flattened
position), and (3) the documented cross-sample coupling: the batch reduction of trainer updates,
here with `torch.sum`.
Tie to the code: `harness/corr/c11.py` — the relational comparison of a batch-B component with B
separately constructed batch-1 copies on the real classes.
-/
namespace InfernoVerif.Batch
open InfernoVerif.Ring

variable {θ S I O β α : Type}

/-- One step of a batched component: sample `b` is stepped with its own state and input and the
shared parameters `p` (weights, delays, hyper-parameters; adaptation frozen). -/
def stepB (step : θ → S → I → S × O) (p : θ) (Ss : List S) (Xs : List I) : List S × List O :=
  (((Ss.zip Xs).map fun sx => step p sx.1 sx.2).map (·.1),
   ((Ss.zip Xs).map fun sx => step p sx.1 sx.2).map (·.2))

/-- a run: per step one list of per-sample inputs; outputs per step, per sample -/
def runB (step : θ → S → I → S × O) (p : θ) (Ss : List S) : List (List I) → List S × List (List O)
  | [] => (Ss, [])
  | Xs :: rest =>
    let r := stepB step p Ss Xs
    let r' := runB step p r.1 rest
    (r'.1, r.2 :: r'.2)

/-- the same component run on ONE sample -/
def run1 (step : θ → S → I → S × O) (p : θ) (s : S) : List I → S × List O
  | [] => (s, [])
  | x :: rest =>
    let r := step p s x
    let r' := run1 step p r.1 rest
    (r'.1, r.2 :: r'.2)

/-- the input sequence of sample `b` (defined when every step has an input for it) -/
def projSeq (b : Nat) : List (List I) → Option (List I)
  | [] => some []
  | Xs :: rest =>
    match Xs[b]?, projSeq b rest with
    | some x, some xs => some (x :: xs)
    | _, _ => none

/-- column `p` of a record whose observations are flat rows (`None` where a row is too short) -/
def col (p : Nat) (d : List (List β)) : List (Option β) := d.map (·[p]?)

/-- entry `(i, p)` of a record -/
def cell (d : List (List β)) (i p : Nat) : Option β := (d[i]?).bind (·[p]?)

/-- `selector.expand(B, …)` flattened: every sample sees the same per-synapse offsets -/
def expandB (B : Nat) (sel : List α) : List α := (List.replicate B sel).flatten

/-! ### batch reduction with `torch.sum`

One `Int` per parameter element (the harness compares in float64 to 1e-9 relative, sums being
re-associated). -/

def sumB (us : List Int) : Int := us.foldl (· + ·) 0

/-- batched trainer step with `batch_reduction = torch.sum`: the accumulator receives
`Σ_b u(s_b, x_b)` -/
def accStepB (u : S → I → Int) (acc : Int) (Ss : List S) (Xs : List I) : Int :=
  acc + sumB ((Ss.zip Xs).map fun sx => u sx.1 sx.2)

/-- single-sample trainer step (a batch of one, any reduction that is the identity on one row) -/
def accStep1 (u : S → I → Int) (acc : Int) (s : S) (x : I) : Int := acc + u s x

/-- `Σ_{i<n} f i` -/
def sumTo (n : Nat) (f : Nat → Int) : Int := sumB ((List.range n).map f)

end InfernoVerif.Batch
