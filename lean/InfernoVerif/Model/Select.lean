import InfernoVerif.Model.Ring
/-
Model of `RecordTensor.select` / `RecordTensor.insert` (`inferno/core/infrastructure.py`) for ONE
storage column: a `Ring α` holding one scalar per time slot.  Code shaped (one function per Python
branch: scalar time / tensor time), core Lean only, executable.

The definitions are generic over `Ops α`, the handful of arithmetic operations the Python code
uses, and take the interpolation / extrapolation kernel as a parameter.  Instances:
`ratOps` (exact; driver, rational kernels), `floatOps` (IEEE double, same operation order as the
Python source; driver, exp kernels) — and `realOps` in `Lemmas/Select.lean` (the instance the
theorems of `Props/C02.lean` are about; `Lemmas/Select.lean` also proves that the `ratOps` run is
the `realOps` run on the casts).

Scalar-time calls act on a whole observation with ONE time, hence identically on every column;
tensor-time calls carry one time per element (and per entry of the optional trailing time
dimension), each of which addresses one column: `selectTensor` / `insertTensor` are the
per-element functions, `selectTensorAll` / `insertTensorAll` lift them to a list of columns with
the all-or-nothing range test (`amin` / `amax`).

Tie to the code: `harness/corr/c02.py` (same calls on real `RecordTensor`s and on `drivers/C02.lean`).
Not modelled: dtype conversion of the written values (storage is float64 in the check), autograd.
-/
namespace InfernoVerif.Select
open InfernoVerif.Ring

/-- The arithmetic `select` / `insert` perform on times (`float` / float tensors in Python).
`round` is round-half-to-even (Python `round`, `torch.round`); `floor`/`ceil` are `math.floor`,
`math.ceil` / `.floor()`, `.ceil()` followed by `int()` / `.long()`. -/
structure Ops (α : Type) where
  add : α → α → α
  sub : α → α → α
  mul : α → α → α
  div : α → α → α
  neg : α → α
  abs : α → α
  ofInt : Int → α
  floor : α → Int
  ceil : α → Int
  round : α → Int
  le : α → α → Bool
  lt : α → α → Bool

/-- Interpolation kernel: `interp(prev_data, next_data, sample_at, step_time)`. -/
abbrev Interp (α : Type) := α → α → α → α → α
/-- Extrapolation kernel: `extrap(sample, sample_at, prev_data, next_data, step_time)`
returning `(value for the prev slot, value for the next slot)`. -/
abbrev Extrap (α : Type) := α → α → α → α → α → α × α

/-- Result of a call: a value, the `ValueError` of the range test (or of `writerange`'s length
test), or an index outside `data` (unreachable on a well-formed ring). -/
inductive Outcome (β : Type) where
  | ok (v : β)
  | valueError
  | noSlot
deriving Repr, DecidableEq

variable {α : Type}

/-- `x % 1` (Python float `%`, `torch.remainder`): `x - floor x`. -/
def mod1 (K : Ops α) (x : α) : α := K.sub x (K.ofInt (K.floor x))

/-- The range test: `not (time < -tolerance or time > dt * (recordsz - 1) + tolerance)`. -/
def inRange (K : Ops α) (n : Nat) (dt tol t : α) : Bool :=
  !(K.lt t (K.neg tol) || K.lt (K.add (K.mul dt (K.ofInt ((n : Int) - 1))) tol) t)

/-- `abs(dt * round(time / dt) - time) <= tolerance`. -/
def onGrid (K : Ops α) (dt tol t : α) : Bool :=
  K.le (K.abs (K.sub (K.mul dt (K.ofInt (K.round (K.div t dt)))) t)) tol

/-- The tensor path's `shift`: `where(|dt * shiftr - time| <= tol, shiftr, time / dt)`. -/
def shiftOf (K : Ops α) (dt tol t : α) : α :=
  if onGrid K dt tol t then K.ofInt (K.round (K.div t dt)) else K.div t dt

/-- `dt - dt * (shift % 1)`: the `sample_at` argument handed to the kernel. -/
def sampleAt (K : Ops α) (dt shift : α) : α := K.sub dt (K.mul dt (mod1 K shift))

def readO (r : Ring α) (o : Int) : Outcome α :=
  match r.read o with
  | some v => .ok v
  | none => .noSlot

/-- The gather of the two bracketing slots (`prev_idx`, `next_idx`), continued with `f`. -/
def withPair {β : Type} (a b : Option α) (f : α → α → Outcome β) : Outcome β :=
  match a, b with
  | some p, some q => f p q
  | _, _ => .noSlot

def Outcome.map {β γ : Type} (f : β → γ) : Outcome β → Outcome γ
  | .ok v => .ok (f v)
  | .valueError => .valueError
  | .noSlot => .noSlot

/-- `select(time: float, interp, tolerance=tol, offset=offset)` on one column. -/
def selectScalar (K : Ops α) (interp : Interp α) (r : Ring α) (dt tol t : α) (offset : Int) :
    Outcome α :=
  if !inRange K r.n dt tol t then .valueError
  else
    let shift := K.div t dt
    if onGrid K dt tol t then
      -- `data[_unwind_ptr(ptr, offset + round(shift), recordsz)]`
      readO r (offset + K.round shift)
    else
      let off := K.add (K.ofInt offset) shift
      withPair (r.read (K.ceil off)) (r.read (K.floor off)) fun p q => .ok (interp p q (sampleAt K dt shift) dt)

/-- One element of `select(time: Tensor, …)`: always interpolate (with the snapped shift), then
overwrite with the gathered `prev` value where `ceil = floor`.  Range test on this element only
(see `selectTensorAll`). -/
def selectTensor (K : Ops α) (interp : Interp α) (r : Ring α) (dt tol t : α) (offset : Int) :
    Outcome α :=
  if !inRange K r.n dt tol t then .valueError
  else
    let shift := shiftOf K dt tol t
    let off := K.add (K.ofInt offset) shift
    let pi := K.ceil off
    let ni := K.floor off
    withPair (r.read pi) (r.read ni) fun p q =>
      let res := interp p q (sampleAt K dt shift) dt
      .ok (if pi = ni then p else res)

/-- `select(time: Tensor)` over a list of `(column, time)` pairs: `ValueError` if ANY time is out
of range (`amin`/`amax`), else element-wise. -/
def selectTensorAll (K : Ops α) (interp : Interp α) (cols : List (Ring α × α)) (dt tol : α)
    (offset : Int) : Outcome (List (Outcome α)) :=
  if cols.any (fun ct => !inRange K ct.1.n dt tol ct.2) then .valueError
  else .ok (cols.map fun ct => selectTensor K interp ct.1 dt tol ct.2 offset)

/-- `insert(obs, time: float, extrap, tolerance=tol, offset=offset, inplace=inplace)` on one column. -/
def insertScalar (K : Ops α) (extrap : Extrap α) (r : Ring α) (dt tol : α) (obs t : α)
    (offset : Int) (inplace : Bool) : Outcome (Ring α) :=
  if !inRange K r.n dt tol t then .valueError
  else
    let shift := K.div t dt
    if onGrid K dt tol t then
      -- `self.write(obs, offset + round(shift), inplace=inplace)`
      .ok (r.write obs (offset + K.round shift) inplace)
    else
      let off := K.add (K.ofInt offset) shift
      let pi := K.ceil off
      let ni := K.floor off
      withPair (r.read pi) (r.read ni) fun p q =>
        let ex := extrap obs (sampleAt K dt shift) p q dt
        if inplace then
          -- `data[prev_idx] = prev_exobs; data[next_idx] = next_exobs`
          .ok ((r.writeInplace ex.1 pi).writeInplace ex.2 ni)
        else if 2 > r.n then .valueError   -- `writerange`: more observations than slots
        else
          -- `writerange(stack((prev_exobs, next_exobs), -1), ceil(offset), forward=True, inplace=False)`
          .ok (r.writerangeScalar [ex.1, ex.2] (shiftOffset pi 2 true) false)

/-- One element of `insert(obs, time: Tensor, …)`: extrapolate with the snapped shift, replace both
results by `obs` where `ceil = floor`, `scatter` the pair (prev first, then next) into the column. -/
def insertTensor (K : Ops α) (extrap : Extrap α) (r : Ring α) (dt tol : α) (obs t : α)
    (offset : Int) : Outcome (Ring α) :=
  if !inRange K r.n dt tol t then .valueError
  else
    let shift := shiftOf K dt tol t
    let off := K.add (K.ofInt offset) shift
    let pi := K.ceil off
    let ni := K.floor off
    withPair (r.read pi) (r.read ni) fun p q =>
      let ex := extrap obs (sampleAt K dt shift) p q dt
      let pe := if pi = ni then obs else ex.1
      let ne := if pi = ni then obs else ex.2
      .ok ((r.writeInplace pe pi).writeInplace ne ni)

/-- `insert(obs, time: Tensor)` over a list of `(column, obs, time)`: all-or-nothing range test. -/
def insertTensorAll (K : Ops α) (extrap : Extrap α) (cols : List (Ring α × α × α)) (dt tol : α)
    (offset : Int) : Outcome (List (Outcome (Ring α))) :=
  if cols.any (fun c => !inRange K c.1.n dt tol c.2.2) then .valueError
  else .ok (cols.map fun c => insertTensor K extrap c.1 dt tol c.2.1 c.2.2 offset)

/-! ## Specification (the property's wording), stated on the same column

`specRead h k` = the observation `k` steps before the write position in the plain
list-of-observations model of C01 (`h = Ring.abs r`; C01 proves `r.read k = specRead r.abs k`).  `gridIndex` is the grid point the property calls "within
tolerance": the nearest multiple of `dt` (any other multiple within tolerance is farther away). -/

/-- `select` on the history `h = [view 0, …, view (n-1)]` (`Ring.abs`):
on grid ⇒ `view (offset + k)`; off grid ⇒ `interp (older) (newer) (elapsed since older) dt`
with older = `view (offset + ⌈t/dt⌉)`, newer = `view (offset + ⌊t/dt⌋)`, elapsed = `⌈t/dt⌉·dt − t`. -/
def specSelect (K : Ops α) (interp : Interp α) (h : List α) (dt tol t : α) (offset : Int) :
    Outcome α :=
  if !inRange K h.length dt tol t then .valueError
  else
    let k := K.round (K.div t dt)
    if K.le (K.abs (K.sub (K.mul (K.ofInt k) dt) t)) tol then
      withPair (specRead h (offset + k)) (specRead h (offset + k)) fun v _ => .ok v
    else
      let kc := K.ceil (K.div t dt)
      let kf := K.floor (K.div t dt)
      withPair (specRead h (offset + kc)) (specRead h (offset + kf)) fun older newer =>
        .ok (interp older newer (K.sub (K.mul (K.ofInt kc) dt) t) dt)

/-- The history after `insert`, as the list `[view 0, …, view (n-1)]` (`Ring.abs`):
on grid ⇒ only `view (offset + k)` changes, to `obs`; off grid ⇒ only the two bracketing views
change, to the two extrapolated values. -/
def specInsert (K : Ops α) (extrap : Extrap α) (h : List α) (dt tol : α) (obs t : α)
    (offset : Int) : Outcome (List α) :=
  if !inRange K h.length dt tol t then .valueError
  else
    let k := K.round (K.div t dt)
    if K.le (K.abs (K.sub (K.mul (K.ofInt k) dt) t)) tol then .ok (specWrite h obs (offset + k))
    else
      let kc := K.ceil (K.div t dt)
      let kf := K.floor (K.div t dt)
      withPair (specRead h (offset + kc)) (specRead h (offset + kf)) fun older newer =>
        let ex := extrap obs (K.sub (K.mul (K.ofInt kc) dt) t) older newer dt
        .ok (specWrite (specWrite h ex.1 (offset + kc)) ex.2 (offset + kf))

/-! ## Instances -/

/-- Round half to even on `Rat`. -/
def ratRound (x : Rat) : Int :=
  let f := x.floor
  let d := x - (f : Rat)
  if d < 1/2 then f else if 1/2 < d then f + 1 else if f % 2 = 0 then f else f + 1

def ratOps : Ops Rat where
  add := (· + ·)
  sub := (· - ·)
  mul := (· * ·)
  div := (· / ·)
  neg := (- ·)
  abs := fun x => if x < 0 then -x else x
  ofInt := fun i => (i : Rat)
  floor := Rat.floor
  ceil := Rat.ceil
  round := ratRound
  le := fun a b => decide (a ≤ b)
  lt := fun a b => decide (a < b)

/-- Round half to even on `Float` (`Float.round` rounds half away from zero). -/
def floatRound (x : Float) : Int :=
  let f := Float.floor x
  let d := x - f
  let fi := f.toInt64.toInt
  if d < 0.5 then fi else if 0.5 < d then fi + 1 else if fi % 2 = 0 then fi else fi + 1

def floatOps : Ops Float where
  add := (· + ·)
  sub := (· - ·)
  mul := (· * ·)
  div := (· / ·)
  neg := (- ·)
  abs := Float.abs
  ofInt := Float.ofInt
  floor := fun x => (Float.floor x).toInt64.toInt
  ceil := fun x => (Float.ceil x).toInt64.toInt
  round := floatRound
  le := fun a b => decide (a ≤ b)
  lt := fun a b => decide (a < b)

end InfernoVerif.Select
