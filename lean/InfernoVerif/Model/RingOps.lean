import InfernoVerif.Model.Ring
/-
Operational model of `RecordTensor`'s public read / write / pointer API, including the
"ignored storage" states, shape checks, error classes and dtype conversion, on top of the
per-path functions of `Model/Ring.lean`.  Observations are flat rows `List β` of `P`
positions tagged with their shape.  Core Lean only.

Two machines are defined over the same `Op` alphabet:
* `step`  — code shaped (pointer + storage, one function per Python branch);
* `sstep` — the specification of C01: a plain list of observations `h`, `h[k]` being the
  observation `k` steps before the write position (mod `n`).
`Props/C01.lean` proves `sabs (step s op).1 = (sstep (sabs s) op).1` and equal outputs.
-/
namespace InfernoVerif.Ring

inductive Err | RuntimeError | ValueError | TypeError | AttributeError | IndexError | KeyError | Other
deriving DecidableEq, Repr

/-- dtype class of a tensor: integer (conversion truncates) or floating. -/
abbrev DType := Bool   -- true = integer

/-- Storage kinds the code distinguishes (`_ignore`, `initialize`, `deinitialize`). -/
inductive Store (σ : Type) where
  | none                         -- `None`
  | empty (dt : DType)           -- `torch.empty(0, dtype=dt)`
  | uninit (dt : DType)          -- `nn.UninitializedBuffer(dtype=dt)`
  | init (dt : DType) (shape : List Nat) (s : σ)
deriving Repr, DecidableEq

structure Obs (β : Type) where
  dt    : DType
  shape : List Nat
  vals  : List β
deriving Repr, DecidableEq

inductive Op (β : Type) where
  | push (x : Obs β) (inplace : Bool)
  | pop | peek
  | read (o : Int)
  | write (x : Obs β) (o : Int) (inplace : Bool)
  | readrange (len : Nat) (o : Int) (fwd : Bool)
  | readrangeT (len : Nat) (offShape : List Nat) (offs : List Int) (fwd : Bool)
  /-- `xs` are the `L` time slices of the `shape × L` tensor, oldest first. -/
  | writerange (dt : DType) (shape : List Nat) (xs : List (List β)) (o : Int) (fwd inplace : Bool)
  | writerangeT (dt : DType) (shape : List Nat) (xs : List (List β)) (offShape : List Nat)
      (offs : List Int) (fwd inplace : Bool)
  | incr (q : Int) | decr (q : Int)
  | align (idx : Int)
  | reset (fill : Option β)
  | initz (shape : List Nat)
  | deinitz (useUninit : Bool)
deriving Repr

inductive Out (β : Type) where
  | unit | none
  | row (x : List β)
  | orow (x : Option (List β))
  | orows (rows : List (Option (List β)))      -- time-major, oldest first
  | omat (cols : List (List (Option β)))       -- per position, oldest first
  | ptr (p : Nat)
  | err (e : Err)
  | unsupported
deriving Repr, DecidableEq

/-- Parameters of the element type: dtype conversion and the zero used by `initialize`. -/
structure Elem (β : Type) where
  conv : DType → DType → β → β      -- `x.to(dtype=storage dtype)`: obs dtype, storage dtype, value
  zero : β

def prod (l : List Nat) : Nat := l.foldl (· * ·) 1

variable {β : Type}

/-! ### Tensor-offset paths on rows (gather / scatter act position by position) -/

/-- `gather`: for position `pos` with shifted offset `o'`, the `len` reads oldest first. -/
def Ring.readrangeT (r : Ring (List β)) (len : Nat) (offs' : List Int) : List (List (Option β)) :=
  offs'.zipIdx.map fun op =>
    (List.range len).map fun (j : Nat) =>
      (r.data[unwind r.ptr (op.1 - (j : Int)) r.n]?).bind (·[op.2]?)

def specReadrangeT (h : List (List β)) (len : Nat) (offs' : List Int) : List (List (Option β)) :=
  offs'.zipIdx.map fun op =>
    (List.range len).map fun (j : Nat) =>
      (h[specIdx h.length (op.1 - (j : Int))]?).bind (·[op.2]?)

/-- `scatter`: slice `j`, position `pos` goes to storage row `unwind ptr (offs'[pos] - j)`. -/
def Ring.writerangeT (r : Ring (List β)) (xs : List (List β)) (offs' : List Int) : Ring (List β) :=
  { r with data :=
      xs.zipIdx.foldl (fun d xj =>
        (xj.1.zip offs').zipIdx.foldl (fun d vop =>
          d.modify (unwind r.ptr (vop.1.2 - (xj.2 : Int)) r.n) (·.set vop.2 vop.1.1)) d) r.data }

def specWriterangeT (h : List (List β)) (xs : List (List β)) (offs' : List Int) : List (List β) :=
  xs.zipIdx.foldl (fun d xj =>
    (xj.1.zip offs').zipIdx.foldl (fun d vop =>
      d.modify (specIdx h.length (vop.1.2 - (xj.2 : Int))) (·.set vop.2 vop.1.1)) d) h

/-! ### The code-shaped machine -/

abbrev MState (β : Type) := Nat × Store (Ring (List β))    -- (recordsz, storage); ptr lives in the ring

def freshRing (n : Nat) (shape : List Nat) (z : β) : Ring (List β) :=
  ⟨n, 0, List.replicate n (List.replicate (prod shape) z)⟩

/-- dtype the storage gets from `initialize(shape, dtype=d?)` with `fill = 0`. -/
def initDType : Store σ → Option DType → DType
  | .none, some d => d
  | .none, Option.none => true          -- `torch.full(…, 0)` infers int64
  | .empty d, _ => d
  | .uninit d, _ => d
  | .init d _ _, _ => d

def step (E : Elem β) (s : MState β) : Op β → MState β × Out β
  | .read o => match s.2 with
    | .init _ _ r => (s, .orow (r.read o))
    | _ => (s, .err .RuntimeError)
  | .peek => match s.2 with
    | .init _ _ r => (s, .orow (r.read 1))
    | _ => (s, .none)
  | .pop => match s.2 with
    | .init d sh r => let (r', v) := r.pop; ((s.1, .init d sh r'), .orow v)
    | _ => (s, .none)
  | .write x o inplace => match s.2 with
    | .init d sh r =>
      if x.shape ≠ sh then (s, .err .ValueError)
      else ((s.1, .init d sh (r.write (x.vals.map (E.conv x.dt d)) o inplace)), .unit)
    | _ => (s, .err .RuntimeError)
  | .push x inplace =>
    let st : Store (Ring (List β)) := match s.2 with
      | .init d sh r => .init d sh r
      | other => .init (initDType other (match other with | .none => some x.dt | _ => Option.none))
                   x.shape (freshRing s.1 x.shape E.zero)
    match st with
    | .init d sh r =>
      if x.shape ≠ sh then (s, .err .ValueError)
      else ((s.1, .init d sh (r.push (x.vals.map (E.conv x.dt d)) inplace)), .unit)
    | _ => (s, .unsupported)
  | .incr q => match s.2 with
    | .init d sh r => let r' := r.incr q; ((s.1, .init d sh r'), .ptr r'.ptr)
    | _ => (s, .err .RuntimeError)
  | .decr q => match s.2 with
    | .init d sh r => let r' := r.decr q; ((s.1, .init d sh r'), .ptr r'.ptr)
    | _ => (s, .err .RuntimeError)
  | .readrange len o fwd => match s.2 with
    | .init _ _ r =>
      if len = 0 ∨ len > r.n then (s, .unsupported)
      else (s, .orows ((r.readrangeScalar len (shiftOffset o len fwd)).map some))
    | _ => (s, .err .RuntimeError)
  | .readrangeT len osh offs fwd => match s.2 with
    | .init _ sh r =>
      if osh ≠ sh then (s, .err .ValueError)
      else if len = 0 ∨ len > r.n then (s, .unsupported)
      else (s, .omat (r.readrangeT len (offs.map (shiftOffset · len fwd))))
    | _ => (s, .err .RuntimeError)
  | .writerange dt xsh xs o fwd inplace => match s.2 with
    | .init d sh r =>
      if xsh ≠ sh then (s, .err .ValueError)
      else if xs.length > r.n then (s, .err .ValueError)
      else if xs.length = 0 then (s, .unsupported)
      else ((s.1, .init d sh (r.writerangeScalar (xs.map (·.map (E.conv dt d)))
              (shiftOffset o xs.length fwd) inplace)), .unit)
    | _ => (s, .err .RuntimeError)
  | .writerangeT dt xsh xs osh offs fwd _inplace => match s.2 with
    | .init d sh r =>
      if xsh ≠ sh then (s, .err .ValueError)
      else if xs.length > r.n then (s, .err .ValueError)
      else if osh ≠ sh then (s, .err .ValueError)
      else if xs.length = 0 then (s, .unsupported)
      else ((s.1, .init d sh (r.writerangeT (xs.map (·.map (E.conv dt d)))
              (offs.map (shiftOffset · xs.length fwd)))), .unit)
    | _ => (s, .err .RuntimeError)
  | .align idx => match s.2 with
    | .init d sh r =>
      if idx < 0 then (s, .unsupported)
      else if idx.toNat ≥ r.n then (s, .err .ValueError)
      else ((s.1, .init d sh (r.align idx.toNat)), .unit)
    | _ => if idx < 0 then (s, .unsupported)
           else if idx.toNat ≥ s.1 then (s, .err .ValueError) else (s, .err .RuntimeError)
  | .reset (some fill) => match s.2 with
    | .init d sh r => ((s.1, .init d sh (r.resetFill (List.replicate (prod sh) (E.conv false d fill)))), .unit)
    | _ => (s, .unit)
  | .reset Option.none => match s.2 with
    | .init d sh r => ((s.1, .init d sh (r.align 0)), .unit)
    | _ => (s, .err .RuntimeError)
  | .initz shape =>
    ((s.1, .init (initDType s.2 Option.none) shape (freshRing s.1 shape E.zero)), .unit)
  | .deinitz useUninit =>
    let d : DType := match s.2 with
      | .none => false | .empty d => d | .uninit d => d | .init d _ _ => d
    ((s.1, if useUninit then .uninit d else .empty d), .unit)

/-! ### The specification machine: a plain list of observations -/

abbrev SState (β : Type) := Nat × Store (List (List β))

def freshHist (n : Nat) (shape : List Nat) (z : β) : List (List β) :=
  List.replicate n (List.replicate (prod shape) z)

def sstep (E : Elem β) (s : SState β) : Op β → SState β × Out β
  | .read o => match s.2 with
    | .init _ _ h => (s, .orow (specRead h o))
    | _ => (s, .err .RuntimeError)
  | .peek => match s.2 with
    | .init _ _ h => (s, .orow (specRead h 1))
    | _ => (s, .none)
  | .pop => match s.2 with
    | .init d sh h => let (h', v) := specPop h; ((s.1, .init d sh h'), .orow v)
    | _ => (s, .none)
  | .write x o _ => match s.2 with
    | .init d sh h =>
      if x.shape ≠ sh then (s, .err .ValueError)
      else ((s.1, .init d sh (specWrite h (x.vals.map (E.conv x.dt d)) o)), .unit)
    | _ => (s, .err .RuntimeError)
  | .push x _ =>
    let st : Store (List (List β)) := match s.2 with
      | .init d sh h => .init d sh h
      | other => .init (initDType other (match other with | .none => some x.dt | _ => Option.none))
                   x.shape (freshHist s.1 x.shape E.zero)
    match st with
    | .init d sh h =>
      if x.shape ≠ sh then (s, .err .ValueError)
      else ((s.1, .init d sh (specPush h (x.vals.map (E.conv x.dt d)))), .unit)
    | _ => (s, .unsupported)
  | .incr q => match s.2 with
    | .init d sh h => ((s.1, .init d sh (specIncr h q)), .unit)
    | _ => (s, .err .RuntimeError)
  | .decr q => match s.2 with
    | .init d sh h => ((s.1, .init d sh (specDecr h q)), .unit)
    | _ => (s, .err .RuntimeError)
  | .readrange len o fwd => match s.2 with
    | .init _ _ h =>
      if len = 0 ∨ len > h.length then (s, .unsupported)
      else (s, .orows (specReadrange h len (shiftOffset o len fwd)))
    | _ => (s, .err .RuntimeError)
  | .readrangeT len osh offs fwd => match s.2 with
    | .init _ sh h =>
      if osh ≠ sh then (s, .err .ValueError)
      else if len = 0 ∨ len > h.length then (s, .unsupported)
      else (s, .omat (specReadrangeT h len (offs.map (shiftOffset · len fwd))))
    | _ => (s, .err .RuntimeError)
  | .writerange dt xsh xs o fwd _ => match s.2 with
    | .init d sh h =>
      if xsh ≠ sh then (s, .err .ValueError)
      else if xs.length > h.length then (s, .err .ValueError)
      else if xs.length = 0 then (s, .unsupported)
      else ((s.1, .init d sh (specWriterange h (xs.map (·.map (E.conv dt d)))
              (shiftOffset o xs.length fwd))), .unit)
    | _ => (s, .err .RuntimeError)
  | .writerangeT dt xsh xs osh offs fwd _ => match s.2 with
    | .init d sh h =>
      if xsh ≠ sh then (s, .err .ValueError)
      else if xs.length > h.length then (s, .err .ValueError)
      else if osh ≠ sh then (s, .err .ValueError)
      else if xs.length = 0 then (s, .unsupported)
      else ((s.1, .init d sh (specWriterangeT h (xs.map (·.map (E.conv dt d)))
              (offs.map (shiftOffset · xs.length fwd)))), .unit)
    | _ => (s, .err .RuntimeError)
  | .align idx => match s.2 with
    | .init _ _ h =>
      if idx < 0 then (s, .unsupported)
      else if idx.toNat ≥ h.length then (s, .err .ValueError)
      else (s, .unit)
    | _ => if idx < 0 then (s, .unsupported)
           else if idx.toNat ≥ s.1 then (s, .err .ValueError) else (s, .err .RuntimeError)
  | .reset (some fill) => match s.2 with
    | .init d sh h => ((s.1, .init d sh (specReset h (List.replicate (prod sh) (E.conv false d fill)))), .unit)
    | _ => (s, .unit)
  | .reset Option.none => match s.2 with
    | .init _ _ _ => (s, .unit)
    | _ => (s, .err .RuntimeError)
  | .initz shape =>
    ((s.1, .init (initDType s.2 Option.none) shape (freshHist s.1 shape E.zero)), .unit)
  | .deinitz useUninit =>
    let d : DType := match s.2 with
      | .none => false | .empty d => d | .uninit d => d | .init d _ _ => d
    ((s.1, if useUninit then .uninit d else .empty d), .unit)

/-- Abstraction of a machine state. -/
def sabs (s : MState β) : SState β :=
  (s.1, match s.2 with
    | .none => .none | .empty d => .empty d | .uninit d => .uninit d
    | .init d sh r => .init d sh r.abs)

/-- The pointer is not part of the specification: outputs are compared up to it. -/
def Out.forget : Out β → Out β
  | .ptr _ => .unit
  | o => o

/-- Model invariant: the ring is well formed, has `recordsz` slots. -/
def MWF (s : MState β) : Prop :=
  0 < s.1 ∧ match s.2 with
    | .init _ _ r => r.WF ∧ r.n = s.1
    | _ => True

def run (E : Elem β) (s : MState β) : List (Op β) → MState β × List (Out β)
  | [] => (s, [])
  | op :: ops => let (s', o) := step E s op; let (s'', os) := run E s' ops; (s'', o :: os)

def srun (E : Elem β) (s : SState β) : List (Op β) → SState β × List (Out β)
  | [] => (s, [])
  | op :: ops => let (s', o) := sstep E s op; let (s'', os) := srun E s' ops; (s'', o :: os)

end InfernoVerif.Ring
