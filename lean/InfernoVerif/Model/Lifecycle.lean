/-
Operational model of the trainer / monitor lifecycle (property C15), shaped like
`inferno/learn/base.py` (CellTrainer), `inferno/observe/pooling.py` (Observable, MonitorPool),
`inferno/observe/monitors.py` (Monitor.register from weak reference) and the hook mechanics of
`inferno/core/infrastructure.py` (see `Model/Hooks.lean`), AFTER the repairs D15–D17 and D36.
Core Lean only (no imports).

Any number of layers with a fixed set of cells `topo : cell index ↦ (layer, connection, neuron)`
(a layer owns its cells for the whole program; connection / neuron names are per layer, so two
layers may use the same names); any number of trainers; monitors are objects in a global table.

  Layers   : per layer a training flag; ALL layers' `_forward_hooks` are kept in one ordered list
             `(handle id, monitor id)` (`prepend=True` ⇒ front; torch's handle counter is global); the
             entries of layer `l` are those whose monitor was constructed on `l` (`Monitor.layer`).  All shipped trainers use
             post-hooks (`as_prehook=False`), `train_update=True`, `eval_update=False`.
  cellMons : `Observable.__monitors` of every cell — a WEAK name → monitor map shared by ALL
             trainers (the D18 mechanism): `(cell, monitor name, monitor id)`.
  Trainer  : kind (which monitors `register_cell` adds), alive, training,
             `cells` = `cells_` and `monitor_pool_.observed_` (updated together by
             add_cell / del_cell; they differ only when a cell dies, which is not modelled),
             `groups` = `monitor_pool_.monitors_` : cell name ↦ (monitor name ↦ monitor), both
             levels in `nn.ModuleDict` insertion order.
  Monitor  : owner trainer, alive, handle, prepend, realigned attribute path, `_tags`
             (`none` for `unique=True`: the attribute is never set), the monitor names a
             MultiStateMonitor reads through `cell.monitors` (`reads`), observation `count`
             (number of reducer calls since creation / last clear), and the GHOST field
             `expected`: the specification's count — "+1 for every layer step taken while the
             owning trainer and the layer are both in training mode, 0 at creation and after
             clear".  `expected` is never read by the code-shaped part.

CPython's reference counting is modelled by `gc`, run after every operation: a monitor that
is no longer held by its trainer's pool (the only strong holder; the harness keeps no
references) is finalised at once: `weakref.finalize` removes its handle from the layer, the
weak `cellMons` entries vanish.  `collect t` drops the last reference to trainer `t`.
-/
namespace InfernoVerif.Lifecycle

inductive Err | RuntimeError | ValueError | TypeError | AttributeError | IndexError | KeyError | Other
deriving DecidableEq, Repr

/-- realigned (layer-relative) attribute: `neurons_.<n>.<k>`, `connections_.<c>.<k>`,
`cells_.<c>.<n>.monitors` -/
inductive Path | neuron (n k : Nat) | conn (c k : Nat) | cellmons (cell : Nat)
deriving DecidableEq, Repr

/-- cell-relative attribute given to `add_monitor`: `neuron.<k>`, `connection.<k>`, the
cell's own `monitors`, or something the cell does not have -/
inductive AttrSel | neuron (k : Nat) | conn (k : Nat) | cellmons | bad
deriving DecidableEq, Repr

structure Monitor where
  owner    : Nat
  alive    : Bool
  handle   : Option Nat
  prepend  : Bool
  path     : Path
  tags     : Option Nat
  reads    : List Nat
  cell     : Nat
  count    : Nat
  expected : Nat
  layer    : Nat          -- the basis (layer) the monitor was constructed on and registers with
deriving DecidableEq, Repr

structure Trainer where
  kind     : Nat
  alive    : Bool
  training : Bool
  cells    : List (Nat × Nat)                      -- cell name ↦ cell index
  groups   : List (Nat × List (Nat × Nat))         -- cell name ↦ [(monitor name, monitor id)]
deriving DecidableEq, Repr

structure State where
  topo          : List (Nat × Nat × Nat)
  layerTraining : Nat → Bool
  /-- `true` = `Observable.add_monitor` after the repair D36 (the pool search skips observables
  whose basis is dead or another layer); `false` = the old rule, whose test
  `not (alive or id != id)` never skipped anything (kept for the negation witness) -/
  layerFilter   : Bool
  nextId        : Nat
  post          : List (Nat × Nat)
  cellMons      : List (Nat × Nat × Nat)
  mons          : Nat → Monitor
  nMons         : Nat
  trainers      : Nat → Trainer
  nTrainers     : Nat

def noMonitor : Monitor := ⟨0, false, none, false, .cellmons 0, none, [], 0, 0, 0, 0⟩
def noTrainer : Trainer := ⟨0, false, false, [], []⟩

def init (topo : List (Nat × Nat × Nat)) (layerFilter : Bool := true) : State :=
  ⟨topo, fun _ => true, layerFilter, 0, [], [], fun _ => noMonitor, 0, fun _ => noTrainer, 0⟩

/-- the layer that owns cell `cell` -/
def cellLayer (s : State) (cell : Nat) : Nat := (s.topo[cell]?.map (·.1)).getD 0

inductive Op where
  | newTrainer (kind : Nat)
  | registerCell (t n c v : Nat)          -- trainer, cell name, cell index, hyper-parameter variant
  | delCell (t n : Nat)
  | addMonitor (t n mname : Nat) (sel : AttrSel) (unique prepend : Bool) (tags : Nat)
  | delMonitor (t n mname : Nat)
  | trainerTrain (t : Nat) (mode : Bool)
  | layerTrain (l : Nat) (mode : Bool)
  | layerStep (l : Nat)
  | trainerStep (t : Nat)
  | clear (t : Nat)
  | collect (t : Nat)
deriving DecidableEq, Repr

inductive Out where
  | ok
  | idx (n : Nat)
  | err (e : Err)
  | fail            -- `trainer()` raised: a monitor it needs is missing or has no observation yet
  | noref           -- the program names a trainer object that does not exist (any more)
deriving DecidableEq, Repr

/-! ### Small helpers -/

def setMon (s : State) (mid : Nat) (m : Monitor) : State :=
  { s with mons := fun i => if i = mid then m else s.mons i }

def setTrainer (s : State) (t : Nat) (T : Trainer) : State :=
  { s with trainers := fun i => if i = t then T else s.trainers i }

def lookup {β : Type} (l : List (Nat × β)) (k : Nat) : Option β := (l.find? (fun e => e.1 == k)).map (·.2)

/-- all monitor ids held by the trainer's pool, in `named_monitors` order (with repetitions) -/
def poolMids (T : Trainer) : List Nat := T.groups.flatMap (fun g => g.2.map (·.2))

/-- `MonitorPool.monitors`: distinct monitors in order of first occurrence (`unique(...)`) -/
def distinctMids (T : Trainer) : List Nat := (poolMids T).eraseDups

/-- `handle.remove()` -/
def removeHandle (l : List (Nat × Nat)) : Option Nat → List (Nat × Nat)
  | none => l
  | some id => l.filter (fun e => e.1 != id)

/-- `Hook.deregister()` of monitor `mid` -/
def deregisterMon (s : State) (mid : Nat) : State :=
  setMon { s with post := removeHandle s.post (s.mons mid).handle } mid { s.mons mid with handle := none }

/-- `register_forward_hook(..., prepend=b)` on the layer's ordered hook dictionary -/
def insertPost (post : List (Nat × Nat)) (prepend : Bool) (e : Nat × Nat) : List (Nat × Nat) :=
  if prepend then e :: post else post ++ [e]

/-- `Monitor.register()` without argument: re-register on the weakly referenced layer if not
registered (new handle at the end of the layer's hook list, at its front with `prepend`) -/
def registerMon (s : State) (mid : Nat) : State :=
  match (s.mons mid).handle with
  | some _ => s
  | none =>
    setMon { s with post := insertPost s.post (s.mons mid).prepend (s.nextId, mid), nextId := s.nextId + 1 }
      mid { s.mons mid with handle := some s.nextId }

/-- constructing a monitor through a `MonitorConstructor`: a new object, registered on the
layer at once -/
def newMonitor (s : State) (t : Nat) (prepend : Bool) (path : Path) (tags : Option Nat)
    (reads : List Nat) (cell : Nat) : State × Nat :=
  let mid := s.nMons
  let s1 := setMon { s with nMons := s.nMons + 1 } mid
    ⟨t, true, none, prepend, path, tags, reads, cell, 0, 0, cellLayer s cell⟩
  (registerMon s1 mid, mid)

/-- `cell.__monitors[name] = monitor` -/
def setCellMon (cm : List (Nat × Nat × Nat)) (cell mname mid : Nat) : List (Nat × Nat × Nat) :=
  (cell, mname, mid) :: cm.filter (fun e => !(e.1 == cell && e.2.1 == mname))

def getCellMon (cm : List (Nat × Nat × Nat)) (cell mname : Nat) : Option Nat :=
  (cm.find? (fun e => e.1 == cell && e.2.1 == mname)).map (·.2.2)

/-- `Cell.local_remap` + `Layer._realign_attribute` -/
def realign (s : State) (cell : Nat) : AttrSel → Except Err Path
  | .neuron k => match s.topo[cell]? with
    | some cn => .ok (.neuron cn.2.2 k)
    | none => .error .AttributeError
  | .conn k => match s.topo[cell]? with
    | some cn => .ok (.conn cn.2.1 k)
    | none => .error .AttributeError
  | .cellmons => if cell < s.topo.length then .ok (.cellmons cell) else .error .AttributeError
  | .bad => .error .RuntimeError           -- "cell does not have an attribute …"

/-! ### Pool operations -/

/-- `self.monitors_[observed][name] = monitor` (new keys go to the end of a `ModuleDict`) -/
def groupsInsert (gs : List (Nat × List (Nat × Nat))) (n mname mid : Nat) : List (Nat × List (Nat × Nat)) :=
  if gs.any (fun g => g.1 == n) then
    gs.map (fun g => if g.1 == n then
      (g.1, if g.2.any (fun e => e.1 == mname) then g.2.map (fun e => if e.1 == mname then (mname, mid) else e)
            else g.2 ++ [(mname, mid)]) else g)
  else gs ++ [(n, [(mname, mid)])]

/-- `del self.monitors_[observed][name]` (the group itself stays, even if empty) -/
def groupsErase (gs : List (Nat × List (Nat × Nat))) (n mname : Nat) : List (Nat × List (Nat × Nat)) :=
  gs.map (fun g => if g.1 == n then (g.1, g.2.filter (fun e => e.1 != mname)) else g)

/-- the alias search of `Observable.add_monitor` over `MonitorPool.pool`: observables in
`observed_` order that have a group; the named monitor must carry equal `_tags`
(`tags` and the realigned attribute); the LAST match wins, the search stops at the cell itself.
Observables owned by another layer are skipped (`layerFilter = true`, the repair D36; the old test
was vacuous: `layerFilter = false`). -/
def findAlias (s : State) (T : Trainer) (cell mname : Nat) (tags : Nat) (path : Path) : Option Nat :=
  let rec go (obs : List (Nat × Nat)) (found : Option Nat) : Option Nat :=
    match obs with
    | [] => found
    | (oname, ocell) :: rest =>
      if s.layerFilter && cellLayer s ocell != cellLayer s cell then go rest found else
      match lookup T.groups oname with
      | none => go rest found
      | some g =>
        match lookup g mname with
        | none => go rest found
        | some mid =>
          let m := s.mons mid
          if m.tags = some tags ∧ m.path = path then
            if ocell = cell then some mid else go rest (some mid)
          else go rest found
  go T.cells none

/-- `if monitor: if unique: del self.monitors_[observed][name]` — the existing entry is dropped
WITHOUT deregistration (the object is finalised if nothing else holds it) -/
def eraseExisting (s : State) (t n mname : Nat) : State :=
  let T := s.trainers t
  if ((lookup T.groups n).bind (lookup · mname)).isSome then
    setTrainer s t { T with groups := groupsErase T.groups n mname }
  else s

/-- `Observable.add_monitor`: a new monitor (`unique`, or no alias in the pool) or the alias -/
def obtainMonitor (s : State) (t cell mname : Nat) (unique prepend : Bool) (tags : Nat) (path : Path)
    (reads : List Nat) : State × Nat :=
  if unique then newMonitor s t prepend path none reads cell
  else match findAlias s (s.trainers t) cell mname tags path with
    | some mid => (s, mid)
    | none => newMonitor s t prepend path (some tags) reads cell

/-- `self.__monitors[name] = monitor` on the cell: overwrites another trainer's entry (D18) -/
def writeCellMon (s : State) (cell mname mid : Nat) : State :=
  { s with cellMons := setCellMon s.cellMons cell mname mid }

/-- `if not self.training: monitor.deregister()` -/
def deregIfEval (s : State) (t mid : Nat) : State :=
  if (s.trainers t).training then s else deregisterMon s mid

/-- `self.monitors_[observed][name] = monitor` -/
def poolInsert (s : State) (t n mname mid : Nat) : State :=
  setTrainer s t { s.trainers t with groups := groupsInsert (s.trainers t).groups n mname mid }

/-- the tail of `add_monitor` -/
def addMonitorTail (s : State) (t n mname mid cell : Nat) : State :=
  poolInsert (deregIfEval (writeCellMon s cell mname mid) t mid) t n mname mid

/-- `MonitorPool.add_monitor` (through `CellTrainer.add_monitor`) -/
def addMonitor (s : State) (t n mname : Nat) (sel : AttrSel) (unique prepend : Bool) (tags : Nat)
    (reads : List Nat) : State × Out :=
  match lookup (s.trainers t).cells n with
  | none => (s, .err .AttributeError)                     -- not the name of an added cell
  | some cell =>
    if ((lookup (s.trainers t).groups n).bind (lookup · mname)).isSome && !unique then
      (s, .ok)                                             -- the existing monitor is returned
    else
      let s1 := eraseExisting s t n mname
      match realign s1 cell sel with
      | .error e => (s1, .err e)
      | .ok path =>
        let r := obtainMonitor s1 t cell mname unique prepend tags path reads
        (addMonitorTail r.1 t n mname r.2 cell, .ok)

/-- what `register_cell` of each trainer kind adds: (monitor name, attribute, unique, prepend,
tags, reads).  Names: 0 trace_post, 1 spike_post, 2 trace_pre, 3 spike_pre, 4 elig_post,
5 elig_pre.  Trace monitors carry the hyper-parameters in their tags (variant `v`), spike
monitors only `dt`.  kind 0 = STDP-like (four pooled monitors), kind 1 = MSTDPET-like (the
same four plus two unique MultiStateMonitors reading `cell.monitors.<name>.latest`). -/
def template (kind v : Nat) : List (Nat × AttrSel × Bool × Bool × Nat × List Nat) :=
  let base := [(0, AttrSel.neuron 0, false, true, 1 + v, []), (1, .neuron 0, false, true, 0, []),
               (2, .conn 0, false, true, 1 + v, []), (3, .conn 0, false, true, 0, [])]
  if kind = 1 then base ++ [(4, .cellmons, true, false, 0, [2, 1]), (5, .cellmons, true, false, 0, [0, 3])]
  else base

/-- the `add_monitor` calls of `register_cell`, in order -/
def addTemplate (s : State) (t n : Nat) (tpl : List (Nat × AttrSel × Bool × Bool × Nat × List Nat)) : State :=
  tpl.foldl (fun s e => (addMonitor s t n e.1 e.2.1 e.2.2.1 e.2.2.2.1 e.2.2.2.2.1 e.2.2.2.2.2).1) s

/-- monitor names `trainer()` reads for each cell -/
def required (kind : Nat) : List Nat := if kind = 1 then [4, 5] else [0, 1, 2, 3]

/-- `for monitor in group: if id(monitor) not in shared: monitor.deregister()` -/
def deregisterUnshared (s : State) (shared : List Nat) (g : List (Nat × Nat)) : State :=
  g.foldl (fun s e => if shared.contains e.2 then s else deregisterMon s e.2) s

/-- the monitors held by the OTHER groups of a pool -/
def otherMids (T : Trainer) (n : Nat) : List Nat :=
  (T.groups.filter (fun g' => g'.1 != n)).flatMap (fun g' => g'.2.map (·.2))

/-- `del self.monitors_[name]` -/
def dropGroup (s : State) (t n : Nat) : State :=
  setTrainer s t { s.trainers t with groups := (s.trainers t).groups.filter (fun g' => g'.1 != n) }

/-- `MonitorPool.del_observed`: deregister the group's monitors no surviving group aliases
(the D17 repair), drop the group -/
def delObserved (s : State) (t n : Nat) : State :=
  match lookup (s.trainers t).groups n with
  | none => s
  | some g => dropGroup (deregisterUnshared s (otherMids (s.trainers t) n) g) t n

/-- `for monitor in pool.monitors: monitor.register()` / `monitor.deregister()` -/
def setAll (s : State) (mode : Bool) (l : List Nat) : State :=
  l.foldl (fun s mid => if mode then registerMon s mid else deregisterMon s mid) s

/-- `del self.monitors_[observed][monitor]` -/
def eraseEntry (s : State) (t n mname : Nat) : State :=
  setTrainer s t { s.trainers t with groups := groupsErase (s.trainers t).groups n mname }

/-- `if not any(m is target for g in self.monitors_.values() for m in g.values()): target.deregister()`
(the D17 repair) -/
def deregIfUnaliased (s : State) (t mid : Nat) : State :=
  if (poolMids (s.trainers t)).contains mid then s else deregisterMon s mid

/-- `if not len(self.monitors_[observed]): del self.monitors_[observed]` -/
def dropEmptyGroup (s : State) (t n : Nat) : State :=
  setTrainer s t { s.trainers t with
    groups := (s.trainers t).groups.filter (fun g' => !(g'.1 == n && g'.2.isEmpty)) }

/-- `MonitorPool.del_monitor` once the entry is known to exist -/
def delEntry (s : State) (t n mname mid : Nat) : State :=
  dropEmptyGroup (deregIfUnaliased (eraseEntry s t n mname) t mid) t n

/-- `self.cells_[name] = cell; self.monitor_pool_.add_observed(name, cell)` -/
def addCellEntry (s : State) (t n c : Nat) : State :=
  setTrainer s t { s.trainers t with cells := (s.trainers t).cells ++ [(n, c)] }

/-- `del self.cells_[name]` -/
def dropCell (s : State) (t n : Nat) : State :=
  setTrainer s t { s.trainers t with cells := (s.trainers t).cells.filter (fun e => e.1 != n) }

/-- hooks run in list order until one raises: a MultiStateMonitor whose `cell.monitors.<name>`
does not resolve raises `AttributeError` -/
def blocked (s : State) (e : Nat × Nat) : Bool :=
  let m := s.mons e.2
  m.reads.any (fun r => (getCellMon s.cellMons m.cell r).isNone)

/-- is monitor `mid` held by its owner's pool? (the only strong reference) -/
def referenced (s : State) (mid : Nat) : Bool :=
  let T := s.trainers (s.mons mid).owner
  T.alive && (poolMids T).contains mid

def live (s : State) (mid : Nat) : Bool := (s.mons mid).alive && referenced s mid

/-- reference counting: every monitor object nobody holds any more is finalised -/
def gc (s : State) : State :=
  { s with
    mons := fun mid => if live s mid then s.mons mid else { s.mons mid with alive := false, handle := none },
    post := s.post.filter (fun e => live s e.2),
    cellMons := s.cellMons.filter (fun e => live s e.2.2) }

/-- `monitors[name].peek()` has something to return -/
def monHasData (s : State) (T : Trainer) (n r : Nat) : Bool :=
  match (lookup T.groups n).bind (lookup · r) with
  | some mid => decide ((s.mons mid).count > 0)
  | none => false

/-- GHOST: the specification counts a step of layer `l` for every monitor constructed on `l`
and held by a trainer that is in training mode while `l` is in training mode -/
def ghostStep (s : State) (l : Nat) : State :=
  { s with mons := fun mid =>
      if (s.mons mid).alive && (s.trainers (s.mons mid).owner).alive && (s.trainers (s.mons mid).owner).training
          && s.layerTraining l && ((s.mons mid).layer == l)
          && (poolMids (s.trainers (s.mons mid).owner)).contains mid
      then { s.mons mid with expected := (s.mons mid).expected + 1 } else s.mons mid }

/-- the forward hooks of layer `l`, in order -/
def layerHooks (s : State) (l : Nat) : List (Nat × Nat) := s.post.filter (fun e => (s.mons e.2).layer == l)

/-- the hooks that run during `layer(...)`: in list order, until one raises -/
def ranHooks (s : State) (l : Nat) : List (Nat × Nat) := (layerHooks s l).takeWhile (fun e => !blocked s e)

/-- every hook that ran pushed one observation into its reducer -/
def countStep (s : State) (ran : List (Nat × Nat)) : State :=
  { s with mons := fun mid =>
      if ran.any (fun e => e.2 == mid) then { s.mons mid with count := (s.mons mid).count + 1 } else s.mons mid }

/-- `for monitor in pool.monitors: monitor.clear()` -/
def clearMons (s : State) (t : Nat) : State :=
  { s with mons := fun mid =>
      if (poolMids (s.trainers t)).contains mid then { s.mons mid with count := 0, expected := 0 } else s.mons mid }

/-! ### The machine -/

def stepCore (s : State) : Op → State × Out
  | .newTrainer kind =>
    (setTrainer { s with nTrainers := s.nTrainers + 1 } s.nTrainers ⟨kind, true, true, [], []⟩, .idx s.nTrainers)
  | .registerCell t n c v =>
    if !(s.trainers t).alive then (s, .noref)
    else if c ≥ s.topo.length then (s, .noref)                                   -- no such cell object
    else if (lookup (s.trainers t).cells n).isSome then (s, .err .ValueError)     -- already the name of an added cell
    else
      -- add_cell: del_observed(name) (a no-op unless a cell died), cells_[name] = observed_[name] = cell,
      -- then the trainer kind's add_monitor calls
      (addTemplate (addCellEntry (delObserved s t n) t n c) t n (template (s.trainers t).kind v), .ok)
  | .delCell t n =>
    if !(s.trainers t).alive then (s, .noref)
    else if (lookup (s.trainers t).cells n).isNone then (s, .err .AttributeError)
    else (dropCell (delObserved s t n) t n, .ok)
  | .addMonitor t n mname sel unique prepend tags =>
    if !(s.trainers t).alive then (s, .noref)
    else addMonitor s t n mname sel unique prepend tags []
  | .delMonitor t n mname =>
    if !(s.trainers t).alive then (s, .noref)
    else match lookup (s.trainers t).groups n with
      | none => (s, .err .AttributeError)
      | some g =>
        if (lookup (s.trainers t).cells n).isNone then (s, .err .AttributeError)
        else match lookup g mname with
          | none => (s, .err .AttributeError)
          | some mid => (delEntry s t n mname mid, .ok)
  | .trainerTrain t mode =>
    if !(s.trainers t).alive then (s, .noref)
    else
      (setAll (setTrainer s t { s.trainers t with training := mode }) mode (distinctMids (s.trainers t)), .ok)
  | .layerTrain l mode => ({ s with layerTraining := fun i => if i = l then mode else s.layerTraining i }, .ok)
  | .layerStep l =>
    -- CODE: `train_update=True, eval_update=False` hooks run iff the layer is training
    if !s.layerTraining l then (ghostStep s l, .ok)
    else (countStep (ghostStep s l) (ranHooks s l),
          if (ranHooks s l).length < (layerHooks s l).length then .err .AttributeError else .ok)
  | .trainerStep t =>
    if !(s.trainers t).alive then (s, .noref)
    else if !(s.trainers t).training then (s, .ok)                  -- every cell is skipped
    else
      -- a cell is skipped unless `cell.training` (its layer's mode)
      (s, if (s.trainers t).cells.all (fun e => !s.layerTraining (cellLayer s e.2) ||
            (required (s.trainers t).kind).all (fun r => monHasData s (s.trainers t) e.1 r)) then .ok else .fail)
  | .clear t =>
    if !(s.trainers t).alive then (s, .noref) else (clearMons s t, .ok)
  | .collect t =>
    if !(s.trainers t).alive then (s, .noref)
    else (setTrainer s t { s.trainers t with alive := false }, .ok)

def step (s : State) (op : Op) : State × Out :=
  let r := stepCore s op
  (gc r.1, r.2)

def exec (s : State) (ops : List Op) : State := ops.foldl (fun s op => (step s op).1) s

def run (s : State) : List Op → State × List Out
  | [] => (s, [])
  | op :: ops => let (s', o) := step s op; let (s'', os) := run s' ops; (s'', o :: os)

/-! ### Listings (`CellTrainer.monitors`, `named_monitors`, `cells`) and observations -/

def namedMonitors (T : Trainer) : List ((Nat × Nat) × Nat) :=
  T.groups.flatMap (fun g => g.2.map (fun e => ((g.1, e.1), e.2)))

def cellsListing (T : Trainer) : List (Nat × Nat) := T.cells

/-- the monitor objects a MultiStateMonitor actually reads now (through `cell.monitors`) -/
def resolvedReads (s : State) (mid : Nat) : List (Option Nat) :=
  let m := s.mons mid
  m.reads.map (fun r => getCellMon s.cellMons m.cell r)

/-- specification: every read of a trainer's monitor lands on a monitor of the same trainer -/
def readsOwn (s : State) (mid : Nat) : Bool :=
  (resolvedReads s mid).all fun o => match o with
    | some src => (s.mons src).owner == (s.mons mid).owner && (s.mons src).alive
    | none => false

end InfernoVerif.Lifecycle
