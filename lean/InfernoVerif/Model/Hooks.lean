/-
Operational model of `inferno.core.infrastructure.Hook` / `ContextualHook` / `StateHook`
registered on ONE `torch.nn.Module`, shaped like the code (core Lean only, no imports).

What is modelled, and where it is in the code:
* `Hook.__init__`              — `mk` (at least one of prehook / posthook, else `RuntimeError`);
* `Hook.register`              — `registerHook` (fresh `RemovableHandle` ids, insertion at the end of
                                 torch's `OrderedDict` or at its front with `prepend=True`, the
                                 `weakref.finalize(self, _detach_handles, pre, post)` finaliser);
                                 registering a registered plain `Hook` raises `RuntimeError`,
                                 `StateHook.register` silently ignores it (`if not self.registered`);
* `Hook.deregister`            — `deregisterHook` (`handle.remove()`, handles := None, finaliser detached);
* `module.train()/eval()`      — `setMode`;
* `module(...)`                — `callTrace` (`_forward_pre_hooks` in dict order, `forward`,
                                 `_forward_hooks` in dict order; each entry is the weak-reference lambda
                                 of `register`, which dereferences the hook object — a dead object makes
                                 the lambda raise `AttributeError`; the mode gate is
                                 `__wrapped_prehook/__wrapped_posthook`);
* `StateHook.forward(force, ignore_mode)` — `manual`;
* `hook.trainexec = v`, `hook.evalexec = v` — `setTrainexec`, `setEvalexec`;
* dropping the last strong reference to the hook object — `delete`: CPython's collector is
  modelled as "the finaliser runs when the last strong reference is dropped" (reference cycles
  created by user code are out of scope); the finaliser calls `_detach_handles` on the handles it
  captured when it was created.

Next to the code-shaped machine `step` sits the specification machine `sstep` of property C16:
a hook is a record of flags (registered, alive, enable flags, configured positions) and a module
call fires every registered ∧ alive ∧ enabled hook exactly once in each configured position.
`Props/C16.lean` proves that `step` refines `sstep` on every finite operation sequence.

The second half of the file gives the value transformers the two shipped state hooks apply:
`clampG` (`torch.clamp(x, min, max)`) and `normalizeG` (`scale * F.normalize(x, p, dim, eps)`
= `scale * x / max(‖x‖_p, eps)`), generic in the number type so that the SAME definitions are
executed on `Float` by the driver and reasoned about over `ℝ` in `Props/C16.lean`.
-/
namespace InfernoVerif.Hooks

inductive Err | RuntimeError | ValueError | TypeError | AttributeError | IndexError | KeyError | Other
deriving DecidableEq, Repr

/-- `plain` = `Hook` with user callables; `state` = a `StateHook` subclass (one position,
`register()` without argument, manual `forward`). -/
inductive Kind | plain | state
deriving DecidableEq, Repr

inductive Pos | pre | post
deriving DecidableEq, Repr

/-- Constructor arguments that never change afterwards. -/
structure Cfg where
  kind        : Kind
  hasPre      : Bool          -- a prehook callable was given / `as_prehook=True`
  hasPost     : Bool
  prependPre  : Bool          -- `prehook_kwargs["prepend"]`
  prependPost : Bool
deriving DecidableEq, Repr

/-- is the hook configured for position `p`? -/
def Cfg.has (c : Cfg) : Pos → Bool
  | .pre => c.hasPre
  | .post => c.hasPost

structure Hook where
  cfg       : Cfg
  trainexec : Bool
  evalexec  : Bool
  alive     : Bool                              -- a strong reference to the object still exists
  preH      : Option Nat                        -- `__prehook_handle` (handle id)
  postH     : Option Nat                        -- `__posthook_handle`
  fin       : Option (Option Nat × Option Nat)  -- `__finalizer` with the handles it captured
deriving DecidableEq, Repr

/-- One module: its `training` flag, torch's global handle counter, and the two ordered hook
dictionaries as association lists `(handle id, index of the hook object the lambda refers to)`. -/
structure State where
  training : Bool
  nextId   : Nat
  pre      : List (Nat × Nat)
  post     : List (Nat × Nat)
  hooks    : List Hook
deriving DecidableEq, Repr

inductive Op where
  | mk (cfg : Cfg) (trainexec evalexec : Bool)
  | register (h : Nat)
  | deregister (h : Nat)
  | setMode (training : Bool)
  | call
  | manual (h : Nat) (force ignoreMode : Bool)
  | setTrainexec (h : Nat) (v : Bool)
  | setEvalexec (h : Nat) (v : Bool)
  | delete (h : Nat)
deriving DecidableEq, Repr

/-- What a module call shows: hook `h` ran in position `p`, or the module's own `forward` ran. -/
inductive Ev where
  | hook (h : Nat) (p : Pos)
  | fwd
deriving DecidableEq, Repr

inductive Out where
  | ok
  | idx (h : Nat)                       -- `mk`: index of the new hook object
  | trace (evs : List Ev)               -- module call (code-shaped machine)
  | counts (c : List (Nat × Nat))       -- module call (specification): per hook (#pre runs, #post runs)
  | fired (b : Bool)                    -- manual call
  | err (e : Err)
  | noref                               -- the program names an object that does not exist (any more)
  | unsupported
deriving DecidableEq, Repr

def init : State := ⟨true, 0, [], [], []⟩

def Hook.registered (h : Hook) : Bool := h.preH.isSome || h.postH.isSome

/-- the gate of `__wrapped_prehook` / `__wrapped_posthook` and of `StateHook.forward`. -/
def Hook.enabled (h : Hook) (training : Bool) : Bool :=
  (h.trainexec && training) || (h.evalexec && !training)

/-- `handle.remove()` on a hook dictionary. -/
def removeHandle (l : List (Nat × Nat)) : Option Nat → List (Nat × Nat)
  | none => l
  | some id => l.filter (fun e => e.1 != id)

/-- `register_forward_(pre_)hook(..., prepend=b)`. -/
def insertHandle (l : List (Nat × Nat)) (id h : Nat) (prepend : Bool) : List (Nat × Nat) :=
  if prepend then (id, h) :: l else l ++ [(id, h)]

def setHook (s : State) (i : Nat) (hk : Hook) : State := { s with hooks := s.hooks.set i hk }

/-- `_detach_handles(pre, post)`. -/
def detach (s : State) (hs : Option Nat × Option Nat) : State :=
  { s with pre := removeHandle s.pre hs.1, post := removeHandle s.post hs.2 }

/-- `Hook.register(module)` on an unregistered hook `hk` at index `i`. -/
def registerHook (s : State) (i : Nat) (hk : Hook) : State :=
  -- prehook first, then posthook: ids are handed out in that order
  let (s1, ph) :=
    if hk.cfg.hasPre then
      ({ s with pre := insertHandle s.pre s.nextId i hk.cfg.prependPre, nextId := s.nextId + 1 }, some s.nextId)
    else (s, none)
  let (s2, qh) :=
    if hk.cfg.hasPost then
      ({ s1 with post := insertHandle s1.post s1.nextId i hk.cfg.prependPost, nextId := s1.nextId + 1 }, some s1.nextId)
    else (s1, none)
  -- `if self.__finalizer: self.__finalizer.detach()` then a new finaliser capturing both handles
  setHook s2 i { hk with preH := ph, postH := qh, fin := some (ph, qh) }

/-- `Hook.deregister()`. -/
def deregisterHook (s : State) (i : Nat) (hk : Hook) : State :=
  setHook (detach s (hk.preH, hk.postH)) i { hk with preH := none, postH := none, fin := none }

/-- One dictionary entry being called during `module(...)`: `none` = the lambda raised
(`weakself()` is `None`), `some true` = the wrapped hook ran the user callable. -/
def entryFires (s : State) (e : Nat × Nat) : Option Bool :=
  match s.hooks[e.2]? with
  | some hk => if hk.alive then some (hk.enabled s.training) else none
  | none => none

def firedOf (s : State) (l : List (Nat × Nat)) (p : Pos) : List Ev :=
  (l.filter (fun e => entryFires s e == some true)).map (fun e => Ev.hook e.2 p)

def dangling (s : State) (l : List (Nat × Nat)) : Bool := l.any (fun e => entryFires s e == none)

/-- `module(...)`: pre hooks in dictionary order, `forward`, post hooks in dictionary order. -/
def callTrace (s : State) : Out :=
  if dangling s s.pre || dangling s s.post then .err .AttributeError
  else .trace (firedOf s s.pre .pre ++ [Ev.fwd] ++ firedOf s s.post .post)

def step (s : State) : Op → State × Out
  | .mk cfg tr ev =>
    match cfg.kind with
    | .plain =>
      -- `argtest.onedefined(prehook, posthook)`
      if !cfg.hasPre && !cfg.hasPost then (s, .err .RuntimeError)
      else ({ s with hooks := s.hooks ++ [⟨cfg, tr, ev, true, none, none, none⟩] }, .idx s.hooks.length)
    | .state =>
      -- `as_prehook` selects exactly one position
      if cfg.hasPre == cfg.hasPost then (s, .unsupported)
      else ({ s with hooks := s.hooks ++ [⟨cfg, tr, ev, true, none, none, none⟩] }, .idx s.hooks.length)
  | .register i =>
    match s.hooks[i]? with
    | none => (s, .noref)
    | some hk =>
      if !hk.alive then (s, .noref)
      else if hk.registered then
        match hk.cfg.kind with
        | .plain => (s, .err .RuntimeError)      -- `Hook.register`: "already registered"
        | .state => (s, .ok)                      -- `StateHook.register`: `if not self.registered`
      else (registerHook s i hk, .ok)
  | .deregister i =>
    match s.hooks[i]? with
    | none => (s, .noref)
    | some hk =>
      if !hk.alive then (s, .noref) else (deregisterHook s i hk, .ok)
  | .setMode b => ({ s with training := b }, .ok)
  | .call => (s, callTrace s)
  | .manual i force ignoreMode =>
    match s.hooks[i]? with
    | none => (s, .noref)
    | some hk =>
      if !hk.alive then (s, .noref)
      else match hk.cfg.kind with
        | .plain => (s, .unsupported)             -- a plain `Hook` is not callable
        | .state =>
          if hk.registered || force then
            if ignoreMode then (s, .fired true)
            else if hk.trainexec && s.training then (s, .fired true)
            else if hk.evalexec && !s.training then (s, .fired true)
            else (s, .fired false)
          else (s, .fired false)
  | .setTrainexec i v =>
    match s.hooks[i]? with
    | none => (s, .noref)
    | some hk => if !hk.alive then (s, .noref) else (setHook s i { hk with trainexec := v }, .ok)
  | .setEvalexec i v =>
    match s.hooks[i]? with
    | none => (s, .noref)
    | some hk => if !hk.alive then (s, .noref) else (setHook s i { hk with evalexec := v }, .ok)
  | .delete i =>
    match s.hooks[i]? with
    | none => (s, .noref)
    | some hk =>
      if !hk.alive then (s, .noref)
      else
        -- the finaliser (if attached) runs `_detach_handles` on the handles it captured
        let s' := match hk.fin with
          | some hs => detach s hs
          | none => s
        -- the object is gone: nothing of it (handle fields included) can be observed any more
        (setHook s' i { hk with alive := false, preH := none, postH := none, fin := none }, .ok)

def run (s : State) : List Op → State × List Out
  | [] => (s, [])
  | op :: ops => let (s', o) := step s op; let (s'', os) := run s' ops; (s'', o :: os)

/-- state reached by an operation list (outputs dropped) -/
def exec (s : State) (ops : List Op) : State := ops.foldl (fun s op => (step s op).1) s

/-! ### The specification machine -/

structure SHook where
  cfg        : Cfg
  trainexec  : Bool
  evalexec   : Bool
  alive      : Bool
  registered : Bool
deriving DecidableEq, Repr

structure SState where
  training : Bool
  hooks    : List SHook
deriving DecidableEq, Repr

def sinit : SState := ⟨true, []⟩

def SHook.enabled (h : SHook) (training : Bool) : Bool :=
  (h.trainexec && training) || (h.evalexec && !training)

/-- THE firing predicate of the property: registered ∧ alive ∧ configured for this position ∧
enabled for the module's current mode. -/
def SHook.fires (h : SHook) (training : Bool) (p : Pos) : Bool :=
  h.registered && h.alive && h.cfg.has p && h.enabled training

def b2n (b : Bool) : Nat := if b then 1 else 0

def SState.counts (s : SState) : List (Nat × Nat) :=
  s.hooks.map fun h => (b2n (h.fires s.training .pre), b2n (h.fires s.training .post))

/-- number of handles the specification allows in the module's pre / post dictionary:
one per registered, alive hook configured for that position. -/
def SState.nHandles (s : SState) (p : Pos) : Nat :=
  (s.hooks.filter fun h => h.registered && h.alive && h.cfg.has p).length

def ssetHook (s : SState) (i : Nat) (hk : SHook) : SState := { s with hooks := s.hooks.set i hk }

def sstep (s : SState) : Op → SState × Out
  | .mk cfg tr ev =>
    match cfg.kind with
    | .plain =>
      if !cfg.hasPre && !cfg.hasPost then (s, .err .RuntimeError)
      else ({ s with hooks := s.hooks ++ [⟨cfg, tr, ev, true, false⟩] }, .idx s.hooks.length)
    | .state =>
      if cfg.hasPre == cfg.hasPost then (s, .unsupported)
      else ({ s with hooks := s.hooks ++ [⟨cfg, tr, ev, true, false⟩] }, .idx s.hooks.length)
  | .register i =>
    match s.hooks[i]? with
    | none => (s, .noref)
    | some hk =>
      if !hk.alive then (s, .noref)
      else if hk.registered then
        match hk.cfg.kind with
        | .plain => (s, .err .RuntimeError)
        | .state => (s, .ok)
      else (ssetHook s i { hk with registered := true }, .ok)
  | .deregister i =>
    match s.hooks[i]? with
    | none => (s, .noref)
    | some hk => if !hk.alive then (s, .noref) else (ssetHook s i { hk with registered := false }, .ok)
  | .setMode b => ({ s with training := b }, .ok)
  | .call => (s, .counts s.counts)
  | .manual i force ignoreMode =>
    match s.hooks[i]? with
    | none => (s, .noref)
    | some hk =>
      if !hk.alive then (s, .noref)
      else match hk.cfg.kind with
        | .plain => (s, .unsupported)
        | .state => (s, .fired ((hk.registered || force) && (ignoreMode || hk.enabled s.training)))
  | .setTrainexec i v =>
    match s.hooks[i]? with
    | none => (s, .noref)
    | some hk => if !hk.alive then (s, .noref) else (ssetHook s i { hk with trainexec := v }, .ok)
  | .setEvalexec i v =>
    match s.hooks[i]? with
    | none => (s, .noref)
    | some hk => if !hk.alive then (s, .noref) else (ssetHook s i { hk with evalexec := v }, .ok)
  | .delete i =>
    match s.hooks[i]? with
    | none => (s, .noref)
    | some hk =>
      if !hk.alive then (s, .noref)
      else (ssetHook s i { hk with alive := false, registered := false }, .ok)

def srun (s : SState) : List Op → SState × List Out
  | [] => (s, [])
  | op :: ops => let (s', o) := sstep s op; let (s'', os) := srun s' ops; (s'', o :: os)

/-- Abstraction: forget handle ids, dictionaries and the finaliser. -/
def Hook.abs (h : Hook) : SHook := ⟨h.cfg, h.trainexec, h.evalexec, h.alive, h.registered⟩
def sabs (s : State) : SState := ⟨s.training, s.hooks.map Hook.abs⟩

def countEv (evs : List Ev) (h : Nat) (p : Pos) : Nat := evs.count (Ev.hook h p)

/-- A module-call trace seen by the specification: how often each of the `n` hooks ran in each
position (the order among the hooks of one position is torch's `prepend` business, not C16's). -/
def Out.abs (n : Nat) : Out → Out
  | .trace evs => .counts ((List.range n).map fun h => (countEv evs h .pre, countEv evs h .post))
  | o => o

def sexec (s : SState) (ops : List Op) : SState := ops.foldl (fun s op => (sstep s op).1) s

/-- outputs of the code-shaped machine as the specification sees them -/
def runAbs (s : State) : List Op → List Out
  | [] => []
  | op :: ops => (step s op).2.abs s.hooks.length :: runAbs (step s op).1 ops

/-! ### Value transformers of `Clamping` and `Normalization` (generic in the number type) -/

/-- `torch.clamp(x, min=lo, max=hi)` on one element: `min(max(x, lo), hi)`. -/
def clampG {α : Type} [Max α] [Min α] (lo hi : Option α) (x : α) : α :=
  let y := match lo with | some l => max x l | none => x
  match hi with | some h => min y h | none => y

/-- the operations `F.normalize` needs, so the same text runs on `Float` and on `ℝ` -/
structure NormOps (α : Type) where
  zero : α
  add  : α → α → α
  mul  : α → α → α
  div  : α → α → α
  abs  : α → α
  pow  : α → α → α        -- real power `x ^ p`
  inv  : α → α            -- `1 / p`
  max  : α → α → α

/-- order of the norm: a finite real `p ≠ 0` or `inf` -/
inductive Order (α : Type) | fin (p : α) | inf
deriving Repr

/-- `torch.linalg.vector_norm(x, p)` on a flat vector: `(Σ |xᵢ|^p)^(1/p)`, `max |xᵢ|` for `inf`. -/
def pnormG {α : Type} (O : NormOps α) : Order α → List α → α
  | .fin p, xs => O.pow ((xs.map fun x => O.pow (O.abs x) p).foldl O.add O.zero) (O.inv p)
  | .inf, xs => (xs.map O.abs).foldl O.max O.zero

/-- `scale * F.normalize(x, p, eps)` on one fibre: `scale * (xᵢ / max(‖x‖_p, eps))`. -/
def normalizeG {α : Type} (O : NormOps α) (p : Order α) (scale eps : α) (xs : List α) : List α :=
  let d := O.max (pnormG O p xs) eps
  xs.map fun x => O.mul scale (O.div x d)

def floatOps : NormOps Float :=
  ⟨0.0, (· + ·), (· * ·), (· / ·), Float.abs, Float.pow, fun p => 1.0 / p, fun a b => if a < b then b else a⟩

end InfernoVerif.Hooks
