import InfernoVerif.Model.Synapse
/-
Model of the DELAYED branches of inferno's connections (`neural/connections/linear.py`, `conv.py`,
`neural/base.py :: Connection.{delayedby, syncurrent, synspike}`) for ONE batch row — hand written,
code shaped, core Lean only.  It composes `Model/Synapse.lean` (one `St` per synapse element,
`currentAt` / `spikeAt` = `current_at` / `spike_at`) with the `selector` construction of each
connection class and the `einsum` of its delayed `forward` branch; the undelayed branch
(`F.linear`, `res * weight`, `matmul`) is the same accumulation applied to the present currents.

Generic over `SOps α` like `Model/Synapse.lean`: executed over `Float` by `drivers/C06.lean`, reasoned
about over `ℝ` in `Props/C06.lean`.  Tie to the code: `harness/corr/c06.py`.
Not modelled here: `like_synaptic` of `Conv2D` (`F.unfold`; C05 proves it is the documented
window extraction) — the conv functions take the already unfolded `N × L` synapse input.
-/
namespace InfernoVerif.Delay
open InfernoVerif.Ring InfernoVerif.Select InfernoVerif.Synapse

variable {α : Type}

/-- What `forward` needs to know about the connection besides its parameters. -/
structure Net (α : Type) where
  /-- configuration of `connection.synapse`; `cfg.delay` is `synapse.delay`, constructed as
  `0.0 if delay is None else delay` -/
  cfg : Cfg α
  /-- a `delay_` parameter exists (the connection was constructed with `delay is not None`) -/
  hasDelay : Bool

/-- `Connection.delayedby`: `self.synapse.delay` if `self.delay is not None`, else `None`. -/
def delayedby (n : Net α) : Option α := if n.hasDelay then some n.cfg.delay else none

/-- Python truthiness of `self.delayedby` (`None` and `0.0` are falsy). -/
def truthy (K : Ops α) : Option α → Bool
  | none => false
  | some d => K.lt d (K.ofInt 0) || K.lt (K.ofInt 0) d

/-- `if self.delayedby:` -/
def useDelay (S : SOps α) (n : Net α) : Bool := truthy S.K (delayedby n)

/-- `self.synapse(*inputs)`: one `forward` per synapse element (no injected currents);
returns the new states and the currents. -/
def stepAll (S : SOps α) (cfg : Cfg α) : List (St α) → List α → Option (List (St α × α))
  | [], [] => some []
  | s :: ss, x :: xs =>
    match step S cfg s x [], stepAll S cfg ss xs with
    | some r, some rest => some (r :: rest)
    | _, _ => none
  | _, _ => none

/-- all-or-nothing collection of per-element results (`select` raises for the whole call) -/
def seqO {β : Type} : List (Outcome β) → Outcome (List β)
  | [] => .ok []
  | .ok v :: rest =>
    match seqO rest with
    | .ok vs => .ok (v :: vs)
    | .valueError => .valueError
    | .noSlot => .noSlot
  | .valueError :: _ => .valueError
  | .noSlot :: _ => .noSlot

/-- `synapse.current_at(selector)` for a selector with `R` entries per element: `[e][r]`. -/
def currentAtAll (S : SOps α) (cfg : Cfg α) (sts : List (St α)) (sel : List (List α)) : Outcome (List (List α)) :=
  seqO ((List.zipWith (fun s row => row.map (currentAt S cfg s)) sts sel).map seqO)

/-- `synapse.spike_at(selector)`. -/
def spikeAtAll (S : SOps α) (cfg : Cfg α) (sts : List (St α)) (sel : List (List α)) : Outcome (List (List Bool)) :=
  seqO ((List.zipWith (fun s row => row.map (spikeAt S cfg s)) sts sel).map seqO)

/-- `Σ_j a_j · b_j` accumulated from `0` (what `einsum` / `F.linear` / `matmul` compute; torch's
summation order is not specified, the check compares to 1e-9). -/
def dotK (K : Ops α) (a b : List α) : α := (List.zipWith K.mul a b).foldl K.add (K.ofInt 0)

def addBias (K : Ops α) (b : Option (List α)) (o : Nat) (v : α) : α :=
  match b with
  | none => v
  | some b => K.add v (b.getD o (K.ofInt 0))

/-! ## LinearDense / LinearLateral (`LinearLateral.forward` and `.selector` ARE `LinearDense`'s) -/

/-- The undelayed map `F.linear(x, weight, bias)`: `y_o = Σ_i x_i·W[o][i] + b_o`. -/
def linearK (K : Ops α) (N : Nat) (W : List (List α)) (b : Option (List α)) (x : List α) : List α :=
  (List.range N).map fun o => addBias K b o (dotK K x (W.getD o []))

/-- `selector`: `rearrange(delays, "o i -> 1 i o")` — entry `[i][o]` is `delay[o][i]`. -/
def selectorDense (K : Ops α) (M N : Nat) (D : List (List α)) : List (List α) :=
  (List.range M).map fun i => (List.range N).map fun o => (D.getD o []).getD i (K.ofInt 0)

/-- `LinearDense.forward` after the synapse step (`sts` = new element states, `res` = the currents
the step returned): delayed branch `einsum(self.syncurrent, self.weight, "b i o, o i -> b o") + bias`,
else `F.linear(res, self.weight, self.bias)`. -/
def denseForward (S : SOps α) (n : Net α) (M N : Nat) (W : List (List α)) (b : Option (List α))
    (D : List (List α)) (sts : List (St α)) (res : List α) : Outcome (List α) :=
  if useDelay S n then
    (currentAtAll S n.cfg sts (selectorDense S.K M N D)).map fun r =>      -- r[i][o]
      (List.range N).map fun o =>
        addBias S.K b o (dotK S.K (r.map fun row => row.getD o (S.K.ofInt 0)) (W.getD o []))
  else .ok (linearK S.K N W b res)

/-! ## LinearDirect -/

/-- `selector`: `rearrange(delays, "n -> 1 n 1")`. -/
def selectorDirect (d : List α) : List (List α) := d.map fun v => [v]

/-- The undelayed map `res * weight (+ bias)`. -/
def directK (K : Ops α) (w : List α) (b : Option (List α)) (x : List α) : List α :=
  (List.zipWith K.mul x w).zipIdx.map fun vo => addBias K b vo.2 vo.1

/-- `LinearDirect.forward`: delayed branch `res = rearrange(self.syncurrent, "b n 1 -> b n")`. -/
def directForward (S : SOps α) (n : Net α) (w : List α) (b : Option (List α)) (d : List α)
    (sts : List (St α)) (res : List α) : Outcome (List α) :=
  if useDelay S n then
    (currentAtAll S n.cfg sts (selectorDirect d)).map fun r =>
      directK S.K w b (r.map fun row => row.getD 0 (S.K.ofInt 0))
  else .ok (directK S.K w b res)

/-! ## Conv2D — synapse elements are the `N × L` entries of the unfolded input, element `(n, l)` at
list position `n·L + l`; `kernel` / `delays` are the `F × N` flattenings `"f c h w -> f (c h w)"` -/

/-- `selector`: `rearrange(delays, "f c h w -> 1 (c h w) 1 f").expand(B, -1, L, -1)` — entry
`[(n,l)][f]` is `delays[f][n]`. -/
def selectorConv (K : Ops α) (N L F : Nat) (Dk : List (List α)) : List (List α) :=
  (List.range (N * L)).map fun e => (List.range F).map fun f => (Dk.getD f []).getD (e / L) (K.ofInt 0)

/-- The undelayed map `matmul(kernel, res) (+ bias)`: `y[f][l] = Σ_n kernel[f][n]·x[(n,l)] + b_f`. -/
def convK (K : Ops α) (L F : Nat) (Wk : List (List α)) (b : Option (List α)) (x : Nat → Nat → List α) :
    List (List α) :=
  (List.range F).map fun f => (List.range L).map fun l => addBias K b f (dotK K (Wk.getD f []) (x f l))

/-- `Conv2D.forward`: delayed branch `einsum(kernel, rearrange(self.syncurrent, "b n l f -> b f n l"),
"f n, b f n l -> b f l")`, else `matmul(kernel, res)`; then the bias. -/
def convForward (S : SOps α) (n : Net α) (N L F : Nat) (Wk : List (List α)) (b : Option (List α))
    (Dk : List (List α)) (sts : List (St α)) (res : List α) : Outcome (List (List α)) :=
  if useDelay S n then
    (currentAtAll S n.cfg sts (selectorConv S.K N L F Dk)).map fun r =>     -- r[(n,l)][f]
      convK S.K L F Wk b fun f l =>
        (List.range N).map fun nn => (r.getD (nn * L + l) []).getD f (S.K.ofInt 0)
  else
    .ok (convK S.K L F Wk b fun _ l => (List.range N).map fun nn => res.getD (nn * L + l) (S.K.ofInt 0))

/-! ## `syncurrent` / `synspike` (neural/base.py) -/

/-- The delay-offset view: `synapse.current_at(self.selector)` (`elements × R`) when `delayedby` is
truthy, else the present `synapse.current` (`elements`). -/
inductive View (β : Type) where
  | delayed (v : List (List β))
  | present (v : List β)
deriving Repr

def Outcome.seqOpt {β : Type} : List (Option β) → Outcome (List β)
  | [] => .ok []
  | some v :: rest => (seqOpt rest).map (v :: ·)
  | none :: _ => .noSlot

/-- `Connection.syncurrent` for a connection whose `selector` is `sel`; `cur` = the present
`synapse.current` per element. -/
def syncurrent (S : SOps α) (n : Net α) (sel : List (List α)) (sts : List (St α)) (cur : List α) :
    Outcome (View α) :=
  if useDelay S n then (currentAtAll S n.cfg sts sel).map .delayed else .ok (.present cur)

/-- `Connection.synspike`; the present value is `synapse.spike` (`spike_.peek()`). -/
def synspike (S : SOps α) (n : Net α) (sel : List (List α)) (sts : List (St α)) : Outcome (View Bool) :=
  if useDelay S n then (spikeAtAll S n.cfg sts sel).map .delayed
  else (Outcome.seqOpt (sts.map (spikeNow S))).map .present

end InfernoVerif.Delay
