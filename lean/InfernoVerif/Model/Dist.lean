/-!
# Distribution formulas of `inferno/stats/distributions.py` — `Float` copy

Hand transcription: one definition per Python classmethod (`Poisson.logpmf`, `Normal.pdf`, …), same
argument order, same operation order; tensors as scalars (all formulas are element-wise;
`_astensorsfloat` leaves tensor arguments untouched — the harness passes float64 tensors).

Torch primitives that core Lean's `Float` does not have (`torch.special.erf`, `torch.lgamma`,
`torch.special.gammaincc`, `torch.special.expm1`) are OPAQUE SYMBOLS: every definition that
uses one takes a `Special` record first.  The driver fills it with the (argument, value) pairs the
real code was observed to pass to / get from the torch function on the same input, so a formula that
calls the primitive on a different argument than the code does (D25: `lgamma(rate + 1)`) cannot agree.
In the `ℝ` copy the record is instantiated with `log ∘ Γ`, `exp x − 1`, and integral definitions.
`x ** 2` ↦ `pow2 x`, `math.tau` ↦ `tau`, `math.sqrt`/`torch.sqrt` ↦ `sqrt`, `math.log`/`torch.log` ↦ `log`.
`xlogy` is torch's documented definition (`0` when `x = 0`, else `x * log y`), a modelled primitive.

The block between `-- BEGIN DEFS` and `-- END DEFS` is TEXTUALLY IDENTICAL to the one in
`Model/DistR.lean`; `harness/corr/c20.py` checks that on every run.  Core Lean only.
-/
namespace InfernoVerif.Dist.F
set_option linter.unusedVariables false

/-- scalar type of this copy -/
abbrev T := Float
abbrev exp (x : T) : T := Float.exp x
abbrev log (x : T) : T := Float.log x
abbrev sqrt (x : T) : T := Float.sqrt x
abbrev floor (x : T) : T := Float.floor x
/-- `x ** 2` (torch's pow kernel computes `x * x` for the exponent 2) -/
abbrev pow2 (x : T) : T := x * x
/-- `x == 0` -/
abbrev eqz (x : T) : Bool := x == 0
/-- `math.tau` = 0x401921FB54442D18 -/
abbrev tau : T := Float.ofBits 0x401921FB54442D18

-- BEGIN DEFS
/-- torch primitives treated as opaque symbols -/
structure Special where
  erf : T → T
  lgamma : T → T
  gammaincc : T → T → T
  expm1 : T → T

/-- `torch.special.xlogy` -/
def xlogy (x y : T) : T :=
  if eqz x then 0 else x * log y

/-! ## class Poisson -/

def Poisson.logpmf (S : Special) (support rate : T) : T :=
  xlogy support rate - rate - S.lgamma (support + 1)

def Poisson.pmf (S : Special) (support rate : T) : T :=
  exp (Poisson.logpmf S support rate)

def Poisson.cdf (S : Special) (support rate : T) : T :=
  S.gammaincc (floor (support + 1)) rate

def Poisson.logcdf (S : Special) (support rate : T) : T :=
  log (Poisson.cdf S support rate)

def Poisson.mean (rate : T) : T :=
  rate

def Poisson.variance (rate : T) : T :=
  rate

/-! ## class Normal -/

def Normal.params_mv (mean variance : T) : T × T :=
  (mean, sqrt variance)

def Normal.pdf (support loc scale : T) : T :=
  (1 / (scale * sqrt tau)) * exp (-0.5 * pow2 ((support - loc) / scale))

def Normal.logpdf (support loc scale : T) : T :=
  log (Normal.pdf support loc scale)

def Normal.cdf (S : Special) (support loc scale : T) : T :=
  0.5 * (1 + S.erf ((support - loc) / (scale * sqrt 2)))

def Normal.logcdf (S : Special) (support loc scale : T) : T :=
  log (Normal.cdf S support loc scale)

def Normal.mean (loc : T) : T :=
  loc

def Normal.variance (scale : T) : T :=
  pow2 scale

/-! ## class LogNormal -/

def LogNormal.params_mv (mean variance : T) : T × T :=
  let meansq := pow2 mean
  let loc := log (meansq / sqrt (meansq + variance))
  let scale := sqrt (log (1 + variance / meansq))
  (loc, scale)

def LogNormal.logpdf (support loc scale : T) : T :=
  let logsupport := log support;
  -log scale - logsupport - 0.5 * (log tau + pow2 ((loc - logsupport) / scale))

def LogNormal.pdf (support loc scale : T) : T :=
  exp (LogNormal.logpdf support loc scale)

def LogNormal.cdf (S : Special) (support loc scale : T) : T :=
  Normal.cdf S (log support) loc scale

def LogNormal.logcdf (S : Special) (support loc scale : T) : T :=
  log (LogNormal.cdf S support loc scale)

def LogNormal.mean (loc scale : T) : T :=
  exp (loc + pow2 scale / 2)

def LogNormal.variance (S : Special) (loc scale : T) : T :=
  let scalesq := pow2 scale
  S.expm1 scalesq * exp (2 * loc + scalesq)
-- END DEFS

end InfernoVerif.Dist.F
