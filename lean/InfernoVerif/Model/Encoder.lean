/-
Executable model of the spike encoders of `inferno/neural/functional/encoding.py` and of the
configuration logic of `inferno/neural/encoders/{poisson,special,mixins}.py` (property C19).

Core Lean only.  Every function models the DETERMINISTIC post-processing of one encoder with
the SAMPLED TENSOR AS A PARAMETER: quantifying a theorem over every sample list is the
"for all generator seeds" quantifier of the property.  One Lean function per Python statement
group, in the order of the source.

Two copies with the same operation order:
* over `Rat` extended by `+∞ / −∞ / NaN` (`Ext`) — exact; the theorems are about this copy;
* over `Float` (IEEE double) — executed by the driver against torch float64 (`F` suffix).

Tensors: every encoder acts element-wise except (i) `cumsum`/`scatter` along the time axis and
(ii) the boolean-mask assignment `intervals[spikes] = fresh` of the online encoders, which hands
the freshly drawn samples to the spiking elements in row-major order.  (i) is modelled per
element on that element's column of samples, (ii) by `stepT` on the flattened element list.
-/
namespace InfernoVerif.Enc

/-! ## Extended rationals: the values IEEE arithmetic can produce from `1 / 0` -/

/-- A rational, `+∞`, `−∞` or NaN. -/
inductive Ext where
  | fin (q : Rat)
  | pinf
  | ninf
  | nan
deriving DecidableEq, Repr, Inhabited

namespace Ext

/-- `1 / x` for a non-negative-zero `x`: `1 / 0 = +∞`. -/
def recip (x : Rat) : Ext := if x = 0 then pinf else fin (1 / x)

/-- `e * c` for a finite `c` (`±∞ * 0 = NaN`). -/
def mulFin (e : Ext) (c : Rat) : Ext :=
  match e with
  | fin q => fin (q * c)
  | pinf => if 0 < c then pinf else if c < 0 then ninf else nan
  | ninf => if 0 < c then ninf else if c < 0 then pinf else nan
  | nan => nan

/-- `e + c` for a finite `c`. -/
def addFin (e : Ext) (c : Rat) : Ext :=
  match e with
  | fin q => fin (q + c)
  | e => e

/-- `a + b` (`+∞ + −∞ = NaN`). -/
def add : Ext → Ext → Ext
  | nan, _ => nan
  | _, nan => nan
  | pinf, ninf => nan
  | ninf, pinf => nan
  | pinf, _ => pinf
  | _, pinf => pinf
  | ninf, _ => ninf
  | _, ninf => ninf
  | fin a, fin b => fin (a + b)

/-- `e < c` for a finite `c` (comparisons with NaN are false). -/
def ltFin (e : Ext) (c : Rat) : Bool :=
  match e with
  | fin q => decide (q < c)
  | ninf => true
  | _ => false

end Ext

/-- `.long()`: truncation toward zero. -/
def truncQ (q : Rat) : Int := if 0 ≤ q then q.floor else -((-q).floor)

/-! ## Shared tensor plumbing -/

/-- `cumsum(dim=0)` of one element's column, left to right. -/
def cumsumFrom (acc : Ext) : List Ext → List Ext
  | [] => []
  | x :: xs => (acc.add x) :: cumsumFrom (acc.add x) xs

def cumsum (l : List Ext) : List Ext := cumsumFrom (.fin 0) l

/-- `zeros(n, dtype=bool).scatter_(0, idx, 1)` for one element: row `t` is set iff some index
equals `t` (two indices landing on the same row give ONE spike; nothing else is lost). -/
def scatter (n : Nat) (idx : List Nat) : List Bool := (List.range n).map fun t => decide (t ∈ idx)

/-- all-or-nothing traversal (`none` = the real code raises). -/
def allSome {α : Type} : List (Option α) → Option (List α)
  | [] => some []
  | none :: _ => none
  | some a :: rest => (allSome rest).map (a :: ·)

/-- Time-first layout: row `t` holds step `t` of every element's train. -/
def timeFirst (steps : Nat) (trains : List (List Bool)) : List (List Bool) :=
  (List.range steps).map fun t => trains.map fun tr => tr.getD t false

/-! ## `homogeneous_poisson_exp_interval` (offline) and `_online` -/

structure ExpCfg where
  steps : Nat
  /-- `step_time`, ms -/
  dt : Rat
  /-- `refrac`, ms; `none` = "set to the step time" -/
  refrac : Option Rat
  compensate : Bool
deriving Repr

namespace ExpCfg

/-- `refrac = step_time if refrac is None else refrac; refrac = refrac / step_time` -/
def R (c : ExpCfg) : Rat := (match c.refrac with | none => c.dt | some r => r) / c.dt

/-- `nbins = int(steps // max(refrac, 1))` -/
def nbins (c : ExpCfg) : Nat := ((c.steps : Rat) / (if c.R ≤ 1 then 1 else c.R)).floor.toNat

/-- `res = (1 / inputs) * (1000.0 / step_time); if compensate: res = res - refrac` -/
def scale (c : ExpCfg) (x : Rat) : Ext :=
  let e := (Ext.recip x).mulFin (1000 / c.dt)
  if c.compensate then e.addFin (-c.R) else e

/-- `exponential_sample * res + refrac` -/
def interval (c : ExpCfg) (sc : Ext) (s : Rat) : Ext := (sc.mulFin s).addFin c.R

end ExpCfg

/-- `t.clamp_max_(steps).long()` used as a scatter index into `steps + 1` rows:
`none` when the index is invalid (NaN, `−∞` or `≤ −1`; the real code raises `RuntimeError`). -/
def toIndex (steps : Nat) (t : Ext) : Option Nat :=
  match t with
  | .fin q =>
    let m := if q ≤ (steps : Rat) then q else (steps : Rat)
    let i := truncQ m
    if i < 0 then none else some i.toNat
  | .pinf => some steps
  | .ninf => none
  | .nan => none

/-- One element of `homogeneous_poisson_exp_interval`: rate `x` (Hz), its column `ss` of the
exponential samples.  `intervals → cumsum → clamp_max(steps).long() → scatter into steps+1 rows →
drop the last row`. -/
def expOffline (c : ExpCfg) (x : Rat) (ss : List Rat) : Option (List Bool) :=
  let sc := c.scale x
  let times := cumsum (ss.map (c.interval sc))
  (allSome (times.map (toIndex c.steps))).map fun idx => (scatter (c.steps + 1) idx).dropLast

/-- Whole tensor, element-major input `(rate, column of samples)`, time-first output. -/
def expOfflineT (c : ExpCfg) (cols : List (Rat × List Rat)) : Option (List (List Bool)) :=
  (allSome (cols.map fun p => expOffline c p.1 p.2)).map (timeFirst c.steps)

/-- Generic online step over the flattened tensor.  `adv` is the unconditional per-element update,
`fires` the spike test, `redraw` the re-initialisation of a firing element from the next fresh
sample.  `intervals[spikes] = fresh`: fresh samples go to the firing elements in row-major order;
`none` when their number differs from the number of firing elements (shape error in torch). -/
def stepT {σ α : Type} (adv : σ → σ) (fires : σ → Bool) (redraw : σ → α → σ) :
    List σ → List α → Option (List σ × List Bool)
  | [], [] => some ([], [])
  | [], _ :: _ => none
  | e :: rest, fr =>
    if fires (adv e) then
      match fr with
      | [] => none
      | s :: fr' => (stepT adv fires redraw rest fr').map fun r => (redraw (adv e) s :: r.1, true :: r.2)
    else (stepT adv fires redraw rest fr).map fun r => (adv e :: r.1, false :: r.2)

/-- `steps` online steps; `freshs` has one list of fresh samples per step. -/
def runT {σ α : Type} (adv : σ → σ) (fires : σ → Bool) (redraw : σ → α → σ) :
    List σ → List (List α) → Option (List (List Bool))
  | _, [] => some []
  | st, fr :: rest =>
    match stepT adv fires redraw st fr with
    | none => none
    | some (st', sp) => (runT adv fires redraw st' rest).map (sp :: ·)

/-- Online element state: its (constant) interval scale and the running interval. -/
structure ExpElem where
  sc : Ext
  iv : Ext
deriving Repr

/-- `intervals -= 1` -/
def expAdv (e : ExpElem) : ExpElem := { e with iv := e.iv.addFin (-1) }
/-- `spikes = intervals < 1` -/
def expFires (e : ExpElem) : Bool := e.iv.ltFin 1
/-- `intervals[spikes] = fresh * inputs[spikes] + refrac` -/
def expRedraw (c : ExpCfg) (e : ExpElem) (s : Rat) : ExpElem := { e with iv := c.interval e.sc s }

/-- `intervals = empty_like(inputs).exponential_() * inputs + refrac` -/
def expOnlineInit (c : ExpCfg) (xs : List Rat) (s0 : List Rat) : List ExpElem :=
  List.zipWith (fun x s => { sc := c.scale x, iv := c.interval (c.scale x) s }) xs s0

/-- `homogeneous_poisson_exp_interval_online`: the yielded slices, in order. -/
def expOnline (c : ExpCfg) (xs s0 : List Rat) (freshs : List (List Rat)) : Option (List (List Bool)) :=
  runT expAdv expFires (expRedraw c) (expOnlineInit c xs s0) freshs

/-! ## `poisson_interval` (offline) and `_online`

Samples are Poisson counts (`Nat`).  The rate handed to `torch.poisson` is
`(1 / inputs) * (1000 / step_time)` with zero-rate elements masked to `0`; a Poisson(0) sample is 0. -/

/-- `res[:, mask] += res[:, mask] == 0` -/
def bump (mask : Bool) (k : Nat) : Nat := if mask && k == 0 then 1 else k

def cumsumNat (acc : Nat) : List Nat → List Nat
  | [] => []
  | x :: xs => (acc + x) :: cumsumNat (acc + x) xs

/-- One element of `poisson_interval`; `ks` is its column of the `steps + 2` Poisson samples.
`bump → cumsum → clamp_max(steps) → scatter into steps+2 rows → res[1:-1]`. -/
def poissonOffline (steps : Nat) (x : Rat) (ks : List Nat) : List Bool :=
  let mask := decide (0 < x)
  let times := cumsumNat 0 (ks.map (bump mask))
  let idx := times.map fun t => min t steps
  ((scatter (steps + 2) idx).drop 1).dropLast

def poissonOfflineT (steps : Nat) (cols : List (Rat × List Nat)) : List (List Bool) :=
  timeFirst steps (cols.map fun p => poissonOffline steps p.1 p.2)

structure PoiElem where
  mask : Bool
  iv : Int
deriving Repr

def poiAdv (e : PoiElem) : PoiElem := { e with iv := e.iv - 1 }
def poiFires (e : PoiElem) : Bool := decide (e.iv < 1) && e.mask
def poiRedraw (e : PoiElem) (k : Nat) : PoiElem := { e with iv := k }

def poissonOnlineInit (xs : List Rat) (k0 : List Nat) : List PoiElem :=
  List.zipWith (fun (x : Rat) (k : Nat) => ({ mask := decide (0 < x), iv := (k : Int) } : PoiElem)) xs k0

def poissonOnline (xs : List Rat) (k0 : List Nat) (freshs : List (List Nat)) : Option (List (List Bool)) :=
  runT poiAdv poiFires poiRedraw (poissonOnlineInit xs k0) freshs

/-! ## Bernoulli approximations

`torch.bernoulli(p)` is modelled as `u < p` for a uniform sample `u ∈ [0, 1)` (trusted base,
validated by sample replay on every run). -/

/-- `((inputs / 1000.0) * step_time).clamp_max_(1.0)` -/
def prob (dt x : Rat) : Rat := let p := (x / 1000) * dt; if p ≤ 1 then p else 1

/-- homogeneous, offline and online alike: one row of uniforms per step. -/
def bernoulliT (dt : Rat) (xs : List Rat) (U : List (List Rat)) : List (List Bool) :=
  U.map fun row => List.zipWith (fun u x => decide (u < prob dt x)) row xs

/-- inhomogeneous: the rates carry the time axis as well. -/
def bernoulliInhomT (dt : Rat) (X U : List (List Rat)) : List (List Bool) :=
  List.zipWith (fun xs row => List.zipWith (fun u x => decide (u < prob dt x)) row xs) X U

/-! ## Configuration logic of the encoder modules (constructor + setters)

`HomogeneousPoissonEncoder` (GeneratorMixin, RefractoryStepMixin, Module).  Every setter validates
with `argtest` and leaves the state unchanged when it raises `ValueError`. -/

structure EncState where
  steps : Int
  dt : Rat
  freq : Rat
  /-- `__refrac_time`, ms -/
  refrac : Rat
  /-- `__derive_refrac`: the refractory period follows `dt` -/
  derive : Bool
  comp : Bool
deriving Repr, DecidableEq

inductive CfgOp where
  | setSteps (v : Int)
  | setDt (v : Rat)
  | setFreq (v : Rat)
  | setRefrac (v : Option Rat)
  | setComp (b : Bool)
deriving Repr

/-- `__init__`: `frequency ≥ 0`, `step_time > 0`, `steps > 0`, `refrac ≥ 0`, then (D26) the
compatibility test `frequency * refrac < 1000` under compensation.  `none` = `ValueError`. -/
def encCtor (steps : Int) (dt freq : Rat) (refrac : Option Rat) (comp : Bool) : Option EncState :=
  if ¬ (0 ≤ freq) then none
  else if ¬ (0 < dt) then none
  else if ¬ (0 < steps) then none
  else
    match refrac with
    | none =>
      if comp ∧ ¬ (freq * dt < 1000) then none
      else some ⟨steps, dt, freq, dt, true, comp⟩
    | some r =>
      if ¬ (0 ≤ r) then none
      else if comp ∧ ¬ (freq * r < 1000) then none
      else some ⟨steps, dt, freq, r, false, comp⟩

/-- One setter call; `none` = `ValueError` (state untouched). -/
def encSet (s : EncState) : CfgOp → Option EncState
  | .setSteps v => if 0 < v then some { s with steps := v } else none
  | .setDt v =>
    -- RefractoryStepMixin.dt.fset, then (D30) re-validation with roll-back
    if ¬ (0 < v) then none
    else
      let r := if s.derive then v else s.refrac
      if s.comp ∧ ¬ (s.freq * r < 1000) then none
      else some { s with dt := v, refrac := r }
  | .setFreq v =>
    if s.comp ∧ ¬ (v * s.refrac < 1000) then none
    else if ¬ (0 ≤ v) then none
    else some { s with freq := v }
  | .setRefrac none =>
    if s.comp ∧ ¬ (s.dt * s.freq < 1000) then none
    else some { s with refrac := s.dt, derive := true }
  | .setRefrac (some r) =>
    if s.comp ∧ ¬ (r * s.freq < 1000) then none
    else if ¬ (0 ≤ r) then none
    else some { s with refrac := r, derive := false }
  | .setComp b =>
    if b ∧ ¬ (s.freq * s.refrac < 1000) then none
    else some { s with comp := b }

/-- What a setter that raises leaves behind: every public attribute as it was.  One hidden flag
moves: `RefractoryStepMixin.refrac.fset` clears `__derive_refrac` BEFORE it validates the value, so
a rejected negative `refrac` (which passes the compatibility test) unpins the refractory period
from `dt`. -/
def encFail (s : EncState) : CfgOp → EncState
  | .setRefrac (some r) => if s.comp ∧ ¬ (r * s.freq < 1000) then s else { s with derive := false }
  | _ => s

def encStep (s : EncState) (op : CfgOp) : EncState × Bool :=
  match encSet s op with
  | some s' => (s', true)
  | none => (encFail s op, false)

def encRun (s : EncState) : List CfgOp → EncState
  | [] => s
  | op :: ops => encRun (encStep s op).1 ops

/-- The functional configuration the module's `forward` passes on. -/
def EncState.expCfg (s : EncState) : ExpCfg :=
  { steps := s.steps.toNat, dt := s.dt, refrac := some s.refrac, compensate := s.comp }

/-! ## Float copies (same operation order; executed against torch float64) -/

/-- `nbins`: Python's `int(steps // max(refrac, 1))` is the floor of the exact quotient of the
two doubles for the magnitudes used here; it is computed exactly from the double `R`. -/
def nbinsOf (steps : Nat) (Rq : Rat) : Nat := ((steps : Rat) / (if Rq ≤ 1 then 1 else Rq)).floor.toNat

structure ExpCfgF where
  steps : Nat
  dt : Float
  refrac : Option Float
  compensate : Bool

namespace ExpCfgF
def R (c : ExpCfgF) : Float := (match c.refrac with | none => c.dt | some r => r) / c.dt
def scale (c : ExpCfgF) (x : Float) : Float :=
  let e := (1.0 / x) * (1000.0 / c.dt)
  if c.compensate then e - c.R else e
def interval (c : ExpCfgF) (sc s : Float) : Float := s * sc + c.R
end ExpCfgF

def cumsumFromF (acc : Float) : List Float → List Float
  | [] => []
  | x :: xs => (acc + x) :: cumsumFromF (acc + x) xs

/-- torch's `cumsum` keeps the first element as is (no `0 +`). -/
def cumsumF : List Float → List Float
  | [] => []
  | x :: xs => x :: cumsumFromF x xs

def toIndexF (steps : Nat) (t : Float) : Option Nat :=
  let m := if t > steps.toFloat then steps.toFloat else t
  if m.isNaN then none
  else if m ≤ -1.0 then none
  else if m < 0.0 then some 0
  else some m.floor.toUInt64.toNat

def expOfflineF (c : ExpCfgF) (x : Float) (ss : List Float) : Option (List Bool) :=
  let sc := c.scale x
  let times := cumsumF (ss.map (c.interval sc))
  (allSome (times.map (toIndexF c.steps))).map fun idx => (scatter (c.steps + 1) idx).dropLast

def expOfflineTF (c : ExpCfgF) (cols : List (Float × List Float)) : Option (List (List Bool)) :=
  (allSome (cols.map fun p => expOfflineF c p.1 p.2)).map (timeFirst c.steps)

structure ExpElemF where
  sc : Float
  iv : Float

def expAdvF (e : ExpElemF) : ExpElemF := { e with iv := e.iv - 1.0 }
def expFiresF (e : ExpElemF) : Bool := e.iv < 1.0
def expRedrawF (c : ExpCfgF) (e : ExpElemF) (s : Float) : ExpElemF := { e with iv := c.interval e.sc s }
def expOnlineInitF (c : ExpCfgF) (xs s0 : List Float) : List ExpElemF :=
  List.zipWith (fun x s => { sc := c.scale x, iv := c.interval (c.scale x) s }) xs s0
def expOnlineF (c : ExpCfgF) (xs s0 : List Float) (freshs : List (List Float)) : Option (List (List Bool)) :=
  runT expAdvF expFiresF (expRedrawF c) (expOnlineInitF c xs s0) freshs

def probF (dt x : Float) : Float := let p := (x / 1000.0) * dt; if p > 1.0 then 1.0 else p
def bernoulliTF (dt : Float) (xs : List Float) (U : List (List Float)) : List (List Bool) :=
  U.map fun row => List.zipWith (fun u x => decide (u < probF dt x)) row xs
def bernoulliInhomTF (dt : Float) (X U : List (List Float)) : List (List Bool) :=
  List.zipWith (fun xs row => List.zipWith (fun u x => decide (u < probF dt x)) row xs) X U

/-- float32 copy of the Bernoulli encoders (torch computes `(inputs / 1000.0) * step_time` in the
tensor's dtype, the Python scalars rounded to float32; `torch.bernoulli(p)` draws uniforms of
`p`'s dtype — established by sample replay). -/
def probF32 (dt x : Float32) : Float32 := let p := (x / 1000.0) * dt; if p > 1.0 then 1.0 else p
def bernoulliTF32 (dt : Float32) (xs : List Float32) (U : List (List Float32)) : List (List Bool) :=
  U.map fun row => List.zipWith (fun u x => decide (u < probF32 dt x)) row xs
def bernoulliInhomTF32 (dt : Float32) (X U : List (List Float32)) : List (List Bool) :=
  List.zipWith (fun xs row => List.zipWith (fun u x => decide (u < probF32 dt x)) row xs) X U

end InfernoVerif.Enc

/-! ## Specification demands (what the property requires of an output; printed by the driver,
evaluated on the real output by the harness, proved of the model in `Props/C19.lean`) -/
namespace InfernoVerif.Enc

/-- The interval scale of a rate `x` is non-negative: no compensation, a silent element, or
`refrac/dt ≤ 1000 / (x · dt)` (i.e. `x · refrac ≤ 1000`). -/
def ExpCfg.compat (c : ExpCfg) (x : Rat) : Bool :=
  !c.compensate || decide (x = 0) || decide (c.R ≤ 1000 / (x * c.dt))

/-- Minimum distance, in steps, between two spikes of one element that the property demands:
`⌊refrac / dt⌋` (= `R` when `refrac = R·dt`), and at least 1 (distinct steps). -/
def ExpCfg.specGap (c : ExpCfg) : Nat := if c.R.floor.toNat ≤ 1 then 1 else c.R.floor.toNat

end InfernoVerif.Enc
