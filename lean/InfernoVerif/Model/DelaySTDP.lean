import InfernoVerif.Gen.StdKernelsR
import InfernoVerif.Model.STDP
/-!
# Delay-adjusted and kernel STDP, per weight — `ℝ` copy (the theorems of `Props/C18.lean` are about these)

Hand-written wiring of `inferno/learn/trainers/{delay_adj_two_factor_stdp, delay_adj_three_factor_stdp,
kernel_stdp}.py` (`forward` of the ten trainers) on top of the `EventReducer` fold and the GENERATED
half kernels (`Gen/StdKernelsR.lean`), followed by the SPECIFICATION (the documented function of the
true most-recent spike times).  Shares `Syn`, `Red`, `reduce`, `route`, `signalSplit`, `lastSpike` …
with `Model/STDP.lean`.  A weight is described by its delay `d` (ms, possibly changing from step to
step) and, per batch sample, the (pre train, post train) pairs of its receptive field.

The block between `-- BEGIN DEFS` and `-- END DEFS` is TEXTUALLY IDENTICAL to the one in
`Model/DelaySTDPF.lean` (the `Float` copy run by `drivers/C18.lean`); `harness/corr/c18.py` checks
that on every run.
-/
namespace InfernoVerif.DSTDP.R
noncomputable section
open Classical
open InfernoVerif.STDP.R
open InfernoVerif.Gen.StdKernelsR (exp_stdp_post_kernel exp_stdp_pre_kernel)

-- BEGIN DEFS
/-! ## event times (`observe/reducers/general.py :: EventReducer`, `initial="nan"`) -/

/-- `EventReducer.fold` over a run: `0` on an event, otherwise the previous value `+ dt`; `none` is
the `NaN` the reducer holds before the first event (`NaN + dt = NaN`; the very first call returns
`where(event, 0, NaN)`, which is the same rule applied to a `NaN` state) -/
def sinceLast (dt : T) (s : Nat → Bool) : Nat → Option T
  | 0 => if s 0 then some 0 else none
  | t + 1 => if s (t + 1) then some 0 else (sinceLast dt s t).map (· + dt)

/-- `t_delta = t_pre - t_post - delay` of the delay-adjusted rules (NaN-propagating) -/
def tDelta (dt : T) (s : Syn) (d : T) (t : Nat) : Option T :=
  match sinceLast dt s.pre t, sinceLast dt s.post t with
  | some a, some b => some (a - b - d)
  | _, _ => none

/-- `t_delta = t_pre - t_post` of the unadjusted `KernelSTDP` (no delays in effect) -/
def tDeltaU (dt : T) (s : Syn) (t : Nat) : Option T :=
  match sinceLast dt s.pre t, sinceLast dt s.post t with
  | some a, some b => some (a - b)
  | _, _ => none

/-- `x.nansum(-1)` over the receptive field: NaN entries are dropped -/
def nansum (xs : List (Option T)) : T := lsum (xs.filterMap id)

/-- `x.clamp_min(0.0)` / `x.clamp_max(0.0)` -/
def clampMin0 (x : T) : T := if x < 0 then 0 else x
def clampMax0 (x : T) : T := if 0 < x then 0 else x

structure DCfg where
  lrPos : T
  lrNeg : T
  tcPos : T
  tcNeg : T
  dt : T

/-- `reduce_b nansum_r g(t_delta)`: the shape of every partial update of the delay-adjusted trainers;
`d` is the delay of this weight at the step -/
def partial_ (dt : T) (r : Red) (g : T → T) (d : T) (bt : List (List Syn)) (t : Nat) : T :=
  reduce r (bt.map fun f => nansum (f.map fun s => (tDelta dt s d t).map g))

/-- per-sample version (before the batch reduction) -/
def partialB (dt : T) (g : T → T) (d : T) (bt : List (List Syn)) (t : Nat) : List T :=
  bt.map fun f => nansum (f.map fun s => (tDelta dt s d t).map g)

/-! ## `DelayAdjustedSTDP` / `DelayAdjustedMSTDP` (weights) -/

/-- `exp(|t_delta| / (-tc_pos)) * (|lr_pos| * [t_delta >= 0])` -/
def daPosTerm (c : DCfg) (x : T) : T :=
  exp (absT x / (-c.tcPos)) * (absT c.lrPos * (if x ≥ 0 then 1 else 0))

/-- `exp(|t_delta| / (-tc_neg)) * (|lr_neg| * [t_delta < 0])` -/
def daNegTerm (c : DCfg) (x : T) : T :=
  exp (absT x / (-c.tcNeg)) * (absT c.lrNeg * (if x < 0 then 1 else 0))

def daStep (c : DCfg) (r : Red) (d : T) (bt : List (List Syn)) (t : Nat) : Option T × Option T :=
  route (decide (c.lrPos ≥ 0)) (decide (c.lrNeg ≥ 0))
    (partial_ c.dt r (daPosTerm c) d bt t) (partial_ c.dt r (daNegTerm c) d bt t)

def damScalar (c : DCfg) (r : Red) (d : T) (bt : List (List Syn)) (signal scale : T) (t : Nat) :
    Option T × Option T :=
  route (decide (c.lrPos * signal ≥ 0)) (decide (c.lrNeg * signal ≥ 0))
    (partial_ c.dt r (daPosTerm c) d bt t * absT (signal * scale))
    (partial_ c.dt r (daNegTerm c) d bt t * absT (signal * scale))

def damTensor (c : DCfg) (r : Red) (d : T) (bt : List (List Syn)) (sig : List T) (scale : T) (t : Nat) :
    Option T × Option T :=
  signalSplit c.lrPos c.lrNeg r sig scale (partialB c.dt (daPosTerm c) d bt t) (partialB c.dt (daNegTerm c) d bt t)

/-! ## `DelayAdjustedSTDPD` / `DelayAdjustedMSTDPD` (delays): the causal branch carries `lr_neg` -/

/-- `exp(|t_delta| / (-tc_neg)) * (|lr_neg| * [t_delta >= 0])` -/
def dadNegTerm (c : DCfg) (x : T) : T :=
  exp (absT x / (-c.tcNeg)) * (absT c.lrNeg * (if x ≥ 0 then 1 else 0))

/-- `exp(|t_delta| / (-tc_pos)) * (|lr_pos| * [t_delta < 0])` -/
def dadPosTerm (c : DCfg) (x : T) : T :=
  exp (absT x / (-c.tcPos)) * (absT c.lrPos * (if x < 0 then 1 else 0))

/-- the `match (… < 0, … < 0)` table of the delay trainers (`dpost`: causal branch, `dpre`: the other) -/
def routeD (a b : Bool) (dpost dpre : T) : Option T × Option T :=
  match a, b with
  | true, true => (none, some (dpre + dpost))
  | true, false => (some dpre, some dpost)
  | false, true => (some dpost, some dpre)
  | false, false => (some (dpre + dpost), none)

def dadStep (c : DCfg) (r : Red) (d : T) (bt : List (List Syn)) (t : Nat) : Option T × Option T :=
  routeD (decide (c.lrNeg < 0)) (decide (c.lrPos < 0))
    (partial_ c.dt r (dadNegTerm c) d bt t) (partial_ c.dt r (dadPosTerm c) d bt t)

def damdScalar (c : DCfg) (r : Red) (d : T) (bt : List (List Syn)) (signal scale : T) (t : Nat) :
    Option T × Option T :=
  routeD (decide (c.lrNeg * signal < 0)) (decide (c.lrPos * signal < 0))
    (partial_ c.dt r (dadNegTerm c) d bt t * absT (signal * scale))
    (partial_ c.dt r (dadPosTerm c) d bt t * absT (signal * scale))

/-- the `torch.cat` table of `DelayAdjustedMSTDPD`'s tensor-signal branch: `(dpos, dneg)` -/
def routeTD (a b : Bool) (postReg postInv preReg preInv : List T) : List T × List T :=
  match a, b with
  | true, true => (postInv ++ preInv, postReg ++ preReg)
  | true, false => (postInv ++ preReg, postReg ++ preInv)
  | false, true => (postReg ++ preInv, postInv ++ preReg)
  | false, false => (postReg ++ preReg, postInv ++ preInv)

def damdTensor (c : DCfg) (r : Red) (d : T) (bt : List (List Syn)) (sig : List T) (scale : T) (t : Nat) :
    Option T × Option T :=
  let ss := sig.map fun s => absT (s * scale)
  let dpost := ((partialB c.dt (dadNegTerm c) d bt t).zip ss).map fun x => x.1 * x.2
  let dpre := ((partialB c.dt (dadPosTerm c) d bt t).zip ss).map fun x => x.1 * x.2
  let reg := fun (s : T) => decide (s ≥ 0)
  let inv := fun (s : T) => decide (s < 0)
  let q := routeTD (decide (c.lrNeg < 0)) (decide (c.lrPos < 0))
    (pick reg sig dpost) (pick inv sig dpost) (pick reg sig dpre) (pick inv sig dpre)
  (redOpt r q.1, redOpt r q.2)

/-! ## kernel trainers (`kernel_stdp.py`) -/

/-- the `clamp_min / clamp_max` split handed to the updater; `td` computes `t_delta` -/
def kernelSplit (r : Red) (kpost kpre : T → T) (td : Syn → Option T) (bt : List (List Syn)) :
    Option T × Option T :=
  let P := fun (g : T → T) => reduce r (bt.map fun f => nansum (f.map fun s => (td s).map g))
  (some (P (fun x => clampMin0 (kpost x)) + P (fun x => clampMin0 (kpre x))),
   some (-(P (fun x => clampMax0 (kpost x)) + P (fun x => clampMax0 (kpre x)))))

/-- `DelayAdjustedKernelSTDP` / `DelayAdjustedKernelSTDPD` with arbitrary half kernels -/
def dakStep (dt : T) (r : Red) (kpost kpre : T → T) (d : T) (bt : List (List Syn)) (t : Nat) :
    Option T × Option T :=
  kernelSplit r kpost kpre (fun s => tDelta dt s d t) bt

/-- `KernelSTDP` (no delays in effect) -/
def kStep (dt : T) (r : Red) (kpost kpre : T → T) (bt : List (List Syn)) (t : Nat) : Option T × Option T :=
  kernelSplit r kpost kpre (fun s => tDeltaU dt s t) bt

/-- the shipped exponential kernels with `DelayAdjustedSTDP`'s rates and time constants (GENERATED) -/
def expPost (c : DCfg) (x : T) : T := exp_stdp_post_kernel x c.lrPos c.tcPos
def expPre (c : DCfg) (x : T) : T := exp_stdp_pre_kernel x c.lrNeg c.tcNeg
/-- … and with `DelayAdjustedSTDPD`'s (the causal branch carries `lr_neg`, `tc_neg`) -/
def expPostD (c : DCfg) (x : T) : T := exp_stdp_post_kernel x c.lrNeg c.tcNeg
def expPreD (c : DCfg) (x : T) : T := exp_stdp_pre_kernel x c.lrPos c.tcPos

/-! ## SPECIFICATION: the documented function of the true most-recent spike times -/

/-- `t_delta = t_post_last - t_pre_last - d` from the true most recent spike steps; `none` while
either side has not spiked yet -/
def specTDelta (dt : T) (s : Syn) (d : T) (t : Nat) : Option T :=
  match lastSpike s.pre t, lastSpike s.post t with
  | some a, some b => some ((ofNat b - ofNat a) * dt - d)
  | _, _ => none

/-- magnitude of the causal term `|η|·exp(-|t_delta|/τ)·[t_delta ≥ 0]`, `0` before both have spiked -/
def specCausal (lr tau : T) (x : Option T) : T :=
  match x with
  | some x => if x ≥ 0 then absT lr * exp (-(absT x) / tau) else 0
  | none => 0

/-- magnitude of the anti-causal term `|η|·exp(-|t_delta|/τ)·[t_delta < 0]` -/
def specAnti (lr tau : T) (x : Option T) : T :=
  match x with
  | some x => if x < 0 then absT lr * exp (-(absT x) / tau) else 0
  | none => 0

def specPartial (dt : T) (r : Red) (g : Option T → T) (d : T) (bt : List (List Syn)) (t : Nat) : T :=
  reduce r (bt.map fun f => lsum (f.map fun s => g (specTDelta dt s d t)))

def specPartialB (dt : T) (g : Option T → T) (d : T) (bt : List (List Syn)) (t : Nat) : List T :=
  bt.map fun f => lsum (f.map fun s => g (specTDelta dt s d t))

/-- weights: `η₊` on the causal branch, `η₋` on the other; signs route to LTP / LTD -/
def specDa (c : DCfg) (r : Red) (d : T) (bt : List (List Syn)) (t : Nat) : Option T × Option T :=
  route (decide (c.lrPos ≥ 0)) (decide (c.lrNeg ≥ 0))
    (specPartial c.dt r (specCausal c.lrPos c.tcPos) d bt t) (specPartial c.dt r (specAnti c.lrNeg c.tcNeg) d bt t)

/-- delays: `η₋` on the causal branch, `η₊` on the other -/
def specDad (c : DCfg) (r : Red) (d : T) (bt : List (List Syn)) (t : Nat) : Option T × Option T :=
  route (decide (c.lrNeg ≥ 0)) (decide (c.lrPos ≥ 0))
    (specPartial c.dt r (specCausal c.lrNeg c.tcNeg) d bt t) (specPartial c.dt r (specAnti c.lrPos c.tcPos) d bt t)

def specDamScalar (c : DCfg) (r : Red) (d : T) (bt : List (List Syn)) (signal scale : T) (t : Nat) :
    Option T × Option T :=
  route (decide (c.lrPos * signal ≥ 0)) (decide (c.lrNeg * signal ≥ 0))
    (specPartial c.dt r (specCausal c.lrPos c.tcPos) d bt t * absT (signal * scale))
    (specPartial c.dt r (specAnti c.lrNeg c.tcNeg) d bt t * absT (signal * scale))

def specDamTensor (c : DCfg) (r : Red) (d : T) (bt : List (List Syn)) (sig : List T) (scale : T) (t : Nat) :
    Option T × Option T :=
  signalSplit c.lrPos c.lrNeg r sig scale (specPartialB c.dt (specCausal c.lrPos c.tcPos) d bt t)
    (specPartialB c.dt (specAnti c.lrNeg c.tcNeg) d bt t)

def specDamdScalar (c : DCfg) (r : Red) (d : T) (bt : List (List Syn)) (signal scale : T) (t : Nat) :
    Option T × Option T :=
  route (decide (c.lrNeg * signal ≥ 0)) (decide (c.lrPos * signal ≥ 0))
    (specPartial c.dt r (specCausal c.lrNeg c.tcNeg) d bt t * absT (signal * scale))
    (specPartial c.dt r (specAnti c.lrPos c.tcPos) d bt t * absT (signal * scale))

def specDamdTensor (c : DCfg) (r : Red) (d : T) (bt : List (List Syn)) (sig : List T) (scale : T) (t : Nat) :
    Option T × Option T :=
  signalSplit c.lrNeg c.lrPos r sig scale (specPartialB c.dt (specCausal c.lrNeg c.tcNeg) d bt t)
    (specPartialB c.dt (specAnti c.lrPos c.tcPos) d bt t)
-- END DEFS

end
end InfernoVerif.DSTDP.R
