import InfernoVerif.Model.RingOps
/-
Model of state-dict persistence (`torch.nn.Module.state_dict` / `load_state_dict(strict=True)` on
top of `inferno.Module.get_extra_state / set_extra_state`) — hand written, core Lean only.
Tie to the code: `harness/corr/c12.py` (introspection of every component class's real
`state_dict()` key set against `save`; load-error classes; real resume runs).

A *component* (`Comp`) is a state type with
* `save : State → D`      exactly the PERSISTENT entries the code registers: buffers registered
                           with `persistent=True`, parameters, and the `_extras` dict of the module
                           (`_<name>_pointer`, `_initial`, `_count`); configuration (step time,
                           duration, hyper-parameters, record size) is NOT saved;
* `load : D → State → Except (List LoadErr) State`
                           strict key match, shape match (all errors collected, as torch does),
                           `param.copy_(saved)`, `_extras.update(saved extras)`, then the module's
                           post-load hook (recomputation of derived non-persistent buffers);
* `view`                   everything a step of the component reads that is not configuration;
* `sameConfig`, `Inv`      same constructor arguments; what construction + steps guarantee.
A *machine* on a component is any `step : State → In → State × Out` that `Respects` the view.

Dict types: a leaf module has a string-keyed `Dict` (tensors + extras); a product of components
has the product of the dicts (torch recurses over the module tree with a key prefix per child,
collecting the errors of all children); a `ParameterList` has positional keys (`AccDict`).
-/
namespace InfernoVerif.Persist
open InfernoVerif.Ring

/-- A tensor entry: its shape and its slices along dimension 0. -/
structure Tens (β : Type) where
  shape : List Nat
  rows : List (List β)
deriving Repr

/-- Values of `_extras` entries: pointers / counters and flags. -/
inductive XVal | int (i : Int) | bool (b : Bool)
deriving Repr, DecidableEq

/-- State dict of ONE module (children excluded): persistent tensors and the extras dict
(the single `_extra_state` entry). -/
structure Dict (β : Type) where
  tensors : List (String × Tens β) := []
  extras : List (String × XVal) := []
deriving Repr

/-- The three error kinds of `load_state_dict(strict=True)`; torch raises ONE `RuntimeError`
listing all of them. -/
inductive LoadErr | unexpected (k : String) | missing (k : String) | shape (k : String)
deriving Repr, DecidableEq

variable {β : Type}

/-- `Module.load_state_dict(strict=True)` on the tensor entries of one module: keys of the saved
dict the target does not have (`unexpected`), keys of the target absent from the saved dict
(`missing`), and entries whose shapes differ (`size mismatch`). -/
def strictErrors (saved target : List (String × Tens β)) : List LoadErr :=
  ((saved.filter fun kv => (target.lookup kv.1).isNone).map fun kv => LoadErr.unexpected kv.1) ++
  ((target.filter fun kv => (saved.lookup kv.1).isNone).map fun kv => LoadErr.missing kv.1) ++
  (target.filterMap fun kv => match saved.lookup kv.1 with
     | some v => if v.shape = kv.2.shape then none else some (LoadErr.shape kv.1)
     | none => none)

/-- `self._extras.update(state); self._extras[k]`: the saved entry if there is one, else the
target's current entry (extras are NOT checked strictly). -/
def loadExtra (cur saved : List (String × XVal)) (k : String) : Option XVal :=
  match saved.lookup k with
  | some v => some v
  | none => cur.lookup k

/-- Persistence interface of a state type. -/
structure Comp (D : Type) where
  State : Type
  V : Type
  view : State → V
  save : State → D
  load : D → State → Except (List LoadErr) State
  sameConfig : State → State → Prop
  Inv : State → Prop

/-- A step function reads the state only through `view`. -/
def Respects {D In Out : Type} (C : Comp D) (step : C.State → In → C.State × Out) : Prop :=
  ∀ s t x, C.view s = C.view t → (step s x).2 = (step t x).2 ∧ C.view (step s x).1 = C.view (step t x).1

/-- `load_save_agrees_on_read_fields`: after loading what `s` saved into ANY target `t` of the same
configuration, the target agrees with `s` on every field a step reads. -/
def Resumes {D : Type} (C : Comp D) : Prop :=
  ∀ s t t', C.Inv s → C.Inv t → C.sameConfig s t → C.load (C.save s) t = .ok t' → C.view t' = C.view s

def run {S In Out : Type} (step : S → In → S × Out) (s : S) : List In → S × List Out
  | [] => (s, [])
  | x :: xs => let (s', o) := step s x; let (s'', os) := run step s' xs; (s'', o :: os)

/-- Product of two components (a module with two stateful children / a module that registers the
entries of two attribute helpers): children are saved and loaded independently, errors are
collected. -/
def Comp.prod {D₁ D₂ : Type} (C₁ : Comp D₁) (C₂ : Comp D₂) : Comp (D₁ × D₂) where
  State := C₁.State × C₂.State
  V := C₁.V × C₂.V
  view s := (C₁.view s.1, C₂.view s.2)
  save s := (C₁.save s.1, C₂.save s.2)
  load d t := match C₁.load d.1 t.1, C₂.load d.2 t.2 with
    | .ok a, .ok b => .ok (a, b)
    | .error e, .ok _ => .error e
    | .ok _, .error e => .error e
    | .error e₁, .error e₂ => .error (e₁ ++ e₂)
  sameConfig s t := C₁.sameConfig s.1 t.1 ∧ C₂.sameConfig s.2 t.2
  Inv s := C₁.Inv s.1 ∧ C₂.Inv s.2

/-! ## RecordTensor `name`: buffer `_<name>_data` + extra `_<name>_pointer`
(`core/infrastructure.py:341-353, 980-994`); `_<name>_dt/_duration/_inclusive/_constraints` are plain
attributes (configuration) unless `persist_temporal / persist_constraints`. -/

def dataKey (name : String) : String := "_" ++ name ++ "_data"
def ptrKey (name : String) : String := "_" ++ name ++ "_pointer"

/-- What distinguishes storages that `load_state_dict` cannot tell apart by shape: dtype, and
whether the buffer is an `UninitializedBuffer`; `None` storage has no entry at all. -/
def storeTag {σ : Type} : Store σ → Option (Bool × DType)
  | .none => none
  | .empty d => some (false, d)
  | .uninit d => some (true, d)
  | .init d _ _ => some (false, d)

def ringSave (name : String) (s : MState β) : Dict β :=
  match s.2 with
  | .none => { tensors := [], extras := [(ptrKey name, .int 0)] }
  | .empty _ => { tensors := [(dataKey name, ⟨[0], []⟩)], extras := [(ptrKey name, .int 0)] }
  | .uninit _ => { tensors := [(dataKey name, ⟨[0], []⟩)], extras := [(ptrKey name, .int 0)] }
  | .init _ sh r => { tensors := [(dataKey name, ⟨r.data.length :: sh, r.data⟩)],
                      extras := [(ptrKey name, .int r.ptr)] }

def ringLoad (name : String) (d : Dict β) (t : MState β) : Except (List LoadErr) (MState β) :=
  match strictErrors d.tensors (ringSave name t).tensors with
  | [] =>
    .ok (t.1, match t.2 with
      | .init dt sh r =>
        .init dt sh
          { n := r.n,
            ptr := (match loadExtra (ringSave name t).extras d.extras (ptrKey name) with
                    | some (.int i) => i.toNat | _ => r.ptr),
            data := (match d.tensors.lookup (dataKey name) with | some v => v.rows | none => r.data) }
      | other => other)
  | errs => .error errs

/-- What the constructor and the constraint on dimension 0 guarantee (`MWF` of `Model/RingOps.lean`,
preserved by every operation — `Props/C01.lean`): `recordsz ≥ 1`; storage present ⇒ `recordsz` slots,
pointer in range. -/
def ringInv (s : MState β) : Prop := MWF s

def ringComp (β : Type) (name : String) : Comp (Dict β) where
  State := MState β
  V := MState β
  view := id
  save := ringSave name
  load := ringLoad name
  sameConfig s t := s.1 = t.1 ∧ storeTag s.2 = storeTag t.2
  Inv := ringInv

/-! ## A plain persistent buffer / parameter (`register_buffer(key, t)`, `register_parameter`),
and a buffer that may be `None` (`RecurrentSerial.feedback_spikes`, `network.py:1125`): a `None`
buffer has NO state-dict entry. -/

def bufferComp (β : Type) (key : String) : Comp (Dict β) where
  State := Tens β
  V := Tens β
  view := id
  save s := { tensors := [(key, s)], extras := [] }
  load d t := match strictErrors d.tensors [(key, t)] with
    | [] => .ok ⟨t.shape, match d.tensors.lookup key with | some v => v.rows | none => t.rows⟩
    | errs => .error errs
  sameConfig _ _ := True
  Inv _ := True

def optBufferComp (β : Type) (key : String) : Comp (Dict β) where
  State := Option (Tens β)
  V := Option (Tens β)
  view := id
  save s := { tensors := match s with | some v => [(key, v)] | none => [], extras := [] }
  load d t := match strictErrors d.tensors (match t with | some v => [(key, v)] | none => []) with
    | [] => .ok (match t with
        | some v => some ⟨v.shape, match d.tensors.lookup key with | some w => w.rows | none => v.rows⟩
        | none => none)
    | errs => .error errs
  sameConfig _ _ := True
  Inv _ := True

/-! ## The fold reducer's own extras: `_initial` (`observe/reducers/base.py:237`) and, for the
cumulative-average reducer, `_count` (`observe/reducers/stats.py:117`).  They live in the same
`_extras` dict as the data record's pointer; extras are never checked strictly. -/

structure Flags where
  hasCount : Bool       -- configuration: the class is `CAReducer`
  initial : Bool
  count : Nat
deriving Repr, DecidableEq

def flagsSave (f : Flags) : List (String × XVal) :=
  ("_initial", XVal.bool f.initial) :: (if f.hasCount then [("_count", XVal.int f.count)] else [])

def flagsLoad (d : List (String × XVal)) (t : Flags) : Flags :=
  { t with
    initial := (match loadExtra (flagsSave t) d "_initial" with | some (.bool b) => b | _ => t.initial),
    count := if t.hasCount then
        (match loadExtra (flagsSave t) d "_count" with | some (.int i) => i.toNat | _ => t.count)
      else t.count }

def flagsComp : Comp (List (String × XVal)) where
  State := Flags
  V := Bool × Bool × Nat
  view f := (f.hasCount, f.initial, if f.hasCount then f.count else 0)
  save := flagsSave
  load d t := .ok (flagsLoad d t)
  sameConfig s t := s.hasCount = t.hasCount
  Inv _ := True

/-- FoldReducer = its data record + its flags. -/
def reducerComp (β : Type) : Comp (Dict β × List (String × XVal)) := (ringComp β "data_").prod flagsComp

inductive RedIn (β : Type) where
  | push (x : Obs β)
  | clear (keepshape : Bool)
  | peek

/-- `FoldReducer.forward / clear / peek` (`observe/reducers/base.py`) over the record machine of
`Model/RingOps.lean`; `fold count obs prev` is the subclass's fold (`count` is the value of `_count`
AFTER `CAReducer.fold` incremented it; other classes never touch it and receive 0). -/
def reducerStep (E : Elem β) (inplace : Bool) (fold : Nat → Obs β → Option (List β) → Obs β)
    (s : MState β × Flags) : RedIn β → (MState β × Flags) × Out β
  | .peek => if s.2.initial then (s, .none) else (s, (step E s.1 .peek).2)
  | .clear keepshape =>
    let rec' := if keepshape then (step E s.1 (.reset (some E.zero))).1 else (step E s.1 (.deinitz false)).1
    ((rec', { s.2 with initial := true, count := if s.2.hasCount then 0 else s.2.count }), .unit)
  | .push x =>
    let cnt := if s.2.hasCount then s.2.count + 1 else s.2.count
    let c := if s.2.hasCount then cnt else 0
    if s.2.initial then
      let res := fold c x none
      let ignored := match s.1.2 with | .init _ _ _ => false | _ => true
      -- `if self.data_.ignored: initialize(res.shape, fill) else: reset(fill)` (a cleared record kept its shape)
      let rec0 := if ignored then (step E s.1 (.initz res.shape)).1 else (step E s.1 (.reset (some E.zero))).1
      let (rec1, o) := step E rec0 (.push res inplace)
      match o with
      | .err e => ((rec0, { s.2 with count := cnt }), .err e)
      | _ => ((rec1, { s.2 with initial := false, count := cnt }), o)
    else
      let prev := match (step E s.1 .peek).2 with | .orow (some r) => some r | _ => none
      let (rec1, o) := step E s.1 (.push (fold c x prev) inplace)
      ((rec1, { s.2 with count := cnt }), o)

/-! ## Accumulator (`neural/modeling.py:13-60`): pending parts are two `ParameterList`s, so their
state-dict keys are `_pos.0 … _pos.(k-1)`, `_neg.0 …` — the KEY SET is the number of pending parts.
The reduced values are cached (`functools.cache`); the cache is cleared when a part is appended or
the parts are deleted — and by the load post-hook registered in the constructor (D32), since
`load_state_dict` copies into the parts in place.  `clearCacheOnLoad = true` is the code;
`false` is the code before that fix (kept to state what the hook is needed for). -/

structure AccDict (β : Type) where
  pos : List (Tens β)
  neg : List (Tens β)

structure Acc (β : Type) where
  pos : List (Tens β)
  neg : List (Tens β)
  pc : Option (Option (Tens β))   -- `_pos_cache`: `none` = cold
  nc : Option (Option (Tens β))

/-- errors of loading a `ParameterList` of `ns` saved parts into one of `nt` parts -/
def plistErrors (pfx : String) (saved target : List (Tens β)) : List LoadErr :=
  ((List.range saved.length).filter (fun i => target.length ≤ i)).map (fun i => LoadErr.unexpected (pfx ++ toString i)) ++
  ((List.range target.length).filter (fun i => saved.length ≤ i)).map (fun i => LoadErr.missing (pfx ++ toString i)) ++
  ((saved.zip target).zipIdx.filterMap fun p =>
      if p.1.1.shape = p.1.2.shape then none else some (LoadErr.shape (pfx ++ toString p.2)))

def copyRows (saved target : List (Tens β)) : List (Tens β) :=
  (saved.zip target).map fun p => ⟨p.2.shape, p.1.rows⟩

/-- `red` is the configured reduction of the stacked parts (`None` when there are none). -/
def accEff (red : List (Tens β) → Option (Tens β)) (parts : List (Tens β)) : Option (Option (Tens β)) → Option (Tens β)
  | some v => v
  | none => red parts

def accComp (β : Type) (red : List (Tens β) → Option (Tens β)) (clearCacheOnLoad : Bool) : Comp (AccDict β) where
  State := Acc β
  V := List (Tens β) × List (Tens β) × Option (Tens β) × Option (Tens β)
  view a := (a.pos, a.neg, accEff red a.pos a.pc, accEff red a.neg a.nc)
  save a := ⟨a.pos, a.neg⟩
  load d t := match plistErrors "_pos." d.pos t.pos ++ plistErrors "_neg." d.neg t.neg with
    | [] => .ok { pos := copyRows d.pos t.pos, neg := copyRows d.neg t.neg,
                  pc := if clearCacheOnLoad then none else t.pc,
                  nc := if clearCacheOnLoad then none else t.nc }
    | errs => .error errs
  sameConfig _ _ := True
  Inv a := (a.pc = none ∨ a.pc = some (red a.pos)) ∧ (a.nc = none ∨ a.nc = some (red a.neg))

inductive AccIn (β : Type) where
  | addPos (x : Tens β)
  | addNeg (x : Tens β)
  | read            -- `Accumulator.update`: reads `pos` and `neg` through the caches
  | clear

def accStep (red : List (Tens β) → Option (Tens β)) (a : Acc β) :
    AccIn β → Acc β × (Option (Tens β) × Option (Tens β))
  | .addPos x => ({ a with pos := a.pos ++ [x], pc := none }, (none, none))
  | .addNeg x => ({ a with neg := a.neg ++ [x], nc := none }, (none, none))
  | .read =>
    let p := accEff red a.pos a.pc
    let n := accEff red a.neg a.nc
    ({ a with pc := some p, nc := some n }, (p, n))
  | .clear => ({ pos := [], neg := [], pc := none, nc := none }, (none, none))

/-! ## MaxRateClassifier (`learn/classifiers/simple.py`): parameter `rates_` is saved;
`assignments_ / occurrences_ / proportions_` are non-persistent buffers that the `rates` setter
derives and that the load post-hook (`simple.py:84-89`: `module.rates = module.rates`) recomputes;
the constructor ends with the same assignment (D31), so `derived = derive rates` (`Inv`) holds
from construction on.  `postHook = true` is the code; `false` is the mutant without the hook. -/

structure Clf (β Δ : Type) where
  rates : Tens β
  derived : Δ

def clfComp (β Δ : Type) (derive : Tens β → Δ) (postHook : Bool) : Comp (Dict β) where
  State := Clf β Δ
  V := Clf β Δ
  view := id
  save s := { tensors := [("rates_", s.rates)], extras := [] }
  load d t := match strictErrors d.tensors [("rates_", t.rates)] with
    | [] =>
      let r : Tens β := ⟨t.rates.shape, match d.tensors.lookup "rates_" with | some v => v.rows | none => t.rates.rows⟩
      .ok { rates := r, derived := if postHook then derive r else t.derived }
    | errs => .error errs
  sameConfig _ _ := True
  Inv s := s.derived = derive s.rates

/-- `forward(inputs, labels)`: inference from the derived buffers, then `update` through the
`rates` setter. -/
def clfStep {β Δ In Out : Type} (derive : Tens β → Δ) (infer : Δ → In → Out) (upd : Tens β → In → Tens β)
    (s : Clf β Δ) (x : In) : Clf β Δ × Out :=
  let r := upd s.rates x
  ({ rates := r, derived := derive r }, infer s.derived x)

/-! ## Composite modules -/

/-- Neuron: `_voltage__data`, `_refrac__data` (ShapedTensor buffers) and the adaptation buffer. -/
def neuronComp (β : Type) (adaptKey : String) : Comp (Dict β × Dict β × Dict β) :=
  (bufferComp β "_voltage__data").prod ((bufferComp β "_refrac__data").prod (bufferComp β adaptKey))

/-- DoubleExponentialCurrent: three records. -/
def synapseComp (β : Type) : Comp (Dict β × Dict β × Dict β) :=
  (ringComp β "spike_").prod ((ringComp β "pos_current_").prod (ringComp β "neg_current_"))

/-! ## Key sets for introspection (flattened, with the module prefix added by the driver) -/

def Dict.keys (d : Dict β) : List String :=
  d.tensors.map (fun kv => "T:" ++ kv.1) ++ d.extras.map (fun kv => "E:" ++ kv.1)

def AccDict.keys (d : AccDict β) : List String :=
  (List.range d.pos.length).map (fun i => "T:_pos." ++ toString i) ++
  (List.range d.neg.length).map (fun i => "T:_neg." ++ toString i)

end InfernoVerif.Persist
