/-
Model of inferno's connections (`neural/connections/linear.py`, `conv.py`, `mixins.py`) with no
delays — hand written, code shaped, core Lean only (no imports) so the driver can execute it
over `Int`.  Tie to the code: correspondence check `harness/corr/c05.py`.

Tensors are row-major nested lists (`List α` vectors, `List (List α)` matrices, …); the element
type `α` only needs `+ * 0` (and `1 -` for the lateral mask), so `Props/C05.lean` proves the
theorems for every commutative (semi)ring.  torch primitives (`F.linear`, `F.unfold`, `F.fold`,
`matmul`, einops rearranges) are modelled by their documented index definitions; the
correspondence check is what validates those models.

Next to every code-shaped function sits the *specification* the property states (`…Spec`).
-/
namespace InfernoVerif.Conn

variable {α : Type}

/-! ## basic access / sums -/

/-- `Σ_{i<n} f i` accumulated from index 0 upward. -/
def sumTo [Add α] [Zero α] : Nat → (Nat → α) → α
  | 0, _ => 0
  | n + 1, f => sumTo n f + f n

def vget [Zero α] (v : List α) (i : Nat) : α := v.getD i 0
def mget [Zero α] (m : List (List α)) (i j : Nat) : α := (m.getD i []).getD j 0
def get3 [Zero α] (x : List (List (List α))) (c i j : Nat) : α := ((x.getD c []).getD i []).getD j 0
def get4 [Zero α] (k : List (List (List (List α)))) (f c i j : Nat) : α :=
  (((k.getD f []).getD c []).getD i []).getD j 0

/-- shape predicates (what the constructors guarantee about parameters, and the shape checks of
the synapse about inputs) -/
def Shape2 (m : List (List α)) (r c : Nat) : Prop := m.length = r ∧ ∀ row ∈ m, row.length = c
def Shape3 (x : List (List (List α))) (a b c : Nat) : Prop := x.length = a ∧ ∀ p ∈ x, Shape2 p b c
def Shape4 (k : List (List (List (List α)))) (a b c d : Nat) : Prop :=
  k.length = a ∧ ∀ p ∈ k, Shape3 p b c d

/-- `b_o` when the connection is biased, nothing added otherwise. -/
def biasAt [Zero α] (b : Option (List α)) (o : Nat) : α :=
  match b with | none => 0 | some b => vget b o

/-! ## LinearDense (`F.linear(res, weight, bias)`, linear.py:352) -/

/-- inner product of two vectors (what `F.linear` / `matmul` accumulate) -/
def dot [Add α] [Mul α] [Zero α] : List α → List α → α
  | x :: xs, w :: ws => x * w + dot xs ws
  | _, _ => 0

/-- `F.linear(x, W, b)` for one batch row `x` (length `M`), `W : N × M`: `y_o = ⟨x, W_o⟩ (+ b_o)`. -/
def linearRow [Add α] [Mul α] [Zero α] (W : List (List α)) (b : Option (List α)) (x : List α) : List α :=
  let y := W.map (dot x)
  match b with
  | none => y
  | some b => List.zipWith (· + ·) y b

/-- `LinearDense.forward` without delay on a batch of flattened rows (`like_synaptic` =
`"b ... -> b (...)"` is the identity on row-major data; `res.view(-1, *outshape)` likewise). -/
def denseFwd [Add α] [Mul α] [Zero α] (W : List (List α)) (b : Option (List α)) (xs : List (List α)) :
    List (List α) := xs.map (linearRow W b)

/-- `Wᵀ` of an `N × M` matrix, as an explicit `M × N` matrix. -/
def transpose [Zero α] (N M : Nat) (W : List (List α)) : List (List α) :=
  (List.range M).map fun i => (List.range N).map fun o => mget W o i

/-- SPEC: `y = x Wᵀ + b`, element `o` is `Σ_i x_i (Wᵀ)_{i,o} + b_o`. -/
def denseSpecRow [Add α] [Mul α] [Zero α] (N M : Nat) (W : List (List α)) (b : Option (List α))
    (x : List α) : List α :=
  (List.range N).map fun o => sumTo M (fun i => vget x i * mget (transpose N M W) i o) + biasAt b o

/-! ## LinearDirect (`res * weight + bias`, linear.py:671-674) -/

def directRow [Add α] [Mul α] (w : List α) (b : Option (List α)) (x : List α) : List α :=
  let y := List.zipWith (· * ·) x w
  match b with
  | none => y
  | some b => List.zipWith (· + ·) y b

def directFwd [Add α] [Mul α] (w : List α) (b : Option (List α)) (xs : List (List α)) : List (List α) :=
  xs.map (directRow w b)

/-- SPEC: `y_i = x_i w_i + b_i`. -/
def directSpecRow [Add α] [Mul α] [Zero α] (N : Nat) (w : List α) (b : Option (List α)) (x : List α) : List α :=
  (List.range N).map fun i => vget x i * vget w i + biasAt b i

/-! ## LinearLateral (mask buffer, masked setters, linear.py:761-818) -/

/-- `1 - torch.eye(n)` -/
def eyeMask [Zero α] [One α] [Sub α] (n : Nat) : List (List α) :=
  (List.range n).map fun i => (List.range n).map fun j => (1 : α) - (if i = j then 1 else 0)

/-- element-wise product of two matrices (`value * self.mask`) -/
def hadamard [Mul α] (A B : List (List α)) : List (List α) := List.zipWith (List.zipWith (· * ·)) A B

structure Lateral (α : Type) where
  n      : Nat
  weight : List (List α)
  delay  : Option (List (List α))     -- `None` when built with `delay=None` (no `delay_` attribute)
  bias   : Option (List α)

/-- operations that change a lateral connection's mapping parameters: direct assignment through
the property setters, and an updater application, which is
`setattr(module, p, accumulator(getattr(module, p)))` (modeling.py:416) — `f` is whatever the
accumulator computes from the current value (`param + (reduce pos − reduce neg)` with the
default binding, any bounded variant otherwise). -/
inductive LOp (α : Type) where
  | setW (v : List (List α))
  | setD (v : List (List α))
  | updW (f : List (List α) → List (List α))
  | updD (f : List (List α) → List (List α))
  | setB (b : List α)

section lateral
variable [Mul α] [Zero α] [One α] [Sub α]

/-- `weight.setter`: `WeightBiasDelayMixin.weight.fset(self, value * self.mask)` -/
def Lateral.setWeight (c : Lateral α) (v : List (List α)) : Lateral α :=
  { c with weight := hadamard v (eyeMask c.n) }

/-- `delay.setter`: `… .fset(self, value * self.mask)`, a no-op without a `delay_` attribute -/
def Lateral.setDelay (c : Lateral α) (v : List (List α)) : Lateral α :=
  match c.delay with
  | none => c
  | some _ => { c with delay := some (hadamard v (eyeMask c.n)) }

def Lateral.setBias (c : Lateral α) (b : List α) : Lateral α :=
  match c.bias with
  | none => c
  | some _ => { c with bias := some b }

def Lateral.step (c : Lateral α) : LOp α → Lateral α
  | .setW v => c.setWeight v
  | .setD v => c.setDelay v
  | .updW f => c.setWeight (f c.weight)
  | .updD f => match c.delay with
      | none => c
      | some d => c.setDelay (f d)
  | .setB b => c.setBias b

/-- constructor: `weight = rand * mask`, `delay = zeros * mask` (then the initialisers, which go
through the setters and are `LOp`s). -/
def Lateral.init (n : Nat) (w0 : List (List α)) (d0 : Option (List (List α))) (b : Option (List α)) :
    Lateral α :=
  { n := n, weight := hadamard w0 (eyeMask n), delay := d0.map (hadamard · (eyeMask n)), bias := b }

def Lateral.run (c : Lateral α) (ops : List (LOp α)) : Lateral α := ops.foldl Lateral.step c

/-- `LinearLateral.forward` delegates to `LinearDense.forward` with the stored weight. -/
def Lateral.fwd [Add α] (c : Lateral α) (xs : List (List α)) : List (List α) :=
  denseFwd c.weight c.bias xs

end lateral

/-- well-formed operation: assigned values have the parameter's shape (torch broadcasting has
already been applied by `value * self.mask`), accumulators return a value of the parameter's
shape, a bias has one entry per neuron -/
def LOp.WF (n : Nat) : LOp α → Prop
  | .setW v => Shape2 v n n
  | .setD v => Shape2 v n n
  | .updW f => ∀ m, Shape2 m n n → Shape2 (f m) n n
  | .updD f => ∀ m, Shape2 m n n → Shape2 (f m) n n
  | .setB b => b.length = n

/-- SPEC: no self-connection — every diagonal entry is zero -/
def DiagZero [Zero α] (n : Nat) (m : List (List α)) : Prop := ∀ i, i < n → mget m i i = 0

/-- the invariant carried through every history of a lateral connection -/
def LatInv [Zero α] (n : Nat) (c : Lateral α) : Prop :=
  c.n = n ∧ Shape2 c.weight n n ∧ DiagZero n c.weight ∧
    (∀ d, c.delay = some d → Shape2 d n n ∧ DiagZero n d) ∧
    (∀ bv, c.bias = some bv → bv.length = n)

/-- SPEC of a masked assignment: the off-diagonal entries of `v`, zero on the diagonal. -/
def offDiag [Zero α] (n : Nat) (v : List (List α)) : List (List α) :=
  (List.range n).map fun i => (List.range n).map fun j => if i = j then 0 else mget v i j

/-- SPEC of the lateral map: `y_o = Σ_{i ≠ o} x_i V_{o,i} + b_o`. -/
def lateralSpecRow [Add α] [Mul α] [Zero α] (n : Nat) (V : List (List α)) (b : Option (List α))
    (x : List α) : List α :=
  (List.range n).map fun o => sumTo n (fun i => vget x i * (if i = o then 0 else mget V o i)) + biasAt b o

/-- matrix sum / difference used by the default accumulator: `param + (Σ pos − Σ neg)` -/
def madd [Add α] (A B : List (List α)) : List (List α) := List.zipWith (List.zipWith (· + ·)) A B
def msub [Sub α] (A B : List (List α)) : List (List α) := List.zipWith (List.zipWith (· - ·)) A B
def mzero [Zero α] (n m : Nat) : List (List α) := List.replicate n (List.replicate m 0)

/-- `Accumulator.forward` with the default reduction (`torch.sum` over the stacked parts) and
default binding `p − n` (modeling.py:196-246). `none` stands for "no part accumulated". -/
def accumulate [Add α] [Sub α] [Zero α] (n m : Nat) (pos neg : List (List (List α))) (p : List (List α)) :
    List (List α) :=
  let red (parts : List (List (List α))) := parts.foldl madd (mzero n m)
  match pos, neg with
  | [], [] => p
  | _, _ => madd p (msub (red pos) (red neg))

/-! ## Conv2D (conv.py) -/

structure Geom where
  H : Nat
  W : Nat
  C : Nat
  F : Nat
  KH : Nat
  KW : Nat
  sh : Nat
  sw : Nat
  ph : Nat
  pw : Nat
  dh : Nat
  dw : Nat
deriving Repr

/-- conv.py:146-158: `math.floor((size + 2·p − d·(k − 1) − 1) / s + 1)` (integer floor; `s > 0`). -/
def outSizeCode (size p d k s : Nat) : Int :=
  ((size : Int) + 2 * (p : Int) - (d : Int) * ((k : Int) - 1) - 1) / (s : Int) + 1

/-- SPEC of the output size: the number of window positions `o` (top-left tap at `o·s` in the
padded axis of extent `size + 2p`) whose last tap `o·s + d·(k−1)` lies inside the padded axis. -/
def outSizeSpec (size p d k s : Nat) : Nat :=
  ((List.range (size + 2 * p + 1)).filter fun o => decide (o * s + d * (k - 1) + 1 ≤ size + 2 * p)).length

def Geom.OH (g : Geom) : Nat := (outSizeCode g.H g.ph g.dh g.KH g.sh).toNat
def Geom.OW (g : Geom) : Nat := (outSizeCode g.W g.pw g.dw g.KW g.sw).toNat
def Geom.N (g : Geom) : Nat := g.C * g.KH * g.KW
def Geom.L (g : Geom) : Nat := g.OH * g.OW

section conv
variable [Zero α]

/-- the zero-padded input image, addressed in padded coordinates -/
def padGet (g : Geom) (x : List (List (List α))) (c i j : Nat) : α :=
  if g.ph ≤ i ∧ i < g.H + g.ph ∧ g.pw ≤ j ∧ j < g.W + g.pw then get3 x c (i - g.ph) (j - g.pw) else 0

/-- `F.unfold(x, kernel, dilation, padding, stride)[n, l]` with `n = (c·KH + kh)·KW + kw`,
`l = oh·OW + ow`: the padded pixel `(c, oh·sh + kh·dh, ow·sw + kw·dw)`. -/
def unfoldAt (g : Geom) (x : List (List (List α))) (n l : Nat) : α :=
  padGet g x (n / (g.KH * g.KW))
    ((l / g.OW) * g.sh + ((n / g.KW) % g.KH) * g.dh)
    ((l % g.OW) * g.sw + (n % g.KW) * g.dw)

/-- `Conv2D.like_synaptic` for one sample: `(C·KH·KW) × (OH·OW)` -/
def unfold (g : Geom) (x : List (List (List α))) : List (List α) :=
  (List.range g.N).map fun n => (List.range g.L).map fun l => unfoldAt g x n l

/-- `ein.rearrange(weight, "f c h w -> f (c h w)")` -/
def flattenKernel (K : List (List (List (List α)))) : List (List α) :=
  K.map fun kf => kf.flatten.flatten

/-- column `l` of a matrix -/
def col (B : List (List α)) (l : Nat) : List α := B.map (vget · l)

/-- `torch.matmul(A, B)`, `A : F × N`, `B : N × L` -/
def matmul [Add α] [Mul α] (L : Nat) (A B : List (List α)) : List (List α) :=
  A.map fun row => (List.range L).map fun l => dot row (col B l)

/-- `"(oh ow) -> oh ow"` -/
def unflat (OH OW : Nat) (row : List α) : List (List α) :=
  (List.range OH).map fun oh => (row.drop (oh * OW)).take OW

/-- `res + rearrange(bias, "f -> 1 f 1 1")` -/
def addBias [Add α] (y : List (List (List α))) (b : Option (List α)) : List (List (List α)) :=
  match b with
  | none => y
  | some b => List.zipWith (fun plane bf => plane.map (·.map (· + bf))) y b

/-- `Conv2D.forward` without delay for one sample (conv.py:552-578). -/
def convFwd [Add α] [Mul α] (g : Geom) (K : List (List (List (List α)))) (b : Option (List α))
    (x : List (List (List α))) : List (List (List α)) :=
  let res := unfold g x                              -- synapse current, N × L
  let kernel := flattenKernel K                      -- F × N
  let y := matmul g.L kernel res                     -- F × L
  addBias (y.map (unflat g.OH g.OW)) b

/-- SPEC: direct 2-D cross-correlation
`out[f,oh,ow] = Σ_{c,kh,kw} x_pad[c, oh·sh + kh·dh, ow·sw + kw·dw] · K[f,c,kh,kw] + b[f]`. -/
def convSpecAt [Add α] [Mul α] (g : Geom) (K : List (List (List (List α)))) (b : Option (List α))
    (x : List (List (List α))) (f oh ow : Nat) : α :=
  sumTo g.C (fun c => sumTo g.KH (fun kh => sumTo g.KW (fun kw =>
    padGet g x c (oh * g.sh + kh * g.dh) (ow * g.sw + kw * g.dw) * get4 K f c kh kw))) + biasAt b f

def convSpec [Add α] [Mul α] (g : Geom) (K : List (List (List (List α)))) (b : Option (List α))
    (x : List (List (List α))) : List (List (List α)) :=
  (List.range g.F).map fun f => (List.range g.OH).map fun oh => (List.range g.OW).map fun ow =>
    convSpecAt g K b x f oh ow

/-- `F.fold(data, (H, W), kernel, dilation, padding, stride)[c, i, j]` (unpadded coordinates):
the sum of all column entries that `unfold` reads from padded pixel `(c, i + ph, j + pw)`. -/
def foldAt [Add α] (g : Geom) (data : List (List α)) (c i j : Nat) : α :=
  sumTo g.KH fun kh => sumTo g.KW fun kw => sumTo g.OH fun oh => sumTo g.OW fun ow =>
    if oh * g.sh + kh * g.dh = i + g.ph ∧ ow * g.sw + kw * g.dw = j + g.pw
    then mget data ((c * g.KH + kh) * g.KW + kw) (oh * g.OW + ow) else 0

/-- `F.fold(ones_like(data), …)[c, i, j]` as a natural number: how many windows read the pixel. -/
def coverCount (g : Geom) (i j : Nat) : Nat :=
  sumTo g.KH fun kh => sumTo g.KW fun kw => sumTo g.OH fun oh => sumTo g.OW fun ow =>
    if oh * g.sh + kh * g.dh = i + g.ph ∧ ow * g.sw + kw * g.dw = j + g.pw then 1 else 0

def fold [Add α] (g : Geom) (data : List (List α)) : List (List (List α)) :=
  (List.range g.C).map fun c => (List.range g.H).map fun i => (List.range g.W).map fun j => foldAt g data c i j

/-- SPEC of "the connection reads input position (i, j)": some window tap lands on it. -/
def covered (g : Geom) (i j : Nat) : Bool :=
  (List.range g.OH).any fun oh => (List.range g.KH).any fun kh =>
    (List.range g.OW).any fun ow => (List.range g.KW).any fun kw =>
      decide (oh * g.sh + kh * g.dh = i + g.ph ∧ ow * g.sw + kw * g.dw = j + g.pw)

end conv

/-- `Conv2D.like_input` = `fold(data) / fold(ones)` over `Int` (exact division; `none` where no
window reads the pixel — `0/0 = NaN` in torch — or where the quotient is not integral). -/
def likeInputInt (g : Geom) (data : List (List Int)) : List (List (List (Option Int))) :=
  (List.range g.C).map fun c => (List.range g.H).map fun i => (List.range g.W).map fun j =>
    let n := coverCount g i j
    let s := foldAt g data c i j
    if n = 0 then none else if s % (n : Int) = 0 then some (s / (n : Int)) else none

/-! ## `like_synaptic` / `like_input` of the linear connections on (shape, row-major data) -/

def prod (s : List Nat) : Nat := s.foldl (· * ·) 1

/-- `"b ... -> b (...)"` -/
def likeSynLinear (t : List Nat × List α) : List Nat × List α := ([t.1.headD 0, prod (t.1.drop 1)], t.2)

/-- `data.view(-1, *inshape)` -/
def likeInputLinear (inshape : List Nat) (t : List Nat × List α) : List Nat × List α :=
  ((t.2.length / prod inshape) :: inshape, t.2)

/-! ## receptive-field reshapes as index maps on row-major flat data -/

/-- `LinearDense.presyn_receptive` `"b i ... -> b (...) i 1"`: input `B × M × R` (`R = 1` when
there is no trailing axis), output `B × R × M × 1` with `out[b,r,i,0] = in[b,i,r]`. -/
def presynDense [Zero α] (B M R : Nat) (d : List α) : List Nat × List α :=
  ([B, R, M, 1], (List.range (B * R * M)).map fun k =>
    let b := k / (R * M); let r := (k / M) % R; let i := k % M
    vget d ((b * M + i) * R + r))

/-- `LinearDense.postsyn_receptive` `"b ... -> b (...) 1 1"` -/
def postsynDense (B N : Nat) (d : List α) : List Nat × List α := ([B, N, 1, 1], d)

/-- `LinearDirect.presyn_receptive` `"b n ... -> b n (...)"` (`R = 1` when no trailing axis) -/
def presynDirect (B N R : Nat) (d : List α) : List Nat × List α := ([B, N, R], d)

/-- `LinearDirect.postsyn_receptive` `"b ... -> b (...) 1"` -/
def postsynDirect (B N : Nat) (d : List α) : List Nat × List α := ([B, N, 1], d)

/-- `Conv2D.presyn_receptive` `"b (c kh kw) l ... -> b (...) c kh kw l"`: input `B × N × L × R`,
output `B × R × C × KH × KW × L` with `out[b,r,n,l] = in[b,n,l,r]`. -/
def presynConv [Zero α] (g : Geom) (B R : Nat) (d : List α) : List Nat × List α :=
  ([B, R, g.C, g.KH, g.KW, g.L], (List.range (B * R * g.N * g.L)).map fun k =>
    let l := k % g.L; let n := (k / g.L) % g.N; let r := (k / (g.L * g.N)) % R
    let b := k / (g.L * g.N * R)
    vget d (((b * g.N + n) * g.L + l) * R + r))

/-- `Conv2D.postsyn_receptive` `"b f oh ow -> b f 1 1 1 (oh ow)"` -/
def postsynConv (g : Geom) (B : Nat) (d : List α) : List Nat × List α := ([B, g.F, 1, 1, 1, g.L], d)

/-- torch broadcasting of two shapes of equal rank (`none` if incompatible) -/
def bcast : List Nat → List Nat → Option (List Nat)
  | [], [] => some []
  | a :: as, b :: bs =>
    match bcast as bs with
    | none => none
    | some r => if a = b then some (a :: r) else if a = 1 then some (b :: r) else if b = 1 then some (a :: r) else none
  | _, _ => none

/-- the shape a receptive view must be broadcastable with: `B × weight.shape × L` — drop the batch
axis and the trailing axis. -/
def inner (s : List Nat) : List Nat := (s.drop 1).dropLast

end InfernoVerif.Conn
