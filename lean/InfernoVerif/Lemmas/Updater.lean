import InfernoVerif.Model.Updater
import Mathlib.Algebra.Group.Basic
import Mathlib.Tactic.Ring
import Mathlib.Tactic.Linarith
import Mathlib.Analysis.SpecialFunctions.Pow.Real
/-!
Helper lemmas for C10 (`Props/C10.lean`): cache coherence and the refinement of the
code-shaped accumulator / updater / module machine by the specification machine.
-/
namespace InfernoVerif.Updater
set_option linter.unusedSectionVars false

/-! ### Invariants -/
section Inv
variable {α : Type}

/-- A filled cache cell holds `reduce` of the *current* list of parts (or `None` when empty). -/
def Accumulator.Coherent (a : Accumulator α) : Prop :=
  (∀ v, a.posCache = some v → v = calcParts a.reduce a.pos) ∧
  (∀ v, a.negCache = some v → v = calcParts a.reduce a.neg)

/-- The decomposition a full bounding function is bundled with is the function's meaning:
`fn x p n = ub x p − lb x n`, nothing in gives nothing out; or `fn` raises `TypeError`. -/
def FullBound.Sound [AddGroup α] (b : FullBound α) : Prop :=
  match b.halves? with
  | some (ub, lb) =>
    (∀ x p n, b.fn x p n = .ok (ub x p - lb x n)) ∧ (∀ x, ub x 0 = 0) ∧ (∀ x, lb x 0 = 0)
  | none => ∀ x p n, b.fn x p n = .error .TypeError

def Bind.Sound [AddGroup α] : Bind α → Prop
  | .full b => b.Sound
  | .halves _ _ => True

def Accumulator.Inv [AddGroup α] (a : Accumulator α) : Prop := a.Coherent ∧ a.bind.Sound

def Op.Sound [AddGroup α] : Op α → Prop
  | .fullbound _ (some b) => b.Sound
  | _ => True

end Inv

/-! ### Accumulator methods: abstraction and invariant -/
section AccLemmas
variable {α : Type}

@[simp] theorem getPos_pos (a : Accumulator α) : a.getPos.1.pos = a.pos := by
  unfold Accumulator.getPos; split <;> rfl
@[simp] theorem getPos_neg (a : Accumulator α) : a.getPos.1.neg = a.neg := by
  unfold Accumulator.getPos; split <;> rfl
@[simp] theorem getPos_reduce (a : Accumulator α) : a.getPos.1.reduce = a.reduce := by
  unfold Accumulator.getPos; split <;> rfl
@[simp] theorem getPos_bind (a : Accumulator α) : a.getPos.1.bind = a.bind := by
  unfold Accumulator.getPos; split <;> rfl
@[simp] theorem getPos_negCache (a : Accumulator α) : a.getPos.1.negCache = a.negCache := by
  unfold Accumulator.getPos; split <;> rfl
@[simp] theorem getNeg_pos (a : Accumulator α) : a.getNeg.1.pos = a.pos := by
  unfold Accumulator.getNeg; split <;> rfl
@[simp] theorem getNeg_neg (a : Accumulator α) : a.getNeg.1.neg = a.neg := by
  unfold Accumulator.getNeg; split <;> rfl
@[simp] theorem getNeg_reduce (a : Accumulator α) : a.getNeg.1.reduce = a.reduce := by
  unfold Accumulator.getNeg; split <;> rfl
@[simp] theorem getNeg_bind (a : Accumulator α) : a.getNeg.1.bind = a.bind := by
  unfold Accumulator.getNeg; split <;> rfl
@[simp] theorem getNeg_posCache (a : Accumulator α) : a.getNeg.1.posCache = a.posCache := by
  unfold Accumulator.getNeg; split <;> rfl

/-- what the `pos` getter returns, given coherence -/
theorem getPos_val (a : Accumulator α) (h : a.Coherent) :
    a.getPos.2 = calcParts a.reduce a.pos := by
  unfold Accumulator.getPos
  split
  · next v hv => exact h.1 v hv
  · rfl

theorem getNeg_val (a : Accumulator α) (h : a.Coherent) :
    a.getNeg.2 = calcParts a.reduce a.neg := by
  unfold Accumulator.getNeg
  split
  · next v hv => exact h.2 v hv
  · rfl

theorem getPos_coherent (a : Accumulator α) (h : a.Coherent) : a.getPos.1.Coherent := by
  unfold Accumulator.getPos
  split
  · exact h
  · next hc =>
    refine ⟨?_, ?_⟩
    · intro v hv; simp only [Option.some.injEq] at hv; exact hv.symm
    · intro v hv; exact h.2 v hv

theorem getNeg_coherent (a : Accumulator α) (h : a.Coherent) : a.getNeg.1.Coherent := by
  unfold Accumulator.getNeg
  split
  · exact h
  · next hc =>
    refine ⟨?_, ?_⟩
    · intro v hv; exact h.1 v hv
    · intro v hv; simp only [Option.some.injEq] at hv; exact hv.symm

theorem setPos_coherent (a : Accumulator α) (h : a.Coherent) (v : Option α) :
    (a.setPos v).Coherent := by
  cases v with
  | none => exact h
  | some x => exact ⟨by intro v hv; simp [Accumulator.setPos] at hv, by intro v hv; exact h.2 v hv⟩

theorem setNeg_coherent (a : Accumulator α) (h : a.Coherent) (v : Option α) :
    (a.setNeg v).Coherent := by
  cases v with
  | none => exact h
  | some x => exact ⟨by intro v hv; exact h.1 v hv, by intro v hv; simp [Accumulator.setNeg] at hv⟩

theorem delPos_coherent (a : Accumulator α) (h : a.Coherent) : a.delPos.Coherent :=
  ⟨by intro v hv; simp [Accumulator.delPos] at hv, by intro v hv; exact h.2 v hv⟩

theorem delNeg_coherent (a : Accumulator α) (h : a.Coherent) : a.delNeg.Coherent :=
  ⟨by intro v hv; exact h.1 v hv, by intro v hv; simp [Accumulator.delNeg] at hv⟩

theorem clear_coherent (a : Accumulator α) : a.clear.Coherent :=
  ⟨by intro v hv; simp [Accumulator.clear, Accumulator.delPos, Accumulator.delNeg] at hv,
   by intro v hv; simp [Accumulator.clear, Accumulator.delPos, Accumulator.delNeg] at hv⟩

theorem reduction_coherent [Add α] [Zero α] (a : Accumulator α) (fn : Option (List α → α)) :
    (a.reduction fn).Coherent :=
  ⟨by intro v hv; simp [Accumulator.reduction] at hv, by intro v hv; simp [Accumulator.reduction] at hv⟩

end AccLemmas

section AccRefine
variable {α : Type} [AddGroup α]

theorem unbounded_sound : (FullBound.unbounded : FullBound α).Sound := by
  simp [FullBound.Sound, FullBound.unbounded]

theorem new_inv : (Accumulator.new : Accumulator α).Inv :=
  ⟨⟨by intro v hv; simp [Accumulator.new] at hv, by intro v hv; simp [Accumulator.new] at hv⟩,
   unbounded_sound⟩

theorem new_abs : (Accumulator.new : Accumulator α).abs = SAcc.new := by
  simp [Accumulator.new, Accumulator.abs, SAcc.new, FullBound.unbounded]

theorem getPos_inv (a : Accumulator α) (h : a.Inv) : a.getPos.1.Inv :=
  ⟨getPos_coherent a h.1, by rw [getPos_bind]; exact h.2⟩
theorem getNeg_inv (a : Accumulator α) (h : a.Inv) : a.getNeg.1.Inv :=
  ⟨getNeg_coherent a h.1, by rw [getNeg_bind]; exact h.2⟩
theorem getPos_abs (a : Accumulator α) : a.getPos.1.abs = a.abs := by
  simp [Accumulator.abs]
theorem getNeg_abs (a : Accumulator α) : a.getNeg.1.abs = a.abs := by
  simp [Accumulator.abs]

theorem setPos_inv (a : Accumulator α) (h : a.Inv) (v : Option α) : (a.setPos v).Inv :=
  ⟨setPos_coherent a h.1 v, by cases v <;> exact h.2⟩
theorem setNeg_inv (a : Accumulator α) (h : a.Inv) (v : Option α) : (a.setNeg v).Inv :=
  ⟨setNeg_coherent a h.1 v, by cases v <;> exact h.2⟩
theorem setPos_abs (a : Accumulator α) (v : Option α) : (a.setPos v).abs = a.abs.setPos v := by
  cases v <;> rfl
theorem setNeg_abs (a : Accumulator α) (v : Option α) : (a.setNeg v).abs = a.abs.setNeg v := by
  cases v <;> rfl
theorem setAcc_inv (a : Accumulator α) (h : a.Inv) (v : SetVal α) : (a.setAcc v).Inv := by
  cases v with
  | one v => exact setPos_inv a h v
  | pair vp vn => exact setNeg_inv _ (setPos_inv a h vp) vn
theorem setAcc_abs (a : Accumulator α) (v : SetVal α) : (a.setAcc v).abs = a.abs.setAcc v := by
  cases v with
  | one v => exact setPos_abs a v
  | pair vp vn => simp [Accumulator.setAcc, SAcc.setAcc, setNeg_abs, setPos_abs]

theorem delPos_inv (a : Accumulator α) (h : a.Inv) : a.delPos.Inv := ⟨delPos_coherent a h.1, h.2⟩
theorem delNeg_inv (a : Accumulator α) (h : a.Inv) : a.delNeg.Inv := ⟨delNeg_coherent a h.1, h.2⟩
theorem clear_inv (a : Accumulator α) (h : a.Inv) : a.clear.Inv := ⟨clear_coherent a, h.2⟩
theorem clear_abs (a : Accumulator α) : a.clear.abs = a.abs.clear := rfl
theorem reduction_inv (a : Accumulator α) (h : a.Inv) (fn : Option (List α → α)) :
    (a.reduction fn).Inv := ⟨reduction_coherent a fn, h.2⟩

theorem upperbound_inv (a : Accumulator α) (h : a.Inv) (b : Option (α → α → α)) :
    (a.upperbound b).Inv := ⟨h.1, trivial⟩
theorem lowerbound_inv (a : Accumulator α) (h : a.Inv) (b : Option (α → α → α)) :
    (a.lowerbound b).Inv := ⟨h.1, trivial⟩
theorem fullbound_inv (a : Accumulator α) (h : a.Inv) (b : Option (FullBound α))
    (hb : ∀ b', b = some b' → b'.Sound) : (a.fullbound b).Inv := by
  refine ⟨h.1, ?_⟩
  cases b with
  | none => exact unbounded_sound
  | some b' => exact hb b' rfl

theorem asHalves_abs (a : Accumulator α) : a.abs.asHalves = a.bind.asHalves := by
  cases hb : a.bind <;> simp [Accumulator.abs, SAcc.asHalves, Bind.asHalves, hb]

theorem upperbound_abs (a : Accumulator α) (b : Option (α → α → α)) :
    (a.upperbound b).abs =
      { a.abs with isFull := false,
                   halves? := some ((match b with | some f => f | none => fun _ p => p), a.abs.asHalves.2) } := by
  rw [asHalves_abs]; rfl

theorem lowerbound_abs (a : Accumulator α) (b : Option (α → α → α)) :
    (a.lowerbound b).abs =
      { a.abs with isFull := false,
                   halves? := some (a.abs.asHalves.1, (match b with | some f => f | none => fun _ n => n)) } := by
  rw [asHalves_abs]; rfl

theorem fullbound_abs (a : Accumulator α) (b : Option (FullBound α)) :
    (a.fullbound b).abs =
      { a.abs with isFull := true,
                   halves? := (match b with | some b => b.halves? | none => some (fun _ p => p, fun _ n => n)) } := by
  cases b <;> rfl

/-- `Accumulator.update` computes THE FORMULA of the specification. -/
theorem update_refines (a : Accumulator α) (h : a.Inv) (x : α) :
    (a.update x).2 = a.abs.update x ∧ (a.update x).1.abs = a.abs ∧ (a.update x).1.Inv := by
  have hc1 := getPos_coherent a h.1
  have hp := getPos_val a h.1
  have hn := getNeg_val a.getPos.1 hc1
  simp only [getPos_reduce, getPos_neg] at hn
  refine ⟨?_, ?_, ?_⟩
  · unfold Accumulator.update SAcc.update
    simp only [hp, hn, getNeg_bind, getPos_bind]
    have hb := h.2
    cases hP : calcParts a.reduce a.pos <;> cases hN : calcParts a.reduce a.neg <;>
      simp only [Accumulator.abs, hP, hN] <;>
      cases hbind : a.bind with
      | halves u l => simp [sub_zero, zero_sub]
      | full b =>
        rw [hbind] at hb
        simp only [Bind.Sound, FullBound.Sound] at hb
        cases hh : b.halves? with
        | none => rw [hh] at hb; simp [hb, hh, Except.map]
        | some ul =>
          obtain ⟨ub, lb⟩ := ul
          rw [hh] at hb
          simp [hb.1, hb.2.1, hb.2.2, hh, Except.map]
  · simp [Accumulator.update, Accumulator.abs]
  · exact getNeg_inv _ (getPos_inv a h)

theorem forward_refines (a : Accumulator α) (h : a.Inv) (x : α) :
    (a.forward x).2 = a.abs.apply x ∧ (a.forward x).1.abs = a.abs ∧ (a.forward x).1.Inv := by
  obtain ⟨h1, h2, h3⟩ := update_refines a h x
  refine ⟨?_, h2, h3⟩
  unfold Accumulator.forward SAcc.apply
  simp only [h1]

end AccRefine

/-! ### Association lists -/
section AList
variable {β γ : Type}

theorem alookup_map (l : List (String × β)) (f : β → γ) (k : String) :
    alookup (l.map fun pa => (pa.1, f pa.2)) k = (alookup l k).map f := by
  induction l with
  | nil => rfl
  | cons hd t ih =>
    obtain ⟨k', v⟩ := hd
    simp only [List.map_cons, alookup]
    split <;> simp_all

theorem alookup_mem {l : List (String × β)} {k : String} {v : β} (h : alookup l k = some v) :
    (k, v) ∈ l := by
  induction l with
  | nil => simp [alookup] at h
  | cons hd t ih =>
    obtain ⟨k', v'⟩ := hd
    simp only [alookup] at h
    split at h
    · next hk => simp only [Option.some.injEq] at h; subst hk; subst h; exact List.mem_cons_self
    · exact List.mem_cons_of_mem _ (ih h)

theorem amodify_map (l : List (String × β)) (k : String) (g : β → β) (g' : γ → γ) (f : β → γ)
    (h : ∀ pa ∈ l, f (g pa.2) = g' (f pa.2)) :
    (amodify l k g).map (fun pa => (pa.1, f pa.2)) = amodify (l.map fun pa => (pa.1, f pa.2)) k g' := by
  induction l with
  | nil => rfl
  | cons hd t ih =>
    obtain ⟨k', v⟩ := hd
    simp only [amodify, List.map_cons]
    split
    · simp only [List.map_cons]; rw [h (k', v) List.mem_cons_self]
    · simp only [List.map_cons]; rw [ih (fun pa hpa => h pa (List.mem_cons_of_mem _ hpa))]

theorem aset_map_same (l : List (String × β)) (k : String) (v v' : β) (f : β → γ)
    (h : alookup l k = some v) (hv : f v' = f v) :
    (aset l k v').map (fun pa => (pa.1, f pa.2)) = l.map (fun pa => (pa.1, f pa.2)) := by
  induction l with
  | nil => rfl
  | cons hd t ih =>
    obtain ⟨k', w⟩ := hd
    simp only [aset, amodify, alookup] at h ⊢
    split
    · next hk => simp only [hk, if_true, Option.some.injEq] at h; subst h; simp [hv]
    · next hk => simp only [hk, if_false] at h; simp only [List.map_cons]; rw [← ih h]; rfl

theorem amodify_forall (P : β → Prop) (l : List (String × β)) (k : String) (g : β → β)
    (hl : ∀ pa ∈ l, P pa.2) (hg : ∀ v, P v → P (g v)) : ∀ pa ∈ amodify l k g, P pa.2 := by
  induction l with
  | nil => intro pa hpa; simp [amodify] at hpa
  | cons hd t ih =>
    obtain ⟨k', v⟩ := hd
    intro pa hpa
    simp only [amodify] at hpa
    split at hpa
    · rcases List.mem_cons.mp hpa with rfl | hm
      · exact hg v (hl (k', v) List.mem_cons_self)
      · exact hl pa (List.mem_cons_of_mem _ hm)
    · rcases List.mem_cons.mp hpa with rfl | hm
      · exact hl (k', v) List.mem_cons_self
      · exact ih (fun pa hpa => hl pa (List.mem_cons_of_mem _ hpa)) pa hm

theorem aset_forall (P : β → Prop) (l : List (String × β)) (k : String) (v : β)
    (hl : ∀ pa ∈ l, P pa.2) (hv : P v) : ∀ pa ∈ aset l k v, P pa.2 :=
  amodify_forall P l k _ hl (fun _ _ => hv)

/-- assigning the value already stored changes nothing -/
theorem aset_self (l : List (String × β)) (k : String) (v : β) (h : alookup l k = some v) :
    aset l k v = l := by
  induction l with
  | nil => rfl
  | cons hd t ih =>
    obtain ⟨k', w⟩ := hd
    simp only [aset, amodify, alookup] at h ⊢
    split
    · next hk => simp only [hk, if_true, Option.some.injEq] at h; rw [h]
    · next hk => simp only [hk, if_false] at h; rw [show amodify t k (fun _ => v) = aset t k v from rfl, ih h]

end AList

/-! ### Updater / module level -/
section ModRefine
variable {α : Type} [AddGroup α]

/-- abstraction of the accumulator dictionary -/
def absAccs (l : List (String × Accumulator α)) : List (String × SAcc α) :=
  l.map fun pa => (pa.1, pa.2.abs)

def AccsInv (l : List (String × Accumulator α)) : Prop := ∀ pa ∈ l, pa.2.Inv

/-- every accumulator of the module's updater is cache-coherent with a sound `bind` -/
def MInv (m : Module α) : Prop := ∀ u, m.updater = some u → AccsInv u.accs

theorem mabs_some (ps : List (String × α)) (u : Updater α) :
    mabs ⟨ps, some u⟩ = ⟨ps, some (absAccs u.accs)⟩ := rfl

theorem absAccs_keys (l : List (String × Accumulator α)) :
    (absAccs l).map (·.1) = l.map (·.1) := by
  simp [absAccs, List.map_map, Function.comp_def]

theorem forwardLoop_refines (ps : List String) :
    ∀ (u : Updater α) (mod : List (String × α)), AccsInv u.accs →
      ((u.forwardLoop mod ps).2.1, (u.forwardLoop mod ps).2.2) = sforwardLoop (absAccs u.accs) mod ps ∧
      absAccs (u.forwardLoop mod ps).1.accs = absAccs u.accs ∧
      AccsInv (u.forwardLoop mod ps).1.accs := by
  induction ps with
  | nil => intro u mod h; exact ⟨rfl, rfl, h⟩
  | cons p ps ih =>
    intro u mod h
    unfold Updater.forwardLoop sforwardLoop
    rw [absAccs, alookup_map]
    cases ha : alookup u.accs p with
    | none => exact ⟨rfl, rfl, h⟩
    | some acc =>
      simp only [Option.map_some]
      cases hx : alookup mod p with
      | none => exact ⟨rfl, rfl, h⟩
      | some x =>
        have hacc : acc.Inv := h (p, acc) (alookup_mem ha)
        obtain ⟨f1, f2, f3⟩ := forward_refines acc hacc x
        have habs : absAccs (aset u.accs p (acc.forward x).1) = absAccs u.accs :=
          aset_map_same u.accs p acc _ Accumulator.abs ha f2
        have hinv : AccsInv (aset u.accs p (acc.forward x).1) :=
          aset_forall Accumulator.Inv u.accs p _ h f3
        simp only [f1]
        cases hr : acc.abs.apply x with
        | error e => exact ⟨rfl, habs, hinv⟩
        | ok x' =>
          simp only
          obtain ⟨i1, i2, i3⟩ := ih ⟨aset u.accs p (acc.forward x).1⟩ (aset mod p x') hinv
          simp only [habs] at i1 i2
          exact ⟨i1, i2, i3⟩

theorem onAcc_refines (m : Module α) (h : MInv m) (p : String)
    (f : Accumulator α → Accumulator α) (g : SAcc α → SAcc α)
    (hfg : ∀ a, a.Inv → (f a).abs = g a.abs) (hinv : ∀ a, a.Inv → (f a).Inv) :
    mabs (m.onAcc p f).1 = ((mabs m).onAcc p g).1 ∧ (m.onAcc p f).2 = ((mabs m).onAcc p g).2 ∧
      MInv (m.onAcc p f).1 := by
  obtain ⟨ps, u⟩ := m
  cases u with
  | none => exact ⟨rfl, rfl, h⟩
  | some u =>
    have hu : AccsInv u.accs := h u rfl
    simp only [Module.onAcc, SModule.onAcc, mabs_some]
    rw [absAccs, alookup_map]
    cases ha : alookup u.accs p with
    | none => exact ⟨rfl, rfl, h⟩
    | some a =>
      simp only [Option.map_some, mabs_some]
      refine ⟨?_, trivial, ?_⟩
      · rw [absAccs, amodify_map u.accs p f g Accumulator.abs (fun pa hpa => hfg pa.2 (hu pa hpa))]
      · intro u' hu'
        simp only [Option.some.injEq] at hu'
        subst hu'
        exact amodify_forall Accumulator.Inv u.accs p f hu hinv

theorem readAcc_refines (m : Module α) (h : MInv m) (p : String)
    (f : Accumulator α → Accumulator α × Option α) (val : SAcc α → Option α)
    (hval : ∀ a, a.Inv → (f a).2 = val a.abs) (habs : ∀ a, (f a).1.abs = a.abs)
    (hinv : ∀ a, a.Inv → (f a).1.Inv) :
    mabs (m.readAcc p f).1 = mabs m ∧
      (m.readAcc p f).2 =
        (match (mabs m).updater with
         | none => Out.unsupported
         | some u => match alookup u p with
           | none => Out.unsupported
           | some a => Out.val (val a)) ∧
      MInv (m.readAcc p f).1 := by
  obtain ⟨ps, u⟩ := m
  cases u with
  | none => exact ⟨rfl, rfl, h⟩
  | some u =>
    have hu : AccsInv u.accs := h u rfl
    simp only [Module.readAcc, mabs_some]
    rw [absAccs, alookup_map]
    cases ha : alookup u.accs p with
    | none => exact ⟨rfl, rfl, h⟩
    | some a =>
      have hai : a.Inv := hu (p, a) (alookup_mem ha)
      simp only [Option.map_some, mabs_some]
      refine ⟨?_, by rw [hval a hai], ?_⟩
      · rw [show absAccs (aset u.accs p (f a).1) = absAccs u.accs from
          aset_map_same u.accs p a _ Accumulator.abs ha (habs a)]
        rfl
      · intro u' hu'
        simp only [Option.some.injEq] at hu'
        subst hu'
        exact aset_forall Accumulator.Inv u.accs p _ hu (hinv a hai)

theorem clear_all_refines (l : List (String × Accumulator α)) :
    absAccs (l.map fun pa => (pa.1, pa.2.clear)) = (absAccs l).map fun pa => (pa.1, pa.2.clear) := by
  simp [absAccs, List.map_map, Function.comp_def, clear_abs]

theorem clear_all_inv (l : List (String × Accumulator α)) (h : AccsInv l) :
    AccsInv (l.map fun pa => (pa.1, pa.2.clear)) := by
  intro pa hpa
  obtain ⟨qa, hq, rfl⟩ := List.mem_map.mp hpa
  exact clear_inv _ (h qa hq)

theorem update_refines_mod (m : Module α) (h : MInv m) (c : Bool) :
    mabs (m.update c).1 = (sstep (mabs m) (.update c)).1 ∧ (m.update c).2 = (sstep (mabs m) (.update c)).2 ∧
      MInv (m.update c).1 := by
  obtain ⟨ps, u⟩ := m
  cases u with
  | none => exact ⟨rfl, rfl, h⟩
  | some u =>
    have hu : AccsInv u.accs := h u rfl
    obtain ⟨f1, f2, f3⟩ := forwardLoop_refines (u.accs.map (·.1)) u ps hu
    have hkeys : (if ([] : List String).isEmpty then u.accs.map (·.1) else []) = u.accs.map (·.1) := rfl
    simp only [Module.update, Updater.forward, hkeys, sstep, mabs_some, absAccs_keys]
    rw [← f1]
    simp only
    cases he : (u.forwardLoop ps (u.accs.map (·.1))).2.2 with
    | some e =>
      refine ⟨by rw [mabs_some, f2], rfl, ?_⟩
      intro u' hu'; simp only [Option.some.injEq] at hu'; subst hu'; exact f3
    | none =>
      cases c with
      | false =>
        refine ⟨by simp [mabs_some, f2], rfl, ?_⟩
        intro u' hu'; simp only [Bool.false_eq_true, if_false, Option.some.injEq] at hu'; subst hu'; exact f3
      | true =>
        refine ⟨by simp [mabs_some, Updater.clear, clear_all_refines, f2], rfl, ?_⟩
        intro u' hu'; simp only [if_true, Option.some.injEq] at hu'; subst hu'
        exact clear_all_inv _ f3

theorem updatesome_refines (c : Bool) (ps : List String) :
    ∀ (m : Module α), MInv m →
      mabs (m.updatesome c ps).1 = ((mabs m).updatesome c ps).1 ∧
      (m.updatesome c ps).2 = ((mabs m).updatesome c ps).2 ∧ MInv (m.updatesome c ps).1 := by
  induction ps with
  | nil => intro m h; exact ⟨rfl, rfl, h⟩
  | cons p ps ih =>
    intro m h
    obtain ⟨prm, u⟩ := m
    cases u with
    | none => exact ⟨rfl, rfl, h⟩
    | some u =>
      have hu : AccsInv u.accs := h u rfl
      obtain ⟨f1, f2, f3⟩ := forwardLoop_refines [p] u prm hu
      have hkeys : (if [p].isEmpty then u.accs.map (·.1) else [p]) = [p] := rfl
      simp only [Module.updatesome, SModule.updatesome, Updater.forward, hkeys, mabs_some]
      rw [← f1]
      simp only
      cases he : (u.forwardLoop prm [p]).2.2 with
      | some e =>
        refine ⟨by rw [mabs_some, f2], rfl, ?_⟩
        intro u' hu'; simp only [Option.some.injEq] at hu'; subst hu'; exact f3
      | none =>
        simp only
        have hnext : MInv (⟨(u.forwardLoop prm [p]).2.1,
            some (if c then ⟨amodify (u.forwardLoop prm [p]).1.accs p Accumulator.clear⟩
                  else (u.forwardLoop prm [p]).1)⟩ : Module α) := by
          intro u' hu'
          simp only [Option.some.injEq] at hu'
          subst hu'
          cases c with
          | false => exact f3
          | true => exact amodify_forall Accumulator.Inv _ p _ f3 (fun a ha => clear_inv a ha)
        have habs : mabs (⟨(u.forwardLoop prm [p]).2.1,
            some (if c then ⟨amodify (u.forwardLoop prm [p]).1.accs p Accumulator.clear⟩
                  else (u.forwardLoop prm [p]).1)⟩ : Module α) =
            ⟨(u.forwardLoop prm [p]).2.1,
              some (if c then amodify (absAccs u.accs) p SAcc.clear else absAccs u.accs)⟩ := by
          cases c with
          | false => simp [mabs_some, f2]
          | true =>
            simp only [if_true, mabs_some]
            rw [absAccs, amodify_map _ p Accumulator.clear SAcc.clear Accumulator.abs
              (fun pa _ => clear_abs pa.2)]
            rw [show (List.map (fun pa => (pa.1, pa.2.abs)) (u.forwardLoop prm [p]).1.accs)
              = absAccs (u.forwardLoop prm [p]).1.accs from rfl, f2]
        obtain ⟨i1, i2, i3⟩ := ih _ hnext
        rw [habs] at i1 i2
        exact ⟨i1, i2, i3⟩

end ModRefine

/-! ### Cache coherence alone (no hypothesis on the configured bounding functions) -/
section Coh
variable {α : Type} [Add α] [Sub α] [Neg α] [Zero α]

def AccsCoh (l : List (String × Accumulator α)) : Prop := ∀ pa ∈ l, pa.2.Coherent

/-- every accumulator of the module's updater has coherent caches -/
def MCoh (m : Module α) : Prop := ∀ u, m.updater = some u → AccsCoh u.accs

theorem update_coherent (a : Accumulator α) (h : a.Coherent) (x : α) : (a.update x).1.Coherent :=
  getNeg_coherent _ (getPos_coherent a h)

theorem forward_coherent (a : Accumulator α) (h : a.Coherent) (x : α) : (a.forward x).1.Coherent :=
  update_coherent a h x

theorem new_coherent : (Accumulator.new : Accumulator α).Coherent :=
  ⟨by intro v hv; simp [Accumulator.new] at hv, by intro v hv; simp [Accumulator.new] at hv⟩

theorem setAcc_coherent (a : Accumulator α) (h : a.Coherent) (v : SetVal α) : (a.setAcc v).Coherent := by
  cases v with
  | one v => exact setPos_coherent a h v
  | pair vp vn => exact setNeg_coherent _ (setPos_coherent a h vp) vn

theorem forwardLoop_coh (ps : List String) :
    ∀ (u : Updater α) (mod : List (String × α)), AccsCoh u.accs → AccsCoh (u.forwardLoop mod ps).1.accs := by
  induction ps with
  | nil => intro u mod h; exact h
  | cons p ps ih =>
    intro u mod h
    unfold Updater.forwardLoop
    cases ha : alookup u.accs p with
    | none => exact h
    | some acc =>
      cases hx : alookup mod p with
      | none => exact h
      | some x =>
        have hc : AccsCoh (aset u.accs p (acc.forward x).1) :=
          aset_forall Accumulator.Coherent u.accs p _ h (forward_coherent acc (h (p, acc) (alookup_mem ha)) x)
        simp only
        cases hr : (acc.forward x).2 with
        | error e => exact hc
        | ok x' => exact ih ⟨aset u.accs p (acc.forward x).1⟩ (aset mod p x') hc

theorem clear_all_coh (l : List (String × Accumulator α)) : AccsCoh (l.map fun pa => (pa.1, pa.2.clear)) := by
  intro pa hpa
  obtain ⟨qa, _, rfl⟩ := List.mem_map.mp hpa
  exact clear_coherent _

theorem update_coh (m : Module α) (h : MCoh m) (c : Bool) : MCoh (m.update c).1 := by
  obtain ⟨ps, u⟩ := m
  cases u with
  | none => exact h
  | some u =>
    have hu : AccsCoh u.accs := h u rfl
    have f3 := forwardLoop_coh (if ([] : List String).isEmpty then u.accs.map (·.1) else []) u ps hu
    simp only [Module.update, Updater.forward]
    cases he : (u.forwardLoop ps (if ([] : List String).isEmpty then u.accs.map (·.1) else [])).2.2 with
    | some e => intro u' hu'; simp only [Option.some.injEq] at hu'; subst hu'; exact f3
    | none =>
      intro u' hu'
      simp only [Option.some.injEq] at hu'
      subst hu'
      cases c with
      | false => exact f3
      | true => exact clear_all_coh _

theorem updatesome_coh (c : Bool) (ps : List String) :
    ∀ (m : Module α), MCoh m → MCoh (m.updatesome c ps).1 := by
  induction ps with
  | nil => intro m h; exact h
  | cons p ps ih =>
    intro m h
    obtain ⟨prm, u⟩ := m
    cases u with
    | none => exact h
    | some u =>
      have hu : AccsCoh u.accs := h u rfl
      have f3 := forwardLoop_coh (if [p].isEmpty then u.accs.map (·.1) else [p]) u prm hu
      simp only [Module.updatesome, Updater.forward]
      cases he : (u.forwardLoop prm (if [p].isEmpty then u.accs.map (·.1) else [p])).2.2 with
      | some e => intro u' hu'; simp only [Option.some.injEq] at hu'; subst hu'; exact f3
      | none =>
        apply ih
        intro u' hu'
        simp only [Option.some.injEq] at hu'
        subst hu'
        cases c with
        | false => exact f3
        | true => exact amodify_forall Accumulator.Coherent _ p _ f3 (fun a _ => clear_coherent a)

theorem onAcc_coh (m : Module α) (h : MCoh m) (p : String) (f : Accumulator α → Accumulator α)
    (hf : ∀ a, a.Coherent → (f a).Coherent) : MCoh (m.onAcc p f).1 := by
  obtain ⟨ps, u⟩ := m
  cases u with
  | none => exact h
  | some u =>
    simp only [Module.onAcc]
    cases ha : alookup u.accs p with
    | none => exact h
    | some a =>
      intro u' hu'
      simp only [Option.some.injEq] at hu'
      subst hu'
      exact amodify_forall Accumulator.Coherent u.accs p f (h u rfl) hf

theorem readAcc_coh (m : Module α) (h : MCoh m) (p : String) (f : Accumulator α → Accumulator α × Option α)
    (hf : ∀ a, a.Coherent → (f a).1.Coherent) : MCoh (m.readAcc p f).1 := by
  obtain ⟨ps, u⟩ := m
  cases u with
  | none => exact h
  | some u =>
    simp only [Module.readAcc]
    cases ha : alookup u.accs p with
    | none => exact h
    | some a =>
      intro u' hu'
      simp only [Option.some.injEq] at hu'
      subst hu'
      exact aset_forall Accumulator.Coherent u.accs p _ (h u rfl) (hf a (h u rfl (p, a) (alookup_mem ha)))

theorem new_updater_coh (ps : List String) (r : Option (List α → α)) : AccsCoh (Updater.new ps r).accs := by
  intro pa hpa
  unfold Updater.new at hpa
  cases r with
  | none =>
    obtain ⟨q, _, rfl⟩ := List.mem_map.mp hpa
    exact new_coherent
  | some r =>
    obtain ⟨qa, _, rfl⟩ := List.mem_map.mp hpa
    exact reduction_coherent _ _

theorem step_coh (m : Module α) (h : MCoh m) (op : Op α) : MCoh (step m op).1 := by
  cases op with
  | newUpdater ps r =>
    simp only [step]
    split
    · intro u' hu'; simp only [Option.some.injEq] at hu'; subst hu'; exact new_updater_coh ps r
    · exact h
  | delUpdater => intro u' hu'; simp [step] at hu'
  | setParam p v =>
    simp only [step]
    split
    · exact h
    · exact h
  | setPos p v => exact onAcc_coh m h p _ (fun a ha => setPos_coherent a ha v)
  | setNeg p v => exact onAcc_coh m h p _ (fun a ha => setNeg_coherent a ha v)
  | setAcc p v => exact onAcc_coh m h p _ (fun a ha => setAcc_coherent a ha v)
  | getPos p => exact readAcc_coh m h p _ getPos_coherent
  | getNeg p => exact readAcc_coh m h p _ getNeg_coherent
  | delPos p => exact onAcc_coh m h p _ delPos_coherent
  | delNeg p => exact onAcc_coh m h p _ delNeg_coherent
  | delAcc p => exact onAcc_coh m h p _ (fun a _ => clear_coherent a)
  | accClear p => exact onAcc_coh m h p _ (fun a _ => clear_coherent a)
  | reduction p fn => exact onAcc_coh m h p _ (fun a _ => reduction_coherent a fn)
  | upperbound p b => exact onAcc_coh m h p _ (fun a ha => ha)
  | lowerbound p b => exact onAcc_coh m h p _ (fun a ha => ha)
  | fullbound p b => exact onAcc_coh m h p _ (fun a ha => ha)
  | accUpdate p =>
    obtain ⟨ps, u⟩ := m
    cases u with
    | none => exact h
    | some u =>
      simp only [step]
      cases ha : alookup u.accs p with
      | none => exact h
      | some a =>
        cases hx : alookup ps p with
        | none => exact h
        | some x =>
          intro u' hu'
          simp only [Option.some.injEq] at hu'
          subst hu'
          exact aset_forall Accumulator.Coherent u.accs p _ (h u rfl)
            (update_coherent a (h u rfl (p, a) (alookup_mem ha)) x)
  | update c => exact update_coh m h c
  | updatesome ps c => exact updatesome_coh c ps m h
  | clear =>
    obtain ⟨ps, u⟩ := m
    cases u with
    | none => exact h
    | some u =>
      intro u' hu'
      simp only [step, Option.some.injEq] at hu'
      subst hu'
      exact clear_all_coh _

theorem run_coh (ops : List (Op α)) : ∀ (m : Module α), MCoh m → MCoh (run m ops).1 := by
  induction ops with
  | nil => intro m h; exact h
  | cons op ops ih => intro m h; exact ih _ (step_coh m h op)

end Coh

/-! ### Construction -/
section NewUpd
variable {α : Type} [AddGroup α]

theorem new_updater_inv (ps : List String) (r : Option (List α → α)) : AccsInv (Updater.new ps r).accs := by
  intro pa hpa
  unfold Updater.new at hpa
  cases r with
  | none =>
    obtain ⟨q, _, rfl⟩ := List.mem_map.mp hpa
    exact new_inv
  | some r =>
    obtain ⟨qa, hq, rfl⟩ := List.mem_map.mp hpa
    obtain ⟨q, _, rfl⟩ := List.mem_map.mp hq
    exact reduction_inv _ new_inv _

theorem new_updater_abs (ps : List String) (r : Option (List α → α)) :
    absAccs (Updater.new ps r).accs =
      ps.eraseDups.map fun p =>
        (p, match r with | some r => { (SAcc.new : SAcc α) with reduce := r } | none => SAcc.new) := by
  unfold Updater.new absAccs
  cases r with
  | none => simp [List.map_map, Function.comp_def, new_abs]
  | some r =>
    simp only [List.map_map, Function.comp_def]
    congr 1

end NewUpd

/-! ### Nothing accumulated: the parameters are untouched -/
section Empty
variable {α : Type} [Add α] [Sub α] [Neg α] [Zero α]

/-- no pending parts and coherent caches -/
def Accumulator.Idle (a : Accumulator α) : Prop := a.pos = [] ∧ a.neg = [] ∧ a.Coherent

theorem idle_forward (a : Accumulator α) (h : a.Idle) (x : α) :
    (a.forward x).2 = .ok x ∧ (a.forward x).1.Idle := by
  obtain ⟨hp, hn, hc⟩ := h
  have h1 := getPos_val a hc
  have h2 := getNeg_val a.getPos.1 (getPos_coherent a hc)
  simp only [getPos_reduce, getPos_neg, hp, hn, calcParts, List.isEmpty_nil, if_true] at h1 h2
  refine ⟨?_, ?_, ?_, ?_⟩
  · simp [Accumulator.forward, Accumulator.update, h1, h2]
  · simp [Accumulator.forward, Accumulator.update, hp]
  · simp [Accumulator.forward, Accumulator.update, hn]
  · exact forward_coherent a hc x

theorem clear_idle (a : Accumulator α) : a.clear.Idle := ⟨rfl, rfl, clear_coherent a⟩

theorem forwardLoop_idle (ps : List String) :
    ∀ (u : Updater α) (mod : List (String × α)), (∀ pa ∈ u.accs, pa.2.Idle) →
      (u.forwardLoop mod ps).2.1 = mod ∧ (∀ pa ∈ (u.forwardLoop mod ps).1.accs, pa.2.Idle) := by
  induction ps with
  | nil => intro u mod h; exact ⟨rfl, h⟩
  | cons p ps ih =>
    intro u mod h
    unfold Updater.forwardLoop
    cases ha : alookup u.accs p with
    | none => exact ⟨rfl, h⟩
    | some acc =>
      cases hx : alookup mod p with
      | none => exact ⟨rfl, h⟩
      | some x =>
        obtain ⟨f1, f2⟩ := idle_forward acc (h (p, acc) (alookup_mem ha)) x
        simp only [f1]
        rw [aset_self mod p x hx]
        exact ih ⟨aset u.accs p (acc.forward x).1⟩ mod (aset_forall Accumulator.Idle u.accs p _ h f2)

end Empty

/-! ### Update histories of one accumulator -/
section History
variable {α : Type} [Add α] [Sub α] [Neg α] [Zero α]

/-- `clear()`-ed: no parts, empty caches -/
def Accumulator.Cleared (a : Accumulator α) : Prop :=
  a.pos = [] ∧ a.neg = [] ∧ a.posCache = none ∧ a.negCache = none

/-- trainers contribute the parts `ps` / `ns` through the setters -/
def Accumulator.contribute (a : Accumulator α) (ps ns : List α) : Accumulator α :=
  ns.foldl (fun a v => a.setNeg (some v)) (ps.foldl (fun a v => a.setPos (some v)) a)

/-- one round: contributions, `forward(param)`, `clear()` (what `Updatable.update()` does per parameter) -/
def Accumulator.round (a : Accumulator α) (x : α) (ps ns : List α) : Accumulator α × Except Err α :=
  ((a.contribute ps ns).forward x |>.1.clear, (a.contribute ps ns).forward x |>.2)

/-- an update history of arbitrary length: the final parameter value (or the first exception) -/
def Accumulator.history (a : Accumulator α) (x : α) : List (List α × List α) → Except Err α
  | [] => .ok x
  | r :: rs =>
    match (a.round x r.1 r.2).2 with
    | .error e => .error e
    | .ok x' => (a.round x r.1 r.2).1.history x' rs

theorem foldl_setPos (ps : List α) : ∀ (a : Accumulator α),
    (ps.foldl (fun a v => a.setPos (some v)) a).pos = a.pos ++ ps ∧
    (ps.foldl (fun a v => a.setPos (some v)) a).neg = a.neg ∧
    (ps.foldl (fun a v => a.setPos (some v)) a).reduce = a.reduce ∧
    (ps.foldl (fun a v => a.setPos (some v)) a).bind = a.bind ∧
    (a.Coherent → (ps.foldl (fun a v => a.setPos (some v)) a).Coherent) := by
  induction ps with
  | nil => intro a; simp
  | cons v ps ih =>
    intro a
    obtain ⟨h1, h2, h3, h4, h5⟩ := ih (a.setPos (some v))
    simp only [List.foldl_cons]
    refine ⟨by rw [h1]; simp [Accumulator.setPos], by rw [h2]; rfl, by rw [h3]; rfl, by rw [h4]; rfl, ?_⟩
    intro hc; exact h5 (setPos_coherent a hc _)

theorem foldl_setNeg (ns : List α) : ∀ (a : Accumulator α),
    (ns.foldl (fun a v => a.setNeg (some v)) a).pos = a.pos ∧
    (ns.foldl (fun a v => a.setNeg (some v)) a).neg = a.neg ++ ns ∧
    (ns.foldl (fun a v => a.setNeg (some v)) a).reduce = a.reduce ∧
    (ns.foldl (fun a v => a.setNeg (some v)) a).bind = a.bind ∧
    (a.Coherent → (ns.foldl (fun a v => a.setNeg (some v)) a).Coherent) := by
  induction ns with
  | nil => intro a; simp
  | cons v ns ih =>
    intro a
    obtain ⟨h1, h2, h3, h4, h5⟩ := ih (a.setNeg (some v))
    simp only [List.foldl_cons]
    refine ⟨by rw [h1]; rfl, by rw [h2]; simp [Accumulator.setNeg], by rw [h3]; rfl, by rw [h4]; rfl, ?_⟩
    intro hc; exact h5 (setNeg_coherent a hc _)

theorem cleared_coherent (a : Accumulator α) (h : a.Cleared) : a.Coherent :=
  ⟨fun v hv => by rw [h.2.2.1] at hv; exact absurd hv (by simp),
   fun v hv => by rw [h.2.2.2] at hv; exact absurd hv (by simp)⟩

theorem contribute_spec (a : Accumulator α) (h : a.Cleared) (ps ns : List α) :
    (a.contribute ps ns).pos = ps ∧ (a.contribute ps ns).neg = ns ∧
    (a.contribute ps ns).reduce = a.reduce ∧ (a.contribute ps ns).bind = a.bind ∧
    (a.contribute ps ns).Coherent := by
  obtain ⟨p1, p2, p3, p4, p5⟩ := foldl_setPos ps a
  obtain ⟨n1, n2, n3, n4, n5⟩ := foldl_setNeg ns (ps.foldl (fun a v => a.setPos (some v)) a)
  unfold Accumulator.contribute
  refine ⟨by rw [n1, p1, h.1]; rfl, by rw [n2, p2, h.2.1]; rfl, by rw [n3, p3], by rw [n4, p4], ?_⟩
  exact n5 (p5 (cleared_coherent a h))

theorem round_cleared (a : Accumulator α) (x : α) (ps ns : List α) :
    (a.round x ps ns).1.Cleared ∧ (a.round x ps ns).1.reduce = a.reduce ∧ ((a.round x ps ns).1.bind = a.bind) := by
  obtain ⟨p1, p2, p3, p4, _⟩ := foldl_setPos ps a
  obtain ⟨n1, n2, n3, n4, _⟩ := foldl_setNeg ns (ps.foldl (fun a v => a.setPos (some v)) a)
  refine ⟨⟨rfl, rfl, rfl, rfl⟩, ?_, ?_⟩
  · simp [Accumulator.round, Accumulator.clear, Accumulator.delPos, Accumulator.delNeg,
      Accumulator.forward, Accumulator.update, Accumulator.contribute, n3, p3]
  · simp [Accumulator.round, Accumulator.clear, Accumulator.delPos, Accumulator.delNeg,
      Accumulator.forward, Accumulator.update, Accumulator.contribute, n4, p4]

end History

/-! ### Histories preserve any invariant the apply formula preserves -/
section HistoryInv
variable {α : Type} [AddGroup α]

theorem calcParts_nil (r : List α → α) : calcParts r [] = none := rfl
theorem calcParts_ne_nil (r : List α → α) (l : List α) (h : l ≠ []) : calcParts r l = some (r l) := by
  cases l with
  | nil => exact absurd rfl h
  | cons x xs => rfl

/-- the decomposition the specification reads a `bind` as -/
def Bind.halves? (b : Bind α) : Option ((α → α → α) × (α → α → α)) :=
  match b with
  | .full b => b.halves?
  | .halves u l => some (u, l)

theorem abs_halves (a : Accumulator α) : a.abs.halves? = a.bind.halves? := by
  cases hb : a.bind <;> simp [Accumulator.abs, Bind.halves?, hb]

/-- THE FORMULA on an accumulator with a sound `bind`, coherent caches and some parts. -/
theorem forward_formula (a : Accumulator α) (h : a.Inv) (x : α) (ub lb : α → α → α)
    (hh : a.bind.halves? = some (ub, lb)) :
    (a.forward x).2 =
      if a.pos = [] ∧ a.neg = [] then .ok x
      else .ok (x + ((match calcParts a.reduce a.pos with | some p => ub x p | none => 0) -
                     (match calcParts a.reduce a.neg with | some n => lb x n | none => 0))) := by
  rw [(forward_refines a h x).1]
  have hh' : a.abs.halves? = some (ub, lb) := by rw [abs_halves]; exact hh
  unfold SAcc.apply SAcc.update
  rw [hh']
  simp only [show a.abs.pos = a.pos from rfl, show a.abs.neg = a.neg from rfl,
    show a.abs.reduce = a.reduce from rfl]
  cases hp : a.pos with
  | nil =>
    cases hn : a.neg with
    | nil => simp [calcParts_nil]
    | cons n ns => simp [calcParts_nil, calcParts_ne_nil]
  | cons p ps =>
    cases hn : a.neg with
    | nil => simp [calcParts_nil, calcParts_ne_nil]
    | cons n ns => simp [calcParts_ne_nil]

theorem history_preserves (I : α → Prop) (G : List α → List α → Prop)
    (reduce : List α → α) (bind : Bind α) (hs : bind.Sound) (ub lb : α → α → α)
    (hh : bind.halves? = some (ub, lb))
    (hstep : ∀ x ps ns, I x → G ps ns → (ps ≠ [] ∨ ns ≠ []) →
      I (x + ((match calcParts reduce ps with | some p => ub x p | none => 0) -
              (match calcParts reduce ns with | some n => lb x n | none => 0)))) :
    ∀ (hist : List (List α × List α)) (a : Accumulator α) (x : α), a.Cleared → a.reduce = reduce →
      a.bind = bind → I x → (∀ r ∈ hist, G r.1 r.2) → ∃ x', a.history x hist = .ok x' ∧ I x' := by
  intro hist
  induction hist with
  | nil => intro a x _ _ _ hx _; exact ⟨x, rfl, hx⟩
  | cons r rs ih =>
    intro a x hclr hred hbind hx hG
    obtain ⟨c1, c2, c3, c4, c5⟩ := contribute_spec a hclr r.1 r.2
    have hinv : (a.contribute r.1 r.2).Inv := ⟨c5, by rw [c4, hbind]; exact hs⟩
    have hf := forward_formula (a.contribute r.1 r.2) hinv x ub lb (by rw [c4, hbind]; exact hh)
    rw [c1, c2, c3, hred] at hf
    obtain ⟨r1, r2, r3⟩ := round_cleared a x r.1 r.2
    unfold Accumulator.history
    have hround : (a.round x r.1 r.2).2 = ((a.contribute r.1 r.2).forward x).2 := rfl
    rw [hround, hf]
    by_cases hemp : r.1 = [] ∧ r.2 = []
    · rw [if_pos hemp]
      exact ih _ x r1 (by rw [r2, hred]) (by rw [r3, hbind]) hx (fun q hq => hG q (List.mem_cons_of_mem _ hq))
    · rw [if_neg hemp]
      have hne : r.1 ≠ [] ∨ r.2 ≠ [] := by
        by_cases h1 : r.1 = []
        · right; intro h2; exact hemp ⟨h1, h2⟩
        · left; exact h1
      exact ih _ _ r1 (by rw [r2, hred]) (by rw [r3, hbind])
        (hstep x r.1 r.2 hx (hG r List.mem_cons_self) hne)
        (fun q hq => hG q (List.mem_cons_of_mem _ hq))

end HistoryInv

/-! ### Range invariants over histories (`ℝ`) -/
section RangeLemmas

theorem in_range_of_bounded_steps {lo hi p A B : ℝ} (hA0 : 0 ≤ A) (hA : A ≤ hi - p) (hB0 : 0 ≤ B)
    (hB : B ≤ p - lo) : lo ≤ p + (A - B) ∧ p + (A - B) ≤ hi := by
  constructor <;> linarith

/-- If, inside `[lo, hi]` and for magnitudes in `[0, cap]`, the upper half function yields at most
the room left above and the lower one at most the room left below, then every update history with
reduced magnitudes in `[0, cap]` keeps the parameter inside `[lo, hi]`. -/
theorem range_history (lo hi cap : ℝ) (ub lb : ℝ → ℝ → ℝ)
    (hub : ∀ x U, lo ≤ x → x ≤ hi → 0 ≤ U → U ≤ cap → 0 ≤ ub x U ∧ ub x U ≤ hi - x)
    (hlb : ∀ x V, lo ≤ x → x ≤ hi → 0 ≤ V → V ≤ cap → 0 ≤ lb x V ∧ lb x V ≤ x - lo)
    (a : Accumulator ℝ) (hclr : a.Cleared) (hs : a.bind.Sound) (hh : a.bind.halves? = some (ub, lb))
    (hist : List (List ℝ × List ℝ))
    (hmag : ∀ r ∈ hist, (r.1 ≠ [] → 0 ≤ a.reduce r.1 ∧ a.reduce r.1 ≤ cap) ∧
                        (r.2 ≠ [] → 0 ≤ a.reduce r.2 ∧ a.reduce r.2 ≤ cap))
    (x : ℝ) (hx : lo ≤ x ∧ x ≤ hi) :
    ∃ x', a.history x hist = .ok x' ∧ lo ≤ x' ∧ x' ≤ hi := by
  refine history_preserves (fun x => lo ≤ x ∧ x ≤ hi)
    (fun ps ns => (ps ≠ [] → 0 ≤ a.reduce ps ∧ a.reduce ps ≤ cap) ∧ (ns ≠ [] → 0 ≤ a.reduce ns ∧ a.reduce ns ≤ cap))
    a.reduce a.bind hs ub lb hh ?_ hist a x hclr rfl rfl hx hmag
  intro x ps ns hx hG _
  by_cases hp : ps = []
  · by_cases hn : ns = []
    · subst hp; subst hn
      simp only [calcParts_nil]
      exact in_range_of_bounded_steps (le_refl 0) (by linarith [hx.2]) (le_refl 0) (by linarith [hx.1])
    · subst hp
      obtain ⟨b0, b1⟩ := hlb x (a.reduce ns) hx.1 hx.2 (hG.2 hn).1 (hG.2 hn).2
      simp only [calcParts_nil, calcParts_ne_nil _ _ hn]
      exact in_range_of_bounded_steps (le_refl 0) (by linarith [hx.2]) b0 b1
  · obtain ⟨a0, a1⟩ := hub x (a.reduce ps) hx.1 hx.2 (hG.1 hp).1 (hG.1 hp).2
    by_cases hn : ns = []
    · subst hn
      simp only [calcParts_nil, calcParts_ne_nil _ _ hp]
      exact in_range_of_bounded_steps a0 a1 (le_refl 0) (by linarith [hx.1])
    · obtain ⟨b0, b1⟩ := hlb x (a.reduce ns) hx.1 hx.2 (hG.2 hn).1 (hG.2 hn).2
      simp only [calcParts_ne_nil _ _ hp, calcParts_ne_nil _ _ hn]
      exact in_range_of_bounded_steps a0 a1 b0 b1

end RangeLemmas

/-! ### Helpers for the order-independence, range and sharp theorems (`ℝ`) -/
section RealHelpers

theorem foldl_max_ge_init (l : List ℝ) : ∀ b : ℝ, b ≤ l.foldl max b := by
  induction l with
  | nil => intro b; exact le_refl b
  | cons x xs ih => intro b; exact le_trans (le_max_left b x) (ih (max b x))

theorem foldl_max_ge_mem (l : List ℝ) : ∀ (b x : ℝ), x ∈ l → x ≤ l.foldl max b := by
  induction l with
  | nil => intro b x hx; cases hx
  | cons y ys ih =>
    intro b x hx
    rcases List.mem_cons.mp hx with rfl | hm
    · exact le_trans (le_max_right b x) (foldl_max_ge_init ys (max b x))
    · exact ih (max b y) x hm

theorem foldl_max_mem (l : List ℝ) : ∀ b : ℝ, l.foldl max b = b ∨ l.foldl max b ∈ l := by
  induction l with
  | nil => intro b; exact Or.inl rfl
  | cons y ys ih =>
    intro b
    rcases ih (max b y) with h | h
    · rcases max_choice b y with hb | hy
      · left; rw [List.foldl_cons, h, hb]
      · right; rw [List.foldl_cons, h, hy]; exact List.mem_cons_self
    · right; exact List.mem_cons_of_mem _ h

theorem rmax_mem (l : List ℝ) (h : l ≠ []) : rmax l ∈ l := by
  cases l with
  | nil => exact absurd rfl h
  | cons x xs =>
    rcases foldl_max_mem xs x with h1 | h1
    · show xs.foldl max x ∈ x :: xs; rw [h1]; exact List.mem_cons_self
    · exact List.mem_cons_of_mem _ h1

theorem le_rmax (l : List ℝ) (y : ℝ) (hy : y ∈ l) : y ≤ rmax l := by
  cases l with
  | nil => cases hy
  | cons x xs =>
    rcases List.mem_cons.mp hy with rfl | hm
    · exact foldl_max_ge_init xs y
    · exact foldl_max_ge_mem xs x y hm

theorem scaled_factor_bounds {lo hi x : ℝ} (hlt : lo < hi) (h1 : lo ≤ x) (h2 : x ≤ hi) :
    0 ≤ (hi - x) / (hi - lo) ∧ (hi - x) / (hi - lo) ≤ 1 ∧ 0 ≤ (x - lo) / (hi - lo) ∧ (x - lo) / (hi - lo) ≤ 1 := by
  have hr : 0 < hi - lo := by linarith
  exact ⟨div_nonneg (by linarith) hr.le, (div_le_one hr).mpr (by linarith),
    div_nonneg (by linarith) hr.le, (div_le_one hr).mpr (by linarith)⟩

/-- `t ∈ [0,1]`, real exponent `μ ≥ 1`: `0 ≤ t^μ ≤ t` -/
theorem rpow_le_self_of_unit {t μ : ℝ} (h0 : 0 ≤ t) (h1 : t ≤ 1) (hμ : 1 ≤ μ) : 0 ≤ t ^ μ ∧ t ^ μ ≤ t := by
  refine ⟨Real.rpow_nonneg h0 μ, ?_⟩
  have := Real.rpow_le_rpow_of_exponent_ge' h0 h1 zero_le_one hμ
  rwa [Real.rpow_one] at this

theorem heaviside_nonpos {d : ℝ} (h : d ≤ 0) : heaviside d 0 = 0 := by
  unfold heaviside; split_ifs <;> first | rfl | linarith

theorem heaviside_nonneg (d : ℝ) : 0 ≤ heaviside d 0 := by
  unfold heaviside; split_ifs <;> norm_num

end RealHelpers

/-! ### Helpers for `constructor_reduction_is_used` -/
section CtorHelpers
variable {α : Type} [Add α] [Sub α] [Neg α] [Zero α]

theorem alookup_map_mk {β : Type} (l : List String) (f : String → β) (p : String) (h : p ∈ l) :
    alookup (l.map fun q => (q, f q)) p = some (f p) := by
  induction l with
  | nil => cases h
  | cons q qs ih =>
    simp only [List.map_cons, alookup]
    by_cases hq : q = p
    · simp [hq]
    · simp only [hq, if_false]
      rcases List.mem_cons.mp h with rfl | hm
      · exact absurd rfl hq
      · exact ih hm

theorem alookup_amodify_self {β : Type} (l : List (String × β)) (k : String) (g : β → β) (v : β)
    (h : alookup l k = some v) : alookup (amodify l k g) k = some (g v) := by
  induction l with
  | nil => simp [alookup] at h
  | cons hd t ih =>
    obtain ⟨k', w⟩ := hd
    simp only [alookup, amodify] at h ⊢
    by_cases hk : k' = k
    · simp only [hk, if_true, Option.some.injEq] at h ⊢; simp [alookup, h]
    · simp only [hk, if_false] at h ⊢; simp only [alookup, hk, if_false]; exact ih h

theorem run_snoc (ops : List (Op α)) (op : Op α) : ∀ m : Module α,
    (run m (ops ++ [op])).2 = (run m ops).2 ++ [(step (run m ops).1 op).2] := by
  induction ops with
  | nil => intro m; rfl
  | cons o os ih => intro m; simp only [List.cons_append, run, ih]

theorem run_setPos (p : String) (vs : List α) : ∀ (m : Module α) (u : Updater α) (a : Accumulator α),
    m.updater = some u → alookup u.accs p = some a →
    ∃ u', (run m (vs.map fun v => Op.setPos p (some v))).1.updater = some u' ∧
      alookup u'.accs p = some (vs.foldl (fun a v => a.setPos (some v)) a) := by
  induction vs with
  | nil => intro m u a hu ha; exact ⟨u, hu, ha⟩
  | cons v vs ih =>
    intro m u a hu ha
    obtain ⟨prm, mu⟩ := m
    simp only at hu
    subst hu
    have hstep : (step (⟨prm, some u⟩ : Module α) (Op.setPos p (some v))).1
        = ⟨prm, some ⟨amodify u.accs p (·.setPos (some v))⟩⟩ := by
      simp [step, Module.onAcc, ha]
    simp only [List.map_cons, run, List.foldl_cons, hstep]
    exact ih _ ⟨amodify u.accs p (·.setPos (some v))⟩ (a.setPos (some v)) rfl
      (alookup_amodify_self u.accs p _ a ha)

end CtorHelpers

end InfernoVerif.Updater
