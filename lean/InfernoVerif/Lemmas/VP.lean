import InfernoVerif.Model.VP
import Mathlib.Tactic.Linarith
import Mathlib.Tactic.Ring
import Mathlib.Tactic.Push
import Mathlib.Algebra.Order.Field.Rat
/-!
# Helper lemmas for the Victor–Purpura theorems of C20

`absQ`/`minQ`/`min3` algebra; the recurrence `vpRec` is non-negative, symmetric, zero on the
diagonal (finite cost), bounded by `|n − m|` and `n + m`, equal to those bounds at cost 0 / ∞,
satisfies the triangle inequality (strong induction on the three lengths, nine cases on which
candidate realises each minimum) and vanishes only on equal trains (positive finite cost);
and the row-by-row grid of the Python loops computes `vpRec` on the reversed spike lists.
-/
namespace InfernoVerif.VP

theorem absQ_nonneg (x : Rat) : 0 ≤ absQ x := by
  unfold absQ; split <;> linarith

theorem absQ_neg (x : Rat) : absQ (-x) = absQ x := by
  unfold absQ; split <;> split <;> linarith

theorem absQ_sub_comm (a b : Rat) : absQ (a - b) = absQ (b - a) := by
  rw [← absQ_neg (a - b)]; congr 1; ring

theorem absQ_zero : absQ 0 = 0 := by simp [absQ]

theorem absQ_triangle (a b c : Rat) : absQ (a - c) ≤ absQ (a - b) + absQ (b - c) := by
  unfold absQ; split <;> split <;> split <;> linarith

theorem absQ_eq_zero {x : Rat} (h : absQ x = 0) : x = 0 := by
  unfold absQ at h; split at h <;> linarith

theorem minQ_le_left (a b : Rat) : minQ a b ≤ a := by unfold minQ; split <;> linarith
theorem minQ_le_right (a b : Rat) : minQ a b ≤ b := by unfold minQ; split <;> linarith
theorem minQ_comm (a b : Rat) : minQ a b = minQ b a := by unfold minQ; split <;> split <;> linarith
theorem le_minQ {a b c : Rat} (h1 : c ≤ a) (h2 : c ≤ b) : c ≤ minQ a b := by unfold minQ; split <;> assumption
theorem minQ_cases (a b : Rat) : minQ a b = a ∨ minQ a b = b := by unfold minQ; split <;> simp

theorem min3_le_a (a b d : Rat) (s : Option Rat) : min3 a b d s ≤ a := by
  unfold min3; split
  · exact le_trans (minQ_le_left _ _) (minQ_le_left _ _)
  · exact minQ_le_left _ _

theorem min3_le_b (a b d : Rat) (s : Option Rat) : min3 a b d s ≤ b := by
  unfold min3; split
  · exact le_trans (minQ_le_left _ _) (minQ_le_right _ _)
  · exact minQ_le_right _ _

theorem min3_le_shift (a b d w : Rat) : min3 a b d (some w) ≤ d + w := minQ_le_right _ _

theorem le_min3 {a b d c : Rat} {s : Option Rat} (ha : c ≤ a) (hb : c ≤ b)
    (hs : ∀ w, s = some w → c ≤ d + w) : c ≤ min3 a b d s := by
  unfold min3; split
  · exact le_minQ (le_minQ ha hb) (hs _ rfl)
  · exact le_minQ ha hb

theorem min3_cases (a b d : Rat) (s : Option Rat) :
    min3 a b d s = a ∨ min3 a b d s = b ∨ ∃ w, s = some w ∧ min3 a b d s = d + w := by
  unfold min3; split
  · rename_i w
    rcases minQ_cases (minQ a b) (d + w) with h | h
    · rw [h]; rcases minQ_cases a b with h' | h' <;> simp [h']
    · right; right; exact ⟨w, rfl, h⟩
  · rcases minQ_cases a b with h' | h' <;> simp [h']

theorem min3_swap (a b d : Rat) (s : Option Rat) : min3 a b d s = min3 b a d s := by
  unfold min3; rw [minQ_comm a b]

theorem shiftCost_nonneg {q : Cost} (hq : q.Nonneg) {x y w : Rat} (h : shiftCost q x y = some w) : 0 ≤ w := by
  cases q with
  | top => simp [shiftCost] at h
  | fin q =>
    simp only [shiftCost, Option.some.injEq] at h
    subst h
    exact mul_nonneg hq (absQ_nonneg _)

theorem shiftCost_comm (q : Cost) (x y : Rat) : shiftCost q x y = shiftCost q y x := by
  cases q <;> simp [shiftCost, absQ_sub_comm x y]

theorem shiftCost_triangle {q : Cost} (hq : q.Nonneg) {x y z u v : Rat}
    (h1 : shiftCost q x y = some u) (h2 : shiftCost q y z = some v) :
    ∃ w, shiftCost q x z = some w ∧ w ≤ u + v := by
  cases q with
  | top => simp [shiftCost] at h1
  | fin q =>
    simp only [shiftCost, Option.some.injEq] at h1 h2 ⊢
    subst h1; subst h2
    refine ⟨_, rfl, ?_⟩
    have := absQ_triangle x y z
    have hq' : 0 ≤ q := hq
    nlinarith [mul_le_mul_of_nonneg_left this hq']

theorem vpRec_nil_left (q : Cost) (ys : List Rat) : vpRec q [] ys = (ys.length : Rat) := by
  rw [vpRec]

theorem vpRec_nil_right (q : Cost) (xs : List Rat) : vpRec q xs [] = (xs.length : Rat) := by
  cases xs <;> simp [vpRec]

theorem vpRec_cons_cons (q : Cost) (x y : Rat) (xs ys : List Rat) :
    vpRec q (x :: xs) (y :: ys) =
      min3 (vpRec q xs (y :: ys) + 1) (vpRec q (x :: xs) ys + 1) (vpRec q xs ys) (shiftCost q x y) := by
  rw [vpRec]

theorem vpRec_nonneg {q : Cost} (hq : q.Nonneg) (a b : List Rat) : 0 ≤ vpRec q a b := by
  induction a, b using vpRec.induct with
  | case1 ys => rw [vpRec_nil_left]; exact Nat.cast_nonneg _
  | case2 x xs => rw [vpRec_nil_right]; exact Nat.cast_nonneg _
  | case3 x xs y ys ih1 ih2 ih3 =>
    rw [vpRec_cons_cons]
    refine le_min3 (by linarith) (by linarith) ?_
    intro w hw
    have := shiftCost_nonneg hq hw
    linarith

theorem vpRec_symm (q : Cost) (a b : List Rat) : vpRec q a b = vpRec q b a := by
  induction a, b using vpRec.induct with
  | case1 ys => rw [vpRec_nil_left, vpRec_nil_right]
  | case2 x xs => rw [vpRec_nil_left, vpRec_nil_right]
  | case3 x xs y ys ih1 ih2 ih3 =>
    rw [vpRec_cons_cons, vpRec_cons_cons, ih1, ih2, ih3, shiftCost_comm q x y, min3_swap]

theorem vpRec_self {q : Rat} (hq : 0 ≤ q) (a : List Rat) : vpRec (.fin q) a a = 0 := by
  induction a with
  | nil => simp [vpRec_nil_left]
  | cons x xs ih =>
    have hq' : (Cost.fin q).Nonneg := hq
    rw [vpRec_cons_cons]
    simp only [shiftCost, sub_self, absQ_zero, mul_zero, ih]
    apply le_antisymm
    · exact le_trans (min3_le_shift _ _ _ _) (by simp)
    · refine le_min3 ?_ ?_ ?_
      · have := vpRec_nonneg hq' xs (x :: xs); linarith
      · have := vpRec_nonneg hq' (x :: xs) xs; linarith
      · intro w hw
        simp only [Option.some.injEq] at hw
        subst hw; simp

theorem vpRec_upper (q : Cost) (a b : List Rat) : vpRec q a b ≤ (a.length : Rat) + (b.length : Rat) := by
  induction a, b using vpRec.induct with
  | case1 ys => rw [vpRec_nil_left]; simp
  | case2 x xs => rw [vpRec_nil_right]; simp
  | case3 x xs y ys ih1 ih2 ih3 =>
    rw [vpRec_cons_cons]
    refine le_trans (min3_le_a _ _ _ _) ?_
    simp only [List.length_cons, Nat.cast_add, Nat.cast_one] at ih1 ⊢
    linarith

theorem vpRec_lower {q : Cost} (hq : q.Nonneg) (a b : List Rat) :
    absQ ((a.length : Rat) - (b.length : Rat)) ≤ vpRec q a b := by
  induction a, b using vpRec.induct with
  | case1 ys => rw [vpRec_nil_left]; simp only [List.length_nil, Nat.cast_zero, zero_sub, absQ_neg]; unfold absQ; split <;> linarith
  | case2 x xs =>
    rw [vpRec_nil_right]; simp only [List.length_nil, Nat.cast_zero, sub_zero]
    unfold absQ; split <;> linarith
  | case3 x xs y ys ih1 ih2 ih3 =>
    rw [vpRec_cons_cons]
    simp only [List.length_cons, Nat.cast_add, Nat.cast_one] at ih1 ih2 ih3 ⊢
    refine le_min3 ?_ ?_ ?_
    · unfold absQ at ih1 ⊢; split at ih1 <;> split <;> linarith
    · unfold absQ at ih2 ⊢; split at ih2 <;> split <;> linarith
    · intro w hw
      have := shiftCost_nonneg hq hw
      unfold absQ at ih3 ⊢; split at ih3 <;> split <;> linarith

theorem vpRec_cost_zero (a b : List Rat) :
    vpRec (.fin 0) a b = absQ ((a.length : Rat) - (b.length : Rat)) := by
  induction a, b using vpRec.induct with
  | case1 ys => rw [vpRec_nil_left]; simp only [List.length_nil, Nat.cast_zero, zero_sub, absQ_neg]; unfold absQ; split <;> linarith [Nat.cast_nonneg (α := Rat) ys.length]
  | case2 x xs =>
    rw [vpRec_nil_right]; simp only [List.length_nil, Nat.cast_zero, sub_zero]
    unfold absQ; split <;> linarith [Nat.cast_nonneg (α := Rat) (x :: xs).length]
  | case3 x xs y ys ih1 ih2 ih3 =>
    rw [vpRec_cons_cons, ih1, ih2, ih3]
    simp only [List.length_cons, Nat.cast_add, Nat.cast_one, shiftCost, zero_mul]
    apply le_antisymm
    · refine le_trans (min3_le_shift _ _ _ _) ?_
      unfold absQ; split <;> split <;> linarith
    · refine le_min3 ?_ ?_ ?_
      · unfold absQ; split <;> split <;> linarith
      · unfold absQ; split <;> split <;> linarith
      · intro w hw; simp only [Option.some.injEq] at hw; subst hw
        unfold absQ; split <;> split <;> linarith

theorem vpRec_cost_top (a b : List Rat) : vpRec .top a b = (a.length : Rat) + (b.length : Rat) := by
  induction a, b using vpRec.induct with
  | case1 ys => rw [vpRec_nil_left]; simp
  | case2 x xs => rw [vpRec_nil_right]; simp
  | case3 x xs y ys ih1 ih2 ih3 =>
    rw [vpRec_cons_cons, ih1, ih2]
    simp only [List.length_cons, Nat.cast_add, Nat.cast_one, shiftCost, min3, minQ]
    split <;> linarith

theorem vpRec_del (q : Cost) (x : Rat) (a c : List Rat) : vpRec q (x :: a) c ≤ vpRec q a c + 1 := by
  cases c with
  | nil => rw [vpRec_nil_right, vpRec_nil_right]; simp
  | cons z c => rw [vpRec_cons_cons]; exact min3_le_a _ _ _ _

theorem vpRec_ins (q : Cost) (z : Rat) (a c : List Rat) : vpRec q a (z :: c) ≤ vpRec q a c + 1 := by
  rw [vpRec_symm q a (z :: c), vpRec_symm q a c]; exact vpRec_del q z c a

theorem vpRec_triangle {q : Cost} (hq : q.Nonneg) (a b c : List Rat) :
    vpRec q a c ≤ vpRec q a b + vpRec q b c := by
  match a, b, c with
  | [], b, c =>
    have h1 := vpRec_lower hq b c
    rw [vpRec_nil_left, vpRec_nil_left]
    unfold absQ at h1; split at h1 <;> linarith
  | a, b, [] =>
    have h1 := vpRec_lower hq a b
    rw [vpRec_nil_right, vpRec_nil_right]
    unfold absQ at h1; split at h1 <;> linarith
  | x :: a, [], z :: c =>
    rw [vpRec_nil_right, vpRec_nil_left]
    exact vpRec_upper q _ _
  | x :: a, y :: b, z :: c =>
    have hdel := vpRec_del q x a (z :: c)
    have hins := vpRec_ins q z (x :: a) c
    rcases min3_cases (vpRec q a (y :: b) + 1) (vpRec q (x :: a) b + 1) (vpRec q a b) (shiftCost q x y) with h1 | h1 | ⟨u, hu, h1⟩
    · -- delete x
      have ih := vpRec_triangle hq a (y :: b) (z :: c)
      rw [vpRec_cons_cons q x y a b, h1]; linarith
    · rcases min3_cases (vpRec q b (z :: c) + 1) (vpRec q (y :: b) c + 1) (vpRec q b c) (shiftCost q y z) with h2 | h2 | ⟨v, hv, h2⟩
      · -- insert y, delete y
        have ih := vpRec_triangle hq (x :: a) b (z :: c)
        rw [vpRec_cons_cons q x y a b, h1, vpRec_cons_cons q y z b c, h2]; linarith
      · have ih := vpRec_triangle hq (x :: a) (y :: b) c
        rw [vpRec_cons_cons q y z b c, h2]; linarith
      · -- insert y, shift y→z
        have ih := vpRec_triangle hq (x :: a) b c
        have := shiftCost_nonneg hq hv
        rw [vpRec_cons_cons q x y a b, h1, vpRec_cons_cons q y z b c, h2]; linarith
    · rcases min3_cases (vpRec q b (z :: c) + 1) (vpRec q (y :: b) c + 1) (vpRec q b c) (shiftCost q y z) with h2 | h2 | ⟨v, hv, h2⟩
      · -- shift x→y, delete y
        have ih := vpRec_triangle hq a b (z :: c)
        have := shiftCost_nonneg hq hu
        rw [vpRec_cons_cons q x y a b, h1, vpRec_cons_cons q y z b c, h2]; linarith
      · have ih := vpRec_triangle hq (x :: a) (y :: b) c
        rw [vpRec_cons_cons q y z b c, h2]; linarith
      · -- shift, shift
        have ih := vpRec_triangle hq a b c
        obtain ⟨w, hw, hle⟩ := shiftCost_triangle hq hu hv
        have h3 : vpRec q (x :: a) (z :: c) ≤ vpRec q a c + w := by
          rw [vpRec_cons_cons q x z a c, hw]; exact min3_le_shift _ _ _ _
        rw [vpRec_cons_cons q x y a b, h1, vpRec_cons_cons q y z b c, h2]; linarith
termination_by a.length + b.length + c.length

theorem vpRec_eq_zero {q : Rat} (hq : 0 < q) (a b : List Rat) (h : vpRec (.fin q) a b = 0) : a = b := by
  have hq' : (Cost.fin q).Nonneg := le_of_lt hq
  induction a, b using vpRec.induct with
  | case1 ys =>
    rw [vpRec_nil_left] at h
    have : ys.length = 0 := by exact_mod_cast h
    exact (List.length_eq_zero_iff.mp this).symm
  | case2 x xs =>
    rw [vpRec_nil_right] at h
    have : (x :: xs).length = 0 := by exact_mod_cast h
    simp at this
  | case3 x xs y ys ih1 ih2 ih3 =>
    rw [vpRec_cons_cons] at h
    rcases min3_cases (vpRec (.fin q) xs (y :: ys) + 1) (vpRec (.fin q) (x :: xs) ys + 1) (vpRec (.fin q) xs ys) (shiftCost (.fin q) x y) with h1 | h1 | ⟨w, hw, h1⟩
    · have := vpRec_nonneg hq' xs (y :: ys); rw [h1] at h; linarith
    · have := vpRec_nonneg hq' (x :: xs) ys; rw [h1] at h; linarith
    · rw [h1] at h
      have h0 := vpRec_nonneg hq' xs ys
      have hw0 := shiftCost_nonneg hq' hw
      have e1 : vpRec (.fin q) xs ys = 0 := by linarith
      have e2 : w = 0 := by linarith
      simp only [shiftCost, Option.some.injEq] at hw
      rw [e2] at hw
      have : absQ (x - y) = 0 := by
        rcases mul_eq_zero.mp hw with h | h
        · linarith
        · exact h
      have hxy : x = y := by have := absQ_eq_zero this; linarith
      rw [hxy, ih3 e1]


/-! ## the grid computes the recurrence -/

/-- Row of the grid for the reversed prefix `xr` of `t0`, from the column after the reversed
prefix `acc` of `t1`. -/
def rowSpec (q : Cost) (xr : List Rat) : List Rat → List Rat → List Rat
  | _, [] => []
  | acc, y :: ys => vpRec q xr (y :: acc) :: rowSpec q xr (y :: acc) ys

def fullRow (q : Cost) (xr ys : List Rat) : List Rat := vpRec q xr [] :: rowSpec q xr [] ys

theorem rowStep_spec (q : Cost) (x : Rat) (xr : List Rat) (ys acc : List Rat) :
    rowStep q x (vpRec q (x :: xr) acc) (vpRec q xr acc) (rowSpec q xr acc ys) ys
      = rowSpec q (x :: xr) acc ys := by
  induction ys generalizing acc with
  | nil => simp [rowSpec, rowStep]
  | cons y ys ih =>
    simp only [rowSpec, rowStep]
    rw [← vpRec_cons_cons, ih (y :: acc)]

theorem rowSpec_nil (q : Cost) (ys acc : List Rat) :
    rowSpec q [] acc ys = (List.range ys.length).map fun (i : Nat) => ((acc.length + 1 + i : Nat) : Rat) := by
  induction ys generalizing acc with
  | nil => simp [rowSpec]
  | cons y ys ih =>
    simp only [rowSpec, List.length_cons, List.range_succ_eq_map, List.map_cons, List.map_map]
    rw [vpRec_nil_left, ih (y :: acc)]
    simp only [List.length_cons, Nat.add_zero, List.cons.injEq, true_and]
    apply List.map_congr_left
    intro i _
    simp only [Function.comp, Nat.succ_eq_add_one]
    congr 1; omega

theorem firstRow_eq (q : Cost) (ys : List Rat) : firstRow ys = fullRow q [] ys := by
  simp only [firstRow, fullRow, rowSpec_nil, List.range_succ_eq_map, List.map_cons, List.map_map,
    vpRec_nil_left, List.length_nil, Nat.cast_zero, List.cons.injEq, true_and]
  apply List.map_congr_left
  intro i _
  simp only [Function.comp, Nat.succ_eq_add_one]
  congr 1; omega

theorem nextRow_spec (q : Cost) (x : Rat) (xr ys : List Rat) :
    nextRow q ys (fullRow q xr ys) (xr.length + 1) x = fullRow q (x :: xr) ys := by
  simp only [nextRow, fullRow]
  have h : ((xr.length + 1 : Nat) : Rat) = vpRec q (x :: xr) [] := by rw [vpRec_nil_right]; rfl
  rw [h, rowStep_spec]

theorem rowsFrom_spec (q : Cost) (xs xr ys : List Rat) :
    rowsFrom q ys (fullRow q xr ys) xr.length xs = fullRow q (xs.reverse ++ xr) ys := by
  induction xs generalizing xr with
  | nil => simp [rowsFrom]
  | cons x xs ih =>
    simp only [rowsFrom]
    rw [nextRow_spec]
    have := ih (x :: xr)
    simp only [List.length_cons] at this
    rw [this]
    simp

theorem getLast_rowSpec (q : Cost) (xr ys acc : List Rat) (v0 : Rat) (h0 : v0 = vpRec q xr acc) :
    (v0 :: rowSpec q xr acc ys).getLast? = some (vpRec q xr (ys.reverse ++ acc)) := by
  induction ys generalizing acc v0 with
  | nil => simp [rowSpec, h0]
  | cons y ys ih =>
    simp only [rowSpec]
    rw [List.getLast?_cons_cons, ih (y :: acc) _ rfl]
    simp

/-- The grid's last cell is the recurrence on the reversed spike lists. -/
theorem vpGrid_eq_vpRec (q : Cost) (t0 t1 : List Rat) :
    vpGrid q t0 t1 = vpRec q t0.reverse t1.reverse := by
  unfold vpGrid
  rw [firstRow_eq q t1]
  have := rowsFrom_spec q t0 [] t1
  simp only [List.length_nil, List.append_nil] at this
  rw [this, fullRow, getLast_rowSpec q _ _ _ _ rfl]
  simp

/-- All three branches of the Python function return the recurrence's value. -/
theorem victor_purpura_pair_dist_eq_vpRec (t0 t1 : List Rat) (cost : Cost) (tensor : Bool) :
    victor_purpura_pair_dist t0 t1 cost tensor = vpRec cost t0.reverse t1.reverse := by
  unfold victor_purpura_pair_dist
  split
  · rename_i h
    simp only [Bool.and_eq_true, Bool.not_eq_true', beq_iff_eq] at h
    rw [h.2, vpRec_cost_zero]; simp
  · split
    · rename_i _ h
      simp only [Bool.and_eq_true, Bool.not_eq_true', beq_iff_eq] at h
      rw [h.2, vpRec_cost_top]; simp
    · exact vpGrid_eq_vpRec _ _ _

end InfernoVerif.VP
