import InfernoVerif.Model.BatchB
import InfernoVerif.Lemmas.Batch
import InfernoVerif.Lemmas.Ring
/-! Helper lemmas for the concrete batched models (`Model/BatchB.lean`); core Lean only. -/
namespace InfernoVerif.BatchB
open InfernoVerif.Ring InfernoVerif.Select InfernoVerif.Synapse
open InfernoVerif.Batch (expandB)
variable {α β γ : Type}

/-! ### `seg` -/

theorem seg_getElem? (a n : Nat) (l : List β) (i : Nat) :
    (seg a n l)[i]? = if i < n then l[a + i]? else none := by
  unfold seg
  rw [List.getElem?_take]
  split
  · rw [List.getElem?_drop]
  · rfl

theorem seg_map (a n : Nat) (f : β → γ) (l : List β) : seg a n (l.map f) = (seg a n l).map f := by
  simp [seg, List.map_drop, List.map_take]

theorem seg_length (a n : Nat) (l : List β) (h : a + n ≤ l.length) : (seg a n l).length = n := by
  simp [seg]; omega

theorem seg_length_le (a n : Nat) (l : List β) : (seg a n l).length ≤ n := by
  simp [seg]; omega

theorem mul_seg_bound {b B : Nat} (N : Nat) (hb : b < B) : b * N + N ≤ B * N := by
  have : (b + 1) * N ≤ B * N := Nat.mul_le_mul_right N hb
  rw [Nat.succ_mul] at this
  exact this

theorem seg_zero_all (n : Nat) (l : List β) (h : l.length = n) : seg 0 n l = l := by
  simp [seg, ← h]

theorem seg_zipIdx_map (a n : Nat) (l : List β) (G : β → Nat → γ) :
    seg a n (l.zipIdx.map fun tp => G tp.1 tp.2) =
      (seg a n l).zipIdx.map fun tp => G tp.1 (a + tp.2) := by
  apply List.ext_getElem?
  intro i
  simp only [seg_getElem?, List.getElem?_map, List.getElem?_zipIdx]
  split
  · cases l[a + i]? <;> simp
  · simp

theorem seg_replicate (a n m : Nat) (x : β) (h : a + n ≤ m) :
    seg a n (List.replicate m x) = List.replicate n x := by
  unfold seg
  rw [List.drop_replicate, List.take_replicate]
  congr 1
  omega

/-! ### `expandB` -/

theorem expandB_one (l : List β) : expandB 1 l = l := by simp [expandB]

theorem expandB_length (B : Nat) (l : List β) : (expandB B l).length = B * l.length := by
  simp [expandB]

theorem seg_expandB (B b : Nat) (l : List β) (hb : b < B) :
    seg (b * l.length) l.length (expandB B l) = l := by
  induction B generalizing b with
  | zero => omega
  | succ B ih =>
    unfold expandB at *
    rw [List.replicate_succ, List.flatten_cons]
    cases b with
    | zero => simp [seg]
    | succ b =>
      have := ih b (by omega)
      unfold seg at *
      rw [Nat.succ_mul, List.drop_append]
      have h1 : l.drop (b * l.length + l.length) = [] := by
        apply List.drop_eq_nil_of_le; omega
      rw [h1, List.nil_append]
      have h2 : b * l.length + l.length - l.length = b * l.length := by omega
      rw [h2]
      exact this

theorem any_expandB (B : Nat) (l : List β) (p : β → Bool) (hB : 0 < B) :
    (expandB B l).any p = l.any p := by
  induction B with
  | zero => omega
  | succ B ih =>
    unfold expandB at *
    rw [List.replicate_succ, List.flatten_cons, List.any_append]
    cases B with
    | zero => simp
    | succ B => rw [ih (by omega)]; simp

theorem expandB_map (B : Nat) (f : β → γ) (l : List β) :
    expandB B (l.map f) = (expandB B l).map f := by
  simp [expandB, List.map_flatten]

/-! ### the record restricted to a sample -/

theorem ringSeg_push (a n : Nat) (r : Ring (List β)) (x : List β) (ip : Bool) :
    ringSeg a n (r.push x ip) = (ringSeg a n r).push (seg a n x) ip := by
  cases ip <;>
    simp [ringSeg, Ring.push, Ring.write, Ring.writeInplace, Ring.writeSplice, Ring.incr,
      List.map_set, List.map_take, List.map_drop]

theorem ringSeg_read (a n : Nat) (r : Ring (List β)) (o : Int) :
    (ringSeg a n r).read o = (r.read o).map (seg a n) := by
  simp [ringSeg, Ring.read, List.getElem?_map]

theorem gatherAt_ringSeg (a n : Nat) (r : Ring (List α)) (i : Nat) (off : Int) (hi : i < n) :
    gatherAt (ringSeg a n r) i off = gatherAt r (a + i) off := by
  unfold gatherAt ringSeg
  simp only [List.getElem?_map]
  cases r.data[unwind r.ptr off r.n]? with
  | none => rfl
  | some row => simp [seg_getElem?, hi]

/-! ### §1 synapse -/

theorem seg_zipWith (a n : Nat) (f : α → β → γ) (l : List α) (l' : List β) :
    seg a n (List.zipWith f l l') = List.zipWith f (seg a n l) (seg a n l') := by
  simp [seg, List.drop_zipWith, List.take_zipWith]

theorem seg_overboundB (K : Ops α) (tol : α) (over : Option α) (tr bsel : α → α) (a n : Nat)
    (sel : List (List α)) (res : List (List (Outcome α))) :
    seg a n (overboundB K tol over tr bsel sel res) =
      overboundB K tol over tr bsel (seg a n sel) (seg a n res) := by
  unfold overboundB
  rw [seg_zipWith]

theorem forward_proj (S : SOps α) (c : Cfg α) (s s' : SynB α) (X cur : List α) (b : Nat)
    (hb : b < s.B) (h : s.forward S c X = some (s', cur)) :
    (s.proj b).forward S c (seg (b * s.N) s.N X) = some (s'.proj b, seg (b * s.N) s.N cur) ∧
      s'.B = s.B ∧ s'.N = s.N := by
  unfold SynB.forward at h
  split at h
  · cases h
  · rename_i hlen
    have hlen : X.length = s.B * s.N := by simpa using hlen
    simp only at h
    split at h
    · rename_i row hrow
      cases h
      refine ⟨?_, rfl, rfl⟩
      unfold SynB.forward
      have hl : (seg (b * s.N) s.N X).length = 1 * s.N := by
        rw [seg_length _ _ _ (by rw [hlen]; exact mul_seg_bound s.N hb)]; omega
      simp only [SynB.proj, hl, ne_eq, not_true_eq_false, if_false]
      rw [← seg_map, ← ringSeg_push, ringSeg_read, hrow]
      simp [seg_map]
    · cases h

theorem mem_seg {a n : Nat} {l : List β} {x : β} (h : x ∈ seg a n l) : x ∈ l :=
  List.mem_of_mem_drop (List.mem_of_mem_take h)

/-- `seg` of a position-indexed map, re-indexed inside the segment (positions `< n` only) -/
theorem seg_zipIdx_map' (a n : Nat) (l : List β) (G G' : β → Nat → γ)
    (hG : ∀ x i, i < n → G' x i = G x (a + i)) :
    seg a n (l.zipIdx.map fun tp => G tp.1 tp.2) = (seg a n l).zipIdx.map fun tp => G' tp.1 tp.2 := by
  rw [seg_zipIdx_map]
  apply List.map_congr_left
  intro tp htp
  have h1 := List.snd_lt_of_mem_zipIdx htp
  have h2 := seg_length_le a n l
  rw [hG tp.1 tp.2 (by omega)]

theorem selectRows_seg (K : Ops α) (interp : Interp α) (r : Ring (List α)) (dt tol : α) (off : Int)
    (a n : Nat) (times : List (List α)) :
    seg a n (times.zipIdx.map fun tp => tp.1.map fun t =>
        selectElem K interp (gatherAt r tp.2) dt tol t off) =
      (seg a n times).zipIdx.map fun tp => tp.1.map fun t =>
        selectElem K interp (gatherAt (ringSeg a n r) tp.2) dt tol t off := by
  apply seg_zipIdx_map' a n times
    (fun ts p => ts.map fun t => selectElem K interp (gatherAt r p) dt tol t off)
    (fun ts p => ts.map fun t => selectElem K interp (gatherAt (ringSeg a n r) p) dt tol t off)
  intro ts i hi
  have : gatherAt (ringSeg a n r) i = gatherAt r (a + i) := by
    funext o; exact gatherAt_ringSeg a n r i o hi
  simp only [this]

theorem anyOutOfRange_seg (K : Ops α) (m : Nat) (dt tol : α) (a n : Nat) (times : List (List α))
    (h : anyOutOfRange K m dt tol times = false) :
    anyOutOfRange K m dt tol (seg a n times) = false := by
  unfold anyOutOfRange at *
  rw [List.any_eq_false] at *
  intro ts hts
  exact h ts (mem_seg hts)

/-- `select` with ANY `B·N × D` time tensor: where the batched call returns, the call on sample
`b`'s record with sample `b`'s times returns sample `b`'s part -/
theorem selectTensorB_seg (K : Ops α) (interp : Interp α) (r : Ring (List α)) (dt tol : α)
    (off : Int) (a n : Nat) (times : List (List α)) (rows : List (List (Outcome α)))
    (h : selectTensorB K interp r dt tol times off = .ok rows) :
    selectTensorB K interp (ringSeg a n r) dt tol (seg a n times) off = .ok (seg a n rows) := by
  unfold selectTensorB at *
  split at h
  · cases h
  · rename_i hr
    have hr : anyOutOfRange K r.n dt tol times = false := by simpa using hr
    cases h
    have : (ringSeg a n r).n = r.n := rfl
    rw [this, anyOutOfRange_seg K r.n dt tol a n times hr]
    simp only [Bool.false_eq_true, if_false]
    rw [selectRows_seg]

theorem anyOutOfRange_expandB (K : Ops α) (m : Nat) (dt tol : α) (B : Nat) (sel : List (List α))
    (hB : 0 < B) : anyOutOfRange K m dt tol (expandB B sel) = anyOutOfRange K m dt tol sel := by
  unfold anyOutOfRange
  exact any_expandB B sel _ hB

theorem peekRows_seg (row : List α) (a n : Nat) (sel : List (List α)) :
    seg a n (sel.zipIdx.map fun tp => tp.1.map fun _ => ofOption row[tp.2]?) =
      (seg a n sel).zipIdx.map fun tp => tp.1.map fun _ => ofOption (seg a n row)[tp.2]? := by
  apply seg_zipIdx_map' a n sel
    (fun (ts : List α) (p : Nat) => ts.map fun (_ : α) => ofOption row[p]?)
    (fun (ts : List α) (p : Nat) => ts.map fun (_ : α) => ofOption (seg a n row)[p]?)
  intro ts i hi
  simp only [seg_getElem?, hi, if_true]

/-- `_synparam_at` with the selector EXPANDED over the batch: the call on sample `b`'s record with
the unexpanded selector (= the expansion over a batch of one) is sample `b`'s part of the batched
call — values, the `ValueError` of the range test, and missing slots alike. -/
theorem synparamAtB_proj (K : Ops α) (interp : Interp α) (r : Ring (List α)) (dt dur tol : α)
    (over : Option α) (tr : α → α) (sel : List (List α)) (B b : Nat) (hb : b < B) :
    synparamAtB K interp (ringSeg (b * sel.length) sel.length r) dt dur tol over tr sel =
      (synparamAtB K interp r dt dur tol over tr (expandB B sel)).map
        (seg (b * sel.length) sel.length) := by
  unfold synparamAtB
  have hn : (ringSeg (b * sel.length) sel.length r).n = r.n := rfl
  rw [hn]
  split
  · -- recordsz == 1
    rw [ringSeg_read]
    cases hrow : r.read 1 with
    | none => rfl
    | some row =>
      simp only [Option.map_some, Outcome.map]
      congr 1
      rw [seg_overboundB, seg_expandB B b sel hb, peekRows_seg, seg_expandB B b sel hb]
  · -- delayed access
    unfold selectTensorB
    dsimp only
    rw [hn, ← expandB_map, anyOutOfRange_expandB K r.n dt tol B _ (by omega)]
    split
    · rfl
    · simp only [Outcome.map]
      congr 1
      rw [seg_overboundB, seg_expandB B b sel hb]
      congr 1
      have hl : (sel.map fun x => x.map fun t => clamp K t (K.ofInt 0) dur).length = sel.length := by
        simp
      rw [← hl, selectRows_seg, seg_expandB B b _ hb]

theorem runO_sim {σ ι ω σ' ι' ω' : Type} (stepB : σ → ι → Option (σ × ω))
    (step1 : σ' → ι' → Option (σ' × ω')) (Inv : σ → Prop) (π : σ → σ') (πi : ι → ι') (πo : ω → ω')
    (hstep : ∀ s x s' o, Inv s → stepB s x = some (s', o) →
      Inv s' ∧ step1 (π s) (πi x) = some (π s', πo o)) :
    ∀ (xs : List ι) (s s' : σ) (os : List ω), Inv s → runO stepB s xs = some (s', os) →
      Inv s' ∧ runO step1 (π s) (xs.map πi) = some (π s', os.map πo) := by
  intro xs
  induction xs with
  | nil =>
    intro s s' os hI h
    simp only [runO, Option.some.injEq, Prod.mk.injEq] at h
    obtain ⟨rfl, rfl⟩ := h
    exact ⟨hI, rfl⟩
  | cons x rest ih =>
    intro s s' os hI h
    simp only [runO] at h
    cases h1 : stepB s x with
    | none => rw [h1] at h; cases h
    | some so =>
      obtain ⟨s1, o⟩ := so
      rw [h1] at h
      simp only at h
      cases h2 : runO stepB s1 rest with
      | none => rw [h2] at h; cases h
      | some r =>
        obtain ⟨s2, os2⟩ := r
        rw [h2] at h
        simp only [Option.some.injEq, Prod.mk.injEq] at h
        obtain ⟨rfl, rfl⟩ := h
        obtain ⟨hI1, hs1⟩ := hstep s x s1 o hI h1
        obtain ⟨hI2, hr⟩ := ih s1 s2 os2 hI1 h2
        refine ⟨hI2, ?_⟩
        simp only [List.map_cons, runO, hs1, hr]

theorem step_proj (S : SOps α) (c : Cfg α) (sel : List (List α)) (s s' : SynB α) (X cur : List α)
    (del : Outcome (List (List (Outcome α)))) (b : Nat) (hb : b < s.B) (hsel : sel.length = s.N)
    (h : s.step S c sel X = some (s', (cur, del))) :
    (s.proj b).step S c sel (seg (b * s.N) s.N X) =
        some (s'.proj b, (seg (b * s.N) s.N cur, del.map (seg (b * s.N) s.N))) ∧
      s'.B = s.B ∧ s'.N = s.N := by
  unfold SynB.step at h
  cases hf : s.forward S c X with
  | none => rw [hf] at h; cases h
  | some r =>
    obtain ⟨s1, cur1⟩ := r
    rw [hf] at h
    simp only [Option.some.injEq, Prod.mk.injEq] at h
    obtain ⟨rfl, rfl, rfl⟩ := h
    obtain ⟨hp, hB, hN⟩ := forward_proj S c s s1 X cur1 b hb hf
    refine ⟨?_, hB, hN⟩
    unfold SynB.step
    rw [hp]
    simp only [Option.some.injEq, Prod.mk.injEq, true_and]
    unfold SynB.currentAt
    have h1 : (s1.proj b).B = 1 := rfl
    have h2 : (s1.proj b).spike = ringSeg (b * sel.length) sel.length s1.spike := by
      simp [SynB.proj, hN, hsel]
    rw [h1, expandB_one, h2, synparamAtB_proj S.K _ s1.spike c.dt c.delay c.tol c.curOver _ sel s1.B b
      (by omega), hsel]

/-! ### §2 dense connection -/

theorem seg_append_left (a n : Nat) (l l' : List β) (h : a + n ≤ l.length) :
    seg a n (l ++ l') = seg a n l := by
  unfold seg
  rw [List.drop_append_of_le_length (by omega), List.take_append_of_le_length (by simp; omega)]

theorem seg_append_right (n : Nat) (l l' : List β) (h : l'.length = n) :
    seg l.length n (l ++ l') = l' := by
  unfold seg
  rw [List.drop_left, ← h, List.take_length]

theorem length_flatMap_range (B n : Nat) (g : Nat → List β) (hg : ∀ k, (g k).length = n) :
    ((List.range B).flatMap g).length = B * n := by
  induction B with
  | zero => simp
  | succ B ih => rw [List.range_succ, List.flatMap_append, List.length_append, ih]; simp [hg, Nat.succ_mul]

theorem seg_flatMap_range (B b n : Nat) (g : Nat → List β) (hg : ∀ k, (g k).length = n) (hb : b < B) :
    seg (b * n) n ((List.range B).flatMap g) = g b := by
  induction B with
  | zero => omega
  | succ B ih =>
    rw [List.range_succ, List.flatMap_append]
    have hl := length_flatMap_range B n g hg
    by_cases h : b < B
    · rw [seg_append_left _ _ _ _ (by rw [hl]; exact mul_seg_bound n h)]
      exact ih h
    · have : b = B := by omega
      subst this
      rw [← hl]
      simp only [List.flatMap_cons, List.flatMap_nil, List.append_nil]
      exact seg_append_right n _ _ (hg b)

theorem length_addBiasK (K : Ops α) (bias : Option (List α)) (y : List α) (O : Nat)
    (hy : y.length = O) (hb : biasOk bias O = true) : (addBiasK K bias y).length = O := by
  unfold addBiasK
  cases bias with
  | none => exact hy
  | some bv =>
    simp only [biasOk, beq_iff_eq] at hb
    simp [hy, hb]

theorem rowsHave_seg (m : List (List α)) (c a n : Nat) (h : rowsHave m c = true) :
    rowsHave (seg a n m) c = true := by
  unfold rowsHave at *
  rw [List.all_eq_true] at *
  intro row hrow
  exact h row (mem_seg hrow)

theorem seg_seg_zero (a n : Nat) (l : List β) (h : a + n ≤ l.length) :
    seg (0 * n) n (seg a n l) = seg a n l := by
  rw [Nat.zero_mul]
  exact seg_zero_all n _ (seg_length a n l h)

/-- `F.linear` on the flat batch: sample `b`'s rows of the output are the batch-1 output on sample
`b`'s rows of the input -/
theorem linearB_proj (K : Ops α) (B I : Nat) (W : List (List α)) (bias : Option (List α))
    (x y : List α) (b : Nat) (hb : b < B) (h : linearB K B I W bias x = some y) :
    linearB K 1 I W bias (seg (b * I) I x) = some (seg (b * W.length) W.length y) := by
  unfold linearB at *
  split at h
  · rename_i hg
    simp only [Bool.and_eq_true, beq_iff_eq] at hg
    obtain ⟨⟨hx, hW⟩, hbias⟩ := hg
    cases h
    have hbound : b * I + I ≤ x.length := by rw [hx]; exact mul_seg_bound I hb
    have hl : (seg (b * I) I x).length = 1 * I := by rw [seg_length _ _ _ hbound]; omega
    simp only [hl, beq_self_eq_true, hW, hbias, Bool.and_self, if_true, Option.some.injEq]
    rw [seg_flatMap_range B b W.length _ (fun k => length_addBiasK K bias _ _ (by simp) hbias) hb]
    simp only [List.range_one, List.flatMap_cons, List.flatMap_nil, List.append_nil]
    rw [seg_seg_zero _ _ _ hbound]
  · cases h

/-- the `einsum "b i o, o i -> b o"` form on the `B·I × O` tensor of delayed currents -/
theorem einsumB_proj (K : Ops α) (B I : Nat) (W : List (List α)) (bias : Option (List α))
    (x : List (List α)) (y : List α) (b : Nat) (hb : b < B) (h : einsumB K B I W bias x = some y) :
    einsumB K 1 I W bias (seg (b * I) I x) = some (seg (b * W.length) W.length y) := by
  unfold einsumB at *
  split at h
  · rename_i hg
    simp only [Bool.and_eq_true, beq_iff_eq] at hg
    obtain ⟨⟨⟨hx, hxr⟩, hW⟩, hbias⟩ := hg
    cases h
    have hbound : b * I + I ≤ x.length := by rw [hx]; exact mul_seg_bound I hb
    have hl : (seg (b * I) I x).length = 1 * I := by rw [seg_length _ _ _ hbound]; omega
    simp only [hl, beq_self_eq_true, hW, hbias, rowsHave_seg x W.length (b * I) I hxr, Bool.and_self,
      if_true, Option.some.injEq]
    rw [seg_flatMap_range B b W.length _ (fun k => length_addBiasK K bias _ _ (by simp) hbias) hb]
    simp only [List.range_one, List.flatMap_cons, List.flatMap_nil, List.append_nil]
    rw [seg_seg_zero _ _ _ hbound]
  · cases h

theorem okRow_eq_some (l : List (Outcome α)) (v : List α) :
    okRow l = some v ↔ l = v.map Outcome.ok := by
  induction l generalizing v with
  | nil => cases v <;> simp [okRow]
  | cons o rest ih =>
    cases o with
    | ok x =>
      cases v with
      | nil => simp [okRow]
      | cons y ys =>
        simp only [okRow, Option.map_eq_some_iff, List.map_cons, List.cons.injEq, Outcome.ok.injEq]
        constructor
        · rintro ⟨w, hw, rfl, rfl⟩
          exact ⟨rfl, (ih w).mp hw⟩
        · rintro ⟨rfl, h⟩
          exact ⟨ys, (ih ys).mpr h, rfl, rfl⟩
    | valueError => cases v <;> simp [okRow]
    | noSlot => cases v <;> simp [okRow]

theorem okRows_eq_some (l : List (List (Outcome α))) (v : List (List α)) :
    okRows l = some v ↔ l = v.map (·.map Outcome.ok) := by
  induction l generalizing v with
  | nil => cases v <;> simp [okRows]
  | cons r rest ih =>
    cases v with
    | nil =>
      simp only [okRows, List.map_nil, reduceCtorEq, iff_false]
      split <;> simp
    | cons y ys =>
      simp only [okRows, List.map_cons, List.cons.injEq]
      constructor
      · intro h
        split at h
        · rename_i v' vs' h1 h2
          simp only [Option.some.injEq, List.cons.injEq] at h
          obtain ⟨rfl, rfl⟩ := h
          exact ⟨(okRow_eq_some r v').mp h1, (ih vs').mp h2⟩
        · cases h
      · rintro ⟨h1, h2⟩
        rw [(okRow_eq_some r y).mpr h1, (ih ys).mpr h2]

theorem collectO_seg (a n : Nat) (o : Outcome (List (List (Outcome α)))) (x : List (List α))
    (h : collectO o = some x) : collectO (o.map (seg a n)) = some (seg a n x) := by
  cases o with
  | ok rows =>
    simp only [collectO, Outcome.map] at *
    rw [okRows_eq_some] at *
    rw [h, seg_map]
  | valueError => cases h
  | noSlot => cases h

theorem selectorIO_length (I : Nat) (d : List (List α)) : (selectorIO I d).length = I := by
  simp [selectorIO]

theorem denseForward_proj (S : SOps α) (cfg : Cfg α) (c c' : DenseB α) (X Y : List α) (b : Nat)
    (hb : b < c.B) (hI : c.Inv) (h : c.forward S cfg X = some (c', Y)) :
    (c.proj b).forward S cfg (seg (b * c.I) c.I X) =
        some (c'.proj b, seg (b * c.W.length) c.W.length Y) ∧
      c'.Inv ∧ c'.B = c.B ∧ c'.I = c.I ∧ c'.W = c.W := by
  obtain ⟨hB, hN⟩ := hI
  unfold DenseB.forward at h
  cases hf : c.syn.forward S cfg X with
  | none => rw [hf] at h; cases h
  | some r =>
    obtain ⟨s1, res⟩ := r
    rw [hf] at h
    simp only at h
    obtain ⟨hp, hB1, hN1⟩ := forward_proj S cfg c.syn s1 X res b (by omega) hf
    rw [hN] at hp
    unfold DenseB.forward
    have hps : (c.proj b).syn = c.syn.proj b := rfl
    rw [hps, hp]
    simp only
    cases hd : c.delay with
    | none =>
      rw [hd] at h
      simp only [Option.map_eq_some_iff] at h
      obtain ⟨y, hy, hc⟩ := h
      simp only [Prod.mk.injEq] at hc
      obtain ⟨rfl, rfl⟩ := hc
      have hpd : (c.proj b).delay = none := hd
      rw [hpd]
      simp only
      have := linearB_proj S.K c.B c.I c.W c.bias res y b hb hy
      refine ⟨?_, ⟨by simp [hB1, hB], by simp [hN1, hN]⟩, by simp⟩
      show Option.map _ (linearB S.K 1 c.I c.W c.bias _) = _
      rw [this]
      rfl
    | some d =>
      rw [hd] at h
      simp only at h
      cases hcol : collectO (s1.currentAt S cfg (c.selector d)) with
      | none => rw [hcol] at h; cases h
      | some x =>
        rw [hcol] at h
        simp only [Option.map_eq_some_iff] at h
        obtain ⟨y, hy, hc⟩ := h
        simp only [Prod.mk.injEq] at hc
        obtain ⟨rfl, rfl⟩ := hc
        have hpd : (c.proj b).delay = some d := hd
        rw [hpd]
        simp only
        have hsel : (c.proj b).selector d = selectorIO c.I d := by
          simp [DenseB.selector, DenseB.proj, expandB_one]
        have hlen : (selectorIO c.I d).length = s1.N := by rw [selectorIO_length, hN1, hN]
        have hcur : (s1.proj b).currentAt S cfg (selectorIO c.I d) =
            (s1.currentAt S cfg (c.selector d)).map (seg (b * c.I) c.I) := by
          unfold SynB.currentAt DenseB.selector
          have h2 : (s1.proj b).spike =
              ringSeg (b * (selectorIO c.I d).length) (selectorIO c.I d).length s1.spike := by
            simp [SynB.proj, hlen]
          rw [h2, synparamAtB_proj S.K _ s1.spike cfg.dt cfg.delay cfg.tol cfg.curOver _
            (selectorIO c.I d) c.B b hb, selectorIO_length]
        rw [hsel, hcur, collectO_seg _ _ _ x hcol]
        simp only
        have := einsumB_proj S.K c.B c.I c.W c.bias x y b hb hy
        refine ⟨?_, ⟨by simp [hB1, hB], by simp [hN1, hN]⟩, by simp⟩
        show Option.map _ (einsumB S.K 1 c.I c.W c.bias _) = _
        rw [this]
        rfl

/-! ### §3 neuron group -/

variable {θ V A I O S : Type}

theorem zip_getElem? (l : List β) (l' : List γ) (i : Nat) :
    (l.zip l')[i]? = (l[i]?).bind fun a => (l'[i]?).map fun c => (a, c) := by
  rw [List.zip_eq_zipWith, List.getElem?_zipWith']
  cases l[i]? <;> simp

/-- what a step does to position `b`: a function of `s.vs[b]?`, the input at `b` and the shared
adaptation only -/
theorem neuStep_getElem? (dyn : θ → A → V → I → V × O) (prop : θ → A → V → O → A) (red : List A → A)
    (p : θ) (s : NeuB V A) (ax : Bool × List I) (b : Nat) :
    (NeuB.step dyn prop red p s ax).1.vs[b]? =
        ((s.vs[b]?).bind fun v => (ax.2[b]?).map fun x => (dyn p s.adapt v x).1) ∧
      (NeuB.step dyn prop red p s ax).2[b]? =
        ((s.vs[b]?).bind fun v => (ax.2[b]?).map fun x => (dyn p s.adapt v x).2) := by
  unfold NeuB.step
  simp only [List.getElem?_map, zip_getElem?]
  cases s.vs[b]? <;> cases ax.2[b]? <;> simp

theorem neuStep_adapt_frozen (dyn : θ → A → V → I → V × O) (prop : θ → A → V → O → A)
    (red : List A → A) (p : θ) (s : NeuB V A) (xs : List I) :
    (NeuB.step dyn prop red p s (false, xs)).1.adapt = s.adapt := by
  simp [NeuB.step]

theorem neuStep_proj_frozen (dyn : θ → A → V → I → V × O) (prop : θ → A → V → O → A)
    (red : List A → A) (p : θ) (s : NeuB V A) (xs : List I) (b : Nat) :
    NeuB.step dyn prop red p (s.proj b) (false, (xs[b]?).toList) =
      ((NeuB.step dyn prop red p s (false, xs)).1.proj b,
       ((NeuB.step dyn prop red p s (false, xs)).2[b]?).toList) := by
  have h := neuStep_getElem? dyn prop red p s (false, xs) b
  unfold NeuB.proj
  rw [h.1, h.2, neuStep_adapt_frozen]
  unfold NeuB.step
  cases s.vs[b]? <;> cases xs[b]? <;> simp

/-! ### §4 Σ-reduction of tensor-valued updates -/

theorem vadd_comm (a b : List Int) : vadd a b = vadd b a := by
  unfold vadd
  exact List.zipWith_comm_of_comm (fun x y => Int.add_comm x y)

theorem vadd_assoc (a b c : List Int) : vadd (vadd a b) c = vadd a (vadd b c) := by
  unfold vadd
  induction a generalizing b c with
  | nil => simp
  | cons x xs ih =>
    cases b with
    | nil => simp
    | cons y ys =>
      cases c with
      | nil => simp
      | cons z zs => simp [ih, Int.add_assoc]

theorem vadd_length (a b : List Int) (P : Nat) (ha : a.length = P) (hb : b.length = P) :
    (vadd a b).length = P := by
  simp [vadd, ha, hb]

theorem vadd_zero_left (P : Nat) (a : List Int) (ha : a.length = P) :
    vadd (List.replicate P 0) a = a := by
  unfold vadd
  induction a generalizing P with
  | nil => simp
  | cons x xs ih =>
    cases P with
    | zero => simp at ha
    | succ P => simp [List.replicate_succ, ih P (by simpa using ha)]

theorem vadd_zero_right (P : Nat) (a : List Int) (ha : a.length = P) :
    vadd a (List.replicate P 0) = a := by
  rw [vadd_comm, vadd_zero_left P a ha]

theorem vadd4 (a b c d : List Int) : vadd (vadd a b) (vadd c d) = vadd (vadd a c) (vadd b d) := by
  rw [vadd_assoc, ← vadd_assoc b c d, vadd_comm b c, vadd_assoc c b d, ← vadd_assoc]

theorem foldl_vadd_shift (rows : List (List Int)) (a r : List Int) :
    rows.foldl vadd (vadd a r) = vadd r (rows.foldl vadd a) := by
  induction rows generalizing a with
  | nil => simp [vadd_comm]
  | cons x rest ih =>
    simp only [List.foldl_cons]
    rw [vadd_assoc, vadd_comm r x, ← vadd_assoc, ih]

theorem sumDim0_nil (P : Nat) : sumDim0 P [] = List.replicate P 0 := rfl

theorem sumDim0_cons (P : Nat) (r : List Int) (rows : List (List Int)) :
    sumDim0 P (r :: rows) = vadd r (sumDim0 P rows) := by
  unfold sumDim0
  rw [List.foldl_cons, foldl_vadd_shift]

theorem sumDim0_length (P : Nat) (rows : List (List Int)) (h : ∀ r ∈ rows, r.length = P) :
    (sumDim0 P rows).length = P := by
  induction rows with
  | nil => simp [sumDim0_nil]
  | cons r rest ih =>
    rw [sumDim0_cons]
    exact vadd_length _ _ P (h r (by simp)) (ih fun r' hr' => h r' (by simp [hr']))

theorem sumDim0_single (P : Nat) (r : List Int) (h : r.length = P) : sumDim0 P [r] = r := by
  rw [sumDim0_cons, sumDim0_nil, vadd_zero_right P r h]

/-- `Σ_b (x_b + y_b) = Σ_b x_b + Σ_b y_b` for tensors -/
theorem sumDim0_zipWith (P : Nat) (L₁ L₂ : List (List Int)) (hl : L₁.length = L₂.length) :
    sumDim0 P (List.zipWith vadd L₁ L₂) = vadd (sumDim0 P L₁) (sumDim0 P L₂) := by
  induction L₁ generalizing L₂ with
  | nil =>
    cases L₂ with
    | nil => simp [sumDim0_nil, vadd_zero_left P _ (List.length_replicate)]
    | cons _ _ => simp at hl
  | cons r₁ rest₁ ih =>
    cases L₂ with
    | nil => simp at hl
    | cons r₂ rest₂ =>
      rw [List.zipWith_cons_cons, sumDim0_cons, sumDim0_cons, sumDim0_cons,
        ih rest₂ (by simpa using hl), vadd4]

theorem trainStepB_length (u : S → I → List Int) (P : Nat) (hu : ∀ s x, (u s x).length = P)
    (acc : List Int) (hacc : acc.length = P) (Ss : List S) (Xs : List I) :
    (trainStepB u P acc Ss Xs).length = P := by
  unfold trainStepB
  apply vadd_length _ _ P hacc
  apply sumDim0_length
  intro r hr
  simp only [List.mem_map] at hr
  obtain ⟨sx, _, rfl⟩ := hr
  exact hu _ _

theorem trainRunB_shift (step : θ → S → I → S × O) (u : S → I → List Int) (P : Nat) (p : θ)
    (hu : ∀ s x, (u s x).length = P) :
    ∀ (XXs : List (List I)) (acc : List Int) (Ss : List S), acc.length = P →
      (trainRunB step u P p acc Ss XXs).1 =
        vadd acc (trainRunB step u P p (List.replicate P 0) Ss XXs).1 := by
  intro XXs
  induction XXs with
  | nil => intro acc Ss hacc; simp [trainRunB, vadd_zero_right P acc hacc]
  | cons Xs rest ih =>
    intro acc Ss hacc
    simp only [trainRunB]
    rw [ih _ _ (trainStepB_length u P hu acc hacc Ss Xs),
      ih (trainStepB u P (List.replicate P 0) Ss Xs) _
        (trainStepB_length u P hu _ (List.length_replicate) Ss Xs)]
    unfold trainStepB
    rw [vadd_zero_left P _ (sumDim0_length P _ (by
      intro r hr
      simp only [List.mem_map] at hr
      obtain ⟨sx, _, rfl⟩ := hr
      exact hu _ _)), vadd_assoc]

theorem aloneAcc_cons (step : θ → S → I → S × O) (u : S → I → List Int) (P : Nat) (p : θ)
    (hu : ∀ s x, (u s x).length = P) (s : S) (b : Nat) (Xs : List I) (rest : List (List I)) (x : I)
    (hx : Xs[b]? = some x) :
    aloneAcc step u P p s b (Xs :: rest) =
      vadd (u s x) (aloneAcc step u P p (step p s x).1 b rest) := by
  unfold aloneAcc
  simp only [List.map_cons, hx, Option.toList_some, trainRunB]
  have h1 : trainStepB u P (List.replicate P 0) [s] [x] = u s x := by
    simp [trainStepB, sumDim0_single P _ (hu s x), vadd_zero_left P _ (hu s x)]
  have h2 : (InfernoVerif.Batch.stepB step p [s] [x]).1 = [(step p s x).1] := by
    simp [InfernoVerif.Batch.stepB]
  rw [h1, h2, trainRunB_shift step u P p hu _ _ _ (hu s x)]

theorem trainRunB_sum (step : θ → S → I → S × O) (u : S → I → List Int) (P : Nat) (p : θ)
    (hu : ∀ s x, (u s x).length = P) :
    ∀ (XXs : List (List I)) (acc : List Int) (Ss : List S), acc.length = P →
      (∀ Xs ∈ XXs, Xs.length = Ss.length) →
      (trainRunB step u P p acc Ss XXs).1 =
        vadd acc (sumDim0 P (Ss.zipIdx.map fun sb => aloneAcc step u P p sb.1 sb.2 XXs)) := by
  intro XXs
  induction XXs with
  | nil =>
    intro acc Ss hacc _
    have hz : ∀ (l : List (S × Nat)),
        sumDim0 P (l.map fun sb => aloneAcc step u P p sb.1 sb.2 []) = List.replicate P 0 := by
      intro l
      induction l with
      | nil => rfl
      | cons a l ih =>
        rw [List.map_cons, sumDim0_cons, ih]
        simp [aloneAcc, trainRunB, vadd_zero_left P _ (List.length_replicate)]
    rw [hz, vadd_zero_right P acc hacc]
    rfl
  | cons Xs rest ih =>
    intro acc Ss hacc hX
    have hXs : Xs.length = Ss.length := hX Xs (by simp)
    simp only [trainRunB]
    have hSs' : (InfernoVerif.Batch.stepB step p Ss Xs).1.length = Ss.length := by
      simp [InfernoVerif.Batch.stepB, hXs]
    rw [ih _ _ (trainStepB_length u P hu acc hacc Ss Xs)
      (fun Xs' h' => by rw [hSs']; exact hX Xs' (by simp [h']))]
    unfold trainStepB
    rw [vadd_assoc, ← sumDim0_zipWith P _ _ (by simp [hSs', hXs])]
    congr 2
    apply List.ext_getElem?
    intro i
    simp only [List.getElem?_zipWith, List.getElem?_map, List.getElem?_zipIdx, zip_getElem?,
      InfernoVerif.Batch.stepB, Nat.zero_add]
    cases hs : Ss[i]? with
    | none => simp
    | some s =>
      have hi : i < Xs.length := by
        rw [hXs]; exact (List.getElem?_eq_some_iff.mp hs).1
      have hx : Xs[i]? = some Xs[i] := List.getElem?_eq_getElem hi
      simp [hx, aloneAcc_cons step u P p hu s i Xs rest Xs[i] hx]

/-! ### totality on well-formed records -/

theorem read_isSome (r : Ring β) (h : r.WF) (o : Int) : ∃ v, r.read o = some v := by
  obtain ⟨hn, _, hd⟩ := h
  unfold Ring.read
  have : unwind r.ptr o r.n < r.data.length := by rw [hd]; exact unwind_lt hn
  exact ⟨_, List.getElem?_eq_getElem this⟩

theorem forward_total (S : SOps α) (c : Cfg α) (s : SynB α) (X : List α) (hwf : s.spike.WF)
    (hX : X.length = s.B * s.N) :
    ∃ s' cur, s.forward S c X = some (s', cur) ∧ s'.spike.WF := by
  unfold SynB.forward
  have hw := push_wf s.spike hwf (X.map (toSpike S.K)) c.inplace
  obtain ⟨row, hrow⟩ := read_isSome _ hw 1
  simp only [hX, ne_eq, not_true_eq_false, if_false, hrow]
  exact ⟨_, _, rfl, hw⟩

theorem step_total (S : SOps α) (c : Cfg α) (sel : List (List α)) (s : SynB α) (X : List α)
    (hwf : s.spike.WF) (hX : X.length = s.B * s.N) :
    ∃ s' o, s.step S c sel X = some (s', o) ∧ s'.spike.WF := by
  obtain ⟨s', cur, hf, hw⟩ := forward_total S c s X hwf hX
  unfold SynB.step
  rw [hf]
  exact ⟨_, _, rfl, hw⟩

theorem synRun_total (S : SOps α) (c : Cfg α) (sel : List (List α)) (XXs : List (List α))
    (s : SynB α) (hwf : s.spike.WF) (hX : ∀ X ∈ XXs, X.length = s.B * s.N) :
    ∃ s' outs, runO (SynB.step S c sel) s XXs = some (s', outs) := by
  induction XXs generalizing s with
  | nil => exact ⟨_, _, rfl⟩
  | cons X rest ih =>
    obtain ⟨s1, o, h1, hw1⟩ := step_total S c sel s X hwf (hX X (by simp))
    have hBN : s1.B = s.B ∧ s1.N = s.N := by
      unfold SynB.step at h1
      cases hf : s.forward S c X with
      | none => rw [hf] at h1; cases h1
      | some r =>
        obtain ⟨s2, cur⟩ := r
        rw [hf] at h1
        simp only [Option.some.injEq, Prod.mk.injEq] at h1
        obtain ⟨rfl, _⟩ := h1
        unfold SynB.forward at hf
        split at hf
        · cases hf
        · simp only at hf
          split at hf
          · cases hf; exact ⟨rfl, rfl⟩
          · cases hf
    obtain ⟨s2, outs, h2⟩ := ih s1 hw1 (fun X' h' => by rw [hBN.1, hBN.2]; exact hX X' (by simp [h']))
    exact ⟨s2, o :: outs, by simp [runO, h1, h2]⟩

theorem init_wf (S : SOps α) (c : Cfg α) (B N : Nat) : (SynB.init S c B N).spike.WF := by
  have hn : 0 < c.n S := by
    unfold Cfg.n recordsz
    exact Nat.lt_of_lt_of_le Nat.one_pos (Nat.le_max_right _ _)
  exact ⟨hn, hn, by simp [SynB.init]⟩

theorem init_proj (S : SOps α) (c : Cfg α) (B N b : Nat) (hb : b < B) :
    (SynB.init S c B N).proj b = SynB.init S c 1 N := by
  simp [SynB.init, SynB.proj, ringSeg, seg_replicate _ _ _ _ (mul_seg_bound N hb)]

end InfernoVerif.BatchB
