import InfernoVerif.Model.Isi
import Mathlib.Tactic.Linarith
import Mathlib.Tactic.Ring
import Mathlib.Algebra.Order.Field.Rat
/-!
# Helper lemmas for the inter-spike-interval theorems of C20

Splitting the flattened `nonzero` output at its zeros recovers the per-train index groups;
`(nz − 1)·dt` are the spike times; `pad_sequence(…)[:, 1:]` then `diff` on one train is
"successive differences, then `none`"; hence `isiLast = specIsiLast`; `integrate ∘ diffs = id`.
-/
namespace InfernoVerif.Isi

/-- A group as `nonzero` produces it for one padded row: the pad's index 0, then non-zero indices. -/
def ZeroHeaded (g : List Nat) : Prop := ∃ t, g = 0 :: t ∧ ∀ v ∈ t, v ≠ 0

theorem nzFrom_ge (off : Nat) (row : List Bool) : ∀ v ∈ nzFrom off row, off ≤ v := by
  induction row generalizing off with
  | nil => simp [nzFrom]
  | cons b bs ih =>
    intro v hv
    simp only [nzFrom] at hv
    split at hv
    · rcases List.mem_cons.mp hv with h | h
      · omega
      · have := ih (off + 1) v h; omega
    · have := ih (off + 1) v hv; omega

theorem nzFrom_padRow (row : List Bool) : nzFrom 0 (padRow row) = 0 :: nzFrom 1 row := by
  simp [padRow, nzFrom]

theorem zeroHeaded_pad (row : List Bool) : ZeroHeaded (nzFrom 0 (padRow row)) :=
  ⟨nzFrom 1 row, nzFrom_padRow row, fun v hv => by have := nzFrom_ge 1 row v hv; omega⟩

theorem zeroPos_append_nonzero (off : Nat) (t rest : List Nat) (h : ∀ v ∈ t, v ≠ 0) :
    zeroPos off (t ++ rest) = zeroPos (off + t.length) rest := by
  induction t generalizing off with
  | nil => simp
  | cons v t ih =>
    have hv : v ≠ 0 := h v (by simp)
    simp only [List.cons_append, zeroPos, hv, if_false, List.length_cons]
    rw [ih (off + 1) (fun u hu => h u (by simp [hu]))]
    congr 1; omega

theorem zeroPos_zeroHeaded (off : Nat) (g rest : List Nat) (h : ZeroHeaded g) :
    zeroPos off (g ++ rest) = off :: zeroPos (off + g.length) rest := by
  obtain ⟨t, rfl, ht⟩ := h
  simp only [List.cons_append, zeroPos, if_true, List.length_cons]
  rw [zeroPos_append_nonzero (off + 1) t rest ht]
  congr 2; omega

theorem tensorSplitFrom_groups (pre g : List Nat) (gs : List (List Nat))
    (hgs : ∀ h ∈ gs, ZeroHeaded h) :
    tensorSplitFrom (pre ++ g ++ gs.flatten) pre.length (zeroPos (pre.length + g.length) gs.flatten)
      = g :: gs := by
  induction gs generalizing pre g with
  | nil => simp [zeroPos, tensorSplitFrom]
  | cons h gs ih =>
    have hh : ZeroHeaded h := hgs h (by simp)
    rw [List.flatten_cons, zeroPos_zeroHeaded _ _ _ hh]
    simp only [tensorSplitFrom]
    have e1 : ((pre ++ g ++ (h ++ gs.flatten)).drop pre.length).take (pre.length + g.length - pre.length) = g := by
      simp
    rw [e1]
    have := ih (pre ++ g) h (fun k hk => hgs k (by simp [hk]))
    simp only [List.length_append, List.append_assoc] at this ⊢
    rw [this]

theorem tensorSplitFrom_map {α β : Type} (f : α → β) (x : List α) (s : Nat) (ss : List Nat) :
    tensorSplitFrom (x.map f) s ss = (tensorSplitFrom x s ss).map (List.map f) := by
  induction ss generalizing s with
  | nil => simp [tensorSplitFrom]
  | cons s' ss ih => simp [tensorSplitFrom, ih]

/-- Splitting the flattened `nonzero` output at its zeros recovers the per-row groups. -/
theorem split_recovers_rows (row : List Bool) (rows : List (List Bool)) :
    tensorSplit (nonzeroLast ((row :: rows).map padRow))
        ((zeroPos 0 (nonzeroLast ((row :: rows).map padRow))).drop 1)
      = (row :: rows).map fun r => nzFrom 0 (padRow r) := by
  have hfl : nonzeroLast ((row :: rows).map padRow)
      = nzFrom 0 (padRow row) ++ (rows.map fun r => nzFrom 0 (padRow r)).flatten := by
    simp [nonzeroLast, List.flatMap_def, Function.comp_def]
  rw [hfl, zeroPos_zeroHeaded 0 _ _ (zeroHeaded_pad row)]
  simp only [List.drop_succ_cons, List.drop_zero, tensorSplit, List.map_cons]
  have := tensorSplitFrom_groups [] (nzFrom 0 (padRow row)) (rows.map fun r => nzFrom 0 (padRow r))
    (by intro h hh; obtain ⟨r, _, rfl⟩ := List.mem_map.mp hh; exact zeroHeaded_pad r)
  simpa using this


/-- `(nz − 1) * step_time` on the non-pad indices of a row are its spike times. -/
theorem times_of_nzFrom (dt : Rat) (off : Nat) (row : List Bool) :
    (nzFrom (off + 1) row).map (fun (v : Nat) => (((v : Int) - 1 : Int) : Rat) * dt)
      = spikeTimesFrom off dt row := by
  induction row generalizing off with
  | nil => simp [nzFrom, spikeTimesFrom]
  | cons b bs ih =>
    simp only [nzFrom, spikeTimesFrom]
    split
    · simp only [List.map_cons, ih (off + 1)]
      congr 2
      push_cast; ring
    · exact ih (off + 1)

theorem maxLen_le {α : Type} (l : List (List α)) : ∀ r ∈ l, r.length ≤ maxLen l := by
  induction l with
  | nil => simp
  | cons a l ih =>
    intro r hr
    simp only [maxLen]
    rcases List.mem_cons.mp hr with h | h
    · subst h; omega
    · have := ih r h; omega

theorem maxLen_cons_map {α : Type} (f : List Bool → α) (g : List Bool → List α) (row : List Bool) (rows : List (List Bool)) :
    maxLen ((row :: rows).map fun r => f r :: g r) = maxLen ((row :: rows).map g) + 1 := by
  induction rows generalizing row with
  | nil => simp [maxLen]
  | cons r rows ih =>
    have := ih r
    simp only [List.map_cons, maxLen, List.length_cons] at this ⊢
    omega

theorem diffs_length (ts : List Rat) : (diffs ts).length = ts.length - 1 := by
  induction ts with
  | nil => simp [diffs]
  | cons a t ih =>
    cases t with
    | nil => simp [diffs]
    | cons b t => simp only [diffs, List.length_cons] at ih ⊢; omega

theorem diffOpt_replicate_none (k : Nat) : diffOpt (List.replicate k none) = List.replicate (k - 1) none := by
  induction k with
  | zero => simp [diffOpt]
  | succ k ih =>
    cases k with
    | zero => simp [diffOpt]
    | succ k =>
      simp only [List.replicate_succ, diffOpt] at ih ⊢
      simp only [Nat.add_sub_cancel] at ih ⊢
      rw [ih]
      cases k <;> simp [List.replicate_succ]

theorem diffOpt_some_none (ts : List Rat) (k : Nat) (h : ts ≠ []) :
    diffOpt (ts.map some ++ List.replicate k none) = (diffs ts).map some ++ List.replicate k none := by
  induction ts with
  | nil => exact absurd rfl h
  | cons a t ih =>
    cases t with
    | nil =>
      cases k with
      | zero => simp [diffOpt, diffs]
      | succ k =>
        have := diffOpt_replicate_none (k + 1)
        simp only [List.replicate_succ, Nat.add_sub_cancel] at this
        simp only [List.map_cons, List.map_nil, List.cons_append, List.nil_append, List.replicate_succ, diffOpt, diffs]
        rw [this]
    | cons b t =>
      have := ih (by simp)
      simp only [List.map_cons, List.cons_append] at this
      simp only [List.map_cons, List.cons_append, diffOpt, diffs, this]

/-- One row through `pad_sequence(...)[:, 1:]` and `diff`, in terms of its spike times. -/
theorem row_pipeline (ts : List Rat) (a : Rat) (L : Nat) (hL : ts.length + 1 ≤ L) :
    diffOpt (((a :: ts).map some ++ List.replicate (L - (a :: ts).length) none).drop 1)
      = (diffs ts).map some ++ List.replicate ((L - 1 - 1) - (diffs ts).length) none := by
  simp only [List.map_cons, List.cons_append, List.drop_succ_cons, List.drop_zero, List.length_cons]
  rw [diffs_length]
  by_cases h : ts = []
  · subst h
    simp only [List.map_nil, List.nil_append, List.length_nil, diffs]
    rw [diffOpt_replicate_none]
    congr 1
  · rw [diffOpt_some_none ts _ h]
    congr 2
    have : 0 < ts.length := List.length_pos_iff.mpr h
    omega

/-- REFINEMENT: the statement-by-statement model equals the specification for every raster with
at least one train (with zero trains `tensor_split` still yields one empty piece; the Python
function then fails in `view`). -/
theorem isiLast_eq_spec (row : List Bool) (rows : List (List Bool)) (dt : Rat) :
    isiLast (row :: rows) dt = specIsiLast (row :: rows) dt := by
  unfold isiLast
  simp only []
  rw [tensorSplit, tensorSplitFrom_map, ← tensorSplit, split_recovers_rows]
  simp only [List.map_map]
  have hg : ((fun r : List Bool => nzFrom 0 (padRow r)) : List Bool → List Nat)
      = fun r => 0 :: nzFrom 1 r := by funext r; exact nzFrom_padRow r
  have hpieces : (List.map (List.map (fun (v : Nat) => (((v : Int) - 1 : Int) : Rat) * dt) ∘ fun r => nzFrom 0 (padRow r)) (row :: rows))
      = (row :: rows).map fun r => (((0 : Nat) : Int) - 1 : Int) * dt :: spikeTimes r dt := by
    apply List.map_congr_left
    intro r _
    simp only [Function.comp, nzFrom_padRow, List.map_cons, spikeTimes]
    rw [times_of_nzFrom dt 0 r]
  rw [hpieces]
  unfold padSequence specIsiLast specWidth
  rw [maxLen_cons_map]
  simp only [List.map_map]
  apply List.map_congr_left
  intro r hr
  simp only [Function.comp]
  have hle : (spikeTimes r dt).length ≤ maxLen ((row :: rows).map fun r => spikeTimes r dt) :=
    maxLen_le _ _ (List.mem_map.mpr ⟨r, hr, rfl⟩)
  have := row_pipeline (spikeTimes r dt) ((((0 : Nat) : Int) - 1 : Int) * dt)
    (maxLen ((row :: rows).map fun r => spikeTimes r dt) + 1) (by omega)
  simp only [Nat.add_sub_cancel] at this
  exact this

/-- Re-integrating the successive differences from the first element recovers the list. -/
theorem integrate_diffs (t0 : Rat) (ts : List Rat) : integrate t0 (diffs (t0 :: ts)) = t0 :: ts := by
  induction ts generalizing t0 with
  | nil => simp [diffs, integrate]
  | cons b t ih =>
    simp only [diffs, integrate]
    have : t0 + (b - t0) = b := by ring
    rw [this, ih b]

end InfernoVerif.Isi
