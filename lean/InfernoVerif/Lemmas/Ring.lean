import InfernoVerif.Model.Ring
import InfernoVerif.Model.RingOps
/-! Helper lemmas for the ring buffer (core Lean only). -/
namespace InfernoVerif.Ring
variable {α : Type}

theorem unwind_lt {p : Nat} {o : Int} {n : Nat} (hn : 0 < n) : unwind p o n < n := by
  unfold unwind
  have h1 := Int.emod_nonneg ((p:Int) - o) (show (n:Int) ≠ 0 by omega)
  have h2 := Int.emod_lt_of_pos ((p:Int) - o) (show (0:Int) < n by omega)
  omega

theorem specIdx_lt {k : Int} {n : Nat} (hn : 0 < n) : specIdx n k < n := by
  unfold specIdx
  have h1 := Int.emod_nonneg k (show (n:Int) ≠ 0 by omega)
  have h2 := Int.emod_lt_of_pos k (show (0:Int) < n by omega)
  omega

theorem unwind_cast {p : Nat} {o : Int} {n : Nat} (hn : 0 < n) :
    ((unwind p o n : Nat) : Int) = ((p:Int) - o) % n := by
  unfold unwind
  have h1 := Int.emod_nonneg ((p:Int) - o) (show (n:Int) ≠ 0 by omega)
  omega

theorem specIdx_cast {k : Int} {n : Nat} (hn : 0 < n) : ((specIdx n k : Nat) : Int) = k % n := by
  unfold specIdx
  have h1 := Int.emod_nonneg k (show (n:Int) ≠ 0 by omega)
  omega

/-- Composition of pointer moves. -/
theorem unwind_unwind {p : Nat} {a b : Int} {n : Nat} (hn : 0 < n) :
    unwind (unwind p a n) b n = unwind p (a + b) n := by
  apply Int.ofNat_inj.mp
  rw [unwind_cast hn, unwind_cast hn, unwind_cast hn]
  rw [Int.sub_emod, Int.emod_emod, ← Int.sub_emod]
  congr 1; omega

/-- The slot of offset `k` only depends on `k mod n`. -/
theorem unwind_specIdx {p : Nat} {k : Int} {n : Nat} (hn : 0 < n) :
    unwind p (specIdx n k) n = unwind p k n := by
  apply Int.ofNat_inj.mp
  rw [unwind_cast hn, unwind_cast hn, specIdx_cast hn]
  rw [Int.sub_emod, Int.emod_emod, ← Int.sub_emod]

theorem unwind_of_lt {p : Nat} {n : Nat} (hp : p < n) : unwind p 0 n = p := by
  apply Int.ofNat_inj.mp
  rw [unwind_cast (by omega)]
  simp
  exact Int.emod_eq_of_lt (by omega) (by omega)


theorem emod_of_range {a : Int} {n : Nat} (h0 : 0 ≤ a) (h1 : a < n) : a % (n:Int) = a :=
  Int.emod_eq_of_lt h0 h1

theorem emod_add_n {a : Int} {n : Nat} (h0 : -(n:Int) ≤ a) (h1 : a < 0) : a % (n:Int) = a + n := by
  have : a % (n:Int) = (a + n) % (n:Int) := by simp
  rw [this]; exact Int.emod_eq_of_lt (by omega) (by omega)

theorem emod_sub_n {a : Int} {n : Nat} (h0 : (n:Int) ≤ a) (h1 : a < 2 * n) : a % (n:Int) = a - n := by
  have : a % (n:Int) = (a - n) % (n:Int) := by simp
  rw [this]; exact Int.emod_eq_of_lt (by omega) (by omega)

theorem unwind_nat {p k n : Nat} (hp : p < n) (hk : k ≤ n) :
    unwind p (k:Int) n = if k ≤ p then p - k else p + n - k := by
  apply Int.ofNat_inj.mp
  rw [unwind_cast (by omega)]
  split
  · rw [emod_of_range (by omega) (by omega)]; omega
  · rw [emod_add_n (by omega) (by omega)]; omega

theorem abs_length (r : Ring α) (h : r.WF) : r.abs.length = r.n := by
  obtain ⟨h0, h1, h2⟩ := h
  simp [Ring.abs]; omega

theorem abs_getElem? (r : Ring α) (h : r.WF) {k : Nat} (hk : k < r.n) :
    r.abs[k]? = r.data[unwind r.ptr k r.n]? := by
  obtain ⟨h0, h1, h2⟩ := h
  rw [unwind_nat h1 (by omega)]
  unfold Ring.abs
  rw [List.getElem?_reverse (by simp; omega)]
  simp only [List.length_append, List.length_drop, List.length_take]
  rw [List.getElem?_append]
  simp only [List.length_drop, List.getElem?_drop, List.getElem?_take]
  have hm : min (r.ptr + 1) r.data.length = r.ptr + 1 := by omega
  rw [hm]
  split <;> split <;> first | (congr 1; omega) | omega | (simp; omega) | (congr 1; split <;> omega)

/-- Offsets that agree on `[0,n)` give different slots. -/
theorem unwind_inj {p a b n : Nat} (hp : p < n) (ha : a < n) (hb : b < n)
    (h : unwind p (a:Int) n = unwind p (b:Int) n) : a = b := by
  rw [unwind_nat hp (by omega), unwind_nat hp (by omega)] at h
  split at h <;> split at h <;> omega

theorem unwind_sub_nat {p : Nat} {o : Int} {j n : Nat} (hn : 0 < n) :
    unwind p (o - (j:Int)) n = (unwind p o n + j) % n := by
  apply Int.ofNat_inj.mp
  rw [unwind_cast hn]
  simp only [Int.natCast_emod, Int.natCast_add]
  rw [unwind_cast hn, Int.emod_add_emod]
  congr 1; omega

theorem unwind_neg_nat {p j n : Nat} (hn : 0 < n) :
    unwind p (-(j:Int)) n = (p + j) % n := by
  apply Int.ofNat_inj.mp
  rw [unwind_cast hn]
  simp only [Int.natCast_emod, Int.natCast_add]
  congr 1; omega

theorem mod_lt_two {a n : Nat} (h : a < 2 * n) : a % n = if a < n then a else a - n := by
  split
  · exact Nat.mod_eq_of_lt (by omega)
  · rw [Nat.mod_eq_sub_mod (by omega)]; exact Nat.mod_eq_of_lt (by omega)

theorem roll_length (l : List α) (s : Int) : (roll l s).length = l.length := by
  unfold roll; simp; omega

theorem rotl_getElem? (l : List α) {K k : Nat} (hK : K < l.length) (hk : k < l.length) :
    (l.drop K ++ l.take K)[k]? = l[(k + K) % l.length]? := by
  rw [mod_lt_two (by omega), List.getElem?_append]
  simp only [List.length_drop, List.getElem?_drop, List.getElem?_take]
  split <;> split <;> first | omega | (congr 1; omega) | skip
  rename_i h1 h2
  rw [if_neg (by omega)]; congr 1; omega

theorem roll_getElem? (l : List α) (s : Int) {k : Nat} (hk : k < l.length) :
    (roll l s)[k]? = l[specIdx l.length ((k:Int) - s)]? := by
  have hn : 0 < l.length := by omega
  have hlt : specIdx l.length (-s) < l.length := specIdx_lt hn
  have hKc := @specIdx_cast (-s) l.length hn
  have key : specIdx l.length ((k:Int) - s) = (k + specIdx l.length (-s)) % l.length := by
    apply Int.ofNat_inj.mp
    rw [specIdx_cast hn]
    simp only [Int.natCast_emod, Int.natCast_add]
    rw [hKc, Int.add_emod_emod, Int.sub_eq_add_neg]
  rw [key]
  exact rotl_getElem? l hlt hk

/-- slot of `specIdx n o` among `k < n`. -/
theorem slot_eq_iff {p n k : Nat} {o : Int} (hp : p < n) (hk : k < n) :
    unwind p o n = unwind p (k:Int) n ↔ specIdx n o = k := by
  have hn : 0 < n := by omega
  constructor
  · intro h
    rw [← unwind_specIdx hn] at h
    exact unwind_inj hp (specIdx_lt hn) hk h
  · intro h; rw [← h, unwind_specIdx hn]

theorem read_refines (r : Ring α) (h : r.WF) (o : Int) : r.read o = specRead r.abs o := by
  have hl := abs_length r h
  obtain ⟨h0, h1, h2⟩ := h
  unfold Ring.read specRead
  rw [hl, abs_getElem? r ⟨h0, h1, h2⟩ (specIdx_lt h0), unwind_specIdx h0]

theorem set_refines (r : Ring α) (h : r.WF) (x : α) (o : Int) :
    ({ r with data := r.data.set (unwind r.ptr o r.n) x } : Ring α).abs = specWrite r.abs x o := by
  have hl := abs_length r h
  have h' : ({ r with data := r.data.set (unwind r.ptr o r.n) x } : Ring α).WF := by
    obtain ⟨h0, h1, h2⟩ := h; exact ⟨h0, h1, by simp [h2]⟩
  have hl' := abs_length _ h'
  obtain ⟨h0, h1, h2⟩ := h
  apply List.ext_getElem?
  intro k
  unfold specWrite
  by_cases hk : k < r.n
  · rw [abs_getElem? _ h' hk, List.getElem?_set, List.getElem?_set, hl,
      abs_getElem? r ⟨h0, h1, h2⟩ hk]
    have hu : unwind r.ptr o r.n < r.data.length := by rw [h2]; exact unwind_lt h0
    have hs : specIdx r.n o < r.n := specIdx_lt h0
    simp only [hu, hs, if_true]
    have := @slot_eq_iff r.ptr r.n k o h1 hk
    by_cases hc : specIdx r.n o = k
    · rw [if_pos (this.mpr hc), if_pos hc]
    · rw [if_neg (fun e => hc (this.mp e)), if_neg hc]
  · rw [List.getElem?_eq_none (by simp at hl'; omega), List.getElem?_eq_none (by simp; omega)]

theorem writeInplace_refines (r : Ring α) (h : r.WF) (x : α) (o : Int) :
    (r.writeInplace x o).abs = specWrite r.abs x o := set_refines r h x o

theorem writeSplice_eq_inplace (r : Ring α) (h : r.WF) (x : α) (o : Int) :
    r.writeSplice x o = r.writeInplace x o := by
  obtain ⟨h0, h1, h2⟩ := h
  unfold Ring.writeSplice Ring.writeInplace
  have hu : unwind r.ptr o r.n < r.data.length := by rw [h2]; exact unwind_lt h0
  simp only [List.set_eq_take_append_cons_drop, hu, if_true]
  simp

theorem write_wf (r : Ring α) (h : r.WF) (x : α) (o : Int) (b : Bool) : (r.write x o b).WF := by
  unfold Ring.write
  split
  · obtain ⟨h0, h1, h2⟩ := h; exact ⟨h0, h1, by simp [Ring.writeInplace, h2]⟩
  · rw [writeSplice_eq_inplace r h]; obtain ⟨h0, h1, h2⟩ := h; exact ⟨h0, h1, by simp [Ring.writeInplace, h2]⟩

theorem write_refines (r : Ring α) (h : r.WF) (x : α) (o : Int) (b : Bool) :
    (r.write x o b).abs = specWrite r.abs x o := by
  unfold Ring.write
  split
  · exact writeInplace_refines r h x o
  · rw [writeSplice_eq_inplace r h]; exact writeInplace_refines r h x o

theorem incr_wf (r : Ring α) (h : r.WF) (q : Int) : (r.incr q).WF := by
  obtain ⟨h0, h1, h2⟩ := h; exact ⟨h0, unwind_lt h0, h2⟩

theorem decr_wf (r : Ring α) (h : r.WF) (q : Int) : (r.decr q).WF := by
  obtain ⟨h0, h1, h2⟩ := h; exact ⟨h0, unwind_lt h0, h2⟩

theorem move_refines (r : Ring α) (h : r.WF) (q : Int) :
    ({ r with ptr := unwind r.ptr (-q) r.n } : Ring α).abs = roll r.abs q := by
  have hl := abs_length r h
  have h' : ({ r with ptr := unwind r.ptr (-q) r.n } : Ring α).WF := incr_wf r h q
  have hl' := abs_length _ h'
  obtain ⟨h0, h1, h2⟩ := h
  apply List.ext_getElem?
  intro k
  by_cases hk : k < r.n
  · rw [abs_getElem? _ h' hk, roll_getElem? _ _ (by omega), hl,
      abs_getElem? r ⟨h0, h1, h2⟩ (specIdx_lt h0)]
    simp only
    rw [unwind_unwind h0, unwind_specIdx h0]
    congr 2; omega
  · rw [List.getElem?_eq_none (by simp at hl'; omega),
      List.getElem?_eq_none (by rw [roll_length]; omega)]

theorem incr_refines (r : Ring α) (h : r.WF) (q : Int) : (r.incr q).abs = specIncr r.abs q :=
  move_refines r h q

theorem decr_refines (r : Ring α) (h : r.WF) (q : Int) : (r.decr q).abs = specDecr r.abs q := by
  have := move_refines r h (-q)
  simp only [Int.neg_neg] at this
  exact this

theorem readrangeGather_refines (r : Ring α) (h : r.WF) (len : Nat) (o' : Int) :
    r.readrangeGather len o' = specReadrange r.abs len o' := by
  have hl := abs_length r h
  unfold Ring.readrangeGather specReadrange
  apply List.map_congr_left
  intro j _
  rw [hl, abs_getElem? r h (specIdx_lt h.1), unwind_specIdx h.1]

theorem readrangeScalar_eq_gather (r : Ring α) (h : r.WF) (len : Nat) (o' : Int)
    (h1 : 1 ≤ len) (hn : len ≤ r.n) :
    (r.readrangeScalar len o').map some = r.readrangeGather len o' := by
  obtain ⟨h0, hp, h2⟩ := h
  unfold Ring.readrangeScalar Ring.readrangeGather
  have hs : unwind r.ptr o' r.n < r.n := unwind_lt h0
  simp only [unwind_sub_nat h0]
  generalize unwind r.ptr o' r.n = s at hs
  rw [mod_lt_two (by omega)]
  apply List.ext_getElem?
  intro j
  simp only [List.getElem?_map, List.getElem?_range]
  by_cases hj : j < len
  · rw [List.getElem?_range hj]
    simp only [Option.map_some]
    rw [mod_lt_two (by omega)]
    split
    · -- s + len < n : contiguous
      rename_i hlt
      rw [if_neg (by omega)]
      simp only [slice, List.getElem?_drop, List.getElem?_take]
      rw [if_pos (by omega), if_pos (by omega)]
      have : (r.data[s + j]?).isSome := by simp; omega
      obtain ⟨v, hv⟩ := Option.isSome_iff_exists.mp this
      simp [hv]
    · rename_i hge
      rw [if_pos (by omega)]
      rw [List.getElem?_append]
      simp only [List.length_drop, List.getElem?_drop, List.getElem?_take]
      split
      · rw [if_pos (by omega)]
        have : (r.data[s + j]?).isSome := by simp; omega
        obtain ⟨v, hv⟩ := Option.isSome_iff_exists.mp this
        simp [hv]
      · rw [if_pos (by omega), if_neg (by omega)]
        have e1 : j - (r.data.length - s) = s + j - r.n := by omega
        rw [e1]
        have : (r.data[s + j - r.n]?).isSome := by simp; omega
        obtain ⟨v, hv⟩ := Option.isSome_iff_exists.mp this
        simp [hv]
  · rw [List.getElem?_eq_none (l := List.range len) (by simp; omega)]
    simp only [Option.map_none]
    split
    · rw [if_neg (by omega), List.getElem?_eq_none (by simp [slice]; omega)]; rfl
    · rw [if_pos (by omega), List.getElem?_eq_none (by simp; omega)]; rfl

theorem foldl_set_length (ps : List (α × Nat)) (f : Nat → Nat) (d : List α) :
    (ps.foldl (fun d xj => d.set (f xj.2) xj.1) d).length = d.length := by
  induction ps generalizing d with
  | nil => rfl
  | cons p ps ih => simp [List.foldl_cons, ih]

/-- A fold of `set`s through slots refines the same fold through offsets. -/
theorem foldl_set_refines (n ptr : Nat) (ps : List (α × Nat)) (a : Nat → Int) (d : List α)
    (h : (⟨n, ptr, d⟩ : Ring α).WF) :
    (⟨n, ptr, ps.foldl (fun d xj => d.set (unwind ptr (a xj.2) n) xj.1) d⟩ : Ring α).abs
      = ps.foldl (fun d xj => d.set (specIdx n (a xj.2)) xj.1) (⟨n, ptr, d⟩ : Ring α).abs := by
  induction ps generalizing d with
  | nil => rfl
  | cons p ps ih =>
    simp only [List.foldl_cons]
    have h' : (⟨n, ptr, d.set (unwind ptr (a p.2) n) p.1⟩ : Ring α).WF := by
      obtain ⟨h0, h1, h2⟩ := h; exact ⟨h0, h1, by simpa using h2⟩
    rw [ih _ h']
    congr 1
    have := set_refines ⟨n, ptr, d⟩ h p.1 (a p.2)
    simp only [specWrite, abs_length _ h] at this
    exact this

theorem writerangeScatter_wf (r : Ring α) (h : r.WF) (xs : List α) (o' : Int) :
    (r.writerangeScatter xs o').WF := by
  obtain ⟨h0, h1, h2⟩ := h
  exact ⟨h0, h1, by simp [Ring.writerangeScatter, foldl_set_length (f := fun j => unwind r.ptr (o' - (j:Int)) r.n), h2]⟩

theorem writerangeScatter_refines (r : Ring α) (h : r.WF) (xs : List α) (o' : Int) :
    (r.writerangeScatter xs o').abs = specWriterange r.abs xs o' := by
  have := foldl_set_refines r.n r.ptr xs.zipIdx (fun j => o' - (j:Int)) r.data h
  unfold Ring.writerangeScatter specWriterange
  rw [abs_length r h]
  exact this

theorem writerangeInplace_eq_scatter (r : Ring α) (h : r.WF) (xs : List α) (o' : Int) :
    r.writerangeInplace xs o' = r.writerangeScatter xs o' := by
  unfold Ring.writerangeInplace Ring.writerangeScatter
  have e : (fun (d : List α) (xj : α × Nat) => d.set (unwind (unwind r.ptr o' r.n) (-(xj.2:Int)) r.n) xj.1)
      = (fun d xj => d.set (unwind r.ptr (o' - (xj.2:Int)) r.n) xj.1) := by
    funext d xj
    rw [unwind_unwind h.1, Int.sub_eq_add_neg]
  simp only [e]

/-- Positions no `set` of the fold touches keep their value. -/
theorem foldl_set_miss (xs : List α) (k : Nat) (f : Nat → Nat) (d : List α) (i : Nat)
    (hm : ∀ j, k ≤ j → j < k + xs.length → f j ≠ i) :
    ((xs.zipIdx k).foldl (fun d xj => d.set (f xj.2) xj.1) d)[i]? = d[i]? := by
  induction xs generalizing d k with
  | nil => rfl
  | cons x xs ih =>
    simp only [List.zipIdx_cons, List.foldl_cons]
    rw [ih (k+1) _ (fun j h1 h2 => hm j (by omega) (by simp; omega))]
    rw [List.getElem?_set, if_neg (hm k (by omega) (by simp))]

/-- With pairwise distinct targets, target `f j0` ends up holding `xs[j0 - k]`. -/
theorem foldl_set_hit (xs : List α) (k : Nat) (f : Nat → Nat) (d : List α) (j0 : Nat)
    (hj0 : k ≤ j0) (hj1 : j0 < k + xs.length) (hlt : f j0 < d.length)
    (hinj : ∀ j j', k ≤ j → j < k + xs.length → k ≤ j' → j' < k + xs.length → f j = f j' → j = j') :
    ((xs.zipIdx k).foldl (fun d xj => d.set (f xj.2) xj.1) d)[f j0]? = xs[j0 - k]? := by
  induction xs generalizing d k with
  | nil => simp at hj1; omega
  | cons x xs ih =>
    simp only [List.zipIdx_cons, List.foldl_cons]
    by_cases hk : j0 = k
    · subst hk
      rw [foldl_set_miss xs (j0+1) f _ (f j0)
        (fun j h1 h2 e => by have := hinj j j0 (by omega) (by simp; omega) (by omega) (by simp) e; omega)]
      simp [hlt]
    · have := ih (k+1) (d.set (f k) x) (by omega) (by simp at hj1; omega) (by simpa using hlt)
        (fun j j' a b c d e => hinj j j' (by omega) (by simp; omega) (by omega) (by simp; omega) e)
      rw [this]
      have e : j0 - k = (j0 - (k+1)) + 1 := by omega
      rw [e, List.getElem?_cons_succ]

/-- Storage index hit by the `j`-th element of an in-place range write starting at `p'`. -/
def fwdIdx (p' n j : Nat) : Nat := (p' + j) % n

/-- Characterisation of the in-place range write (index assignment with distinct indices). -/
theorem inplace_getElem? (xs d : List α) (n p' i : Nat) (hp : p' < n) (hd : d.length = n)
    (hL : xs.length ≤ n) (hi : i < n) :
    (xs.zipIdx.foldl (fun d xj => d.set (unwind p' (-(xj.2:Int)) n) xj.1) d)[i]? =
      if (i + n - p') % n < xs.length then xs[(i + n - p') % n]? else d[i]? := by
  have hn : 0 < n := by omega
  have e : (fun (d : List α) (xj : α × Nat) => d.set (unwind p' (-(xj.2:Int)) n) xj.1)
      = (fun d xj => d.set (fwdIdx p' n xj.2) xj.1) := by
    funext d xj; rw [unwind_neg_nat hn]; rfl
  rw [e]
  have ht : (i + n - p') % n = if p' ≤ i then i - p' else i + n - p' := by
    rw [mod_lt_two (by omega)]; split <;> split <;> omega
  split
  · rename_i hlt
    have hf : fwdIdx p' n ((i + n - p') % n) = i := by
      unfold fwdIdx; rw [ht]; split <;> rw [mod_lt_two (by omega)] <;> split <;> omega
    have := foldl_set_hit xs 0 (fwdIdx p' n) d ((i + n - p') % n) (by omega)
      (by omega) (by rw [hf]; omega)
      (fun j j' _ h1 _ h2 e => by
        unfold fwdIdx at e
        rw [mod_lt_two (by omega), mod_lt_two (by omega)] at e
        split at e <;> split at e <;> omega)
    rw [hf] at this
    rw [this]; simp
  · rename_i hge
    apply foldl_set_miss xs 0 (fwdIdx p' n)
    intro j _ h2 e
    unfold fwdIdx at e
    rw [mod_lt_two (by omega)] at e
    rw [ht] at hge
    split at e <;> split at hge <;> omega

theorem writerangeInplace_wf (r : Ring α) (h : r.WF) (xs : List α) (o' : Int) :
    (r.writerangeInplace xs o').WF := by
  rw [writerangeInplace_eq_scatter r h]; exact writerangeScatter_wf r h xs o'

theorem writerangeContig_eq_inplace (r : Ring α) (h : r.WF) (xs : List α) (o' : Int)
    (hc : unwind r.ptr o' r.n + xs.length ≤ r.n) :
    r.writerangeContig xs o' = r.writerangeInplace xs o' := by
  obtain ⟨h0, h1, h2⟩ := h
  have hp : unwind r.ptr o' r.n < r.n := unwind_lt h0
  unfold Ring.writerangeContig Ring.writerangeInplace
  simp only
  congr 1
  apply List.ext_getElem?
  intro i
  by_cases hi : i < r.n
  · rw [inplace_getElem? xs r.data r.n _ i hp h2 (by omega) hi]
    generalize unwind r.ptr o' r.n = p' at hp hc
    have ht : (i + r.n - p') % r.n = if p' ≤ i then i - p' else i + r.n - p' := by
      rw [mod_lt_two (by omega)]; split <;> split <;> omega
    rw [ht]
    simp only [List.getElem?_append, List.length_append, List.length_take, List.getElem?_take,
      List.getElem?_drop]
    have hm : min p' r.data.length = p' := by omega
    rw [hm]
    split <;> split <;> split <;> first | omega | rfl | (congr 1; omega) | skip
    all_goals (first | (rw [if_pos (by omega)]) | (rw [if_neg (by omega)]) | skip)
    all_goals (first | rfl | (congr 1; omega) | skip)
  · rw [List.getElem?_eq_none (by simp; omega),
      List.getElem?_eq_none (by rw [foldl_set_length (f := fun j => unwind _ (-(j:Int)) r.n)]; omega)]

theorem writerangeWrapped_eq_inplace (r : Ring α) (h : r.WF) (xs : List α) (o' : Int)
    (hL : xs.length ≤ r.n) (hc : unwind r.ptr o' r.n + xs.length > r.n) :
    r.writerangeWrapped xs o' = r.writerangeInplace xs o' := by
  obtain ⟨h0, h1, h2⟩ := h
  have hp : unwind r.ptr o' r.n < r.n := unwind_lt h0
  unfold Ring.writerangeWrapped Ring.writerangeInplace
  simp only
  congr 1
  apply List.ext_getElem?
  intro i
  by_cases hi : i < r.n
  · rw [inplace_getElem? xs r.data r.n _ i hp h2 (by omega) hi]
    generalize unwind r.ptr o' r.n = p' at hp hc
    have ht : (i + r.n - p') % r.n = if p' ≤ i then i - p' else i + r.n - p' := by
      rw [mod_lt_two (by omega)]; split <;> split <;> omega
    rw [ht]
    simp only [slice, List.getElem?_append, List.length_append, List.length_take, List.length_drop,
      List.getElem?_take, List.getElem?_drop]
    have hm : min p' r.data.length = p' := by omega
    rw [hm]
    split <;> split <;> split <;> first | omega | rfl | (congr 1; omega) | skip
    all_goals (first | (rw [if_pos (by omega)]) | (rw [if_neg (by omega)]) | skip)
    all_goals (first | rfl | (congr 1; omega) | skip)
    have hip : ¬ p' ≤ i := by omega
    rw [if_neg hip, if_neg (by omega)]; congr 1; omega
  · rw [List.getElem?_eq_none (by simp [slice]; omega),
      List.getElem?_eq_none (by rw [foldl_set_length (f := fun j => unwind _ (-(j:Int)) r.n)]; omega)]

theorem align_wf (r : Ring α) (h : r.WF) (idx : Nat) (hi : idx < r.n) : (r.align idx).WF := by
  obtain ⟨h0, h1, h2⟩ := h
  exact ⟨h0, hi, by simp [Ring.align, roll_length, h2]⟩

/-- `align` moves storage and pointer together: no observation changes its offset. -/
theorem align_refines (r : Ring α) (h : r.WF) (idx : Nat) (hi : idx < r.n) :
    (r.align idx).abs = r.abs := by
  have h' := align_wf r h idx hi
  have hl := abs_length r h
  have hl' := abs_length _ h'
  obtain ⟨h0, h1, h2⟩ := h
  apply List.ext_getElem?
  intro k
  by_cases hk : k < r.n
  · rw [abs_getElem? _ h' hk, abs_getElem? r ⟨h0, h1, h2⟩ hk]
    simp only [Ring.align]
    rw [roll_getElem? _ _ (by rw [h2]; exact unwind_lt h0), h2]
    congr 1
    apply Int.ofNat_inj.mp
    rw [specIdx_cast h0, unwind_cast h0, unwind_cast h0]
    rw [Int.emod_sub_emod]
    congr 1; omega
  · rw [List.getElem?_eq_none (by simp [Ring.align] at hl'; simp [Ring.align]; omega),
      List.getElem?_eq_none (by omega)]

theorem resetFill_wf (r : Ring α) (h : r.WF) (fill : α) : (r.resetFill fill).WF := by
  obtain ⟨h0, h1, h2⟩ := h
  exact ⟨h0, h0, by simp [Ring.resetFill, h2]⟩

theorem resetFill_refines (r : Ring α) (h : r.WF) (fill : α) :
    (r.resetFill fill).abs = specReset r.abs fill := by
  have hl := abs_length r h
  obtain ⟨h0, h1, h2⟩ := h
  unfold specReset
  rw [hl]
  have h' := resetFill_wf r ⟨h0, h1, h2⟩ fill
  apply List.ext_getElem?
  intro k
  by_cases hk : k < r.n
  · rw [abs_getElem? _ h' hk]
    simp only [Ring.resetFill, List.getElem?_replicate]
    rw [if_pos (by rw [h2]; exact unwind_lt h0), if_pos hk]
  · have hl' := abs_length _ h'
    rw [List.getElem?_eq_none (by simp [Ring.resetFill] at hl'; simp [Ring.resetFill]; omega),
      List.getElem?_eq_none (by simp; omega)]

theorem modify_refines (r : Ring α) (h : r.WF) (f : α → α) (o : Int) :
    ({ r with data := r.data.modify (unwind r.ptr o r.n) f } : Ring α).abs
      = r.abs.modify (specIdx r.n o) f := by
  have hl := abs_length r h
  have h' : ({ r with data := r.data.modify (unwind r.ptr o r.n) f } : Ring α).WF := by
    obtain ⟨h0, h1, h2⟩ := h; exact ⟨h0, h1, by simp [h2]⟩
  have hl' := abs_length _ h'
  obtain ⟨h0, h1, h2⟩ := h
  apply List.ext_getElem?
  intro k
  by_cases hk : k < r.n
  · rw [abs_getElem? _ h' hk, List.getElem?_modify, List.getElem?_modify,
      abs_getElem? r ⟨h0, h1, h2⟩ hk]
    have := @slot_eq_iff r.ptr r.n k o h1 hk
    by_cases hc : specIdx r.n o = k
    · simp only [if_pos (this.mpr hc), if_pos hc]
    · simp only [if_neg (fun e => hc (this.mp e)), if_neg hc]
  · rw [List.getElem?_eq_none (by simp at hl'; omega), List.getElem?_eq_none (by simp; omega)]

theorem foldl_modify_length {γ : Type} (ps : List γ) (idx : γ → Nat) (g : γ → α → α) (d : List α) :
    (ps.foldl (fun d p => d.modify (idx p) (g p)) d).length = d.length := by
  induction ps generalizing d with
  | nil => rfl
  | cons p ps ih => simp [List.foldl_cons, ih]

/-- A fold of `modify`s through slots refines the same fold through offsets. -/
theorem foldl_modify_refines {γ : Type} (n ptr : Nat) (ps : List γ) (a : γ → Int) (g : γ → α → α)
    (d : List α) (h : (⟨n, ptr, d⟩ : Ring α).WF) :
    (⟨n, ptr, ps.foldl (fun d p => d.modify (unwind ptr (a p) n) (g p)) d⟩ : Ring α).abs
      = ps.foldl (fun d p => d.modify (specIdx n (a p)) (g p)) (⟨n, ptr, d⟩ : Ring α).abs := by
  induction ps generalizing d with
  | nil => rfl
  | cons p ps ih =>
    simp only [List.foldl_cons]
    have h' : (⟨n, ptr, d.modify (unwind ptr (a p) n) (g p)⟩ : Ring α).WF := by
      obtain ⟨h0, h1, h2⟩ := h; exact ⟨h0, h1, by simpa using h2⟩
    rw [ih _ h']
    congr 1
    exact modify_refines ⟨n, ptr, d⟩ h (g p) (a p)

variable {β : Type}

theorem writerangeT_data_length (r : Ring (List β)) (xs : List (List β)) (offs' : List Int) :
    (r.writerangeT xs offs').data.length = r.data.length := by
  unfold Ring.writerangeT
  simp only
  generalize r.data = d
  induction xs.zipIdx generalizing d with
  | nil => rfl
  | cons xj rest ih =>
    simp only [List.foldl_cons]
    rw [ih]
    exact foldl_modify_length _ (fun (vop : (β × Int) × Nat) => unwind r.ptr (vop.1.2 - (xj.2:Int)) r.n)
      (fun vop row => row.set vop.2 vop.1.1) d

theorem writerangeT_wf (r : Ring (List β)) (h : r.WF) (xs : List (List β)) (offs' : List Int) :
    (r.writerangeT xs offs').WF := by
  obtain ⟨h0, h1, h2⟩ := h
  exact ⟨h0, h1, by rw [writerangeT_data_length]; exact h2⟩

theorem writerangeT_refines (r : Ring (List β)) (h : r.WF) (xs : List (List β)) (offs' : List Int) :
    (r.writerangeT xs offs').abs = specWriterangeT r.abs xs offs' := by
  unfold Ring.writerangeT specWriterangeT
  rw [abs_length r h]
  obtain ⟨n, ptr, d⟩ := r
  induction xs.zipIdx generalizing d with
  | nil => rfl
  | cons xj rest ih =>
    simp only [List.foldl_cons]
    have hw : (⟨n, ptr, (xj.1.zip offs').zipIdx.foldl (fun d vop =>
        d.modify (unwind ptr (vop.1.2 - (xj.2 : Int)) n) (·.set vop.2 vop.1.1)) d⟩ : Ring (List β)).WF := by
      obtain ⟨h0, h1, h2⟩ := h
      exact ⟨h0, h1, by
        simp only
        rw [foldl_modify_length _ (fun (vop : (β × Int) × Nat) => unwind ptr (vop.1.2 - (xj.2:Int)) n)
          (fun vop row => row.set vop.2 vop.1.1) d]; exact h2⟩
    rw [ih _ hw]
    congr 1
    exact foldl_modify_refines n ptr _ (fun (vop : (β × Int) × Nat) => vop.1.2 - (xj.2:Int))
      (fun vop row => row.set vop.2 vop.1.1) d h

theorem readrangeT_refines (r : Ring (List β)) (h : r.WF) (len : Nat) (offs' : List Int) :
    r.readrangeT len offs' = specReadrangeT r.abs len offs' := by
  have hl := abs_length r h
  unfold Ring.readrangeT specReadrangeT
  apply List.map_congr_left
  intro op _
  apply List.map_congr_left
  intro j _
  rw [hl, abs_getElem? r h (specIdx_lt h.1), unwind_specIdx h.1]

theorem push_wf (r : Ring (List β)) (h : r.WF) (x : List β) (b : Bool) : (r.push x b).WF :=
  incr_wf _ (write_wf r h x 0 b) 1

theorem push_refines (r : Ring (List β)) (h : r.WF) (x : List β) (b : Bool) :
    (r.push x b).abs = specPush r.abs x := by
  unfold Ring.push specPush
  rw [incr_refines _ (write_wf r h x 0 b), write_refines r h]

theorem pop_refines (r : Ring (List β)) (h : r.WF) :
    (r.pop.1.abs, r.pop.2) = specPop r.abs := by
  unfold Ring.pop specPop
  simp only
  rw [decr_refines r h, read_refines _ (decr_wf r h 1), decr_refines r h]

theorem freshRing_wf (n : Nat) (hn : 0 < n) (sh : List Nat) (z : β) : (freshRing n sh z).WF :=
  ⟨hn, hn, by simp [freshRing]⟩

theorem freshRing_abs (n : Nat) (hn : 0 < n) (sh : List Nat) (z : β) :
    (freshRing n sh z).abs = freshHist n sh z := by
  have := resetFill_refines (freshRing n sh z) (freshRing_wf n hn sh z) (List.replicate (prod sh) z)
  have e : (freshRing n sh z).resetFill (List.replicate (prod sh) z) = freshRing n sh z := by
    simp [Ring.resetFill, freshRing]
  rw [e] at this
  rw [this]
  have hl := abs_length _ (freshRing_wf n hn sh z)
  simp only [specReset, freshHist, hl]
  simp [freshRing]

theorem writerangeScalar_wf (r : Ring (List β)) (h : r.WF) (xs : List (List β)) (o' : Int) (b : Bool)
    (hL : xs.length ≤ r.n) : (r.writerangeScalar xs o' b).WF := by
  unfold Ring.writerangeScalar
  split
  · exact writerangeInplace_wf r h xs o'
  · split
    · rw [writerangeWrapped_eq_inplace r h xs o' hL (by omega)]; exact writerangeInplace_wf r h xs o'
    · rw [writerangeContig_eq_inplace r h xs o' (by omega)]; exact writerangeInplace_wf r h xs o'

theorem writerangeScalar_refines (r : Ring (List β)) (h : r.WF) (xs : List (List β)) (o' : Int) (b : Bool)
    (hL : xs.length ≤ r.n) : (r.writerangeScalar xs o' b).abs = specWriterange r.abs xs o' := by
  have key : r.writerangeScalar xs o' b = r.writerangeScatter xs o' := by
    unfold Ring.writerangeScalar
    split
    · exact writerangeInplace_eq_scatter r h xs o'
    · split
      · rw [writerangeWrapped_eq_inplace r h xs o' hL (by omega)]; exact writerangeInplace_eq_scatter r h xs o'
      · rw [writerangeContig_eq_inplace r h xs o' (by omega)]; exact writerangeInplace_eq_scatter r h xs o'
  rw [key]; exact writerangeScatter_refines r h xs o'

section Generic
variable {α : Type}
theorem push_wf' (r : Ring α) (h : r.WF) (x : α) (b : Bool) : (r.push x b).WF :=
  incr_wf _ (write_wf r h x 0 b) 1

theorem push_refines' (r : Ring α) (h : r.WF) (x : α) (b : Bool) :
    (r.push x b).abs = specPush r.abs x := by
  unfold Ring.push specPush
  rw [incr_refines _ (write_wf r h x 0 b), write_refines r h]
end Generic

section PushAll
variable {α : Type}
/-- Reading offset `k+1` after a push = reading offset `k` of the history with `x` at the write slot. -/
theorem specRead_push (h : List α) (hn : 0 < h.length) (x : α) (k : Int) :
    specRead (specPush h x) (k + 1) = specRead (h.set 0 x) k := by
  unfold specPush specIncr specWrite specRead
  have h0 : specIdx h.length 0 = 0 := by simp [specIdx]
  rw [h0, roll_length, List.length_set]
  rw [roll_getElem? _ _ (by rw [List.length_set]; exact specIdx_lt hn), List.length_set]
  congr 1
  apply Int.ofNat_inj.mp
  rw [specIdx_cast hn, specIdx_cast hn, specIdx_cast hn, Int.emod_sub_emod]
  congr 1; omega

theorem specPush_length (h : List α) (x : α) : (specPush h x).length = h.length := by
  simp [specPush, specIncr, specWrite, roll_length]

theorem pushAll_length (h : List α) (xs : List α) : (pushAll h xs).length = h.length := by
  induction xs generalizing h with
  | nil => rfl
  | cons x xs ih => simp [pushAll, List.foldl_cons] at *; rw [ih, specPush_length]

theorem specIdx_nat {n k : Nat} (hk : k < n) : specIdx n (k:Int) = k := by
  apply Int.ofNat_inj.mp; rw [specIdx_cast (by omega)]; exact Int.emod_eq_of_lt (by omega) (by omega)

theorem pushAll_read (h : List α) (xs : List α) (k : Nat) (hk : k < h.length) :
    specRead (pushAll h xs) ((k : Int) + 1) =
      if hx : k < xs.length then some xs[xs.length - 1 - k]
      else specRead h (((k - xs.length : Nat) : Int) + 1) := by
  induction xs generalizing h with
  | nil => simp [pushAll]
  | cons x xs ih =>
    have hl := specPush_length h x
    have : pushAll h (x :: xs) = pushAll (specPush h x) xs := by simp [pushAll]
    rw [this, ih (specPush h x) (by omega)]
    by_cases h1 : k < xs.length
    · rw [dif_pos h1, dif_pos (by simp; omega)]
      congr 1
      have e : (x :: xs).length - 1 - k = (xs.length - 1 - k) + 1 := by simp; omega
      simp only [e, List.getElem_cons_succ]
    · rw [dif_neg h1, specRead_push _ (by omega)]
      unfold specRead
      rw [List.length_set, specIdx_nat (by omega), List.getElem?_set]
      by_cases h2 : k = xs.length
      · subst h2
        simp
        intro e; rw [e] at hk; simp at hk
      · rw [if_neg (by omega), dif_neg (by simp; omega)]
        have e : ((k - xs.length : Nat) : Int) = ((k - (x :: xs).length : Nat) : Int) + 1 := by
          simp; omega
        rw [← e, specIdx_nat (by omega)]

/-- After pushing `x₀ … x_t` onto a zero-filled record of `n` slots, the observation `k+1`
steps before the write position is `x_{t-k}` for `k ≤ t`, and the initial fill otherwise. -/
theorem pushes_then_read (n : Nat) (z : α) (xs : List α) (k : Nat) (hk : k < n) :
    specRead (pushAll (List.replicate n z) xs) ((k : Int) + 1) =
      some (if h : k < xs.length then xs[xs.length - 1 - k] else z) := by
  rw [pushAll_read _ _ _ (by simpa using hk)]
  by_cases h1 : k < xs.length
  · rw [dif_pos h1, dif_pos h1]
  · rw [dif_neg h1, dif_neg h1]
    unfold specRead
    rw [List.length_replicate, List.getElem?_replicate, if_pos (specIdx_lt (by omega))]
end PushAll

end InfernoVerif.Ring
