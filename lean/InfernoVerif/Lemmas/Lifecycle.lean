import InfernoVerif.Model.Lifecycle
namespace InfernoVerif.Lifecycle
end InfernoVerif.Lifecycle
