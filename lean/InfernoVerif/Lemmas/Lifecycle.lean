import InfernoVerif.Model.Lifecycle
/-!
Helper lemmas for C15 (`Props/C15.lean`): handle consistency `WFh`, pool consistency `PoolOK`, the
structural invariants `WFc` (before) / `WF` (after reference counting), their preservation by every
operation of `Model/Lifecycle.lean`, and the count = specification-count invariant.  Core Lean only.
-/
namespace InfernoVerif.Lifecycle

/-! ### Handle consistency (the layer's hook list vs the monitors' handle fields) -/

structure WFh (s : State) : Prop where
  post_ok : ∀ e ∈ s.post, e.1 < s.nextId ∧ (s.mons e.2).alive = true ∧ (s.mons e.2).handle = some e.1
  post_nodup : s.post.Pairwise (fun a b => a.1 ≠ b.1)
  handle_mem : ∀ mid hid, (s.mons mid).handle = some hid → (hid, mid) ∈ s.post
  alive_lt : ∀ mid, (s.mons mid).alive = true → mid < s.nMons

theorem WFh.dead_no_handle {s : State} (w : WFh s) {mid : Nat} (h : (s.mons mid).alive = false) :
    (s.mons mid).handle = none := by
  cases hh : (s.mons mid).handle with
  | none => rfl
  | some hid =>
    have := (w.post_ok _ (w.handle_mem mid hid hh)).2.1
    simp only at this; rw [h] at this; cases this

theorem pairwise_fst_inj {l : List (Nat × Nat)} (h : l.Pairwise (fun a b => a.1 ≠ b.1))
    {a b : Nat × Nat} (ha : a ∈ l) (hb : b ∈ l) (hab : a.1 = b.1) : a = b := by
  induction l with
  | nil => cases ha
  | cons x xs ih =>
    rw [List.pairwise_cons] at h
    rcases List.mem_cons.mp ha with rfl | ha' <;> rcases List.mem_cons.mp hb with rfl | hb'
    · rfl
    · exact absurd hab (h.1 b hb')
    · exact absurd hab.symm (h.1 a ha')
    · exact ih h.2 ha' hb'

theorem mem_removeHandle {l : List (Nat × Nat)} {o : Option Nat} {e : Nat × Nat} :
    e ∈ removeHandle l o ↔ e ∈ l ∧ o ≠ some e.1 := by
  cases o with
  | none => simp [removeHandle]
  | some id => simp [removeHandle, List.mem_filter]; intro _; constructor <;> (intro h h'; exact h h'.symm)

theorem pairwise_removeHandle {l : List (Nat × Nat)} (o : Option Nat)
    (h : l.Pairwise (fun a b => a.1 ≠ b.1)) : (removeHandle l o).Pairwise (fun a b => a.1 ≠ b.1) := by
  cases o with
  | none => exact h
  | some id => exact h.filter _

/-- a state that differs only outside the hook list / monitor table -/
theorem wfh_congr {s s' : State} (w : WFh s) (h1 : s'.post = s.post) (h2 : s'.nextId = s.nextId)
    (h3 : s'.mons = s.mons) (h4 : s'.nMons = s.nMons) : WFh s' := by
  obtain ⟨a, b, c, d⟩ := w
  constructor
  · rw [h1, h2, h3]; exact a
  · rw [h1]; exact b
  · rw [h1, h3]; exact c
  · rw [h3, h4]; exact d

@[simp] theorem deregisterMon_trainers (s : State) (mid : Nat) : (deregisterMon s mid).trainers = s.trainers := rfl
@[simp] theorem deregisterMon_nMons (s : State) (mid : Nat) : (deregisterMon s mid).nMons = s.nMons := rfl
@[simp] theorem deregisterMon_nTrainers (s : State) (mid : Nat) : (deregisterMon s mid).nTrainers = s.nTrainers := rfl
@[simp] theorem deregisterMon_cellMons (s : State) (mid : Nat) : (deregisterMon s mid).cellMons = s.cellMons := rfl
@[simp] theorem deregisterMon_topo (s : State) (mid : Nat) : (deregisterMon s mid).topo = s.topo := rfl
@[simp] theorem deregisterMon_layerTraining (s : State) (mid : Nat) : (deregisterMon s mid).layerTraining = s.layerTraining := rfl
theorem deregisterMon_mons (s : State) (mid i : Nat) :
    (deregisterMon s mid).mons i = if i = mid then { s.mons mid with handle := none } else s.mons i := rfl

theorem wfh_deregisterMon {s : State} (w : WFh s) (mid : Nat) : WFh (deregisterMon s mid) := by
  obtain ⟨a, b, c, d⟩ := w
  constructor
  · intro e he
    simp only [deregisterMon, setMon, mem_removeHandle] at he ⊢
    obtain ⟨h1, h2, h3⟩ := a e he.1
    have : e.2 ≠ mid := by intro hc; rw [hc] at h3; exact he.2 h3
    simp [this, h1, h2, h3]
  · exact pairwise_removeHandle _ b
  · intro i hid hi
    simp only [deregisterMon, setMon] at hi ⊢
    by_cases him : i = mid
    · simp [him] at hi
    · simp only [him, if_false] at hi
      rw [mem_removeHandle]
      refine ⟨c i hid hi, ?_⟩
      intro hm
      have := pairwise_fst_inj b (c i hid hi) (c mid hid hm) rfl
      simp at this; exact him this
  · intro i hi
    simp only [deregisterMon, setMon] at hi ⊢
    by_cases him : i = mid
    · simp [him] at hi; rw [him]; exact d mid hi
    · simp only [him, if_false] at hi; exact d i hi

theorem mem_insertPost {l : List (Nat × Nat)} {b : Bool} {e x : Nat × Nat} :
    x ∈ insertPost l b e ↔ x ∈ l ∨ x = e := by
  unfold insertPost; split <;> simp [or_comm]

theorem pairwise_insertPost {l : List (Nat × Nat)} {b : Bool} {e : Nat × Nat}
    (hl : l.Pairwise (fun a b => a.1 ≠ b.1)) (hid : ∀ x ∈ l, x.1 < e.1) :
    (insertPost l b e).Pairwise (fun a b => a.1 ≠ b.1) := by
  unfold insertPost; split
  · rw [List.pairwise_cons]; refine ⟨?_, hl⟩
    intro x hx; have := hid x hx; omega
  · rw [List.pairwise_append]; refine ⟨hl, by simp, ?_⟩
    intro x hx y hy; simp at hy; subst hy; have := hid x hx; omega

theorem registerMon_of_some {s : State} {mid x : Nat} (h : (s.mons mid).handle = some x) :
    registerMon s mid = s := by unfold registerMon; rw [h]

theorem registerMon_of_none {s : State} {mid : Nat} (h : (s.mons mid).handle = none) :
    registerMon s mid =
      setMon { s with post := insertPost s.post (s.mons mid).prepend (s.nextId, mid), nextId := s.nextId + 1 }
        mid { s.mons mid with handle := some s.nextId } := by unfold registerMon; rw [h]

@[simp] theorem registerMon_trainers (s : State) (mid : Nat) : (registerMon s mid).trainers = s.trainers := by
  unfold registerMon; split <;> rfl
@[simp] theorem registerMon_nMons (s : State) (mid : Nat) : (registerMon s mid).nMons = s.nMons := by
  unfold registerMon; split <;> rfl
@[simp] theorem registerMon_nTrainers (s : State) (mid : Nat) : (registerMon s mid).nTrainers = s.nTrainers := by
  unfold registerMon; split <;> rfl
@[simp] theorem registerMon_cellMons (s : State) (mid : Nat) : (registerMon s mid).cellMons = s.cellMons := by
  unfold registerMon; split <;> rfl
@[simp] theorem registerMon_topo (s : State) (mid : Nat) : (registerMon s mid).topo = s.topo := by
  unfold registerMon; split <;> rfl
@[simp] theorem registerMon_layerTraining (s : State) (mid : Nat) : (registerMon s mid).layerTraining = s.layerTraining := by
  unfold registerMon; split <;> rfl

theorem registerMon_mons (s : State) (mid i : Nat) :
    (registerMon s mid).mons i =
      if i = mid ∧ (s.mons mid).handle = none then { s.mons mid with handle := some s.nextId } else s.mons i := by
  cases h : (s.mons mid).handle with
  | none => rw [registerMon_of_none h]; simp [setMon]
  | some x => rw [registerMon_of_some h]; simp

theorem wfh_registerMon {s : State} (w : WFh s) (mid : Nat) (hal : (s.mons mid).alive = true) :
    WFh (registerMon s mid) := by
  cases hh : (s.mons mid).handle with
  | some x => rw [registerMon_of_some hh]; exact w
  | none =>
    rw [registerMon_of_none hh]
    obtain ⟨a, b, c, d⟩ := w
    constructor
    · intro e he
      simp only [setMon, mem_insertPost] at he ⊢
      rcases he with h | h
      · obtain ⟨h1, h2, h3⟩ := a e h
        have : e.2 ≠ mid := by intro hc; rw [hc, hh] at h3; cases h3
        simp [this, h2, h3]; omega
      · subst h; simp [hal]
    · exact pairwise_insertPost b (fun e he => (a e he).1)
    · intro i hid hi
      simp only [setMon, mem_insertPost] at hi ⊢
      by_cases him : i = mid
      · simp [him] at hi; subst hi; subst him; exact Or.inr rfl
      · simp only [him, if_false] at hi
        exact Or.inl (c i hid hi)
    · intro i hi
      simp only [setMon] at hi ⊢
      by_cases him : i = mid
      · rw [him]; exact d mid hal
      · simp only [him, if_false] at hi; exact d i hi

/-! ### New monitors -/

@[simp] theorem newMonitor_snd (s : State) (t : Nat) (pp : Bool) (path : Path) (tags : Option Nat)
    (reads : List Nat) (cell : Nat) : (newMonitor s t pp path tags reads cell).2 = s.nMons := rfl
@[simp] theorem newMonitor_trainers (s : State) (t : Nat) (pp : Bool) (path : Path) (tags : Option Nat)
    (reads : List Nat) (cell : Nat) : (newMonitor s t pp path tags reads cell).1.trainers = s.trainers := by
  simp [newMonitor, setMon]
@[simp] theorem newMonitor_nMons (s : State) (t : Nat) (pp : Bool) (path : Path) (tags : Option Nat)
    (reads : List Nat) (cell : Nat) : (newMonitor s t pp path tags reads cell).1.nMons = s.nMons + 1 := by
  simp [newMonitor, setMon]
@[simp] theorem newMonitor_nTrainers (s : State) (t : Nat) (pp : Bool) (path : Path) (tags : Option Nat)
    (reads : List Nat) (cell : Nat) : (newMonitor s t pp path tags reads cell).1.nTrainers = s.nTrainers := by
  simp [newMonitor, setMon]
@[simp] theorem newMonitor_cellMons (s : State) (t : Nat) (pp : Bool) (path : Path) (tags : Option Nat)
    (reads : List Nat) (cell : Nat) : (newMonitor s t pp path tags reads cell).1.cellMons = s.cellMons := by
  simp [newMonitor, setMon]
@[simp] theorem newMonitor_topo (s : State) (t : Nat) (pp : Bool) (path : Path) (tags : Option Nat)
    (reads : List Nat) (cell : Nat) : (newMonitor s t pp path tags reads cell).1.topo = s.topo := by
  simp [newMonitor, setMon]
@[simp] theorem newMonitor_layerTraining (s : State) (t : Nat) (pp : Bool) (path : Path) (tags : Option Nat)
    (reads : List Nat) (cell : Nat) : (newMonitor s t pp path tags reads cell).1.layerTraining = s.layerTraining := by
  simp [newMonitor, setMon]

theorem newMonitor_mons (s : State) (t : Nat) (pp : Bool) (path : Path) (tags : Option Nat)
    (reads : List Nat) (cell : Nat) (i : Nat) :
    (newMonitor s t pp path tags reads cell).1.mons i =
      if i = s.nMons then ⟨t, true, some s.nextId, pp, path, tags, reads, cell, 0, 0, cellLayer s cell⟩ else s.mons i := by
  simp only [newMonitor, registerMon_mons, setMon]
  by_cases h : i = s.nMons <;> simp [h, cellLayer]

theorem wfh_newMonitor {s : State} (w : WFh s) (t : Nat) (pp : Bool) (path : Path) (tags : Option Nat)
    (reads : List Nat) (cell : Nat) : WFh (newMonitor s t pp path tags reads cell).1 := by
  simp only [newMonitor]
  apply wfh_registerMon
  · obtain ⟨a, b, c, d⟩ := w
    constructor
    · intro e he
      simp only [setMon] at he ⊢
      obtain ⟨h1, h2, h3⟩ := a e he
      have : e.2 ≠ s.nMons := by have := d e.2 h2; omega
      simp [this, h1, h2, h3]
    · exact b
    · intro i hid hi
      simp only [setMon] at hi ⊢
      by_cases him : i = s.nMons
      · simp [him] at hi
      · simp only [him, if_false] at hi; exact c i hid hi
    · intro i hi
      simp only [setMon] at hi ⊢
      by_cases him : i = s.nMons
      · omega
      · simp only [him, if_false] at hi; have := d i hi; omega
  · simp [setMon]

/-! ### Pool consistency -/

/-- every monitor held by a live trainer's pool is alive, owned by that trainer, and registered
exactly when the trainer is in training mode -/
def PoolOK (s : State) : Prop :=
  ∀ t, (s.trainers t).alive = true → ∀ mid ∈ poolMids (s.trainers t),
    (s.mons mid).alive = true ∧ (s.mons mid).owner = t ∧ ((s.mons mid).handle.isSome = (s.trainers t).training)

structure WFc (s : State) : Prop where
  h : WFh s
  pool : PoolOK s
  trainer_lt : ∀ t, (s.trainers t).alive = true → t < s.nTrainers

/-- after reference counting has run: every alive monitor is held by its (alive) owner's pool -/
structure WF (s : State) : Prop extends WFc s where
  alive_live : ∀ mid, (s.mons mid).alive = true → live s mid = true

theorem init_wf (topo : List (Nat × Nat × Nat)) (f : Bool := true) : WF (init topo f) := by
  refine ⟨⟨⟨?_, ?_, ?_, ?_⟩, ?_, ?_⟩, ?_⟩ <;> simp [init, noMonitor, noTrainer, PoolOK]

theorem gc_wf {s : State} (w : WFc s) : WF (gc s) := by
  obtain ⟨⟨a, b, c, d⟩, p, tl⟩ := w
  have live_of_pool : ∀ t, (s.trainers t).alive = true → ∀ mid ∈ poolMids (s.trainers t), live s mid = true := by
    intro t ht mid hm
    obtain ⟨h1, h2, _⟩ := p t ht mid hm
    simp [live, referenced, h1, h2, ht, hm]
  refine ⟨⟨⟨?_, ?_, ?_, ?_⟩, ?_, ?_⟩, ?_⟩
  · intro e he
    simp only [gc, List.mem_filter] at he ⊢
    simp only [he.2, if_true]
    exact a e he.1
  · exact b.filter _
  · intro mid hid hm
    simp only [gc] at hm ⊢
    by_cases hl : live s mid = true
    · simp only [hl, if_true] at hm
      rw [List.mem_filter]; exact ⟨c mid hid hm, hl⟩
    · simp [hl] at hm
  · intro mid hm
    simp only [gc] at hm ⊢
    by_cases hl : live s mid = true
    · simp only [hl, if_true] at hm; exact d mid hm
    · simp [hl] at hm
  · intro t ht mid hm
    simp only [gc] at ht hm ⊢
    have hl := live_of_pool t ht mid hm
    simp only [hl, if_true]
    exact p t ht mid hm
  · exact tl
  · intro mid hm
    simp only [gc] at hm
    by_cases hl : live s mid = true
    · have e : (gc s).mons mid = s.mons mid := by simp [gc, hl]
      have : live (gc s) mid = live s mid := by simp only [live, referenced, e]; rfl
      rw [this]; exact hl
    · simp [hl] at hm

/-! ### Lists of groups -/

def gMids (gs : List (Nat × List (Nat × Nat))) : List Nat := gs.flatMap (fun g => g.2.map (·.2))

theorem poolMids_eq (T : Trainer) : poolMids T = gMids T.groups := rfl

theorem mem_gMids {gs : List (Nat × List (Nat × Nat))} {mid : Nat} :
    mid ∈ gMids gs ↔ ∃ g ∈ gs, ∃ e ∈ g.2, e.2 = mid := by
  simp [gMids, List.mem_flatMap, List.mem_map]

theorem lookup_mem {β : Type} {l : List (Nat × β)} {k : Nat} {v : β} (h : lookup l k = some v) :
    (k, v) ∈ l := by
  unfold lookup at h
  cases hf : l.find? (fun e => e.1 == k) with
  | none => simp [hf] at h
  | some e =>
    simp [hf] at h
    have h1 := List.find?_some hf
    have h2 := List.mem_of_find?_eq_some hf
    simp at h1
    have : e = (k, v) := by cases e; simp_all
    rw [← this]; exact h2

theorem lookup_isSome_of_mem {β : Type} {l : List (Nat × β)} {k : Nat} {v : β} (h : (k, v) ∈ l) :
    (lookup l k).isSome = true := by
  unfold lookup
  rw [Option.isSome_map, List.find?_isSome]
  exact ⟨(k, v), h, by simp⟩

theorem mem_gMids_of_lookup {gs : List (Nat × List (Nat × Nat))} {n m mid : Nat} {g : List (Nat × Nat)}
    (h1 : lookup gs n = some g) (h2 : lookup g m = some mid) : mid ∈ gMids gs :=
  mem_gMids.mpr ⟨(n, g), lookup_mem h1, (m, mid), lookup_mem h2, rfl⟩

theorem gMids_filter_subset {gs : List (Nat × List (Nat × Nat))} (p : Nat × List (Nat × Nat) → Bool) {mid : Nat}
    (h : mid ∈ gMids (gs.filter p)) : mid ∈ gMids gs := by
  rw [mem_gMids] at h ⊢
  obtain ⟨g, hg, e, he, rfl⟩ := h
  exact ⟨g, (List.mem_filter.mp hg).1, e, he, rfl⟩

theorem gMids_groupsErase_subset {gs : List (Nat × List (Nat × Nat))} {n m mid : Nat}
    (h : mid ∈ gMids (groupsErase gs n m)) : mid ∈ gMids gs := by
  rw [mem_gMids] at h ⊢
  obtain ⟨g, hg, e, he, rfl⟩ := h
  simp only [groupsErase, List.mem_map] at hg
  obtain ⟨g0, hg0, rfl⟩ := hg
  by_cases hn : (g0.1 == n) = true
  · simp only [hn, if_true] at he
    exact ⟨g0, hg0, e, (List.mem_filter.mp he).1, rfl⟩
  · simp only [hn] at he
    exact ⟨g0, hg0, e, he, rfl⟩

theorem gMids_groupsInsert {gs : List (Nat × List (Nat × Nat))} {n m mid x : Nat}
    (h : x ∈ gMids (groupsInsert gs n m mid)) : x = mid ∨ x ∈ gMids gs := by
  rw [mem_gMids] at h
  obtain ⟨g, hg, e, he, rfl⟩ := h
  unfold groupsInsert at hg
  split at hg
  · simp only [List.mem_map] at hg
    obtain ⟨g0, hg0, rfl⟩ := hg
    by_cases hn : (g0.1 == n) = true
    · simp only [hn, if_true] at he
      split at he
      · simp only [List.mem_map] at he
        obtain ⟨e0, he0, rfl⟩ := he
        by_cases hm : (e0.1 == m) = true
        · simp [hm]
        · simp only [hm]; right; exact mem_gMids.mpr ⟨g0, hg0, e0, he0, by simp⟩
      · rcases List.mem_append.mp he with h | h
        · right; exact mem_gMids.mpr ⟨g0, hg0, e, h, rfl⟩
        · simp at h; subst h; left; rfl
    · simp only [hn] at he
      right; exact mem_gMids.mpr ⟨g0, hg0, e, he, rfl⟩
  · rcases List.mem_append.mp hg with h | h
    · right; exact mem_gMids.mpr ⟨g, h, e, he, rfl⟩
    · simp at h; subst h; simp at he; subst he; left; rfl

theorem mem_gMids_groupsInsert_self (gs : List (Nat × List (Nat × Nat))) (n m mid : Nat) :
    mid ∈ gMids (groupsInsert gs n m mid) := by
  rw [mem_gMids]
  unfold groupsInsert
  split
  · rename_i h
    rw [List.any_eq_true] at h
    obtain ⟨g0, hg0, hn⟩ := h
    refine ⟨_, List.mem_map.mpr ⟨g0, hg0, rfl⟩, ?_⟩
    simp only [hn, if_true]
    split
    · rename_i h2
      rw [List.any_eq_true] at h2
      obtain ⟨e0, he0, hm⟩ := h2
      exact ⟨_, List.mem_map.mpr ⟨e0, he0, rfl⟩, by simp [hm]⟩
    · exact ⟨(m, mid), by simp, rfl⟩
  · exact ⟨(n, [(m, mid)]), by simp, (m, mid), by simp, rfl⟩

/-! ### Trainer updates -/

@[simp] theorem setTrainer_post (s : State) (t : Nat) (T : Trainer) : (setTrainer s t T).post = s.post := rfl
@[simp] theorem setTrainer_mons (s : State) (t : Nat) (T : Trainer) : (setTrainer s t T).mons = s.mons := rfl
@[simp] theorem setTrainer_nMons (s : State) (t : Nat) (T : Trainer) : (setTrainer s t T).nMons = s.nMons := rfl
@[simp] theorem setTrainer_nextId (s : State) (t : Nat) (T : Trainer) : (setTrainer s t T).nextId = s.nextId := rfl
@[simp] theorem setTrainer_nTrainers (s : State) (t : Nat) (T : Trainer) : (setTrainer s t T).nTrainers = s.nTrainers := rfl
@[simp] theorem setTrainer_cellMons (s : State) (t : Nat) (T : Trainer) : (setTrainer s t T).cellMons = s.cellMons := rfl
@[simp] theorem setTrainer_topo (s : State) (t : Nat) (T : Trainer) : (setTrainer s t T).topo = s.topo := rfl
@[simp] theorem setTrainer_layerTraining (s : State) (t : Nat) (T : Trainer) : (setTrainer s t T).layerTraining = s.layerTraining := rfl
theorem setTrainer_trainers (s : State) (t : Nat) (T : Trainer) (i : Nat) :
    (setTrainer s t T).trainers i = if i = t then T else s.trainers i := rfl
@[simp] theorem setTrainer_trainers_self (s : State) (t : Nat) (T : Trainer) : (setTrainer s t T).trainers t = T := by
  simp [setTrainer]

theorem wfc_setTrainer {s : State} (w : WFc s) (t : Nat) (T : Trainer)
    (hlt : T.alive = true → t < s.nTrainers)
    (hp : T.alive = true → ∀ mid ∈ poolMids T,
      (s.mons mid).alive = true ∧ (s.mons mid).owner = t ∧ ((s.mons mid).handle.isSome = T.training)) :
    WFc (setTrainer s t T) := by
  refine ⟨wfh_congr w.h rfl rfl rfl rfl, ?_, ?_⟩
  · intro t' ht' mid hm
    rw [setTrainer_trainers] at ht' hm ⊢
    by_cases h : t' = t
    · simp only [h, if_true] at ht' hm ⊢; exact hp ht' mid hm
    · simp only [h, if_false] at ht' hm ⊢; exact w.pool t' ht' mid hm
  · intro t' ht'
    rw [setTrainer_trainers] at ht'
    by_cases h : t' = t
    · simp only [h, if_true] at ht'; rw [h]; exact hlt ht'
    · simp only [h, if_false] at ht'; exact w.trainer_lt t' ht'

/-- states that agree on everything the structural invariants look at -/
theorem wfc_skeleton {s s' : State} (w : WFc s) (h1 : s'.post = s.post) (h2 : s'.nextId = s.nextId)
    (h4 : s'.nMons = s.nMons) (h5 : s'.trainers = s.trainers) (h6 : s'.nTrainers = s.nTrainers)
    (hm : ∀ i, (s'.mons i).alive = (s.mons i).alive ∧ (s'.mons i).handle = (s.mons i).handle ∧
      (s'.mons i).owner = (s.mons i).owner) : WFc s' := by
  obtain ⟨⟨a, b, c, d⟩, p, tl⟩ := w
  refine ⟨⟨?_, ?_, ?_, ?_⟩, ?_, ?_⟩
  · intro e he; rw [h1] at he; rw [h2, (hm e.2).1, (hm e.2).2.1]; exact a e he
  · rw [h1]; exact b
  · intro i hid hi; rw [(hm i).2.1] at hi; rw [h1]; exact c i hid hi
  · intro i hi; rw [(hm i).1] at hi; rw [h4]; exact d i hi
  · intro t ht mid hmem; rw [h5] at ht hmem ⊢; rw [(hm mid).1, (hm mid).2.1, (hm mid).2.2]; exact p t ht mid hmem
  · intro t ht; rw [h5] at ht; rw [h6]; exact tl t ht

theorem wf_skeleton {s s' : State} (w : WF s) (h1 : s'.post = s.post) (h2 : s'.nextId = s.nextId)
    (h4 : s'.nMons = s.nMons) (h5 : s'.trainers = s.trainers) (h6 : s'.nTrainers = s.nTrainers)
    (hm : ∀ i, (s'.mons i).alive = (s.mons i).alive ∧ (s'.mons i).handle = (s.mons i).handle ∧
      (s'.mons i).owner = (s.mons i).owner) : WF s' := by
  refine ⟨wfc_skeleton w.toWFc h1 h2 h4 h5 h6 hm, ?_⟩
  intro mid hmid
  rw [(hm mid).1] at hmid
  have := w.alive_live mid hmid
  simp only [live, referenced, h5, (hm mid).1, (hm mid).2.2] at this ⊢
  exact this

/-- the common tail of `MonitorPool.add_monitor`: write `cell.monitors[name]`, deregister if the
trainer is not training, insert into the pool -/
theorem addMonitorTail_wfc {s2 : State} (w2 : WFc s2) (t n mname mid cell : Nat)
    (hal : (s2.trainers t).alive = true) (hm1 : (s2.mons mid).alive = true) (hm2 : (s2.mons mid).owner = t)
    (hm3 : mid ∈ poolMids (s2.trainers t) ∨
      ((∀ t', (s2.trainers t').alive = true → mid ∉ poolMids (s2.trainers t')) ∧ (s2.mons mid).handle.isSome = true)) :
    WFc (addMonitorTail s2 t n mname mid cell) := by
  unfold addMonitorTail poolInsert
  generalize hs3 : writeCellMon s2 cell mname mid = s3
  have w3 : WFc s3 := by rw [← hs3]; exact wfc_skeleton w2 rfl rfl rfl rfl rfl (fun i => ⟨rfl, rfl, rfl⟩)
  have e3t : s3.trainers = s2.trainers := by rw [← hs3]; rfl
  have e3m : s3.mons = s2.mons := by rw [← hs3]; rfl
  have e3n : s3.nTrainers = s2.nTrainers := by rw [← hs3]; rfl
  generalize hs4 : deregIfEval s3 t mid = s4
  have hs4' : (if (s2.trainers t).training = true then s3 else deregisterMon s3 mid) = s4 := by
    rw [← hs4, deregIfEval, e3t]
  have tr4 : s4.trainers = s2.trainers := by rw [← hs4']; split <;> simp [e3t]
  have n4 : s4.nTrainers = s2.nTrainers := by rw [← hs4']; split <;> simp [e3n]
  -- state s4 is consistent, and `mid` has the registration state the trainer's mode demands
  have key : WFc s4 ∧ (s4.mons mid).alive = true ∧ (s4.mons mid).owner = t ∧
      (s4.mons mid).handle.isSome = (s2.trainers t).training := by
    by_cases htr : (s2.trainers t).training = true
    · have e : s4 = s3 := by rw [← hs4']; simp [htr]
      rw [e, e3m]
      refine ⟨w3, hm1, hm2, ?_⟩
      rcases hm3 with h | ⟨_, h⟩
      · exact (w2.pool t hal mid h).2.2
      · rw [h, htr]
    · have e : s4 = deregisterMon s3 mid := by rw [← hs4']; simp [htr]
      simp only [Bool.not_eq_true] at htr
      rw [e]
      refine ⟨⟨wfh_deregisterMon w3.h mid, ?_, w3.trainer_lt⟩, ?_, ?_, ?_⟩
      · intro t' ht' mid' hm'
        simp only [deregisterMon_trainers, e3t] at ht' hm' ⊢
        rw [deregisterMon_mons, e3m]
        by_cases hmm : mid' = mid
        · subst hmm
          simp only [if_true]
          rcases hm3 with h | ⟨h, _⟩
          · have p1 := w2.pool t' ht' mid' hm'
            have p2 := w2.pool t hal mid' h
            have : t' = t := by rw [← p1.2.1, ← p2.2.1]
            subst this
            refine ⟨p1.1, p1.2.1, ?_⟩
            show false = (s2.trainers t').training; rw [htr]
          · exact absurd hm' (h t' ht')
        · simp only [hmm, if_false]; exact w2.pool t' ht' mid' hm'
      · rw [deregisterMon_mons, e3m]; simp; exact hm1
      · rw [deregisterMon_mons, e3m]; simp; exact hm2
      · rw [deregisterMon_mons]; simp [htr]
  obtain ⟨w4, k1, k2, k3⟩ := key
  apply wfc_setTrainer w4
  · intro _; rw [n4]; exact w2.trainer_lt t hal
  · intro _ x hx
    rw [poolMids_eq] at hx
    simp only at hx
    rcases gMids_groupsInsert hx with h | h
    · subst h; refine ⟨k1, k2, ?_⟩; rw [k3, tr4]
    · have hx' : x ∈ poolMids (s4.trainers t) := h
      have hal4 : (s4.trainers t).alive = true := by rw [tr4]; exact hal
      have := w4.pool t hal4 x hx'
      refine ⟨this.1, this.2.1, ?_⟩
      rw [this.2.2]

theorem findAlias_go_mem (s : State) (T : Trainer) (cell mname tags : Nat) (path : Path)
    (obs : List (Nat × Nat)) (found : Option Nat) (hf : ∀ x, found = some x → x ∈ poolMids T)
    (mid : Nat) (h : findAlias.go s T cell mname tags path obs found = some mid) : mid ∈ poolMids T := by
  induction obs generalizing found with
  | nil => exact hf mid (by simpa [findAlias.go] using h)
  | cons o rest ih =>
    obtain ⟨oname, ocell⟩ := o
    simp only [findAlias.go] at h
    split at h
    · exact ih found hf h
    cases hg : lookup T.groups oname with
    | none => simp only [hg] at h; exact ih found hf h
    | some g =>
      simp only [hg] at h
      cases hm : lookup g mname with
      | none => simp only [hm] at h; exact ih found hf h
      | some m0 =>
        simp only [hm] at h
        have hm0 : m0 ∈ poolMids T := mem_gMids_of_lookup hg hm
        split at h
        · split at h
          · cases h; exact hm0
          · exact ih (some m0) (by intro x hx; cases hx; exact hm0) h
        · exact ih found hf h

theorem findAlias_mem {s : State} {T : Trainer} {cell mname tags : Nat} {path : Path} {mid : Nat}
    (h : findAlias s T cell mname tags path = some mid) : mid ∈ poolMids T :=
  findAlias_go_mem s T cell mname tags path T.cells none (by simp) mid h


theorem eraseExisting_spec {s : State} (w : WFc s) (t n mname : Nat) (hal : (s.trainers t).alive = true) :
    WFc (eraseExisting s t n mname) ∧ ((eraseExisting s t n mname).trainers t).alive = true ∧
    ((eraseExisting s t n mname).trainers t).training = (s.trainers t).training ∧
    ((eraseExisting s t n mname).trainers t).cells = (s.trainers t).cells ∧
    (eraseExisting s t n mname).mons = s.mons := by
  unfold eraseExisting
  simp only
  split
  · refine ⟨?_, by simp [hal], by simp, by simp, rfl⟩
    apply wfc_setTrainer w t _ (fun _ => w.trainer_lt t hal)
    intro _ x hx
    exact w.pool t hal x (gMids_groupsErase_subset hx)
  · exact ⟨w, hal, rfl, rfl, rfl⟩

theorem obtainMonitor_spec {s : State} (w : WFc s) (t cell mname : Nat) (unique prepend : Bool) (tags : Nat)
    (path : Path) (reads : List Nat) (hal : (s.trainers t).alive = true) :
    let r := obtainMonitor s t cell mname unique prepend tags path reads
    WFc r.1 ∧ r.1.trainers = s.trainers ∧ (r.1.mons r.2).alive = true ∧ (r.1.mons r.2).owner = t ∧
    (r.2 ∈ poolMids (r.1.trainers t) ∨
      ((∀ t', (r.1.trainers t').alive = true → r.2 ∉ poolMids (r.1.trainers t')) ∧
        (r.1.mons r.2).handle.isSome = true)) := by
  have fresh : ∀ (tg : Option Nat),
      let r := newMonitor s t prepend path tg reads cell
      WFc r.1 ∧ r.1.trainers = s.trainers ∧ (r.1.mons r.2).alive = true ∧ (r.1.mons r.2).owner = t ∧
      (r.2 ∈ poolMids (r.1.trainers t) ∨
        ((∀ t', (r.1.trainers t').alive = true → r.2 ∉ poolMids (r.1.trainers t')) ∧
          (r.1.mons r.2).handle.isSome = true)) := by
    intro tg r
    have hlt : ∀ t', (s.trainers t').alive = true → ∀ x ∈ poolMids (s.trainers t'), x < s.nMons := by
      intro t' ht' x hx
      exact w.h.alive_lt x (w.pool t' ht' x hx).1
    refine ⟨⟨wfh_newMonitor w.h _ _ _ _ _ _, ?_, ?_⟩, by simp [r], ?_, ?_, Or.inr ⟨?_, ?_⟩⟩
    · intro t' ht' x hx
      simp only [r, newMonitor_trainers] at ht' hx ⊢
      have := hlt t' ht' x hx
      rw [newMonitor_mons]
      have hne : x ≠ s.nMons := by omega
      simp only [hne, if_false]
      exact w.pool t' ht' x hx
    · intro t' ht'
      simp only [r, newMonitor_trainers, newMonitor_nTrainers] at ht' ⊢
      exact w.trainer_lt t' ht'
    · simp only [r, newMonitor_snd, newMonitor_mons]; simp
    · simp only [r, newMonitor_snd, newMonitor_mons]; simp
    · intro t' ht' hx
      simp only [r, newMonitor_trainers, newMonitor_snd] at ht' hx
      have := hlt t' ht' _ hx
      omega
    · simp only [r, newMonitor_snd, newMonitor_mons]; simp
  intro r
  simp only [r, obtainMonitor]
  cases unique with
  | true => simp only [if_true]; exact fresh none
  | false =>
    simp only [Bool.false_eq_true, if_false]
    cases hfa : findAlias s (s.trainers t) cell mname tags path with
    | none => simp only; exact fresh (some tags)
    | some mid =>
      simp only
      have hmem : mid ∈ poolMids (s.trainers t) := findAlias_mem hfa
      have pm := w.pool t hal mid hmem
      exact ⟨w, trivial, pm.1, pm.2.1, Or.inl hmem⟩

theorem addMonitor_wfc {s : State} (w : WFc s) (t n mname : Nat) (sel : AttrSel) (unique prepend : Bool)
    (tags : Nat) (reads : List Nat) (hal : (s.trainers t).alive = true) :
    WFc (addMonitor s t n mname sel unique prepend tags reads).1 ∧
    ((addMonitor s t n mname sel unique prepend tags reads).1.trainers t).alive = true := by
  unfold addMonitor
  cases hc : lookup (s.trainers t).cells n with
  | none => exact ⟨w, hal⟩
  | some cell =>
    simp only
    split
    · exact ⟨w, hal⟩
    · obtain ⟨w1, a1, _, _, _⟩ := eraseExisting_spec w t n mname hal
      cases hr : realign (eraseExisting s t n mname) cell sel with
      | error e => exact ⟨w1, a1⟩
      | ok path =>
        simp only
        obtain ⟨w2, t2, m1, m2, m3⟩ := obtainMonitor_spec w1 t cell mname unique prepend tags path reads a1
        have a2 : ((obtainMonitor (eraseExisting s t n mname) t cell mname unique prepend tags path reads).1.trainers t).alive = true := by
          rw [t2]; exact a1
        refine ⟨addMonitorTail_wfc w2 t n mname _ cell a2 m1 m2 m3, ?_⟩
        unfold addMonitorTail poolInsert deregIfEval writeCellMon
        simp only [setTrainer_trainers_self]
        split
        · exact a2
        · simpa using a2

/-! ### Folds of (de)registrations -/

/-- monitors of `s'` equal those of `s` except for their handles -/
def SameButHandle (m m' : Monitor) : Prop := m' = { m with handle := m'.handle }

theorem SameButHandle.fields {m m' : Monitor} (h : SameButHandle m m') :
    m'.alive = m.alive ∧ m'.owner = m.owner ∧ m'.count = m.count ∧ m'.expected = m.expected ∧
    m'.path = m.path ∧ m'.reads = m.reads ∧ m'.cell = m.cell ∧ m'.tags = m.tags ∧ m'.prepend = m.prepend := by
  unfold SameButHandle at h; rw [h]; simp

theorem SameButHandle.refl (m : Monitor) : SameButHandle m m := by cases m; rfl

theorem SameButHandle.trans {a b c : Monitor} (h1 : SameButHandle a b) (h2 : SameButHandle b c) :
    SameButHandle a c := by
  unfold SameButHandle at *; rw [h2, h1]

theorem deregisterUnshared_cons (s : State) (shared : List Nat) (e : Nat × Nat) (rest : List (Nat × Nat)) :
    deregisterUnshared s shared (e :: rest) =
      deregisterUnshared (if shared.contains e.2 then s else deregisterMon s e.2) shared rest := rfl

theorem setAll_cons (s : State) (mode : Bool) (x : Nat) (rest : List Nat) :
    setAll s mode (x :: rest) = setAll (if mode then registerMon s x else deregisterMon s x) mode rest := rfl

theorem deregisterUnshared_spec (shared : List Nat) (g : List (Nat × Nat)) (s : State) (w : WFh s) :
    WFh (deregisterUnshared s shared g) ∧ (deregisterUnshared s shared g).trainers = s.trainers ∧
    (deregisterUnshared s shared g).nTrainers = s.nTrainers ∧
    (deregisterUnshared s shared g).cellMons = s.cellMons ∧
    (∀ i, SameButHandle (s.mons i) ((deregisterUnshared s shared g).mons i)) ∧
    (∀ i, (∀ e ∈ g, e.2 = i → shared.contains i = true) → (deregisterUnshared s shared g).mons i = s.mons i) := by
  induction g generalizing s with
  | nil => exact ⟨w, rfl, rfl, rfl, fun i => SameButHandle.refl _, fun i _ => rfl⟩
  | cons e rest ih =>
    rw [deregisterUnshared_cons]
    by_cases hs : shared.contains e.2 = true
    · simp only [hs, if_true]
      obtain ⟨a, b, c, c', d, f⟩ := ih s w
      refine ⟨a, b, c, c', d, ?_⟩
      intro i hi
      exact f i (fun e' he' => hi e' (List.mem_cons_of_mem _ he'))
    · simp only [hs, Bool.false_eq_true, if_false]
      obtain ⟨a, b, c, c', d, f⟩ := ih (deregisterMon s e.2) (wfh_deregisterMon w e.2)
      refine ⟨a, by rw [b]; rfl, by rw [c]; rfl, by rw [c']; rfl, ?_, ?_⟩
      · intro i
        refine SameButHandle.trans ?_ (d i)
        rw [deregisterMon_mons]; split
        · rename_i h; subst h; unfold SameButHandle; rfl
        · exact SameButHandle.refl _
      · intro i hi
        rw [f i (fun e' he' => hi e' (List.mem_cons_of_mem _ he')), deregisterMon_mons]
        have : i ≠ e.2 := by
          intro hc; have := hi e List.mem_cons_self hc.symm; rw [hc] at this; exact hs this
        simp [this]

theorem setAll_spec (mode : Bool) (l : List Nat) (s : State) (w : WFh s) (hal : ∀ i ∈ l, (s.mons i).alive = true) :
    WFh (setAll s mode l) ∧ (setAll s mode l).trainers = s.trainers ∧
    (setAll s mode l).nTrainers = s.nTrainers ∧ (setAll s mode l).cellMons = s.cellMons ∧
    (∀ i, SameButHandle (s.mons i) ((setAll s mode l).mons i)) ∧
    (∀ i, i ∉ l → (setAll s mode l).mons i = s.mons i) ∧
    (∀ i ∈ l, ((setAll s mode l).mons i).handle.isSome = mode) := by
  induction l generalizing s with
  | nil => exact ⟨w, rfl, rfl, rfl, fun i => SameButHandle.refl _, fun i _ => rfl, fun i hi => by cases hi⟩
  | cons x rest ih =>
    rw [setAll_cons]
    generalize hs1 : (if mode = true then registerMon s x else deregisterMon s x) = s1
    have hx : (s.mons x).alive = true := hal x List.mem_cons_self
    have w1 : WFh s1 := by
      rw [← hs1]; split
      · exact wfh_registerMon w x hx
      · exact wfh_deregisterMon w x
    have t1 : s1.trainers = s.trainers := by rw [← hs1]; split <;> simp
    have n1 : s1.nTrainers = s.nTrainers := by rw [← hs1]; split <;> simp
    have c1 : s1.cellMons = s.cellMons := by rw [← hs1]; split <;> simp
    have m1 : ∀ i, SameButHandle (s.mons i) (s1.mons i) := by
      intro i; rw [← hs1]; split
      · rw [registerMon_mons]; split
        · rename_i h; rw [h.1]; unfold SameButHandle; rfl
        · exact SameButHandle.refl _
      · rw [deregisterMon_mons]; split
        · rename_i h; rw [h]; unfold SameButHandle; rfl
        · exact SameButHandle.refl _
    have m1' : ∀ i, i ≠ x → s1.mons i = s.mons i := by
      intro i hi; rw [← hs1]; split
      · rw [registerMon_mons]; simp [hi]
      · rw [deregisterMon_mons]; simp [hi]
    have m1x : (s1.mons x).handle.isSome = mode := by
      rw [← hs1]; split
      · rename_i hm; rw [registerMon_mons]
        cases hh : (s.mons x).handle with
        | none => simp [hm]
        | some v => simp [hh, hm]
      · rename_i hm; rw [deregisterMon_mons]; simp at hm; simp [hm]
    have hal1 : ∀ i ∈ rest, (s1.mons i).alive = true := by
      intro i hi; rw [(m1 i).fields.1]; exact hal i (List.mem_cons_of_mem _ hi)
    obtain ⟨a, b, c, c', d, e, f⟩ := ih s1 w1 hal1
    refine ⟨a, by rw [b, t1], by rw [c, n1], by rw [c', c1], fun i => SameButHandle.trans (m1 i) (d i), ?_, ?_⟩
    · intro i hi
      have h1 : i ≠ x := fun hc => hi (hc ▸ List.mem_cons_self)
      have h2 : i ∉ rest := fun hc => hi (List.mem_cons_of_mem _ hc)
      rw [e i h2, m1' i h1]
    · intro i hi
      by_cases hr : i ∈ rest
      · exact f i hr
      · have : i = x := by rcases List.mem_cons.mp hi with h | h; exact h; exact absurd h hr
        rw [e i hr, this]; exact m1x

/-! ### Every operation preserves the structural invariant -/

theorem wfc_replaceTrainer {s : State} (wh : WFh s) (t : Nat) (T : Trainer)
    (hothers : ∀ t', t' ≠ t → (s.trainers t').alive = true → t' < s.nTrainers ∧ ∀ mid ∈ poolMids (s.trainers t'),
      (s.mons mid).alive = true ∧ (s.mons mid).owner = t' ∧ ((s.mons mid).handle.isSome = (s.trainers t').training))
    (hlt : T.alive = true → t < s.nTrainers)
    (hp : T.alive = true → ∀ mid ∈ poolMids T,
      (s.mons mid).alive = true ∧ (s.mons mid).owner = t ∧ ((s.mons mid).handle.isSome = T.training)) :
    WFc (setTrainer s t T) := by
  refine ⟨wfh_congr wh rfl rfl rfl rfl, ?_, ?_⟩
  · intro t' ht' mid hm
    rw [setTrainer_trainers] at ht' hm ⊢
    by_cases h : t' = t
    · simp only [h, if_true] at ht' hm ⊢; exact hp ht' mid hm
    · simp only [h, if_false] at ht' hm ⊢; exact (hothers t' h ht').2 mid hm
  · intro t' ht'
    rw [setTrainer_trainers] at ht'
    by_cases h : t' = t
    · simp only [h, if_true] at ht'; rw [h]; exact hlt ht'
    · simp only [h, if_false] at ht'; exact (hothers t' h ht').1

theorem mem_pool_of_lookup {T : Trainer} {n m mid : Nat} {g : List (Nat × Nat)}
    (h1 : lookup T.groups n = some g) (h2 : (m, mid) ∈ g) : mid ∈ poolMids T :=
  mem_gMids.mpr ⟨(n, g), lookup_mem h1, (m, mid), h2, rfl⟩

theorem delObserved_wfc {s : State} (w : WFc s) (t n : Nat) (hal : (s.trainers t).alive = true) :
    WFc (delObserved s t n) ∧ ((delObserved s t n).trainers t).alive = true ∧
    ((delObserved s t n).trainers t).training = (s.trainers t).training ∧
    ((delObserved s t n).trainers t).cells = (s.trainers t).cells ∧
    ((delObserved s t n).trainers t).kind = (s.trainers t).kind := by
  unfold delObserved
  cases hg : lookup (s.trainers t).groups n with
  | none => exact ⟨w, hal, rfl, rfl, rfl⟩
  | some g =>
    simp only
    obtain ⟨a, b, c, _, d, f⟩ := deregisterUnshared_spec (otherMids (s.trainers t) n) g s w.h
    generalize hs' : deregisterUnshared s (otherMids (s.trainers t) n) g = s' at a b c d f
    unfold dropGroup
    refine ⟨?_, by simp [b, hal], by simp [b], by simp [b], by simp [b]⟩
    apply wfc_replaceTrainer a
    · intro t' hne ht'
      rw [b] at ht' ⊢
      refine ⟨by rw [c]; exact w.trainer_lt t' ht', ?_⟩
      intro x hx
      have px := w.pool t' ht' x hx
      have : s'.mons x = s.mons x := by
        apply f; intro e he hex
        -- `x` would be owned by `t`
        have : x ∈ poolMids (s.trainers t) := by
          obtain ⟨e1, e2⟩ := e; simp only at hex; subst hex; exact mem_pool_of_lookup hg he
        have := (w.pool t hal x this).2.1
        rw [px.2.1] at this; exact absurd this hne
      rw [this]; exact px
    · intro _; rw [c]; exact w.trainer_lt t hal
    · intro _ x hx
      rw [b] at hx ⊢
      have hx0 : x ∈ poolMids (s.trainers t) := gMids_filter_subset _ hx
      have px := w.pool t hal x hx0
      have : s'.mons x = s.mons x := by
        apply f; intro e he hex
        simp only [List.contains_iff_mem]
        exact hx
      rw [this]; exact px

theorem delEntry_wfc {s : State} (w : WFc s) (t n mname mid : Nat) (hal : (s.trainers t).alive = true)
    (hmid : mid ∈ poolMids (s.trainers t)) : WFc (delEntry s t n mname mid) := by
  unfold delEntry
  have w1 : WFc (eraseEntry s t n mname) := by
    unfold eraseEntry
    apply wfc_setTrainer w t _ (fun _ => w.trainer_lt t hal)
    intro _ x hx
    exact w.pool t hal x (gMids_groupsErase_subset hx)
  have a1 : ((eraseEntry s t n mname).trainers t).alive = true := by simp [eraseEntry, hal]
  have t1 : ∀ t', t' ≠ t → (eraseEntry s t n mname).trainers t' = s.trainers t' := by
    intro t' h; simp [eraseEntry, setTrainer, h]
  have m1 : (eraseEntry s t n mname).mons = s.mons := rfl
  generalize hs1 : eraseEntry s t n mname = s1 at w1 a1 t1 m1
  have pm := w.pool t hal mid hmid
  have w2 : WFc (deregIfUnaliased s1 t mid) ∧ ((deregIfUnaliased s1 t mid).trainers = s1.trainers) := by
    unfold deregIfUnaliased
    split
    · exact ⟨w1, rfl⟩
    · rename_i hnot
      refine ⟨⟨wfh_deregisterMon w1.h mid, ?_, w1.trainer_lt⟩, rfl⟩
      intro t' ht' x hx
      simp only [deregisterMon_trainers] at ht' hx ⊢
      have px := w1.pool t' ht' x hx
      have hne : x ≠ mid := by
        intro hc; subst hc
        by_cases htt : t' = t
        · subst htt; exact hnot (by simpa using hx)
        · have := px.2.1; rw [m1, pm.2.1] at this; exact htt this.symm
      rw [deregisterMon_mons]; simp only [hne, if_false]; exact px
  obtain ⟨w2, t2⟩ := w2
  unfold dropEmptyGroup
  apply wfc_setTrainer w2 t _ (fun _ => w2.trainer_lt t (by rw [t2]; exact a1))
  intro _ x hx
  have hx' : x ∈ poolMids ((deregIfUnaliased s1 t mid).trainers t) := gMids_filter_subset _ hx
  exact w2.pool t (by rw [t2]; exact a1) x hx'

theorem trainerTrain_wfc {s : State} (w : WFc s) (t : Nat) (mode : Bool) (hal : (s.trainers t).alive = true) :
    WFc (setAll (setTrainer s t { s.trainers t with training := mode }) mode (distinctMids (s.trainers t))) := by
  have wh1 : WFh (setTrainer s t { s.trainers t with training := mode }) := wfh_congr w.h rfl rfl rfl rfl
  have hmem : ∀ x, x ∈ distinctMids (s.trainers t) ↔ x ∈ poolMids (s.trainers t) := by
    intro x; unfold distinctMids; exact List.mem_eraseDups
  obtain ⟨a, b, c, _, d, e, f⟩ := setAll_spec mode (distinctMids (s.trainers t)) _ wh1
    (by intro i hi; exact (w.pool t hal i ((hmem i).mp hi)).1)
  refine ⟨a, ?_, ?_⟩
  · intro t' ht' x hx
    rw [b, setTrainer_trainers] at ht' hx ⊢
    by_cases htt : t' = t
    · subst htt
      simp only [if_true] at ht' hx ⊢
      have hx0 : x ∈ poolMids (s.trainers t') := hx
      have px := w.pool t' hal x hx0
      have sb := (d x).fields
      simp only [setTrainer_mons] at sb
      exact ⟨by rw [sb.1]; exact px.1, by rw [sb.2.1]; exact px.2.1, f x ((hmem x).mpr hx0)⟩
    · simp only [htt, if_false] at ht' hx ⊢
      have px := w.pool t' ht' x hx
      have : x ∉ distinctMids (s.trainers t) := by
        intro hc
        have := (w.pool t hal x ((hmem x).mp hc)).2.1
        rw [px.2.1] at this; exact htt this
      rw [e x this]; exact px
  · intro t' ht'
    rw [b, setTrainer_trainers] at ht'
    rw [c]
    by_cases htt : t' = t
    · rw [htt]; exact w.trainer_lt t hal
    · simp only [htt, if_false] at ht'; exact w.trainer_lt t' ht'

theorem addTemplate_wfc (tpl : List (Nat × AttrSel × Bool × Bool × Nat × List Nat)) (t n : Nat) (s : State)
    (w : WFc s) (hal : (s.trainers t).alive = true) : WFc (addTemplate s t n tpl) := by
  induction tpl generalizing s with
  | nil => exact w
  | cons e rest ih =>
    obtain ⟨w', a'⟩ := addMonitor_wfc w t n e.1 e.2.1 e.2.2.1 e.2.2.2.1 e.2.2.2.2.1 e.2.2.2.2.2 hal
    exact ih _ w' a'

theorem stepCore_wfc {s : State} (w : WF s) (op : Op) : WFc (stepCore s op).1 := by
  have wc := w.toWFc
  cases op with
  | newTrainer kind =>
    simp only [stepCore]
    have w' : WFc { s with nTrainers := s.nTrainers + 1 } :=
      ⟨wfh_congr wc.h rfl rfl rfl rfl, wc.pool, fun t ht => Nat.lt_succ_of_lt (wc.trainer_lt t ht)⟩
    apply wfc_setTrainer w' _ _ (fun _ => Nat.lt_succ_self _)
    intro _ x hx; simp [poolMids] at hx
  | registerCell t n c v =>
    simp only [stepCore]
    split
    · exact wc
    · rename_i hal; simp only [Bool.not_eq_true, Bool.not_eq_false'] at hal
      have hal : (s.trainers t).alive = true := by simpa using hal
      split
      · exact wc
      · split
        · exact wc
        · obtain ⟨w0, a0, _, _, _⟩ := delObserved_wfc wc t n hal
          apply addTemplate_wfc
          · unfold addCellEntry
            apply wfc_setTrainer w0 t _ (fun _ => w0.trainer_lt t a0)
            intro _ x hx; exact w0.pool t a0 x hx
          · simp [addCellEntry, a0]
  | delCell t n =>
    simp only [stepCore]
    split
    · exact wc
    · rename_i hal
      have hal : (s.trainers t).alive = true := by simpa using hal
      split
      · exact wc
      · obtain ⟨w0, a0, _, _, _⟩ := delObserved_wfc wc t n hal
        unfold dropCell
        apply wfc_setTrainer w0 t _ (fun _ => w0.trainer_lt t a0)
        intro _ x hx; exact w0.pool t a0 x hx
  | addMonitor t n mname sel unique prepend tags =>
    simp only [stepCore]
    split
    · exact wc
    · rename_i hal
      have hal : (s.trainers t).alive = true := by simpa using hal
      exact (addMonitor_wfc wc t n mname sel unique prepend tags [] hal).1
  | delMonitor t n mname =>
    simp only [stepCore]
    split
    · exact wc
    · rename_i hal
      have hal : (s.trainers t).alive = true := by simpa using hal
      cases hg : lookup (s.trainers t).groups n with
      | none => exact wc
      | some g =>
        simp only
        split
        · exact wc
        · cases hm : lookup g mname with
          | none => exact wc
          | some mid => exact delEntry_wfc wc t n mname mid hal (mem_gMids_of_lookup hg hm)
  | trainerTrain t mode =>
    simp only [stepCore]
    split
    · exact wc
    · rename_i hal
      have hal : (s.trainers t).alive = true := by simpa using hal
      exact trainerTrain_wfc wc t mode hal
  | layerTrain l mode =>
    exact wfc_skeleton wc rfl rfl rfl rfl rfl (fun i => ⟨rfl, rfl, rfl⟩)
  | layerStep l =>
    simp only [stepCore]
    split
    · apply wfc_skeleton (s' := ghostStep s l) wc rfl rfl rfl rfl rfl
      intro i; simp only [ghostStep]; split <;> exact ⟨rfl, rfl, rfl⟩
    · apply wfc_skeleton (s' := countStep (ghostStep s l) (ranHooks s l)) wc rfl rfl rfl rfl rfl
      intro i; simp only [countStep, ghostStep]; split <;> split <;> exact ⟨rfl, rfl, rfl⟩
  | trainerStep t =>
    simp only [stepCore]
    split
    · exact wc
    · split <;> exact wc
  | clear t =>
    simp only [stepCore]
    split
    · exact wc
    · apply wfc_skeleton (s' := clearMons s t) wc rfl rfl rfl rfl rfl
      intro i; simp only [clearMons]; split <;> exact ⟨rfl, rfl, rfl⟩
  | collect t =>
    simp only [stepCore]
    split
    · exact wc
    · apply wfc_setTrainer wc t _ (by simp) (by simp)

theorem step_wf {s : State} (w : WF s) (op : Op) : WF (step s op).1 := gc_wf (stepCore_wfc w op)

theorem exec_wf (topo : List (Nat × Nat × Nat)) (ops : List Op) (f : Bool := true) :
    WF (exec (init topo f) ops) := by
  have : ∀ (s : State), WF s → WF (exec s ops) := by
    induction ops with
    | nil => intro s w; exact w
    | cons op ops ih => intro s w; exact ih _ (step_wf w op)
  exact this _ (init_wf topo f)



/-! ### Counts: every operation except a layer step treats `count` and `expected` alike -/

structure Rel (s s' : State) : Prop where
  h : ∀ i, SameButHandle (s.mons i) (s'.mons i) ∨ ((s'.mons i).count = 0 ∧ (s'.mons i).expected = 0)

theorem Rel.refl (s : State) : Rel s s := ⟨fun _ => Or.inl (SameButHandle.refl _)⟩

theorem Rel.trans {a b c : State} (h1 : Rel a b) (h2 : Rel b c) : Rel a c := by
  constructor
  intro i
  rcases h2.h i with h | h
  · rcases h1.h i with g | g
    · exact Or.inl (g.trans h)
    · right; have := h.fields; rw [this.2.2.1, this.2.2.2.1]; exact g
  · exact Or.inr h

theorem Rel.of_mons_eq {s s' : State} (h : s'.mons = s.mons) : Rel s s' := by
  constructor; intro i; rw [h]; exact Or.inl (SameButHandle.refl _)

theorem Rel.of_same {s s' : State} (h : ∀ i, SameButHandle (s.mons i) (s'.mons i)) : Rel s s' :=
  ⟨fun i => Or.inl (h i)⟩

def CountOK (s : State) : Prop := ∀ mid, (s.mons mid).alive = true → (s.mons mid).count = (s.mons mid).expected

theorem CountOK.of_rel {s s' : State} (h : CountOK s) (r : Rel s s') : CountOK s' := by
  intro i hi
  rcases r.h i with g | g
  · have f := g.fields
    rw [f.2.2.1, f.2.2.2.1]; apply h; rw [← f.1]; exact hi
  · rw [g.1, g.2]

theorem rel_deregisterMon (s : State) (mid : Nat) : Rel s (deregisterMon s mid) := by
  apply Rel.of_same; intro i; rw [deregisterMon_mons]; split
  · rename_i h; rw [h]; unfold SameButHandle; rfl
  · exact SameButHandle.refl _

theorem rel_registerMon (s : State) (mid : Nat) : Rel s (registerMon s mid) := by
  apply Rel.of_same; intro i; rw [registerMon_mons]; split
  · rename_i h; rw [h.1]; unfold SameButHandle; rfl
  · exact SameButHandle.refl _

theorem rel_newMonitor (s : State) (t : Nat) (pp : Bool) (path : Path) (tags : Option Nat)
    (reads : List Nat) (cell : Nat) : Rel s (newMonitor s t pp path tags reads cell).1 := by
  refine ⟨fun i => ?_⟩; rw [newMonitor_mons]; split
  · right; exact ⟨rfl, rfl⟩
  · left; exact SameButHandle.refl _

theorem rel_eraseExisting (s : State) (t n mname : Nat) : Rel s (eraseExisting s t n mname) := by
  apply Rel.of_mons_eq; unfold eraseExisting; simp only; split <;> rfl

theorem rel_obtainMonitor (s : State) (t cell mname : Nat) (unique prepend : Bool) (tags : Nat) (path : Path)
    (reads : List Nat) : Rel s (obtainMonitor s t cell mname unique prepend tags path reads).1 := by
  unfold obtainMonitor
  split
  · exact rel_newMonitor ..
  · split
    · exact Rel.refl _
    · exact rel_newMonitor ..

theorem rel_addMonitorTail (s : State) (t n mname mid cell : Nat) : Rel s (addMonitorTail s t n mname mid cell) := by
  unfold addMonitorTail poolInsert
  have h1 : Rel s (writeCellMon s cell mname mid) := Rel.of_mons_eq rfl
  have h2 : Rel (writeCellMon s cell mname mid) (deregIfEval (writeCellMon s cell mname mid) t mid) := by
    unfold deregIfEval; split
    · exact Rel.refl _
    · exact rel_deregisterMon _ _
  exact (h1.trans h2).trans (Rel.of_mons_eq rfl)

theorem rel_addMonitor (s : State) (t n mname : Nat) (sel : AttrSel) (unique prepend : Bool) (tags : Nat)
    (reads : List Nat) : Rel s (addMonitor s t n mname sel unique prepend tags reads).1 := by
  unfold addMonitor
  split
  · exact Rel.refl _
  · simp only
    split
    · exact Rel.refl _
    · split
      · exact rel_eraseExisting ..
      · exact ((rel_eraseExisting ..).trans (rel_obtainMonitor ..)).trans (rel_addMonitorTail ..)

theorem rel_addTemplate (tpl : List (Nat × AttrSel × Bool × Bool × Nat × List Nat)) (t n : Nat) (s : State) :
    Rel s (addTemplate s t n tpl) := by
  induction tpl generalizing s with
  | nil => exact Rel.refl _
  | cons e rest ih => exact (rel_addMonitor ..).trans (ih _)

theorem rel_deregisterUnshared (shared : List Nat) (g : List (Nat × Nat)) (s : State) :
    Rel s (deregisterUnshared s shared g) := by
  induction g generalizing s with
  | nil => exact Rel.refl _
  | cons e rest ih =>
    rw [deregisterUnshared_cons]; split
    · exact ih _
    · exact (rel_deregisterMon _ _).trans (ih _)

theorem rel_delObserved (s : State) (t n : Nat) : Rel s (delObserved s t n) := by
  unfold delObserved; split
  · exact Rel.refl _
  · exact (rel_deregisterUnshared ..).trans (Rel.of_mons_eq rfl)

theorem rel_delEntry (s : State) (t n mname mid : Nat) : Rel s (delEntry s t n mname mid) := by
  unfold delEntry dropEmptyGroup
  have h1 : Rel s (eraseEntry s t n mname) := Rel.of_mons_eq rfl
  have h2 : Rel (eraseEntry s t n mname) (deregIfUnaliased (eraseEntry s t n mname) t mid) := by
    unfold deregIfUnaliased; split
    · exact Rel.refl _
    · exact rel_deregisterMon _ _
  exact (h1.trans h2).trans (Rel.of_mons_eq rfl)

theorem rel_setAll (mode : Bool) (l : List Nat) (s : State) : Rel s (setAll s mode l) := by
  induction l generalizing s with
  | nil => exact Rel.refl _
  | cons x rest ih =>
    rw [setAll_cons]; split
    · exact (rel_registerMon _ _).trans (ih _)
    · exact (rel_deregisterMon _ _).trans (ih _)

theorem rel_clearMons (s : State) (t : Nat) : Rel s (clearMons s t) := by
  refine ⟨fun i => ?_⟩; simp only [clearMons]; split
  · right; exact ⟨rfl, rfl⟩
  · left; exact SameButHandle.refl _

theorem rel_stepCore (s : State) (op : Op) (h : ∀ l, op ≠ .layerStep l) : Rel s (stepCore s op).1 := by
  cases op with
  | layerStep l => exact absurd rfl (h l)
  | newTrainer kind => exact Rel.of_mons_eq rfl
  | registerCell t n c v =>
    simp only [stepCore]
    split
    · exact Rel.refl _
    · split
      · exact Rel.refl _
      · split
        · exact Rel.refl _
        · exact ((rel_delObserved s t n).trans
            (Rel.of_mons_eq (s' := addCellEntry (delObserved s t n) t n c) rfl)).trans (rel_addTemplate _ _ _ _)
  | delCell t n =>
    simp only [stepCore]
    split
    · exact Rel.refl _
    · split
      · exact Rel.refl _
      · exact (rel_delObserved s t n).trans (Rel.of_mons_eq rfl)
  | addMonitor t n mname sel unique prepend tags =>
    simp only [stepCore]
    split
    · exact Rel.refl _
    · exact rel_addMonitor ..
  | delMonitor t n mname =>
    simp only [stepCore]
    split
    · exact Rel.refl _
    · split
      · exact Rel.refl _
      · split
        · exact Rel.refl _
        · split
          · exact Rel.refl _
          · exact rel_delEntry ..
  | trainerTrain t mode =>
    simp only [stepCore]
    split
    · exact Rel.refl _
    · exact (Rel.of_mons_eq (s := s) (s' := setTrainer s t { s.trainers t with training := mode }) rfl).trans
        (rel_setAll _ _ _)
  | layerTrain l mode => exact Rel.of_mons_eq rfl
  | trainerStep t =>
    simp only [stepCore]
    split
    · exact Rel.refl _
    · split <;> exact Rel.refl _
  | clear t =>
    simp only [stepCore]
    split
    · exact Rel.refl _
    · exact rel_clearMons s t
  | collect t =>
    simp only [stepCore]
    split
    · exact Rel.refl _
    · exact Rel.of_mons_eq rfl

theorem countOK_gc {s : State} (h : CountOK s) : CountOK (gc s) := by
  intro i hi
  simp only [gc] at hi ⊢
  split at hi
  · rename_i hl; simp only [hl, if_true]; exact h i hi
  · simp at hi

theorem takeWhile_eq_of_length {α : Type} (p : α → Bool) (l : List α)
    (h : l.length ≤ (l.takeWhile p).length) : l.takeWhile p = l := by
  induction l with
  | nil => rfl
  | cons x xs ih =>
    rw [List.takeWhile_cons] at h ⊢
    split
    · rename_i hp; simp only [hp, if_true, List.length_cons] at h
      rw [ih (by omega)]
    · rename_i hp; simp [hp] at h

/-- the hook of an alive monitor is in the layer's list iff its trainer is in training mode -/
theorem any_post_iff {s : State} (w : WF s) (mid : Nat) (hal : (s.mons mid).alive = true) :
    s.post.any (fun e => e.2 == mid) = (s.trainers (s.mons mid).owner).training := by
  have hl := w.alive_live mid hal
  simp only [live, referenced, hal, Bool.true_and, Bool.and_eq_true, List.contains_iff_mem] at hl
  have hp := w.pool _ hl.1 mid hl.2
  rw [← hp.2.2]
  cases hh : (s.mons mid).handle with
  | none =>
    simp only [Option.isSome_none]
    rw [List.any_eq_false]
    intro e he
    have := (w.h.post_ok e he).2.2
    simp; intro hc; rw [hc, hh] at this; cases this
  | some hid =>
    simp only [Option.isSome_some]
    rw [List.any_eq_true]
    exact ⟨(hid, mid), w.h.handle_mem mid hid hh, by simp⟩

theorem any_filter_snd (post : List (Nat × Nat)) (p : Nat → Bool) (mid : Nat) :
    (post.filter (fun e => p e.2)).any (fun e => e.2 == mid) = (post.any (fun e => e.2 == mid) && p mid) := by
  induction post with
  | nil => simp
  | cons x xs ih =>
    rw [List.filter_cons, List.any_cons]
    by_cases hx : x.2 = mid
    · subst hx
      cases hp : p x.2
      · simp only [Bool.false_eq_true, if_false, ih, hp, Bool.and_false]
      · simp [List.any_cons]
    · have hb : (x.2 == mid) = false := by simpa using hx
      split
      · rw [List.any_cons, hb, ih]; simp
      · rw [ih, hb]; simp

theorem countOK_layerStep {s : State} (w : WF s) (h : CountOK s) (l : Nat)
    (hok : (stepCore s (.layerStep l)).2 = .ok) : CountOK (stepCore s (.layerStep l)).1 := by
  simp only [stepCore] at hok ⊢
  by_cases hlt : s.layerTraining l = true
  · simp only [hlt, Bool.not_true, Bool.false_eq_true, if_false] at hok ⊢
    have hran : ranHooks s l = layerHooks s l := by
      unfold ranHooks
      apply takeWhile_eq_of_length
      by_cases hlen : (ranHooks s l).length < (layerHooks s l).length
      · simp [hlen] at hok
      · unfold ranHooks at hlen; omega
    rw [hran]
    intro mid hal
    have hal0 : (s.mons mid).alive = true := by
      simp only [countStep, ghostStep] at hal
      split at hal <;> split at hal <;> exact hal
    have hl := w.alive_live mid hal0
    simp only [live, referenced, hal0, Bool.true_and, Bool.and_eq_true, List.contains_iff_mem] at hl
    have hany : (layerHooks s l).any (fun e => e.2 == mid) =
        ((s.trainers (s.mons mid).owner).training && ((s.mons mid).layer == l)) := by
      unfold layerHooks
      rw [any_filter_snd s.post (fun i => (s.mons i).layer == l) mid, any_post_iff w mid hal0]
    have hc := h mid hal0
    simp only [countStep, ghostStep, hany, hal0, hl.1, hlt, Bool.true_and, Bool.and_true]
    cases (s.trainers (s.mons mid).owner).training <;> cases ((s.mons mid).layer == l) <;> simp [hc, hl.2]
  · simp only [Bool.not_eq_true] at hlt
    simp only [hlt, Bool.not_false, if_true]
    intro mid hal
    simp only [ghostStep, hlt, Bool.and_false, Bool.false_and, Bool.false_eq_true, if_false] at hal ⊢
    exact h mid hal

/-! ### Frame lemmas: what an operation addressed to `(t, n)` leaves alone -/

theorem lookup_nil {β : Type} (k : Nat) : lookup ([] : List (Nat × β)) k = none := rfl

theorem lookup_cons {β : Type} (k' : Nat) (v : β) (l : List (Nat × β)) (k : Nat) :
    lookup ((k', v) :: l) k = if k' = k then some v else lookup l k := by
  unfold lookup
  by_cases h : k' = k
  · simp [h]
  · simp [h]

theorem lookup_groupsErase_ne (gs : List (Nat × List (Nat × Nat))) (n m n' : Nat) (h : n' ≠ n) :
    lookup (groupsErase gs n m) n' = lookup gs n' := by
  induction gs with
  | nil => rfl
  | cons g rest ih =>
    obtain ⟨k, v⟩ := g
    simp only [groupsErase, List.map_cons] at ih ⊢
    by_cases hk : k = n
    · subst hk
      simp only [beq_self_eq_true, if_true, lookup_cons]
      have : ¬ k = n' := fun hc => h hc.symm
      simp only [this, if_false]; exact ih
    · have : (k == n) = false := by simpa using hk
      simp only [this, Bool.false_eq_true, if_false, lookup_cons]
      split
      · rfl
      · exact ih

theorem lookup_filter_key_ne (gs : List (Nat × List (Nat × Nat))) (q : Nat × List (Nat × Nat) → Bool) (n n' : Nat)
    (h : n' ≠ n) (hq : ∀ g, g.1 ≠ n → q g = true) :
    lookup (gs.filter q) n' = lookup gs n' := by
  induction gs with
  | nil => rfl
  | cons g rest ih =>
    obtain ⟨k, v⟩ := g
    rw [List.filter_cons]
    by_cases hk : k = n'
    · subst hk
      rw [hq (k, v) h]; simp only [if_true, lookup_cons]
    · split
      · simp only [lookup_cons, hk, if_false]; exact ih
      · simp only [lookup_cons, hk, if_false]; exact ih

theorem lookup_groupsInsert_ne (gs : List (Nat × List (Nat × Nat))) (n m mid n' : Nat) (h : n' ≠ n) :
    lookup (groupsInsert gs n m mid) n' = lookup gs n' := by
  unfold groupsInsert
  split
  · rename_i hany; clear hany
    induction gs with
    | nil => rfl
    | cons g rest ih =>
      obtain ⟨k, v⟩ := g
      simp only [List.map_cons]
      by_cases hk : k = n
      · subst hk
        simp only [beq_self_eq_true, if_true, lookup_cons]
        have : ¬ k = n' := fun hc => h hc.symm
        simp only [this, if_false]; exact ih
      · have : (k == n) = false := by simpa using hk
        simp only [this, Bool.false_eq_true, if_false, lookup_cons]
        split
        · rfl
        · exact ih
  · rename_i hany; clear hany
    induction gs with
    | nil => simp [lookup_cons, lookup_nil]; intro hc; exact absurd hc.symm h
    | cons g rest ih =>
      obtain ⟨k, v⟩ := g
      simp only [List.cons_append, lookup_cons]
      split
      · rfl
      · exact ih

/-- trainer-level frame of an operation addressed to registration `(t, n)` -/
structure TrFrame (s s' : State) (t n : Nat) : Prop where
  others : ∀ t', t' ≠ t → s'.trainers t' = s.trainers t'
  groups : ∀ n', n' ≠ n → lookup (s'.trainers t).groups n' = lookup (s.trainers t).groups n'
  alive : (s'.trainers t).alive = (s.trainers t).alive
  training : (s'.trainers t).training = (s.trainers t).training

theorem TrFrame.refl (s : State) (t n : Nat) : TrFrame s s t n := ⟨fun _ _ => rfl, fun _ _ => rfl, rfl, rfl⟩

theorem TrFrame.trans {a b c : State} {t n : Nat} (h1 : TrFrame a b t n) (h2 : TrFrame b c t n) : TrFrame a c t n :=
  ⟨fun t' h => (h2.others t' h).trans (h1.others t' h), fun n' h => (h2.groups n' h).trans (h1.groups n' h),
   h2.alive.trans h1.alive, h2.training.trans h1.training⟩

theorem TrFrame.of_trainers_eq {s s' : State} (t n : Nat) (h : s'.trainers = s.trainers) : TrFrame s s' t n := by
  refine ⟨fun _ _ => by rw [h], fun _ _ => by rw [h], by rw [h], by rw [h]⟩

theorem TrFrame.setTrainer (s : State) (t n : Nat) (T : Trainer)
    (hg : ∀ n', n' ≠ n → lookup T.groups n' = lookup (s.trainers t).groups n')
    (ha : T.alive = (s.trainers t).alive) (ht : T.training = (s.trainers t).training) :
    TrFrame s (setTrainer s t T) t n := by
  refine ⟨fun t' h => by rw [setTrainer_trainers]; simp [h], ?_, by rw [setTrainer_trainers_self]; exact ha,
    by rw [setTrainer_trainers_self]; exact ht⟩
  intro n' h; rw [setTrainer_trainers_self]; exact hg n' h

theorem trFrame_eraseExisting (s : State) (t n mname : Nat) : TrFrame s (eraseExisting s t n mname) t n := by
  unfold eraseExisting; simp only; split
  · exact TrFrame.setTrainer s t n _ (fun n' h => lookup_groupsErase_ne _ _ _ _ h) rfl rfl
  · exact TrFrame.refl _ _ _

theorem obtainMonitor_trainers (s : State) (t cell mname : Nat) (unique prepend : Bool) (tags : Nat) (path : Path)
    (reads : List Nat) : (obtainMonitor s t cell mname unique prepend tags path reads).1.trainers = s.trainers := by
  unfold obtainMonitor; split
  · simp
  · split <;> simp

theorem deregIfEval_trainers (s : State) (t mid : Nat) : (deregIfEval s t mid).trainers = s.trainers := by
  unfold deregIfEval; split <;> simp

theorem trFrame_addMonitorTail (s : State) (t n mname mid cell : Nat) :
    TrFrame s (addMonitorTail s t n mname mid cell) t n := by
  unfold addMonitorTail poolInsert
  have h1 : TrFrame s (deregIfEval (writeCellMon s cell mname mid) t mid) t n :=
    TrFrame.of_trainers_eq t n (by rw [deregIfEval_trainers]; rfl)
  exact h1.trans (TrFrame.setTrainer _ t n _ (fun n' h => lookup_groupsInsert_ne _ _ _ _ _ h) rfl rfl)

theorem trFrame_addMonitor (s : State) (t n mname : Nat) (sel : AttrSel) (unique prepend : Bool) (tags : Nat)
    (reads : List Nat) : TrFrame s (addMonitor s t n mname sel unique prepend tags reads).1 t n := by
  unfold addMonitor
  split
  · exact TrFrame.refl _ _ _
  · simp only
    split
    · exact TrFrame.refl _ _ _
    · split
      · exact trFrame_eraseExisting ..
      · exact ((trFrame_eraseExisting ..).trans
          (TrFrame.of_trainers_eq t n (obtainMonitor_trainers ..))).trans (trFrame_addMonitorTail ..)

theorem trFrame_addTemplate (tpl : List (Nat × AttrSel × Bool × Bool × Nat × List Nat)) (t n : Nat) (s : State) :
    TrFrame s (addTemplate s t n tpl) t n := by
  induction tpl generalizing s with
  | nil => exact TrFrame.refl _ _ _
  | cons e rest ih => exact (trFrame_addMonitor ..).trans (ih _)

theorem deregisterUnshared_trainers (shared : List Nat) (g : List (Nat × Nat)) (s : State) :
    (deregisterUnshared s shared g).trainers = s.trainers := by
  induction g generalizing s with
  | nil => rfl
  | cons e rest ih => rw [deregisterUnshared_cons, ih]; split <;> simp

theorem trFrame_delObserved (s : State) (t n : Nat) : TrFrame s (delObserved s t n) t n := by
  unfold delObserved; split
  · exact TrFrame.refl _ _ _
  · unfold dropGroup
    exact (TrFrame.of_trainers_eq t n (deregisterUnshared_trainers ..)).trans
      (TrFrame.setTrainer _ t n _ (fun n' h => lookup_filter_key_ne _ _ n n' h (fun g hg => by simpa using hg)) rfl rfl)

theorem trFrame_delEntry (s : State) (t n mname mid : Nat) : TrFrame s (delEntry s t n mname mid) t n := by
  unfold delEntry dropEmptyGroup
  have h1 : TrFrame s (eraseEntry s t n mname) t n :=
    TrFrame.setTrainer s t n _ (fun n' h => lookup_groupsErase_ne _ _ _ _ h) rfl rfl
  have h2 : TrFrame (eraseEntry s t n mname) (deregIfUnaliased (eraseEntry s t n mname) t mid) t n := by
    apply TrFrame.of_trainers_eq; unfold deregIfUnaliased; split <;> simp
  exact (h1.trans h2).trans
    (TrFrame.setTrainer _ t n _ (fun n' h => lookup_filter_key_ne _ _ n n' h (fun g hg => by simp [hg])) rfl rfl)

/-! monitor-level frames -/

theorem deregisterMon_eq_of_none {s : State} {mid : Nat} (h : (s.mons mid).handle = none) (i : Nat) :
    (deregisterMon s mid).mons i = s.mons i := by
  rw [deregisterMon_mons]; split
  · rename_i hi; subst hi; cases hm : s.mons i; simp [hm] at h; simp [h]
  · rfl

theorem obtainMonitor_cases (s : State) (t cell mname : Nat) (unique prepend : Bool) (tags : Nat) (path : Path)
    (reads : List Nat) :
    let r := obtainMonitor s t cell mname unique prepend tags path reads
    (r.1 = s ∧ r.2 ∈ poolMids (s.trainers t)) ∨
    (r.2 = s.nMons ∧ r.1.nMons = s.nMons + 1 ∧ ∀ i, i ≠ s.nMons → r.1.mons i = s.mons i) := by
  intro r
  simp only [r, obtainMonitor]
  split
  · right; refine ⟨rfl, by simp, fun i hi => ?_⟩; rw [newMonitor_mons]; simp [hi]
  · split
    · rename_i mid hfa; left; exact ⟨rfl, findAlias_mem hfa⟩
    · right; refine ⟨rfl, by simp, fun i hi => ?_⟩; rw [newMonitor_mons]; simp [hi]

theorem addMonitorTail_mons (s : State) (t n mname mid cell : Nat) (i : Nat) :
    (addMonitorTail s t n mname mid cell).mons i =
      if (s.trainers t).training = true then s.mons i else (deregisterMon s mid).mons i := by
  unfold addMonitorTail poolInsert deregIfEval
  simp only [setTrainer_mons]
  show (if (s.trainers t).training = true then writeCellMon s cell mname mid
        else deregisterMon (writeCellMon s cell mname mid) mid).mons i = _
  split <;> rfl

@[simp] theorem addMonitorTail_nMons (s : State) (t n mname mid cell : Nat) :
    (addMonitorTail s t n mname mid cell).nMons = s.nMons := by
  unfold addMonitorTail poolInsert deregIfEval
  simp only [setTrainer_nMons]; split <;> rfl

/-- `add_monitor` does not touch any existing monitor object (a replaced `unique` monitor is
merely dropped; an aliased one is deregistered only when it already is) -/
theorem addMonitor_mons_frame {s : State} (w : WFc s) (t n mname : Nat) (sel : AttrSel) (unique prepend : Bool)
    (tags : Nat) (reads : List Nat) (hal : (s.trainers t).alive = true) :
    s.nMons ≤ (addMonitor s t n mname sel unique prepend tags reads).1.nMons ∧
    ∀ i, i < s.nMons → (addMonitor s t n mname sel unique prepend tags reads).1.mons i = s.mons i := by
  unfold addMonitor
  cases hc : lookup (s.trainers t).cells n with
  | none => exact ⟨Nat.le_refl _, fun _ _ => rfl⟩
  | some cell =>
    simp only
    split
    · exact ⟨Nat.le_refl _, fun _ _ => rfl⟩
    · obtain ⟨w1, a1, tr1, _, m1⟩ := eraseExisting_spec w t n mname hal
      have n1 : (eraseExisting s t n mname).nMons = s.nMons := by
        unfold eraseExisting; simp only; split <;> rfl
      cases hr : realign (eraseExisting s t n mname) cell sel with
      | error e => exact ⟨by simp [n1], fun i _ => by simp [m1]⟩
      | ok path =>
        simp only
        generalize hs1 : eraseExisting s t n mname = s1 at w1 a1 tr1 m1 n1
        rcases obtainMonitor_cases s1 t cell mname unique prepend tags path reads with ⟨e1, e2⟩ | ⟨e1, e2, e3⟩
        · -- alias
          rw [e1] at *
          refine ⟨by simp [n1], fun i hi => ?_⟩
          rw [addMonitorTail_mons, ← m1]
          split
          · rfl
          · rename_i htr
            apply deregisterMon_eq_of_none
            have := (w1.pool t a1 _ e2).2.2
            cases hh : (s1.mons (obtainMonitor s1 t cell mname unique prepend tags path reads).2).handle with
            | none => rfl
            | some v => rw [hh] at this; simp only [Bool.not_eq_true] at htr; rw [htr] at this; cases this
        · -- fresh
          refine ⟨by simp [e2, n1], fun i hi => ?_⟩
          have hne : i ≠ s1.nMons := by omega
          rw [addMonitorTail_mons, ← m1, ← e3 i hne]
          split
          · rfl
          · rw [deregisterMon_mons, e1]; simp [hne]

theorem addTemplate_mons_frame (tpl : List (Nat × AttrSel × Bool × Bool × Nat × List Nat)) (t n : Nat) (s : State)
    (w : WFc s) (hal : (s.trainers t).alive = true) :
    s.nMons ≤ (addTemplate s t n tpl).nMons ∧ ∀ i, i < s.nMons → (addTemplate s t n tpl).mons i = s.mons i := by
  induction tpl generalizing s with
  | nil => exact ⟨Nat.le_refl _, fun _ _ => rfl⟩
  | cons e rest ih =>
    obtain ⟨w', a'⟩ := addMonitor_wfc w t n e.1 e.2.1 e.2.2.1 e.2.2.2.1 e.2.2.2.2.1 e.2.2.2.2.2 hal
    obtain ⟨f1, f2⟩ := addMonitor_mons_frame w t n e.1 e.2.1 e.2.2.1 e.2.2.2.1 e.2.2.2.2.1 e.2.2.2.2.2 hal
    obtain ⟨g1, g2⟩ := ih _ w' a'
    exact ⟨Nat.le_trans f1 g1, fun i hi => by
      show (addTemplate _ t n rest).mons i = _
      rw [g2 i (by omega), f2 i hi]⟩

theorem deregisterUnshared_nMons (shared : List Nat) (g : List (Nat × Nat)) (s : State) :
    (deregisterUnshared s shared g).nMons = s.nMons := by
  induction g generalizing s with
  | nil => rfl
  | cons e rest ih => rw [deregisterUnshared_cons, ih]; split <;> simp

theorem delObserved_nMons (s : State) (t n : Nat) : (delObserved s t n).nMons = s.nMons := by
  unfold delObserved; split
  · rfl
  · unfold dropGroup; simp [deregisterUnshared_nMons]

theorem mem_otherMids_of_lookup {T : Trainer} {n n' m mid : Nat} {g : List (Nat × Nat)} (hne : n' ≠ n)
    (h1 : lookup T.groups n' = some g) (h2 : (m, mid) ∈ g) : mid ∈ otherMids T n := by
  unfold otherMids
  rw [List.mem_flatMap]
  refine ⟨(n', g), List.mem_filter.mpr ⟨lookup_mem h1, by simpa using hne⟩, ?_⟩
  exact List.mem_map.mpr ⟨(m, mid), h2, rfl⟩

/-- `del_observed` leaves every monitor of another trainer, and every monitor another group of
the same pool holds, exactly as it was (the D17 repair) -/
theorem delObserved_mons_frame {s : State} (w : WFc s) (t n : Nat) (hal : (s.trainers t).alive = true) (i : Nat)
    (hi : i ∈ otherMids (s.trainers t) n ∨ (s.mons i).owner ≠ t) : (delObserved s t n).mons i = s.mons i := by
  unfold delObserved
  cases hg : lookup (s.trainers t).groups n with
  | none => rfl
  | some g =>
    simp only
    obtain ⟨_, _, _, _, _, f⟩ := deregisterUnshared_spec (otherMids (s.trainers t) n) g s w.h
    unfold dropGroup
    simp only [setTrainer_mons]
    apply f
    intro e he hei
    rcases hi with h | h
    · simpa [List.contains_iff_mem] using h
    · exfalso; apply h
      obtain ⟨e1, e2⟩ := e; simp only at hei; subst hei
      exact (w.pool t hal _ (mem_pool_of_lookup hg he)).2.1

theorem delEntry_mons_frame (s : State) (t n mname mid : Nat) (i : Nat)
    (hi : i ≠ mid ∨ i ∈ poolMids ((eraseEntry s t n mname).trainers t)) :
    (delEntry s t n mname mid).mons i = s.mons i := by
  unfold delEntry dropEmptyGroup deregIfUnaliased
  simp only [setTrainer_mons]
  split
  · rfl
  · rename_i hnot
    rw [deregisterMon_mons]
    have : i ≠ mid := by
      rcases hi with h | h
      · exact h
      · intro hc; subst hc; exact hnot (by simpa using h)
    simp only [this, if_false]; rfl

/-- the registration an operation is addressed to -/
def addressed : Op → Option (Nat × Nat)
  | .registerCell t n _ _ => some (t, n)
  | .delCell t n => some (t, n)
  | .addMonitor t n _ _ _ _ _ => some (t, n)
  | .delMonitor t n _ => some (t, n)
  | _ => none

theorem stepCore_trFrame (s : State) (op : Op) (t n : Nat) (h : addressed op = some (t, n)) :
    TrFrame s (stepCore s op).1 t n := by
  cases op with
  | registerCell t0 n0 c v =>
    simp only [addressed, Option.some.injEq, Prod.mk.injEq] at h; obtain ⟨rfl, rfl⟩ := h
    simp only [stepCore]
    split
    · exact TrFrame.refl _ _ _
    · split
      · exact TrFrame.refl _ _ _
      · split
        · exact TrFrame.refl _ _ _
        · refine ((trFrame_delObserved s t0 n0).trans ?_).trans (trFrame_addTemplate ..)
          unfold addCellEntry
          exact TrFrame.setTrainer _ t0 n0 _ (fun _ _ => rfl) rfl rfl
  | delCell t0 n0 =>
    simp only [addressed, Option.some.injEq, Prod.mk.injEq] at h; obtain ⟨rfl, rfl⟩ := h
    simp only [stepCore]
    split
    · exact TrFrame.refl _ _ _
    · split
      · exact TrFrame.refl _ _ _
      · refine (trFrame_delObserved s t0 n0).trans ?_
        unfold dropCell
        exact TrFrame.setTrainer _ t0 n0 _ (fun _ _ => rfl) rfl rfl
  | addMonitor t0 n0 mname sel unique prepend tags =>
    simp only [addressed, Option.some.injEq, Prod.mk.injEq] at h; obtain ⟨rfl, rfl⟩ := h
    simp only [stepCore]
    split
    · exact TrFrame.refl _ _ _
    · exact trFrame_addMonitor ..
  | delMonitor t0 n0 mname =>
    simp only [addressed, Option.some.injEq, Prod.mk.injEq] at h; obtain ⟨rfl, rfl⟩ := h
    simp only [stepCore]
    split
    · exact TrFrame.refl _ _ _
    · split
      · exact TrFrame.refl _ _ _
      · split
        · exact TrFrame.refl _ _ _
        · split
          · exact TrFrame.refl _ _ _
          · exact trFrame_delEntry ..
  | _ => simp [addressed] at h

/-- the monitor objects of every OTHER registration survive an operation addressed to `(t, n)`
unchanged (before reference counting) -/
theorem stepCore_mons_frame {s : State} (w : WF s) (op : Op) (t n : Nat) (h : addressed op = some (t, n))
    (t' n' : Nat) (hne : (t', n') ≠ (t, n)) (hal' : (s.trainers t').alive = true)
    (g : List (Nat × Nat)) (hg : lookup (s.trainers t').groups n' = some g) (e : Nat × Nat) (he : e ∈ g) :
    (stepCore s op).1.mons e.2 = s.mons e.2 := by
  have wc := w.toWFc
  obtain ⟨m, i⟩ := e
  simp only
  have hpool : i ∈ poolMids (s.trainers t') := mem_pool_of_lookup hg he
  have hp := wc.pool t' hal' i hpool
  have hlt : i < s.nMons := wc.h.alive_lt i hp.1
  -- `i` is out of the reach of a deletion addressed to `(t, n)`
  have hreach : i ∈ otherMids (s.trainers t) n ∨ (s.mons i).owner ≠ t := by
    by_cases htt : t' = t
    · subst htt
      have : n' ≠ n := fun hc => hne (by rw [hc])
      exact Or.inl (mem_otherMids_of_lookup this hg he)
    · right; rw [hp.2.1]; exact htt
  cases op with
  | registerCell t0 n0 c v =>
    simp only [addressed, Option.some.injEq, Prod.mk.injEq] at h; obtain ⟨rfl, rfl⟩ := h
    simp only [stepCore]
    split
    · rfl
    · rename_i hal
      have hal : (s.trainers t0).alive = true := by simpa using hal
      split
      · rfl
      · split
        · rfl
        · obtain ⟨w0, a0, _, _, _⟩ := delObserved_wfc wc t0 n0 hal
          have w1 : WFc (addCellEntry (delObserved s t0 n0) t0 n0 c) := by
            unfold addCellEntry
            apply wfc_setTrainer w0 t0 _ (fun _ => w0.trainer_lt t0 a0)
            intro _ x hx; exact w0.pool t0 a0 x hx
          have a1 : ((addCellEntry (delObserved s t0 n0) t0 n0 c).trainers t0).alive = true := by
            simp [addCellEntry, a0]
          have := (addTemplate_mons_frame (template (s.trainers t0).kind v) t0 n0 _ w1 a1).2 i
            (by show i < (delObserved s t0 n0).nMons; rw [delObserved_nMons]; exact hlt)
          rw [this]
          show (delObserved s t0 n0).mons i = _
          exact delObserved_mons_frame wc t0 n0 hal i hreach
  | delCell t0 n0 =>
    simp only [addressed, Option.some.injEq, Prod.mk.injEq] at h; obtain ⟨rfl, rfl⟩ := h
    simp only [stepCore]
    split
    · rfl
    · rename_i hal
      have hal : (s.trainers t0).alive = true := by simpa using hal
      split
      · rfl
      · show (delObserved s t0 n0).mons i = _
        exact delObserved_mons_frame wc t0 n0 hal i hreach
  | addMonitor t0 n0 mname sel unique prepend tags =>
    simp only [addressed, Option.some.injEq, Prod.mk.injEq] at h; obtain ⟨rfl, rfl⟩ := h
    simp only [stepCore]
    split
    · rfl
    · rename_i hal
      have hal : (s.trainers t0).alive = true := by simpa using hal
      exact (addMonitor_mons_frame wc t0 n0 mname sel unique prepend tags [] hal).2 i hlt
  | delMonitor t0 n0 mname =>
    simp only [addressed, Option.some.injEq, Prod.mk.injEq] at h; obtain ⟨rfl, rfl⟩ := h
    simp only [stepCore]
    split
    · rfl
    · rename_i hal
      have hal : (s.trainers t0).alive = true := by simpa using hal
      cases hg0 : lookup (s.trainers t0).groups n0 with
      | none => rfl
      | some g0 =>
        simp only
        split
        · rfl
        · cases hm0 : lookup g0 mname with
          | none => rfl
          | some mid =>
            simp only
            apply delEntry_mons_frame
            by_cases htt : t' = t0
            · subst htt
              right
              have hn : n' ≠ n0 := fun hc => hne (by rw [hc])
              have : lookup ((eraseEntry s t' n0 mname).trainers t').groups n' = some g := by
                unfold eraseEntry; rw [setTrainer_trainers_self]
                show lookup (groupsErase _ n0 mname) n' = _
                rw [lookup_groupsErase_ne _ _ _ _ hn]; exact hg
              exact mem_pool_of_lookup this he
            · left
              intro hc; subst hc
              have := (wc.pool t0 hal i (mem_gMids_of_lookup hg0 hm0)).2.1
              rw [hp.2.1] at this; exact htt this
  | _ => simp [addressed] at h



/-! ### `cell.monitors`: what an operation writes -/

theorem find?_filter_of_imp {α : Type} (p q : α → Bool) (l : List α) (h : ∀ e, q e = true → p e = true) :
    (l.filter p).find? q = l.find? q := by
  induction l with
  | nil => rfl
  | cons x xs ih =>
    rw [List.filter_cons]
    by_cases hq : q x = true
    · rw [h x hq]; simp only [if_true, List.find?_cons, hq]
    · simp only [Bool.not_eq_true] at hq
      split
      · simp only [List.find?_cons, hq]; exact ih
      · simp only [List.find?_cons, hq]; exact ih

theorem getCellMon_setCellMon_ne (cm : List (Nat × Nat × Nat)) (c m mid c' r : Nat) (h : c' ≠ c) :
    getCellMon (setCellMon cm c m mid) c' r = getCellMon cm c' r := by
  unfold getCellMon setCellMon
  have h1 : ((c == c') && (m == r)) = false := by
    have : (c == c') = false := by simpa using fun hc : c = c' => h hc.symm
    simp [this]
  rw [List.find?_cons]
  simp only [h1]
  rw [find?_filter_of_imp]
  intro e he
  simp only [Bool.and_eq_true, beq_iff_eq] at he
  have : (e.1 == c) = false := by simpa using fun hc : e.1 = c => h (he.1 ▸ hc)
  simp [this]

theorem getCellMon_filter (cm : List (Nat × Nat × Nat)) (p : Nat × Nat × Nat → Bool) (c r src : Nat)
    (h : getCellMon cm c r = some src) (hp : ∀ e ∈ cm, e.2.2 = src → p e = true) :
    getCellMon (cm.filter p) c r = some src := by
  unfold getCellMon at h ⊢
  induction cm with
  | nil => simp at h
  | cons x xs ih =>
    rw [List.find?_cons] at h
    rw [List.filter_cons]
    by_cases hx : (x.1 == c && x.2.1 == r) = true
    · simp only [hx] at h
      have hs : x.2.2 = src := by simpa using h
      rw [hp x List.mem_cons_self hs]
      simp only [if_true, List.find?_cons, hx]; exact h
    · simp only [Bool.not_eq_true] at hx
      simp only [hx] at h
      have ih' := ih h (fun e he => hp e (List.mem_cons_of_mem _ he))
      split
      · rw [List.find?_cons]; simp only [hx]; exact ih'
      · exact ih'

theorem deregIfEval_cellMons (s : State) (t mid : Nat) : (deregIfEval s t mid).cellMons = s.cellMons := by
  unfold deregIfEval; split <;> simp

theorem eraseExisting_cellMons (s : State) (t n mname : Nat) : (eraseExisting s t n mname).cellMons = s.cellMons := by
  unfold eraseExisting; simp only; split <;> rfl

theorem eraseExisting_cells (s : State) (t n mname : Nat) :
    ((eraseExisting s t n mname).trainers t).cells = (s.trainers t).cells := by
  unfold eraseExisting; simp only; split
  · simp
  · rfl

theorem obtainMonitor_cellMons (s : State) (t cell mname : Nat) (unique prepend : Bool) (tags : Nat) (path : Path)
    (reads : List Nat) : (obtainMonitor s t cell mname unique prepend tags path reads).1.cellMons = s.cellMons := by
  unfold obtainMonitor; split
  · simp
  · split <;> simp

theorem addMonitor_cells (s : State) (t n mname : Nat) (sel : AttrSel) (unique prepend : Bool) (tags : Nat)
    (reads : List Nat) :
    ((addMonitor s t n mname sel unique prepend tags reads).1.trainers t).cells = (s.trainers t).cells := by
  unfold addMonitor
  split
  · rfl
  · simp only
    split
    · rfl
    · split
      · exact eraseExisting_cells ..
      · unfold addMonitorTail poolInsert
        simp only [setTrainer_trainers_self, deregIfEval_trainers]
        show ((obtainMonitor _ t _ mname unique prepend tags _ reads).1.trainers t).cells = _
        rw [obtainMonitor_trainers, eraseExisting_cells]

/-- `add_monitor` on registration `(t, n)` writes `cell.monitors` of that registration's cell only -/
theorem addMonitor_cellMons_frame (s : State) (t n mname : Nat) (sel : AttrSel) (unique prepend : Bool) (tags : Nat)
    (reads : List Nat) (c' r : Nat) (h : lookup (s.trainers t).cells n ≠ some c') :
    getCellMon (addMonitor s t n mname sel unique prepend tags reads).1.cellMons c' r = getCellMon s.cellMons c' r := by
  unfold addMonitor
  cases hc : lookup (s.trainers t).cells n with
  | none => rfl
  | some cell =>
    simp only
    have hne : c' ≠ cell := fun e => h (by rw [hc, e])
    split
    · rfl
    · split
      · simp only [eraseExisting_cellMons]
      · unfold addMonitorTail poolInsert
        simp only [setTrainer_cellMons, deregIfEval_cellMons]
        show getCellMon (setCellMon _ cell mname _) c' r = _
        rw [getCellMon_setCellMon_ne _ _ _ _ _ _ hne, obtainMonitor_cellMons, eraseExisting_cellMons]

theorem addTemplate_cellMons_frame (tpl : List (Nat × AttrSel × Bool × Bool × Nat × List Nat)) (t n : Nat) (s : State)
    (c' r : Nat) (h : lookup (s.trainers t).cells n ≠ some c') :
    getCellMon (addTemplate s t n tpl).cellMons c' r = getCellMon s.cellMons c' r := by
  induction tpl generalizing s with
  | nil => rfl
  | cons e rest ih =>
    show getCellMon (addTemplate (addMonitor s t n e.1 e.2.1 e.2.2.1 e.2.2.2.1 e.2.2.2.2.1 e.2.2.2.2.2).1 t n rest).cellMons c' r = _
    rw [ih _ (by rw [addMonitor_cells]; exact h), addMonitor_cellMons_frame _ _ _ _ _ _ _ _ _ _ _ h]

theorem deregisterUnshared_cellMons (shared : List Nat) (g : List (Nat × Nat)) (s : State) :
    (deregisterUnshared s shared g).cellMons = s.cellMons := by
  induction g generalizing s with
  | nil => rfl
  | cons e rest ih => rw [deregisterUnshared_cons, ih]; split <;> simp

theorem delObserved_cellMons (s : State) (t n : Nat) : (delObserved s t n).cellMons = s.cellMons := by
  unfold delObserved; split
  · rfl
  · unfold dropGroup; simp [deregisterUnshared_cellMons]

theorem delObserved_cells (s : State) (t n : Nat) : ((delObserved s t n).trainers t).cells = (s.trainers t).cells := by
  unfold delObserved; split
  · rfl
  · unfold dropGroup; simp [deregisterUnshared_trainers]

theorem delEntry_cellMons (s : State) (t n mname mid : Nat) : (delEntry s t n mname mid).cellMons = s.cellMons := by
  unfold delEntry dropEmptyGroup deregIfUnaliased eraseEntry
  simp only [setTrainer_cellMons]; split <;> simp

theorem lookup_append_new {β : Type} (l : List (Nat × β)) (n : Nat) (v : β) (h : lookup l n = none) :
    lookup (l ++ [(n, v)]) n = some v := by
  induction l with
  | nil => simp [lookup_cons]
  | cons x xs ih =>
    obtain ⟨k, w⟩ := x
    rw [lookup_cons] at h
    simp only [List.cons_append, lookup_cons]
    split
    · rename_i hk; simp [hk] at h
    · rename_i hk; simp only [hk, if_false] at h; exact ih h

/-- the cell whose `cell.monitors` map an operation writes -/
def opCell (s : State) : Op → Option Nat
  | .registerCell _ _ c _ => some c
  | .addMonitor t n _ _ _ _ _ => lookup (s.trainers t).cells n
  | _ => none

theorem stepCore_cellMons_frame (s : State) (op : Op) (t n : Nat) (h : addressed op = some (t, n))
    (c' r : Nat) (hD18 : opCell s op ≠ some c') :
    getCellMon (stepCore s op).1.cellMons c' r = getCellMon s.cellMons c' r := by
  cases op with
  | registerCell t0 n0 c v =>
    simp only [opCell] at hD18
    simp only [stepCore]
    split
    · rfl
    · split
      · rfl
      · split
        · rfl
        · rename_i hnew
          have hnew : lookup (s.trainers t0).cells n0 = none := by
            cases hl : lookup (s.trainers t0).cells n0 with
            | none => rfl
            | some x => simp [hl] at hnew
          rw [addTemplate_cellMons_frame]
          · show getCellMon (delObserved s t0 n0).cellMons c' r = _
            rw [delObserved_cellMons]
          · unfold addCellEntry
            rw [setTrainer_trainers_self]
            show lookup (((delObserved s t0 n0).trainers t0).cells ++ [(n0, c)]) n0 ≠ some c'
            rw [delObserved_cells, lookup_append_new _ _ _ hnew]
            exact hD18
  | delCell t0 n0 =>
    simp only [stepCore]
    split
    · rfl
    · split
      · rfl
      · show getCellMon (delObserved s t0 n0).cellMons c' r = _
        rw [delObserved_cellMons]
  | addMonitor t0 n0 mname sel unique prepend tags =>
    simp only [opCell] at hD18
    simp only [stepCore]
    split
    · rfl
    · exact addMonitor_cellMons_frame _ _ _ _ _ _ _ _ _ _ _ hD18
  | delMonitor t0 n0 mname =>
    simp only [stepCore]
    split
    · rfl
    · split
      · rfl
      · split
        · rfl
        · split
          · rfl
          · simp only [delEntry_cellMons]
  | _ => simp [addressed] at h



/-- where an alias can come from: an observable of the trainer, of the SAME layer, whose group
holds the monitor under that name -/
def AliasSource (s : State) (T : Trainer) (cell mname mid : Nat) : Prop :=
  ∃ oname ocell, (oname, ocell) ∈ T.cells ∧ cellLayer s ocell = cellLayer s cell ∧
    ∃ g, lookup T.groups oname = some g ∧ lookup g mname = some mid

theorem findAlias_go_same_layer (s : State) (hf : s.layerFilter = true) (T : Trainer) (cell mname tags : Nat)
    (path : Path) (obs : List (Nat × Nat)) (hobs : ∀ o ∈ obs, o ∈ T.cells) (found : Option Nat)
    (hfound : ∀ x, found = some x → AliasSource s T cell mname x) (mid : Nat)
    (h : findAlias.go s T cell mname tags path obs found = some mid) : AliasSource s T cell mname mid := by
  induction obs generalizing found with
  | nil => exact hfound mid (by simpa [findAlias.go] using h)
  | cons o rest ih =>
    obtain ⟨oname, ocell⟩ := o
    have hrest : ∀ o ∈ rest, o ∈ T.cells := fun o ho => hobs o (List.mem_cons_of_mem _ ho)
    simp only [findAlias.go] at h
    split at h
    · exact ih hrest found hfound h
    · rename_i hlay
      have hlay : cellLayer s ocell = cellLayer s cell := by
        simp only [hf, Bool.true_and, bne_iff_ne, ne_eq, Decidable.not_not] at hlay; exact hlay
      cases hg : lookup T.groups oname with
      | none => simp only [hg] at h; exact ih hrest found hfound h
      | some g =>
        simp only [hg] at h
        cases hm : lookup g mname with
        | none => simp only [hm] at h; exact ih hrest found hfound h
        | some m0 =>
          simp only [hm] at h
          have src : AliasSource s T cell mname m0 :=
            ⟨oname, ocell, hobs _ List.mem_cons_self, hlay, g, hg, hm⟩
          split at h
          · split at h
            · cases h; exact src
            · exact ih hrest (some m0) (by intro x hx; cases hx; exact src) h
          · exact ih hrest found hfound h

/-! ### The static part of the state (topology, the repair switch) never changes -/

structure Static (s s' : State) : Prop where
  filter : s'.layerFilter = s.layerFilter
  topo : s'.topo = s.topo

theorem Static.refl (s : State) : Static s s := ⟨rfl, rfl⟩
theorem Static.trans {a b c : State} (h1 : Static a b) (h2 : Static b c) : Static a c :=
  ⟨h2.filter.trans h1.filter, h2.topo.trans h1.topo⟩

theorem static_deregisterMon (s : State) (mid : Nat) : Static s (deregisterMon s mid) := ⟨rfl, rfl⟩
theorem static_registerMon (s : State) (mid : Nat) : Static s (registerMon s mid) := by
  unfold registerMon; split <;> exact ⟨rfl, rfl⟩
theorem static_setTrainer (s : State) (t : Nat) (T : Trainer) : Static s (setTrainer s t T) := ⟨rfl, rfl⟩
theorem static_newMonitor (s : State) (t : Nat) (pp : Bool) (path : Path) (tags : Option Nat)
    (reads : List Nat) (cell : Nat) : Static s (newMonitor s t pp path tags reads cell).1 := by
  simp only [newMonitor]
  have h := static_registerMon (setMon { s with nMons := s.nMons + 1 } s.nMons
    ⟨t, true, none, pp, path, tags, reads, cell, 0, 0, cellLayer s cell⟩) s.nMons
  exact ⟨h.filter, h.topo⟩

theorem static_addMonitor (s : State) (t n mname : Nat) (sel : AttrSel) (unique prepend : Bool) (tags : Nat)
    (reads : List Nat) : Static s (addMonitor s t n mname sel unique prepend tags reads).1 := by
  have h1 : Static s (eraseExisting s t n mname) := by
    unfold eraseExisting; simp only; split
    · exact static_setTrainer _ _ _
    · exact Static.refl _
  have h2 : ∀ (s1 : State) cell path, Static s1 (obtainMonitor s1 t cell mname unique prepend tags path reads).1 := by
    intro s1 cell path; unfold obtainMonitor; split
    · exact static_newMonitor ..
    · split
      · exact Static.refl _
      · exact static_newMonitor ..
  have h3 : ∀ (s2 : State) mid cell, Static s2 (addMonitorTail s2 t n mname mid cell) := by
    intro s2 mid cell
    unfold addMonitorTail poolInsert deregIfEval
    refine Static.trans ?_ (static_setTrainer _ _ _)
    split
    · exact ⟨rfl, rfl⟩
    · exact Static.trans (b := writeCellMon s2 cell mname mid) ⟨rfl, rfl⟩ (static_deregisterMon _ _)
  unfold addMonitor
  split
  · exact Static.refl _
  · simp only
    split
    · exact Static.refl _
    · split
      · exact h1
      · exact (h1.trans (h2 _ _ _)).trans (h3 _ _ _)

theorem static_addTemplate (tpl : List (Nat × AttrSel × Bool × Bool × Nat × List Nat)) (t n : Nat) (s : State) :
    Static s (addTemplate s t n tpl) := by
  induction tpl generalizing s with
  | nil => exact Static.refl _
  | cons e rest ih => exact (static_addMonitor ..).trans (ih _)

theorem static_deregisterUnshared (shared : List Nat) (g : List (Nat × Nat)) (s : State) :
    Static s (deregisterUnshared s shared g) := by
  induction g generalizing s with
  | nil => exact Static.refl _
  | cons e rest ih =>
    rw [deregisterUnshared_cons]; split
    · exact ih _
    · exact (static_deregisterMon _ _).trans (ih _)

theorem static_delObserved (s : State) (t n : Nat) : Static s (delObserved s t n) := by
  unfold delObserved; split
  · exact Static.refl _
  · exact (static_deregisterUnshared ..).trans (static_setTrainer _ _ _)

theorem static_setAll (mode : Bool) (l : List Nat) (s : State) : Static s (setAll s mode l) := by
  induction l generalizing s with
  | nil => exact Static.refl _
  | cons x rest ih =>
    rw [setAll_cons]; split
    · exact (static_registerMon _ _).trans (ih _)
    · exact (static_deregisterMon _ _).trans (ih _)

theorem static_delEntry (s : State) (t n mname mid : Nat) : Static s (delEntry s t n mname mid) := by
  unfold delEntry dropEmptyGroup deregIfUnaliased eraseEntry
  refine Static.trans ?_ (static_setTrainer _ _ _)
  split
  · exact static_setTrainer _ _ _
  · exact (static_setTrainer _ _ _).trans (static_deregisterMon _ _)

theorem static_step (s : State) (op : Op) : Static s (step s op).1 := by
  have hgc : ∀ s1 : State, Static s1 (gc s1) := fun _ => ⟨rfl, rfl⟩
  refine Static.trans ?_ (hgc _)
  cases op with
  | newTrainer kind => exact ⟨rfl, rfl⟩
  | registerCell t n c v =>
    simp only [stepCore]
    split
    · exact Static.refl _
    · split
      · exact Static.refl _
      · split
        · exact Static.refl _
        · exact ((static_delObserved s t n).trans (static_setTrainer _ _ _)).trans (static_addTemplate _ _ _ _)
  | delCell t n =>
    simp only [stepCore]
    split
    · exact Static.refl _
    · split
      · exact Static.refl _
      · exact (static_delObserved s t n).trans (static_setTrainer _ _ _)
  | addMonitor t n mname sel unique prepend tags =>
    simp only [stepCore]
    split
    · exact Static.refl _
    · exact static_addMonitor ..
  | delMonitor t n mname =>
    simp only [stepCore]
    split
    · exact Static.refl _
    · split
      · exact Static.refl _
      · split
        · exact Static.refl _
        · split
          · exact Static.refl _
          · exact static_delEntry ..
  | trainerTrain t mode =>
    simp only [stepCore]
    split
    · exact Static.refl _
    · exact (static_setTrainer s t _).trans (static_setAll _ _ _)
  | layerTrain l mode => exact ⟨rfl, rfl⟩
  | layerStep l =>
    simp only [stepCore]
    split <;> exact ⟨rfl, rfl⟩
  | trainerStep t =>
    simp only [stepCore]
    split
    · exact Static.refl _
    · split <;> exact Static.refl _
  | clear t =>
    simp only [stepCore]
    split
    · exact Static.refl _
    · exact ⟨rfl, rfl⟩
  | collect t =>
    simp only [stepCore]
    split
    · exact Static.refl _
    · exact static_setTrainer _ _ _

theorem static_exec (ops : List Op) (s : State) : Static s (exec s ops) := by
  induction ops generalizing s with
  | nil => exact Static.refl _
  | cons op ops ih => exact (static_step s op).trans (ih _)

end InfernoVerif.Lifecycle
