import InfernoVerif.Model.Split
import Mathlib.Tactic.Ring
import Mathlib.Tactic.Linarith
import Mathlib.Data.Real.Basic
/-!
Vocabulary and helper lemmas for C09 (`Props/C09.lean`), over `ℝ`.
-/
namespace InfernoVerif.Split

/-- value contributed by a part: `None` is not appended, so it contributes nothing -/
def partVal : Option ℝ → ℝ
  | some v => v
  | none => 0

/-- sign of a learning rate as the code tests it: `lr >= 0` ↦ `+1`, else `−1` -/
def sgnNonneg (b : Bool) : ℝ := if b then 1 else -1
/-- the delay trainers test `lr < 0` -/
def sgnLt (b : Bool) : ℝ := if b then -1 else 1

/-- applied change with no bounding configured: potentiation minus depression -/
def net (p : Parts ℝ) : ℝ := partVal p.1 - partVal p.2

/-- both parts handed to the updater are non-negative (an absent part counts as 0) -/
def PartsNonneg (p : Parts ℝ) : Prop := 0 ≤ partVal p.1 ∧ 0 ≤ partVal p.2

theorem lsum_append (l₁ l₂ : List ℝ) : lsum (l₁ ++ l₂) = lsum l₁ + lsum l₂ := by
  unfold lsum
  rw [List.foldl_append]
  have : ∀ (l : List ℝ) (c : ℝ), l.foldl (· + ·) c = c + l.foldl (· + ·) 0 := by
    intro l
    induction l with
    | nil => intro c; simp
    | cons h t ih => intro c; simp only [List.foldl_cons]; rw [ih (c + h), ih (0 + h)]; ring
  rw [this l₂ (l₁.foldl (· + ·) 0)]

theorem lsum_cons (x : ℝ) (l : List ℝ) : lsum (x :: l) = x + lsum l := by
  have := lsum_append [x] l
  simpa [lsum] using this

theorem nansum_cons_some (v : ℝ) (t : List (Option ℝ)) : nansum (some v :: t) = v + nansum t := by
  simp [nansum, lsum_cons]

theorem nansum_cons_none (t : List (Option ℝ)) : nansum (none :: t) = nansum t := by
  simp [nansum]

theorem nansum_clamp (row : List (Option ℝ)) :
    nansum (row.map (·.map clamp_min0)) + nansum (row.map (·.map clamp_max0)) = nansum row ∧
    0 ≤ nansum (row.map (·.map clamp_min0)) ∧ nansum (row.map (·.map clamp_max0)) ≤ 0 := by
  induction row with
  | nil => simp [nansum, lsum]
  | cons o t ih =>
    obtain ⟨i1, i2, i3⟩ := ih
    cases o with
    | none =>
      simp only [List.map_cons, Option.map_none, nansum_cons_none]
      exact ⟨i1, i2, i3⟩
    | some v =>
      simp only [List.map_cons, Option.map_some, nansum_cons_some, clamp_min0, clamp_max0]
      have h1 := max_add_min v 0
      have h2 : 0 ≤ max v 0 := le_max_right _ _
      have h3 : min v 0 ≤ 0 := min_le_right _ _
      exact ⟨by linarith, by linarith, by linarith⟩

theorem lsum_rows (m : List (List (Option ℝ))) :
    lsum (m.map fun row => nansum (row.map (·.map clamp_min0))) +
      lsum (m.map fun row => nansum (row.map (·.map clamp_max0))) = lsum (m.map nansum) ∧
    0 ≤ lsum (m.map fun row => nansum (row.map (·.map clamp_min0))) ∧
    lsum (m.map fun row => nansum (row.map (·.map clamp_max0))) ≤ 0 := by
  induction m with
  | nil => simp [lsum]
  | cons r t ih =>
    obtain ⟨i1, i2, i3⟩ := ih
    obtain ⟨r1, r2, r3⟩ := nansum_clamp r
    simp only [List.map_cons, lsum_cons]
    exact ⟨by linarith, by linarith, by linarith⟩

end InfernoVerif.Split
