import InfernoVerif.Model.Persist
/-! Helper lemmas for the persistence model (`Model/Persist.lean`); core Lean only. -/
namespace InfernoVerif.Persist
open InfernoVerif.Ring
variable {β : Type}

theorem lookup_self {α : Type} (k : String) (v : α) (l : List (String × α)) : List.lookup k ((k, v) :: l) = some v := by
  simp [List.lookup]

theorem strictErrors_single (k : String) (a b : Tens β) :
    strictErrors [(k, a)] [(k, b)] = if a.shape = b.shape then [] else [LoadErr.shape k] := by
  simp [strictErrors, List.lookup]
  split <;> simp_all

theorem strictErrors_nil_single (k : String) (b : Tens β) :
    strictErrors ([] : List (String × Tens β)) [(k, b)] = [LoadErr.missing k] := by
  simp [strictErrors, List.lookup]

theorem strictErrors_single_nil (k : String) (a : Tens β) :
    strictErrors [(k, a)] ([] : List (String × Tens β)) = [LoadErr.unexpected k] := by
  simp [strictErrors, List.lookup]

theorem strictErrors_nil_nil : strictErrors ([] : List (String × Tens β)) [] = [] := by
  simp [strictErrors]

theorem plistErrors_nil (pfx : String) (saved target : List (Tens β))
    (h : plistErrors pfx saved target = []) :
    saved.length = target.length ∧ ∀ p ∈ saved.zip target, p.1.shape = p.2.shape := by
  simp only [plistErrors, List.append_eq_nil_iff, List.map_eq_nil_iff, List.filter_eq_nil_iff,
    List.mem_range, decide_eq_true_eq] at h
  obtain ⟨⟨h1, h2⟩, h3⟩ := h
  refine ⟨?_, ?_⟩
  · by_cases hs : saved.length ≤ target.length
    · by_cases ht : target.length ≤ saved.length
      · omega
      · exact absurd (Nat.le_refl _) (h2 saved.length (by omega))
    · exact absurd (Nat.le_refl _) (h1 target.length (by omega))
  · intro p hp
    rw [List.filterMap_eq_nil_iff] at h3
    obtain ⟨i, hi⟩ := List.mem_iff_getElem.mp hp
    obtain ⟨hi, hpi⟩ := hi
    have := h3 (p, i) (by
      rw [List.mem_iff_getElem]
      refine ⟨i, by simpa using hi, ?_⟩
      simp [List.getElem_zipIdx, hpi])
    simp only at this
    split at this
    · assumption
    · cases this

theorem copyRows_eq (saved target : List (Tens β)) (hl : saved.length = target.length)
    (hs : ∀ p ∈ saved.zip target, p.1.shape = p.2.shape) : copyRows saved target = saved := by
  induction saved generalizing target with
  | nil => simp [copyRows]
  | cons a as ih =>
    cases target with
    | nil => simp at hl
    | cons b bs =>
      simp only [copyRows, List.zip_cons_cons, List.map_cons, List.cons.injEq]
      refine ⟨?_, ih bs (by simpa using hl) (fun p hp => hs p (by simp [hp]))⟩
      have := hs (a, b) (by simp)
      cases a; simp_all

theorem run_resume {D In Out : Type} (C : Comp D) (step : C.State → In → C.State × Out)
    (hr : Respects C step) (s t : C.State) (h : C.view t = C.view s) (xs : List In) :
    (run step t xs).2 = (run step s xs).2 ∧ C.view (run step t xs).1 = C.view (run step s xs).1 := by
  induction xs generalizing s t with
  | nil => exact ⟨rfl, h⟩
  | cons x xs ih =>
    obtain ⟨h1, h2⟩ := hr t s x h
    obtain ⟨i1, i2⟩ := ih (step s x).1 (step t x).1 h2
    simp only [run]
    exact ⟨by rw [h1, i1], i2⟩

theorem run_append {S In Out : Type} (step : S → In → S × Out) (s : S) (xs ys : List In) :
    run step s (xs ++ ys) = ((run step (run step s xs).1 ys).1, (run step s xs).2 ++ (run step (run step s xs).1 ys).2) := by
  induction xs generalizing s with
  | nil => simp [run]
  | cons x xs ih => simp [run, ih]

theorem run_length {S In Out : Type} (step : S → In → S × Out) (s : S) (xs : List In) :
    (run step s xs).2.length = xs.length := by
  induction xs generalizing s with
  | nil => simp [run]
  | cons x xs ih => simp [run, ih]

end InfernoVerif.Persist
