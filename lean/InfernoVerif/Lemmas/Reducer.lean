import InfernoVerif.Model.Reducer
import InfernoVerif.Lemmas.Ring
import InfernoVerif.Lemmas.Record
/-! Helper lemmas for the FoldReducer machine (C07): reads through the newest-first abstraction,
`select` only depends on the reads, per-operation refinement of the specification machine,
the invariant, runs of observations.  Core Lean only. -/
namespace InfernoVerif.Reducer
open InfernoVerif.Ring InfernoVerif.Select InfernoVerif.Record
variable {α ω : Type}

/-! ### rings, reads and the newest-first list -/

theorem fresh_wf (n : Nat) (hn : 0 < n) (z : α) : (fresh n z).WF :=
  ⟨hn, hn, by simp [fresh]⟩

theorem fresh_newest (n : Nat) (z : α) : (fresh n z).newest = List.replicate n z := by
  unfold fresh; rw [newest_ptr0]; simp

theorem ringOf_wf (n : Nat) (hn : 0 < n) (h : List α) (hl : h.length = n) : (ringOf n h).WF :=
  ⟨hn, hn, by simp [ringOf, hl]⟩

theorem ringOf_newest (n : Nat) (h : List α) : (ringOf n h).newest = h := by
  unfold ringOf; rw [newest_ptr0]; simp

theorem push_n (r : Ring α) (x : α) (b : Bool) : (r.push x b).n = r.n := by
  simp [Ring.push, Ring.incr, Ring.write, Ring.writeInplace, Ring.writeSplice]; split <;> rfl

theorem resetFill_eq_fresh (r : Ring α) (h : r.WF) (z : α) : r.resetFill z = fresh r.n z := by
  simp [Ring.resetFill, fresh, h.2.2]

theorem emod_shift (p o : Int) (n : Nat) :
    (p - o) % (n : Int) = (p - ((o - 1) % (n : Int) + 1)) % (n : Int) := by
  have e : (o - 1) % (n : Int) = (o - 1) - (n : Int) * ((o - 1) / (n : Int)) := Int.emod_def _ _
  rw [e]
  generalize (o - 1) / (n : Int) = q
  have : p - (o - 1 - (n : Int) * q + 1) = (p - o) + (n : Int) * q := by grind
  rw [this, Int.add_mul_emod_self_left]

/-- Every read is an entry of the newest-first list: `read o = newest[(o − 1) mod n]`. -/
theorem read_eq_newest (r : Ring α) (h : r.WF) (o : Int) :
    r.read o = r.newest[specIdx r.n (o - 1)]? := by
  have hlt : specIdx r.n (o - 1) < r.n := specIdx_lt h.1
  rw [newest_getElem? r h hlt]
  unfold Ring.read
  congr 1
  apply Int.ofNat_inj.mp
  rw [unwind_cast h.1, unwind_cast h.1]
  have hc : ((specIdx r.n (o - 1) : Nat) : Int) + 1 = (o - 1) % (r.n : Int) + 1 := by
    rw [specIdx_cast h.1]
  rw [hc]
  exact emod_shift _ _ _

/-- Two well-formed rings of the same size with the same newest-first list answer every read alike. -/
theorem read_congr (r r' : Ring α) (h : r.WF) (h' : r'.WF) (hn : r.n = r'.n)
    (he : r.newest = r'.newest) (o : Int) : r.read o = r'.read o := by
  rw [read_eq_newest r h, read_eq_newest r' h', he, hn]

/-- `select` (scalar time) only looks at the record size and at reads. -/
theorem selectScalar_congr (K : Ops α) (interp : Interp α) (r r' : Ring α) (hn : r.n = r'.n)
    (hr : ∀ o, r.read o = r'.read o) (dt tol t : α) (off : Int) :
    selectScalar K interp r dt tol t off = selectScalar K interp r' dt tol t off := by
  unfold selectScalar readO
  simp only [hn, hr]

/-- `select` (tensor time) only looks at the record size and at reads. -/
theorem selectTensor_congr (K : Ops α) (interp : Interp α) (r r' : Ring α) (hn : r.n = r'.n)
    (hr : ∀ o, r.read o = r'.read o) (dt tol t : α) (off : Int) :
    selectTensor K interp r dt tol t off = selectTensor K interp r' dt tol t off := by
  unfold selectTensor
  simp only [hn, hr]

theorem read_ringOf_newest (r : Ring α) (h : r.WF) (o : Int) :
    r.read o = (ringOf r.n r.newest).read o :=
  read_congr r _ h (ringOf_wf r.n h.1 _ (newest_length r h)) rfl (ringOf_newest _ _).symm o

theorem dump_eq_newest (r : Ring α) (h : r.WF) : (r.align 0).data.reverse = r.newest := by
  rw [← newest_align r h]
  have e : r.align 0 = ⟨r.n, 0, (r.align 0).data⟩ := by simp [Ring.align]
  conv => rhs; rw [e, newest_ptr0]

/-! ### refinement of the specification machine -/

theorem fresh_n (n : Nat) (z : α) : (fresh n z).n = n := rfl

/-- the ring the first observation after construction / a clear is pushed into is "all fill" -/
theorem initRing_eq (n : Nat) (z : α) (d : Option (Ring α))
    (h : d = none ∨ ∃ r, d = some r ∧ r.WF ∧ r.n = n) :
    firstStorage d n z = fresh n z := by
  rcases h with h | ⟨r, h, hw, hn⟩ <;> subst h
  · rfl
  · simp only [firstStorage]; rw [resetFill_eq_fresh r hw, hn]

/-- the temporal setters keep kept-shape storage a well-formed ring of the new size -/
theorem resizeData_inv (K : Kind α ω) (dt dur : α) (incl : Bool)
    (n : Nat) (ini : Bool) (data : Option (Ring α)) (p : Params α) (n' : Nat) (hn' : 0 < n')
    (hd : data = none ∨ ∃ r, data = some r ∧ r.WF ∧ r.n = n) :
    resizeData K ⟨dt, dur, incl, n, ini, data, p⟩ n' = none ∨
      ∃ r, resizeData K ⟨dt, dur, incl, n, ini, data, p⟩ n' = some r ∧ r.WF ∧ r.n = n' := by
  rcases hd with h | ⟨r, h, hw, hrn⟩ <;> subst h
  · left; rfl
  · right
    simp only [resizeData, Option.map_some]
    split
    · rename_i h; exact ⟨r, rfl, hw, by rw [hrn, h]⟩
    · exact ⟨_, rfl, reconstrain0_wf _ _ hn' _, rfl⟩

/-- One step of the code-shaped machine refines one step of the specification machine, and
preserves the invariant — for EVERY operation, including the temporal setters (since the D34
repair the first observation after a clear refills kept storage, so a resize in between is
invisible). -/
theorem step_refines (K : Kind α ω) (hsz : ∀ a b c, 0 < K.recsz a b c) (s : State α) (hi : Inv K s)
    (op : Op α ω) :
    sabs (step K s op).1 = (sstep K (sabs s) op).1 ∧
    (step K s op).2 = (sstep K (sabs s) op).2 ∧
    Inv K (step K s op).1 := by
  obtain ⟨dt, dur, incl, n, initial, data, p⟩ := s
  obtain ⟨hn, hd⟩ := hi
  simp only at hn hd
  cases initial with
  | true =>
    simp only [if_true] at hd
    have hw := fresh_wf n hn K.fill
    cases op with
    | observe o ip =>
      have key := initRing_eq n K.fill data hd
      refine ⟨?_, ?_, hn, ?_⟩
      · simp only [step, sstep, sabs, if_true, key]
        simp [newest_push _ hw, fresh_newest, fresh_n]
      · simp [step, sstep, sabs]
      · simp only [step, if_true, key, Bool.false_eq_true, if_false]
        exact ⟨_, rfl, push_wf' _ hw _ _, by rw [push_n]; rfl⟩
    | clear keep =>
      refine ⟨by simp [step, sstep, sabs], by simp [step, sstep, sabs], hn, ?_⟩
      simp only [step, if_true]
      cases keep
      · left; rfl
      · rcases hd with h | ⟨r, h, hwr, hrn⟩ <;> subst h
        · left; rfl
        · right
          exact ⟨_, rfl, resetFill_wf r hwr _, by simpa [Ring.resetFill] using hrn⟩
    | peek => exact ⟨by simp [step, sstep, sabs], by simp [step, sstep, sabs], hn, by simpa [step] using hd⟩
    | dump => exact ⟨by simp [step, sstep, sabs], by simp [step, sstep, sabs], hn, by simpa [step] using hd⟩
    | view t tol tensor => exact ⟨by simp [step, sstep, sabs], by simp [step, sstep, sabs], hn, by simpa [step] using hd⟩
    | setDt v =>
      refine ⟨by simp [step, sstep, sabs], by simp [step, sstep, sabs], hsz _ _ _, ?_⟩
      simp only [step, if_true]
      exact resizeData_inv K dt dur incl n true data p _ (hsz _ _ _) hd
    | setDur v =>
      refine ⟨by simp [step, sstep, sabs], by simp [step, sstep, sabs], hsz _ _ _, ?_⟩
      simp only [step, if_true]
      exact resizeData_inv K dt dur incl n true data p _ (hsz _ _ _) hd
  | false =>
    simp only [Bool.false_eq_true, if_false] at hd
    obtain ⟨r, hdr, hw, hrn⟩ := hd
    subst hdr
    subst hrn
    have h0 : r.newest[0]? = r.read 1 := by
      have := newest_getElem? r hw (j := 0) hn; simpa using this
    have keep : Inv K ⟨dt, dur, incl, r.n, false, some r, p⟩ := ⟨hn, r, rfl, hw, rfl⟩
    cases op with
    | observe o ip =>
      refine ⟨?_, by simp [step, sstep, sabs], hn, ?_⟩
      · simp [step, sstep, sabs, storageOr, newest_push _ hw, h0]
      · simp only [step, Bool.false_eq_true, if_false, storageOr]
        exact ⟨_, rfl, push_wf' _ hw _ _, push_n _ _ _⟩
    | clear keep =>
      refine ⟨by simp [step, sstep, sabs], by simp [step, sstep, sabs], hn, ?_⟩
      simp only [step, if_true]
      cases keep
      · left; rfl
      · right
        exact ⟨_, rfl, resetFill_wf r hw _, by simp [Ring.resetFill]⟩
    | peek => exact ⟨by simp [step, sstep, sabs], by simp [step, sstep, sabs, h0], keep⟩
    | dump =>
      have ha := align_wf r hw 0 hn
      refine ⟨?_, ?_, hn, ?_⟩
      · simp [step, sstep, sabs, newest_align r hw]
      · simp [step, sstep, sabs, dump_eq_newest r hw]
      · simp only [step, Bool.false_eq_true, if_false]
        exact ⟨_, rfl, ha, rfl⟩
    | view t tol tensor =>
      have hr := read_ringOf_newest r hw
      refine ⟨by simp [step, sstep, sabs], ?_, keep⟩
      simp only [step, sstep, sabs, Bool.false_eq_true, if_false, Option.map_some]
      rw [selectTensor_congr K.ops K.interp r (ringOf r.n r.newest) rfl hr,
          selectScalar_congr K.ops K.interp r (ringOf r.n r.newest) rfl hr]
    | setDt v =>
      refine ⟨?_, by simp [step, sstep, sabs], hsz _ _ _, ?_⟩
      · simp only [step, sstep, sabs, Bool.false_eq_true, if_false, resizeData, Option.map_some]
        congr 2
        split
        · rfl
        · rw [reconstrain0_newest r hw]
      · simp only [step, Bool.false_eq_true, if_false, resizeData, Option.map_some]
        split
        · rename_i h; exact ⟨_, rfl, hw, h.symm⟩
        · exact ⟨_, rfl, reconstrain0_wf _ _ (hsz _ _ _) _, rfl⟩
    | setDur v =>
      refine ⟨?_, by simp [step, sstep, sabs], hsz _ _ _, ?_⟩
      · simp only [step, sstep, sabs, Bool.false_eq_true, if_false, resizeData, Option.map_some]
        congr 2
        split
        · rfl
        · rw [reconstrain0_newest r hw]
      · simp only [step, Bool.false_eq_true, if_false, resizeData, Option.map_some]
        split
        · rename_i h; exact ⟨_, rfl, hw, h.symm⟩
        · exact ⟨_, rfl, reconstrain0_wf _ _ (hsz _ _ _) _, rfl⟩

/-- Refinement for every finite operation history (induction over the op list). -/
theorem run_refines (K : Kind α ω) (hsz : ∀ a b c, 0 < K.recsz a b c) (ops : List (Op α ω))
    (s : State α) (hi : Inv K s) :
    sabs (run K s ops).1 = (srun K (sabs s) ops).1 ∧
    (run K s ops).2 = (srun K (sabs s) ops).2 ∧
    Inv K (run K s ops).1 := by
  induction ops generalizing s with
  | nil => exact ⟨rfl, rfl, hi⟩
  | cons op ops ih =>
    obtain ⟨h1, h2, h3⟩ := step_refines K hsz s hi op
    obtain ⟨i1, i2, i3⟩ := ih (step K s op).1 h3
    simp only [run, srun]
    rw [← h1]
    exact ⟨i1, by rw [h2, i2], i3⟩

/-! ### runs of observations -/

theorem init_inv (K : Kind α ω) (hsz : ∀ a b c, 0 < K.recsz a b c) (dt dur : α) (incl : Bool)
    (p : Params α) : Inv K (init K dt dur incl p) :=
  ⟨hsz _ _ _, by simp [init]⟩

theorem freshOf_inv (K : Kind α ω) (s : State α) (hi : Inv K s) : Inv K (freshOf K s) :=
  ⟨hi.1, by simp [freshOf]⟩

theorem srun_append (K : Kind α ω) (s : SState α) (a b : List (Op α ω)) :
    (srun K s (a ++ b)).1 = (srun K (srun K s a).1 b).1 := by
  induction a generalizing s with
  | nil => rfl
  | cons x a ih => simp only [List.cons_append, srun]; exact ih _

theorem run_append (K : Kind α ω) (s : State α) (a b : List (Op α ω)) :
    (run K s (a ++ b)).1 = (run K (run K s a).1 b).1 := by
  induction a generalizing s with
  | nil => rfl
  | cons x a ih => simp only [List.cons_append, run]; exact ih _

theorem take_cons_take (n : Nat) (a : α) (l : List α) : (a :: l.take n).take n = (a :: l).take n := by
  cases n with
  | zero => rfl
  | succ n => simp [List.take_take]

theorem histAfter_zero (K : Kind α ω) (dt : α) (p : Params α) (n : Nat) (o : Nat → ω) :
    histAfter K dt p n o 0 = List.replicate n K.fill := by
  apply List.ext_getElem?
  intro j
  simp [histAfter, List.getElem?_replicate]
  split <;> simp_all

theorem histAfter_succ (K : Kind α ω) (dt : α) (p : Params α) (n : Nat) (o : Nat → ω) (T : Nat) :
    histAfter K dt p n o (T + 1) =
      (foldSeq (stepAt K dt p) o T :: histAfter K dt p n o T).take n := by
  apply List.ext_getElem?
  intro j
  by_cases hj : j < n
  · rw [List.getElem?_take, if_pos hj]
    cases j with
    | zero => simp [histAfter, hj]
    | succ j =>
      have hj' : j < n := by omega
      simp only [histAfter, List.getElem?_cons_succ, List.getElem?_map, List.getElem?_range hj,
        List.getElem?_range hj', Option.map_some]
      by_cases h1 : j < T
      · rw [if_pos (by omega), if_pos h1]; congr 2; omega
      · rw [if_neg (by omega), if_neg h1]
  · rw [List.getElem?_eq_none (by simp [histAfter]; omega),
      List.getElem?_eq_none (by simp [List.length_take, histAfter]; omega)]

/-- Specification machine: after `T` observations from a cleared state the history is
`histAfter … T` (nothing yet for `T = 0`) and the attributes have been updated `T` times. -/
theorem srun_observes (K : Kind α ω) (s : SState α) (hs : s.hist = none) (hn : 0 < s.n) (o : Nat → ω)
    (ip : Nat → Bool) (T : Nat) :
    (srun K s (obsOps o ip T)).1 =
      { s with hist := if T = 0 then none else some (histAfter K s.dt s.p s.n o T),
               p := preN K T s.p } := by
  induction T with
  | zero => cases s; simp_all [obsOps, srun, preN]
  | succ T ih =>
    have : (obsOps o ip (T + 1) : List (Op α ω)) = obsOps o ip T ++ [Op.observe (o T) (ip T)] := by
      simp [obsOps, List.range_succ]
    rw [this, srun_append, ih]
    simp only [srun, sstep, preN]
    by_cases hT : T = 0
    · subst hT
      simp [histAfter_succ, histAfter_zero, foldSeq, stepAt, preN]
    · simp only [hT, if_false, Nat.add_eq_zero_iff, Nat.one_ne_zero, and_false]
      have h0 : (histAfter K s.dt s.p s.n o T)[0]? = some (foldSeq (stepAt K s.dt s.p) o (T - 1)) := by
        simp [histAfter, hn]; intro h; omega
      rw [h0]
      congr 2
      rw [histAfter_succ]
      obtain ⟨T', rfl⟩ := Nat.exists_eq_succ_of_ne_zero hT
      simp [foldSeq, stepAt, preN]

theorem obsOps_noResize (o : Nat → ω) (ip : Nat → Bool) (T : Nat) :
    ∀ op ∈ (obsOps o ip T : List (Op α ω)), op.isResize = false := by
  intro op h
  simp only [obsOps, List.mem_map] at h
  obtain ⟨i, _, rfl⟩ := h
  rfl

/-- Code-shaped machine: after `T ≥ 1` observations from a cleared reducer the storage is a
well-formed ring whose newest-first content is `histAfter`. -/
theorem run_observes (K : Kind α ω) (hsz : ∀ a b c, 0 < K.recsz a b c) (s : State α) (hi : Inv K s)
    (hc : s.initial = true) (o : Nat → ω) (ip : Nat → Bool) (T : Nat) (hT : 0 < T) :
    ∃ r, (run K s (obsOps o ip T)).1 =
        { s with initial := false, data := some r, p := preN K T s.p } ∧
      r.WF ∧ r.n = s.n ∧ r.newest = histAfter K s.dt s.p s.n o T := by
  obtain ⟨h1, _, h3⟩ := run_refines K hsz (obsOps o ip T) s hi
  have hs : (sabs s).hist = none := by simp [sabs, hc]
  rw [srun_observes K (sabs s) hs hi.1 o ip T] at h1
  generalize (run K s (obsOps o ip T)).1 = s' at h1 h3
  obtain ⟨dt', dur', incl', n', ini', data', p'⟩ := s'
  obtain ⟨dt, dur, incl, n, ini, data, p⟩ := s
  simp only [sabs, SState.mk.injEq] at h1
  obtain ⟨e1, e2, e3, e4, e5, e6⟩ := h1
  subst e1 e2 e3 e4 e6
  have hT' : T ≠ 0 := by omega
  simp only [hT', if_false] at e5
  cases ini' with
  | true => simp at e5
  | false =>
    simp only [Bool.false_eq_true, if_false] at e5
    obtain ⟨_, r, hr, hw, hrn⟩ := h3
    simp only at hr hrn
    subst hr
    simp only [Option.map_some, Option.some.injEq] at e5
    exact ⟨r, rfl, hw, hrn, e5⟩

/-- Reading `j` steps back (`read (j+1)`) in a well-formed ring, through the newest-first list. -/
theorem read_of_newest (r : Ring α) (h : r.WF) (l : List α) (hl : r.newest = l) (j : Nat) (hj : j < r.n) :
    r.read (1 + (j : Int)) = l[j]? := by
  rw [← hl, newest_getElem? r h hj]; congr 1; omega

theorem histAfter_getElem? (K : Kind α ω) (dt : α) (p : Params α) (n : Nat) (o : Nat → ω) (T k : Nat)
    (hk : k < n) :
    (histAfter K dt p n o T)[k]? =
      some (if k < T then foldSeq (stepAt K dt p) o (T - 1 - k) else K.fill) := by
  simp [histAfter, hk]

end InfernoVerif.Reducer
