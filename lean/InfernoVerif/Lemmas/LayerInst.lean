import InfernoVerif.Lemmas.Layer
import InfernoVerif.Lemmas.Synapse
import InfernoVerif.Lemmas.Neuron
import InfernoVerif.Model.Delay
/-!
Concrete components for C17 (`Props/C17b.lean`): the contract `Obj.ClearOK` of `Model/Layer.lean`
is discharged for the project's own component models, so that the replay theorems of `Props/C17.lean`
hold for layers built from them without any component hypothesis.

* synapses (`Model/Synapse.lean`, all four kinds, EVERY arithmetic `SOps α`): `run` (any finite
  sequence of `forward` calls), its invariant (`run_wf_sized`: records well formed and of the
  configured size — the ring size never changes), `clear_of_wf_sized` (`clear` = `init` exactly on the
  invariant), `step_some` / `run_some` (no call fails on the invariant);
* `denseConnAt` — `LinearDense` = synapse elements + `Delay.denseForward` (undelayed `F.linear` branch
  and delayed `einsum` branch, learned `W`, `b`, `D` fixed in the closure = kept by `clear`) as an
  `Obj`; its state type is the invariant subtype, `fresh` is the constructor with the same parameters;
* `neuronElemAt` / `neuronGroupAt` — one neuron / a group, built from the GENERATED
  `voltage_thresholding_constant` with arbitrary dynamics;
* `serialLayerAt`, `Serial.exec` (histories), `exec_serialLayerAt`, `exec_live`.

Exceptions: tensors are `Tens α = Option (List α)`; `none` is "the call raised".  A component whose call
raised goes to the absorbing state `none` (nothing is claimed about a real object after an
exception).  `DenseP.NoRaise` + `ArgsOK` + `TransOK` are sufficient conditions under which no call of a
history raises.
-/

namespace InfernoVerif.Synapse
open InfernoVerif.Ring InfernoVerif.Select
section Run
variable {α : Type}

/-- `forward` called on a sequence of inputs `(inputs[0], inputs[1:])`, from state `s`: the final
state and the returned currents; `none` as soon as a call fails. -/
def run (S : SOps α) (c : Cfg α) (s : St α) : List (α × List α) → Option (St α × List α)
  | [] => some (s, [])
  | xi :: rest =>
    match step S c s xi.1 xi.2 with
    | none => none
    | some (s', v) =>
      match run S c s' rest with
      | none => none
      | some (s'', vs) => some (s'', v :: vs)

theorem run_wf_sized (S : SOps α) (c : Cfg α) (ins : List (α × List α)) (s s' : St α) (vs : List α)
    (hw : s.WF) (hz : s.Sized S c) (h : run S c s ins = some (s', vs)) : s'.WF ∧ s'.Sized S c := by
  induction ins generalizing s vs with
  | nil => simp only [run, Option.some.injEq, Prod.mk.injEq] at h; rw [← h.1]; exact ⟨hw, hz⟩
  | cons xi rest ih =>
    simp only [run] at h
    cases h1 : step S c s xi.1 xi.2 with
    | none => rw [h1] at h; simp at h
    | some r =>
      obtain ⟨s1, v⟩ := r
      rw [h1] at h
      simp only at h
      cases h2 : run S c s1 rest with
      | none => rw [h2] at h; simp at h
      | some r2 =>
        obtain ⟨s2, vs2⟩ := r2
        rw [h2] at h
        simp only [Option.some.injEq, Prod.mk.injEq] at h
        obtain ⟨e1, _⟩ := h
        subst e1
        exact ih s1 vs2 (step_wf S c s s1 v hw _ _ h1) (step_sized S c s s1 v hz _ _ h1) h2

/-- on well-formed records of the configured size, `clear()` gives exactly the constructed state -/
theorem clear_of_wf_sized (S : SOps α) (c : Cfg α) (s : St α) (hw : s.WF) (hz : s.Sized S c) :
    clear S s = init S c := by
  obtain ⟨w1, w2, w3⟩ := hw
  obtain ⟨z1, z2, z3⟩ := hz
  unfold clear init
  rw [resetFill_eq_zeroRing S.K _ w1, resetFill_eq_zeroRing S.K _ w2, resetFill_eq_zeroRing S.K _ w3, z1, z2, z3]

theorem read_some' (r : Ring.Ring α) (h : r.WF) (o : Int) : ∃ v, r.read o = some v := by
  obtain ⟨h0, h1, h2⟩ := h
  unfold Ring.read
  have : unwind r.ptr o r.n < r.data.length := by rw [h2]; exact unwind_lt h0
  exact ⟨r.data[unwind r.ptr o r.n], List.getElem?_eq_getElem this⟩

/-- on well-formed records `forward` never fails (no slot is ever out of range) — every arithmetic -/
theorem step_some (S : SOps α) (c : Cfg α) (s : St α) (hw : s.WF) (x : α) (inj : List α) :
    ∃ r, step S c s x inj = some r := by
  obtain ⟨h1, h2, h3⟩ := hw
  unfold step
  cases c.kind <;> simp only [stepDelta, stepDeltaPlus, stepSingleExp, stepDoubleExp]
  · obtain ⟨v, hv⟩ := read_some' _ (push_wf' _ h1 (toSpike S.K x) c.inplace) 1
    rw [hv]; exact ⟨_, rfl⟩
  · obtain ⟨v, hv⟩ := read_some' _ (push_wf' _ h2
      ((S.K.mul x (S.K.div c.Q c.dt) :: inj).foldl S.K.add (S.K.ofInt 0)) c.inplace) 1
    rw [hv]; exact ⟨_, rfl⟩
  · obtain ⟨i, hi⟩ := read_some' _ h2 1
    rw [hi]
    obtain ⟨v, hv⟩ := read_some' _ (push_wf' _ h2 (expUpdate S c.dt c.tau (S.K.div c.Q c.tau) i x) c.inplace) 1
    simp only [hv]; exact ⟨_, rfl⟩
  · obtain ⟨p, hp⟩ := read_some' _ h2 1
    obtain ⟨q, hq⟩ := read_some' _ h3 1
    rw [hp, hq]
    obtain ⟨p', hp'⟩ := read_some' _ (push_wf' _ h2 (expUpdate S c.dt c.tau (S.K.div c.Q (S.K.sub c.tau c.tauR)) p x) c.inplace) 1
    obtain ⟨q', hq'⟩ := read_some' _ (push_wf' _ h3 (expUpdate S c.dt c.tauR (S.K.div c.Q (S.K.sub c.tau c.tauR)) q x) c.inplace) 1
    simp only [hp', hq']; exact ⟨_, rfl⟩

theorem run_some (S : SOps α) (c : Cfg α) (ins : List (α × List α)) (s : St α) (hw : s.WF) :
    ∃ r, run S c s ins = some r := by
  induction ins generalizing s with
  | nil => exact ⟨_, rfl⟩
  | cons xi rest ih =>
    obtain ⟨⟨s1, v⟩, h1⟩ := step_some S c s hw xi.1 xi.2
    obtain ⟨⟨s2, vs⟩, h2⟩ := ih s1 (step_wf S c s s1 v hw _ _ h1)
    exact ⟨(s2, v :: vs), by simp only [run, h1, h2]⟩

end Run
end InfernoVerif.Synapse

namespace InfernoVerif.Layer
open InfernoVerif.Ring InfernoVerif.Select InfernoVerif.Synapse InfernoVerif.Delay

section DenseConn
variable {α : Type}

/-- tensors of the concrete layers: one batch row, or `none` = "the call that should have produced
it raised" (an exception aborts the real run; here it is an absorbing value, see `denseConnAt`). -/
abbrev Tens (α : Type) := Option (List α)

/-- all-or-nothing: the rows if no argument is a raised value -/
def allSome {β : Type} : List (Option β) → Option (List β)
  | [] => some []
  | none :: _ => none
  | some v :: rest =>
    match allSome rest with
    | none => none
    | some vs => some (v :: vs)

/-- constructor arguments and learned parameters of a `LinearDense` connection with its synapse:
`net.cfg` the synapse configuration, `net.hasDelay` whether it was built with `delay is not None`,
`M` inputs, `N` outputs, weight `N × M`, optional bias `N`, learned delays `N × M`. -/
structure DenseP (α : Type) where
  net : Net α
  M : Nat
  N : Nat
  W : List (List α)
  b : Option (List α)
  D : List (List α)

/-- `self.synapse(*inputs)` with injected currents: element `e` receives `x[e]` and `js[e]`
(`Delay.stepAll` is the case without injected currents, `stepAllInj_nil`). -/
def stepAllInj (S : SOps α) (cfg : Cfg α) : List (St α) → List α → List (List α) → Option (List (St α × α))
  | [], [], [] => some []
  | s :: ss, x :: xs, j :: js =>
    match step S cfg s x j, stepAllInj S cfg ss xs js with
    | some r, some rest => some (r :: rest)
    | _, _ => none
  | _, _, _ => none

/-- `inputs[1:]` regrouped per element: element `e` gets `[inp[e] for inp in inputs[1:]]`
(used under the guard that every `inp` has `M` entries). -/
def injOf (S : SOps α) (M : Nat) (rest : List (List α)) : List (List α) :=
  (List.range M).map fun e => rest.map fun inp => inp.getD e (S.K.ofInt 0)

/-- `LinearDense.forward(*inputs)` on the element states `sts`: `none` if an argument is a raised
value, there is no argument, a shape is wrong (`x` must have `M` entries — `stepAllInj` — and so must
every injected tensor), a synapse step fails, or the delayed read raises; else the new element
states and the output row. -/
def denseStep (S : SOps α) (P : DenseP α) (sts : List (St α)) (inputs : List (Tens α)) :
    Option (List (St α) × List α) :=
  match allSome inputs with
  | some (x :: rest) =>
    if rest.all (fun inp => inp.length == P.M) then
      match stepAllInj S P.net.cfg sts x (injOf S P.M rest) with
      | some r =>
        match denseForward S P.net P.M P.N P.W P.b P.D (r.map (·.1)) (r.map (·.2)) with
        | .ok y => some (r.map (·.1), y)
        | _ => none
      | none => none
    else none
  | _ => none

/-- invariant of the element states of a connection: one per input, every record well formed and of
the configured size -/
def DenseP.Good (S : SOps α) (P : DenseP α) (sts : List (St α)) : Prop :=
  sts.length = P.M ∧ ∀ s ∈ sts, s.WF ∧ s.Sized S P.net.cfg

theorem stepAllInj_good (S : SOps α) (cfg : Cfg α) (sts : List (St α)) (x : List α) (js : List (List α))
    (r : List (St α × α)) (h : stepAllInj S cfg sts x js = some r) (hg : ∀ s ∈ sts, s.WF ∧ s.Sized S cfg) :
    (r.map (·.1)).length = sts.length ∧ ∀ s ∈ r.map (·.1), s.WF ∧ s.Sized S cfg := by
  induction sts generalizing x js r with
  | nil =>
    cases x <;> cases js <;> simp only [stepAllInj, Option.some.injEq] at h <;> first | (subst h; simp) | simp at h
  | cons s ss ih =>
    cases x with
    | nil => simp [stepAllInj] at h
    | cons x0 xs =>
      cases js with
      | nil => simp [stepAllInj] at h
      | cons j js' =>
        simp only [stepAllInj] at h
        cases h1 : step S cfg s x0 j with
        | none => rw [h1] at h; simp at h
        | some r1 =>
          cases h2 : stepAllInj S cfg ss xs js' with
          | none => rw [h1, h2] at h; simp at h
          | some rest =>
            rw [h1, h2] at h
            simp only [Option.some.injEq] at h
            subst h
            obtain ⟨l, g⟩ := ih xs js' rest h2 (fun s' hs' => hg s' (List.mem_cons_of_mem _ hs'))
            obtain ⟨s1, v⟩ := r1
            have hs := hg s (List.mem_cons_self ..)
            refine ⟨by simp only [List.map_cons, List.length_cons, l], ?_⟩
            intro s' hs'
            simp only [List.map_cons, List.mem_cons] at hs'
            rcases hs' with e | hm
            · subst e; exact ⟨step_wf S cfg s _ v hs.1 _ _ h1, step_sized S cfg s _ v hs.2 _ _ h1⟩
            · exact g s' hm

theorem denseStep_good (S : SOps α) (P : DenseP α) (sts : List (St α)) (inputs : List (Tens α))
    (r : List (St α) × List α) (h : denseStep S P sts inputs = some r) (hg : P.Good S sts) : P.Good S r.1 := by
  unfold denseStep at h
  split at h
  · split at h
    · split at h
      · rename_i r0 h0
        split at h
        · simp only [Option.some.injEq] at h
          subst h
          obtain ⟨l, g⟩ := stepAllInj_good S P.net.cfg sts _ _ r0 h0 hg.2
          exact ⟨by rw [l]; exact hg.1, g⟩
        · simp at h
      · simp at h
    · simp at h
  · simp at h

theorem clearAll_eq_init (S : SOps α) (P : DenseP α) (sts : List (St α)) (hg : P.Good S sts) :
    sts.map (Synapse.clear S) = List.replicate P.M (Synapse.init S P.net.cfg) := by
  rw [← hg.1]
  have : ∀ l : List (St α), (∀ s ∈ l, s.WF ∧ s.Sized S P.net.cfg) →
      l.map (Synapse.clear S) = List.replicate l.length (Synapse.init S P.net.cfg) := by
    intro l
    induction l with
    | nil => intro _; rfl
    | cons s ss ih =>
      intro hl
      have hs := hl s (List.mem_cons_self ..)
      simp only [List.map_cons, List.length_cons, List.replicate_succ]
      rw [clear_of_wf_sized S _ s hs.1 hs.2, ih (fun s' hs' => hl s' (List.mem_cons_of_mem _ hs'))]
  exact this sts hg.2

/-! ### the connection as a component -/

/-- element states carried by the component: always inside the invariant -/
abbrev DenseP.St (S : SOps α) (P : DenseP α) := { sts : List (Synapse.St α) // P.Good S sts }

/-- the constructor: one freshly built synapse element per input -/
def DenseP.initSt (S : SOps α) (P : DenseP α) : P.St S :=
  ⟨List.replicate P.M (Synapse.init S P.net.cfg),
    by simp, fun s hs => by rw [(List.mem_replicate.mp hs).2]; exact ⟨init_wf S _, init_sized S _⟩⟩

/-- `Connection.clear()` = `synapse.clear()`: every element's records are reset; weights, bias and
delays (`P`) are not touched -/
def DenseP.clearSt (S : SOps α) (P : DenseP α) (s : P.St S) : P.St S :=
  ⟨s.1.map (Synapse.clear S), by rw [clearAll_eq_init S P s.1 s.2]; exact (P.initSt S).2⟩

def DenseP.stepSt (S : SOps α) (P : DenseP α) (s : P.St S) (inputs : List (Tens α)) : Option (P.St S × List α) :=
  match h : denseStep S P s.1 inputs with
  | some r => some (⟨r.1, denseStep_good S P s.1 inputs r h s.2⟩, r.2)
  | none => none

/-- `synapse.current` of one element (what `forward` last returned / would return again) -/
def presentCurrent (S : SOps α) (c : Cfg α) (s : Synapse.St α) : Option α :=
  match c.kind with
  | .delta => (s.spike.read 1).map (spikeToCurrent S c)
  | .deltaPlus => s.cur.read 1
  | .singleExp => s.cur.read 1
  | .doubleExp =>
    match s.cur.read 1, s.neg.read 1 with
    | some p, some q => some (S.K.sub p q)
    | _, _ => none

/-- The `LinearDense` connection with parameters `P` in element state `s` as a layer component.
`none` is the absorbing "a call raised" state: after an exception nothing is claimed about the
real object, so the component keeps answering `none`.
* `step` = `forward(*inputs)`; * `peek` = the present synaptic currents `synapse.current`;
* `clear` = `Connection.clear()`; * `fresh` (SPEC) = the twin constructed with the same `P`. -/
def denseConnAt (S : SOps α) (P : DenseP α) (s : Option (P.St S)) : Conn (Tens α) where
  σ := Option (P.St S)
  st := s
  step := fun s inputs =>
    match s with
    | none => (none, none)
    | some s =>
      match P.stepSt S s inputs with
      | some r => (some r.1, some r.2)
      | none => (none, none)
  peek := fun s => s.bind fun s => allSome (s.1.map (presentCurrent S P.net.cfg))
  clear := Option.map (P.clearSt S)
  fresh := Option.map fun _ => P.initSt S

/-- the connection as constructed -/
def denseConn (S : SOps α) (P : DenseP α) : Conn (Tens α) := denseConnAt S P (some (P.initSt S))

theorem DenseP.clearSt_eq_initSt (S : SOps α) (P : DenseP α) (s : P.St S) : P.clearSt S s = P.initSt S :=
  Subtype.ext (clearAll_eq_init S P s.1 s.2)

theorem denseConnAt_clearOK (S : SOps α) (P : DenseP α) (s : Option (P.St S)) : (denseConnAt S P s).ClearOK := by
  intro t
  cases t with
  | none => exact Obj.Equiv.refl _
  | some t =>
    show Obj.Equiv { denseConnAt S P s with st := some (P.clearSt S t) } { denseConnAt S P s with st := some (P.initSt S) }
    rw [DenseP.clearSt_eq_initSt]
    exact Obj.Equiv.refl _

theorem denseConnAt_fwd (S : SOps α) (P : DenseP α) (s : Option (P.St S)) (xs : List (Tens α)) :
    ((denseConnAt S P s).fwd xs).1 = denseConnAt S P ((denseConnAt S P s).step s xs).1 := rfl

theorem denseConnAt_frs_some (S : SOps α) (P : DenseP α) (s : P.St S) :
    (denseConnAt S P (some s)).frs = denseConn S P := rfl

theorem denseConnAt_clr (S : SOps α) (P : DenseP α) (s : Option (P.St S)) :
    (denseConnAt S P s).clr = denseConnAt S P (s.map (P.clearSt S)) := rfl

/-- a call that returned a value leaves a live component -/
theorem denseConnAt_alive (S : SOps α) (P : DenseP α) (s : Option (P.St S)) (xs : List (Tens α))
    (h : (((denseConnAt S P s).fwd xs).2).isSome) : (((denseConnAt S P s).step s xs).1).isSome := by
  cases s with
  | none => simp [Obj.fwd, denseConnAt] at h
  | some s =>
    simp only [Obj.fwd, denseConnAt] at h ⊢
    cases h1 : P.stepSt S s xs with
    | none => rw [h1] at h; simp at h
    | some r => simp

end DenseConn
end InfernoVerif.Layer

namespace InfernoVerif.Layer
open InfernoVerif.Ring InfernoVerif.Select InfernoVerif.Synapse InfernoVerif.Delay

/-! ## calls with the right shapes do not raise -/
section Live
variable {α : Type}

theorem stepAllInj_some (S : SOps α) (cfg : Cfg α) (sts : List (St α)) (x : List α) (js : List (List α))
    (hw : ∀ s ∈ sts, s.WF) (hx : x.length = sts.length) (hj : js.length = sts.length) :
    ∃ r, stepAllInj S cfg sts x js = some r := by
  induction sts generalizing x js with
  | nil =>
    cases x <;> cases js <;> simp at hx hj
    exact ⟨[], rfl⟩
  | cons s ss ih =>
    cases x with
    | nil => simp at hx
    | cons x0 xs =>
      cases js with
      | nil => simp at hj
      | cons j js' =>
        obtain ⟨r1, h1⟩ := step_some S cfg s (hw s (List.mem_cons_self ..)) x0 j
        obtain ⟨rest, h2⟩ := ih xs js' (fun s' hs' => hw s' (List.mem_cons_of_mem _ hs'))
          (by simpa using hx) (by simpa using hj)
        exact ⟨r1 :: rest, by simp only [stepAllInj, h1, h2]⟩

theorem seqO_ok {β : Type} (l : List (Outcome β)) (h : ∀ o ∈ l, ∃ v, o = .ok v) : ∃ vs, seqO l = .ok vs := by
  induction l with
  | nil => exact ⟨[], rfl⟩
  | cons o rest ih =>
    obtain ⟨v, hv⟩ := h o (List.mem_cons_self ..)
    obtain ⟨vs, hvs⟩ := ih (fun o' ho' => h o' (List.mem_cons_of_mem _ ho'))
    subst hv
    exact ⟨v :: vs, by simp only [seqO, hvs]⟩

/-- if every element answers every query, `current_at(selector)` returns the whole matrix -/
theorem currentAtAll_ok' (S : SOps α) (cfg : Cfg α) (sts : List (St α)) (sel : List (List α))
    (h : ∀ s ∈ sts, ∀ t, ∃ v, currentAt S cfg s t = .ok v) : ∃ r, currentAtAll S cfg sts sel = .ok r := by
  unfold currentAtAll
  apply seqO_ok
  intro o ho
  simp only [List.mem_map] at ho
  obtain ⟨row, hrow, rfl⟩ := ho
  apply seqO_ok
  intro o' ho'
  obtain ⟨i, hi, rfl⟩ := List.getElem_of_mem hrow
  simp only [List.getElem_zipWith, List.mem_map] at ho'
  obtain ⟨t, _, rfl⟩ := ho'
  exact h _ (List.getElem_mem _) t

/-- the undelayed branch of `forward` cannot raise -/
theorem denseForward_undelayed (S : SOps α) (n : Net α) (h : useDelay S n = false) (M N : Nat) (W : List (List α))
    (b : Option (List α)) (D : List (List α)) (sts : List (St α)) (res : List α) :
    denseForward S n M N W b D sts res = .ok (linearK S.K N W b res) := by
  unfold denseForward; rw [h]; rfl

theorem denseForward_length (S : SOps α) (n : Net α) (M N : Nat) (W : List (List α))
    (b : Option (List α)) (D : List (List α)) (sts : List (St α)) (res y : List α)
    (h : denseForward S n M N W b D sts res = .ok y) : y.length = N := by
  unfold denseForward at h
  split at h
  · cases hc : currentAtAll S n.cfg sts (selectorDense S.K M N D) with
    | ok r => rw [hc] at h; simp only [Outcome.map, Outcome.ok.injEq] at h; rw [← h]; simp
    | valueError => rw [hc] at h; simp [Outcome.map] at h
    | noSlot => rw [hc] at h; simp [Outcome.map] at h
  · simp only [Outcome.ok.injEq] at h; rw [← h]; simp [linearK]

/-- what makes `forward` unable to raise for well-shaped arguments: the connection is undelayed, or
every element in the invariant answers every delayed read -/
def DenseP.NoRaise (S : SOps α) (P : DenseP α) : Prop :=
  useDelay S P.net = false ∨ ∀ s : Synapse.St α, s.WF → s.Sized S P.net.cfg → ∀ t, ∃ v, currentAt S P.net.cfg s t = .ok v

theorem injOf_length (S : SOps α) (M : Nat) (rest : List (List α)) : (injOf S M rest).length = M := by
  simp [injOf]

/-- a call with at least one argument, all arguments rows of `M` entries, returns a row of `N` entries -/
theorem denseStep_some (S : SOps α) (P : DenseP α) (hP : P.NoRaise S) (sts : List (St α)) (hg : P.Good S sts)
    (x : List α) (rest : List (List α)) (hx : x.length = P.M) (hr : ∀ inp ∈ rest, inp.length = P.M) :
    ∃ r, denseStep S P sts (some x :: rest.map some) = some r ∧ r.2.length = P.N := by
  have has : ∀ l : List (List α), allSome (l.map some) = some l := by
    intro l; induction l with
    | nil => rfl
    | cons a l ih => simp only [List.map_cons, allSome, ih]
  have hall : rest.all (fun inp => inp.length == P.M) = true := by
    simp only [List.all_eq_true, beq_iff_eq]; exact hr
  obtain ⟨r0, h0⟩ := stepAllInj_some S P.net.cfg sts x (injOf S P.M rest) (fun s hs => (hg.2 s hs).1)
    (by rw [hx, hg.1]) (by rw [injOf_length, hg.1])
  obtain ⟨l, g⟩ := stepAllInj_good S P.net.cfg sts _ _ r0 h0 hg.2
  have hf : ∃ y, denseForward S P.net P.M P.N P.W P.b P.D (r0.map (·.1)) (r0.map (·.2)) = .ok y := by
    rcases hP with hu | hq
    · exact ⟨_, denseForward_undelayed S P.net hu ..⟩
    · unfold denseForward
      split
      · obtain ⟨r, hr⟩ := currentAtAll_ok' S P.net.cfg (r0.map (·.1)) (selectorDense S.K P.M P.N P.D)
          (fun s hs => hq s (g s hs).1 (g s hs).2)
        rw [hr]; exact ⟨_, rfl⟩
      · exact ⟨_, rfl⟩
  obtain ⟨y, hy⟩ := hf
  refine ⟨(r0.map (·.1), y), ?_, denseForward_length S _ _ _ _ _ _ _ _ _ hy⟩
  simp only [denseStep, allSome, has, hall, if_true, h0, hy]

end Live

/-- over `ℝ` with a configuration the constructor accepts, every element in the invariant answers
every `current_at` query (the clamp keeps `select` inside its range test — `rawAt_ok`) -/
theorem currentAt_ok (c : Cfg ℝ) (hv : Valid c) (s : St ℝ) (hw : s.WF) (hz : s.Sized realSOps c) (t : ℝ) :
    ∃ v, currentAt realSOps c s t = .ok v := by
  obtain ⟨w1, w2, w3⟩ := hw
  obtain ⟨z1, z2, z3⟩ := hz
  unfold currentAt
  cases c.kind
  · simp only [synparamAt]
    obtain ⟨v, h⟩ := rawAt_ok (modeInterp realSOps c.mode) c hv s.spike w1 z1 (s.spike.n == 1) t
    rw [show realSOps.K = realOps from rfl, h]; exact ⟨_, rfl⟩
  · simp only [synparamAt]
    obtain ⟨v, h⟩ := rawAt_ok (modeInterp realSOps c.mode) c hv s.cur w2 z2 (s.cur.n == 1) t
    rw [show realSOps.K = realOps from rfl, h]; exact ⟨_, rfl⟩
  · simp only [synparamAt]
    obtain ⟨v, h⟩ := rawAt_ok (expInterp realSOps c.tau) c hv s.cur w2 z2 (s.cur.n == 1) t
    rw [show realSOps.K = realOps from rfl, h]; exact ⟨_, rfl⟩
  · simp only [currentAtDouble]
    obtain ⟨p, hp⟩ := rawAt_ok (expInterp realSOps c.tau) c hv s.cur w2 z2 (s.spike.n == 1) t
    obtain ⟨q, hq⟩ := rawAt_ok (expInterp realSOps c.tauR) c hv s.neg w3 z3 (s.spike.n == 1) t
    rw [show realSOps.K = realOps from rfl, hp, hq]; exact ⟨_, rfl⟩

theorem noRaise_real (P : DenseP ℝ) (hv : Valid P.net.cfg) : P.NoRaise realSOps :=
  Or.inr fun s hw hz t => currentAt_ok P.net.cfg hv s hw hz t

end InfernoVerif.Layer

namespace InfernoVerif.Layer
open InfernoVerif.Synapse InfernoVerif.Delay
open Classical

/-! ## neurons -/

/-- constructor arguments of a neuron group with constant reset (`LIF`, `QIF`, `EIF`, …):
`dyn v I` is `_integrate_v` at voltage `v` (any function), `lock` the `refrac_lock` argument. -/
structure NeurP where
  n : Nat
  dt : ℝ
  rest : ℝ
  reset : ℝ
  thresh : ℝ
  refracT : ℝ
  dyn : ℝ → ℝ → ℝ
  lock : Bool

/-- `forward` for one neuron `(voltage, refrac)`: the GENERATED `voltage_thresholding_constant`, called
as the classes call it; returns the new `(voltage, refrac)` and the spike as `0` / `1`. -/
noncomputable def NeurP.elemStep (Q : NeurP) (vr : ℝ × ℝ) (I : ℝ) : (ℝ × ℝ) × ℝ :=
  let o := InfernoVerif.Gen.NeuronDynamicsR.voltage_thresholding_constant I vr.2 (Q.dyn vr.1)
    (if Q.lock then some vr.1 else none) Q.dt Q.reset Q.thresh Q.refracT
  ((o.2.1, o.2.2), if o.1 then 1 else 0)

/-- `SpikeRefractoryMixin.spike`: `refrac == refrac_t` -/
noncomputable def NeurP.spikeFlag (Q : NeurP) (vr : ℝ × ℝ) : ℝ := if vr.2 = Q.refracT then 1 else 0

/-- state at construction and after `clear()`: `voltage = rest_v`, `refrac = 0` -/
def NeurP.initElem (Q : NeurP) : ℝ × ℝ := (Q.rest, 0)

/-- ONE neuron as a component over `ℝ`; `clear` = `voltage := rest_v; refrac := 0` whatever the
state, `fresh` (SPEC) = the constructed state. -/
noncomputable def neuronElemAt (Q : NeurP) (vr : ℝ × ℝ) : Neur ℝ where
  σ := ℝ × ℝ
  st := vr
  step := Q.elemStep
  peek := Q.spikeFlag
  clear := fun _ => (Q.rest, 0)
  fresh := fun _ => Q.initElem

noncomputable def neuronElem (Q : NeurP) : Neur ℝ := neuronElemAt Q Q.initElem

theorem neuronElemAt_clearOK (Q : NeurP) (vr : ℝ × ℝ) : (neuronElemAt Q vr).ClearOK :=
  fun _ => Obj.Equiv.refl _

/-- state of a group of `n` neurons -/
abbrev NeurP.St (Q : NeurP) := { l : List (ℝ × ℝ) // l.length = Q.n }

def NeurP.initSt (Q : NeurP) : Q.St := ⟨List.replicate Q.n Q.initElem, by simp⟩

/-- `clear()`: `voltage = full_like(voltage, rest_v)`, `refrac = zeros_like(refrac)` -/
def NeurP.clearSt (Q : NeurP) (s : Q.St) : Q.St := ⟨s.1.map fun _ => (Q.rest, 0), by simp [s.2]⟩

theorem NeurP.clearSt_eq_initSt (Q : NeurP) (s : Q.St) : Q.clearSt s = Q.initSt := by
  apply Subtype.ext
  simp only [NeurP.clearSt, NeurP.initSt, NeurP.initElem, List.map_const', s.2]

/-- `forward(inputs)` of the group: element-wise; `none` when the input is a raised value or has not
one entry per neuron -/
noncomputable def NeurP.stepSt (Q : NeurP) (s : Q.St) (inp : Tens ℝ) : Option (Q.St × List ℝ) :=
  match inp with
  | some xs =>
    if h : xs.length = Q.n then
      some (⟨List.zipWith (fun vr I => (Q.elemStep vr I).1) s.1 xs, by simp [s.2, h]⟩,
        List.zipWith (fun vr I => (Q.elemStep vr I).2) s.1 xs)
    else none
  | none => none

/-- the neuron group with parameters `Q` in state `s` as a layer component (`none` = absorbing "a
call raised" state); `peek` = the `spike` property. -/
noncomputable def neuronGroupAt (Q : NeurP) (s : Option Q.St) : Neur (Tens ℝ) where
  σ := Option Q.St
  st := s
  step := fun s inp =>
    match s with
    | none => (none, none)
    | some s =>
      match Q.stepSt s inp with
      | some r => (some r.1, some r.2)
      | none => (none, none)
  peek := Option.map fun s => s.1.map Q.spikeFlag
  clear := Option.map Q.clearSt
  fresh := Option.map fun _ => Q.initSt

noncomputable def neuronGroup (Q : NeurP) : Neur (Tens ℝ) := neuronGroupAt Q (some Q.initSt)

theorem neuronGroupAt_clearOK (Q : NeurP) (s : Option Q.St) : (neuronGroupAt Q s).ClearOK := by
  intro t
  cases t with
  | none => exact Obj.Equiv.refl _
  | some t =>
    show Obj.Equiv { neuronGroupAt Q s with st := some (Q.clearSt t) } { neuronGroupAt Q s with st := some Q.initSt }
    rw [NeurP.clearSt_eq_initSt]
    exact Obj.Equiv.refl _

theorem neuronGroupAt_fwd (Q : NeurP) (s : Option Q.St) (x : Tens ℝ) :
    ((neuronGroupAt Q s).fwd x).1 = neuronGroupAt Q ((neuronGroupAt Q s).step s x).1 := rfl

theorem neuronGroupAt_alive (Q : NeurP) (s : Option Q.St) (x : Tens ℝ)
    (h : (((neuronGroupAt Q s).fwd x).2).isSome) : (((neuronGroupAt Q s).step s x).1).isSome := by
  cases s with
  | none => simp [Obj.fwd, neuronGroupAt] at h
  | some s =>
    simp only [Obj.fwd, neuronGroupAt] at h ⊢
    cases h1 : Q.stepSt s x with
    | none => rw [h1] at h; simp at h
    | some r => simp

/-! ## the concrete serial layer -/

/-- a `Serial` layer of a dense connection and a neuron group, components in states `s`, `r` -/
noncomputable def serialLayerAt (C : SerialCfg (Tens ℝ)) (S : SOps ℝ) (P : DenseP ℝ) (Q : NeurP)
    (s : Option (P.St S)) (r : Option Q.St) : LayerSt (Tens ℝ) :=
  ⟨[(C.cn, denseConnAt S P s)], [(C.nn, neuronGroupAt Q r)]⟩

/-- the layer as constructed -/
noncomputable def serialLayer (C : SerialCfg (Tens ℝ)) (S : SOps ℝ) (P : DenseP ℝ) (Q : NeurP) : LayerSt (Tens ℝ) :=
  serialLayerAt C S P Q (some (P.initSt S)) (some Q.initSt)

/-- a history of calls: the state it leads to and, per call, `(neuron output, connection output)`;
`none` on a `KeyError` -/
def Serial.exec {τ : Type} (C : SerialCfg τ) (L : LayerSt τ) : List (List τ) → Option (LayerSt τ × List (τ × τ))
  | [] => some (L, [])
  | xs :: rest =>
    match Serial.forward C L xs with
    | none => none
    | some (L', o, y) =>
      match Serial.exec C L' rest with
      | none => none
      | some (L'', outs) => some (L'', (o, y) :: outs)

theorem serialLayerAt_clear (C : SerialCfg (Tens ℝ)) (S : SOps ℝ) (P : DenseP ℝ) (Q : NeurP)
    (s : P.St S) (r : Q.St) :
    Layer.clear (serialLayerAt C S P Q (some s) (some r)) = serialLayer C S P Q := by
  show serialLayerAt C S P Q (some (P.clearSt S s)) (some (Q.clearSt r)) = _
  rw [DenseP.clearSt_eq_initSt, NeurP.clearSt_eq_initSt]; rfl

theorem serialLayerAt_fresh (C : SerialCfg (Tens ℝ)) (S : SOps ℝ) (P : DenseP ℝ) (Q : NeurP)
    (s : P.St S) (r : Q.St) :
    Layer.fresh (serialLayerAt C S P Q (some s) (some r)) = serialLayer C S P Q := rfl

/-- every history from a layer of this form leads to a layer of this form; if no call of the
history returned a raised value, live components stay live -/
theorem exec_serialLayerAt (C : SerialCfg (Tens ℝ)) (S : SOps ℝ) (P : DenseP ℝ) (Q : NeurP)
    (hist : List (List (Tens ℝ))) (s : Option (P.St S)) (r : Option Q.St) (L' : LayerSt (Tens ℝ))
    (outs : List (Tens ℝ × Tens ℝ)) (h : Serial.exec C (serialLayerAt C S P Q s r) hist = some (L', outs)) :
    ∃ s' r', L' = serialLayerAt C S P Q s' r' ∧
      ((∀ p ∈ outs, p.1.isSome ∧ p.2.isSome) → s.isSome → r.isSome → s'.isSome ∧ r'.isSome) := by
  induction hist generalizing s r outs with
  | nil =>
    simp only [Serial.exec, Option.some.injEq, Prod.mk.injEq] at h
    exact ⟨s, r, h.1.symm, fun _ hs hr => ⟨hs, hr⟩⟩
  | cons xs rest ih =>
    simp only [Serial.exec, serialLayerAt, serial_forward_eq, serialSpec] at h
    cases h2 : Serial.exec C ⟨[(C.cn, ((denseConnAt S P s).fwd xs).1)],
        [(C.nn, ((neuronGroupAt Q r).fwd (C.trans ((denseConnAt S P s).fwd xs).2)).1)]⟩ rest with
    | none => rw [h2] at h; simp at h
    | some res =>
      obtain ⟨L2, outs2⟩ := res
      rw [h2] at h
      simp only [Option.some.injEq, Prod.mk.injEq] at h
      obtain ⟨e1, e2⟩ := h
      subst e1
      rw [denseConnAt_fwd, neuronGroupAt_fwd] at h2
      obtain ⟨s', r', hL, hlive⟩ := ih _ _ outs2 h2
      refine ⟨s', r', hL, ?_⟩
      intro hall hs hr
      rw [← e2] at hall
      have h0 := hall _ (List.mem_cons_self ..)
      exact hlive (fun p hp => hall p (List.mem_cons_of_mem _ hp))
        (denseConnAt_alive S P s xs h0.2) (neuronGroupAt_alive Q r _ h0.1)

end InfernoVerif.Layer

namespace InfernoVerif.Layer
open InfernoVerif.Synapse InfernoVerif.Delay

theorem DenseP.stepSt_some {α : Type} (S : SOps α) (P : DenseP α) (s : P.St S) (xs : List (Tens α))
    (r : List (Synapse.St α) × List α) (h : denseStep S P s.1 xs = some r) :
    ∃ s', P.stepSt S s xs = some (s', r.2) := by
  unfold DenseP.stepSt
  split
  · rename_i r' h'
    have e : r' = r := by rw [h] at h'; exact (Option.some.inj h').symm
    subst e
    exact ⟨_, rfl⟩
  · rename_i h'
    rw [h] at h'; simp at h'

/-- a well-shaped call: at least one argument, every argument a row of `M` entries -/
def DenseP.ArgsOK {α : Type} (P : DenseP α) (xs : List (Tens α)) : Prop :=
  ∃ (x : List α) (rest : List (List α)), xs = some x :: rest.map some ∧ x.length = P.M ∧ ∀ inp ∈ rest, inp.length = P.M

theorem denseConnAt_step_live {α : Type} (S : SOps α) (P : DenseP α) (hP : P.NoRaise S) (s : P.St S)
    (xs : List (Tens α)) (hx : P.ArgsOK xs) :
    ∃ s' y, (denseConnAt S P (some s)).step (some s) xs = (some s', some y) ∧ y.length = P.N := by
  obtain ⟨x, rest, rfl, h1, h2⟩ := hx
  obtain ⟨r, hr, hl⟩ := denseStep_some S P hP s.1 s.2 x rest h1 h2
  obtain ⟨s', hs'⟩ := P.stepSt_some S s _ r hr
  exact ⟨s', r.2, by simp only [denseConnAt, hs'], hl⟩

theorem neuronGroupAt_step_live (Q : NeurP) (s : Q.St) (xs : List ℝ) (hx : xs.length = Q.n) :
    ∃ s' o, (neuronGroupAt Q (some s)).step (some s) (some xs) = (some s', some o) := by
  simp only [neuronGroupAt, NeurP.stepSt, hx, dite_true]
  exact ⟨_, _, rfl⟩

/-- the user transform maps a connection output row (`N` entries) to a neuron input row (`n` entries) -/
def TransOK (C : SerialCfg (Tens ℝ)) (P : DenseP ℝ) (Q : NeurP) : Prop :=
  ∀ y : List ℝ, y.length = P.N → ∃ z, C.trans (some y) = some z ∧ z.length = Q.n

/-- a history of well-shaped calls on live components runs through without any raised value -/
theorem exec_live (C : SerialCfg (Tens ℝ)) (S : SOps ℝ) (P : DenseP ℝ) (Q : NeurP) (hP : P.NoRaise S)
    (hT : TransOK C P Q) (hist : List (List (Tens ℝ))) (hh : ∀ xs ∈ hist, P.ArgsOK xs) (s : P.St S) (r : Q.St) :
    ∃ L' outs, Serial.exec C (serialLayerAt C S P Q (some s) (some r)) hist = some (L', outs) ∧
      ∀ p ∈ outs, p.1.isSome ∧ p.2.isSome := by
  induction hist generalizing s r with
  | nil => exact ⟨_, [], rfl, by simp⟩
  | cons xs rest ih =>
    obtain ⟨s1, y, hc, hy⟩ := denseConnAt_step_live S P hP s xs (hh xs (List.mem_cons_self ..))
    obtain ⟨z, hz, hzl⟩ := hT y hy
    obtain ⟨r1, o, hn⟩ := neuronGroupAt_step_live Q r z hzl
    obtain ⟨L', outs, he, ho⟩ := ih (fun xs' h' => hh xs' (List.mem_cons_of_mem _ h')) s1 r1
    have e1 : ((denseConnAt S P (some s)).fwd xs).2 = some y := by simp only [Obj.fwd]; exact congrArg Prod.snd hc
    have e2 : ((denseConnAt S P (some s)).fwd xs).1 = denseConnAt S P (some s1) := by
      rw [denseConnAt_fwd]; exact congrArg (denseConnAt S P) (congrArg Prod.fst hc)
    have e3 : ((neuronGroupAt Q (some r)).fwd (some z)).2 = some o := by simp only [Obj.fwd]; exact congrArg Prod.snd hn
    have e4 : ((neuronGroupAt Q (some r)).fwd (some z)).1 = neuronGroupAt Q (some r1) := by
      rw [neuronGroupAt_fwd]; exact congrArg (neuronGroupAt Q) (congrArg Prod.fst hn)
    refine ⟨L', (some o, some y) :: outs, ?_, ?_⟩
    · simp only [Serial.exec, serialLayerAt, serial_forward_eq, serialSpec, e1, hz, e2, e3, e4]
      simp only [serialLayerAt] at he
      rw [he]
    · intro p hp
      simp only [List.mem_cons] at hp
      rcases hp with rfl | hp
      · exact ⟨rfl, rfl⟩
      · exact ho p hp

end InfernoVerif.Layer

namespace InfernoVerif.Layer
open InfernoVerif.Synapse InfernoVerif.Delay

/-- without injected currents the synapse step of the component is C06's `Delay.stepAll` -/
theorem stepAllInj_nil {α : Type} (S : SOps α) (cfg : Cfg α) (sts : List (Synapse.St α)) (x : List α) :
    stepAllInj S cfg sts x (injOf S sts.length []) = stepAll S cfg sts x := by
  have hj : injOf S sts.length [] = List.replicate sts.length [] := by
    simp [injOf]
  rw [hj]
  clear hj
  induction sts generalizing x with
  | nil => cases x <;> rfl
  | cons s ss ih =>
    cases x with
    | nil => rfl
    | cons x0 xs =>
      simp only [List.length_cons, List.replicate_succ, stepAllInj, stepAll]
      rw [ih xs]
      cases step S cfg s x0 [] <;> cases stepAll S cfg ss xs <;> rfl

/-- the element step is C03's `stepG` with the constant reset map (so every theorem of C03 is about
this component) -/
theorem NeurP.elemStep_eq_stepG (Q : NeurP) (vr : ℝ × ℝ) (I : ℝ) :
    Q.elemStep vr I =
      (((InfernoVerif.Neuron.stepG (fun _ => Q.reset) Q.dt Q.refracT Q.dyn Q.lock Q.thresh vr.1 vr.2 I).2.1,
        (InfernoVerif.Neuron.stepG (fun _ => Q.reset) Q.dt Q.refracT Q.dyn Q.lock Q.thresh vr.1 vr.2 I).2.2),
        @ite _ (InfernoVerif.Neuron.stepG (fun _ => Q.reset) Q.dt Q.refracT Q.dyn Q.lock Q.thresh vr.1 vr.2 I).1
          (Classical.propDecidable _) 1 0) := by
  unfold NeurP.elemStep InfernoVerif.Neuron.stepG
  rw [InfernoVerif.Neuron.gen_constant_eq]

/-- a component of the modelled kinds -/
def IsDenseConn (S : SOps ℝ) (c : Conn (Tens ℝ)) : Prop := ∃ (P : DenseP ℝ) (s : Option (P.St S)), c = denseConnAt S P s
def IsNeuronGroup (n : Neur (Tens ℝ)) : Prop := ∃ (Q : NeurP) (r : Option Q.St), n = neuronGroupAt Q r

theorem IsDenseConn.clearOK {S : SOps ℝ} {c : Conn (Tens ℝ)} (h : IsDenseConn S c) : c.ClearOK := by
  obtain ⟨P, s, rfl⟩ := h; exact denseConnAt_clearOK S P s

theorem IsNeuronGroup.clearOK {n : Neur (Tens ℝ)} (h : IsNeuronGroup n) : n.ClearOK := by
  obtain ⟨Q, r, rfl⟩ := h; exact neuronGroupAt_clearOK Q r

end InfernoVerif.Layer
