import InfernoVerif.Lemmas.Lifecycle
/-!
Further helper lemmas for C15 (`Props/C15b.lean`), on top of `Lemmas/Lifecycle.lean`.  Core Lean only.

* group lists as a relation (`GE gs key name mid`, `GK gs key`) with the exact effect of `groupsInsert`,
  `groupsErase` and `filter` on it;
* `Same`: the operations that leave trainers, topology and the static monitor fields alone;
* the listing invariant `LInv` (cell names unique, every group keyed by a registered cell name, registered
  cells exist, every monitor listed for a cell was constructed on that cell's layer) and its preservation by
  every operation (`exec_linv`) — behind `listed_cells_registered` and `layer_ok`;
* `post_length_wf`: in a well-formed state the hook list is a permutation of the disjoint union of the pools
  of the trainers that are alive and training — behind `hook_count`;
* the resolution invariant `RInv` (one registration per cell; `cell.monitors[name]` is the entry of that
  registration's group; a reading monitor sits next to what it reads; only `unique` monitors read), its
  preservation by every operation except `del_monitor` and a failing `add_monitor(unique=True)`
  (`step_rinv`), and the bundle `Good` carried along a history — behind `noAbort_of_single_registration`.
-/
namespace InfernoVerif.Lifecycle

/-! ### Group lists as a relation -/

/-- `(name, mid)` is an entry of a group keyed `k` -/
def GE (gs : List (Nat × List (Nat × Nat))) (k name mid : Nat) : Prop :=
  ∃ g, (k, g) ∈ gs ∧ (name, mid) ∈ g

/-- `k` is the key of a group -/
def GK (gs : List (Nat × List (Nat × Nat))) (k : Nat) : Prop := ∃ g, (k, g) ∈ gs

theorem GE.key {gs : List (Nat × List (Nat × Nat))} {k name mid : Nat} (h : GE gs k name mid) : GK gs k :=
  let ⟨g, hg, _⟩ := h; ⟨g, hg⟩

theorem ge_groupsErase {gs : List (Nat × List (Nat × Nat))} {n m k name mid : Nat}
    (h : GE (groupsErase gs n m) k name mid) : GE gs k name mid ∧ ¬ (k = n ∧ name = m) := by
  obtain ⟨g, hg, he⟩ := h
  simp only [groupsErase, List.mem_map] at hg
  obtain ⟨g0, hg0, hgg⟩ := hg
  by_cases hn : (g0.1 == n) = true
  · simp only [hn, if_true, Prod.mk.injEq] at hgg
    obtain ⟨rfl, rfl⟩ := hgg
    rw [List.mem_filter] at he
    refine ⟨⟨g0.2, hg0, he.1⟩, ?_⟩
    rintro ⟨_, rfl⟩; simp at he
  · simp only [hn] at hgg
    subst hgg
    refine ⟨⟨_, hg0, he⟩, ?_⟩
    rintro ⟨rfl, _⟩; simp at hn

theorem ge_groupsErase_of {gs : List (Nat × List (Nat × Nat))} {n m k name mid : Nat}
    (h : GE gs k name mid) (hne : ¬ (k = n ∧ name = m)) : GE (groupsErase gs n m) k name mid := by
  obtain ⟨g, hg, he⟩ := h
  by_cases hn : k = n
  · subst hn
    refine ⟨g.filter (fun e => e.1 != m), ?_, ?_⟩
    · simp only [groupsErase, List.mem_map]
      exact ⟨(k, g), hg, by simp⟩
    · rw [List.mem_filter]; refine ⟨he, ?_⟩
      simp only [bne_iff_ne, ne_eq]; intro hc; exact hne ⟨rfl, hc⟩
  · refine ⟨g, ?_, he⟩
    simp only [groupsErase, List.mem_map]
    refine ⟨(k, g), hg, ?_⟩
    have : (k == n) = false := by simpa using hn
    simp [this]

theorem gk_groupsErase {gs : List (Nat × List (Nat × Nat))} {n m k : Nat} :
    GK (groupsErase gs n m) k ↔ GK gs k := by
  constructor
  · rintro ⟨g, hg⟩
    simp only [groupsErase, List.mem_map] at hg
    obtain ⟨g0, hg0, hgg⟩ := hg
    split at hgg
    · simp only [Prod.mk.injEq] at hgg; obtain ⟨rfl, _⟩ := hgg; exact ⟨g0.2, hg0⟩
    · subst hgg; exact ⟨_, hg0⟩
  · rintro ⟨g, hg⟩
    simp only [groupsErase, GK, List.mem_map]
    by_cases hn : (k == n) = true
    · exact ⟨g.filter (fun e => e.1 != m), (k, g), hg, by simp only [hn, if_true]⟩
    · exact ⟨g, (k, g), hg, by simp only [hn]; rfl⟩

theorem ge_filter {gs : List (Nat × List (Nat × Nat))} {p : Nat × List (Nat × Nat) → Bool} {k name mid : Nat}
    (h : GE (gs.filter p) k name mid) : GE gs k name mid := by
  obtain ⟨g, hg, he⟩ := h
  exact ⟨g, (List.mem_filter.mp hg).1, he⟩

theorem gk_filter {gs : List (Nat × List (Nat × Nat))} {p : Nat × List (Nat × Nat) → Bool} {k : Nat}
    (h : GK (gs.filter p) k) : GK gs k := by
  obtain ⟨g, hg⟩ := h
  exact ⟨g, (List.mem_filter.mp hg).1⟩

theorem gk_filter_key_ne {gs : List (Nat × List (Nat × Nat))} {n k : Nat}
    (h : GK (gs.filter (fun g' => g'.1 != n)) k) : GK gs k ∧ k ≠ n := by
  obtain ⟨g, hg⟩ := h
  rw [List.mem_filter] at hg
  exact ⟨⟨g, hg.1⟩, by simpa using hg.2⟩

theorem ge_filter_of {gs : List (Nat × List (Nat × Nat))} {p : Nat × List (Nat × Nat) → Bool} {k name mid : Nat}
    (h : GE gs k name mid) (hp : ∀ g, (name, mid) ∈ g → p (k, g) = true) : GE (gs.filter p) k name mid := by
  obtain ⟨g, hg, he⟩ := h
  exact ⟨g, List.mem_filter.mpr ⟨hg, hp g he⟩, he⟩

/-- entries after `monitors_[n][m] = mid`: the new one, or an old one under another (key, name) -/
theorem ge_groupsInsert {gs : List (Nat × List (Nat × Nat))} {n m mid k name x : Nat}
    (h : GE (groupsInsert gs n m mid) k name x) :
    (k = n ∧ name = m ∧ x = mid) ∨ (GE gs k name x ∧ ¬ (k = n ∧ name = m)) := by
  obtain ⟨g, hg, he⟩ := h
  unfold groupsInsert at hg
  split at hg
  · simp only [List.mem_map] at hg
    obtain ⟨g0, hg0, hgg⟩ := hg
    by_cases hn : (g0.1 == n) = true
    · simp only [hn, if_true, Prod.mk.injEq] at hgg
      obtain ⟨rfl, rfl⟩ := hgg
      have hn' : g0.1 = n := by simpa using hn
      split at he
      · simp only [List.mem_map] at he
        obtain ⟨e0, he0, hee⟩ := he
        by_cases hm : (e0.1 == m) = true
        · simp only [hm, if_true, Prod.mk.injEq] at hee
          left; exact ⟨hn', hee.1.symm, hee.2.symm⟩
        · simp only [hm] at hee
          subst hee
          right; exact ⟨⟨g0.2, hg0, he0⟩, fun hc => hm (by simp [hc.2])⟩
      · rename_i hany
        rcases List.mem_append.mp he with h | h
        · right; refine ⟨⟨g0.2, hg0, h⟩, ?_⟩
          rintro ⟨_, rfl⟩
          apply hany; rw [List.any_eq_true]; exact ⟨_, h, by simp⟩
        · simp only [List.mem_singleton, Prod.mk.injEq] at h
          left; exact ⟨hn', h.1, h.2⟩
    · simp only [hn] at hgg
      subst hgg
      right; exact ⟨⟨_, hg0, he⟩, fun hc => hn (by simp [hc.1])⟩
  · rename_i hany
    rcases List.mem_append.mp hg with h | h
    · right; refine ⟨⟨g, h, he⟩, ?_⟩
      rintro ⟨rfl, _⟩
      apply hany; rw [List.any_eq_true]; exact ⟨_, h, by simp⟩
    · simp only [List.mem_singleton, Prod.mk.injEq] at h
      obtain ⟨rfl, rfl⟩ := h
      simp only [List.mem_singleton, Prod.mk.injEq] at he
      left; exact ⟨rfl, he.1, he.2⟩

theorem gk_groupsInsert {gs : List (Nat × List (Nat × Nat))} {n m mid k : Nat}
    (h : GK (groupsInsert gs n m mid) k) : k = n ∨ GK gs k := by
  obtain ⟨g, hg⟩ := h
  unfold groupsInsert at hg
  split at hg
  · simp only [List.mem_map] at hg
    obtain ⟨g0, hg0, hgg⟩ := hg
    split at hgg
    · simp only [Prod.mk.injEq] at hgg; right; obtain ⟨rfl, _⟩ := hgg; exact ⟨g0.2, hg0⟩
    · subst hgg; right; exact ⟨_, hg0⟩
  · rcases List.mem_append.mp hg with h | h
    · right; exact ⟨g, h⟩
    · simp only [List.mem_singleton, Prod.mk.injEq] at h; left; exact h.1


/-! ### `lookup` and membership -/

theorem lookup_none_not_mem {β : Type} {l : List (Nat × β)} {k : Nat} (h : lookup l k = none) (v : β) :
    (k, v) ∉ l := by
  intro hc; have := lookup_isSome_of_mem hc; rw [h] at this; cases this

theorem not_gk_of_lookup_none {gs : List (Nat × List (Nat × Nat))} {n : Nat} (h : lookup gs n = none) :
    ¬ GK gs n := fun ⟨g, hg⟩ => lookup_none_not_mem h g hg

theorem cellLayer_congr {s s' : State} (h : s'.topo = s.topo) (c : Nat) : cellLayer s' c = cellLayer s c := by
  unfold cellLayer; rw [h]

/-! ### Monitor fields no operation but construction writes -/

def MStatic (m m' : Monitor) : Prop :=
  m'.owner = m.owner ∧ m'.prepend = m.prepend ∧ m'.path = m.path ∧ m'.tags = m.tags ∧ m'.reads = m.reads ∧
  m'.cell = m.cell ∧ m'.layer = m.layer

theorem MStatic.refl (m : Monitor) : MStatic m m := ⟨rfl, rfl, rfl, rfl, rfl, rfl, rfl⟩

theorem MStatic.trans {a b c : Monitor} (h1 : MStatic a b) (h2 : MStatic b c) : MStatic a c := by
  obtain ⟨a1, a2, a3, a4, a5, a6, a7⟩ := h1
  obtain ⟨b1, b2, b3, b4, b5, b6, b7⟩ := h2
  exact ⟨b1.trans a1, b2.trans a2, b3.trans a3, b4.trans a4, b5.trans a5, b6.trans a6, b7.trans a7⟩

theorem SameButHandle.mstatic {m m' : Monitor} (h : SameButHandle m m') : MStatic m m' := by
  unfold SameButHandle at h; rw [h]; exact ⟨rfl, rfl, rfl, rfl, rfl, rfl, rfl⟩

/-- the trainers, the topology, the repair switch and the static monitor fields are unchanged -/
structure Same (s s' : State) : Prop where
  topo : s'.topo = s.topo
  filter : s'.layerFilter = s.layerFilter
  trainers : s'.trainers = s.trainers
  nMons : s'.nMons = s.nMons
  mons : ∀ i, MStatic (s.mons i) (s'.mons i)

theorem Same.refl (s : State) : Same s s := ⟨rfl, rfl, rfl, rfl, fun _ => MStatic.refl _⟩

theorem Same.trans {a b c : State} (h1 : Same a b) (h2 : Same b c) : Same a c :=
  ⟨h2.topo.trans h1.topo, h2.filter.trans h1.filter, h2.trainers.trans h1.trainers, h2.nMons.trans h1.nMons,
   fun i => (h1.mons i).trans (h2.mons i)⟩

theorem same_deregisterMon (s : State) (mid : Nat) : Same s (deregisterMon s mid) := by
  refine ⟨rfl, rfl, rfl, rfl, fun i => ?_⟩
  rw [deregisterMon_mons]; split
  · rename_i h; subst h; exact ⟨rfl, rfl, rfl, rfl, rfl, rfl, rfl⟩
  · exact MStatic.refl _

theorem same_registerMon (s : State) (mid : Nat) : Same s (registerMon s mid) := by
  refine ⟨by simp, (static_registerMon s mid).filter, by simp, by simp, fun i => ?_⟩
  rw [registerMon_mons]; split
  · rename_i h; rw [h.1]; exact ⟨rfl, rfl, rfl, rfl, rfl, rfl, rfl⟩
  · exact MStatic.refl _

theorem same_writeCellMon (s : State) (cell mname mid : Nat) : Same s (writeCellMon s cell mname mid) :=
  ⟨rfl, rfl, rfl, rfl, fun _ => MStatic.refl _⟩

theorem same_deregIfEval (s : State) (t mid : Nat) : Same s (deregIfEval s t mid) := by
  unfold deregIfEval; split
  · exact Same.refl _
  · exact same_deregisterMon _ _

theorem same_deregIfUnaliased (s : State) (t mid : Nat) : Same s (deregIfUnaliased s t mid) := by
  unfold deregIfUnaliased; split
  · exact Same.refl _
  · exact same_deregisterMon _ _

theorem same_deregisterUnshared (shared : List Nat) (g : List (Nat × Nat)) (s : State) :
    Same s (deregisterUnshared s shared g) := by
  induction g generalizing s with
  | nil => exact Same.refl _
  | cons e rest ih =>
    rw [deregisterUnshared_cons]; split
    · exact ih _
    · exact (same_deregisterMon _ _).trans (ih _)

theorem same_setAll (mode : Bool) (l : List Nat) (s : State) : Same s (setAll s mode l) := by
  induction l generalizing s with
  | nil => exact Same.refl _
  | cons x rest ih =>
    rw [setAll_cons]; split
    · exact (same_registerMon _ _).trans (ih _)
    · exact (same_deregisterMon _ _).trans (ih _)

theorem same_gc (s : State) : Same s (gc s) := by
  refine ⟨rfl, rfl, rfl, rfl, fun i => ?_⟩
  simp only [gc]; split
  · exact MStatic.refl _
  · exact ⟨rfl, rfl, rfl, rfl, rfl, rfl, rfl⟩

theorem same_ghostStep (s : State) (l : Nat) : Same s (ghostStep s l) := by
  refine ⟨rfl, rfl, rfl, rfl, fun i => ?_⟩
  simp only [ghostStep]; split
  · exact ⟨rfl, rfl, rfl, rfl, rfl, rfl, rfl⟩
  · exact MStatic.refl _

theorem same_countStep (s : State) (ran : List (Nat × Nat)) : Same s (countStep s ran) := by
  refine ⟨rfl, rfl, rfl, rfl, fun i => ?_⟩
  simp only [countStep]; split
  · exact ⟨rfl, rfl, rfl, rfl, rfl, rfl, rfl⟩
  · exact MStatic.refl _

theorem same_clearMons (s : State) (t : Nat) : Same s (clearMons s t) := by
  refine ⟨rfl, rfl, rfl, rfl, fun i => ?_⟩
  simp only [clearMons]; split
  · exact ⟨rfl, rfl, rfl, rfl, rfl, rfl, rfl⟩
  · exact MStatic.refl _

/-! ### The listing invariant: cell names are unique, every group belongs to a registered cell name,
every monitor listed for a cell was constructed on that cell's layer -/

def CellsFun (T : Trainer) : Prop := ∀ n c c', (n, c) ∈ T.cells → (n, c') ∈ T.cells → c = c'

def KeysOK (T : Trainer) : Prop := ∀ k, GK T.groups k → ∃ c, (k, c) ∈ T.cells

def TLayer (s : State) (T : Trainer) : Prop :=
  ∀ n c name mid, (n, c) ∈ T.cells → GE T.groups n name mid → (s.mons mid).layer = cellLayer s c

structure TInv (s : State) (T : Trainer) : Prop where
  cf : CellsFun T
  keys : KeysOK T
  range : ∀ n c, (n, c) ∈ T.cells → c < s.topo.length
  layer : s.layerFilter = true → T.alive = true → TLayer s T

def LInv (s : State) : Prop := ∀ t, TInv s (s.trainers t)

theorem ge_mem_pool {T : Trainer} {k name mid : Nat} (h : GE T.groups k name mid) : mid ∈ poolMids T := by
  obtain ⟨g, hg, he⟩ := h
  exact mem_gMids.mpr ⟨(k, g), hg, (name, mid), he, rfl⟩

theorem tinv_congr {s s' : State} {T : Trainer} (h : TInv s T) (htopo : s'.topo = s.topo)
    (hf : s'.layerFilter = s.layerFilter)
    (hl : T.alive = true → ∀ mid ∈ poolMids T, (s'.mons mid).layer = (s.mons mid).layer) : TInv s' T := by
  refine ⟨h.cf, h.keys, by rw [htopo]; exact h.range, ?_⟩
  intro hf' hal n c name mid hc hge
  rw [hl hal mid (ge_mem_pool hge), cellLayer_congr htopo]
  exact h.layer (hf ▸ hf') hal n c name mid hc hge

theorem linv_same {s s' : State} (h : LInv s) (hs : Same s s') : LInv s' := by
  intro t
  rw [hs.trainers]
  exact tinv_congr (h t) hs.topo hs.filter (fun _ mid _ => (hs.mons mid).2.2.2.2.2.2)

theorem linv_setTrainer {s : State} (h : LInv s) (t : Nat) (T : Trainer) (hT : TInv s T) :
    LInv (setTrainer s t T) := by
  intro t'
  rw [setTrainer_trainers]
  split
  · exact ⟨hT.cf, hT.keys, hT.range, hT.layer⟩
  · exact ⟨(h t').cf, (h t').keys, (h t').range, (h t').layer⟩

/-- groups shrink, cells stay -/
theorem tinv_groups_sub {s : State} {T T' : Trainer} (h : TInv s T) (hc : T'.cells = T.cells)
    (ha : T'.alive = T.alive) (hge : ∀ k name mid, GE T'.groups k name mid → GE T.groups k name mid)
    (hgk : ∀ k, GK T'.groups k → GK T.groups k) : TInv s T' := by
  refine ⟨?_, ?_, ?_, ?_⟩
  · intro n c c'; rw [hc]; exact h.cf n c c'
  · intro k hk; rw [hc]; exact h.keys k (hgk k hk)
  · intro n c; rw [hc]; exact h.range n c
  · intro hf hal n c name mid hcm hg
    rw [hc] at hcm
    exact h.layer hf (ha ▸ hal) n c name mid hcm (hge _ _ _ hg)

theorem tinv_groupsErase {s : State} {T : Trainer} (h : TInv s T) (n m : Nat) :
    TInv s { T with groups := groupsErase T.groups n m } :=
  tinv_groups_sub h rfl rfl (fun _ _ _ hg => (ge_groupsErase hg).1) (fun _ hk => gk_groupsErase.mp hk)

theorem tinv_groupsFilter {s : State} {T : Trainer} (h : TInv s T) (p : Nat × List (Nat × Nat) → Bool) :
    TInv s { T with groups := T.groups.filter p } :=
  tinv_groups_sub h rfl rfl (fun _ _ _ hg => ge_filter hg) (fun _ hk => gk_filter hk)

theorem tinv_training {s : State} {T : Trainer} (h : TInv s T) (b : Bool) :
    TInv s { T with training := b } := ⟨h.cf, h.keys, h.range, h.layer⟩

theorem tinv_dead {s : State} {T : Trainer} (h : TInv s T) : TInv s { T with alive := false } :=
  ⟨h.cf, h.keys, h.range, fun _ hal => by cases hal⟩

/-- `del self.cells_[n]` once no group is keyed `n` -/
theorem tinv_dropCell {s : State} {T : Trainer} (h : TInv s T) (n : Nat) (hn : ¬ GK T.groups n) :
    TInv s { T with cells := T.cells.filter (fun e => e.1 != n) } := by
  refine ⟨?_, ?_, ?_, ?_⟩
  · intro k c c' h1 h2
    exact h.cf k c c' (List.mem_filter.mp h1).1 (List.mem_filter.mp h2).1
  · intro k hk
    obtain ⟨c, hc⟩ := h.keys k hk
    refine ⟨c, List.mem_filter.mpr ⟨hc, ?_⟩⟩
    simp only [bne_iff_ne, ne_eq]
    intro hkn; subst hkn; exact hn hk
  · intro k c hc; exact h.range k c (List.mem_filter.mp hc).1
  · intro hf hal k c name mid hc hg
    exact h.layer hf hal k c name mid (List.mem_filter.mp hc).1 hg

/-- `self.cells_[n] = c` for a new name `n` that keys no group -/
theorem tinv_addCell {s : State} {T : Trainer} (h : TInv s T) (n c : Nat) (hnew : lookup T.cells n = none)
    (hn : ¬ GK T.groups n) (hr : c < s.topo.length) : TInv s { T with cells := T.cells ++ [(n, c)] } := by
  refine ⟨?_, ?_, ?_, ?_⟩
  · intro k c1 c2 h1 h2
    simp only [List.mem_append, List.mem_singleton, Prod.mk.injEq] at h1 h2
    rcases h1 with h1 | ⟨rfl, rfl⟩ <;> rcases h2 with h2 | ⟨h2k, h2c⟩
    · exact h.cf k c1 c2 h1 h2
    · subst h2k; exact absurd h1 (lookup_none_not_mem hnew c1)
    · exact absurd h2 (lookup_none_not_mem hnew c2)
    · exact h2c.symm
  · intro k hk
    obtain ⟨c', hc'⟩ := h.keys k hk
    exact ⟨c', List.mem_append_left _ hc'⟩
  · intro k c' hc
    simp only [List.mem_append, List.mem_singleton, Prod.mk.injEq] at hc
    rcases hc with hc | ⟨_, rfl⟩
    · exact h.range k c' hc
    · exact hr
  · intro hf hal k c' name mid hc hg
    simp only [List.mem_append, List.mem_singleton, Prod.mk.injEq] at hc
    rcases hc with hc | ⟨rfl, rfl⟩
    · exact h.layer hf hal k c' name mid hc hg
    · exact absurd hg.key hn

/-- `monitors_[n][mname] = mid` for a monitor constructed on the layer of the cell named `n` -/
theorem tinv_groupsInsert {s : State} {T : Trainer} (h : TInv s T) (n mname mid cell : Nat)
    (hc : (n, cell) ∈ T.cells) (hl : s.layerFilter = true → (s.mons mid).layer = cellLayer s cell) :
    TInv s { T with groups := groupsInsert T.groups n mname mid } := by
  refine ⟨h.cf, ?_, h.range, ?_⟩
  · intro k hk
    rcases gk_groupsInsert hk with rfl | hk'
    · exact ⟨cell, hc⟩
    · exact h.keys k hk'
  · intro hf hal k c name x hkc hg
    rcases ge_groupsInsert hg with ⟨rfl, _, rfl⟩ | ⟨hg', _⟩
    · rw [h.cf _ _ _ hkc hc]; exact hl hf
    · exact h.layer hf hal k c name x hkc hg'

/-! ### Every operation preserves the listing invariant -/

theorem eraseExisting_linv {s : State} (h : LInv s) (t n mname : Nat) : LInv (eraseExisting s t n mname) := by
  unfold eraseExisting; simp only; split
  · exact linv_setTrainer h t _ (tinv_groupsErase (h t) n mname)
  · exact h

theorem newMonitor_linv {s : State} (w : WFc s) (h : LInv s) (t : Nat) (pp : Bool) (path : Path)
    (tags : Option Nat) (reads : List Nat) (cell : Nat) : LInv (newMonitor s t pp path tags reads cell).1 := by
  intro t'
  rw [newMonitor_trainers]
  apply tinv_congr (h t') (by simp) (static_newMonitor ..).filter
  intro hal mid hmid
  have : mid < s.nMons := w.h.alive_lt mid (w.pool t' hal mid hmid).1
  rw [newMonitor_mons]
  have hne : mid ≠ s.nMons := by omega
  simp [hne]

theorem obtainMonitor_linv {s : State} (w : WFc s) (h : LInv s) (t cell mname : Nat) (unique prepend : Bool)
    (tags : Nat) (path : Path) (reads : List Nat) (hal : (s.trainers t).alive = true) :
    let r := obtainMonitor s t cell mname unique prepend tags path reads
    LInv r.1 ∧ (s.layerFilter = true → (r.1.mons r.2).layer = cellLayer r.1 cell) := by
  have fresh : ∀ (tg : Option Nat),
      let r := newMonitor s t prepend path tg reads cell
      LInv r.1 ∧ (s.layerFilter = true → (r.1.mons r.2).layer = cellLayer r.1 cell) := by
    intro tg r
    refine ⟨newMonitor_linv w h _ _ _ _ _ _, fun _ => ?_⟩
    simp only [r, newMonitor_snd, newMonitor_mons, if_true]
    exact (cellLayer_congr (by simp) cell).symm
  intro r
  simp only [r, obtainMonitor]
  cases unique with
  | true => simp only [if_true]; exact fresh none
  | false =>
    simp only [Bool.false_eq_true, if_false]
    cases hfa : findAlias s (s.trainers t) cell mname tags path with
    | none => simp only; exact fresh (some tags)
    | some mid =>
      simp only
      refine ⟨h, fun hf => ?_⟩
      obtain ⟨oname, ocell, hoc, hlay, g, hg, hm⟩ :=
        findAlias_go_same_layer s hf (s.trainers t) cell mname tags path (s.trainers t).cells (fun _ h => h) none
          (by simp) mid hfa
      rw [← hlay]
      exact (h t).layer hf hal oname ocell mname mid hoc ⟨g, lookup_mem hg, lookup_mem hm⟩

theorem addMonitorTail_linv {s : State} (h : LInv s) (t n mname mid cell : Nat)
    (hc : (n, cell) ∈ (s.trainers t).cells)
    (hl : s.layerFilter = true → (s.mons mid).layer = cellLayer s cell) :
    LInv (addMonitorTail s t n mname mid cell) := by
  unfold addMonitorTail poolInsert
  have hs : Same s (deregIfEval (writeCellMon s cell mname mid) t mid) :=
    (same_writeCellMon ..).trans (same_deregIfEval ..)
  generalize deregIfEval (writeCellMon s cell mname mid) t mid = s4 at hs
  have h4 := linv_same h hs
  apply linv_setTrainer h4
  apply tinv_groupsInsert (h4 t) n mname mid cell
  · rw [hs.trainers]; exact hc
  · intro hf
    rw [(hs.mons mid).2.2.2.2.2.2, cellLayer_congr hs.topo]
    exact hl (hs.filter ▸ hf)

theorem addMonitor_linv {s : State} (w : WFc s) (h : LInv s) (t n mname : Nat) (sel : AttrSel)
    (unique prepend : Bool) (tags : Nat) (reads : List Nat) (hal : (s.trainers t).alive = true) :
    LInv (addMonitor s t n mname sel unique prepend tags reads).1 := by
  unfold addMonitor
  cases hc : lookup (s.trainers t).cells n with
  | none => exact h
  | some cell =>
    simp only
    split
    · exact h
    · obtain ⟨w1, a1, _, c1, _⟩ := eraseExisting_spec w t n mname hal
      have h1 := eraseExisting_linv h t n mname
      have hf1 : (eraseExisting s t n mname).layerFilter = s.layerFilter := by
        unfold eraseExisting; simp only; split <;> rfl
      generalize eraseExisting s t n mname = s1 at w1 a1 c1 h1 hf1
      cases hr : realign s1 cell sel with
      | error e => exact h1
      | ok path =>
        simp only
        obtain ⟨h2, l2⟩ := obtainMonitor_linv w1 h1 t cell mname unique prepend tags path reads a1
        apply addMonitorTail_linv h2
        · rw [obtainMonitor_trainers, c1]; exact lookup_mem hc
        · intro hf
          apply l2
          have : Static s1 (obtainMonitor s1 t cell mname unique prepend tags path reads).1 := by
            unfold obtainMonitor; split
            · exact static_newMonitor ..
            · split
              · exact Static.refl _
              · exact static_newMonitor ..
          rw [← this.filter]; exact hf

theorem addTemplate_linv (tpl : List (Nat × AttrSel × Bool × Bool × Nat × List Nat)) (t n : Nat) (s : State)
    (w : WFc s) (h : LInv s) (hal : (s.trainers t).alive = true) : LInv (addTemplate s t n tpl) := by
  induction tpl generalizing s with
  | nil => exact h
  | cons e rest ih =>
    obtain ⟨w', a'⟩ := addMonitor_wfc w t n e.1 e.2.1 e.2.2.1 e.2.2.2.1 e.2.2.2.2.1 e.2.2.2.2.2 hal
    exact ih _ w' (addMonitor_linv w h t n e.1 e.2.1 e.2.2.1 e.2.2.2.1 e.2.2.2.2.1 e.2.2.2.2.2 hal) a'

/-- `del_observed` keeps the invariant and leaves no group keyed `n` -/
theorem delObserved_linv {s : State} (h : LInv s) (t n : Nat) :
    LInv (delObserved s t n) ∧ ¬ GK ((delObserved s t n).trainers t).groups n := by
  unfold delObserved
  cases hg : lookup (s.trainers t).groups n with
  | none => exact ⟨h, not_gk_of_lookup_none hg⟩
  | some g =>
    simp only
    have hs := same_deregisterUnshared (otherMids (s.trainers t) n) g s
    generalize deregisterUnshared s (otherMids (s.trainers t) n) g = s' at hs
    have h' := linv_same h hs
    unfold dropGroup
    refine ⟨linv_setTrainer h' t _ (tinv_groupsFilter (h' t) _), ?_⟩
    rw [setTrainer_trainers_self]
    intro hk
    exact (gk_filter_key_ne hk).2 rfl

theorem delEntry_linv {s : State} (h : LInv s) (t n mname mid : Nat) : LInv (delEntry s t n mname mid) := by
  unfold delEntry dropEmptyGroup
  have h1 : LInv (eraseEntry s t n mname) := linv_setTrainer h t _ (tinv_groupsErase (h t) n mname)
  have h2 := linv_same h1 (same_deregIfUnaliased (eraseEntry s t n mname) t mid)
  exact linv_setTrainer h2 t _ (tinv_groupsFilter (h2 t) _)

theorem stepCore_linv {s : State} (w : WF s) (h : LInv s) (op : Op) : LInv (stepCore s op).1 := by
  have wc := w.toWFc
  cases op with
  | newTrainer kind =>
    simp only [stepCore]
    have h' : LInv { s with nTrainers := s.nTrainers + 1 } :=
      linv_same h ⟨rfl, rfl, rfl, rfl, fun _ => MStatic.refl _⟩
    apply linv_setTrainer h'
    refine ⟨?_, ?_, ?_, ?_⟩
    · intro n c c' hc; cases hc
    · intro k ⟨g, hg⟩; cases hg
    · intro n c hc; cases hc
    · intro _ _ n c name mid hc; cases hc
  | registerCell t n c v =>
    simp only [stepCore]
    split
    · exact h
    · rename_i hal
      have hal : (s.trainers t).alive = true := by simpa using hal
      split
      · exact h
      · rename_i hrange
        have hrange : c < s.topo.length := by omega
        split
        · exact h
        · rename_i hnew
          have hnew : lookup (s.trainers t).cells n = none := by
            cases hl : lookup (s.trainers t).cells n with
            | none => rfl
            | some x => simp [hl] at hnew
          obtain ⟨w0, a0, _, c0, _⟩ := delObserved_wfc wc t n hal
          obtain ⟨h0, k0⟩ := delObserved_linv h t n
          apply addTemplate_linv
          · unfold addCellEntry
            apply wfc_setTrainer w0 t _ (fun _ => w0.trainer_lt t a0)
            intro _ x hx; exact w0.pool t a0 x hx
          · unfold addCellEntry
            exact linv_setTrainer h0 t _ (tinv_addCell (h0 t) n c (by rw [c0]; exact hnew) k0
              (by rw [(static_delObserved s t n).topo]; exact hrange))
          · simp [addCellEntry, a0]
  | delCell t n =>
    simp only [stepCore]
    split
    · exact h
    · split
      · exact h
      · obtain ⟨h0, k0⟩ := delObserved_linv h t n
        unfold dropCell
        exact linv_setTrainer h0 t _ (tinv_dropCell (h0 t) n k0)
  | addMonitor t n mname sel unique prepend tags =>
    simp only [stepCore]
    split
    · exact h
    · rename_i hal
      have hal : (s.trainers t).alive = true := by simpa using hal
      exact addMonitor_linv wc h t n mname sel unique prepend tags [] hal
  | delMonitor t n mname =>
    simp only [stepCore]
    split
    · exact h
    · split
      · exact h
      · split
        · exact h
        · split
          · exact h
          · exact delEntry_linv h _ _ _ _
  | trainerTrain t mode =>
    simp only [stepCore]
    split
    · exact h
    · exact linv_same (linv_setTrainer h t _ (tinv_training (h t) mode)) (same_setAll ..)
  | layerTrain l mode => exact linv_same h ⟨rfl, rfl, rfl, rfl, fun _ => MStatic.refl _⟩
  | layerStep l =>
    simp only [stepCore]
    split
    · exact linv_same h (same_ghostStep s l)
    · exact linv_same h ((same_ghostStep s l).trans (same_countStep ..))
  | trainerStep t =>
    simp only [stepCore]
    split
    · exact h
    · split <;> exact h
  | clear t =>
    simp only [stepCore]
    split
    · exact h
    · exact linv_same h (same_clearMons s t)
  | collect t =>
    simp only [stepCore]
    split
    · exact h
    · exact linv_setTrainer h t _ (tinv_dead (h t))

theorem step_linv {s : State} (w : WF s) (h : LInv s) (op : Op) : LInv (step s op).1 :=
  linv_same (stepCore_linv w h op) (same_gc _)

theorem init_linv (topo : List (Nat × Nat × Nat)) (f : Bool) : LInv (init topo f) := by
  intro t
  refine ⟨?_, ?_, ?_, ?_⟩
  · intro n c c' hc; cases hc
  · intro k ⟨g, hg⟩; cases hg
  · intro n c hc; cases hc
  · intro _ hal; cases hal

theorem exec_linv (topo : List (Nat × Nat × Nat)) (ops : List Op) (f : Bool) : LInv (exec (init topo f) ops) := by
  have : ∀ (s : State), WF s → LInv s → LInv (exec s ops) := by
    induction ops with
    | nil => intro s _ h; exact h
    | cons op ops ih => intro s w h; exact ih _ (step_wf w op) (step_linv w h op)
  exact this _ (init_wf topo f) (init_linv topo f)

/-! ### Counting the hooks -/

theorem nodup_eraseDups' (l : List Nat) : l.eraseDups.Nodup := by
  have : ∀ n (l : List Nat), l.length ≤ n → l.eraseDups.Nodup := by
    intro n
    induction n with
    | zero => intro l hl; have : l = [] := List.eq_nil_of_length_eq_zero (by omega); subst this; simp
    | succ n ih =>
      intro l hl
      cases l with
      | nil => simp
      | cons a as =>
        rw [List.eraseDups_cons, List.nodup_cons]
        refine ⟨?_, ih _ (by have := List.length_filter_le (fun b => !b == a) as; simp at hl; omega)⟩
        rw [List.mem_eraseDups, List.mem_filter]
        simp
  exact this l.length l (Nat.le_refl _)

/-- the trainers whose monitors are registered: alive and in training mode -/
def activeTrainers (s : State) : List Nat :=
  (List.range s.nTrainers).filter (fun t => (s.trainers t).alive && (s.trainers t).training)

/-- the monitors of all active trainers, trainer by trainer -/
def activeMids (s : State) : List Nat := (activeTrainers s).flatMap (fun t => distinctMids (s.trainers t))

theorem mem_activeTrainers {s : State} (w : WF s) {t : Nat} :
    t ∈ activeTrainers s ↔ (s.trainers t).alive = true ∧ (s.trainers t).training = true := by
  unfold activeTrainers
  rw [List.mem_filter, List.mem_range, Bool.and_eq_true]
  constructor
  · exact fun h => h.2
  · exact fun h => ⟨w.trainer_lt t h.1, h⟩

theorem nodup_activeMids {s : State} (w : WF s) : (activeMids s).Nodup := by
  unfold activeMids List.Nodup
  rw [List.pairwise_flatMap]
  refine ⟨fun t _ => nodup_eraseDups' _, ?_⟩
  have hnd : (activeTrainers s).Nodup := List.Pairwise.filter _ List.nodup_range
  refine List.Pairwise.imp_of_mem ?_ hnd
  intro a b ha hb hab x hx y hy hxy
  subst hxy
  unfold distinctMids at hx hy
  rw [List.mem_eraseDups] at hx hy
  have h1 := (w.pool a ((mem_activeTrainers w).mp ha).1 x hx).2.1
  have h2 := (w.pool b ((mem_activeTrainers w).mp hb).1 x hy).2.1
  exact hab (h1.symm.trans h2)

theorem nodup_post_mids {s : State} (w : WF s) : (s.post.map (·.2)).Nodup := by
  unfold List.Nodup
  rw [List.pairwise_map]
  refine List.Pairwise.imp_of_mem ?_ w.h.post_nodup
  intro a b ha hb hab hc
  have h1 := (w.h.post_ok a ha).2.2
  have h2 := (w.h.post_ok b hb).2.2
  rw [hc, h2] at h1
  exact hab (Option.some.inj h1).symm

theorem mem_post_mids_iff {s : State} (w : WF s) (mid : Nat) :
    mid ∈ s.post.map (·.2) ↔ mid ∈ activeMids s := by
  unfold activeMids
  rw [List.mem_map, List.mem_flatMap]
  constructor
  · rintro ⟨e, he, rfl⟩
    obtain ⟨_, h2, h3⟩ := w.h.post_ok e he
    have hl := w.alive_live e.2 h2
    simp only [live, referenced, h2, Bool.true_and, Bool.and_eq_true, List.contains_iff_mem] at hl
    have hp := w.pool _ hl.1 e.2 hl.2
    refine ⟨(s.mons e.2).owner, (mem_activeTrainers w).mpr ⟨hl.1, ?_⟩, ?_⟩
    · rw [← hp.2.2, h3]; rfl
    · unfold distinctMids; rw [List.mem_eraseDups]; exact hl.2
  · rintro ⟨t, ht, hm⟩
    obtain ⟨ha, htr⟩ := (mem_activeTrainers w).mp ht
    unfold distinctMids at hm; rw [List.mem_eraseDups] at hm
    have hp := w.pool t ha mid hm
    rw [htr] at hp
    cases hh : (s.mons mid).handle with
    | none => rw [hh] at hp; simp at hp
    | some hid => exact ⟨(hid, mid), w.h.handle_mem mid hid hh, rfl⟩

theorem post_length_wf {s : State} (w : WF s) :
    s.post.length = ((activeTrainers s).map (fun t => (distinctMids (s.trainers t)).length)).sum := by
  have hperm : (s.post.map (·.2)).Perm (activeMids s) :=
    (List.perm_ext_iff_of_nodup (nodup_post_mids w) (nodup_activeMids w)).mpr (mem_post_mids_iff w)
  have := hperm.length_eq
  rw [List.length_map] at this
  rw [this, activeMids, List.length_flatMap]

/-! ### No layer step raises: every read of a MultiStateMonitor resolves -/

theorem getCellMon_setCellMon_self (cm : List (Nat × Nat × Nat)) (c m mid : Nat) :
    getCellMon (setCellMon cm c m mid) c m = some mid := by
  simp [getCellMon, setCellMon]

theorem getCellMon_setCellMon_name_ne (cm : List (Nat × Nat × Nat)) (c m mid r : Nat) (h : r ≠ m) :
    getCellMon (setCellMon cm c m mid) c r = getCellMon cm c r := by
  unfold getCellMon setCellMon
  have h1 : ((c == c) && (m == r)) = false := by
    have : (m == r) = false := by simpa using fun hc : m = r => h hc.symm
    simp [this]
  rw [List.find?_cons]
  simp only [h1]
  rw [find?_filter_of_imp]
  intro e he
  simp only [Bool.and_eq_true, beq_iff_eq] at he
  have : (e.2.1 == m) = false := by simpa using fun hc : e.2.1 = m => h (he.2 ▸ hc)
  simp [this]

theorem takeWhile_eq_self_of_all {α : Type} (p : α → Bool) (l : List α) (h : ∀ x ∈ l, p x = true) :
    l.takeWhile p = l := by
  induction l with
  | nil => rfl
  | cons x xs ih =>
    rw [List.takeWhile_cons, h x List.mem_cons_self]
    simp only [if_true]
    rw [ih (fun y hy => h y (List.mem_cons_of_mem _ hy))]

/-- `cell.monitors[name]` of a registered cell is the monitor its group lists under `name` -/
def TSync (s : State) (T : Trainer) : Prop :=
  ∀ n c name mid, (n, c) ∈ T.cells → GE T.groups n name mid → getCellMon s.cellMons c name = some mid

/-- a monitor that reads through `cell.monitors` sits in the group of its own cell, next to every
monitor name it reads -/
def TReads (s : State) (T : Trainer) : Prop :=
  ∀ n name i r, GE T.groups n name i → r ∈ (s.mons i).reads →
    (n, (s.mons i).cell) ∈ T.cells ∧ ∃ src, GE T.groups n r src

/-- a cell is registered at most once (over all live trainers and cell names) -/
def SingleReg (s : State) : Prop :=
  ∀ t t' n n' c, (s.trainers t).alive = true → (s.trainers t').alive = true →
    (n, c) ∈ (s.trainers t).cells → (n', c) ∈ (s.trainers t').cells → t = t' ∧ n = n'

/-- only `unique` monitors read (a reading monitor is never an alias) -/
def ReadsUntagged (s : State) : Prop := ∀ i, (s.mons i).reads ≠ [] → (s.mons i).tags = none

structure RInv (s : State) : Prop where
  single : SingleReg s
  sync : ∀ t, (s.trainers t).alive = true → TSync s (s.trainers t)
  reads : ∀ t, (s.trainers t).alive = true → TReads s (s.trainers t)
  untagged : ReadsUntagged s

theorem ge_of_mem_pool {T : Trainer} {mid : Nat} (h : mid ∈ poolMids T) : ∃ k name, GE T.groups k name mid := by
  rw [poolMids_eq, mem_gMids] at h
  obtain ⟨g, hg, e, he, rfl⟩ := h
  exact ⟨g.1, e.1, g.2, hg, he⟩

theorem not_blocked {s : State} (w : WF s) (h : RInv s) (e : Nat × Nat) (he : e ∈ s.post) :
    blocked s e = false := by
  obtain ⟨_, h2, _⟩ := w.h.post_ok e he
  have hl := w.alive_live e.2 h2
  simp only [live, referenced, h2, Bool.true_and, Bool.and_eq_true, List.contains_iff_mem] at hl
  obtain ⟨k, name, hge⟩ := ge_of_mem_pool hl.2
  unfold blocked
  simp only
  rw [List.any_eq_false]
  intro r hr
  obtain ⟨hc, src, hsrc⟩ := h.reads _ hl.1 k name e.2 r hge hr
  rw [h.sync _ hl.1 k _ r src hc hsrc]
  simp

theorem layerStep_ok {s : State} (w : WF s) (h : RInv s) (l : Nat) : (step s (.layerStep l)).2 = .ok := by
  simp only [step, stepCore]
  split
  · rfl
  · have : ranHooks s l = layerHooks s l := by
      unfold ranHooks
      apply takeWhile_eq_self_of_all
      intro e he
      rw [not_blocked w h e (List.mem_filter.mp he).1]; rfl
    rw [this]; simp

theorem rinv_same {s s' : State} (h : RInv s) (hs : Same s s') (hc : s'.cellMons = s.cellMons) : RInv s' := by
  refine ⟨?_, ?_, ?_, ?_⟩
  · intro t t' n n' c; rw [hs.trainers]; exact h.single t t' n n' c
  · intro t; rw [hs.trainers]; intro hal n c name mid h1 h2; rw [hc]; exact h.sync t hal n c name mid h1 h2
  · intro t; rw [hs.trainers]; intro hal n name i r h1 h2
    obtain ⟨_, _, _, _, e5, e6, _⟩ := hs.mons i
    rw [e5] at h2; rw [e6]
    exact h.reads t hal n name i r h1 h2
  · intro i h1
    obtain ⟨_, _, _, e4, e5, _, _⟩ := hs.mons i
    rw [e5] at h1; rw [e4]; exact h.untagged i h1

theorem rinv_gc {s : State} (w : WFc s) (h : RInv s) : RInv (gc s) := by
  have hs := same_gc s
  refine ⟨?_, ?_, ?_, ?_⟩
  · exact h.single
  · intro t hal n c name mid h1 h2
    have hal' : (s.trainers t).alive = true := hal
    show getCellMon (s.cellMons.filter _) c name = some mid
    apply getCellMon_filter _ _ _ _ _ (h.sync t hal' n c name mid h1 h2)
    intro e _ he
    have hp := w.pool t hal' mid (ge_mem_pool h2)
    simp only [he, live, referenced, hp.1, hp.2.1, hal', Bool.true_and, List.contains_iff_mem]
    exact ge_mem_pool h2
  · intro t hal n name i r h1 h2
    have hal' : (s.trainers t).alive = true := hal
    obtain ⟨_, _, _, _, e5, e6, _⟩ := hs.mons i
    rw [e5] at h2; rw [e6]
    exact h.reads t hal' n name i r h1 h2
  · intro i h1
    obtain ⟨_, _, _, e4, e5, _, _⟩ := hs.mons i
    rw [e5] at h1; rw [e4]; exact h.untagged i h1

/-- replacing trainer `t` by `T` -/
theorem rinv_setTrainer {s : State} (h : RInv s) (t : Nat) (T : Trainer)
    (hsingle : T.alive = true → ∀ n c, (n, c) ∈ T.cells →
      (∀ n', (n', c) ∈ T.cells → n' = n) ∧
      ∀ t', t' ≠ t → (s.trainers t').alive = true → ∀ n', (n', c) ∉ (s.trainers t').cells)
    (hs : T.alive = true → TSync s T) (hr : T.alive = true → TReads s T) : RInv (setTrainer s t T) := by
  refine ⟨?_, ?_, ?_, h.untagged⟩
  · intro a b n n' c hal hal' h1 h2
    simp only [setTrainer_trainers] at hal hal' h1 h2
    by_cases ha : a = t <;> by_cases hb : b = t
    · subst ha; subst hb
      simp only [if_true] at hal h1 h2
      exact ⟨rfl, ((hsingle hal n c h1).1 n' h2).symm⟩
    · subst ha
      simp only [if_true, hb, if_false] at hal hal' h1 h2
      exact absurd h2 ((hsingle hal n c h1).2 b hb hal' n')
    · subst hb
      simp only [if_true, ha, if_false] at hal hal' h1 h2
      exact absurd h1 ((hsingle hal' n' c h2).2 a ha hal n)
    · simp only [ha, hb, if_false] at hal hal' h1 h2
      exact h.single a b n n' c hal hal' h1 h2
  · intro a
    simp only [setTrainer_trainers]
    split
    · exact hs
    · exact h.sync a
  · intro a
    simp only [setTrainer_trainers]
    split
    · exact hr
    · exact h.reads a

/-- replacing trainer `t` (alive) by one with fewer cells -/
theorem rinv_setTrainer_sub {s : State} (h : RInv s) (t : Nat) (T : Trainer)
    (ha : T.alive = true → (s.trainers t).alive = true) (hc : ∀ e ∈ T.cells, e ∈ (s.trainers t).cells)
    (hs : T.alive = true → TSync s T) (hr : T.alive = true → TReads s T) : RInv (setTrainer s t T) := by
  apply rinv_setTrainer h t T _ hs hr
  intro hal n c hnc
  refine ⟨fun n' hn' => ?_, fun t' ht' hal' n' hn' => ?_⟩
  · exact ((h.single t t n n' c (ha hal) (ha hal) (hc _ hnc) (hc _ hn')).2).symm
  · exact ht' ((h.single t t' n n' c (ha hal) hal' (hc _ hnc) hn').1).symm

theorem ge_groupsInsert_self (gs : List (Nat × List (Nat × Nat))) (n m mid : Nat) :
    GE (groupsInsert gs n m mid) n m mid := by
  unfold groupsInsert
  split
  · rename_i h
    rw [List.any_eq_true] at h
    obtain ⟨⟨k, g⟩, hg0, hn⟩ := h
    have hn' : k = n := by simpa using hn
    subst hn'
    by_cases h2 : g.any (fun e => e.1 == m) = true
    · refine ⟨g.map (fun e => if e.1 == m then (m, mid) else e), ?_, ?_⟩
      · rw [List.mem_map]; exact ⟨(k, g), hg0, by simp only [beq_self_eq_true, if_true, h2]⟩
      · rw [List.any_eq_true] at h2
        obtain ⟨e0, he0, hm⟩ := h2
        rw [List.mem_map]; exact ⟨e0, he0, by simp only [hm, if_true]⟩
    · refine ⟨g ++ [(m, mid)], ?_, by simp⟩
      rw [List.mem_map]; exact ⟨(k, g), hg0, by simp only [beq_self_eq_true, if_true, h2]; rfl⟩
  · exact ⟨[(m, mid)], by simp, by simp⟩

theorem findAlias_go_tags (s : State) (T : Trainer) (cell mname tags : Nat) (path : Path)
    (obs : List (Nat × Nat)) (found : Option Nat) (hf : ∀ x, found = some x → (s.mons x).tags = some tags)
    (mid : Nat) (h : findAlias.go s T cell mname tags path obs found = some mid) :
    (s.mons mid).tags = some tags := by
  induction obs generalizing found with
  | nil => exact hf mid (by simpa [findAlias.go] using h)
  | cons o rest ih =>
    obtain ⟨oname, ocell⟩ := o
    simp only [findAlias.go] at h
    split at h
    · exact ih found hf h
    cases hg : lookup T.groups oname with
    | none => simp only [hg] at h; exact ih found hf h
    | some g =>
      simp only [hg] at h
      cases hm : lookup g mname with
      | none => simp only [hm] at h; exact ih found hf h
      | some m0 =>
        simp only [hm] at h
        split at h
        · rename_i htp
          split at h
          · cases h; exact htp.1
          · exact ih (some m0) (by intro x hx; cases hx; exact htp.1) h
        · exact ih found hf h

theorem ge_groupsInsert_of {gs : List (Nat × List (Nat × Nat))} {n m mid k name x : Nat}
    (h : GE gs k name x) (hne : ¬ (k = n ∧ name = m)) : GE (groupsInsert gs n m mid) k name x := by
  obtain ⟨g, hg, he⟩ := h
  unfold groupsInsert
  split
  · by_cases hk : k = n
    · subst hk
      have hnm : name ≠ m := fun hc => hne ⟨rfl, hc⟩
      have hnm' : (name == m) = false := by simpa using hnm
      by_cases h2 : g.any (fun e => e.1 == m) = true
      · refine ⟨g.map (fun e => if e.1 == m then (m, mid) else e), ?_, ?_⟩
        · rw [List.mem_map]; exact ⟨(k, g), hg, by simp only [beq_self_eq_true, if_true, h2]⟩
        · rw [List.mem_map]; exact ⟨(name, x), he, by simp only [hnm']; rfl⟩
      · refine ⟨g ++ [(m, mid)], ?_, List.mem_append_left _ he⟩
        rw [List.mem_map]; exact ⟨(k, g), hg, by simp only [beq_self_eq_true, if_true, h2]; rfl⟩
    · refine ⟨g, ?_, he⟩
      have hk' : (k == n) = false := by simpa using hk
      rw [List.mem_map]; exact ⟨(k, g), hg, by simp only [hk']; rfl⟩
  · exact ⟨g, List.mem_append_left _ hg, he⟩

theorem ge_groupsInsert_iff (gs : List (Nat × List (Nat × Nat))) (n m mid k name x : Nat) :
    GE (groupsInsert gs n m mid) k name x ↔
      (k = n ∧ name = m ∧ x = mid) ∨ (GE gs k name x ∧ ¬ (k = n ∧ name = m)) := by
  constructor
  · exact ge_groupsInsert
  · rintro (⟨rfl, rfl, rfl⟩ | ⟨h, hne⟩)
    · exact ge_groupsInsert_self _ _ _ _
    · exact ge_groupsInsert_of h hne

theorem realign_ok (s : State) (cell : Nat) (sel : AttrSel) (hsel : sel ≠ .bad) (hr : cell < s.topo.length) :
    ∃ path, realign s cell sel = .ok path := by
  have hget : ∃ cn, s.topo[cell]? = some cn := ⟨s.topo[cell], List.getElem?_eq_getElem hr⟩
  obtain ⟨cn, hcn⟩ := hget
  cases sel with
  | neuron k => exact ⟨.neuron cn.2.2 k, by simp only [realign, hcn]⟩
  | conn k => exact ⟨.conn cn.2.1 k, by simp only [realign, hcn]⟩
  | cellmons => exact ⟨.cellmons cell, by simp only [realign, hr, if_true]⟩
  | bad => exact absurd rfl hsel

/-- what a successful `add_monitor` of `(t, n, mname)` for cell `cell`, yielding monitor `mid`, does -/
structure AddSpec (s s' : State) (t n mname cell mid : Nat) : Prop where
  others : ∀ t', t' ≠ t → s'.trainers t' = s.trainers t'
  cells : (s'.trainers t).cells = (s.trainers t).cells
  alive : (s'.trainers t).alive = (s.trainers t).alive
  ge : ∀ k name x, GE (s'.trainers t).groups k name x ↔
        (k = n ∧ name = mname ∧ x = mid) ∨ (GE (s.trainers t).groups k name x ∧ ¬ (k = n ∧ name = mname))
  cellMons : s'.cellMons = setCellMon s.cellMons cell mname mid
  mons : ∀ i, i ≠ mid → MStatic (s.mons i) (s'.mons i)

theorem eraseExisting_ge (s : State) (t n mname k name x : Nat) (hne : ¬ (k = n ∧ name = mname)) :
    GE ((eraseExisting s t n mname).trainers t).groups k name x ↔ GE (s.trainers t).groups k name x := by
  unfold eraseExisting; simp only; split
  · rw [setTrainer_trainers_self]
    exact ⟨fun h => (ge_groupsErase h).1, fun h => ge_groupsErase_of h hne⟩
  · exact Iff.rfl

theorem eraseExisting_others (s : State) (t n mname t' : Nat) (h : t' ≠ t) :
    (eraseExisting s t n mname).trainers t' = s.trainers t' := by
  unfold eraseExisting; simp only; split
  · rw [setTrainer_trainers]; simp [h]
  · rfl

theorem eraseExisting_nMons (s : State) (t n mname : Nat) : (eraseExisting s t n mname).nMons = s.nMons := by
  unfold eraseExisting; simp only; split <;> rfl

theorem addMonitorTail_spec (s : State) (t n mname mid cell : Nat) :
    AddSpec s (addMonitorTail s t n mname mid cell) t n mname cell mid := by
  have hs : Same s (deregIfEval (writeCellMon s cell mname mid) t mid) :=
    (same_writeCellMon ..).trans (same_deregIfEval ..)
  have hcm : (deregIfEval (writeCellMon s cell mname mid) t mid).cellMons = setCellMon s.cellMons cell mname mid := by
    rw [deregIfEval_cellMons]; rfl
  unfold addMonitorTail poolInsert
  generalize deregIfEval (writeCellMon s cell mname mid) t mid = s4 at hs hcm
  refine ⟨?_, ?_, ?_, ?_, hcm, fun i _ => hs.mons i⟩
  · intro t' h; rw [setTrainer_trainers]; simp only [h, if_false]; rw [hs.trainers]
  · rw [setTrainer_trainers_self, hs.trainers]
  · rw [setTrainer_trainers_self, hs.trainers]
  · intro k name x
    rw [setTrainer_trainers_self, hs.trainers]
    exact ge_groupsInsert_iff _ _ _ _ _ _ _

theorem addMonitorTail_mstatic (s : State) (t n mname mid cell i : Nat) :
    MStatic (s.mons i) ((addMonitorTail s t n mname mid cell).mons i) := by
  have hs : Same s (deregIfEval (writeCellMon s cell mname mid) t mid) :=
    (same_writeCellMon ..).trans (same_deregIfEval ..)
  exact hs.mons i

theorem eraseExisting_pool_sub (s : State) (t n mname x : Nat)
    (h : x ∈ poolMids ((eraseExisting s t n mname).trainers t)) : x ∈ poolMids (s.trainers t) := by
  unfold eraseExisting at h; simp only at h; split at h
  · rw [setTrainer_trainers_self] at h; exact gMids_groupsErase_subset h
  · exact h

/-- the three ways `add_monitor` can go, for a registered cell name -/
theorem addMonitor_paths {s : State} (w : WFc s) (t n mname : Nat) (sel : AttrSel) (unique prepend : Bool)
    (tags : Nat) (reads : List Nat) (hal : (s.trainers t).alive = true) (cell : Nat)
    (hc : lookup (s.trainers t).cells n = some cell) :
    let s' := (addMonitor s t n mname sel unique prepend tags reads).1
    (s' = s ∧ unique = false ∧ ∃ x, GE (s.trainers t).groups n mname x) ∨
    ((∃ e, realign s cell sel = .error e) ∧ (unique = false → s' = s)) ∨
    (∃ mid, AddSpec s s' t n mname cell mid ∧
      ((mid ∈ poolMids (s.trainers t) ∧ (s.mons mid).tags = some tags ∧ MStatic (s.mons mid) (s'.mons mid)) ∨
       (mid = s.nMons ∧ (s'.mons mid).reads = reads ∧ (s'.mons mid).cell = cell ∧
         (s'.mons mid).tags = if unique then none else some tags))) := by
  intro s'
  simp only [s']
  unfold addMonitor
  rw [hc]
  simp only
  split
  · rename_i hex
    simp only [Bool.and_eq_true, Bool.not_eq_true'] at hex
    left
    refine ⟨rfl, hex.2, ?_⟩
    cases hg : lookup (s.trainers t).groups n with
    | none => simp [hg] at hex
    | some g =>
      cases hm : lookup g mname with
      | none => simp [hg, hm] at hex
      | some x => exact ⟨x, g, lookup_mem hg, lookup_mem hm⟩
  · rename_i hex
    obtain ⟨w1, a1, _, c1, m1⟩ := eraseExisting_spec w t n mname hal
    have hne1 : unique = false → eraseExisting s t n mname = s := by
      intro hu
      unfold eraseExisting
      simp only [hu, Bool.not_false, Bool.and_true] at hex
      simp only [hex]; rfl
    have htopo : (eraseExisting s t n mname).topo = s.topo := by
      unfold eraseExisting; simp only; split <;> rfl
    have hrl : realign (eraseExisting s t n mname) cell sel = realign s cell sel := by
      cases sel <;> simp only [realign, htopo]
    have n1 := eraseExisting_nMons s t n mname
    have o1 := eraseExisting_others s t n mname
    have g1 := eraseExisting_ge s t n mname
    have cm1 := eraseExisting_cellMons s t n mname
    have p1 := eraseExisting_pool_sub s t n mname
    generalize eraseExisting s t n mname = s1 at *
    cases hr : realign s1 cell sel with
    | error e =>
      right; left
      exact ⟨⟨e, by rw [← hrl]; exact hr⟩, hne1⟩
    | ok path =>
      right; right
      simp only
      have tr2 := obtainMonitor_trainers s1 t cell mname unique prepend tags path reads
      have cm2 := obtainMonitor_cellMons s1 t cell mname unique prepend tags path reads
      have sp := addMonitorTail_spec (obtainMonitor s1 t cell mname unique prepend tags path reads).1 t n mname
        (obtainMonitor s1 t cell mname unique prepend tags path reads).2 cell
      have hcases : ((obtainMonitor s1 t cell mname unique prepend tags path reads).1 = s1 ∧
          (obtainMonitor s1 t cell mname unique prepend tags path reads).2 ∈ poolMids (s1.trainers t) ∧
          (s1.mons (obtainMonitor s1 t cell mname unique prepend tags path reads).2).tags = some tags) ∨
          ((obtainMonitor s1 t cell mname unique prepend tags path reads).2 = s1.nMons ∧
           ∀ i, (obtainMonitor s1 t cell mname unique prepend tags path reads).1.mons i =
             if i = s1.nMons then ⟨t, true, some s1.nextId, prepend, path, if unique then none else some tags,
               reads, cell, 0, 0, cellLayer s1 cell⟩ else s1.mons i) := by
        unfold obtainMonitor
        cases unique with
        | true => right; simp only [if_true]; exact ⟨rfl, fun i => newMonitor_mons ..⟩
        | false =>
          simp only [Bool.false_eq_true, if_false]
          cases hfa : findAlias s1 (s1.trainers t) cell mname tags path with
          | none => right; exact ⟨rfl, fun i => newMonitor_mons ..⟩
          | some mid =>
            left
            exact ⟨rfl, findAlias_mem hfa,
              findAlias_go_tags s1 (s1.trainers t) cell mname tags path _ none (by simp) mid hfa⟩
      have tm := addMonitorTail_mstatic (obtainMonitor s1 t cell mname unique prepend tags path reads).1 t n mname
        (obtainMonitor s1 t cell mname unique prepend tags path reads).2 cell
      generalize (obtainMonitor s1 t cell mname unique prepend tags path reads) = r at *
      refine ⟨r.2, ⟨?_, ?_, ?_, ?_, ?_, ?_⟩, ?_⟩
      · intro t' h; rw [sp.others t' h, tr2, o1 t' h]
      · rw [sp.cells, tr2, c1]
      · rw [sp.alive, tr2, a1, hal]
      · intro k name x
        rw [sp.ge, tr2]
        constructor
        · rintro (h | ⟨h, hne⟩)
          · exact Or.inl h
          · exact Or.inr ⟨(g1 k name x hne).mp h, hne⟩
        · rintro (h | ⟨h, hne⟩)
          · exact Or.inl h
          · exact Or.inr ⟨(g1 k name x hne).mpr h, hne⟩
      · rw [sp.cellMons, cm2, cm1]
      · intro i hi
        refine MStatic.trans ?_ (sp.mons i hi)
        rw [← m1]
        rcases hcases with ⟨e1, _, _⟩ | ⟨e1, e2⟩
        · rw [e1]; exact MStatic.refl _
        · rw [e2 i]; rw [e1] at hi; simp only [hi, if_false]; exact MStatic.refl _
      · rcases hcases with ⟨e1, e2, e3⟩ | ⟨e1, e2⟩
        · left
          refine ⟨p1 _ e2, by rw [← m1]; exact e3, ?_⟩
          have := tm r.2
          rw [e1, m1] at this; rw [e1]; exact this
        · right
          obtain ⟨_, _, _, t4, t5, t6, _⟩ := tm r.2
          rw [e2 r.2] at t4 t5 t6
          simp only [e1, if_true] at t4 t5 t6
          exact ⟨by rw [e1, n1], by rw [e1]; exact t5, by rw [e1]; exact t6, by rw [e1]; exact t4⟩

theorem rinv_of_addSpec {s s' : State} (w : WFc s) (hl : LInv s) (h : RInv s) (t n mname cell mid : Nat)
    (hal : (s.trainers t).alive = true) (hcell : (n, cell) ∈ (s.trainers t).cells)
    (sp : AddSpec s s' t n mname cell mid) (unique : Bool) (tags : Nat) (reads : List Nat)
    (hmid : (mid ∈ poolMids (s.trainers t) ∧ (s.mons mid).tags = some tags ∧ MStatic (s.mons mid) (s'.mons mid)) ∨
       (mid = s.nMons ∧ (s'.mons mid).reads = reads ∧ (s'.mons mid).cell = cell ∧
         (s'.mons mid).tags = if unique then none else some tags))
    (hreads : ∀ r ∈ reads, ∃ src, GE (s.trainers t).groups n r src)
    (hun : reads ≠ [] → unique = true) : RInv s' := by
  have hce : ∀ a, (s'.trainers a).cells = (s.trainers a).cells ∧ (s'.trainers a).alive = (s.trainers a).alive := by
    intro a
    by_cases ha : a = t
    · subst ha; exact ⟨sp.cells, sp.alive⟩
    · rw [sp.others a ha]; exact ⟨rfl, rfl⟩
  have hlt : ∀ a, (s.trainers a).alive = true → ∀ i ∈ poolMids (s.trainers a), i < s.nMons :=
    fun a ha i hi => w.h.alive_lt i (w.pool a ha i hi).1
  have hmst : ∀ i, i < s.nMons → MStatic (s.mons i) (s'.mons i) := by
    intro i hi
    by_cases him : i = mid
    · rcases hmid with ⟨_, _, hm⟩ | ⟨hm, _⟩
      · rw [him]; exact hm
      · omega
    · exact sp.mons i him
  -- an entry of the new group list, from an entry of the old one
  have hkeep : ∀ k r src, GE (s.trainers t).groups k r src → ∃ src', GE (s'.trainers t).groups k r src' := by
    intro k r src hg
    by_cases hkr : k = n ∧ r = mname
    · exact ⟨mid, (sp.ge k r mid).mpr (Or.inl ⟨hkr.1, hkr.2, rfl⟩)⟩
    · exact ⟨src, (sp.ge k r src).mpr (Or.inr ⟨hg, hkr⟩)⟩
  refine ⟨?_, ?_, ?_, ?_⟩
  · intro a b k k' c ha hb h1 h2
    rw [(hce a).2] at ha; rw [(hce b).2] at hb; rw [(hce a).1] at h1; rw [(hce b).1] at h2
    exact h.single a b k k' c ha hb h1 h2
  · intro a ha
    rw [(hce a).2] at ha
    by_cases hat : a = t
    · subst hat
      intro k c name x hkc hge
      rw [sp.cells] at hkc
      rw [sp.cellMons]
      rcases (sp.ge k name x).mp hge with ⟨rfl, rfl, rfl⟩ | ⟨hge0, hne⟩
      · rw [(hl a).cf _ _ _ hkc hcell]; exact getCellMon_setCellMon_self _ _ _ _
      · have h0 := h.sync a hal k c name x hkc hge0
        by_cases hcc : c = cell
        · subst hcc
          have hk : k = n := (h.single a a k n c hal hal hkc hcell).2
          have hnm : name ≠ mname := fun hc => hne ⟨hk, hc⟩
          rw [getCellMon_setCellMon_name_ne _ _ _ _ _ hnm]; exact h0
        · rw [getCellMon_setCellMon_ne _ _ _ _ _ _ hcc]; exact h0
    · rw [sp.others a hat]
      intro k c name x hkc hge
      have hcc : c ≠ cell := by
        intro hc; subst hc
        exact hat (h.single a t k n c ha hal hkc hcell).1
      rw [sp.cellMons, getCellMon_setCellMon_ne _ _ _ _ _ _ hcc]
      exact h.sync a ha k c name x hkc hge
  · intro a ha
    rw [(hce a).2] at ha
    by_cases hat : a = t
    · subst hat
      intro k name i r hge hr
      rw [sp.cells]
      rcases (sp.ge k name i).mp hge with ⟨rfl, rfl, rfl⟩ | ⟨hge0, hne⟩
      · rcases hmid with ⟨_, htg, hm⟩ | ⟨_, hrd, hcl, _⟩
        · exfalso
          obtain ⟨_, _, _, _, e5, _, _⟩ := hm
          rw [e5] at hr
          have : (s.mons i).reads ≠ [] := by intro hc; rw [hc] at hr; cases hr
          have := h.untagged i this
          rw [htg] at this; cases this
        · rw [hrd] at hr; rw [hcl]
          obtain ⟨src, hsrc⟩ := hreads r hr
          exact ⟨hcell, hkeep k r src hsrc⟩
      · obtain ⟨_, _, _, _, e5, e6, _⟩ := hmst i (hlt a hal i (ge_mem_pool hge0))
        rw [e5] at hr; rw [e6]
        obtain ⟨h1, src, hsrc⟩ := h.reads a hal k name i r hge0 hr
        exact ⟨h1, hkeep k r src hsrc⟩
    · rw [sp.others a hat]
      intro k name i r hge hr
      obtain ⟨_, _, _, _, e5, e6, _⟩ := hmst i (hlt a ha i (ge_mem_pool hge))
      rw [e5] at hr; rw [e6]
      exact h.reads a ha k name i r hge hr
  · intro i hne
    by_cases him : i = mid
    · subst him
      rcases hmid with ⟨_, _, hm⟩ | ⟨_, hrd, _, htg⟩
      · obtain ⟨_, _, _, e4, e5, _, _⟩ := hm
        rw [e5] at hne; rw [e4]; exact h.untagged i hne
      · rw [hrd] at hne; rw [htg, hun hne]; rfl
    · obtain ⟨_, _, _, e4, e5, _, _⟩ := sp.mons i him
      rw [e5] at hne; rw [e4]; exact h.untagged i hne

theorem addMonitor_rinv {s : State} (w : WFc s) (hl : LInv s) (h : RInv s) (t n mname : Nat) (sel : AttrSel)
    (unique prepend : Bool) (tags : Nat) (reads : List Nat) (hal : (s.trainers t).alive = true)
    (hsel : unique = true → sel ≠ .bad)
    (hreads : ∀ r ∈ reads, ∃ src, GE (s.trainers t).groups n r src)
    (hun : reads ≠ [] → unique = true) :
    RInv (addMonitor s t n mname sel unique prepend tags reads).1 := by
  cases hc : lookup (s.trainers t).cells n with
  | none => unfold addMonitor; rw [hc]; exact h
  | some cell =>
    have hcell := lookup_mem hc
    rcases addMonitor_paths w t n mname sel unique prepend tags reads hal cell hc with
      ⟨e, _, _⟩ | ⟨⟨e, he⟩, hs⟩ | ⟨mid, sp, hmid⟩
    · rw [e]; exact h
    · by_cases hu : unique = true
      · obtain ⟨path, hp⟩ := realign_ok s cell sel (hsel hu) ((hl t).range n cell hcell)
        rw [hp] at he; cases he
      · rw [hs (by simpa using hu)]; exact h
    · exact rinv_of_addSpec w hl h t n mname cell mid hal hcell sp unique tags reads hmid hreads hun

/-- after `add_monitor` (with an attribute the cell has) the name is listed -/
theorem addMonitor_has {s : State} (w : WFc s) (hl : LInv s) (t n mname : Nat) (sel : AttrSel)
    (unique prepend : Bool) (tags : Nat) (reads : List Nat) (hal : (s.trainers t).alive = true)
    (hsel : sel ≠ .bad) (cell : Nat) (hc : lookup (s.trainers t).cells n = some cell) :
    ∃ x, GE ((addMonitor s t n mname sel unique prepend tags reads).1.trainers t).groups n mname x := by
  rcases addMonitor_paths w t n mname sel unique prepend tags reads hal cell hc with
    ⟨e, _, hx⟩ | ⟨⟨e, he⟩, _⟩ | ⟨mid, sp, _⟩
  · rw [e]; exact hx
  · obtain ⟨path, hp⟩ := realign_ok s cell sel hsel ((hl t).range n cell (lookup_mem hc))
    rw [hp] at he; cases he
  · exact ⟨mid, (sp.ge n mname mid).mpr (Or.inl ⟨rfl, rfl, rfl⟩)⟩

/-- `add_monitor` (with an attribute the cell has) keeps every listed name listed -/
theorem addMonitor_keeps {s : State} (w : WFc s) (hl : LInv s) (t n mname : Nat) (sel : AttrSel)
    (unique prepend : Bool) (tags : Nat) (reads : List Nat) (hal : (s.trainers t).alive = true)
    (hsel : sel ≠ .bad) (r : Nat) (hr : ∃ x, GE (s.trainers t).groups n r x) :
    ∃ x, GE ((addMonitor s t n mname sel unique prepend tags reads).1.trainers t).groups n r x := by
  cases hc : lookup (s.trainers t).cells n with
  | none => unfold addMonitor; rw [hc]; exact hr
  | some cell =>
    rcases addMonitor_paths w t n mname sel unique prepend tags reads hal cell hc with
      ⟨e, _, _⟩ | ⟨⟨e, he⟩, _⟩ | ⟨mid, sp, _⟩
    · rw [e]; exact hr
    · obtain ⟨path, hp⟩ := realign_ok s cell sel hsel ((hl t).range n cell (lookup_mem hc))
      rw [hp] at he; cases he
    · obtain ⟨x, hx⟩ := hr
      by_cases hkr : n = n ∧ r = mname
      · exact ⟨mid, (sp.ge n r mid).mpr (Or.inl ⟨rfl, hkr.2, rfl⟩)⟩
      · exact ⟨x, (sp.ge n r x).mpr (Or.inr ⟨hx, hkr⟩)⟩

/-! ### The template of `register_cell` -/

/-- every entry observes an attribute the cell has, only `unique` entries read, and what an entry
reads was added by an earlier entry (or is available already) -/
def TplOK : List Nat → List (Nat × AttrSel × Bool × Bool × Nat × List Nat) → Prop
  | _, [] => True
  | av, e :: rest =>
    e.2.1 ≠ .bad ∧ (e.2.2.2.2.2 ≠ [] → e.2.2.1 = true) ∧ (∀ r ∈ e.2.2.2.2.2, r ∈ av) ∧ TplOK (e.1 :: av) rest

theorem template_ok (kind v : Nat) : TplOK [] (template kind v) := by
  unfold template; split <;> simp [TplOK]

theorem addTemplate_cells (tpl : List (Nat × AttrSel × Bool × Bool × Nat × List Nat)) (t n : Nat) (s : State) :
    ((addTemplate s t n tpl).trainers t).cells = (s.trainers t).cells := by
  induction tpl generalizing s with
  | nil => rfl
  | cons e rest ih =>
    show ((addTemplate (addMonitor s t n e.1 e.2.1 e.2.2.1 e.2.2.2.1 e.2.2.2.2.1 e.2.2.2.2.2).1 t n rest).trainers t).cells = _
    rw [ih, addMonitor_cells]

theorem addTemplate_rinv (tpl : List (Nat × AttrSel × Bool × Bool × Nat × List Nat)) (av : List Nat)
    (t n cell : Nat) (s : State) (w : WFc s) (hl : LInv s) (h : RInv s) (hal : (s.trainers t).alive = true)
    (hc : lookup (s.trainers t).cells n = some cell)
    (hav : ∀ r ∈ av, ∃ x, GE (s.trainers t).groups n r x) (ok : TplOK av tpl) :
    RInv (addTemplate s t n tpl) := by
  induction tpl generalizing s av with
  | nil => exact h
  | cons e rest ih =>
    obtain ⟨ok1, ok2, ok3, ok4⟩ := ok
    obtain ⟨w1, a1⟩ := addMonitor_wfc w t n e.1 e.2.1 e.2.2.1 e.2.2.2.1 e.2.2.2.2.1 e.2.2.2.2.2 hal
    have hl1 := addMonitor_linv w hl t n e.1 e.2.1 e.2.2.1 e.2.2.2.1 e.2.2.2.2.1 e.2.2.2.2.2 hal
    have h1 := addMonitor_rinv w hl h t n e.1 e.2.1 e.2.2.1 e.2.2.2.1 e.2.2.2.2.1 e.2.2.2.2.2 hal
      (fun _ => ok1) (fun r hr => hav r (ok3 r hr)) ok2
    refine ih (e.1 :: av) _ w1 hl1 h1 a1 (by rw [addMonitor_cells]; exact hc) ?_ ok4
    intro r hr
    rcases List.mem_cons.mp hr with rfl | hr
    · exact addMonitor_has w hl t n _ e.2.1 e.2.2.1 e.2.2.2.1 e.2.2.2.2.1 e.2.2.2.2.2 hal ok1 cell hc
    · exact addMonitor_keeps w hl t n e.1 e.2.1 e.2.2.1 e.2.2.2.1 e.2.2.2.2.1 e.2.2.2.2.2 hal ok1 r (hav r hr)

/-! ### The other operations -/

/-- no live trainer has registered cell `c` -/
def Fresh (s : State) (c : Nat) : Prop := ∀ t, (s.trainers t).alive = true → ∀ k, (k, c) ∉ (s.trainers t).cells

theorem delObserved_rinv {s : State} (h : RInv s) (t n : Nat) : RInv (delObserved s t n) := by
  unfold delObserved
  cases hg : lookup (s.trainers t).groups n with
  | none => exact h
  | some g =>
    simp only
    have hs := same_deregisterUnshared (otherMids (s.trainers t) n) g s
    have hcm := deregisterUnshared_cellMons (otherMids (s.trainers t) n) g s
    generalize deregisterUnshared s (otherMids (s.trainers t) n) g = s' at hs hcm
    have h' := rinv_same h hs hcm
    unfold dropGroup
    refine rinv_setTrainer_sub h' t _ ?_ ?_ ?_ ?_
    · exact fun ha => ha
    · exact fun _ he => he
    · intro ha k c name mid hkc hge
      exact h'.sync t ha k c name mid hkc (ge_filter hge)
    · intro ha k name i r hge hr
      obtain ⟨h1, src, hsrc⟩ := h'.reads t ha k name i r (ge_filter hge) hr
      refine ⟨h1, src, ge_filter_of hsrc (fun g' _ => ?_)⟩
      obtain ⟨g0, hg0, _⟩ := hge
      exact (List.mem_filter.mp hg0).2

theorem rinv_addCell {s : State} (h : RInv s) (t n c : Nat) (hf : Fresh s c)
    (hn : ¬ GK (s.trainers t).groups n) : RInv (addCellEntry s t n c) := by
  unfold addCellEntry
  apply rinv_setTrainer h t
  · intro hal k c' hkc
    have hal : (s.trainers t).alive = true := hal
    simp only [List.mem_append, List.mem_singleton, Prod.mk.injEq] at hkc
    refine ⟨fun k' hk' => ?_, fun t' ht' hal' k' hk' => ?_⟩
    · simp only [List.mem_append, List.mem_singleton, Prod.mk.injEq] at hk'
      rcases hkc with hkc | ⟨rfl, rfl⟩ <;> rcases hk' with hk' | ⟨hk1, hk2⟩
      · exact ((h.single t t k k' c' hal hal hkc hk').2).symm
      · subst hk2; exact absurd hkc (hf t hal k)
      · exact absurd hk' (hf t hal k')
      · exact hk1
    · rcases hkc with hkc | ⟨rfl, rfl⟩
      · exact ht' ((h.single t t' k k' c' hal hal' hkc hk').1).symm
      · exact hf t' hal' k' hk'
  · intro hal k c' name mid hkc hge
    have hal : (s.trainers t).alive = true := hal
    simp only [List.mem_append, List.mem_singleton, Prod.mk.injEq] at hkc
    rcases hkc with hkc | ⟨rfl, rfl⟩
    · exact h.sync t hal k c' name mid hkc hge
    · exact absurd hge.key hn
  · intro hal k name i r hge hr
    obtain ⟨h1, hsrc⟩ := h.reads t hal k name i r hge hr
    exact ⟨List.mem_append_left _ h1, hsrc⟩

theorem rinv_dropCell {s : State} (h : RInv s) (t n : Nat) (hn : ¬ GK (s.trainers t).groups n) :
    RInv (dropCell s t n) := by
  unfold dropCell
  refine rinv_setTrainer_sub h t _ ?_ ?_ ?_ ?_
  · exact fun ha => ha
  · exact fun _ he => (List.mem_filter.mp he).1
  · intro ha k c name mid hkc hge
    exact h.sync t ha k c name mid (List.mem_filter.mp hkc).1 hge
  · intro ha k name i r hge hr
    obtain ⟨h1, hsrc⟩ := h.reads t ha k name i r hge hr
    refine ⟨List.mem_filter.mpr ⟨h1, ?_⟩, hsrc⟩
    simp only [bne_iff_ne, ne_eq]
    intro hk; subst hk; exact hn hge.key

theorem setAll_cellMons (mode : Bool) (l : List Nat) (s : State) : (setAll s mode l).cellMons = s.cellMons := by
  induction l generalizing s with
  | nil => rfl
  | cons x rest ih => rw [setAll_cons, ih]; split <;> simp

/-- the operations excluded from `noAbort_of_single_registration`: `del_monitor`, and an
`add_monitor(unique=True)` naming an attribute the cell does not have (it drops the existing monitor
of that name and then raises) -/
def benign : Op → Bool
  | .delMonitor _ _ _ => false
  | .addMonitor _ _ _ sel unique _ _ => !(unique && decide (sel = .bad))
  | _ => true

/-- the cell a `register_cell` is for -/
def regTarget : Op → Option Nat
  | .registerCell _ _ c _ => some c
  | _ => none

theorem stepCore_rinv {s : State} (w : WF s) (hl : LInv s) (h : RInv s) (op : Op) (hb : benign op = true)
    (hf : ∀ c, regTarget op = some c → Fresh s c) : RInv (stepCore s op).1 := by
  have wc := w.toWFc
  have hid : ∀ s', Same s s' → s'.cellMons = s.cellMons → RInv s' := fun s' a b => rinv_same h a b
  cases op with
  | newTrainer kind =>
    simp only [stepCore]
    have h' : RInv { s with nTrainers := s.nTrainers + 1 } :=
      rinv_same h ⟨rfl, rfl, rfl, rfl, fun _ => MStatic.refl _⟩ rfl
    apply rinv_setTrainer h'
    · intro _ n c hc; cases hc
    · intro _ n c name mid hc; cases hc
    · intro _ n name i r ⟨g, hg, _⟩; cases hg
  | registerCell t n c v =>
    simp only [stepCore]
    split
    · exact h
    · rename_i hal
      have hal : (s.trainers t).alive = true := by simpa using hal
      split
      · exact h
      · rename_i hrange
        have hrange : c < s.topo.length := by omega
        split
        · exact h
        · rename_i hnew
          have hnew : lookup (s.trainers t).cells n = none := by
            cases hl' : lookup (s.trainers t).cells n with
            | none => rfl
            | some x => simp [hl'] at hnew
          obtain ⟨w0, a0, _, c0, _⟩ := delObserved_wfc wc t n hal
          obtain ⟨l0, k0⟩ := delObserved_linv hl t n
          have r0 := delObserved_rinv h t n
          have f0 : Fresh (delObserved s t n) c := by
            intro a ha k hk
            have fr := trFrame_delObserved s t n
            by_cases hat : a = t
            · subst hat
              rw [c0] at hk; rw [fr.alive] at ha
              exact hf c rfl a ha k hk
            · rw [fr.others a hat] at ha hk
              exact hf c rfl a ha k hk
          have hnew0 : lookup ((delObserved s t n).trainers t).cells n = none := by rw [c0]; exact hnew
          have htopo0 := (static_delObserved s t n).topo
          generalize delObserved s t n = s0 at *
          have w1 : WFc (addCellEntry s0 t n c) := by
            unfold addCellEntry
            apply wfc_setTrainer w0 t _ (fun _ => w0.trainer_lt t a0)
            intro _ x hx; exact w0.pool t a0 x hx
          have l1 : LInv (addCellEntry s0 t n c) := by
            unfold addCellEntry
            exact linv_setTrainer l0 t _ (tinv_addCell (l0 t) n c hnew0 k0 (by rw [htopo0]; exact hrange))
          have r1 : RInv (addCellEntry s0 t n c) := rinv_addCell r0 t n c f0 k0
          have a1 : ((addCellEntry s0 t n c).trainers t).alive = true := by simp [addCellEntry, a0]
          have c1 : lookup ((addCellEntry s0 t n c).trainers t).cells n = some c := by
            unfold addCellEntry; rw [setTrainer_trainers_self]
            exact lookup_append_new _ _ _ hnew0
          exact addTemplate_rinv _ [] t n c _ w1 l1 r1 a1 c1 (fun r hr => by cases hr) (template_ok _ v)
  | delCell t n =>
    simp only [stepCore]
    split
    · exact h
    · split
      · exact h
      · obtain ⟨_, k0⟩ := delObserved_linv hl t n
        exact rinv_dropCell (delObserved_rinv h t n) t n k0
  | addMonitor t n mname sel unique prepend tags =>
    simp only [stepCore]
    split
    · exact h
    · rename_i hal
      have hal : (s.trainers t).alive = true := by simpa using hal
      apply addMonitor_rinv wc hl h t n mname sel unique prepend tags [] hal
      · intro hu hs
        simp [benign, hu, hs] at hb
      · intro r hr; cases hr
      · intro hc; exact absurd rfl hc
  | delMonitor t n mname => simp [benign] at hb
  | trainerTrain t mode =>
    simp only [stepCore]
    split
    · exact h
    · rename_i hal
      have hal : (s.trainers t).alive = true := by simpa using hal
      refine rinv_same ?_ (same_setAll ..) (setAll_cellMons ..)
      exact rinv_setTrainer_sub h t _ (fun _ => hal) (fun _ he => he) (fun _ => h.sync t hal) (fun _ => h.reads t hal)
  | layerTrain l mode => exact hid _ ⟨rfl, rfl, rfl, rfl, fun _ => MStatic.refl _⟩ rfl
  | layerStep l =>
    simp only [stepCore]
    split
    · exact hid _ (same_ghostStep s l) rfl
    · exact hid _ ((same_ghostStep s l).trans (same_countStep ..)) rfl
  | trainerStep t =>
    simp only [stepCore]
    split
    · exact h
    · split <;> exact h
  | clear t =>
    simp only [stepCore]
    split
    · exact h
    · exact hid _ (same_clearMons s t) rfl
  | collect t =>
    simp only [stepCore]
    split
    · exact h
    · apply rinv_setTrainer h t
      · intro ha; cases ha
      · intro ha; cases ha
      · intro ha; cases ha

theorem step_rinv {s : State} (w : WF s) (hl : LInv s) (h : RInv s) (op : Op) (hb : benign op = true)
    (hf : ∀ c, regTarget op = some c → Fresh s c) : RInv (step s op).1 :=
  rinv_gc (stepCore_wfc w op) (stepCore_rinv w hl h op hb hf)

/-! ### Cells that are not registered stay unregistered until a `register_cell` names them -/

theorem fresh_of_cells {s s' : State} {c : Nat} (hf : Fresh s c) (t : Nat)
    (ho : ∀ a, a ≠ t → s'.trainers a = s.trainers a)
    (hc : (s'.trainers t).alive = true → ∀ k, (k, c) ∈ (s'.trainers t).cells →
      (s.trainers t).alive = true ∧ (k, c) ∈ (s.trainers t).cells) : Fresh s' c := by
  intro a ha k hk
  by_cases hat : a = t
  · subst hat
    obtain ⟨h1, h2⟩ := hc ha k hk
    exact hf a h1 k h2
  · rw [ho a hat] at ha hk; exact hf a ha k hk

theorem fresh_of_trainers {s s' : State} {c : Nat} (hf : Fresh s c) (h : s'.trainers = s.trainers) : Fresh s' c := by
  intro a; rw [h]; exact hf a

theorem setAll_trainers (mode : Bool) (l : List Nat) (s : State) : (setAll s mode l).trainers = s.trainers := by
  induction l generalizing s with
  | nil => rfl
  | cons x rest ih => rw [setAll_cons, ih]; split <;> simp

theorem delEntry_cells (s : State) (t n mname mid : Nat) :
    ((delEntry s t n mname mid).trainers t).cells = (s.trainers t).cells := by
  unfold delEntry dropEmptyGroup
  rw [setTrainer_trainers_self]
  show ((deregIfUnaliased (eraseEntry s t n mname) t mid).trainers t).cells = _
  have : (deregIfUnaliased (eraseEntry s t n mname) t mid).trainers = (eraseEntry s t n mname).trainers := by
    unfold deregIfUnaliased; split <;> simp
  rw [this]; unfold eraseEntry; rw [setTrainer_trainers_self]

theorem fresh_stepCore {s : State} (op : Op) (c : Nat) (hf : Fresh s c) (hne : regTarget op ≠ some c) :
    Fresh (stepCore s op).1 c := by
  cases op with
  | newTrainer kind =>
    simp only [stepCore]
    apply fresh_of_cells (s := s) hf s.nTrainers
    · intro a ha; rw [setTrainer_trainers]; simp [ha]
    · intro _ k hk; rw [setTrainer_trainers_self] at hk; cases hk
  | registerCell t n c0 v =>
    have fr := stepCore_trFrame s (.registerCell t n c0 v) t n rfl
    apply fresh_of_cells hf t fr.others
    intro ha k hk
    rw [fr.alive] at ha
    refine ⟨ha, ?_⟩
    simp only [stepCore] at hk
    split at hk
    · exact hk
    · split at hk
      · exact hk
      · split at hk
        · exact hk
        · rw [addTemplate_cells] at hk
          unfold addCellEntry at hk
          rw [setTrainer_trainers_self] at hk
          simp only [List.mem_append, List.mem_singleton, Prod.mk.injEq] at hk
          rcases hk with hk | ⟨_, hk⟩
          · rw [delObserved_cells] at hk; exact hk
          · exfalso; apply hne; simp [regTarget, hk]
  | delCell t n =>
    have fr := stepCore_trFrame s (.delCell t n) t n rfl
    apply fresh_of_cells hf t fr.others
    intro ha k hk
    rw [fr.alive] at ha
    refine ⟨ha, ?_⟩
    simp only [stepCore] at hk
    split at hk
    · exact hk
    · split at hk
      · exact hk
      · unfold dropCell at hk
        rw [setTrainer_trainers_self] at hk
        have := (List.mem_filter.mp hk).1
        rw [delObserved_cells] at this; exact this
  | addMonitor t n mname sel unique prepend tags =>
    have fr := stepCore_trFrame s (.addMonitor t n mname sel unique prepend tags) t n rfl
    apply fresh_of_cells hf t fr.others
    intro ha k hk
    rw [fr.alive] at ha
    refine ⟨ha, ?_⟩
    simp only [stepCore] at hk
    split at hk
    · exact hk
    · rw [addMonitor_cells] at hk; exact hk
  | delMonitor t n mname =>
    have fr := stepCore_trFrame s (.delMonitor t n mname) t n rfl
    apply fresh_of_cells hf t fr.others
    intro ha k hk
    rw [fr.alive] at ha
    refine ⟨ha, ?_⟩
    simp only [stepCore] at hk
    split at hk
    · exact hk
    · split at hk
      · exact hk
      · split at hk
        · exact hk
        · split at hk
          · exact hk
          · rw [delEntry_cells] at hk; exact hk
  | trainerTrain t mode =>
    simp only [stepCore]
    split
    · exact hf
    · rename_i hal
      have hal : (s.trainers t).alive = true := by simpa using hal
      apply fresh_of_cells hf t
      · intro a ha; rw [setAll_trainers, setTrainer_trainers]; simp [ha]
      · intro _ k hk
        rw [setAll_trainers, setTrainer_trainers_self] at hk
        exact ⟨hal, hk⟩
  | layerTrain l mode => exact fresh_of_trainers hf rfl
  | layerStep l =>
    simp only [stepCore]
    split <;> exact fresh_of_trainers hf rfl
  | trainerStep t =>
    simp only [stepCore]
    split
    · exact hf
    · split <;> exact hf
  | clear t =>
    simp only [stepCore]
    split
    · exact hf
    · exact fresh_of_trainers hf rfl
  | collect t =>
    simp only [stepCore]
    split
    · exact hf
    · apply fresh_of_cells hf t
      · intro a ha; rw [setTrainer_trainers]; simp [ha]
      · intro ha; rw [setTrainer_trainers_self] at ha; cases ha

theorem fresh_step {s : State} (op : Op) (c : Nat) (hf : Fresh s c) (hne : regTarget op ≠ some c) :
    Fresh (step s op).1 c :=
  fresh_of_trainers (fresh_stepCore op c hf hne) rfl

/-- the hypotheses of `noAbort_of_single_registration` about the rest of a history, seen from the
state reached so far: the structural invariants, the resolution invariant, and every cell a
coming `register_cell` names is named by no other and is not registered yet -/
structure Good (s : State) (ops : List Op) : Prop where
  wf : WF s
  linv : LInv s
  rinv : RInv s
  benign : ∀ op ∈ ops, benign op = true
  nodup : (ops.filterMap regTarget).Nodup
  fresh : ∀ c ∈ ops.filterMap regTarget, Fresh s c

theorem good_init (topo : List (Nat × Nat × Nat)) (f : Bool) (ops : List Op)
    (hb : ∀ op ∈ ops, benign op = true) (hnd : (ops.filterMap regTarget).Nodup) : Good (init topo f) ops := by
  refine ⟨init_wf topo f, init_linv topo f, ⟨?_, ?_, ?_, ?_⟩, hb, hnd, ?_⟩
  · intro t t' n n' c ha; cases ha
  · intro t ha; cases ha
  · intro t ha; cases ha
  · intro i hne; exact absurd rfl hne
  · intro c _ t ha; cases ha

theorem Good.layerStep_ok {s : State} {ops : List Op} (g : Good s ops) (l : Nat) :
    (step s (.layerStep l)).2 = .ok := InfernoVerif.Lifecycle.layerStep_ok g.wf g.rinv l

theorem Good.step {s : State} {op : Op} {ops : List Op} (g : Good s (op :: ops)) : Good (step s op).1 ops := by
  have hnd := g.nodup
  have hfr := g.fresh
  refine ⟨step_wf g.wf op, step_linv g.wf g.linv op, ?_, fun o ho => g.benign o (List.mem_cons_of_mem _ ho), ?_, ?_⟩
  · apply step_rinv g.wf g.linv g.rinv op (g.benign op List.mem_cons_self)
    intro c hc
    apply hfr c
    rw [List.filterMap_cons, hc]; exact List.mem_cons_self
  · rw [List.filterMap_cons] at hnd
    split at hnd
    · exact hnd
    · exact (List.nodup_cons.mp hnd).2
  · intro c hc
    apply fresh_step op c
    · apply hfr c
      rw [List.filterMap_cons]
      split
      · exact hc
      · exact List.mem_cons_of_mem _ hc
    · intro hop
      rw [List.filterMap_cons, hop] at hnd
      exact (List.nodup_cons.mp hnd).1 hc

end InfernoVerif.Lifecycle
