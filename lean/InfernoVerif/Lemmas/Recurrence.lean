import Mathlib.Algebra.BigOperators.Group.Finset.Basic
import Mathlib.Algebra.BigOperators.Ring.Finset
import Mathlib.Analysis.SpecialFunctions.Exp
import Mathlib.Tactic.Ring
/-!
# Closed form of a first-order linear recurrence

`x (n+1) = d · x n + a (n+1)`, `x 0 = a 0`  ⟹  `x n = Σ_{k ≤ n} d^(n-k) · a k`, in any commutative
ring, and its instantiation with the decay `d = exp(-dt/τ)` of the trace / synapse / eligibility
recurrences (`d^m = exp(-(m·dt)/τ)`, by `Real.exp_nat_mul`).  Used by C04, C07, C08, C18.
-/
namespace InfernoVerif.Recurrence
open Finset

/-- Closed form of `x (n+1) = d * x n + a (n+1)` with `x 0 = a 0`. -/
theorem recurrence_closed {R : Type*} [CommRing R] (d : R) (a x : ℕ → R)
    (h0 : x 0 = a 0) (hstep : ∀ n, x (n + 1) = d * x n + a (n + 1)) (n : ℕ) :
    x n = ∑ k ∈ range (n + 1), d ^ (n - k) * a k := by
  induction n with
  | zero => simp [h0]
  | succ n ih =>
    rw [hstep, ih, sum_range_succ _ (n + 1), mul_sum]
    congr 1
    · apply sum_congr rfl
      intro k hk
      have hk' : k ≤ n := Nat.lt_succ_iff.mp (mem_range.mp hk)
      rw [Nat.succ_sub hk', pow_succ]; ring
    · simp

/-- Variant with a zero start: `x 0 = 0`, `x (n+1) = d * x n + a n`  ⟹  `x n = Σ_{k < n} d^(n-1-k) · a k`. -/
theorem recurrence_closed_zero {R : Type*} [CommRing R] (d : R) (a x : ℕ → R)
    (h0 : x 0 = 0) (hstep : ∀ n, x (n + 1) = d * x n + a n) (n : ℕ) :
    x n = ∑ k ∈ range n, d ^ (n - 1 - k) * a k := by
  induction n with
  | zero => simp [h0]
  | succ n ih =>
    rw [hstep, ih, sum_range_succ, mul_sum]
    congr 1
    · apply sum_congr rfl
      intro k hk
      have hk' : k < n := mem_range.mp hk
      have : n + 1 - 1 - k = (n - 1 - k) + 1 := by omega
      rw [this, pow_succ]; ring
    · simp

/-- `exp(-dt/τ)^m = exp(-(m·dt)/τ)`: the decay over `m` steps. -/
theorem exp_decay_pow (dt tau : ℝ) (m : ℕ) :
    Real.exp ((-dt) / tau) ^ m = Real.exp (-((m : ℝ) * dt) / tau) := by
  rw [← Real.exp_nat_mul]; congr 1; ring

/-- The recurrence with the exponential decay of one step `dt` and time constant `τ`:
`x n = Σ_{k ≤ n} exp(-((n-k)·dt)/τ) · a k`. -/
theorem recurrence_closed_exp (dt tau : ℝ) (a x : ℕ → ℝ)
    (h0 : x 0 = a 0) (hstep : ∀ n, x (n + 1) = Real.exp ((-dt) / tau) * x n + a (n + 1)) (n : ℕ) :
    x n = ∑ k ∈ range (n + 1), Real.exp (-(((n - k : ℕ) : ℝ) * dt) / tau) * a k := by
  rw [recurrence_closed _ a x h0 hstep n]
  apply sum_congr rfl
  intro k _
  rw [exp_decay_pow]

end InfernoVerif.Recurrence
