import InfernoVerif.Model.Select
import InfernoVerif.Lemmas.Ring
import InfernoVerif.Gen.InterpolationR
import InfernoVerif.Gen.ExtrapolationR
import Mathlib.Algebra.Order.Archimedean.Real.Basic
import Mathlib.Algebra.Order.Floor.Ring
import Mathlib.Tactic.Linarith
import Mathlib.Tactic.Ring
import Mathlib.Tactic.FieldSimp
import Mathlib.Tactic.SplitIfs
import Mathlib.Tactic.NormNum
/-!
Helper lemmas for C02 (`RecordTensor.select` / `insert`).

* `realOps : Ops ℝ` — the instance of `Model/Select.lean`'s arithmetic the theorems are about
  (`round` = `rhe`, round-half-to-even, shown to return a nearest integer);
* the four code paths (`selectScalar`, `selectTensor`, `insertScalar`, `insertTensor`) rewritten in
  `ℝ` terms, per branch (`…_out`, `…_on`, `…_off`);
* grid arithmetic: `onGrid_iff_exists`, `grid_unique`, `offGrid_facts`;
* ring facts for the writes (`read_writeInplace`, `writerange_pair`, …).
-/
namespace InfernoVerif.Select
open InfernoVerif.Ring
open Classical

/-- Round half to even on `ℝ` (Python `round`, `torch.round`). -/
noncomputable def rhe (x : ℝ) : ℤ :=
  if x - (⌊x⌋ : ℝ) < 1/2 then ⌊x⌋ else if 1/2 < x - (⌊x⌋ : ℝ) then ⌊x⌋ + 1
  else if ⌊x⌋ % 2 = 0 then ⌊x⌋ else ⌊x⌋ + 1

theorem rhe_floor_or (x : ℝ) :
    (rhe x = ⌊x⌋ ∧ x - (⌊x⌋ : ℝ) ≤ 1/2) ∨ (rhe x = ⌊x⌋ + 1 ∧ 1/2 ≤ x - (⌊x⌋ : ℝ)) := by
  unfold rhe
  split_ifs with h1 h2 h3
  · left; exact ⟨rfl, by linarith⟩
  · right; exact ⟨rfl, by linarith⟩
  · left; exact ⟨rfl, by linarith⟩
  · right; exact ⟨rfl, by linarith⟩

/-- `round` returns a nearest integer. -/
theorem rhe_nearest (x : ℝ) (k : ℤ) : |(rhe x : ℝ) - x| ≤ |(k : ℝ) - x| := by
  have hf := Int.floor_le x
  have hc := Int.lt_floor_add_one x
  rcases le_or_gt k ⌊x⌋ with hk | hk
  · have hk' : (k : ℝ) ≤ (⌊x⌋ : ℝ) := by exact_mod_cast hk
    rw [abs_sub_comm (k : ℝ), abs_of_nonneg (by linarith : (0:ℝ) ≤ x - k)]
    rcases rhe_floor_or x with ⟨e, h⟩ | ⟨e, h⟩
    · rw [e, abs_sub_comm, abs_of_nonneg (by linarith)]
      linarith
    · rw [e]; push_cast
      rw [abs_of_nonneg (by linarith)]
      linarith
  · have hk' : (⌊x⌋ : ℝ) + 1 ≤ (k : ℝ) := by exact_mod_cast hk
    rw [abs_of_nonneg (by linarith : (0:ℝ) ≤ k - x)]
    rcases rhe_floor_or x with ⟨e, h⟩ | ⟨e, h⟩
    · rw [e, abs_sub_comm, abs_of_nonneg (by linarith)]
      linarith
    · rw [e]; push_cast
      rw [abs_of_nonneg (by linarith)]
      linarith

theorem rhe_int (k : ℤ) : rhe (k : ℝ) = k := by
  unfold rhe
  rw [Int.floor_intCast]
  simp

theorem rhe_abs_le_half (x : ℝ) : |(rhe x : ℝ) - x| ≤ 1/2 := by
  rcases rhe_floor_or x with ⟨e, h⟩ | ⟨e, h⟩
  · rw [e, abs_sub_comm, abs_of_nonneg (by linarith [Int.floor_le x])]; exact h
  · rw [e]; push_cast
    rw [abs_of_nonneg (by linarith [Int.lt_floor_add_one x])]; linarith

noncomputable def realOps : Ops ℝ where
  add := (· + ·)
  sub := (· - ·)
  mul := (· * ·)
  div := (· / ·)
  neg := (- ·)
  abs := fun x => |x|
  ofInt := fun i => (i : ℝ)
  floor := fun x => ⌊x⌋
  ceil := fun x => ⌈x⌉
  round := rhe
  le := fun a b => decide (a ≤ b)
  lt := fun a b => decide (a < b)

/-- `t` passes the range test of a record with `n` slots. -/
def InRange (n : ℕ) (dt tol t : ℝ) : Prop := -tol ≤ t ∧ t ≤ dt * ((n : ℝ) - 1) + tol
/-- `t` is within tolerance of the nearest multiple of `dt`. -/
def OnGrid (dt tol t : ℝ) : Prop := |dt * (rhe (t / dt) : ℝ) - t| ≤ tol

theorem inRange_iff (n : ℕ) (dt tol t : ℝ) : inRange realOps n dt tol t = true ↔ InRange n dt tol t := by
  simp only [inRange, realOps, InRange, Bool.not_eq_true', Bool.or_eq_false_iff, decide_eq_false_iff_not, not_lt]
  push_cast
  exact Iff.rfl

theorem onGrid_iff (dt tol t : ℝ) : onGrid realOps dt tol t = true ↔ OnGrid dt tol t := by
  simp only [onGrid, realOps, OnGrid, decide_eq_true_eq]


theorem inRange_false_iff (n : ℕ) (dt tol t : ℝ) : inRange realOps n dt tol t = false ↔ ¬ InRange n dt tol t := by
  rw [← Bool.not_eq_true, inRange_iff]

theorem onGrid_false_iff (dt tol t : ℝ) : onGrid realOps dt tol t = false ↔ ¬ OnGrid dt tol t := by
  rw [← Bool.not_eq_true, onGrid_iff]

theorem shiftOf_on {dt tol t : ℝ} (h : OnGrid dt tol t) : shiftOf realOps dt tol t = (rhe (t / dt) : ℝ) := by
  unfold shiftOf; rw [(onGrid_iff dt tol t).mpr h]; simp [realOps]

theorem shiftOf_off {dt tol t : ℝ} (h : ¬ OnGrid dt tol t) : shiftOf realOps dt tol t = t / dt := by
  unfold shiftOf; rw [(onGrid_false_iff dt tol t).mpr h]; simp [realOps]

variable {β : Type}

theorem withPair_same (r : Ring.Ring ℝ) (o : ℤ) : withPair (r.read o) (r.read o) (fun p _ => Outcome.ok p) = readO r o := by
  unfold readO withPair; cases r.read o <;> rfl

theorem withPair_some (p q : ℝ) (f : ℝ → ℝ → Outcome β) : withPair (some p) (some q) f = f p q := rfl

theorem read_some (r : Ring.Ring ℝ) (h : r.WF) (o : ℤ) : ∃ v, r.read o = some v := by
  obtain ⟨h0, h1, h2⟩ := h
  unfold Ring.read
  have : unwind r.ptr o r.n < r.data.length := by rw [h2]; exact unwind_lt h0
  exact ⟨r.data[unwind r.ptr o r.n], List.getElem?_eq_getElem this⟩

/-! ### The four code paths and the two specifications in `ℝ` terms -/

theorem selectScalar_out (interp : Interp ℝ) (r : Ring.Ring ℝ) (dt tol t : ℝ) (offset : ℤ)
    (h : ¬ InRange r.n dt tol t) : selectScalar realOps interp r dt tol t offset = .valueError := by
  unfold selectScalar; rw [(inRange_false_iff _ _ _ _).mpr h]; rfl

theorem selectTensor_out (interp : Interp ℝ) (r : Ring.Ring ℝ) (dt tol t : ℝ) (offset : ℤ)
    (h : ¬ InRange r.n dt tol t) : selectTensor realOps interp r dt tol t offset = .valueError := by
  unfold selectTensor; rw [(inRange_false_iff _ _ _ _).mpr h]; rfl

theorem selectScalar_on (interp : Interp ℝ) (r : Ring.Ring ℝ) (dt tol t : ℝ) (offset : ℤ)
    (h1 : InRange r.n dt tol t) (h2 : OnGrid dt tol t) :
    selectScalar realOps interp r dt tol t offset = readO r (offset + rhe (t / dt)) := by
  unfold selectScalar
  rw [(inRange_iff _ _ _ _).mpr h1, (onGrid_iff _ _ _).mpr h2]
  simp [realOps]

theorem selectScalar_off (interp : Interp ℝ) (r : Ring.Ring ℝ) (dt tol t : ℝ) (offset : ℤ)
    (h1 : InRange r.n dt tol t) (h2 : ¬ OnGrid dt tol t) :
    selectScalar realOps interp r dt tol t offset =
      withPair (r.read (offset + ⌈t / dt⌉)) (r.read (offset + ⌊t / dt⌋)) fun p q =>
        .ok (interp p q (dt - dt * Int.fract (t / dt)) dt) := by
  unfold selectScalar
  rw [(inRange_iff _ _ _ _).mpr h1, (onGrid_false_iff _ _ _).mpr h2]
  simp [realOps, sampleAt, mod1]

theorem selectTensor_on (interp : Interp ℝ) (r : Ring.Ring ℝ) (dt tol t : ℝ) (offset : ℤ)
    (h1 : InRange r.n dt tol t) (h2 : OnGrid dt tol t) :
    selectTensor realOps interp r dt tol t offset = readO r (offset + rhe (t / dt)) := by
  unfold selectTensor
  rw [(inRange_iff _ _ _ _).mpr h1, shiftOf_on h2]
  simp only [realOps, ← Int.cast_add, Int.ceil_intCast, Int.floor_intCast, if_true]
  exact withPair_same _ _

theorem selectTensor_off (interp : Interp ℝ) (r : Ring.Ring ℝ) (dt tol t : ℝ) (offset : ℤ)
    (h1 : InRange r.n dt tol t) (h2 : ¬ OnGrid dt tol t) (h3 : ⌈t / dt⌉ ≠ ⌊t / dt⌋) :
    selectTensor realOps interp r dt tol t offset =
      withPair (r.read (offset + ⌈t / dt⌉)) (r.read (offset + ⌊t / dt⌋)) fun p q =>
        .ok (interp p q (dt - dt * Int.fract (t / dt)) dt) := by
  unfold selectTensor
  rw [(inRange_iff _ _ _ _).mpr h1, shiftOf_off h2]
  simp [realOps, sampleAt, mod1, h3]


/-! ### Grid arithmetic -/

theorem grid_dist (dt t : ℝ) (hdt : 0 < dt) (k : ℤ) : |(k : ℝ) * dt - t| = dt * |(k : ℝ) - t / dt| := by
  have : (k : ℝ) * dt - t = dt * ((k : ℝ) - t / dt) := by field_simp
  rw [this, abs_mul, abs_of_pos hdt]

/-- `OnGrid` (the code's test on the rounded quotient) holds iff SOME multiple of `dt` is within
tolerance: the rounded quotient is a nearest one. -/
theorem onGrid_iff_exists (dt tol t : ℝ) (hdt : 0 < dt) :
    OnGrid dt tol t ↔ ∃ k : ℤ, |(k : ℝ) * dt - t| ≤ tol := by
  unfold OnGrid
  rw [mul_comm]
  constructor
  · intro h; exact ⟨_, h⟩
  · rintro ⟨k, hk⟩
    refine le_trans ?_ hk
    rw [grid_dist dt t hdt, grid_dist dt t hdt]
    exact mul_le_mul_of_nonneg_left (rhe_nearest _ k) hdt.le

/-- With `2·tol < dt` at most one multiple of `dt` is within tolerance — the one the code picks. -/
theorem grid_unique (dt tol t : ℝ) (hdt : 0 < dt) (h2 : 2 * tol < dt) (k : ℤ)
    (hk : |(k : ℝ) * dt - t| ≤ tol) : rhe (t / dt) = k := by
  have h1 : |((rhe (t / dt) : ℤ) : ℝ) * dt - t| ≤ tol := by
    refine le_trans ?_ hk
    rw [grid_dist dt t hdt, grid_dist dt t hdt]
    exact mul_le_mul_of_nonneg_left (rhe_nearest _ k) hdt.le
  by_contra hne
  have h3 : (1 : ℝ) ≤ |((rhe (t / dt) : ℤ) : ℝ) - (k : ℝ)| := by
    have : (1 : ℤ) ≤ |rhe (t / dt) - k| := Int.one_le_abs (sub_ne_zero.mpr hne)
    have := (Int.cast_le (R := ℝ)).mpr this
    simpa using this
  have h4 : |((rhe (t / dt) : ℤ) : ℝ) - (k : ℝ)| * dt ≤ 2 * tol := by
    have e : (((rhe (t / dt) : ℤ) : ℝ) - (k : ℝ)) * dt = (((rhe (t / dt) : ℤ) : ℝ) * dt - t) - ((k : ℝ) * dt - t) := by ring
    rw [← abs_of_pos hdt, ← abs_mul, abs_of_pos hdt, e]
    calc _ ≤ |((rhe (t / dt) : ℤ) : ℝ) * dt - t| + |(k : ℝ) * dt - t| := abs_sub _ _
      _ ≤ 2 * tol := by linarith
  nlinarith

/-- Everything the off-grid branch relies on, from `dt > 0`, `tol ≥ 0`, `t` in range and the
code's own test failing. -/
theorem offGrid_facts {n : ℕ} {dt tol t : ℝ} (hdt : 0 < dt) (htol : 0 ≤ tol)
    (hin : InRange n dt tol t) (hoff : ¬ OnGrid dt tol t) :
    (∀ k : ℤ, tol < |(k : ℝ) * dt - t|) ∧ ⌈t / dt⌉ = ⌊t / dt⌋ + 1 ∧ 0 ≤ ⌊t / dt⌋ ∧
    ⌈t / dt⌉ ≤ (n : ℤ) - 1 ∧ dt - dt * Int.fract (t / dt) = (⌈t / dt⌉ : ℝ) * dt - t ∧
    0 < (⌈t / dt⌉ : ℝ) * dt - t ∧ (⌈t / dt⌉ : ℝ) * dt - t < dt := by
  have hall : ∀ k : ℤ, tol < |(k : ℝ) * dt - t| := by
    intro k; by_contra hk
    exact hoff ((onGrid_iff_exists dt tol t hdt).mpr ⟨k, not_lt.mp hk⟩)
  have hs : dt * (t / dt) = t := by field_simp
  have hfl := Int.floor_le (t / dt)
  have hlt := Int.lt_floor_add_one (t / dt)
  have hne : ((⌊t / dt⌋ : ℤ) : ℝ) < t / dt := by
    rcases lt_or_eq_of_le hfl with h | h
    · exact h
    · exfalso
      have := hall ⌊t / dt⌋
      rw [h, mul_comm, hs, sub_self, abs_zero] at this
      linarith
  have hceil : ⌈t / dt⌉ = ⌊t / dt⌋ + 1 := by
    rw [Int.ceil_eq_iff]; push_cast; constructor <;> linarith
  have htpos : 0 < t := by
    have := hall 0
    simp only [Int.cast_zero, zero_mul, zero_sub, abs_neg] at this
    by_contra hneg
    rw [abs_of_nonpos (not_lt.mp hneg)] at this
    linarith [hin.1]
  have htlt : t < dt * ((n : ℝ) - 1) := by
    have := hall ((n : ℤ) - 1)
    push_cast at this
    by_contra hge
    rw [abs_of_nonpos (by linarith)] at this
    linarith [hin.2]
  refine ⟨hall, hceil, ?_, ?_, ?_, ?_, ?_⟩
  · exact Int.floor_nonneg.mpr (div_nonneg htpos.le hdt.le)
  · rw [Int.ceil_le]; push_cast
    rw [div_le_iff₀ hdt]; linarith
  · rw [hceil]; unfold Int.fract; push_cast
    have : dt * (t / dt - ↑⌊t / dt⌋) = t - dt * ↑⌊t / dt⌋ := by rw [mul_sub, hs]
    rw [this]; ring
  · rw [hceil]; push_cast
    have : t = dt * (t / dt) := hs.symm
    nlinarith
  · rw [hceil]; push_cast
    have : t = dt * (t / dt) := hs.symm
    nlinarith


/-! ### Ring facts used by `insert` -/
section RingFacts
variable {α : Type}

theorem slot_eq {p n : ℕ} (hn : 0 < n) (a b : ℤ) :
    unwind p a n = unwind p b n ↔ a % (n : ℤ) = b % (n : ℤ) := by
  rw [← Int.ofNat_inj, unwind_cast hn, unwind_cast hn, Int.emod_eq_emod_iff_emod_sub_eq_zero,
    Int.emod_eq_emod_iff_emod_sub_eq_zero]
  have e : (p : ℤ) - a - ((p : ℤ) - b) = -(a - b) := by omega
  rw [e]
  constructor <;> intro h
  · have := Int.dvd_of_emod_eq_zero h
    exact Int.emod_eq_zero_of_dvd ((Int.dvd_neg).mp this)
  · have := Int.dvd_of_emod_eq_zero h
    exact Int.emod_eq_zero_of_dvd ((Int.dvd_neg).mpr this)

theorem writeInplace_wf (r : Ring.Ring α) (h : r.WF) (x : α) (o : ℤ) : (r.writeInplace x o).WF := by
  obtain ⟨h0, h1, h2⟩ := h; exact ⟨h0, h1, by simp [Ring.writeInplace, h2]⟩

theorem write_eq_inplace (r : Ring.Ring α) (h : r.WF) (x : α) (o : ℤ) (b : Bool) :
    r.write x o b = r.writeInplace x o := by
  unfold Ring.write; split
  · rfl
  · exact writeSplice_eq_inplace r h x o

theorem writeInplace_twice (r : Ring.Ring α) (x : α) (o : ℤ) :
    (r.writeInplace x o).writeInplace x o = r.writeInplace x o := by
  simp [Ring.writeInplace]

theorem read_writeInplace (r : Ring.Ring α) (h : r.WF) (x : α) (o o' : ℤ) :
    (r.writeInplace x o).read o' = if o % (r.n : ℤ) = o' % (r.n : ℤ) then some x else r.read o' := by
  obtain ⟨h0, h1, h2⟩ := h
  unfold Ring.read Ring.writeInplace
  simp only
  rw [List.getElem?_set]
  have hu : unwind r.ptr o r.n < r.data.length := by rw [h2]; exact unwind_lt h0
  by_cases hc : o % (r.n : ℤ) = o' % (r.n : ℤ)
  · rw [if_pos ((slot_eq h0 o o').mpr hc), if_pos hc, if_pos hu]
  · rw [if_neg (fun e => hc ((slot_eq h0 o o').mp e)), if_neg hc]

theorem writerange_pair (r : Ring.Ring α) (h : r.WF) (hn : 2 ≤ r.n) (a b : α) (o : ℤ) :
    r.writerangeScalar [a, b] o false = (r.writeInplace a o).writeInplace b (o - 1) := by
  have key : r.writerangeScalar [a, b] o false = r.writerangeScatter [a, b] o := by
    unfold Ring.writerangeScalar
    simp only [Bool.false_eq_true, if_false]
    split
    · rw [writerangeWrapped_eq_inplace r h [a, b] o hn (by assumption)]
      exact writerangeInplace_eq_scatter r h _ o
    · rw [writerangeContig_eq_inplace r h [a, b] o (by simp at *; omega)]
      exact writerangeInplace_eq_scatter r h _ o
  rw [key]
  simp [Ring.writerangeScatter, Ring.writeInplace, List.zipIdx]

theorem succ_slot_ne {n : ℕ} (hn : 2 ≤ n) (j : ℤ) : (j + 1) % (n : ℤ) ≠ j % (n : ℤ) := by
  rw [Ne, Int.emod_eq_emod_iff_emod_sub_eq_zero]
  have : j + 1 - j = 1 := by omega
  rw [this, Int.emod_eq_of_lt (by omega) (by omega)]
  omega

end RingFacts


/-! ### `insert` code paths in `ℝ` terms -/

theorem insertScalar_out (extrap : Extrap ℝ) (r : Ring.Ring ℝ) (dt tol obs t : ℝ) (offset : ℤ) (b : Bool)
    (h : ¬ InRange r.n dt tol t) : insertScalar realOps extrap r dt tol obs t offset b = .valueError := by
  unfold insertScalar; rw [(inRange_false_iff _ _ _ _).mpr h]; rfl

theorem insertTensor_out (extrap : Extrap ℝ) (r : Ring.Ring ℝ) (dt tol obs t : ℝ) (offset : ℤ)
    (h : ¬ InRange r.n dt tol t) : insertTensor realOps extrap r dt tol obs t offset = .valueError := by
  unfold insertTensor; rw [(inRange_false_iff _ _ _ _).mpr h]; rfl

theorem insertScalar_on (extrap : Extrap ℝ) (r : Ring.Ring ℝ) (hr : r.WF) (dt tol obs t : ℝ) (offset : ℤ)
    (b : Bool) (h1 : InRange r.n dt tol t) (h2 : OnGrid dt tol t) :
    insertScalar realOps extrap r dt tol obs t offset b
      = .ok (r.writeInplace obs (offset + rhe (t / dt))) := by
  unfold insertScalar
  rw [(inRange_iff _ _ _ _).mpr h1, (onGrid_iff _ _ _).mpr h2]
  simp [realOps, write_eq_inplace r hr]

theorem insertTensor_on (extrap : Extrap ℝ) (r : Ring.Ring ℝ) (hr : r.WF) (dt tol obs t : ℝ) (offset : ℤ)
    (h1 : InRange r.n dt tol t) (h2 : OnGrid dt tol t) :
    insertTensor realOps extrap r dt tol obs t offset
      = .ok (r.writeInplace obs (offset + rhe (t / dt))) := by
  unfold insertTensor
  rw [(inRange_iff _ _ _ _).mpr h1, shiftOf_on h2]
  simp only [realOps, ← Int.cast_add, Int.ceil_intCast, Int.floor_intCast, if_true]
  obtain ⟨v, hv⟩ := read_some r hr (offset + rhe (t / dt))
  rw [hv, withPair_some, writeInplace_twice]
  rfl

/-- The storage after an off-grid insert: the two extrapolated values at the two bracketing slots. -/
noncomputable def offGridResult (extrap : Extrap ℝ) (r : Ring.Ring ℝ) (dt obs t : ℝ) (offset : ℤ)
    (p q : ℝ) : Ring.Ring ℝ :=
  let ex := extrap obs ((⌈t / dt⌉ : ℝ) * dt - t) p q dt
  (r.writeInplace ex.1 (offset + ⌈t / dt⌉)).writeInplace ex.2 (offset + ⌊t / dt⌋)

theorem insertScalar_off (extrap : Extrap ℝ) (r : Ring.Ring ℝ) (hr : r.WF) (dt tol obs t : ℝ) (offset : ℤ)
    (b : Bool) (hdt : 0 < dt) (htol : 0 ≤ tol) (h1 : InRange r.n dt tol t) (h2 : ¬ OnGrid dt tol t) :
    ∃ p q, r.read (offset + ⌈t / dt⌉) = some p ∧ r.read (offset + ⌊t / dt⌋) = some q ∧
      insertScalar realOps extrap r dt tol obs t offset b
        = .ok (offGridResult extrap r dt obs t offset p q) := by
  obtain ⟨_, hceil, hf0, hcn, hsa, _, _⟩ := offGrid_facts hdt htol h1 h2
  obtain ⟨p, hp⟩ := read_some r hr (offset + ⌈t / dt⌉)
  obtain ⟨q, hq⟩ := read_some r hr (offset + ⌊t / dt⌋)
  refine ⟨p, q, hp, hq, ?_⟩
  have hn : 2 ≤ r.n := by omega
  unfold insertScalar
  rw [(inRange_iff _ _ _ _).mpr h1, (onGrid_false_iff _ _ _).mpr h2]
  simp only [realOps, sampleAt, mod1, Bool.not_true, Bool.false_eq_true, if_false,
    Int.ceil_intCast_add, Int.floor_intCast_add, Int.self_sub_floor, hp, hq, withPair_some, hsa]
  unfold offGridResult
  cases b
  · simp only [Bool.false_eq_true, if_false, show ¬ (2 > r.n) by omega, shiftOffset, if_true]
    rw [writerange_pair r hr hn]
    congr 2; omega
  · simp only [if_true]

theorem insertTensor_off (extrap : Extrap ℝ) (r : Ring.Ring ℝ) (hr : r.WF) (dt tol obs t : ℝ) (offset : ℤ)
    (hdt : 0 < dt) (htol : 0 ≤ tol) (h1 : InRange r.n dt tol t) (h2 : ¬ OnGrid dt tol t) :
    ∃ p q, r.read (offset + ⌈t / dt⌉) = some p ∧ r.read (offset + ⌊t / dt⌋) = some q ∧
      insertTensor realOps extrap r dt tol obs t offset
        = .ok (offGridResult extrap r dt obs t offset p q) := by
  obtain ⟨_, hceil, hf0, hcn, hsa, _, _⟩ := offGrid_facts hdt htol h1 h2
  obtain ⟨p, hp⟩ := read_some r hr (offset + ⌈t / dt⌉)
  obtain ⟨q, hq⟩ := read_some r hr (offset + ⌊t / dt⌋)
  refine ⟨p, q, hp, hq, ?_⟩
  have h3 : ¬ (offset + ⌈t / dt⌉ = offset + ⌊t / dt⌋) := by omega
  unfold insertTensor
  rw [(inRange_iff _ _ _ _).mpr h1, shiftOf_off h2]
  simp only [realOps, sampleAt, mod1, Bool.not_true, Bool.false_eq_true, if_false,
    Int.ceil_intCast_add, Int.floor_intCast_add, Int.self_sub_floor, hp, hq, withPair_some, hsa, h3]
  rfl


theorem rhe_floor_or_ceil (x : ℝ) : rhe x = ⌊x⌋ ∨ rhe x = ⌈x⌉ := by
  rcases rhe_floor_or x with ⟨e, _⟩ | ⟨e, h⟩
  · exact Or.inl e
  · right; rw [e, eq_comm, Int.ceil_eq_iff]; push_cast
    constructor <;> linarith [Int.lt_floor_add_one x]


theorem read_put2 (r : Ring.Ring ℝ) (hr : r.WF) (a b : ℝ) (i j o' : ℤ) :
    ((r.writeInplace a i).writeInplace b j).read o' =
      if j % (r.n : ℤ) = o' % (r.n : ℤ) then some b
      else if i % (r.n : ℤ) = o' % (r.n : ℤ) then some a else r.read o' := by
  rw [read_writeInplace _ (writeInplace_wf r hr a i), read_writeInplace r hr]; rfl


/-! ### Concrete facts used by the negation witnesses of `Props/C02.lean` -/

/-- All-zero two-slot ring used by the witnesses. -/
def z2 : Ring.Ring ℝ := ⟨2, 0, [0, 0]⟩
theorem z2_wf : z2.WF := by unfold Ring.WF z2; simp

theorem half_off_grid : ∀ k : ℤ, (0 : ℝ) < |(k : ℝ) * 1 - 1 / 2| := by
  intro k
  apply abs_pos.mpr
  intro h
  have h2 : (2 : ℝ) * (k : ℝ) = 1 := by linarith
  have h3 : (2 : ℤ) * k = 1 := by exact_mod_cast h2
  omega

theorem half_in_range : InRange z2.n 1 0 (1 / 2) := by
  unfold InRange z2; norm_num

theorem rhe_quarter : rhe ((1 / 4 : ℝ) / 1) = 0 := by
  have hf : ⌊(1 / 4 : ℝ) / 1⌋ = 0 := by rw [Int.floor_eq_iff]; norm_num
  unfold rhe; rw [hf]; norm_num


end InfernoVerif.Select
