import InfernoVerif.Model.STDP
import InfernoVerif.Lemmas.Recurrence
import InfernoVerif.Lemmas.Ring
import Mathlib.Algebra.BigOperators.Group.Finset.Basic
import Mathlib.Algebra.BigOperators.Ring.Finset
import Mathlib.Algebra.BigOperators.Intervals
import Mathlib.Algebra.BigOperators.Ring.List
import Mathlib.Analysis.SpecialFunctions.Exp
import Mathlib.Tactic.Ring
import Mathlib.Tactic.Linarith
import Mathlib.Tactic.SplitIfs
/-!
# Helper lemmas for C08 (and C18): the generated trace kernels on spike trains

Closed forms of the cumulative / nearest spike traces (via `Lemmas/Recurrence.lean`), the delayed
view of a reducer record (via `Ring.pushes_then_read`), the trace of a delay-shifted train, the
per-(sample, field element) identities "what `forward` multiplies = the documented pair term",
and the sum manipulations used by `Props/C08.lean`.
-/
namespace InfernoVerif.STDP.R
open Finset InfernoVerif.Recurrence

/-! ## list sums -/

theorem foldl_add (xs : List ℝ) (a : ℝ) : xs.foldl (· + ·) a = a + xs.sum := by
  induction xs generalizing a with
  | nil => simp
  | cons x xs ih => simp [ih, add_assoc]

theorem lsum_eq_sum (xs : List ℝ) : lsum xs = xs.sum := by
  unfold lsum; rw [foldl_add]; simp

theorem lsum_map_range (f : ℕ → ℝ) (n : ℕ) : lsum ((List.range n).map f) = ∑ i ∈ range n, f i := by
  rw [lsum_eq_sum]
  induction n with
  | zero => simp
  | succ n ih => rw [List.range_succ, List.map_append, List.sum_append, ih, sum_range_succ]; simp

@[simp] theorem lsum_singleton (x : ℝ) : lsum [x] = x := by simp [lsum]

/-! ## the generated fold kernels on boolean observations -/

theorem ind_mask (o : Bool) : (if ind o = (1 : ℝ) then (1 : ℝ) else 0) = ind o := by
  cases o <;> simp [ind]

theorem ind_eq_one (o : Bool) : (ind o = (1 : ℝ)) ↔ o = true := by
  cases o <;> simp [ind]

theorem cumFold_none (d A : ℝ) (o : Bool) : cumFold d A o none = A * ind o := by
  simp only [cumFold, Gen.TraceR.trace_cumulative, ind_mask]

theorem cumFold_some (d A x : ℝ) (o : Bool) : cumFold d A o (some x) = d * x + A * ind o := by
  simp only [cumFold, Gen.TraceR.trace_cumulative, ind_mask]

theorem nearFold_none (d A : ℝ) (o : Bool) : nearFold d A o none = A * ind o := by
  simp only [nearFold, Gen.TraceR.trace_nearest, ind_mask]

theorem nearFold_some (d A x : ℝ) (o : Bool) : nearFold d A o (some x) = if o then A else d * x := by
  simp only [nearFold, Gen.TraceR.trace_nearest, ind_eq_one]

theorem eligFold_none (d s o : ℝ) : eligFold d s o none = s * o := rfl
theorem eligFold_some (d s o x : ℝ) : eligFold d s o (some x) = d * x + s * o := rfl

/-- `exp(-dt/τ)^m` is the window over `m` steps -/
theorem decayOf_pow (dt tau : ℝ) (m : ℕ) : decayOf dt tau ^ m = win dt tau m := by
  unfold decayOf win; exact exp_decay_pow dt tau m

/-! ## closed forms of the spike traces -/

/-- cumulative trace: every earlier spike, each decayed by its age -/
theorem cum_closed (d A : ℝ) (s : ℕ → Bool) (t : ℕ) :
    spikeTrace false d A s t = ∑ u ∈ range (t + 1), d ^ (t - u) * (A * ind (s u)) := by
  unfold spikeTrace
  simp only [Bool.false_eq_true, if_false]
  apply recurrence_closed d (fun u => A * ind (s u)) (foldRun (cumFold d A) s)
  · simp [foldRun, cumFold_none]
  · intro n; simp [foldRun, cumFold_some]

theorem lastSpike_le (s : ℕ → Bool) (t u : ℕ) (h : lastSpike s t = some u) : u ≤ t := by
  induction t with
  | zero => simp only [lastSpike] at h; split_ifs at h; simp_all
  | succ t ih =>
    simp only [lastSpike] at h
    split_ifs at h
    · simp_all
    · exact Nat.le_succ_of_le (ih h)

/-- `lastSpike` is the most recent spike: it is a spike, at or before `t`, with none after it -/
theorem lastSpike_some_iff (s : ℕ → Bool) (t u : ℕ) :
    lastSpike s t = some u ↔ u ≤ t ∧ s u = true ∧ ∀ j, u < j → j ≤ t → s j = false := by
  induction t with
  | zero =>
    simp only [lastSpike]
    constructor
    · intro h; split_ifs at h with h0
      · simp only [Option.some.injEq] at h; subst h; exact ⟨le_refl _, h0, fun j hj hj' => by omega⟩
    · rintro ⟨h1, h2, _⟩
      have : u = 0 := by omega
      subst this; simp [h2]
  | succ t ih =>
    simp only [lastSpike]
    by_cases hs : s (t + 1) = true
    · rw [if_pos hs]
      constructor
      · intro h; simp only [Option.some.injEq] at h; subst h
        exact ⟨le_refl _, hs, fun j hj hj' => by omega⟩
      · rintro ⟨h1, h2, h3⟩
        by_cases hu : u = t + 1
        · rw [hu]
        · have := h3 (t + 1) (by omega) (le_refl _); simp_all
    · rw [if_neg hs, ih]
      constructor
      · rintro ⟨h1, h2, h3⟩
        refine ⟨by omega, h2, fun j hj hj' => ?_⟩
        by_cases hj2 : j = t + 1
        · subst hj2; simpa using hs
        · exact h3 j hj (by omega)
      · rintro ⟨h1, h2, h3⟩
        have : u ≠ t + 1 := by rintro rfl; exact hs h2
        exact ⟨by omega, h2, fun j hj hj' => h3 j hj (by omega)⟩

theorem lastSpike_none_iff (s : ℕ → Bool) (t : ℕ) :
    lastSpike s t = none ↔ ∀ j, j ≤ t → s j = false := by
  induction t with
  | zero =>
    simp only [lastSpike]
    constructor
    · intro h j hj; have : j = 0 := by omega
      subst this; split_ifs at h with h0; simpa using h0
    · intro h; simp [h 0 (le_refl _)]
  | succ t ih =>
    simp only [lastSpike]
    by_cases hs : s (t + 1) = true
    · simp only [hs, if_true]
      constructor
      · intro h; cases h
      · intro h; have := h (t + 1) (le_refl _); simp_all
    · rw [if_neg hs, ih]
      constructor
      · intro h j hj
        by_cases hj2 : j = t + 1
        · subst hj2; simpa using hs
        · exact h j (by omega)
      · intro h j hj; exact h j (by omega)

/-- nearest trace: the most recent spike only, decayed by its age; zero before the first spike -/
theorem near_closed (d A : ℝ) (s : ℕ → Bool) (t : ℕ) :
    spikeTrace true d A s t = match lastSpike s t with
      | some u => A * d ^ (t - u)
      | none => 0 := by
  unfold spikeTrace
  simp only [if_true]
  induction t with
  | zero =>
    simp only [foldRun, nearFold_none, lastSpike]
    cases h : s 0 <;> simp [ind]
  | succ t ih =>
    simp only [foldRun, nearFold_some, lastSpike, ih]
    cases h : s (t + 1)
    · simp only [Bool.false_eq_true, if_false]
      cases h2 : lastSpike s t with
      | none => simp
      | some u =>
        have hu := lastSpike_le s t u h2
        simp only
        rw [Nat.succ_sub hu, pow_succ]; ring
    · simp


/-! ## delays: the shifted train and the delayed view -/

theorem shift_zero (s : ℕ → Bool) : shift 0 s = s := by
  funext t; simp [shift]

/-- a fold that maps "no event on an empty state" to `0` and cannot tell `None` from a zero state -/
structure ZeroStart (F : Bool → Option ℝ → ℝ) : Prop where
  none_false : F false none = 0
  zero_false : F false (some 0) = 0
  zero_eq_none : ∀ o, F o (some 0) = F o none

theorem zeroStart_cum (d A : ℝ) : ZeroStart (cumFold d A) :=
  ⟨by simp [cumFold_none, ind], by simp [cumFold_some, ind], fun o => by simp [cumFold_none, cumFold_some]⟩

theorem zeroStart_near (d A : ℝ) : ZeroStart (nearFold d A) :=
  ⟨by simp [nearFold_none, ind], by simp [nearFold_some], fun o => by cases o <;> simp [nearFold_none, nearFold_some, ind]⟩

theorem foldRun_shift (F : Bool → Option ℝ → ℝ) (hF : ZeroStart F) (k : ℕ) (s : ℕ → Bool) (t : ℕ) :
    foldRun F (shift k s) t = if t < k then 0 else foldRun F s (t - k) := by
  induction t with
  | zero =>
    by_cases hk : 0 < k
    · simp [foldRun, shift, hk, hF.none_false]
    · have : k = 0 := by omega
      subst this; simp [foldRun, shift]
  | succ t ih =>
    simp only [foldRun, ih]
    by_cases h1 : t + 1 < k
    · have h2 : t < k := by omega
      simp [shift, h1, h2, hF.zero_false]
    · rw [if_neg h1]
      by_cases h2 : t < k
      · have h3 : t + 1 = k := by omega
        simp only [h2, if_true, shift, h3, Nat.sub_self, foldRun]
        rw [hF.zero_eq_none]; simp
      · have h3 : t + 1 - k = (t - k) + 1 := by omega
        simp only [h2, if_false, shift, h1, h3, foldRun]

/-- the trace of the delayed train is the delayed trace -/
theorem shift_trace (near : Bool) (d A : ℝ) (k : ℕ) (s : ℕ → Bool) (t : ℕ) :
    spikeTrace near d A (shift k s) t = if t < k then 0 else spikeTrace near d A s (t - k) := by
  unfold spikeTrace
  cases near
  · exact foldRun_shift _ (zeroStart_cum d A) k s t
  · exact foldRun_shift _ (zeroStart_near d A) k s t

/-- reading `k` steps behind the latest push of a zero-filled record of `n > k` slots -/
theorem recordRead_eq (n : ℕ) (x : ℕ → ℝ) (t k : ℕ) (hk : k < n) :
    recordRead n x t (k + 1) = some (if t < k then 0 else x (t - k)) := by
  unfold recordRead
  have hc : (((k + 1 : ℕ)) : ℤ) = (k : ℤ) + 1 := by push_cast; ring
  rw [hc, Ring.pushes_then_read n 0 _ k hk]
  simp only [List.length_map, List.length_range]
  by_cases h : t < k
  · have : ¬ k < t + 1 := by omega
    simp [h, this]
  · have h2 : k < t + 1 := by omega
    simp only [h2, dif_pos, h, if_false, List.getElem_map, List.getElem_range]
    congr 2

theorem viewBack_eq (n : ℕ) (x : ℕ → ℝ) (t k : ℕ) (hk : k < n) :
    viewBack n x t k = if t < k then 0 else x (t - k) := by
  unfold viewBack; rw [recordRead_eq n x t k hk]; rfl

/-! ## sums over the partner's spikes -/

theorem sum_range_cond (g : ℕ → ℝ) (k t : ℕ) :
    ∑ u ∈ range (t + 1), (if u + k ≤ t then g u else 0) =
      if t < k then 0 else ∑ v ∈ range (t - k + 1), g v := by
  rw [← sum_filter]
  by_cases h : t < k
  · rw [if_pos h]
    apply sum_eq_zero
    intro u hu; simp only [mem_filter, mem_range] at hu; omega
  · rw [if_neg h]
    apply sum_congr _ (fun _ _ => rfl)
    ext u; simp only [mem_filter, mem_range]; omega


theorem pairAll_eq (dt tau : ℝ) (s : ℕ → Bool) (k t : ℕ) :
    pairAll dt tau s k t =
      if t < k then 0 else ∑ v ∈ range (t - k + 1), (if s v then win dt tau (t - k - v) else 0) := by
  unfold pairAll
  rw [lsum_map_range, ← sum_range_cond]
  apply sum_congr rfl
  intro u _
  by_cases h1 : u + k ≤ t
  · have : t - (u + k) = t - k - u := by omega
    cases hs : s u <;> simp [h1, this]
  · cases hs : s u <;> simp [h1]

/-- the trace of the delayed train is the amplitude times the pair kernel (both trace modes) -/
theorem trace_pair (near : Bool) (dt tau A : ℝ) (k : ℕ) (s : ℕ → Bool) (t : ℕ) :
    spikeTrace near (decayOf dt tau) A (shift k s) t = A * pairK near dt tau s k t := by
  rw [shift_trace]
  unfold pairK
  cases near
  · simp only [Bool.false_eq_true, if_false]
    rw [pairAll_eq]
    by_cases h : t < k
    · simp [h]
    · simp only [h, if_false]
      rw [cum_closed, mul_sum]
      apply sum_congr rfl
      intro v _
      rw [decayOf_pow]
      cases hs : s v <;> simp [ind]; ring
  · simp only [if_true]
    unfold pairLast
    by_cases h : t < k
    · simp [h]
    · simp only [h, if_false]
      rw [near_closed]
      cases lastSpike s (t - k) with
      | none => simp
      | some u => simp only; rw [decayOf_pow]

theorem trace_pair0 (near : Bool) (dt tau A : ℝ) (s : ℕ → Bool) (t : ℕ) :
    spikeTrace near (decayOf dt tau) A s t = A * pairK near dt tau s 0 t := by
  rw [← trace_pair, shift_zero]

/-! ## what `forward` reads equals the delay-shifted quantities (`delayed` and frozen modes agree) -/

theorem xPre_eq (c : Cfg) (pre : ℕ → Bool) (k t : ℕ) (hk : c.delayed = true → k ≤ c.D) :
    xPre c pre k t = spikeTrace c.nearest (decayOf c.dt c.tcPre) |c.lrPost| (shift k pre) t := by
  unfold xPre
  by_cases hd : c.delayed = true
  · rw [if_pos hd, viewBack_eq _ _ _ _ (by have := hk hd; omega), shift_trace]
  · rw [if_neg hd]

theorem iPre_eq (c : Cfg) (pre : ℕ → Bool) (k t : ℕ) (hk : c.delayed = true → k ≤ c.D) :
    iPre c pre k t = ind (shift k pre t) := by
  unfold iPre
  by_cases hd : c.delayed = true
  · rw [if_pos hd, viewBack_eq _ _ _ _ (by have := hk hd; omega)]
    unfold shift; by_cases h : t < k <;> simp [h, ind]
  · rw [if_neg hd]

/-- per (sample, field element): the post-triggered term of `forward` is the documented one -/
theorem dpost_syn (c : Cfg) (k : ℕ) (s : Syn) (t : ℕ) (hk : c.delayed = true → k ≤ c.D) :
    ind (s.post t) * xPre c s.pre k t = specPost c k s t := by
  rw [xPre_eq c s.pre k t hk, trace_pair]
  unfold specPost
  cases s.post t <;> simp [ind]

/-- per (sample, field element): the pre-triggered term of `forward` is the documented one -/
theorem dpre_syn (c : Cfg) (k : ℕ) (s : Syn) (t : ℕ) (hk : c.delayed = true → k ≤ c.D) :
    iPre c s.pre k t * xPost c s.post t = specPre c k s t := by
  rw [iPre_eq c s.pre k t hk]
  unfold xPost specPre
  rw [trace_pair0]
  cases shift k s.pre t <;> simp [ind]

theorem dpostB_eq (c : Cfg) (k : ℕ) (f : List Syn) (t : ℕ) (hk : c.delayed = true → k ≤ c.D) :
    dpostB c k f t = lsum (f.map fun s => specPost c k s t) := by
  unfold dpostB; congr 1; apply List.map_congr_left; intro s _; exact dpost_syn c k s t hk

theorem dpreB_eq (c : Cfg) (k : ℕ) (f : List Syn) (t : ℕ) (hk : c.delayed = true → k ≤ c.D) :
    dpreB c k f t = lsum (f.map fun s => specPre c k s t) := by
  unfold dpreB; congr 1; apply List.map_congr_left; intro s _; exact dpre_syn c k s t hk

/-! ## eligibility trace -/

theorem z_closed (dt tcz : ℝ) (a : ℕ → ℝ) (t : ℕ) :
    foldRun (eligFold (decayOf dt tcz) (1 / tcz)) a t = specZ dt tcz a t := by
  unfold specZ
  rw [lsum_map_range]
  rw [recurrence_closed (decayOf dt tcz) (fun u => 1 / tcz * a u) (foldRun (eligFold (decayOf dt tcz) (1 / tcz)) a)
    (by simp [foldRun, eligFold_none]) (by intro n; simp [foldRun, eligFold_some]) t]
  apply sum_congr rfl
  intro u _
  rw [decayOf_pow]; ring


/-! ## triplet STDP -/

/-- `read(2)` of a 3-slot record / `select(…, offset=2)`: one step before the latest, `0` at the first step -/
theorem slow_prev (near : Bool) (dt tau amp : ℝ) (s : ℕ → Bool) (t : ℕ) :
    1 + viewBack 3 (spikeTrace near (decayOf dt tau) amp s) t 1 = tripletFactor near dt tau amp s t := by
  rw [viewBack_eq _ _ _ _ (by omega)]
  unfold tripletFactor
  by_cases h : t = 0
  · subst h; simp
  · have h1 : ¬ t < 1 := by omega
    rw [if_neg h1, if_neg h, trace_pair0]

theorem yB_factor (c : TCfg) (post : ℕ → Bool) (t : ℕ) :
    1 + yB c post t = tripletFactor c.nearest c.dt c.tcPostSlow (slowAmp c.bPost c.aPost) post t := by
  unfold yB; exact slow_prev _ _ _ _ _ _

theorem xB_factor (c : TCfg) (pre : ℕ → Bool) (k t : ℕ) (hk : c.delayed = true → k ≤ c.D) :
    1 + xB c pre k t =
      tripletFactor c.nearest c.dt c.tcPreSlow (slowAmp c.bPre c.aPre) (shift k pre) t := by
  unfold xB
  by_cases hd : c.delayed = true
  · rw [if_pos hd, ← slow_prev, viewBack_eq _ _ _ _ (by have := hk hd; omega), viewBack_eq _ _ _ _ (by omega)]
    congr 1
    by_cases h0 : t < 1
    · have : t < k + 1 := by omega
      simp [h0, this]
    · rw [if_neg h0, shift_trace]
      by_cases h1 : t < k + 1
      · have : t - 1 < k := by omega
        simp [h1, this]
      · have : ¬ t - 1 < k := by omega
        have h2 : t - (k + 1) = t - 1 - k := by omega
        simp [h1, this, h2]
  · rw [if_neg hd, slow_prev]

theorem xA_eq (c : TCfg) (pre : ℕ → Bool) (k t : ℕ) (hk : c.delayed = true → k ≤ c.D) :
    xA c pre k t = |c.aPost| * pairK c.nearest c.dt c.tcPreFast pre k t := by
  unfold xA
  by_cases hd : c.delayed = true
  · rw [if_pos hd, viewBack_eq _ _ _ _ (by have := hk hd; omega), ← trace_pair, shift_trace]
  · rw [if_neg hd, trace_pair]

theorem iPreT_eq (c : TCfg) (pre : ℕ → Bool) (k t : ℕ) (hk : c.delayed = true → k ≤ c.D) :
    iPreT c pre k t = ind (shift k pre t) := by
  unfold iPreT
  by_cases hd : c.delayed = true
  · rw [if_pos hd, viewBack_eq _ _ _ _ (by have := hk hd; omega)]
    unfold shift; by_cases h : t < k <;> simp [h, ind]
  · rw [if_neg hd]

theorem triplet_dpost_syn (c : TCfg) (k : ℕ) (s : Syn) (t : ℕ) (hk : c.delayed = true → k ≤ c.D) :
    ((1 + yB c s.post t) * ind (s.post t)) * xA c s.pre k t = specTripletPost c k s t := by
  rw [yB_factor, xA_eq c s.pre k t hk]
  unfold specTripletPost
  cases s.post t <;> simp [ind]; ring

theorem triplet_dpre_syn (c : TCfg) (k : ℕ) (s : Syn) (t : ℕ) (hk : c.delayed = true → k ≤ c.D) :
    ((1 + xB c s.pre k t) * iPreT c s.pre k t) * yA c s.post t = specTripletPre c k s t := by
  rw [xB_factor c s.pre k t hk, iPreT_eq c s.pre k t hk]
  unfold specTripletPre yA
  rw [trace_pair0]
  cases shift k s.pre t <;> simp [ind]; ring

/-! ## routing and signals -/

theorem net_route (a b : Bool) (x y : ℝ) :
    net (route a b x y) = (if a then x else -x) + (if b then y else -y) := by
  cases a <;> cases b <;> simp [net, route, part] <;> ring

theorem sign_abs (x : ℝ) : (if decide (x ≥ 0) = true then |x| else -|x|) = x := by
  by_cases h : 0 ≤ x
  · simp [h, abs_of_nonneg]
  · have : x < 0 := lt_of_not_ge h
    simp [h, abs_of_neg this]

/-- the sign picked by `lr * signal >= 0`, times `|signal * scale|`, is `signal * |scale|` times the sign of `lr` -/
theorem sign_signal (lr signal scale x : ℝ) (hlr : lr ≠ 0) :
    (if decide (lr * signal ≥ 0) = true then x * |signal * scale| else -(x * |signal * scale|)) =
      signal * |scale| * (if decide (lr ≥ 0) = true then x else -x) := by
  rw [abs_mul]
  rcases lt_trichotomy signal 0 with hs | hs | hs
  · rcases lt_or_gt_of_ne hlr with hl | hl
    · have h1 : lr * signal ≥ 0 := le_of_lt (mul_pos_of_neg_of_neg hl hs)
      have h2 : ¬ lr ≥ 0 := not_le.mpr hl
      simp only [h1, h2, decide_true, decide_false, if_true, Bool.false_eq_true, if_false, abs_of_neg hs]; ring
    · have h1 : ¬ lr * signal ≥ 0 := not_le.mpr (mul_neg_of_pos_of_neg hl hs)
      have h2 : lr ≥ 0 := le_of_lt hl
      simp only [h1, h2, decide_true, decide_false, if_true, Bool.false_eq_true, if_false, abs_of_neg hs]; ring
  · subst hs; simp
  · rcases lt_or_gt_of_ne hlr with hl | hl
    · have h1 : ¬ lr * signal ≥ 0 := not_le.mpr (mul_neg_of_neg_of_pos hl hs)
      have h2 : ¬ lr ≥ 0 := not_le.mpr hl
      simp only [h1, h2, decide_false, Bool.false_eq_true, if_false, abs_of_pos hs]; ring
    · have h1 : lr * signal ≥ 0 := le_of_lt (mul_pos hl hs)
      have h2 : lr ≥ 0 := le_of_lt hl
      simp only [h1, h2, decide_true, if_true, abs_of_pos hs]; ring


/-! ## sum manipulation for the pair-sum statements -/

/-- the window sum over `u ≤ t` may be written over any longer range: later partners do not pair -/
theorem sum_extend (g : ℕ → ℝ) (k t N : ℕ) (ht : t < N) :
    ∑ u ∈ range (t + 1), (if u + k ≤ t then g u else 0) = ∑ u ∈ range N, (if u + k ≤ t then g u else 0) := by
  apply sum_subset
  · intro u hu; simp only [mem_range] at hu ⊢; omega
  · intro u _ hu2
    simp only [mem_range] at hu2
    have : ¬ u + k ≤ t := by omega
    simp [this]

/-- summing over arrival times `t = v + k` of delayed events is summing over their emission times `v` -/
theorem sum_shift_aux (h : ℕ → ℝ) (k N : ℕ) :
    ∑ t ∈ range N, (if t < k then 0 else h (t - k)) = ∑ v ∈ range (N - k), h v := by
  induction N with
  | zero => simp
  | succ N ih =>
    rw [sum_range_succ, ih]
    by_cases hN : N < k
    · have : N + 1 - k = N - k := by omega
      simp [hN, this]
    · have : N + 1 - k = (N - k) + 1 := by omega
      rw [this, sum_range_succ]; simp [hN]

theorem sum_shift_reindex (h : ℕ → ℝ) (k N : ℕ) :
    ∑ t ∈ range N, (if t < k then 0 else h (t - k)) = ∑ v ∈ range N, (if v + k < N then h v else 0) := by
  rw [sum_shift_aux, ← sum_filter]
  apply sum_congr _ (fun _ _ => rfl)
  ext v; simp only [mem_filter, mem_range]; omega

theorem finset_sum_list_map {α : Type} (s : Finset ℕ) (l : List α) (f : ℕ → α → ℝ) :
    ∑ t ∈ s, (l.map (f t)).sum = (l.map fun x => ∑ t ∈ s, f t x).sum := by
  induction l with
  | nil => simp
  | cons x l ih => simp [sum_add_distrib, ih]

theorem part_redOpt_sum (xs : List ℝ) : part (redOpt .sum xs) = xs.sum := by
  unfold redOpt
  cases xs with
  | nil => simp [part]
  | cons x xs => simp [part, reduce, lsum_eq_sum]

/-- regular minus inverted samples = every sample with the sign of its signal -/
theorem pick_diff (sig xs : List ℝ) :
    (pick (fun s => decide (s ≥ 0)) sig xs).sum - (pick (fun s => decide (s < 0)) sig xs).sum =
      ((xs.zip sig).map fun p => if p.2 ≥ 0 then p.1 else -p.1).sum := by
  unfold pick
  induction xs generalizing sig with
  | nil => simp
  | cons x xs ih =>
    cases sig with
    | nil => simp
    | cons s sig =>
      simp only [List.zip_cons_cons, List.filterMap_cons, List.map_cons, List.sum_cons]
      have := ih sig
      by_cases hs : s ≥ 0
      · have hs' : ¬ s < 0 := not_lt.mpr hs
        simp only [hs, hs', decide_true, decide_false, if_true, Bool.false_eq_true, if_false, List.sum_cons]
        linarith
      · have hs' : s < 0 := lt_of_not_ge hs
        simp only [hs, hs', decide_true, decide_false, if_true, Bool.false_eq_true, if_false, List.sum_cons]
        linarith

end InfernoVerif.STDP.R
